"""X08 (extended coverage) - the obstacle object as a state machine over its non-geometric time series and parameters
(spec: ObstacleLife.tla, MC_ObstacleLife.tla).

StaticObstacle / DynamicObstacle: constructor storage, every plain setter with valid / None / wrong-typed / undocumented
values, the immutable parameters (id, role, type, shape), update_initial_state over ALL parallel histories (history,
signal_history, center_/shape_lanelet_ids_history: order, truncation, None entries, rejected calls), update_prediction and
the signal series, signal_state_at_time_step, str(); the parameter surfaces of PhantomObstacle / EnvironmentObstacle /
TrajectoryPrediction.wheelbase_lengths; the ObstacleType / ObstacleRole enumerations against the format definition;
Scenario.obstacles_by_role_and_type over add / remove / set-type / update histories."""
import json
import random
import re
import warnings

from crv import graph, tlc
from crv.core import use_repo

PROPERTY = "X08"
MODULES = ["ObstacleLife", "MC_ObstacleLife", "Trace_ObstacleLife"]
TRACE = ("Trace_ObstacleLife", "Trace_ObstacleLife.cfg")
EXHAUSTIVE = True
RULE = ("TLC explores the implementation-shaped model of the obstacle object exhaustively in four domains (dynh: a "
        "DynamicObstacle built from 3 argument profiles or with unequal history lists, up to MaxUpd update_initial_state "
        "calls with max_history_length 0..MaxH and five kinds of invalid arguments, interleaved assignments of signal "
        "state / lanelet ids, update_prediction with 3 signal series, signal_state_at_time_step at t0-1..t0+2, str, "
        "hash; dyns: the setter table of 42 (attribute, value kind) rows on a Static/DynamicObstacle plus the four "
        "immutable parameters; scn: scenarios of up to MaxScn obstacles over 4 roles x types with the 25 role/type "
        "filters; par: the 48-row parameter-surface table incl. wrong-typed constructor arguments), checks that the "
        "contract accepts every step plus object invariants / laws, and dumps the labelled state graph; a transition "
        "cover of that graph (every edge once) is executed on real objects, every table row on a fresh object, plus "
        "seeded random histories beyond TLC's bounds (ids / time steps up to 10^6, 60 calls, histories up to 12, all 16 "
        "obstacle types). TLC validates every logged call against ObstacleLife.tla. distinct_nontrivial = distinct "
        "walks / table rows / random seeds.")
ASSUMPTIONS = ["contract read from the docstrings, the messages of the argument asserts, the CHANGELOG (InitialState "
               "enforced for initial_state) and the XSD / protobuf enumerations; where they are silent both behaviours "
               "are accepted: signal_series / meta information after update_initial_state (dropped or kept), "
               "update_prediction without a signal series, update_prediction(None), frozenset / numpy-int id sets, a "
               "tuple as series, bool as external_dataset_id, PhantomObstacle.obstacle_id assignment, a non-Initial "
               "TraceState as current_state (accepted or rejected), history lists of unequal length handed to the "
               "constructor (each list truncated or not), which of several signal states of one time step is returned",
               "a call that raises must leave the observable snapshot of the object unchanged (reported separately as "
               ".../reject-not-atomic)",
               "objects are compared through an integer projection (time step + content tag of states / signal states, "
               "sorted id lists); the expected snapshot is computed by TLC from ObstacleLife.tla, never by the harness"]

NOSIG, NOSER, NOIDS, NOMSER = [-1, -1], [[-2, -2]], [-1], [-1]
_ATTR = {"sig": "initial_signal_state", "ser": "signal_series", "cen": "initial_center_lanelet_ids",
         "shp": "initial_shape_lanelet_ids", "init": "initial_state", "meta": "initial_meta_information_state",
         "mser": "meta_information_series", "ext": "external_dataset_id", "pred": "prediction"}
_IMM = {"id": "obstacle_id", "role": "obstacle_role", "type": "obstacle_type", "shape": "obstacle_shape"}
_WALK_KEYS = ("op", "a", "attr", "how", "kind", "val", "pred", "ser", "t", "o", "i", "type", "role")
TYPES = ["unknown", "car", "truck", "bus", "bicycle", "pedestrian", "priorityVehicle", "parkedVehicle",
         "constructionZone", "train", "roadBoundary", "motorcycle", "taxi", "building", "pillar", "median_strip"]


# ---- design-level half -------------------------------------------------------------------------------

def model_check(ctx):
    ctx.mc("MC_ObstacleLife", "MC_ObstacleLife_t.cfg" if ctx.thorough else "MC_ObstacleLife.cfg", coverage=True,
           timeout=1800)
    ctx.mc_expect("MC_ObstacleLife", "DEV_ObstacleLife_1.cfg", "PropRejectAtomic")    # SHIPPED
    ctx.mc_expect("MC_ObstacleLife", "DEV_ObstacleLife_2.cfg", "InvParallel")
    ctx.mc_expect("MC_ObstacleLife", "DEV_ObstacleLife_3.cfg", "PropUpdate")
    ctx.mc_expect("MC_ObstacleLife", "DEV_ObstacleLife_4.cfg", "PropRefines")
    ctx.mc_expect("MC_ObstacleLife", "DEV_ObstacleLife_5.cfg", "PropRefines")
    ctx.mc_expect("MC_ObstacleLife", "DEV_ObstacleLife_6.cfg", "PropImmutable")
    ctx.mc_expect("MC_ObstacleLife", "DEV_ObstacleLife_7.cfg", "InvPar")              # SHIPPED
    ctx.mc_expect("MC_ObstacleLife", "DEV_ObstacleLife_8.cfg", "PropRefines")
    ctx.mc_expect("MC_ObstacleLife", "DEV_ObstacleLife_9.cfg", "PropRefines")         # SHIPPED


def cases(ctx):
    cfg = "GEN_ObstacleLife_t.cfg" if ctx.thorough else "GEN_ObstacleLife.cfg"
    r = tlc.run_tlc("MC_ObstacleLife", cfg, "x08_gen", workers=1, timeout=1800)
    if not r["ok"]:
        raise tlc.MachineryError("GEN failed: " + r["out"][-2000:])
    g = graph.parse_edges(tlc.tla_unquote(p) for p in tlc.printed_tuples(r["out"], "EDGE"))
    cs = []
    n_edges = sum(len(v) for v in g.values())
    n_walks = 0
    for d in ("dynh", "dyns", "scn"):
        sub = {k: v for k, v in g.items() if json.loads(k)["d"] == d}
        inits = [k for k in sub if json.loads(k)["live"] == 0 and not json.loads(k)["S"]]
        if len(inits) != 1:
            raise tlc.MachineryError("initial state of domain %s not unique in the dumped graph (%d)" % (d, len(inits)))
        for w in graph.cover_walks(sub, inits[0], max_len=30, rng=ctx.rng):
            cs.append({"src": "walk", "kind": d, "ops": [{k: a[k] for k in _WALK_KEYS if k in a} for a in w]})
            n_walks += 1
    n_rows = 0
    for p in tlc.printed_tuples(r["out"], "CASE"):
        c = json.loads(tlc.tla_unquote(p))
        cs.append(dict(c, src="tlc", kind="par"))
        n_rows += 1
    if not n_rows or not n_walks:
        raise tlc.MachineryError("GEN produced no cases:\n" + r["out"][-2000:])
    cs.append({"src": "tlc", "kind": "parx"})
    ctx.mc_runs.append({"module": "MC_ObstacleLife", "cfg": cfg, "distinct_states": r["distinct"],
                        "states_generated": r["generated"], "depth": r["depth"], "wall_s": r["wall_s"],
                        "verdict": "dumped %d labelled edges -> %d covering walks; %d table rows" % (n_edges, n_walks, n_rows)})
    ctx.extra["graph_edges"] = n_edges
    rng = ctx.rng
    n = 4000 if ctx.thorough else 500
    for _ in range(n):
        cs.append({"src": "random", "kind": "dyn", "seed": rng.randrange(1 << 30), "len": rng.randint(10, 60)})
    for _ in range(n // 2):
        cs.append({"src": "random", "kind": "scn", "seed": rng.randrange(1 << 30), "len": rng.randint(10, 50)})
    return cs


def nontrivial(case):
    if case["src"] == "walk":
        return json.dumps(case["ops"], sort_keys=True)
    if case["kind"] == "par":
        return (case["cls"], case["attr"], case["tok"])
    if case["kind"] == "parx":
        return "parx"
    return (case["kind"], case["seed"])


# ---- gamma: tokens -> real objects ---------------------------------------------------------------------

def _np():
    import numpy as np
    return np


def _ini(t, tag):
    from commonroad.scenario.state import InitialState
    np = _np()
    return InitialState(position=np.array([float(tag), 0.0]), orientation=0.0, time_step=int(t), velocity=float(tag),
                        acceleration=0.0, yaw_rate=0.0, slip_angle=0.0)


def _ks(t, tag):
    from commonroad.scenario.state import KSState
    np = _np()
    return KSState(position=np.array([float(tag), 0.0]), orientation=0.0, time_step=int(t), velocity=float(tag),
                   steering_angle=0.0)


def _sig(p):
    from commonroad.scenario.state import SignalState
    if list(p) == NOSIG:
        return None
    t, tag = int(p[0]), int(p[1])
    return SignalState(time_step=t, horn=bool(tag & 1), braking_lights=bool(tag & 2), indicator_left=bool(tag & 4))


def _ser(q):
    q = [list(x) for x in q]
    return None if q == NOSER else [_sig(x) for x in q]


def _ids(q):
    q = list(q)
    return None if q == NOIDS else {int(x) for x in q}


def _meta(n):
    from commonroad.scenario.state import MetaInformationState
    return None if int(n) == -1 else MetaInformationState(meta_data_int={"k": int(n)})


def _mser(q):
    q = list(q)
    return None if q == NOMSER else [_meta(x) for x in q]


def _rect(tag):
    from commonroad.geometry.shape import Rectangle
    return Rectangle(float(tag), 1.0)


def _pred(k, t0):
    from commonroad.prediction.prediction import TrajectoryPrediction
    from commonroad.scenario.trajectory import Trajectory
    if int(k) == 0:
        return None
    return TrajectoryPrediction(Trajectory(int(t0) + 1, [_ks(int(t0) + 1, int(k))]), _rect(2))


def _setpred(t0=1):
    from commonroad.prediction.prediction import Occupancy, SetBasedPrediction
    return SetBasedPrediction(int(t0), [Occupancy(int(t0), _rect(2))])


# ---- alpha: real objects -> tokens -----------------------------------------------------------------------

def _a_state(s):
    return [int(s.time_step), int(round(float(getattr(s, "velocity", -1))))]


def _a_sig(s):
    if s is None:
        return list(NOSIG)
    return [int(s.time_step), int(bool(getattr(s, "horn", False))) + 2 * int(bool(getattr(s, "braking_lights", False)))
            + 4 * int(bool(getattr(s, "indicator_left", False)))]


def _a_ser(q):
    return [list(x) for x in NOSER] if q is None else [_a_sig(s) for s in q]


def _a_ids(s):
    if s is None:
        return list(NOIDS)
    try:
        return sorted(int(x) for x in s)
    except Exception:
        return [-99]


def _a_meta(m):
    if m is None:
        return -1
    d = getattr(m, "meta_data_int", None)
    return int(d["k"]) if isinstance(d, dict) and "k" in d else -98


def _a_pred(p):
    from commonroad.prediction.prediction import TrajectoryPrediction
    if p is None:
        return 0
    if isinstance(p, TrajectoryPrediction):
        return int(round(float(p.trajectory.state_list[0].velocity)))
    return 100 + int(p.initial_time_step)


def _snap(o):
    dyn = o.obstacle_role.value == "dynamic" and hasattr(o, "history")
    d = {"cls": "dynamic" if dyn else "static", "id": int(o.obstacle_id), "role": str(o.obstacle_role.value),
         "type": str(o.obstacle_type.value), "shape": int(round(float(o.obstacle_shape.length))),
         "t0": int(o.initial_state.time_step), "tag": int(round(float(o.initial_state.velocity))),
         "sig": _a_sig(o.initial_signal_state), "ser": _a_ser(o.signal_series),
         "cen": _a_ids(o.initial_center_lanelet_ids), "shp": _a_ids(o.initial_shape_lanelet_ids),
         "pred": 0, "meta": -1, "mser": list(NOMSER), "ext": -1, "hist": [], "shist": [], "chist": [], "phist": []}
    if dyn:
        ms = o.meta_information_series
        ext = o.external_dataset_id
        d.update(pred=_a_pred(o.prediction), meta=_a_meta(o.initial_meta_information_state),
                 mser=list(NOMSER) if ms is None else [_a_meta(m) for m in ms], ext=-1 if ext is None else int(ext),
                 hist=[_a_state(s) for s in o.history], shist=[_a_sig(s) for s in o.signal_history],
                 chist=[_a_ids(s) for s in o.center_lanelet_ids_history],
                 phist=[_a_ids(s) for s in o.shape_lanelet_ids_history])
    return d


def _call(f):
    """Run f(); classify: 'ok' (quiet), 'warned', or the exception type."""
    with warnings.catch_warnings(record=True) as w:
        warnings.simplefilter("always")
        try:
            f()
        except Exception as ex:
            n = type(ex).__name__
            return n if n in ("AssertionError", "TypeError", "ValueError", "AttributeError", "KeyError") else "exc"
        return "warned" if len(w) else "ok"


# ---- the obstacle machine ----------------------------------------------------------------------------------

def _build(a):
    from commonroad.scenario.obstacle import DynamicObstacle, ObstacleType, StaticObstacle
    kw = dict(obstacle_id=int(a["id"]), obstacle_type=ObstacleType(a["type"]), obstacle_shape=_rect(a["shape"]),
              initial_state=_ini(a["t0"], a["tag"]))
    opt = dict(initial_center_lanelet_ids=_ids(a["cen"]), initial_shape_lanelet_ids=_ids(a["shp"]),
               initial_signal_state=_sig(a["sig"]), signal_series=_ser(a["ser"]))
    if a["cls"] == "dynamic":
        opt.update(prediction=_pred(a["pred"], a["t0"]), initial_meta_information_state=_meta(a["meta"]),
                   meta_information_series=_mser(a["mser"]), external_dataset_id=None if a["ext"] == -1 else int(a["ext"]),
                   history=[_ini(*s) for s in a["hist"]] or None, signal_history=[_sig(s) for s in a["shist"]] or None,
                   center_lanelet_ids_history=[_ids(s) for s in a["chist"]] or None,
                   shape_lanelet_ids_history=[_ids(s) for s in a["phist"]] or None)
    kw.update({k: v for k, v in opt.items() if v is not None})          # omitted = the documented default None
    return (DynamicObstacle if a["cls"] == "dynamic" else StaticObstacle)(**kw)


def _set_value(attr, how, val, t0):
    np = _np()
    if how == "str":
        return "junk"
    if how == "none":
        return None
    if attr == "sig":
        return _sig(val)
    if attr == "ser":
        return tuple(_ser(val)) if how == "tuple" else _ser(val)
    if attr in ("cen", "shp"):
        return {"list": lambda: [4, 5], "strelem": lambda: {4, "a"}, "frozenset": lambda: frozenset(int(x) for x in val),
                "npint": lambda: {np.int64(x) for x in val}}.get(how, lambda: _ids(val))()
    if attr == "init":
        return _ks(3, 9) if how == "ksstate" else _ini(*val)
    if attr == "meta":
        return _meta(val[0])
    if attr == "mser":
        return tuple(_mser(val)) if how == "tuple" else _mser(val)
    if attr == "ext":
        return {"float": 7.0, "bool": True}.get(how, int(val[0]) if val else None)
    if attr == "pred":
        return _pred(val[0], t0)
    raise tlc.MachineryError("no builder for %s/%s" % (attr, how))


def _hist_shape(s):
    n = len(s["hist"])
    par = len({n, len(s["shist"]), len(s["chist"]), len(s["phist"])}) == 1
    return ("empty" if n == 0 else "filled") + ("" if par else ",unequal")


def _dyn_op(o, a):
    """Perform one operation (or construct the object); returns (object, event)."""
    from commonroad.scenario.obstacle import ObstacleRole, ObstacleType
    op = a["op"]
    e = {"op": op}
    before = _snap(o) if o is not None else None
    if op == "d_new":
        e["a"] = a["a"]
        e["sig"] = "new[%s%s]" % (a["a"]["cls"], ",unequal-histories" if _hist_shape(a["a"]).endswith("unequal") else "")
        box = []
        e["res"] = _call(lambda: box.append(_build(a["a"])))
        o = box[0] if box else None
    elif op == "d_set":
        e.update(attr=a["attr"], how=a["how"], kind=a["kind"], val=a["val"], sig="set[%s=%s]" % (a["attr"], a["how"]))
        v = _set_value(a["attr"], a["how"], a["val"], before["t0"])
        e["res"] = _call(lambda: setattr(o, _ATTR[a["attr"]], v))
    elif op == "d_imm":
        e.update(attr=a["attr"], kind=a["kind"], sig="set-immutable[%s;%s]" % (a["attr"], a["kind"]))
        v = "junk" if a["kind"] == "bad" else \
            {"id": before["id"] + 1000, "role": ObstacleRole.ENVIRONMENT,
             "type": ObstacleType.BUS if before["type"] != "bus" else ObstacleType.TAXI, "shape": _rect(9)}[a["attr"]]
        e["res"] = _call(lambda: setattr(o, _IMM[a["attr"]], v))
    elif op == "d_update":
        u = a["a"]
        e["a"] = u
        bad = u["bad"]
        st = "junk" if bad == "state" else (_ks(u["t"], u["tag"]) if bad == "trace" else _ini(u["t"], u["tag"]))
        sg = "junk" if bad == "sig" else _sig(u["sig"])
        ce = [1] if bad == "cen" else _ids(u["cen"])
        sh = {"a"} if bad == "shp" else _ids(u["shp"])
        e["sig"] = "update[maxh<=0]" if u["maxh"] <= 0 else ("update[bad-%s]" % bad if bad else
                                                             "update[valid;history %s]" % _hist_shape(before))
        if sg is None and ce is None and sh is None and u["maxh"] == 6000:
            e["res"] = _call(lambda: o.update_initial_state(st))
        else:
            e["res"] = _call(lambda: o.update_initial_state(st, sg, ce, sh, max_history_length=int(u["maxh"])))
    elif op == "d_uppred":
        e.update(kind=a["kind"], pred=int(a["pred"]), ser=a["ser"], sig="update_prediction[%s;%s]" % (
            a["kind"], "no-series" if a["ser"] == NOSER else "series"))
        p = "junk" if a["kind"] == "bad" else _pred(a["pred"], before["t0"])
        s = _ser(a["ser"])
        e["res"] = _call((lambda: o.update_prediction(p)) if s is None else (lambda: o.update_prediction(p, s)))
    elif op == "d_sig_at":
        e.update(t=int(a["t"]), idx=0, sig="signal_state_at_time_step")
        box = []
        e["res"] = _call(lambda: box.append(o.signal_state_at_time_step(int(a["t"]))))
        if box and box[0] is not None:
            r = box[0]
            ser = o.signal_series or []
            e["idx"] = -1 if r is o.initial_signal_state else next((k + 1 for k, x in enumerate(ser) if x is r), -2)
    elif op == "d_str":
        e.update(hasid=0, sig="str[%s]" % before["cls"])
        box = []
        e["res"] = _call(lambda: box.append(str(o)))
        if box:
            e["hasid"] = 1 if re.search(r"(?<!\d)%d(?!\d)" % before["id"], box[0]) else 0
    elif op == "d_hash":
        import copy
        e.update(eqcopy=0, samehash=0, sig="hash[%s;%s]" % (before["cls"], "None in id histories" if NOIDS in before["chist"] + before["phist"]
                                                            else "no None in id histories"))
        box = []
        e["res"] = _call(lambda: box.append(hash(o)))
        if box:
            c = copy.deepcopy(o)
            try:
                e["eqcopy"], e["samehash"] = int(bool(c == o)), int(hash(c) == box[0])
            except Exception:
                pass
    else:
        raise tlc.MachineryError("unknown op " + op)
    if e["res"] == "warned" and op in ("d_sig_at", "d_str", "d_hash"):
        e["res"] = "ok"                                              # a query may warn; what counts is its answer
    e["post"] = _snap(o) if o is not None else a["a"]
    return o, e


def _rand_sig(rng, t):
    return list(NOSIG) if rng.random() < 0.3 else [t, rng.randint(0, 7)]


def _rand_ids(rng):
    r = rng.random()
    if r < 0.3:
        return list(NOIDS)
    return sorted(rng.sample(range(0, rng.choice([6, 10 ** 6])), rng.randint(0, 4)))


def _rand_ser(rng, t):
    if rng.random() < 0.3:
        return [list(x) for x in NOSER]
    return [[t + rng.randint(0, 4), rng.randint(0, 7)] for _ in range(rng.randint(0, 5))]


def _dyn_random_op(rng, o, snap):
    if o is None:
        cls = rng.choice(["dynamic", "dynamic", "static"])
        t0 = rng.choice([0, 1, 5, rng.randint(0, 10 ** 6)])
        a = {"cls": cls, "id": rng.randint(1, 10 ** 6), "role": cls, "type": rng.choice(TYPES), "shape": rng.randint(1, 9),
             "t0": t0, "tag": rng.randint(0, 99), "sig": _rand_sig(rng, t0), "ser": _rand_ser(rng, t0),
             "cen": _rand_ids(rng), "shp": _rand_ids(rng), "pred": 0, "meta": -1, "mser": list(NOMSER), "ext": -1,
             "hist": [], "shist": [], "chist": [], "phist": []}
        if cls == "dynamic":
            n = rng.choice([0, 0, 1, 3, 8])
            base = max(0, t0 - n)
            a.update(pred=rng.choice([0, 3]), meta=rng.choice([-1, 4]), ext=rng.choice([-1, 12345]),
                     mser=rng.choice([list(NOMSER), [1, 2], []]),
                     hist=[[base + j, rng.randint(0, 99)] for j in range(n)],
                     shist=[_rand_sig(rng, base + j) for j in range(n)], chist=[_rand_ids(rng) for _ in range(n)],
                     phist=[_rand_ids(rng) for _ in range(n)])
            if n and rng.random() < 0.2:                         # unequal history lists handed to the constructor
                k = rng.choice(["hist", "shist", "chist", "phist"])
                a[k] = a[k][:rng.randrange(n)]
        return {"op": "d_new", "a": a}
    dyn = snap["cls"] == "dynamic"
    t0 = snap["t0"]
    ops = ["d_set"] * 4 + ["d_sig_at"] * 3 + ["d_imm", "d_str", "d_hash"] + (["d_update"] * 7 + ["d_uppred"] * 2 if dyn else [])
    op = rng.choice(ops)
    if op == "d_update":
        bad = rng.choice([""] * 8 + ["trace", "state", "sig", "cen", "shp"])
        t = t0 + rng.choice([1, 1, 1, 2, 5])
        u = {"t": t, "tag": rng.randint(0, 99), "bad": bad, "maxh": rng.choice([1, 2, 3, 5, 12, 6000, 6000, 0, -1]),
             "sig": list(NOSIG) if bad == "sig" else _rand_sig(rng, t),
             "cen": list(NOIDS) if bad == "cen" else _rand_ids(rng), "shp": list(NOIDS) if bad == "shp" else _rand_ids(rng)}
        return {"op": op, "a": u}
    if op == "d_uppred":
        kind = rng.choice(["valid"] * 4 + ["none", "bad"])
        return {"op": op, "kind": kind, "pred": rng.randint(1, 9) if kind == "valid" else 0, "ser": _rand_ser(rng, t0)}
    if op == "d_sig_at":
        cand = [t0 - 1, t0, t0 + 1, t0 + 2, rng.randint(0, t0 + 6)] + \
               ([x[0] for x in snap["ser"]] if snap["ser"] != NOSER else [])
        return {"op": op, "t": rng.choice(cand)}
    if op == "d_imm":
        return {"op": op, "attr": rng.choice(list(_IMM)), "kind": rng.choice(["valid", "bad"])}
    if op in ("d_str", "d_hash"):
        return {"op": op}
    attr = rng.choice(["sig", "ser", "cen", "shp", "init"] + (["meta", "mser", "ext", "pred"] if dyn else []))
    rows = {"sig": [("state", "valid", lambda: [rng.randint(0, t0 + 5), rng.randint(0, 7)]), ("none", "valid", lambda: list(NOSIG)),
                    ("str", "bad", list)],
            "ser": [("list", "valid", lambda: [[t0 + rng.randint(0, 4), rng.randint(0, 7)] for _ in range(rng.randint(0, 5))]),
                    ("none", "valid", lambda: [list(x) for x in NOSER]), ("str", "bad", list),
                    ("tuple", "odd", lambda: [[t0 + 1, 1]])],
            "init": [("state", "valid", lambda: [rng.randint(0, 10 ** 6), rng.randint(0, 99)]), ("none", "bad", list),
                     ("ksstate", "bad", list), ("str", "bad", list)],
            "meta": [("state", "valid", lambda: [rng.randint(0, 9)]), ("none", "valid", lambda: [-1]), ("str", "bad", list)],
            "mser": [("list", "valid", lambda: [rng.randint(0, 9) for _ in range(rng.randint(0, 4))]),
                     ("none", "valid", lambda: list(NOMSER)), ("str", "bad", list), ("tuple", "odd", lambda: [3])],
            "ext": [("int", "valid", lambda: [rng.randint(0, 10 ** 6)]), ("none", "valid", lambda: [-1]), ("str", "bad", list),
                    ("float", "bad", list), ("bool", "odd", lambda: [1])],
            "pred": [("traj", "valid", lambda: [rng.randint(1, 9)]), ("none", "valid", lambda: [0]), ("str", "bad", list)]}
    idrows = [("set", "valid", lambda: [x for x in _rand_ids(rng) if x >= 0]), ("none", "valid", lambda: list(NOIDS)),
              ("list", "bad", list), ("strelem", "bad", list), ("frozenset", "odd", lambda: [4]), ("npint", "odd", lambda: [4])]
    how, kind, mk = rng.choice(rows.get(attr, idrows))
    return {"op": "d_set", "attr": attr, "how": how, "kind": kind, "val": mk()}


def _run_dyn(case):
    ev, o = [], None
    rng = random.Random(case["seed"]) if case["src"] == "random" else None
    n = case["len"] if rng else len(case["ops"])
    for k in range(n):
        a = _dyn_random_op(rng, o, _snap(o) if o is not None else None) if rng else case["ops"][k]
        if o is None and a["op"] != "d_new":
            continue
        if a["op"] == "d_new":
            o = None
        o, e = _dyn_op(o, a)
        ev.append(e)
    return ev


# ---- Scenario filters over histories ------------------------------------------------------------------------

def _scn_obstacle(o):
    from commonroad.scenario.obstacle import (DynamicObstacle, EnvironmentObstacle, ObstacleType, PhantomObstacle,
                                              StaticObstacle)
    i, role, ty = int(o[0]), o[1], o[2]
    if role == "static":
        return StaticObstacle(i, ObstacleType(ty), _rect(2), _ini(0, 1))
    if role == "dynamic":
        return DynamicObstacle(i, ObstacleType(ty), _rect(2), _ini(0, 1), _pred(1, 0))
    if role == "environment":
        return EnvironmentObstacle(i, ObstacleType(ty), _rect(2))
    return PhantomObstacle(i, _setpred(1))


def _scn_post(sc):
    return sorted([int(o.obstacle_id), str(o.obstacle_role.value),
                   str(o.obstacle_type.value) if hasattr(o, "obstacle_type") else ""] for o in sc.obstacles)


def _scn_op(sc, a):
    from commonroad.scenario.obstacle import ObstacleRole, ObstacleType
    op = a["op"]
    e = {"op": op}
    if op == "s_add":
        o = [int(a["o"][0]), a["o"][1], a["o"][2]]
        e.update(o=o, sig="scenario.add[%s]" % o[1])
        ob = _scn_obstacle(o)
        e["res"] = _call(lambda: sc.add_objects(ob))
    elif op == "s_remove":
        e.update(i=int(a["i"]), sig="scenario.remove")
        e["res"] = _call(lambda: sc.remove_obstacle(sc.obstacle_by_id(int(a["i"]))))
    elif op == "s_settype":
        e.update(i=int(a["i"]), type=a["type"], sig="scenario.obstacle.set_type")
        ob = sc.obstacle_by_id(int(a["i"]))
        e["res"] = _call(lambda: setattr(ob, "obstacle_type", ObstacleType(a["type"])))
    elif op == "s_update":
        e.update(i=int(a["i"]), sig="scenario.obstacle.update_initial_state")
        ob = sc.obstacle_by_id(int(a["i"]))
        e["res"] = _call(lambda: ob.update_initial_state(_ini(ob.initial_state.time_step + 1, 2)))
    elif op == "s_filter":
        r, y = a["role"], a["type"]
        e.update(role=r, type=y, ids=[], sig="by_role_and_type[%s,%s]" % ("role" if r else "any", "type" if y else "any"))
        box = []
        e["res"] = _call(lambda: box.append(sc.obstacles_by_role_and_type(ObstacleRole(r) if r else None,
                                                                          ObstacleType(y) if y else None)))
        if box:
            e["ids"] = [int(o.obstacle_id) for o in box[0]]
    else:
        raise tlc.MachineryError("unknown op " + op)
    if e["res"] == "warned" and op != "s_settype":
        e["res"] = "ok"
    e["post"] = _scn_post(sc)
    return e


def _scn_random_op(rng, sc):
    cur = _scn_post(sc)
    ids = [o[0] for o in cur]
    op = rng.choice(["s_add"] * 4 + ["s_filter"] * 5 + ["s_remove", "s_settype", "s_update"])
    if op == "s_add" or not ids:
        role = rng.choice(["static", "dynamic", "environment", "phantom"])
        i = rng.randint(1, 10 ** 6)
        if i in ids:
            i = max(ids) + 1
        return {"op": "s_add", "o": [i, role, "" if role == "phantom" else rng.choice(TYPES)]}
    if op == "s_filter":
        return {"op": op, "role": rng.choice(["", "static", "dynamic", "environment", "phantom"]),
                "type": rng.choice([""] * 3 + TYPES + [o[2] for o in cur if o[2]])}
    if op == "s_remove":
        return {"op": op, "i": rng.choice(ids)}
    if op == "s_settype":
        c = [o for o in cur if o[1] != "phantom"]
        if not c:
            return {"op": "s_filter", "role": "", "type": ""}
        o = rng.choice(c)
        return {"op": op, "i": o[0], "type": rng.choice([t for t in TYPES if t != o[2]])}
    c = [o for o in cur if o[1] == "dynamic"]
    if not c:
        return {"op": "s_filter", "role": "dynamic", "type": ""}
    return {"op": "s_update", "i": rng.choice(c)[0]}


def _run_scn(case):
    from crv import gamma as G
    sc = G.scenario()
    ev = []
    rng = random.Random(case["seed"]) if case["src"] == "random" else None
    n = case["len"] if rng else len(case["ops"])
    for k in range(n):
        a = _scn_random_op(rng, sc) if rng else case["ops"][k]
        ev.append(_scn_op(sc, a))
    return ev


# ---- parameter surfaces ---------------------------------------------------------------------------------------

def _par_object(cls):
    from commonroad.scenario.obstacle import EnvironmentObstacle, ObstacleType, PhantomObstacle
    if cls == "environment":
        return EnvironmentObstacle(5, ObstacleType.BUILDING, _rect(2))
    if cls == "phantom":
        return PhantomObstacle(5)
    if cls == "trajpred":
        return _pred(1, 0)
    return _build({"cls": cls, "id": 5, "type": "car", "shape": 2, "t0": 0, "tag": 1, "sig": NOSIG, "ser": NOSER, "cen": NOIDS,
                   "shp": NOIDS, "pred": 0, "meta": -1, "mser": NOMSER, "ext": -1, "hist": [], "shist": [], "chist": [],
                   "phist": []})


def _same(x, y):
    if x is y:
        return True
    if isinstance(x, (int, float, str, list, tuple)) and type(x) is type(y):
        return x == y
    return False


def _run_par(case):
    from commonroad.prediction.prediction import TrajectoryPrediction
    from commonroad.scenario.obstacle import ObstacleRole, ObstacleType
    from commonroad.scenario.trajectory import Trajectory
    cls, attr, tok = case["cls"], case["attr"], case["tok"]
    vals = {"int": 77, "str": "junk", "none": None, "role": ObstacleRole.STATIC if cls != "static" else ObstacleRole.DYNAMIC,
            "type": ObstacleType.BUS, "shape": _rect(9), "setpred": _setpred(1), "trajpred": _pred(3, 0),
            "floats": [1.0, 2.0], "ctor-floats": [1.0, 2.0]}
    e = {"op": "p_set", "cls": cls, "attr": attr, "tok": tok, "changed": 0, "stored": 0,
         "sig": "param[%s.%s=%s]" % (cls, attr, tok)}
    if attr.startswith("ctor."):
        return [_run_ctor(e, cls, attr[5:], tok)]
    if tok not in vals:
        raise tlc.MachineryError("no builder for value token " + tok)
    v = vals[tok]
    if tok == "ctor-floats":
        box = []
        e["res"] = _call(lambda: box.append(TrajectoryPrediction(Trajectory(1, [_ks(1, 1)]), _rect(2), **{attr: v})))
        if box:
            after = getattr(box[0], attr)
            e["changed"], e["stored"] = int(after is not None), int(_same(after, v))
        return [e]
    o = _par_object(cls)
    before = getattr(o, attr)
    e["res"] = _call(lambda: setattr(o, attr, v))
    after = getattr(o, attr)
    e["changed"], e["stored"] = int(not _same(after, before)), int(_same(after, v))
    return [e]


def _run_ctor(e, cls, param, tok):
    """Construct an object of class cls with ONE argument of a wrong type."""
    from commonroad.scenario.obstacle import (DynamicObstacle, EnvironmentObstacle, ObstacleType, PhantomObstacle,
                                              StaticObstacle)
    bad = {"str": "junk", "ksstate": _ks(0, 1), "list": [4, 5], "trajpred": _pred(3, 0)}[tok]
    kw = {"obstacle_id": 5}
    if cls != "phantom":
        kw.update(obstacle_type=ObstacleType.CAR, obstacle_shape=_rect(2))
    if cls in ("static", "dynamic"):
        kw["initial_state"] = _ini(0, 1)
    kw[param] = bad
    k = {"static": StaticObstacle, "dynamic": DynamicObstacle, "environment": EnvironmentObstacle, "phantom": PhantomObstacle}[cls]
    box = []
    e["res"] = _call(lambda: box.append(k(**kw)))
    if box:
        e["stored"] = int(_same(getattr(box[0], param, None), bad))
    return e


def _run_parx(case):
    from commonroad.scenario.obstacle import ObstacleRole, ObstacleType
    ev = []
    for cls in ("static", "dynamic", "phantom", "environment"):
        ev.append({"op": "p_role", "cls": cls, "role": str(_par_object(cls).obstacle_role.value), "sig": "role[%s]" % cls})
    for cls in ("static", "dynamic", "phantom", "environment"):
        box = []
        x = {"op": "p_str", "cls": cls, "hasid": 0, "sig": "str[%s]" % cls}
        x["res"] = _call(lambda: box.append(str(_par_object(cls))))
        if x["res"] == "warned":
            x["res"] = "ok"
        if box:
            x["hasid"] = 1 if re.search(r"(?<!\d)5(?!\d)", box[0]) else 0
        ev.append(x)
    for en in (ObstacleType, ObstacleRole):
        ev.append({"op": "p_enum", "name": en.__name__, "values": [str(m.value) for m in en], "names": [m.name.upper() for m in en],
                   "lookup": int(all(en(m.value) is m for m in en)), "sig": "enum[%s]" % en.__name__})
    return ev


def execute(case):
    use_repo()
    k = case["kind"]
    if k in ("dynh", "dyns", "dyn"):
        return {"ev": _run_dyn(case)}
    if k == "scn":
        return {"ev": _run_scn(case)}
    if k == "par":
        return {"ev": _run_par(case)}
    return {"ev": _run_parx(case)}


def summarize(cases, traces):
    by = {}
    for tr in traces:
        for e in tr["ev"]:
            by[e["op"]] = by.get(e["op"], 0) + 1
    return {"events_by_op": by}


def corrupt(trace, rng):
    """Corrupt ONE logged field so that the contract must reject exactly that event: the id in a logged snapshot, a
    foreign id in a filter answer / scenario contents, the stored flag of a parameter assignment, a role / enum value."""
    ev = trace["ev"]
    if not ev:
        return None
    e = ev[rng.randrange(len(ev))]
    op = e["op"]
    if op.startswith("d_"):
        if op == "d_new" or rng.random() < 0.5:
            e["post"]["id"] += 1
        else:
            e["post"]["chist"] = e["post"]["chist"] + [[424242]]
    elif op == "s_filter":
        e["ids"] = e["ids"] + [1999999]
    elif op.startswith("s_"):
        e["post"] = e["post"] + [[1999999, "static", "car"]]
    elif op == "p_set":
        e["res"], e["changed"], e["stored"] = "ok", 1, 0
    elif op == "p_role":
        e["role"] = "x" + e["role"]
    elif op == "p_str":
        e["hasid"] = 0
    else:
        e["values"] = e["values"] + ["zzz"]
    return trace
