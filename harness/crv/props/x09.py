"""X09 (extended coverage) - the front doors common/file_reader.py and common/file_writer.py
(spec: FileDispatch.tla, MC_FileDispatch.tla, Trace_FileDispatch.tla).

Reader: format detection from the suffix / the explicit file_format / bytes, open() vs open_lanelet_network() (same
network, lanelet_assignment only fills registries), open() twice (no state kept, fresh objects), missing / mismatching
files.  Writer: constructor metadata (who wins: argument or scenario), OverwriteExistingFile ALWAYS / SKIP /
ASK_USER_INPUT with a scripted input() queue, default file name, check_validity, missing directory, directory target,
file name suffix that contradicts the format.  The file system is a sandbox directory under /verif/out/x09_sandbox
projected to  name -> abstract content  after every call."""
import builtins
import contextlib
import hashlib
import io
import json
import logging
import os
import shutil
import warnings

from crv import graph, tlc
from crv.core import use_repo

PROPERTY = "X09"
MODULES = ["FileDispatch", "MC_FileDispatch", "Trace_FileDispatch"]
TRACE = ("Trace_FileDispatch", "Trace_FileDispatch.cfg")
EXHAUSTIVE = True
RULE = ("TLC explores the implementation-shaped model of the two front doors over a sandbox file system: a write "
        "machine (up to 2 writers x {xml, pb} x {one, no planning problem} x metadata from arguments / scenario / both; "
        "write_to_file / write_scenario_to_file x ALWAYS / SKIP / ASK_USER_INPUT with scripted answer queues x "
        "check_validity x path tokens: None, a.xml, a.pb, missing directory, directory), a read machine (fixtures xml / "
        "pb / 2018b xml / garbage installed, replaced and removed under up to 2 readers constructed from str / bytes "
        "with and without an explicit format; open(lanelet_assignment) and open_lanelet_network), and two tables (all "
        "10,368 constructor metadata combinations; 960 format-detection cases: 16 tokenised names x 4 format "
        "arguments x 3 sources x 5 file contents); it checks that the contract accepts every step plus the laws of the "
        "contract operators, and dumps three labelled state graphs of the SHIPPED behaviour. A transition cover of the "
        "graphs (every edge once) and every table case run on real CommonRoadFileReader / CommonRoadFileWriter objects, "
        "plus seeded random histories beyond TLC's bounds (3 writers, 3 readers, 16 steps, odd file names, pathlib "
        "paths, the library's own test files as fixtures); TLC validates every logged call against FileDispatch.tla. "
        "distinct_nontrivial = distinct walks / table cases / random seeds.")
ASSUMPTIONS = ["contract read from the docstrings, the prompt text and the assert messages; where they are silent both "
               "behaviours are accepted (letter case of the suffix, hidden files, a file_format that is not a FileFormat, "
               "exception classes of failing opens, exhausted input(), other spellings of yes, whether "
               "lanelet_assignment=False fills registries, how a failing check_validity is signalled)",
               "file content is abstract: format sniffed from the bytes, number of lanelets (= which scenario), number "
               "of planning problems, whose metadata the header carries - obtained by reading the file back with an "
               "explicit format; codec content is C01-C03 / C15's business",
               "'touched' = mtime changed after all mtimes were set to a fixed old value before the call",
               "an invalid document = XML write_to_file of an empty planning problem set (the XSD requires a planning "
               "problem); protobuf has no notion of validity here",
               "the expected answer is computed by TLC from FileDispatch.tla, never by the harness"]

SANDBOX = os.path.join(tlc.OUT, "x09_sandbox")
SID = "ZAM_Test-1"
OLD_NS = 1_000_000_000 * 10 ** 9
_ARG = {"write": ("op", "w", "path", "mode", "ans", "kind", "cv"), "w_new": ("op", "w", "fmt", "pps", "h"),
        "put": ("op", "name", "c"), "rm": ("op", "name"), "r_new": ("op", "r", "name", "ff", "src"),
        "open": ("op", "r", "la"), "open_net": ("op", "r")}
GEN_CFGS = ["GEN_FileDispatch.cfg", "GEN_FileDispatch_r.cfg", "GEN_FileDispatch_w.cfg"]


# ---- design-level half -------------------------------------------------------------------------------
DEVS = [(1, "PropRefines"), (2, "PropRefines"), (3, "PropRefines"), (4, "PropRefines"), (5, "InvFilesOwn"),
        (6, "PropRefines"), (7, "InvDetectRefines"), (8, "PropRefines"), (9, "InvCtorRefines")]


def _parallel(jobs, n=6):
    import concurrent.futures as cf
    with cf.ThreadPoolExecutor(max_workers=n) as ex:
        return [f.result() for f in [ex.submit(j) for j in jobs]]


def model_check(ctx):
    ctx.mc("MC_FileDispatch", "MC_FileDispatch_t.cfg" if ctx.thorough else "MC_FileDispatch.cfg", coverage=True,
           timeout=1800)
    _parallel([(lambda i=i, name=name: ctx.mc_expect("MC_FileDispatch", "DEV_FileDispatch_%d.cfg" % i, name, workers=2))
               for i, name in DEVS])


def cases(ctx):
    cs = []
    n_edges = n_walks = n_tab = 0
    cfgs = [("GEN_FileDispatch_t.cfg" if ctx.thorough and c == "GEN_FileDispatch.cfg" else c) for c in GEN_CFGS]
    runs = _parallel([(lambda cfg=cfg: tlc.run_tlc("MC_FileDispatch", cfg, "x09_" + cfg.replace(".cfg", ""), workers=1,
                                                   timeout=1800)) for cfg in cfgs])
    for cfg, r in zip(cfgs, runs):
        if not r["ok"]:
            raise tlc.MachineryError("GEN failed: " + r["out"][-2000:])
        g = graph.parse_edges(tlc.tla_unquote(p) for p in tlc.printed_tuples(r["out"], "EDGE"))
        ne = sum(len(v) for v in g.values())
        nw = 0
        doms = sorted({json.loads(k)["d"] for k in g})
        for d in doms:
            sub = {k: v for k, v in g.items() if json.loads(k)["d"] == d}
            inits = [k for k in sub if json.loads(k)["steps"] == 0]
            if len(inits) != 1:
                raise tlc.MachineryError("initial state of domain %s not unique in the dumped graph (%d)" % (d, len(inits)))
            for w in graph.cover_walks(sub, inits[0], max_len=8, rng=ctx.rng):
                cs.append({"origin": "walk", "ops": [{k: a[k] for k in _ARG[a["op"]]} for a in w]})
                nw += 1
        nt = 0
        for p in tlc.printed_tuples(r["out"], "CASE"):
            c = json.loads(tlc.tla_unquote(p))
            cs.append(dict(c, origin="tlc"))
            nt += 1
        ctx.mc_runs.append({"module": "MC_FileDispatch", "cfg": cfg, "distinct_states": r["distinct"],
                            "states_generated": r["generated"], "depth": r["depth"], "wall_s": r["wall_s"],
                            "verdict": "dumped %d labelled edges -> %d covering walks; %d table cases" % (ne, nw, nt)})
        n_edges, n_walks, n_tab = n_edges + ne, n_walks + nw, n_tab + nt
    if not n_walks or not n_tab:
        raise tlc.MachineryError("GEN produced no cases")
    ctx.extra["graph_edges"] = n_edges
    rng = ctx.rng
    for _ in range(4000 if ctx.thorough else 400):
        cs.append({"origin": "random", "k": "hist", "seed": rng.randrange(1 << 30), "len": rng.randint(6, 16)})
    for i in range(len(_real_files())):
        cs.append({"origin": "real", "k": "real", "idx": i})
    return cs


def nontrivial(case):
    if case["origin"] == "walk":
        return json.dumps(case["ops"], sort_keys=True)
    if case["origin"] == "tlc":
        return json.dumps({k: v for k, v in case.items() if k != "origin"}, sort_keys=True)
    return (case["k"], case.get("seed", case.get("idx")))


# ---- the world ---------------------------------------------------------------------------------------
TOK = {"author": "au", "affiliation": "af", "source": "so"}


def _quiet():
    warnings.simplefilter("ignore")
    logging.disable(logging.CRITICAL)


def _scenario(v, scn):
    """v lanelets in a row, a sign and a light on lanelet 1, a static and a dynamic obstacle on lanelet 1.
    scn: field -> bool, which metadata the scenario itself holds."""
    from commonroad.scenario.lanelet import LaneletType
    from commonroad.scenario.scenario import Location, Tag
    from crv import gamma as G
    sc = G.scenario()
    for i in range(1, v + 1):
        kw = {"lanelet_type": {LaneletType.URBAN}}
        if i > 1:
            kw["predecessor"] = [i - 1]
        if i < v:
            kw["successor"] = [i + 1]
        sc.add_objects(G.lanelet(i, x0=4.0 * (i - 1), y0=0.0, length=4.0, width=2.0, **kw))
    sc.add_objects(G.sign(50, pos=(0.5, -0.5), first={1}), {1})
    sc.add_objects(G.light(60, pos=(3.5, -0.5)), {1})
    sc.add_objects(G.static_obstacle(5, 1.0, 1.0))
    sc.add_objects(G.dynamic_obstacle(6, 2.0, 1.0, shape=G.rect(1.0, 0.5), poses=[(2.5, 1.0, 0.0), (3.0, 1.0, 0.0)]))
    for f, t in TOK.items():
        if scn.get(f):
            setattr(sc, f, t + "-scn")
    if scn.get("tags"):
        sc.tags = {Tag.HIGHWAY}
    if scn.get("location"):
        sc.location = Location(geo_name_id=222)
    return sc


def _pps(kind):
    from commonroad.common.util import Interval
    from commonroad.planning.goal import GoalRegion
    from commonroad.planning.planning_problem import PlanningProblem, PlanningProblemSet
    from commonroad.scenario.state import CustomState
    from crv import gamma as G
    if kind != "one":
        return PlanningProblemSet()
    goal = GoalRegion([CustomState(time_step=Interval(1, 5), position=G.rect(1.0, 1.0, (3.0, 1.0)))])
    return PlanningProblemSet([PlanningProblem(9, G.init_state(0.5, 1.0, 0.0, v=3.0), goal)])


def _args(a):
    """a: field -> "none" | "val" | "bad": constructor keyword arguments"""
    from commonroad.scenario.scenario import Location, Tag
    kw = {}
    for n, (f, t) in enumerate(TOK.items(), 1):
        kw[f] = None if a[f] == "none" else (t + "-arg" if a[f] == "val" else n)
    kw["tags"] = None if a["tags"] == "none" else ({Tag.URBAN} if a["tags"] == "val" else {"urban"})
    kw["location"] = Location(geo_name_id=111) if a.get("location") == "val" else None
    return kw


FIELDS = ["author", "affiliation", "source", "tags", "location"]


def _h_fields(h):
    a = {f: ("val" if h in ("arg", "both") else "none") for f in FIELDS[:4]}
    s = {f: h in ("scn", "both") for f in FIELDS[:4]}
    return a, s


def _tokens(sc):
    """whose metadata a scenario read from a file carries, per field"""
    out = []
    for f, t in TOK.items():
        val = getattr(sc, f)
        out.append("arg" if val == t + "-arg" else "scn" if val == t + "-scn" else "other")
    names = sorted(getattr(t, "name", str(t)) for t in (sc.tags or []))
    out.append("arg" if names == ["URBAN"] else "scn" if names == ["HIGHWAY"] else "other")
    gid = None if sc.location is None else sc.location.geo_name_id
    out.append("arg" if gid == 111 else "scn" if gid == 222 else "default" if gid == -999 else "other")
    return out


def _h_of(sc, n=4):
    t = set(_tokens(sc)[:n])
    return t.pop() if len(t) == 1 else "mixed"


XML18 = """<?xml version='1.0' encoding='UTF-8'?>
<commonRoad timeStepSize="0.1" commonRoadVersion="2018b" author="au-arg" affiliation="af-arg" source="so-arg" tags="urban" benchmarkID="ZAM_Test-1_1_T-1" date="2020-01-30">
%s
  <obstacle id="5">
    <role>static</role>
    <type>parkedVehicle</type>
    <shape><rectangle><length>1.0</length><width>1.0</width></rectangle></shape>
    <initialState>
      <position><point><x>1.0</x><y>1.0</y></point></position>
      <orientation><exact>0.0</exact></orientation>
      <time><exact>0</exact></time>
    </initialState>
  </obstacle>
  <planningProblem id="9">
    <initialState>
      <position><point><x>0.5</x><y>1.0</y></point></position>
      <orientation><exact>0.0</exact></orientation>
      <time><exact>0</exact></time>
      <velocity><exact>3.0</exact></velocity>
      <yawRate><exact>0.0</exact></yawRate>
      <slipAngle><exact>0.0</exact></slipAngle>
    </initialState>
    <goalState>
      <position><rectangle><length>1.0</length><width>1.0</width><center><x>3.0</x><y>1.0</y></center></rectangle></position>
      <time><intervalStart>1</intervalStart><intervalEnd>5</intervalEnd></time>
    </goalState>
  </planningProblem>
</commonRoad>
"""
LANELET18 = """  <lanelet id="%d">
    <leftBound><point><x>%s</x><y>2.0</y></point><point><x>%s</x><y>2.0</y></point></leftBound>
    <rightBound><point><x>%s</x><y>0.0</y></point><point><x>%s</x><y>0.0</y></point></rightBound>
    <speedLimit>13.5</speedLimit>
  </lanelet>"""
GARBAGE = b"\x00\x01\x02 this is not a CommonRoad file \xff\xfe"

_fix = {}
_proj = {}
_real = None
_registered = False


def _real_files():
    """the library's own test files (content unknown to the specification): [(fmt, path)]"""
    global _real
    if _real is None:
        from crv.core import REPO
        d = os.path.join(REPO, "tests", "test_scenarios")
        out = []
        for n in sorted(os.listdir(d)) if os.path.isdir(d) else []:
            p = os.path.join(d, n)
            if n.endswith(".pb") and "invalid" not in n:
                out.append(("pb", p))
            elif n.endswith(".xml") and "invalid" not in n:
                with open(p, "rb") as f:
                    head = f.read(600)
                out.append(("xml18" if b'commonRoadVersion="2018b"' in head else "xml", p))
        _real = out
    return _real


def _real_content(i):
    return {"fmt": _real_files()[i][0], "v": 100 + i, "pp": -1, "h": "?"}


def _fixture(c, scratch):
    """bytes of the fixture with abstract content c (made with the library's writer, an explicit path, ALWAYS)"""
    key = (c["fmt"], c["v"])
    if key in _fix:
        return _fix[key]
    if c["v"] >= 100:
        with open(_real_files()[c["v"] - 100][1], "rb") as f:
            data = f.read()
    elif c["fmt"] == "garb":
        data = GARBAGE
    elif c["fmt"] == "xml18":
        data = (XML18 % "\n".join(LANELET18 % (i, 4.0 * (i - 1), 4.0 * i, 4.0 * (i - 1), 4.0 * i)
                                   for i in range(1, c["v"] + 1))).encode()
    else:
        from commonroad.common.file_writer import CommonRoadFileWriter, OverwriteExistingFile
        from commonroad.common.util import FileFormat
        a, s = _h_fields("arg")
        p = os.path.join(scratch, "fixture.tmp")
        CommonRoadFileWriter(_scenario(c["v"], s), _pps("one"), file_format=FileFormat.XML if c["fmt"] == "xml" else
                             FileFormat.PROTOBUF, **_args(a)).write_to_file(p, OverwriteExistingFile.ALWAYS)
        with open(p, "rb") as f:
            data = f.read()
        os.remove(p)
    _fix[key] = data
    return data


DIRC = {"fmt": "dir", "v": 0, "pp": 0, "h": ""}
GARB = {"fmt": "garb", "v": 0, "pp": 0, "h": ""}


def _project_bytes(raw, path):
    """abstract content of a regular file (read back with an explicit format); cached by the bytes"""
    k = hashlib.sha1(raw).hexdigest()
    if k in _proj:
        return _proj[k]
    from commonroad.common.file_reader import CommonRoadFileReader
    from commonroad.common.util import FileFormat
    global _real_sha
    if "_real_sha" not in globals():
        _real_sha = {}
        for i, (_, p) in enumerate(_real_files()):
            with open(p, "rb") as f:
                _real_sha[hashlib.sha1(f.read()).hexdigest()] = i
    if k in _real_sha:
        out = _real_content(_real_sha[k])
    else:
        out = dict(GARB)
        fmt = None
        if raw.lstrip()[:1] == b"<":
            from lxml import etree
            try:
                root = etree.fromstring(raw)
                if root.tag == "commonRoad":
                    fmt = "xml18" if root.get("commonRoadVersion") == "2018b" else "xml"
            except etree.XMLSyntaxError:
                fmt = None
        elif raw:
            from commonroad.scenario_definition.protobuf_format.generated_scripts import commonroad_pb2
            msg = commonroad_pb2.CommonRoad()
            try:
                msg.ParseFromString(raw)
                if msg.information.benchmark_id:
                    fmt = "pb"
            except Exception:
                fmt = None
        if fmt:
            try:
                sc, pps = CommonRoadFileReader(raw, FileFormat.PROTOBUF if fmt == "pb" else FileFormat.XML).open()
                out = {"fmt": fmt, "v": len(sc.lanelet_network.lanelets), "pp": len(pps.planning_problem_dict),
                       "h": _h_of(sc, 3 if fmt == "xml18" else 4)}
            except Exception:
                out = dict(GARB)
    _proj[k] = out
    return out


def _snapshot(d):
    fs = {}
    for root, dirs, files in os.walk(d):
        rel = os.path.relpath(root, d)
        for n in dirs:
            fs[n if rel == "." else rel + "/" + n] = dict(DIRC)
        for n in files:
            p = os.path.join(root, n)
            with open(p, "rb") as f:
                raw = f.read()
            fs[n if rel == "." else rel + "/" + n] = dict(_project_bytes(raw, p))
    return fs


def _age(d):
    for root, _, files in os.walk(d):
        for n in files:
            os.utime(os.path.join(root, n), ns=(OLD_NS, OLD_NS))


def _touched(d):
    out = []
    for root, _, files in os.walk(d):
        rel = os.path.relpath(root, d)
        for n in files:
            if os.stat(os.path.join(root, n)).st_mtime_ns != OLD_NS:
                out.append(n if rel == "." else rel + "/" + n)
    return sorted(out)


def _exc(ex):
    return "exc:" + type(ex).__name__


# ---- fingerprints (projections of returned objects; identifiers are per case) -------------------------
def _r(x):
    if x is None:
        return None
    try:
        return round(float(x), 9)
    except Exception:
        if hasattr(x, "start") and hasattr(x, "end"):
            return [_r(x.start), _r(x.end)]
        return type(x).__name__                  # never repr(): default reprs carry addresses


def _pts(a):
    return None if a is None else [[_r(c) for c in p] for p in a]


def _names(xs):
    return None if xs is None else sorted(getattr(x, "name", str(x)) for x in xs)


def _net_fp(net):
    out = []
    for la in sorted(net.lanelets, key=lambda x: x.lanelet_id):
        sl = la.stop_line
        out.append(["L", la.lanelet_id, _pts(la.left_vertices), _pts(la.center_vertices), _pts(la.right_vertices),
                    sorted(la.predecessor), sorted(la.successor), la.adj_left, la.adj_left_same_direction, la.adj_right,
                    la.adj_right_same_direction, str(la.line_marking_left_vertices), str(la.line_marking_right_vertices),
                    _names(la.lanelet_type), _names(la.user_one_way), _names(la.user_bidirectional),
                    sorted(la.traffic_signs or []), sorted(la.traffic_lights or []),
                    None if sl is None else [_pts([sl.start]) if sl.start is not None else None,
                                             _pts([sl.end]) if sl.end is not None else None, str(sl.line_marking),
                                             sorted(sl.traffic_sign_ref or []), sorted(sl.traffic_light_ref or [])]])
    for s in sorted(net.traffic_signs, key=lambda x: x.traffic_sign_id):
        out.append(["S", s.traffic_sign_id, [[str(e.traffic_sign_element_id), [str(v) for v in e.additional_values]]
                                             for e in s.traffic_sign_elements],
                    sorted(s.first_occurrence or []), None if s.position is None else _pts([s.position]), bool(s.virtual)])
    for t in sorted(net.traffic_lights, key=lambda x: x.traffic_light_id):
        cyc = t.traffic_light_cycle
        els = [] if cyc is None or cyc.cycle_elements is None else cyc.cycle_elements
        out.append(["T", t.traffic_light_id, [[str(c.state), int(c.duration)] for c in els],
                    None if cyc is None else cyc.time_offset, None if t.position is None else _pts([t.position]),
                    str(t.direction), bool(t.active)])
    for x in sorted(net.intersections, key=lambda x: x.intersection_id):
        out.append(["X", x.intersection_id,
                    [[i.incoming_id, sorted(i.incoming_lanelets or []), sorted(i.successors_right or []),
                      sorted(i.successors_straight or []), sorted(i.successors_left or []), i.left_of]
                     for i in sorted(x.incomings, key=lambda i: i.incoming_id)], sorted(x.crossings or [])])
    return hashlib.sha1(json.dumps(out, sort_keys=True, default=lambda o: type(o).__name__).encode()).hexdigest()


def _state_fp(s):
    pos = getattr(s, "position", None)
    return [_r(s.time_step),
            _pts([pos]) if hasattr(pos, "__len__") else type(pos).__name__, _r(getattr(s, "orientation", None))]


def _obs_fp(sc):
    out = []
    for o in sorted(sc.obstacles, key=lambda x: x.obstacle_id):
        pr = getattr(o, "prediction", None)
        tr = getattr(pr, "trajectory", None)
        out.append([o.obstacle_id, type(o).__name__, str(getattr(o, "obstacle_type", None)), type(getattr(o, "obstacle_shape", None)).__name__,
                    _state_fp(o.initial_state) if getattr(o, "initial_state", None) is not None else None,
                    type(pr).__name__, None if tr is None else [_state_fp(s) for s in tr.state_list]])
    return hashlib.sha1(json.dumps(out, sort_keys=True, default=lambda o: type(o).__name__).encode()).hexdigest()


def _registries(sc):
    for o in sc.obstacles:
        if getattr(o, "initial_center_lanelet_ids", None) or getattr(o, "initial_shape_lanelet_ids", None):
            return 1
    return 0


# ---- running one case --------------------------------------------------------------------------------
class _Run:
    def __init__(self, tag):
        self.d = os.path.join(SANDBOX, "p%d" % os.getpid())           # one sandbox per worker process, emptied per case
        self.scratch = self.d + "_scratch"
        self.ev, self.writers, self.readers = [], {}, {}
        self.ids, self.seen, self.keep, self.prev = {}, set(), [], {}

    def _clean(self):
        for base in (self.d, self.scratch):
            os.makedirs(base, exist_ok=True)
            for root, dirs, files in os.walk(base, topdown=False):
                for n in files:
                    os.remove(os.path.join(root, n))
                for n in dirs:
                    if not (root == self.d and n == "dir"):
                        os.rmdir(os.path.join(root, n))
        os.makedirs(os.path.join(self.d, "dir"), exist_ok=True)

    def __enter__(self):
        global _registered
        self._clean()
        if not _registered:
            import atexit
            from multiprocessing import util
            _registered = True
            for p in (self.d, self.scratch):
                atexit.register(shutil.rmtree, p, True)                                   # main process
                util.Finalize(None, shutil.rmtree, args=(p, True), exitpriority=10)       # pool workers skip atexit
        self.cwd = os.getcwd()
        os.chdir(self.d)
        self.input = builtins.input
        self.ev.append({"op": "init", "fs": _snapshot(self.d), "sig": "init"})
        return self

    def __exit__(self, *a):
        builtins.input = self.input
        os.chdir(self.cwd)
        self._clean()

    def fid(self, h):
        return self.ids.setdefault(h, len(self.ids) + 1)

    # -- fixtures
    def put(self, name, c):
        data = _fixture(c, self.scratch)
        with open(os.path.join(self.d, name), "wb") as f:
            f.write(data)
        self.ev.append({"op": "put", "name": name, "c": dict(c), "fs": _snapshot(self.d), "sig": "put/" + c["fmt"]})

    def rm(self, name):
        p = os.path.join(self.d, name)
        if os.path.isfile(p):
            os.remove(p)
            self.ev.append({"op": "rm", "name": name, "fs": _snapshot(self.d), "sig": "rm"})

    # -- writer
    def w_new(self, w, fmt, pps, h):
        from commonroad.common.file_writer import CommonRoadFileWriter
        from commonroad.common.util import FileFormat
        a, s = _h_fields(h)
        res = "ok"
        try:
            self.writers[w] = (CommonRoadFileWriter(_scenario(w, s), _pps(pps), file_format=FileFormat.XML if fmt == "xml"
                                                    else FileFormat.PROTOBUF, **_args(a)), fmt)
        except Exception as ex:
            res = _exc(ex)
        self.ev.append({"op": "w_new", "w": w, "fmt": fmt, "pps": pps, "h": h, "v": w, "res": res,
                        "fs": _snapshot(self.d), "sig": "w_new/%s/%s" % (fmt, h)})

    def write(self, w, path, mode, ans, kind, cv, as_path=False):
        from commonroad.common.file_writer import OverwriteExistingFile as O
        if w not in self.writers:
            return
        wr, fmt = self.writers[w]
        queue, calls = list(ans), [0]

        def fake_input(prompt=""):
            calls[0] += 1
            if not queue:
                raise EOFError("scripted input exhausted")
            return queue.pop(0)
        _age(self.d)
        fn = None if path == "" else (__import__("pathlib").Path(path) if as_path else path)
        m = {"always": O.ALWAYS, "skip": O.SKIP, "ask": O.ASK_USER_INPUT}[mode]
        res = "ok"
        buf = io.StringIO()
        hnd = _Capture()
        logging.disable(logging.NOTSET)
        logging.getLogger().addHandler(hnd)
        builtins.input = fake_input
        try:
            with warnings.catch_warnings(record=True) as wlist, contextlib.redirect_stdout(buf):
                warnings.simplefilter("always")
                try:
                    if kind == "full":
                        wr.write_to_file(fn, m, check_validity=bool(cv)) if cv else wr.write_to_file(fn, m)
                    else:
                        wr.write_scenario_to_file(fn, m)
                except Exception as ex:
                    res = _exc(ex)
        finally:
            builtins.input = self.input
            logging.getLogger().removeHandler(hnd)
            logging.disable(logging.CRITICAL)
        texts = [str(x.message) for x in wlist] + hnd.msgs + buf.getvalue().splitlines()
        warned = 1 if any("valid" in t.lower() for t in texts) else 0
        pdir = os.path.dirname(path)
        self.ev.append({"op": "write", "w": w, "path": path, "pdir": pdir, "sid": SID, "mode": mode, "ans": list(ans),
                        "kind": kind, "cv": cv, "res": res, "prompts": calls[0], "touched": _touched(self.d),
                        "warned": warned, "fs": _snapshot(self.d),
                        "sig": "write/%s/%s%s%s" % (fmt, kind, "+cv" if cv else "", "" if res == "ok" else "/" + res)})

    # -- reader
    def r_new(self, r, name, ff, src):
        from commonroad.common.file_reader import CommonRoadFileReader
        from commonroad.common.util import FileFormat
        p = os.path.join(self.d, name)
        if src == "bytes":
            if os.path.isfile(p):
                with open(p, "rb") as f:
                    arg = f.read()
            else:
                arg = GARBAGE
        else:
            arg = __import__("pathlib").Path(name) if src == "path" else name
        fa = {"none": None, "xml": FileFormat.XML, "pb": FileFormat.PROTOBUF, "str": ".xml"}[ff]
        res = "ok"
        try:
            rd = CommonRoadFileReader(arg) if ff == "none" else CommonRoadFileReader(arg, fa)
            self.readers[r] = (rd, ff, src)
        except Exception as ex:
            res = _exc(ex)
        self.ev.append({"op": "r_new", "r": r, "name": name, "parts": os.path.basename(name).split("."), "ff": ff,
                        "src": src, "res": res, "fs": _snapshot(self.d),
                        "sig": "r_new/%s/%s%s" % (ff, src, "" if res == "ok" else "/" + res)})

    def _fresh(self, objs):
        ok = all(id(o) not in self.seen for o in objs)
        for o in objs:
            self.seen.add(id(o))
        self.keep.extend(objs)                          # keep them alive: ids stay unique
        return 1 if ok else 0

    def open(self, r, la):
        if r not in self.readers:
            return
        rd, ff, src = self.readers[r]
        e = {"op": "open", "r": r, "la": la, "res": "ok", "v": 0, "pp": 0, "h": "", "nfp": 0, "ofp": 0, "reg": 0,
             "fresh": 1, "eqprev": 0}
        try:
            sc, pps = rd.open(bool(la)) if la else rd.open()
        except Exception as ex:
            sc, e["res"] = None, _exc(ex)
        if sc is not None:                                   # projections: a failure here is the driver's, not the library's
            net = sc.lanelet_network
            e.update(v=len(net.lanelets), pp=len(pps.planning_problem_dict),
                     h=_h_of(sc, 3 if getattr(sc.scenario_id, "scenario_version", "") == "2018b" else 4),
                     nfp=self.fid(_net_fp(net)), ofp=self.fid("o" + _obs_fp(sc)), reg=_registries(sc),
                     fresh=self._fresh([sc, pps, net] + list(net.lanelets) + list(sc.obstacles)
                                       + list(pps.planning_problem_dict.values())))
            if r in self.prev:
                p_sc, p_pps = self.prev[r]
                try:
                    e["eqprev"] = 1 if (sc == p_sc and sorted(pps.planning_problem_dict) == sorted(
                        p_pps.planning_problem_dict)) else 0
                except Exception:
                    e["eqprev"] = 0
            self.prev[r] = (sc, pps)
        e["fs"] = _snapshot(self.d)
        e["sig"] = "open/%s%s" % (ff, "" if e["res"] == "ok" else "/" + e["res"])
        self.ev.append(e)

    def open_net(self, r):
        if r not in self.readers:
            return
        rd, ff, src = self.readers[r]
        e = {"op": "open_net", "r": r, "res": "ok", "v": 0, "nfp": 0, "fresh": 1}
        try:
            net = rd.open_lanelet_network()
        except Exception as ex:
            net, e["res"] = None, _exc(ex)
        if net is not None:
            e.update(v=len(net.lanelets), nfp=self.fid(_net_fp(net)), fresh=self._fresh([net] + list(net.lanelets)))
        e["fs"] = _snapshot(self.d)
        e["sig"] = "open_net/%s%s" % (ff, "" if e["res"] == "ok" else "/" + e["res"])
        self.ev.append(e)

    def apply(self, a):
        op = a["op"]
        if op == "put":
            self.put(a["name"], a["c"])
        elif op == "rm":
            self.rm(a["name"])
        elif op == "w_new":
            self.w_new(a["w"], a["fmt"], a["pps"], a["h"])
        elif op == "write":
            self.write(a["w"], a["path"], a["mode"], a["ans"], a["kind"], a["cv"], a.get("as_path", False))
        elif op == "r_new":
            self.r_new(a["r"], a["name"], a["ff"], a["src"])
        elif op == "open":
            self.open(a["r"], a["la"])
        elif op == "open_net":
            self.open_net(a["r"])


class _Capture(logging.Handler):
    def __init__(self):
        super().__init__(level=logging.DEBUG)
        self.msgs = []

    def emit(self, record):
        try:
            self.msgs.append(record.getMessage())
        except Exception:
            pass


def _ctor_case(run, case):
    from commonroad.common.file_reader import CommonRoadFileReader
    from commonroad.common.file_writer import CommonRoadFileWriter, OverwriteExistingFile
    from commonroad.common.util import FileFormat
    a = dict(zip(FIELDS, case["a"]))
    s = {f: k == "val" for f, k in zip(FIELDS, case["s"])}
    ff = FileFormat.XML if case["fmt"] == "xml" else FileFormat.PROTOBUF
    res, got = "ok", []
    try:
        wr = CommonRoadFileWriter(_scenario(1, s), _pps("one"), file_format=ff, **_args(a))
    except Exception as ex:
        res = _exc(ex)
    if res == "ok":
        p = os.path.join(run.scratch, "ctor" + ff.value)
        try:
            wr.write_to_file(p, OverwriteExistingFile.ALWAYS)
            sc, _ = CommonRoadFileReader(p, ff).open()
            got = _tokens(sc)
        except Exception as ex:
            got = ["roundtrip-" + _exc(ex)] * 5
    shape = "bad" if "bad" in case["a"] else "missing" if any(x == "none" and y == "none" for x, y in
                                                                list(zip(case["a"], case["s"]))[:4]) else "complete"
    run.ev.append({"op": "ctor", "fmt": case["fmt"], "a": list(case["a"]), "s": list(case["s"]), "res": res, "got": got,
                   "sig": "ctor/%s/%s%s" % (case["fmt"], shape, "" if res == "ok" else "/" + res)})


def _detect_ops(case):
    name = ".".join(case["parts"])
    ops = []
    if case["disk"] != "none":
        ops.append({"op": "put", "name": name, "c": dict(GARB) if case["disk"] == "garb" else
                    {"fmt": case["disk"], "v": 1, "pp": 1, "h": "arg"}})
    ops += [{"op": "r_new", "r": 1, "name": name, "ff": case["ff"], "src": case["src"]},
            {"op": "open", "r": 1, "la": 0}, {"op": "open_net", "r": 1}, {"op": "open", "r": 1, "la": 1},
            {"op": "open", "r": 1, "la": 1}]
    return ops


NAMES = ["a.xml", "a.pb", "a.XML", "a", "a.txt", "b.xml", "b.pb", "dir/a.xml", "dir/b.pb", "a.b.xml", "a.xml.pb", ".xml",
         "a b.xml", "ä.xml", "a.Pb", "a.xml.bak"]


def _random_ops(seed, n):
    import random
    rng = random.Random(seed)
    nreal = len(_real_files())
    ops, nw, nr = [], 0, 0
    pool = rng.sample(NAMES, 4)
    for _ in range(n):
        x = rng.random()
        if nw == 0 and nr == 0 and x < 0.5 or x < 0.08 and nw < 3:
            nw += 1
            ops.append({"op": "w_new", "w": nw, "fmt": rng.choice(["xml", "pb"]), "pps": rng.choice(["one", "one", "empty"]),
                        "h": rng.choice(["arg", "scn", "both"])})
        elif x < 0.2 and nr < 3:
            nr += 1
            ops.append({"op": "r_new", "r": nr, "name": rng.choice(pool), "ff": rng.choice(["none", "none", "xml", "pb", "str"]),
                        "src": rng.choice(["str", "str", "path", "bytes"])})
        elif x < 0.3:
            if nreal and rng.random() < 0.15:
                i = rng.randrange(nreal)
                c = _real_content(i)
                if os.path.getsize(_real_files()[i][1]) > 400000:
                    continue
            else:
                f = rng.choice(["xml", "pb", "xml18", "garb"])
                c = dict(GARB) if f == "garb" else {"fmt": f, "v": rng.randint(1, 3), "pp": 1, "h": "arg"}
            ops.append({"op": "put", "name": rng.choice(pool), "c": c})
        elif x < 0.34:
            ops.append({"op": "rm", "name": rng.choice(pool)})
        elif x < 0.7 and nw:
            mode = rng.choice(["always", "skip", "ask", "ask"])
            ans = [] if mode != "ask" else [rng.choice(["y", "n", "x", "N", "", "yes", "no", "Y", " y", "n "])
                                            for _ in range(rng.randint(0, 3))]
            kind = rng.choice(["full", "scenario"])
            ops.append({"op": "write", "w": rng.randint(1, nw), "path": rng.choice(pool + ["", "", "nodir/a.xml", "dir"]),
                        "mode": mode, "ans": ans, "kind": kind, "cv": 1 if kind == "full" and rng.random() < 0.3 else 0,
                        "as_path": rng.random() < 0.2})
        elif nr:
            if rng.random() < 0.3:
                ops.append({"op": "open_net", "r": rng.randint(1, nr)})
            else:
                ops.append({"op": "open", "r": rng.randint(1, nr), "la": rng.randint(0, 1)})
    return ops


def _real_ops(i):
    fmt = _real_files()[i][0]
    name = "real.pb" if fmt == "pb" else "real.xml"
    return [{"op": "put", "name": name, "c": _real_content(i)}, {"op": "r_new", "r": 1, "name": name, "ff": "none", "src": "str"},
            {"op": "open", "r": 1, "la": 0}, {"op": "open", "r": 1, "la": 0}, {"op": "open_net", "r": 1},
            {"op": "r_new", "r": 2, "name": name, "ff": "pb" if fmt == "pb" else "xml", "src": "bytes"},
            {"op": "open_net", "r": 2}, {"op": "open", "r": 2, "la": 1}]


def execute(case):
    use_repo()
    _quiet()
    tag = hashlib.sha1(json.dumps(case, sort_keys=True).encode()).hexdigest()[:12]
    with _Run(tag) as run:
        if case["origin"] == "tlc" and case["k"] == "ctor":
            run.ev = []                      # stateless: no sandbox involved
            _ctor_case(run, case)
            return {"ev": run.ev}
        if case["origin"] == "walk":
            ops = case["ops"]
        elif case["origin"] == "tlc":
            ops = _detect_ops(case)
        elif case["origin"] == "real":
            ops = _real_ops(case["idx"])
        else:
            ops = _random_ops(case["seed"], case["len"])
        for a in ops:
            run.apply(a)
        return {"ev": run.ev}


def corrupt(trace, rng):
    c = [e for e in trace["ev"] if (e["op"] == "write" and e["res"] == "ok" and e["touched"]) or
         (e["op"] in ("open", "open_net") and e["res"] == "ok") or (e["op"] == "ctor" and e["res"] == "ok")]
    if not c:
        return None
    e = rng.choice(c)
    if e["op"] == "write":
        e["touched"] = []                    # claims the file was left alone
    elif e["op"] == "ctor":
        e["got"][rng.randrange(4)] = "other"
    else:
        e["fresh"] = 0                       # claims an object of an earlier result was handed out again
    return trace


def summarize(cases, traces):
    ops = {}
    for t in traces:
        for e in t["ev"]:
            ops[e["op"]] = ops.get(e["op"], 0) + 1
    return {"events_by_op": ops}
