"""X10 (extended coverage) - whole-system composition (spec: CommonRoad.tla, MC_CommonRoad.tla, Trace_CommonRoad.tla).

ONE scenario (+ planning-problem set) shared by all subsystems: TLC interleaves operations of the id store (C09), the
network reference clean-up (C10), the rigid motions (C05), the caches (C11), the obstacle-lanelet assignment (C07), the
traffic light (C17), the file writers / readers (C01/C02/C15), copying (C18) and the queries; every call is executed
on the real library, the FULL projected world is logged after every call and TLC validates every step against
Exp(pre, action) of CommonRoad.tla.  Histories continue on the read-back scenario after a file round trip and on the
copy after deepcopy / pickle (the original is checked to stay unchanged)."""
import copy
import json
import math
import os
import pickle
import random
import warnings

from crv import graph, tlc
from crv.core import use_repo

PROPERTY = "X10"
MODULES = ["CommonRoad", "MC_CommonRoad", "Trace_CommonRoad"]
TRACE = ("Trace_CommonRoad", "Trace_CommonRoad.cfg")
EXHAUSTIVE = True
RULE = ("TLC explores the composed implementation-shaped model (one scenario: 3 box lanelets with successor / sign / light "
        "references and registries, 1 sign, 1 light, a dynamic obstacle with a trajectory prediction, static obstacles of "
        "which one shares its id with a lanelet, generated ids, 1 planning problem; 32 operation shapes of 9 subsystems: "
        "motions on 4 levels, assignment (all / subset / time steps), id store, network edits incl. replace / erase / "
        "cut-out / network-level merge, obstacle updates, light setters, file round trip xml / pb with and without "
        "lanelet assignment, deepcopy / pickle, 10 queries) exhaustively to depth 3 with the world invariant, refinement "
        "of the contract (the Clause operator trace validation uses), cache freshness, independence of the original "
        "after a copy and the laws of the contract operators; 7 deviation constants must be flagged. Spec -> code: (1) the "
        "labelled graph to depth 2 is dumped and a transition cover executed on a real Scenario; (2) `tlc -simulate` "
        "behaviours of depth 12 (14 thorough; history variable, invariants and refinement checked on every state) are "
        "executed as long cross-subsystem interleavings, the history continuing on the read-back scenario / the copy; "
        "(3) seeded random histories of 16 calls with arbitrary lattice motions beyond TLC's constants. After EVERY call "
        "the whole world (id pool, lanelets with rings / relations / references / registries, sign, light, obstacles "
        "with poses / histories / recorded assignments, planning problem) is projected and TLC compares it component by "
        "component with Exp(pre, call); query answers are compared with Recompute(pre); every history ends with a check "
        "that the object left behind by the last copy is unchanged. distinct_nontrivial = distinct operation sequences "
        "that touch at least three subsystems.")
ASSUMPTIONS = ["lattice world: box lanelets, integer centres, quarter turns (expected answers exact; coordinates read with "
               "tolerance 1e-4 because the XML writer truncates to the written precision); pure boundary contact is an "
               "EITHER band (Cache.tla / Assignment.tla)",
               "the reserved ids are read with Scenario._is_object_id_used (no deep copy: a copy would refill the caches "
               "under test)",
               "LaneletNetwork.add_lanelets_from_network is a network-level call: it is only issued when the ids are free "
               "in the scenario and the driver reserves the ids of the lanelets that arrived afterwards (as the C11 driver "
               "does)",
               "where the docstrings are silent both behaviours are accepted (bands declared in CommonRoad.tla): "
               "obstacle -> lanelet relations that refer to a removed / replaced lanelet, registry entries no longer backed "
               "by a recorded relation when the obstacle is removed, registries of a cut-out copy, hanging signs / lights "
               "may stay, histories under translate_rotate (constant HistBand), assignment at a time step before the "
               "initial time step, None vs. empty lanelet-id sets, an XML file whose sign is referenced by no lanelet "
               "(the reader calls it invalid), replace_lanelet_network rejected: nothing happened or old network gone"]

COLS = ["red", "green", "yellow"]
BASE_RING = {1: (0, 0, 2, 2), 2: (2, 0, 4, 2), 3: (0, 2, 2, 4)}
SIGN, LIGHT, PP = 11, 21, 41
OFF = 777777                                # marker of an off-lattice coordinate (never equal to an expected value)
PROBE = list(range(1, 61))


# ======================================================================================================
# gamma: tokens -> real objects (public constructors only)
# ======================================================================================================

def _poses_to_states(poses, t_first):
    import numpy as np
    from commonroad.scenario.state import KSState
    return [KSState(position=np.array([float(x), float(y)]), orientation=q * math.pi / 2, time_step=t_first + i,
                    velocity=1.0, steering_angle=0.0) for i, (x, y, q) in enumerate(poses)]


def _prediction(poses, t_first, shape):
    from commonroad.prediction.prediction import TrajectoryPrediction
    from commonroad.scenario.trajectory import Trajectory
    return TrajectoryPrediction(Trajectory(t_first, _poses_to_states(poses, t_first)), shape)


def _lanelet(lid, rich):
    """Base lanelet lid; rich = with the constructor relations / references of the initial network."""
    from crv import gamma as G
    x0, y0, x1, y1 = BASE_RING[lid]
    kw = {}
    if rich and lid == 1:
        kw = dict(successor=[2], traffic_signs={SIGN}, traffic_lights={LIGHT})
    if rich and lid == 2:
        kw = dict(predecessor=[1], traffic_lights={LIGHT})
    return G.lanelet(lid, x0=float(x0), y0=float(y0), length=float(x1 - x0), width=float(y1 - y0), **kw)


def _sign():
    from crv import gamma as G
    return G.sign(SIGN, (0.0, -1.0))


def _light():
    from crv import gamma as G
    return G.light(LIGHT, (4.0, -1.0), cycle=(("red", 2), ("green", 1)), offset=0)


def _obstacle(oid, token):
    """token: 31 dynamic (1 x 3 box, two predicted poses), 32 / 3 static unit boxes, 0 = the generated-id static box."""
    from commonroad.scenario.obstacle import DynamicObstacle, ObstacleType
    from crv import gamma as G
    if token == 31:
        return DynamicObstacle(oid, ObstacleType.CAR, G.rect(1.0, 3.0), G.init_state(1.0, 1.0, 0.0, t=0),
                               _prediction([(2, 1, 0), (3, 1, 1)], 1, G.rect(1.0, 3.0)))
    x, y = {32: (1.0, 3.0), 3: (3.0, 1.0), 0: (1.0, 1.0)}[token]
    return G.static_obstacle(oid, x, y, G.rect(1.0, 1.0))


def _network(name):
    """NA = the initial network (lanelets 1, 2 + sign + light), NB = lanelet 3 alone (its id collides with obstacle token 3)."""
    from crv import gamma as G
    if name == "NA":
        net = G.network([_lanelet(1, True), _lanelet(2, True)])
        net.add_traffic_sign(_sign(), set())
        net.add_traffic_light(_light(), set())
        return net
    if name == "NB":
        return G.network([_lanelet(3, False)])
    raise tlc.MachineryError("unknown network token " + name)


def build_world():
    from commonroad.planning.goal import GoalRegion
    from commonroad.planning.planning_problem import PlanningProblem, PlanningProblemSet
    from commonroad.scenario.scenario import Tag
    from crv import gamma as G
    sc = G.scenario()
    sc.author, sc.affiliation, sc.source, sc.tags = "a", "b", "c", {Tag.URBAN}
    sc.add_objects([_lanelet(1, True), _lanelet(2, True)])
    sc.add_objects(_sign(), set())
    sc.add_objects(_light(), set())
    sc.add_objects([_obstacle(31, 31), _obstacle(32, 32)])
    goal = GoalRegion([G.goal_state(position=G.rect(1.0, 1.0, (3.0, 1.0)), t_lo=0, t_hi=10)])
    pps = PlanningProblemSet([PlanningProblem(PP, G.init_state(0.0, 1.0, 0.0, t=0), goal)])
    return sc, pps


# ======================================================================================================
# alpha: real objects -> the projected world (ints / strings / lists only)
# ======================================================================================================

def _int(x):
    r = round(float(x))
    return int(r) if abs(float(x) - r) <= 1e-4 and abs(r) < 100000 else OFF


def _q(theta):
    k = float(theta) / (math.pi / 2)
    r = round(k)
    return int(r) % 4 if abs(k - r) <= 1e-4 else OFF


def _pose(st):
    return [_int(st.position[0]), _int(st.position[1]), _q(st.orientation)]


def _col(state):
    return {"RED": "red", "GREEN": "green", "YELLOW": "yellow"}.get(state.name, state.name.lower())


def _ids(s):
    return sorted(int(x) for x in s)


def _ring(la):
    import numpy as np
    pts = np.concatenate((la.right_vertices, np.flip(la.left_vertices, 0)))
    return [[_int(p[0]), _int(p[1])] for p in pts]


def _tmap(d):
    return [[int(t), _ids(v)] for t, v in sorted((d or {}).items())]


def project(sc, pps):
    net = sc.lanelet_network
    L = []
    for la in sorted(net.lanelets, key=lambda x: x.lanelet_id):
        L.append({"id": int(la.lanelet_id), "ring": _ring(la), "succ": _ids(la.successor), "pred": _ids(la.predecessor),
                  "sg": _ids(la.traffic_signs), "lt": _ids(la.traffic_lights),
                  "st": _ids(la.static_obstacles_on_lanelet or ()),
                  "dy": [r for r in _tmap(la.dynamic_obstacles_on_lanelet) if r[1]]})
    S = [{"id": int(s.traffic_sign_id), "pos": [_int(s.position[0]), _int(s.position[1])]}
         for s in sorted(net.traffic_signs, key=lambda x: x.traffic_sign_id)]
    T = []
    for s in sorted(net.traffic_lights, key=lambda x: x.traffic_light_id):
        c = s.traffic_light_cycle
        T.append({"id": int(s.traffic_light_id), "pos": [_int(s.position[0]), _int(s.position[1])],
                  "cyc": [{"d": int(e.duration), "c": _col(e.state)} for e in c.cycle_elements],
                  "off": int(c.time_offset)})
    O = []
    for o in sorted(sc.static_obstacles + sc.dynamic_obstacles, key=lambda x: x.obstacle_id):
        dyn = o in sc.dynamic_obstacles
        pred = o.prediction if dyn else None
        ic, isl = o.initial_center_lanelet_ids, o.initial_shape_lanelet_ids
        t0 = int(o.initial_state.time_step)
        ca = getattr(pred, "center_lanelet_assignment", None) or {}
        sa = getattr(pred, "shape_lanelet_assignment", None) or {}
        O.append({"id": int(o.obstacle_id), "kind": "dynamic" if dyn else "static", "t0": t0,
                  "init": _pose(o.initial_state), "has": 1 if pred is not None else 0,
                  "traj": [_pose(s) for s in pred.trajectory.state_list] if pred is not None else [],
                  "shp": [_int(o.obstacle_shape.length), _int(o.obstacle_shape.width)],
                  "pshp": [_int(pred.shape.length), _int(pred.shape.width)] if pred is not None
                  else [_int(o.obstacle_shape.length), _int(o.obstacle_shape.width)],
                  "hist": [_pose(s) for s in o.history] if dyn else [],
                  "hl": [len(o.history), len(o.signal_history), len(o.center_lanelet_ids_history),
                         len(o.shape_lanelet_ids_history)] if dyn else [0, 0, 0, 0],
                  "icf": 0 if ic is None else 1, "ic": _ids(ic or ()), "isf": 0 if isl is None else 1, "is": _ids(isl or ()),
                  "ca": [r for r in _tmap(ca) if r[0] != t0], "sa": [r for r in _tmap(sa) if r[0] != t0]})
    P = []
    for pid, p in sorted(pps.planning_problem_dict.items()):
        g = p.goal.state_list[0].position
        P.append({"id": int(pid), "init": _pose(p.initial_state),
                  "goal": [_int(g.center[0]), _int(g.center[1]), _q(g.orientation), _int(g.length), _int(g.width)]})
    return {"ids": [i for i in PROBE if sc._is_object_id_used(i)], "L": L, "S": S, "T": T, "O": O, "P": P}


# ======================================================================================================
# execution of one action on the system under test
# ======================================================================================================

class Sut:
    def __init__(self):
        self.sc, self.pps = build_world()
        self.orig = None                        # (scenario, pps) left behind by the last copy
        self.tmp = os.path.join(tlc.OUT, "x10", "tmp")
        os.makedirs(self.tmp, exist_ok=True)

    def world(self):
        return project(self.sc, self.pps)


QUERIES = ("occ", "state", "find_pos", "find_shape", "by_box", "light", "states_at", "goal", "check_orig", "occs_at")


def _occ_key(occ):
    if occ is None:
        return []
    pts = {(_int(2 * p[0]), _int(2 * p[1])) for p in occ.shape.vertices}
    return sorted([a, b] for a, b in pts)


def _obs(sc, oid):
    for o in sc.static_obstacles + sc.dynamic_obstacles:
        if o.obstacle_id == oid:
            return o
    return None


def enabled(sut, op, a, s):
    """Whether the call is meaningful on the real object (the drivers' promise: removals / updates name contained objects)."""
    sc = sut.sc
    net = sc.lanelet_network
    if op == "tr" and s == "obstacle":
        return _obs(sc, a[3]) is not None
    if op in ("remove_obstacle", "occ", "state"):
        return _obs(sc, a[0]) is not None
    if op in ("update_initial_state", "update_prediction"):
        o = _obs(sc, a[0])
        return o is not None and o in sc.dynamic_obstacles
    if op == "assign":
        return all(_obs(sc, i) is not None for i in a[:a.index(-1)]) and bool(sc.static_obstacles + sc.dynamic_obstacles)
    if op == "remove_lanelet":
        return net.find_lanelet_by_id(a[0]) is not None
    if op == "remove_sign":
        return net.find_traffic_sign_by_id(SIGN) is not None
    if op == "remove_light":
        return net.find_traffic_light_by_id(LIGHT) is not None
    if op in ("set_cycle", "set_offset", "light"):
        return net.find_traffic_light_by_id(LIGHT) is not None
    if op == "cutout":
        return len(net.lanelets) > 0
    if op == "merge":                        # network-level call: the ids must be free in the scenario (or be lanelets already)
        return all(net.find_lanelet_by_id(i) is not None or not sc._is_object_id_used(i) for i in a)
    if op == "check_orig":
        return sut.orig is not None
    if op == "goal":
        return PP in sut.pps.planning_problem_dict
    return True


def run_query(sut, op, a, s):
    import numpy as np
    from commonroad.common.util import Interval
    from commonroad.geometry.shape import Rectangle
    from commonroad.scenario.state import KSState
    sc = sut.sc
    net = sc.lanelet_network
    if op == "occ":
        return {"rpts": _occ_key(_obs(sc, a[0]).occupancy_at_time(a[1]))}
    if op == "state":
        st = _obs(sc, a[0]).state_at_time(a[1])
        return {"rpose": [] if st is None else _pose(st)}
    if op == "find_pos":
        return {"rids": _ids(net.find_lanelet_by_position([np.array([a[0] / 2.0, a[1] / 2.0])])[0])}
    if op == "find_shape":
        return {"rids": _ids(net.find_lanelet_by_shape(Rectangle(1.0, 1.0, np.array([a[0] / 2.0, a[1] / 2.0]))))}
    if op == "by_box":                      # a = x0, x1, y0, y1 (doubled), t
        r = sc.obstacles_by_position_intervals([Interval(a[0] / 2.0, a[1] / 2.0), Interval(a[2] / 2.0, a[3] / 2.0)],
                                               time_step=a[4])
        return {"rids": _ids(o.obstacle_id for o in r)}
    if op == "light":
        return {"rstr": _col(net.find_traffic_light_by_id(LIGHT).get_state_at_time_step(a[0]))}
    if op == "states_at":
        d = sc.obstacle_states_at_time_step(a[0])
        return {"rmap": [[int(k), _pose(v)] for k, v in sorted(d.items())]}
    if op == "occs_at":
        return {"rocc": sorted(_occ_key(o) for o in sc.occupancies_at_time_step(a[0]))}
    if op == "goal":
        p = sut.pps.find_planning_problem_by_id(PP)
        st = KSState(position=np.array([a[0] / 2.0, a[1] / 2.0]), orientation=0.0, time_step=a[2], velocity=1.0,
                     steering_angle=0.0)
        return {"rint": 1 if p.goal.is_reached(st) else 0}
    if op == "check_orig":                  # the object left behind by the last copy: its world and one cache-backed answer
        sc0, pps0 = sut.orig
        o = _obs(sc0, 31)
        return {"rworld": project(sc0, pps0),
                "rpts": _occ_key(o.occupancy_at_time(a[0])) if o is not None else [],
                "has31": 1 if o is not None else 0}
    raise tlc.MachineryError("unknown query " + op)


def run_mutator(sut, op, a, s):
    """Performs the call; returns extra event fields."""
    import numpy as np
    from commonroad.common.file_reader import CommonRoadFileReader
    from commonroad.common.file_writer import CommonRoadFileWriter, OverwriteExistingFile
    from commonroad.common.util import FileFormat
    from commonroad.scenario.lanelet import LaneletNetwork
    from commonroad.scenario.traffic_light import TrafficLightCycleElement, TrafficLightState
    from crv import gamma as G
    sc, pps = sut.sc, sut.pps
    net = sc.lanelet_network
    if op == "tr":
        t, ang = np.array([float(a[0]), float(a[1])]), a[2] * math.pi / 2
        {"scenario": sc, "network": net, "pps": pps, "obstacle": _obs(sc, a[3])}[s].translate_rotate(t, ang)
    elif op == "assign":                        # a = obstacle ids ++ [-1] ++ time steps; empty part = None (all)
        k = a.index(-1)
        oids, ts = a[:k], a[k + 1:]
        sc.assign_obstacles_to_lanelets(time_steps=list(ts) if ts else None, obstacle_ids=set(oids) if oids else None)
    elif op == "add_obstacle":
        sc.add_objects(_obstacle(a[0], a[0]))
    elif op == "remove_obstacle":
        sc.remove_obstacle(_obs(sc, a[0]))
    elif op == "gen":
        return {"gid": int(sc.generate_object_id())}
    elif op == "gen_add":
        g = int(sc.generate_object_id())
        x = {"gid": g}
        try:
            sc.add_objects(_obstacle(g, 0))
        except Exception as ex:
            x["exc"] = "exc:" + type(ex).__name__
        return x
    elif op == "add_lanelet":
        sc.add_objects(_lanelet(a[0], False))
    elif op == "add_sign":
        sc.add_objects(_sign(), set(a))
    elif op == "add_light":
        sc.add_objects(_light(), set(a))
    elif op == "remove_lanelet":
        sc.remove_lanelet(net.find_lanelet_by_id(a[0]), referenced_elements=bool(a[1]))
    elif op == "remove_sign":
        sc.remove_traffic_sign(net.find_traffic_sign_by_id(SIGN))
    elif op == "remove_light":
        sc.remove_traffic_light(net.find_traffic_light_by_id(LIGHT))
    elif op == "replace":
        sc.replace_lanelet_network(_network(s))
    elif op == "erase":
        sc.erase_lanelet_network()
    elif op == "cutout":                        # a = centre (doubled) of the 1 x 1 cut shape; the cut-out REPLACES the network
        new = LaneletNetwork.create_from_lanelet_network(net, shape_input=G.rect(1.0, 1.0, (a[0] / 2.0, a[1] / 2.0)))
        sc.replace_lanelet_network(new)
    elif op == "merge":                         # network-level: add_lanelets_from_network(source with fresh base lanelets a)
        src = LaneletNetwork()
        for i in a:
            src.add_lanelet(_lanelet(i, False))
        net.add_lanelets_from_network(src)
        for la in net.lanelets:                  # keep the scenario's id registry in step (network-level API)
            if not sc._is_object_id_used(la.lanelet_id):
                sc._mark_object_id_as_used(la.lanelet_id)
    elif op == "update_initial_state":          # a = obstacle, x, y, q, max_history_length
        o = _obs(sc, a[0])
        o.update_initial_state(G.init_state(float(a[1]), float(a[2]), a[3] * math.pi / 2, t=o.initial_state.time_step + 1),
                               max_history_length=a[4])
    elif op == "update_prediction":             # a = obstacle ++ flat poses (empty = None)
        o = _obs(sc, a[0])
        poses = [a[i:i + 3] for i in range(1, len(a), 3)]
        o.update_prediction(_prediction(poses, o.initial_state.time_step + 1,
                                        G.rect(o.obstacle_shape.length, o.obstacle_shape.width)) if poses else None)
    elif op == "set_cycle":                     # a = flat (duration, colour index)
        net.find_traffic_light_by_id(LIGHT).traffic_light_cycle.cycle_elements = [
            TrafficLightCycleElement(TrafficLightState[COLS[a[i + 1]].upper()], a[i]) for i in range(0, len(a), 2)]
    elif op == "set_offset":
        net.find_traffic_light_by_id(LIGHT).traffic_light_cycle.time_offset = a[0]
    elif op == "write":                         # s = xml / pb; the scenario written must stay unchanged (C18)
        fmt = FileFormat.XML if s == "xml" else FileFormat.PROTOBUF
        sut.path = os.path.join(sut.tmp, "p%d.%s" % (os.getpid(), s))
        CommonRoadFileWriter(sc, pps, decimal_precision=6, file_format=fmt).write_to_file(sut.path, OverwriteExistingFile.ALWAYS)
    elif op == "open":                          # a = [lanelet_assignment]; the history continues on what was read
        sut.sc, sut.pps = CommonRoadFileReader(sut.path).open(lanelet_assignment=bool(a[0]))
        sut.orig = None
    elif op == "copy":                          # s = deepcopy / pickle; the history continues on the copy
        sut.orig = (sc, pps)
        if s == "deepcopy":
            sut.sc, sut.pps = copy.deepcopy((sc, pps))
        else:
            sut.sc, sut.pps = pickle.loads(pickle.dumps((sc, pps)))
    else:
        raise tlc.MachineryError("unknown op " + op)
    return {}


def _sig(op, a, s, sut):
    if op == "tr":
        return "tr@%s[%s]" % (s, "turn" if a[2] else "shift")
    if op == "assign":
        return "assign"
    if op in ("replace", "write", "copy"):
        return "%s[%s]" % (op, s)
    if op == "open":
        return "open[%s;la=%d]" % (s, a[0])
    if op == "remove_lanelet":
        return "remove_lanelet[ref=%d]" % a[1]
    if op == "update_prediction":
        return "update_prediction[%s]" % ("none" if len(a) == 1 else "traj")
    return op


def step(sut, op, a, s, ev):
    """One action -> one event appended (file = write + open -> two events)."""
    if op == "file":
        step(sut, "write", [], s, ev)
        if ev[-1]["exc"] == "None":
            step(sut, "open", [a[0]], s, ev)
        return
    if not enabled(sut, op, a, s):
        return
    e = {"op": op, "a": [int(x) for x in a], "s": s, "exc": "None", "sig": _sig(op, a, s, sut)}
    try:
        with warnings.catch_warnings():
            warnings.simplefilter("ignore")
            e.update(run_query(sut, op, a, s) if op in QUERIES else run_mutator(sut, op, a, s))
    except tlc.MachineryError:
        raise
    except Exception as ex:
        e["exc"] = "exc:" + type(ex).__name__
    try:
        e["post"] = sut.world()
    except tlc.MachineryError:
        raise
    except Exception as ex:                      # the world can no longer be read through the public accessors
        e["post"] = {"ids": [], "L": [], "S": [], "T": [], "O": [], "P": []}
        e["exc"] = "exc:unreadable:" + type(ex).__name__
    ev.append(e)


# ======================================================================================================
# cases
# ======================================================================================================

def model_check(ctx):
    ctx.mc("MC_CommonRoad", "MC_CommonRoad_t.cfg" if ctx.thorough else "MC_CommonRoad.cfg", timeout=3000)
    for n, name in ((1, "PropRefines"), (2, "InvFresh"), (3, "InvWorld"), (4, "InvOrigFresh"), (5, "PropRefines"),
                    (6, "PropRefines"), (7, "PropRefines")):
        ctx.mc_expect("MC_CommonRoad", "DEV_CommonRoad_%d.cfg" % n, name)


def _act(a):
    return {"op": a["op"], "a": [int(x) for x in a["a"]], "s": a["s"]}


def cases(ctx):
    cs = []
    # (1) transition cover of the labelled graph
    cfg = "GEN_CommonRoad_t.cfg" if ctx.thorough else "GEN_CommonRoad.cfg"
    r = tlc.run_tlc("MC_CommonRoad", cfg, "x10_gen", workers=1, timeout=3000)
    if not r["ok"]:
        raise tlc.MachineryError("GEN_CommonRoad failed: " + r["out"][-2000:])
    g = graph.parse_edges(tlc.tla_unquote(p) for p in tlc.printed_tuples(r["out"], "EDGE"))
    init = [k for k in g if json.loads(k)["steps"] == 0]
    if len(init) != 1:
        raise tlc.MachineryError("initial state of the dumped graph not found")
    depth = 2
    walks = graph.cover_walks(g, init[0], max_len=depth, rng=ctx.rng)
    walks = [w for w in walks if w]
    ne = sum(len(v) for v in g.values())
    ctx.mc_runs.append({"module": "MC_CommonRoad", "cfg": cfg, "distinct_states": r["distinct"],
                        "states_generated": r["generated"], "depth": r["depth"], "wall_s": r["wall_s"],
                        "verdict": "dumped %d labelled edges -> %d covering walks" % (ne, len(walks))})
    for w in walks:
        cs.append({"src": "cover", "ops": [_act(a) for a in w]})
    # (2) long TLC-simulated behaviours: the history variable is printed when the depth bound is reached.  TLC checks the
    # invariants on every candidate successor, so the behaviours arrive in groups that share all but the last call;
    # up to 4 of each group are executed.
    workers = 12
    per_worker = 125 if ctx.thorough else 25
    sim_depth = 14 if ctx.thorough else 12
    sim_cfg = "SIM_CommonRoad_t.cfg" if ctx.thorough else "SIM_CommonRoad.cfg"
    r = tlc.run_tlc("MC_CommonRoad", sim_cfg, "x10_sim", workers=workers, timeout=3000,
                    extra=["-simulate", "num=%d" % per_worker, "-depth", str(sim_depth + 1), "-seed", str(ctx.seed + 7)])
    if r["violated"] or r["rc"] != 0 or "Error:" in r["out"]:
        raise tlc.MachineryError("simulation failed (violated=%s):\n%s" % (r["violated"], r["out"][-3000:]))
    groups = {}
    for p in tlc.printed_tuples(r["out"], "CASE"):
        ops = [_act(a) for a in json.loads(tlc.tla_unquote(p))["hist"]]
        if len(ops) == sim_depth:
            groups.setdefault(json.dumps(ops[:-1]), []).append(ops)
    if len(groups) < workers * per_worker // 2:
        raise tlc.MachineryError("simulation produced only %d behaviours:\n%s" % (len(groups), r["out"][-2000:]))
    n_sim = 0
    for k in sorted(groups):
        g = groups[k]
        for ops in ctx.rng.sample(g, min(4, len(g))):
            cs.append({"src": "sim", "ops": ops})
            n_sim += 1
    ctx.mc_runs.append({"module": "MC_CommonRoad", "cfg": sim_cfg, "distinct_states": 0,
                        "states_generated": r["generated"], "depth": sim_depth, "wall_s": r["wall_s"],
                        "verdict": "simulated %d behaviours of depth %d (invariants + refinement checked on every state); "
                                   "%d executed" % (len(groups), sim_depth, n_sim)})
    ctx.extra["simulated_behaviours"] = len(groups)
    ctx.extra["graph_edges"] = ne
    # (3) seeded random histories beyond TLC's constants
    for _ in range(2500 if ctx.thorough else 400):
        cs.append({"src": "random", "seed": ctx.rng.randrange(1 << 30), "len": 16})
    return cs


SUBSYSTEM = {"tr": "motion", "assign": "assign", "add_obstacle": "store", "remove_obstacle": "store", "gen": "store",
             "gen_add": "store", "add_lanelet": "net", "add_sign": "net", "add_light": "net", "remove_lanelet": "net",
             "remove_sign": "net", "remove_light": "net", "replace": "net", "erase": "net", "cutout": "net", "merge": "net",
             "update_initial_state": "obstacle", "update_prediction": "obstacle", "set_cycle": "light",
             "set_offset": "light", "file": "file", "copy": "copy"}


def _ops_of(case):
    return case["ops"] if "ops" in case else random_ops(case["seed"], case["len"])


def nontrivial(case):
    ops = _ops_of(case)
    subs = {SUBSYSTEM.get(o["op"], "query") for o in ops}
    return json.dumps(ops) if len(subs) >= 3 else None


def random_ops(seed, n):
    r = random.Random(seed)
    ops = []

    def A(op, a=(), s=""):
        ops.append({"op": op, "a": list(a), "s": s})

    def motion():
        return [r.randint(-3, 3), r.randint(-3, 3), r.randint(0, 3)]

    def pt():
        return [r.randint(-12, 12), r.randint(-12, 12)]

    def oid():
        return r.choice([31, 31, 32, 3, 33, 34])
    for _ in range(n):
        k = r.random()
        if k < 0.34:
            q = r.choice(["occ", "occ", "state", "find_pos", "find_shape", "by_box", "light", "states_at", "goal",
                          "check_orig", "occs_at"])
            if q in ("occ", "state"):
                A(q, [oid(), r.randint(0, 5)])
            elif q in ("find_pos", "find_shape"):
                A(q, pt())
            elif q == "by_box":
                x, y = 2 * r.randint(-6, 6) + 1, 2 * r.randint(-6, 6) + 1
                A(q, [x, x + 2 * r.randint(1, 4), y, y + 2 * r.randint(1, 4), r.randint(0, 3)])
            elif q == "goal":
                A(q, pt() + [r.randint(0, 12)])
            else:
                A(q, [r.randint(0, 5)])
        elif k < 0.50:
            lvl = r.choice(["scenario", "scenario", "network", "obstacle", "pps"])
            A("tr", motion() + [oid() if lvl == "obstacle" else 0], lvl)
        elif k < 0.60:
            oids = r.choice([[], [], [31], [32], [31, 32]])
            ts = r.choice([[], [], [0], [1], [0, 2], [1, 2, 3]])
            A("assign", oids + [-1] + ts)
        elif k < 0.68:
            A("file", [r.randint(0, 1)], r.choice(["xml", "pb"]))
        elif k < 0.73:
            A("copy", [], r.choice(["deepcopy", "pickle"]))
        else:
            op = r.choice(["add_obstacle", "remove_obstacle", "remove_obstacle", "gen", "gen_add", "add_lanelet",
                           "add_sign", "add_light", "remove_lanelet", "remove_lanelet", "remove_sign", "remove_light",
                           "replace", "erase", "cutout", "merge", "update_initial_state", "update_prediction",
                           "set_cycle", "set_offset"])
            if op == "add_obstacle":
                A(op, [r.choice([31, 32, 3])])
            elif op == "remove_obstacle":
                A(op, [oid()])
            elif op == "add_lanelet":
                A(op, [r.choice([1, 2, 3])])
            elif op in ("add_sign", "add_light"):
                A(op, r.choice([[], [1], [1, 2], [2, 3]]))
            elif op == "remove_lanelet":
                A(op, [r.choice([1, 2, 3]), r.randint(0, 1)])
            elif op == "replace":
                A(op, [], r.choice(["NA", "NB"]))
            elif op == "cutout":
                A(op, pt())
            elif op == "merge":
                A(op, r.sample([1, 2, 3], r.randint(1, 3)))
            elif op == "update_initial_state":
                A(op, [31, r.randint(-4, 4), r.randint(-4, 4), r.randint(0, 3), r.randint(1, 3)])
            elif op == "update_prediction":
                A(op, [31] + [v for _ in range(r.randint(0, 3)) for v in (r.randint(-4, 4), r.randint(-4, 4), r.randint(0, 3))])
            elif op == "set_cycle":
                A(op, [v for _ in range(r.randint(1, 3)) for v in (r.randint(1, 3), r.randint(0, 2))])
            elif op == "set_offset":
                A(op, [r.randint(0, 3)])
            else:
                A(op)
    return ops


def execute(case):
    import contextlib
    import io
    use_repo()
    with contextlib.redirect_stderr(io.StringIO()):          # the writers announce defaults on stderr
        sut = Sut()
        ev = []
        init = sut.world()
        for o in _ops_of(case):
            step(sut, o["op"], o["a"], o["s"], ev)
        step(sut, "check_orig", [1], "", ev)                   # final check: the object left behind by the last copy is unchanged
    return {"ev": ev, "init": init}


def _dump_findings(cases, traces):
    """X10_DUMP=1: beyond-list findings get no replay file from the generic driver, so validate the recorded traces once
    more here and write the first failing trace of each finding signature to out/x10/findings/<hash>.json
    (`bin/check X10 --replay <file>` re-executes its case)."""
    import hashlib
    d = os.path.join(tlc.OUT, "x10", "findings")
    os.makedirs(d, exist_ok=True)
    for f in os.listdir(d):
        os.remove(os.path.join(d, f))
    first, hits = {}, {}
    shard = 400
    for lo in range(0, len(traces), shard):
        part = traces[lo:lo + shard]
        path = os.path.join(tlc.OUT, "x10", "dump_shard.ndjson")
        with open(path, "w") as f:
            for tr in part:
                f.write(json.dumps(tr, separators=(",", ":")) + "\n")
        rej, _ = tlc.validate(TRACE[0], TRACE[1], path, "x10_dump", sum(len(t["ev"]) for t in part), len(part))
        for (t1, pos, clause) in rej:
            ti = lo + t1 - 1
            sig = "%s|%s" % (clause, traces[ti]["ev"][pos - 1].get("sig", "?"))
            hits[sig] = hits.get(sig, 0) + 1
            if sig not in first or len(traces[ti]["ev"]) < len(traces[first[sig][0]]["ev"]):
                first[sig] = (ti, pos, clause)
        os.remove(path)
    out = []
    for sig, (ti, pos, clause) in sorted(first.items()):
        path = os.path.join(d, hashlib.sha1(sig.encode()).hexdigest()[:12] + ".json")
        ev = traces[ti]["ev"]
        with open(path, "w") as f:
            json.dump({"property": PROPERTY, "signature": sig, "clause": clause, "position": pos, "hits": hits[sig],
                       "case": cases[ti], "ops": [[e["op"], e["a"], e["s"], e["exc"]] for e in ev[:pos]],
                       "pre": traces[ti]["init"] if pos == 1 else ev[pos - 2]["post"], "event": ev[pos - 1],
                       "replay_cmd": "bin/check X10 --replay %s" % path}, f, indent=1)
        out.append({"signature": sig, "hits": hits[sig], "file": path})
    return out


def summarize(cases, traces):
    by, long_ = {}, 0
    for tr in traces:
        long_ += 1 if len(tr["ev"]) >= 10 else 0
        for e in tr["ev"]:
            by[e["op"]] = by.get(e["op"], 0) + 1
    r = {"events_by_op": by, "traces_with_10_or_more_validated_steps": long_}
    if os.environ.get("X10_DUMP") == "1":
        r["finding_dumps"] = _dump_findings(cases, traces)
    return r


def corrupt(trace, rng):
    """Corrupt ONE logged field of the world after some call: an obstacle pose, a reserved id, a registry entry, a ring
    point or a query answer - the step comparison must reject exactly that event."""
    ev = trace["ev"]
    idx = list(range(len(ev)))
    rng.shuffle(idx)
    for i in idx:
        e = ev[i]
        if e["exc"] != "None":
            continue
        w = e["post"]
        k = rng.randrange(5)
        if k == 0 and w["O"]:
            w["O"][0]["init"][0] += 1
            return trace
        if k == 1:
            w["ids"] = w["ids"][1:] if w["ids"] else [59]
            return trace
        if k == 2 and w["L"]:
            w["L"][0]["st"] = sorted(set(w["L"][0]["st"]) ^ {32})
            return trace
        if k == 3 and w["L"]:
            w["L"][0]["ring"][0][1] += 1
            return trace
        if k == 4 and e["op"] in ("find_pos", "find_shape", "by_box"):
            e["rids"] = e["rids"] + [99]
            return trace
    return None
