"""Thin runner around TLC / SANY (tla2tools 1.8.0, CommunityModules on the classpath).

All invocations: explicit metadir under /verif/out, -noGenerateSpecTE, an outer timeout, and a bounded heap.
Nothing here judges a property; it only runs the tools and parses what they print.
"""
import json
import os
import re
import shutil
import subprocess
import time

VERIF = os.path.dirname(os.path.dirname(os.path.dirname(os.path.abspath(__file__))))
SPEC = os.path.join(VERIF, "spec")
OUT = os.environ.get("VERIF_OUT", os.path.join(VERIF, "out"))
JAR = "/opt/veriftools/tla/tla2tools.jar"
CP = JAR + ":/opt/veriftools/tla/CommunityModules-deps.jar"


class MachineryError(Exception):
    """TLC/SANY/harness failure - never a property verdict (exit 2)."""


def _java(xmx):
    return ["java", "-XX:+UseParallelGC", "-Xmx%s" % xmx, "-cp", CP]


def sany(modules):
    """Parse every module; raise MachineryError on the first failure."""
    for m in modules:
        p = subprocess.run(_java("1g") + ["tla2sany.SANY", m + ".tla"], cwd=SPEC, capture_output=True, text=True,
                           timeout=300)
        txt = p.stdout + p.stderr
        if p.returncode != 0 or "Semantic errors" in txt or "Parse Error" in txt or "Fatal error" in txt \
                or "*** Errors" in txt or "Could not parse" in txt:
            raise MachineryError("SANY failed on %s:\n%s" % (m, txt[-3000:]))


_RE_STATES = re.compile(r"(\d+) states generated, (\d+) distinct states found, (\d+) states left on queue")
_RE_DEPTH = re.compile(r"The depth of the complete state graph search is (\d+)")
_RE_INV = re.compile(r"Error: Invariant (\S+) is violated|Error: The invariant of (\S+) is equal to FALSE")
_RE_PROP = re.compile(r"Error: Action property (\S+) is violated|Error: Temporal properties were violated")
_RE_COV = re.compile(r"^<(\w+) line \d+, col \d+ to line \d+, col \d+ of module (\w+)>: (\d+):(\d+)", re.M)


def run_tlc(module, cfg, tag, workers=16, timeout=1200, env=None, extra=(), xmx="6g", coverage=False,
            deadlock=False):
    """Run TLC on spec/<module>.tla with spec/<cfg>. Returns dict with raw output and parsed counters."""
    meta = os.path.join(OUT, "meta", tag)
    shutil.rmtree(meta, ignore_errors=True)
    os.makedirs(meta, exist_ok=True)
    cmd = _java(xmx) + ["tlc2.TLC", "-workers", str(workers), "-metadir", meta, "-noGenerateSpecTE",
                        "-config", cfg]
    if not deadlock:
        cmd += ["-deadlock"]
    if coverage:
        cmd += ["-coverage", "1"]
    cmd += list(extra) + [module + ".tla"]
    e = dict(os.environ)
    if env:
        e.update(env)
    t0 = time.time()
    try:
        p = subprocess.run(cmd, cwd=SPEC, capture_output=True, text=True, timeout=timeout, env=e)
    except subprocess.TimeoutExpired as ex:
        shutil.rmtree(meta, ignore_errors=True)
        raise MachineryError("TLC timeout (%ss) on %s/%s" % (timeout, module, cfg)) from ex
    out = p.stdout + "\n" + p.stderr
    shutil.rmtree(meta, ignore_errors=True)
    res = {"module": module, "cfg": cfg, "rc": p.returncode, "out": out, "wall_s": round(time.time() - t0, 2),
           "generated": 0, "distinct": 0, "depth": 0, "violated": None, "cmd": " ".join(cmd[5:])}
    m = None
    for m in _RE_STATES.finditer(out):
        pass
    if m:
        res["generated"], res["distinct"] = int(m.group(1)), int(m.group(2))
    m = _RE_DEPTH.search(out)
    if m:
        res["depth"] = int(m.group(1))
    m = _RE_INV.search(out)
    if m:
        res["violated"] = m.group(1) or m.group(2)
    else:
        m = _RE_PROP.search(out)
        if m:
            res["violated"] = m.group(1) or "temporal"
    if coverage:
        cov = {}
        for mm in _RE_COV.finditer(out):
            cov[mm.group(2) + "." + mm.group(1)] = cov.get(mm.group(2) + "." + mm.group(1), 0) + int(mm.group(3))
        res["coverage"] = cov
    res["ok"] = (p.returncode == 0 and "Model checking completed. No error has been found." in out) or \
                (p.returncode == 0 and "Finished computing initial states" not in out and "Error" not in out)
    return res


def model_check(module, cfg, tag, **kw):
    """MC run that must pass: any error is a machinery failure (the contract spec itself is inconsistent)."""
    r = run_tlc(module, cfg, tag, **kw)
    if r["violated"] or not r["ok"]:
        raise MachineryError("model check %s/%s failed (violated=%s rc=%s):\n%s" %
                             (module, cfg, r["violated"], r["rc"], _tail(r["out"])))
    return r


def expect_violation(module, cfg, tag, name=None, **kw):
    """Deviation-constant run: TLC must report a violation (of invariant `name`, or one of a tuple of names, if given).
    Runs with ONE worker unless told otherwise: which of several violated invariants TLC reports first must not depend
    on thread scheduling (a flaky MACHINERY-FAILURE on an unchanged tree would discredit the check)."""
    kw.setdefault("workers", 1)
    r = run_tlc(module, cfg, tag, **kw)
    names = (name,) if isinstance(name, str) else tuple(name or ())
    if not r["violated"] or (names and r["violated"] not in names):
        raise MachineryError("expected violation %s in %s/%s, got %s:\n%s" %
                             (name, module, cfg, r["violated"], _tail(r["out"])))
    return r


def _tail(out, n=60):
    lines = [ln for ln in out.splitlines() if ln.strip()]
    return "\n".join(lines[-n:])


_RE_TUPLE2 = {}


def printed_tuples(out, head):
    """Yield the payloads of PrintT(<<head, "string">>) output: TLC prints short tuples on one line
    (`<<"HEAD", "json">>`) and wraps long ones over several lines (`<< "HEAD",\n   "json" >>`)."""
    rx = _RE_TUPLE2.get(head)
    if rx is None:
        rx = _RE_TUPLE2[head] = re.compile(r'<<\s*"%s",\s*("(?:[^"\\]|\\.)*")\s*>>' % re.escape(head))
    for m in rx.finditer(out):
        yield m.group(1)


def tla_unquote(s):
    """A TLA+ string literal as printed by TLC -> python str."""
    assert s.startswith('"') and s.endswith('"'), s
    return s[1:-1].replace('\\"', '"').replace("\\\\", "\\")


def generate(module, cfg, tag, out_file_env="GEN_FILE", timeout=1200, xmx="6g", env=None, workers=1, extra=()):
    """Run a GEN configuration whose spec writes cases (ndjson) to IOEnv.GEN_FILE and/or prints CASE lines.

    Returns (cases, tlc_result)."""
    path = os.path.join(OUT, "gen", tag + ".ndjson")
    os.makedirs(os.path.dirname(path), exist_ok=True)
    if os.path.exists(path):
        os.remove(path)
    e = {out_file_env: path}
    if env:
        e.update(env)
    r = run_tlc(module, cfg, "gen_" + tag, workers=workers, timeout=timeout, env=e, xmx=xmx, extra=extra)
    if r["rc"] != 0 and "No error has been found" not in r["out"] and not os.path.exists(path):
        raise MachineryError("generation %s/%s failed:\n%s" % (module, cfg, _tail(r["out"])))
    cases = []
    if os.path.exists(path):
        with open(path) as f:
            for ln in f:
                ln = ln.strip()
                if ln:
                    cases.append(json.loads(ln))
    for payload in printed_tuples(r["out"], "CASE"):
        cases.append(json.loads(tla_unquote(payload)))
    if not cases:
        raise MachineryError("generation %s/%s produced no cases:\n%s" % (module, cfg, _tail(r["out"])))
    return cases, r


_RE_REJECT = re.compile(r'<<\s*"REJECT",\s*(\d+),\s*(\d+),\s*"([^"]*)"\s*>>')      # one-line and wrapped form


def validate(trace_module, cfg, trace_file, tag, n_events, n_traces, timeout=3600, xmx="4g"):
    """Validate one ndjson trace file (one trace per line) against spec/<trace_module>.tla.

    Returns list of (trace_index_1based, position_1based, clause)."""
    r = run_tlc(trace_module, cfg, "val_" + tag, workers=1, timeout=timeout, env={"TRACE_FILE": trace_file},
                xmx=xmx)
    out = r["out"]
    if r["violated"] or "Error:" in out or r["rc"] != 0:
        raise MachineryError("trace validation crashed in %s on %s:\n%s" % (trace_module, trace_file, _tail(out)))
    expect = n_events + n_traces
    if r["distinct"] != expect:
        raise MachineryError("trace validation incomplete in %s: %d states, expected %d (events+traces)\n%s" %
                             (trace_module, r["distinct"], expect, _tail(out, 20)))
    rej = [(int(m.group(1)), int(m.group(2)), m.group(3)) for m in _RE_REJECT.finditer(out)]
    if len(rej) != out.count('"REJECT"'):
        raise MachineryError("could not parse every REJECT line of %s (%d parsed, %d printed)" %
                             (trace_module, len(rej), out.count('"REJECT"')))
    return rej, r
