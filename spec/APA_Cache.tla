---------------------------------- MODULE APA_Cache ----------------------------------
\* COVERS: {"mc": "MC_Cache", "actions": ["TR", "SetTraj", "UpdPred", "ReTraj", "SetPShape", "UpdInit", "AddLan", "RemLan", "MergeNet", "SetCycle", "SetOff", "SetDur", "QOcc", "QState", "QLight", "QPos", "QShape"], "devs": ["DEV_NoInvalidateOnPredictionTR", "DEV_NoReindexOnNetworkTR", "DEV_NoInvalidateCycle", "DEV_MergeRebuildOnlyIfAll", "DEV_SetterSkipsSameObject"]}
(* C11, UNBOUNDED histories: typed (Apalache) transcription of MC_Cache + the operators of Cache (and of      *)
(* TrafficLight that Cache uses) WITHOUT the step counter (`steps`, MaxSteps): any number of mutators and      *)
(* queries in any order; coordinates are unbounded integers (translations accumulate), time steps too (t0       *)
(* grows with every update_initial_state).                                                                      *)
(* Differences forced by the type checker:                                                                      *)
(*   - `ans` / `exp` carry values of a different type per query, so the pair is replaced by the Boolean        *)
(*     `fresh` = (ans = exp) of the LAST query (InvFresh == ans = exp becomes InvFresh == fresh);              *)
(*   - StateAt returns a sequence of 0 or 1 poses instead of <<>> / pose;                                        *)
(*   - RECURSIVE FlatPoses / CycArg / MergeAdd / SumTo are folds computing the same values;                     *)
(*   - `act.arg` is a Seq(Int) for every operation.                                                             *)
(* The universe is the one of MC_Cache (P0, Motions, Trajs, Cycles2, QPoints, QTimes): trajectories have at     *)
(* most 3 poses, the history at most 2, cycles at most 2 elements, three lanelet ids with 4-point rings.         *)
(* Obligations as in APA_ScenarioStore.tla; deviation constants by --cinit (CInitDev1..5).                      *)
EXTENDS Integers, Sequences, FiniteSets, Apalache

(*
  @typeAlias: pose = <<Int, Int, Int>>;
  @typeAlias: pt = <<Int, Int>>;
  @typeAlias: motion = {tx: Int, ty: Int, q: Int};
  @typeAlias: ob = {has: Int, init: $pose, t0: Int, traj: Seq($pose), shp: $pt, pshp: $pt, hist: Seq($pose)};
  @typeAlias: net = {L: Set(Int), ring: Int -> Seq($pt)};
  @typeAlias: elem = {d: Int, c: Str};
  @typeAlias: lgt = {cyc: Seq($elem), off: Int};
  @typeAlias: prim = {ob: $ob, net: $net, lgt: $lgt};
  @typeAlias: occc = {ok: Int, traj: Seq($pose), pshp: $pt};
  @typeAlias: cycc = {ok: Int, cyc: Seq($elem), off: Int};
  @typeAlias: act = {op: Str, lvl: Str, arg: Seq(Int)};
*)
APA_Cache_aliases == TRUE

CONSTANTS
    \* @type: Bool;
    DEV_NoInvalidateOnPredictionTR,
    \* @type: Bool;
    DEV_NoReindexOnNetworkTR,
    \* @type: Bool;
    DEV_NoInvalidateCycle,
    \* @type: Bool;
    DEV_MergeRebuildOnlyIfAll,
    \* @type: Bool;
    DEV_SetterSkipsSameObject

Dev(a, b, c, d, e) == /\ DEV_NoInvalidateOnPredictionTR = a /\ DEV_NoReindexOnNetworkTR = b
                      /\ DEV_NoInvalidateCycle = c /\ DEV_MergeRebuildOnlyIfAll = d /\ DEV_SetterSkipsSameObject = e
CInit     == Dev(FALSE, FALSE, FALSE, FALSE, FALSE)
CInitDev1 == Dev(TRUE, FALSE, FALSE, FALSE, FALSE)
CInitDev2 == Dev(FALSE, TRUE, FALSE, FALSE, FALSE)
CInitDev3 == Dev(FALSE, FALSE, TRUE, FALSE, FALSE)
CInitDev4 == Dev(FALSE, FALSE, FALSE, TRUE, FALSE)
CInitDev5 == Dev(FALSE, FALSE, FALSE, FALSE, TRUE)

VARIABLES
    \* @type: $prim;
    P,
    \* @type: $occc;
    occC,
    \* @type: Int -> Seq($pt);
    idx,
    \* @type: $cycc;
    cinit,
    \* @type: $act;
    act,
    \* @type: Bool;
    fresh
vars == <<P, occC, idx, cinit, act, fresh>>

(* ---- TrafficLight.tla (instance used by Cache: MaxElems 3, MaxDur 3) ---------------------------------------- *)
\* @type: (Seq($elem), Int) => Int;
SumTo(c, i) == LET \* @type: (Int, Int) => Int;
                   Add(acc, j) == acc + c[j].d
               IN ApaFoldSet(Add, 0, {j \in DOMAIN c : j <= i})                  \* d_1 + ... + d_i
Total(c)    == SumTo(c, Len(c))
Phase(c, off, t) == (t - off) % Total(c)
InWindow(c, i, r) == SumTo(c, i - 1) <= r /\ r < SumTo(c, i)
ElemAt(c, off, t) == CHOOSE i \in DOMAIN c : InWindow(c, i, Phase(c, off, t))
\* @type: (Seq($elem), Int, Int) => Str;
TLStateAt(c, off, t) == c[ElemAt(c, off, t)].c

(* ---- Cache.tla ---------------------------------------------------------------------------------------------- *)
\* @type: Seq(a) => Set(a);
Range(q) == {q[i] : i \in DOMAIN q}
\* @type: (Int, $pt) => $pt;
Rot(q, p) == IF q % 4 = 0 THEN p
             ELSE IF q % 4 = 1 THEN <<-p[2], p[1]>>
             ELSE IF q % 4 = 2 THEN <<-p[1], -p[2]>>
             ELSE <<p[2], -p[1]>>
\* @type: ($motion, $pt) => $pt;
Move(m, p)     == Rot(m.q, <<p[1] + m.tx, p[2] + m.ty>>)
\* @type: ($motion, $pose) => $pose;
MovePose(m, s) == LET p == Move(m, <<s[1], s[2]>>) IN <<p[1], p[2], (s[3] + m.q) % 4>>
\* @type: ($motion, Seq($pt)) => Seq($pt);
MoveSeq(m, S)  == LET \* @type: Int => $pt;
                      At(i) == Move(m, S[i])
                  IN SubSeq(MkSeq(4, At), 1, Len(S))                               \* [i \in DOMAIN S |-> Move(m, S[i])], rings have 4 points
\* @type: ($motion, Seq($pose)) => Seq($pose);
MovePoses(m, S) == LET \* @type: Int => $pose;
                       At(i) == MovePose(m, S[i])
                   IN SubSeq(MkSeq(3, At), 1, Len(S))                              \* trajectories have at most 3 poses

\* @type: Set($pt);
Signs == {<<-1, -1>>, <<-1, 1>>, <<1, -1>>, <<1, 1>>}
\* the four corners: (sx, sy) * shape, rotated, around the doubled centre
\* @type: ($pose, $pt) => Set($pt);
BoxCorners2(pose, shp) ==
    {LET d == Rot(pose[3], <<(IF c[1] = 1 THEN shp[1] ELSE -shp[1]), (IF c[2] = 1 THEN shp[2] ELSE -shp[2])>>)
     IN <<2 * pose[1] + d[1], 2 * pose[2] + d[2]>> : c \in Signs}
\* @type: $ob => Int;
LastT(ob) == IF ob.has = 1 THEN ob.t0 + Len(ob.traj) ELSE ob.t0
\* @type: ($ob, Int) => $pose;
PoseAt(ob, t) == IF t = ob.t0 THEN ob.init ELSE ob.traj[t - ob.t0]
\* @type: ($ob, Int) => Bool;
InHorizon(ob, t) == ob.t0 <= t /\ t <= LastT(ob)
\* @type: ($ob, Int) => Set($pt);
OccAt(ob, t)   == IF ~InHorizon(ob, t) THEN {} ELSE BoxCorners2(PoseAt(ob, t), IF t = ob.t0 THEN ob.shp ELSE ob.pshp)
\* @type: ($ob, Int) => Seq($pose);
StateAt(ob, t) == IF ~InHorizon(ob, t) THEN <<>> ELSE <<PoseAt(ob, t)>>

\* MinC / MaxC of Cache.tla are CHOOSE-expressions over Range(ring); here the same minimum / maximum is computed by a
\* fold over the ring (a CHOOSE is a fresh nondeterministic pick per occurrence for the solver, a fold is a function)
\* @type: ($pt, Int) => Int;
Coord(p, k) == IF k = 1 THEN p[1] ELSE p[2]
\* @type: (Seq($pt), Int) => Int;
MinC(ring, k) == LET \* @type: (Int, $pt) => Int;
                     Lo(acc, p) == IF Coord(p, k) < acc THEN Coord(p, k) ELSE acc
                 IN ApaFoldSeqLeft(Lo, Coord(ring[1], k), ring)
\* @type: (Seq($pt), Int) => Int;
MaxC(ring, k) == LET \* @type: (Int, $pt) => Int;
                     Hi(acc, p) == IF Coord(p, k) > acc THEN Coord(p, k) ELSE acc
                 IN ApaFoldSeqLeft(Hi, Coord(ring[1], k), ring)
\* @type: (Seq($pt), $pt) => Bool;
InRing2(ring, p2) ==
    LET S == ring IN /\ 2 * MinC(S, 1) <= p2[1] /\ p2[1] <= 2 * MaxC(S, 1)
                            /\ 2 * MinC(S, 2) <= p2[2] /\ p2[2] <= 2 * MaxC(S, 2)
\* @type: (Seq($pt), $pt, $pt) => Bool;
BoxMeets2(ring, c2, h2) ==
    LET S == ring IN /\ c2[1] - h2[1] <= 2 * MaxC(S, 1) /\ 2 * MinC(S, 1) <= c2[1] + h2[1]
                            /\ c2[2] - h2[2] <= 2 * MaxC(S, 2) /\ 2 * MinC(S, 2) <= c2[2] + h2[2]
\* @type: ($net, $pt) => Set(Int);
FindByPos(net, p2)        == {i \in net.L : InRing2(net.ring[i], p2)}
\* @type: ($net, $pt, $pt) => Set(Int);
FindByShape(net, c2, h2)  == {i \in net.L : BoxMeets2(net.ring[i], c2, h2)}
\* @type: ($lgt, Int) => Str;
LightAt(lgt, t) == TLStateAt(lgt.cyc, lgt.off, t)

\* @type: (Seq($pose), Int) => Seq($pose);
LastN(q, n) == IF Len(q) <= n THEN q ELSE SubSeq(q, Len(q) - n + 1, Len(q))
\* @type: ($ob, Int) => Seq($pose);
HistAfter(ob, maxh) == LastN(Append(ob.hist, ob.init), maxh)

\* @type: ($motion, $ob, Bool) => $ob;
MoveOb(m, ob, withInit) ==
    [ob EXCEPT !.init = IF withInit THEN MovePose(m, @) ELSE @, !.traj = MovePoses(m, @)]
\* @type: ($motion, $net, Set(Int)) => $net;
MoveNet(m, net, ids) == [net EXCEPT !.ring = [i \in DOMAIN net.ring |-> IF i \in ids THEN MoveSeq(m, net.ring[i]) ELSE net.ring[i]]]

(* ---- MC_Cache.tla ------------------------------------------------------------------------------------------- *)
\* @type: (Int, Int, Int, Int) => Seq($pt);
Box(x0, y0, x1, y1) == <<<<x0, y0>>, <<x1, y0>>, <<x1, y1>>, <<x0, y1>>>>
Ring3 == Box(0, 1, 2, 2)
\* @type: Int -> Seq($pt);
Ring0 == [i \in 1..3 |-> IF i = 1 THEN Box(0, 0, 2, 1) ELSE IF i = 2 THEN Box(2, 0, 4, 1) ELSE Ring3]
\* @type: $prim;
P0 == [ob  |-> [has |-> 1, init |-> <<0, 0, 0>>, t0 |-> 0, traj |-> <<<<1, 0, 0>>, <<2, 0, 0>>>>,
               shp |-> <<2, 1>>, pshp |-> <<2, 1>>, hist |-> <<>>],
       net |-> [L |-> {1, 2}, ring |-> Ring0],
       lgt |-> [cyc |-> <<[d |-> 2, c |-> "red"], [d |-> 1, c |-> "green"]>>, off |-> 0]]
Motions == {[tx |-> 1, ty |-> 0, q |-> 0], [tx |-> 0, ty |-> 0, q |-> 1], [tx |-> -1, ty |-> 2, q |-> 3]}
\* @type: Set(Seq($pose));
Trajs   == {<<<<5, 5, 1>>>>, <<<<0, 1, 0>>, <<0, 2, 0>>, <<0, 3, 1>>>>}
\* @type: Set(Seq($elem));
Cycles2 == {<<[d |-> 1, c |-> "green"], [d |-> 1, c |-> "red"]>>, <<[d |-> 3, c |-> "yellow"]>>}
\* @type: Set($pt);
QPoints == {<<1, 1>>, <<5, 1>>, <<-1, 3>>, <<2, 3>>}
QTimes  == 0..4

ColIdx(c) == IF c = "red" THEN 0 ELSE IF c = "green" THEN 1 ELSE 2
\* @type: Seq($elem) => Seq(Int);
CycArg(c) == LET \* @type: (Seq(Int), $elem) => Seq(Int);
                 Step(acc, e) == acc \o <<e.d, ColIdx(e.c)>>
             IN ApaFoldSeqLeft(Step, <<>>, c)
\* @type: Seq($pose) => Seq(Int);
FlatPoses(tr) == LET \* @type: (Seq(Int), $pose) => Seq(Int);
                     Step(acc, p) == acc \o <<p[1], p[2], p[3]>>
                 IN ApaFoldSeqLeft(Step, <<>>, tr)
\* @type: (Str, Str, Seq(Int)) => $act;
A(op, lvl, arg) == [op |-> op, lvl |-> lvl, arg |-> arg]
Mut(a) == act' = a /\ UNCHANGED fresh
Qry(a, eq) == act' = a /\ fresh' = eq /\ UNCHANGED P              \* eq: (what the caches answer) = (recomputed from primary data)

\* @type: $occc;
NoOcc == [ok |-> 0, traj |-> <<>>, pshp |-> <<0, 0>>]
\* @type: $cycc;
NoCyc == [ok |-> 0, cyc |-> <<>>, off |-> 0]
\* @type: $net => (Int -> Seq($pt));
Index(net) == [i \in net.L |-> net.ring[i]]
Init == /\ P = P0 /\ occC = NoOcc /\ idx = Index(P0.net) /\ cinit = NoCyc
        /\ act = A("init", "", <<>>) /\ fresh = TRUE

\* @type: (Str, $motion) => Bool;
TR(lvl, m) ==
    LET obs == lvl \in {"scenario", "obstacle", "prediction"}
        nts == lvl \in {"scenario", "network"}
        ob1 == IF obs THEN MoveOb(m, P.ob, lvl # "prediction") ELSE P.ob
        nt1 == IF nts THEN MoveNet(m, P.net, P.net.L) ELSE P.net
    IN /\ (lvl = "prediction" => P.ob.has = 1)
       /\ P' = [P EXCEPT !.ob = ob1, !.net = nt1]
       /\ occC' = IF obs /\ ~DEV_NoInvalidateOnPredictionTR THEN NoOcc ELSE occC
       /\ idx' = IF nts /\ ~DEV_NoReindexOnNetworkTR THEN Index(nt1) ELSE idx
       /\ UNCHANGED cinit /\ Mut(A("tr", lvl, <<m.tx, m.ty, m.q>>))
\* @type: Seq($pose) => Bool;
SetTraj(tr) == /\ P.ob.has = 1 /\ P' = [P EXCEPT !.ob.traj = tr] /\ occC' = NoOcc /\ UNCHANGED <<idx, cinit>>
               /\ Mut(A("set_trajectory", "", FlatPoses(tr)))
\* the prediction's own Trajectory object is edited in place (Trajectory.translate_rotate) and handed back to the setter
\* @type: $motion => Bool;
ReTraj(m) == /\ P.ob.has = 1 /\ P' = [P EXCEPT !.ob.traj = MovePoses(m, P.ob.traj)]
             /\ occC' = (IF DEV_SetterSkipsSameObject THEN occC ELSE NoOcc) /\ UNCHANGED <<idx, cinit>>
             /\ Mut(A("reassign_trajectory", "", <<m.tx, m.ty, m.q>>))
\* @type: $pt => Bool;
SetPShape(sh) == /\ P.ob.has = 1 /\ P' = [P EXCEPT !.ob.pshp = sh] /\ occC' = NoOcc /\ UNCHANGED <<idx, cinit>>
                 /\ Mut(A("set_pshape", "", <<sh[1], sh[2]>>))
\* @type: Seq($pose) => Bool;
UpdPred(tr) == /\ P' = [P EXCEPT !.ob.has = IF tr = <<>> THEN 0 ELSE 1, !.ob.traj = tr, !.ob.pshp = P.ob.shp]
               /\ occC' = NoOcc /\ UNCHANGED <<idx, cinit>> /\ Mut(A("update_prediction", "", FlatPoses(tr)))
\* @type: ($pose, Int) => Bool;
UpdInit(pose, maxh) ==
    /\ P' = [P EXCEPT !.ob.hist = HistAfter(P.ob, maxh), !.ob.init = pose, !.ob.t0 = P.ob.t0 + 1,
                      !.ob.has = 0, !.ob.traj = <<>>]
    /\ occC' = NoOcc /\ UNCHANGED <<idx, cinit>> /\ Mut(A("update_initial_state", "", <<pose[1], pose[2], pose[3], maxh>>))
AddLan == /\ 3 \notin P.net.L /\ P' = [P EXCEPT !.net.L = @ \cup {3}]
          /\ idx' = [i \in P.net.L \cup {3} |-> P.net.ring[i]] /\ UNCHANGED <<occC, cinit>> /\ Mut(A("add_lanelet", "", <<3>>))
\* add_lanelets_from_network(src): adds the source lanelets in order, stops at the first id already present
\* @type: (Set(Int), Seq(Int)) => Set(Int);
MergeAdd(L, src) == LET \* @type: (<<Bool, Set(Int)>>, Int) => <<Bool, Set(Int)>>;
                        Step(acc, i) == IF ~acc[1] \/ i \in L \cup acc[2] THEN <<FALSE, acc[2]>> ELSE <<TRUE, acc[2] \cup {i}>>
                    IN ApaFoldSeqLeft(Step, <<TRUE, {}>>, src)[2]
\* @type: Seq(Int) => Bool;
MergeNet(src) ==
    LET add  == MergeAdd(P.net.L, src)
        net1 == [P.net EXCEPT !.L = @ \cup add, !.ring = [i \in DOMAIN P.net.ring |-> IF i \in add THEN Ring0[i] ELSE P.net.ring[i]]]
    IN /\ P' = [P EXCEPT !.net = net1]
       /\ idx' = IF DEV_MergeRebuildOnlyIfAll /\ add # Range(src) THEN idx ELSE Index(net1)
       /\ UNCHANGED <<occC, cinit>> /\ Mut(A("merge_network", "", src))
RemLan(i) == /\ i \in P.net.L /\ P' = [P EXCEPT !.net.L = @ \ {i}]
             /\ idx' = [j \in P.net.L \ {i} |-> P.net.ring[j]] /\ UNCHANGED <<occC, cinit>> /\ Mut(A("remove_lanelet", "", <<i>>))
Inval == IF DEV_NoInvalidateCycle THEN cinit ELSE NoCyc
\* @type: Seq($elem) => Bool;
SetCycle(c) == /\ P' = [P EXCEPT !.lgt.cyc = c] /\ cinit' = Inval /\ UNCHANGED <<occC, idx>>
               /\ Mut(A("set_cycle_elements", "", CycArg(c)))
SetOff(o) == /\ P' = [P EXCEPT !.lgt.off = o] /\ cinit' = Inval /\ UNCHANGED <<occC, idx>> /\ Mut(A("set_offset", "", <<o>>))
SetDur(d) == /\ P' = [P EXCEPT !.lgt.cyc[1].d = d] /\ cinit' = Inval /\ UNCHANGED <<occC, idx>> /\ Mut(A("set_duration", "", <<1, d>>))

QOcc(t) ==
    LET useC == P.ob.has = 1 /\ t > P.ob.t0
        c1   == IF occC.ok = 0 THEN [ok |-> 1, traj |-> P.ob.traj, pshp |-> P.ob.pshp] ELSE occC
        got  == IF ~useC THEN OccAt(P.ob, t)
                ELSE IF t - P.ob.t0 \in DOMAIN c1.traj /\ InHorizon(P.ob, t) THEN BoxCorners2(c1.traj[t - P.ob.t0], c1.pshp) ELSE {}
    IN /\ occC' = (IF useC THEN c1 ELSE occC) /\ UNCHANGED <<idx, cinit>> /\ Qry(A("occ", "", <<t>>), got = OccAt(P.ob, t))
QState(t) == UNCHANGED <<occC, idx, cinit>> /\ Qry(A("state", "", <<t>>), StateAt(P.ob, t) = StateAt(P.ob, t))
\* @type: $pt => Bool;
QPos(p) == UNCHANGED <<occC, idx, cinit>> /\
           Qry(A("find_pos", "", <<p[1], p[2]>>), {i \in DOMAIN idx : InRing2(idx[i], p)} = FindByPos(P.net, p))
\* @type: $pt => Bool;
QShape(p) == UNCHANGED <<occC, idx, cinit>> /\
             Qry(A("find_shape", "", <<p[1], p[2]>>), {i \in DOMAIN idx : BoxMeets2(idx[i], p, <<1, 1>>)} = FindByShape(P.net, p, <<1, 1>>))
QLight(t) == LET c1 == IF cinit.ok = 0 THEN [ok |-> 1, cyc |-> P.lgt.cyc, off |-> P.lgt.off] ELSE cinit
             IN /\ cinit' = c1 /\ UNCHANGED <<occC, idx>>
                /\ Qry(A("light", "", <<t>>), TLStateAt(c1.cyc, c1.off, t) = LightAt(P.lgt, t))

\* NO step counter
Next == \/ \E lvl \in {"scenario", "obstacle", "prediction", "network"}, m \in Motions : TR(lvl, m)
        \/ \E tr \in Trajs : SetTraj(tr) \/ UpdPred(tr)
        \/ \E m \in Motions : ReTraj(m)
        \/ UpdPred(<<>>) \/ SetPShape(<<1, 1>>)
        \/ \E maxh \in {1, 2} : UpdInit(<<3, 3, 1>>, maxh)
        \/ AddLan \/ \E i \in {1, 2} : RemLan(i)
        \/ \E src \in {<<3>>, <<3, 1>>, <<1, 3>>} : MergeNet(src)
        \/ \E c \in Cycles2 : SetCycle(c)
        \/ SetOff(2) \/ SetDur(3)
        \/ \E t \in QTimes : QOcc(t) \/ QState(t) \/ QLight(t)
        \/ \E p \in QPoints : QPos(p) \/ QShape(p)

(* ---- the contract ------------------------------------------------------------------------------------------- *)
InvFresh   == fresh                             \* every query answers as if recomputed from primary data
InvHistory == Len(P.ob.hist) <= 2
ActHistory == act'.op = "update_initial_state" => P'.ob.hist = LastN(Append(P.ob.hist, P.ob.init), act'.arg[4])
PropInv == InvFresh /\ InvHistory
PropAct == ActHistory

(* ---- the inductive invariant -------------------------------------------------------------------------------- *)
Colors == {"red", "green", "yellow"}
\* @type: $pose => Bool;
PoseOK(p) == p[3] \in 0..3
TypeOK ==
    /\ P.ob.has \in {0, 1} /\ PoseOK(P.ob.init)
    /\ Len(P.ob.traj) <= 3 /\ \A i \in DOMAIN P.ob.traj : PoseOK(P.ob.traj[i])
    /\ (P.ob.has = 0) = (P.ob.traj = <<>>)
    /\ P.ob.shp = <<2, 1>> /\ P.ob.pshp \in {<<2, 1>>, <<1, 1>>}
    /\ Len(P.ob.hist) <= 2 /\ \A i \in DOMAIN P.ob.hist : PoseOK(P.ob.hist[i])
    /\ P.net.L \subseteq 1..3 /\ DOMAIN P.net.ring = 1..3 /\ \A i \in 1..3 : Len(P.net.ring[i]) = 4
    /\ Len(P.lgt.cyc) \in 1..2 /\ \A i \in DOMAIN P.lgt.cyc : P.lgt.cyc[i].d \in 1..3 /\ P.lgt.cyc[i].c \in Colors
    /\ P.lgt.off \in {0, 2}
    /\ occC.ok \in {0, 1} /\ cinit.ok \in {0, 1}
    /\ act.op \in {"init", "tr", "set_trajectory", "reassign_trajectory", "set_pshape", "update_prediction", "update_initial_state", "add_lanelet",
                   "merge_network", "remove_lanelet", "set_cycle_elements", "set_offset", "set_duration",
                   "occ", "state", "find_pos", "find_shape", "light"}
\* @type: $prim => $occc;
OccFilled(p) == [ok |-> 1, traj |-> p.ob.traj, pshp |-> p.ob.pshp]
\* @type: $prim => $cycc;
CycFilled(p) == [ok |-> 1, cyc |-> p.lgt.cyc, off |-> p.lgt.off]
IndInv ==
    /\ TypeOK
    \* caches and primary data: a cache is empty or a copy of the primary data it is computed from; the index is the
    \* snapshot of the CURRENT polygons of the CURRENT lanelets
    /\ occC \in {NoOcc, OccFilled(P)}
    /\ idx = Index(P.net)
    /\ cinit \in {NoCyc, CycFilled(P)}
    /\ fresh

\* an arbitrary state satisfying IndInv: the primary data is arbitrary (Gen), the caches are drawn from the values IndInv allows
IndInit ==
    /\ P = Gen(4) /\ act = Gen(4) /\ fresh = TRUE
    /\ occC \in {NoOcc, OccFilled(P)}
    /\ idx = Index(P.net)
    /\ cinit \in {NoCyc, CycFilled(P)}
    /\ IndInv
======================================================================================
