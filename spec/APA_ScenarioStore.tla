----------------------------- MODULE APA_ScenarioStore -----------------------------
\* COVERS: {"mc": "MC_ScenarioStore", "actions": ["AddObj", "AddNet", "Replace", "AddList", "RemoveSimple", "RemoveLanelet", "RemoveAbsent", "Erase", "Gen"], "devs": ["DEV_ListRemoveInterKeepsIncoming", "DEV_PartialIntersection", "DEV_PartialNetwork", "DEV_AddNetOnNonEmpty", "DEV_HangingFreesNamedIds"], "tokens": ["LA", "LB", "LC", "LD", "SA", "SB", "TA", "XA", "XB", "OS", "OD", "OP", "OE", "OQ", "NA", "NB", "NC"]}
(* C09, UNBOUNDED histories: typed (Apalache) transcription of MC_ScenarioStore + the operators of      *)
(* ScenarioStore it uses, WITHOUT MaxGen (generate_object_id may be called any number of times, the      *)
(* counter is an unbounded integer) and without the TLC-only parts (Json, Emit, View).                   *)
(* The transcription keeps the names and the shape of every action; differences forced by the type      *)
(* checker / the symbolic encoding:                                                                      *)
(*   - Tok is a function Str -> record instead of a record of records;                                   *)
(*   - RECURSIVE Mark / Flat / AddSeq are folds (ApaFoldSeqLeft) that compute the same values;           *)
(*   - the token table Tok (and its projections IDS, KIND) are CONSTANTS initialised by TokInit in every       *)
(*     CInit*: the symbolic encoding then builds each table once instead of once per mention;                   *)
(*   - removals take the SET of removed tokens next to the sequence (MC: SeqSet(q), q of length 1 or 2);         *)
(*   - PropRefines == [][Conforms(Exp(s, act'))]_vars is observed through the Boolean `refOk` that every         *)
(*     action sets from ITS OWN Exp<Op> (switched on only in NextRef, see NextP).                                *)
(* Proof obligations (harness/crv/apalache.py), all with --cinit=CInit:                                          *)
(*   (1)   Init => IndInv                  --init=Init    --inv=IndInv  --length=0                               *)
(*   (2)   IndInv /\ Next => IndInv'       --init=IndInit --inv=IndInv  --length=1                               *)
(*   (3)   IndInv => PropInv               --init=IndInit --inv=PropInv --length=0   Unique, PoolExact, ReAddable *)
(*   (3')  IndInv /\ Next => PropAct       --init=IndInit --inv=PropAct --length=1   GenFresh, RejectAtomic       *)
(*   (3'') IndInv /\ NextRef => refOk'     --init=IndInit --next=NextRef --inv=InvRefines --length=1  (optional,   *)
(*         slow: Impl => Contract for every step from every IndInv state)                                        *)
(* Deviation constants are chosen by --cinit (CInit: all FALSE; CInitDev1..5: exactly one TRUE).                 *)
EXTENDS Integers, Sequences, FiniteSets, Apalache

(*
  @typeAlias: tok = {k: Str, id: Int, inc: Seq(Int), sg: Set(Int), lt: Set(Int), tag: Int, ord: Seq(Str)};
  @typeAlias: st = {C: Set(Str), sg: Str -> Set(Int), lt: Str -> Set(Int), gen: Set(Int), freed: Set(Int), leak: Set(Int)};
  @typeAlias: act = {op: Str, toks: Seq(Str), ref: Int, res: Str, gid: Int};
  @typeAlias: out = {res: Str, posts: Set($st), any: Bool};
*)
APA_ScenarioStore_aliases == TRUE

CONSTANTS
    \* @type: Bool;
    DEV_ListRemoveInterKeepsIncoming,
    \* @type: Bool;
    DEV_PartialIntersection,
    \* @type: Bool;
    DEV_PartialNetwork,
    \* @type: Bool;
    DEV_AddNetOnNonEmpty,
    \* @type: Bool;
    DEV_HangingFreesNamedIds,
    \* the token table and two projections of it; CONSTANTS (initialised by TokInit inside every CInit*) so that the
    \* symbolic encoding builds each table once instead of once per mention
    \* @type: Str -> $tok;
    Tok,
    \* @type: Str -> Set(Int);
    IDS,
    \* @type: Str -> Str;
    KIND

(* ---- the universe (ScenarioStore.tla, same tokens, same colliding ids) ------------------------------- *)
\* @type: (Str, Int, Seq(Int), Set(Int), Set(Int), Int, Seq(Str)) => $tok;
T(k, id, inc, sg, lt, tag, ord) ==
    [k |-> k, id |-> id, inc |-> inc, sg |-> sg, lt |-> lt, tag |-> tag, ord |-> ord]
Names == {"LA", "LB", "LC", "LD", "SA", "SB", "TA", "XA", "XB", "OS", "OD", "OP", "OE", "OQ", "NA", "NB", "NC"}
\* @type: Str -> $tok;
TokTable == [n \in Names |->
    CASE n = "LA" -> T("lanelet", 1, <<>>, {}, {}, 0, <<>>)
      [] n = "LB" -> T("lanelet", 1, <<>>, {}, {}, 1, <<>>)
      [] n = "LC" -> T("lanelet", 2, <<>>, {4}, {5}, 0, <<>>)
      [] n = "LD" -> T("lanelet", 3, <<>>, {4}, {}, 0, <<>>)
      [] n = "SA" -> T("sign", 4, <<>>, {}, {}, 0, <<>>)
      [] n = "SB" -> T("sign", 2, <<>>, {}, {}, 0, <<>>)
      [] n = "TA" -> T("light", 5, <<>>, {}, {}, 0, <<>>)
      [] n = "XA" -> T("inter", 6, <<7>>, {}, {}, 0, <<>>)
      [] n = "XB" -> T("inter", 5, <<8, 2>>, {}, {}, 0, <<>>)
      [] n = "OS" -> T("static", 3, <<>>, {}, {}, 0, <<>>)
      [] n = "OD" -> T("dynamic", 7, <<>>, {}, {}, 0, <<>>)
      [] n = "OP" -> T("phantom", 1, <<>>, {}, {}, 0, <<>>)
      [] n = "OE" -> T("env", 6, <<>>, {}, {}, 0, <<>>)
      [] n = "OQ" -> T("static", 4, <<>>, {}, {}, 0, <<>>)      \* holds the id that LC / LD name as a sign (dangling reference)
      [] n = "NA" -> T("network", 0, <<>>, {}, {}, 0, <<"LA", "LC", "SA", "TA", "XA">>)
      [] n = "NB" -> T("network", 0, <<>>, {}, {}, 0, <<"LD", "SB">>)
      [] OTHER    -> T("network", 0, <<>>, {}, {}, 0, <<"LA", "LC", "SB">>)]      \* NC

\* @type: Seq(a) => Set(a);
Range(q)   == {q[i] : i \in DOMAIN q}
TokInit == /\ Tok = TokTable
           /\ IDS = [n \in Names |-> {Tok[n].id} \cup Range(Tok[n].inc)]
           /\ KIND = [n \in Names |-> Tok[n].k]

Dev(a, b, c, d, e) == /\ TokInit /\ DEV_ListRemoveInterKeepsIncoming = a /\ DEV_PartialIntersection = b
                      /\ DEV_PartialNetwork = c /\ DEV_AddNetOnNonEmpty = d /\ DEV_HangingFreesNamedIds = e
CInit     == Dev(FALSE, FALSE, FALSE, FALSE, FALSE)
CInitDev1 == Dev(TRUE, FALSE, FALSE, FALSE, FALSE)
CInitDev2 == Dev(FALSE, TRUE, FALSE, FALSE, FALSE)
CInitDev3 == Dev(FALSE, FALSE, TRUE, FALSE, FALSE)
CInitDev4 == Dev(FALSE, FALSE, FALSE, TRUE, FALSE)
CInitDev5 == Dev(FALSE, FALSE, FALSE, FALSE, TRUE)


VARIABLES
    \* @type: $st;
    s,
    \* @type: Set(Int);
    idSet,
    \* @type: Int;
    cnt,
    \* @type: $act;
    act,
    \* observation for the refinement law only: did the last step conform to the contract's expectation for ITS operation?
    \* (MC_ScenarioStore checks PropRefines == [][Conforms(Exp(s, act'))]_vars, where Exp dispatches on act'.op to the
    \* Exp<Op> operators; here every action names its own Exp<Op> so that the encoding builds one expectation per
    \* transition instead of all of them)
    \* @type: Bool;
    refOk
vars == <<s, idSet, cnt, act, refOk>>

NetNames == {"NA", "NB", "NC"}
ObjNames == Names \ NetNames
NetKinds == {"lanelet", "sign", "light", "inter"}
ObsKinds == {"static", "dynamic", "phantom", "env"}
Lanelets == {"LA", "LB", "LC", "LD"}
ProbeIds == 1..9
Objs == ObjNames
Nets == NetNames

IdSeq(n)   == <<Tok[n].id>> \o Tok[n].inc
IdsObj(n)  == IDS[n]
Mem(n)     == Range(Tok[n].ord)
IdsNet(n)  == UNION {IdsObj(m) : m \in Mem(n)}
SelfCollide(n) == \E a, b \in Mem(n) : a # b /\ IdsObj(a) \cap IdsObj(b) # {}
NoDupInc(n)    == Cardinality(IdsObj(n)) = 1 + Len(Tok[n].inc)

Used(C)      == UNION {IdsObj(n) : n \in C}
Unique(C)    == \A a, b \in C : a # b => IdsObj(a) \cap IdsObj(b) = {}
NetPart(C)   == {n \in C : KIND[n] \in NetKinds}
ObsPart(C)   == {n \in C : KIND[n] \in ObsKinds}
\* @type: $st;
Empty == [C |-> {}, sg |-> [n \in Lanelets |-> Tok[n].sg], lt |-> [n \in Lanelets |-> Tok[n].lt],
          gen |-> {}, freed |-> {}, leak |-> {}]
\* @type: $st => Set(Int);
Taken(st) == Used(st.C) \cup st.leak

\* @type: ($st, Set(Str)) => $st;
WithRefsReset(st, ns) ==
    [st EXCEPT !.sg = [n \in Lanelets |-> IF n \in ns THEN Tok[n].sg ELSE st.sg[n]],
               !.lt = [n \in Lanelets |-> IF n \in ns THEN Tok[n].lt ELSE st.lt[n]]]
\* @type: ($st, Set(Int), Set(Int)) => $st;
DropRefs(st, sids, lids) ==
    [st EXCEPT !.sg = [n \in Lanelets |-> IF n \in st.C THEN st.sg[n] \ sids ELSE st.sg[n]],
               !.lt = [n \in Lanelets |-> IF n \in st.C THEN st.lt[n] \ lids ELSE st.lt[n]]]
IdsOfKind(ns, k) == {Tok[n].id : n \in {m \in ns : KIND[m] = k}}

\* @type: ($st, Str) => $st;
AddObjState(st, n) == WithRefsReset([st EXCEPT !.C = @ \cup {n}], {n} \cap Lanelets)
\* @type: ($st, Str) => Bool;
AddObjOk(st, n)    == IdsObj(n) \cap Taken(st) = {} /\ NoDupInc(n)
\* @type: ($st, Str) => $st;
NetState(st, N) == WithRefsReset([st EXCEPT !.C = @ \cup Mem(N)], Mem(N) \cap Lanelets)
\* @type: ($st, Str) => Bool;
NetOk(st, N)    == IdsNet(N) \cap Taken(st) = {} /\ ~SelfCollide(N)

\* AddSeq(s, q) of the contract, as a fold: <<state, all added>>
\* @type: (<<$st, Bool>>, Str) => <<$st, Bool>>;
AddSeqStep(acc, n) == IF ~acc[2] THEN acc
                      ELSE IF AddObjOk(acc[1], n) THEN <<AddObjState(acc[1], n), TRUE>> ELSE <<acc[1], FALSE>>
\* @type: ($st, Seq(Str)) => <<$st, Bool>>;
AddSeq(st, q) == ApaFoldSeqLeft(AddSeqStep, <<st, TRUE>>, q)

\* signs (k, f = "sign","sg") / lights referenced by the removed lanelets Ls and by no remaining lanelet
\* @type: ($st, Set(Str), Str, Str -> Set(Int)) => Set(Str);
Hanging(st, Ls, k, refs) ==
    LET rem  == (Lanelets \cap st.C) \ Ls
        refd == UNION {refs[n] : n \in Ls}
        kept == UNION {refs[n] : n \in rem}
    IN {n \in st.C : KIND[n] = k /\ Tok[n].id \in refd \ kept}
\* @type: ($st, Set(Str)) => $st;
RemoveState(st, ns) ==
    DropRefs([st EXCEPT !.C = @ \ ns, !.freed = @ \cup Used(ns)], IdsOfKind(ns, "sign"), IdsOfKind(ns, "light"))
\* @type: ($st, Int) => Bool;
GenOk(st, i) == i \notin Used(st.C) /\ i \notin st.gen

(* expected effect of each operation (ScenarioStore.tla): [res, posts (acceptable post-states), any] *)
\* @type: (Str, Set($st), Bool) => $out;
Outcome(res, posts, any) == [res |-> res, posts |-> posts, any |-> any]
\* @type: ($st, Str) => $out;
ExpAddObj(st, n)   == IF AddObjOk(st, n) THEN Outcome("ok", {AddObjState(st, n)}, FALSE)
                                         ELSE Outcome("ValueError", {st}, FALSE)
\* @type: ($st, Seq(Str)) => $out;
ExpAddList(st, q) == LET r == AddSeq(st, q) IN
    IF r[2] THEN Outcome("ok", {r[1]}, FALSE)
    ELSE Outcome("ValueError", {r[1], st}, FALSE)
\* @type: ($st, Str) => $out;
ExpAddNet(st, N) ==
    IF NetPart(st.C) = {}
    THEN IF NetOk(st, N) THEN Outcome("ok", {NetState(st, N)}, FALSE) ELSE Outcome("ValueError", {st}, FALSE)
    ELSE Outcome("any", {st}, TRUE)
\* @type: ($st, Set(Str)) => $out;
ExpRemove(st, ns) == Outcome("ok", {RemoveState(st, ns)}, FALSE)
\* @type: ($st, Set(Str), Bool) => $out;
ExpRemoveLanelet(st, Ls, ref) ==
    LET h == IF ref THEN Hanging(st, Ls, "sign", st.sg) \cup Hanging(st, Ls, "light", st.lt) ELSE {}
    IN Outcome("ok", {RemoveState(st, Ls \cup h)}, FALSE)
\* @type: $st => $out;
ExpErase(st) == Outcome("ok", {RemoveState(st, NetPart(st.C))}, FALSE)
\* @type: ($st, Str) => $out;
ExpReplace(st, N) ==
    LET e == RemoveState(st, NetPart(st.C)) IN
    IF NetOk(e, N) THEN Outcome("ok", {NetState(e, N)}, FALSE)
    ELSE Outcome("ValueError", {st, e}, FALSE)
SeqSet(q) == Range(q)
\* @type: ($st, $act) => $out;
Exp(st, a) ==
    CASE a.op = "add"             -> IF a.toks[1] \in NetNames THEN ExpAddNet(st, a.toks[1]) ELSE ExpAddObj(st, a.toks[1])
      [] a.op = "add_list"        -> ExpAddList(st, a.toks)
      [] a.op \in {"remove_obstacle", "remove_sign", "remove_light", "remove_inter"} -> ExpRemove(st, SeqSet(a.toks))
      [] a.op = "remove_lanelet"  -> ExpRemoveLanelet(st, SeqSet(a.toks), a.ref = 1)
      [] a.op = "erase"           -> ExpErase(st)
      [] a.op = "replace"         -> ExpReplace(st, a.toks[1])
      [] OTHER                    -> Outcome("ok", {st}, FALSE)          \* gen, remove_absent
\* observable shape: references are compared modulo dangling ones
\* @type: $st => {C: Set(Str), sg: Str -> Set(Int), lt: Str -> Set(Int)};
Shape(st) == [C |-> st.C, sg |-> [n \in Lanelets \cap st.C |-> st.sg[n] \cap IdsOfKind(st.C, "sign")],
                          lt |-> [n \in Lanelets \cap st.C |-> st.lt[n] \cap IdsOfKind(st.C, "light")]]

(* ---- the implementation-shaped model (MC_ScenarioStore.tla) ------------------------------------------ *)
Max(S) == CHOOSE x \in S : \A y \in S : y <= x

\* Mark(q, S): ids are marked one at a time in the order of q; stops at the first id already marked
\* @type: (<<Bool, Set(Int)>>, Int) => <<Bool, Set(Int)>>;
MarkStep(acc, i) == IF ~acc[1] THEN acc ELSE IF i \in acc[2] THEN <<FALSE, acc[2]>> ELSE <<TRUE, acc[2] \cup {i}>>
\* @type: (Seq(Int), Set(Int)) => <<Bool, Set(Int)>>;
Mark(q, S) == ApaFoldSeqLeft(MarkStep, <<TRUE, S>>, q)
\* Mark(Flat(ord), S): the members of a network in marking order, each member's ids in its own order
\* @type: (<<Bool, Set(Int)>>, Str) => <<Bool, Set(Int)>>;
MarkMember(acc, m) == ApaFoldSeqLeft(MarkStep, acc, IdSeq(m))
\* @type: (Str, Set(Int)) => <<Bool, Set(Int)>>;
MarkNet(N, S) == ApaFoldSeqLeft(MarkMember, <<TRUE, S>>, Tok[N].ord)
FirstCntObj(n) == IF cnt = -1 THEN Tok[n].id ELSE cnt            \* FirstCnt(IdSeq(n)): IdSeq(n) is never empty
FirstCntNet(N) == IF cnt = -1 THEN Tok[Tok[N].ord[1]].id ELSE cnt \* FirstCnt(Flat(ord)): ord is never empty

\* @type: (Str, Seq(Str), Int, Str) => $act;
Act(op, toks, ref, res) == [op |-> op, toks |-> toks, ref |-> ref, res |-> res, gid |-> 0]

\* @type: $out => Bool;
Conforms(e) == /\ e.res \in {act'.res, "any"}
               /\ e.any \/ Shape(s') \in {Shape(p) : p \in e.posts}

\* @type: (Bool, $out) => Bool;
Ref(chk, e) == refOk' = (IF chk THEN Conforms(e) ELSE TRUE)

Init == s = Empty /\ idSet = {} /\ cnt = -1 /\ act = Act("init", <<>>, 0, "ok") /\ refOk = TRUE

AddObj(chk, n) ==
    LET m == Mark(IdSeq(n), idSet) IN
    /\ cnt' = FirstCntObj(n)
    /\ IF m[1] /\ NoDupInc(n)
       THEN /\ s' = AddObjState(s, n) /\ idSet' = m[2] /\ act' = Act("add", <<n>>, 0, "ok")
       ELSE /\ s' = s /\ act' = Act("add", <<n>>, 0, "ValueError")
            /\ idSet' = IF DEV_PartialIntersection THEN m[2] ELSE idSet
    /\ Ref(chk, ExpAddObj(s, n))

AddNet(chk, N) ==
    LET m == MarkNet(N, idSet) IN
    /\ NetPart(s.C) = {} \/ DEV_AddNetOnNonEmpty
    /\ cnt' = FirstCntNet(N)
    /\ IF m[1]
       THEN /\ s' = NetState([s EXCEPT !.C = ObsPart(@)], N)
            /\ idSet' = m[2] /\ act' = Act("add", <<N>>, 0, "ok")
       ELSE /\ s' = s /\ act' = Act("add", <<N>>, 0, "ValueError")
            /\ idSet' = IF DEV_PartialNetwork THEN m[2] ELSE idSet
    /\ Ref(chk, ExpAddNet(s, N))

AddList(chk, a, b) ==
    LET r == AddSeq(s, <<a, b>>) IN
    /\ s' = r[1] /\ idSet' = idSet \cup Used(r[1].C) /\ cnt' = FirstCntObj(a)
    /\ act' = Act("add_list", <<a, b>>, 0, IF r[2] THEN "ok" ELSE "ValueError")
    /\ Ref(chk, ExpAddList(s, <<a, b>>))

Release(ns, list) ==
    UNION {IF KIND[n] = "inter" /\ list /\ DEV_ListRemoveInterKeepsIncoming THEN {Tok[n].id} ELSE IdsObj(n) : n \in ns}

RemoveSimple(chk, op, kinds, ns, q, list) ==
    /\ ns \subseteq s.C /\ \A n \in ns : KIND[n] \in kinds
    /\ s' = RemoveState(s, ns) /\ idSet' = idSet \ Release(ns, list) /\ UNCHANGED cnt
    /\ act' = Act(op, q, IF list THEN 1 ELSE 0, "ok")
    /\ Ref(chk, ExpRemove(s, ns))

RemoveLanelet(chk, Ls, q, ref) ==
    LET h == IF ref THEN Hanging(s, Ls, "sign", s.sg) \cup Hanging(s, Ls, "light", s.lt) ELSE {}
        rem == (Lanelets \cap s.C) \ Ls
        named == ((UNION {s.sg[n] : n \in Ls}) \ (UNION {s.sg[n] : n \in rem}))
                 \cup ((UNION {s.lt[n] : n \in Ls}) \ (UNION {s.lt[n] : n \in rem}))
    IN /\ Ls \subseteq s.C /\ \A n \in Ls : KIND[n] = "lanelet"
       /\ s' = RemoveState(s, Ls \cup h) /\ UNCHANGED cnt
       /\ idSet' = idSet \ (Release(Ls \cup h, TRUE) \cup (IF ref /\ DEV_HangingFreesNamedIds THEN named ELSE {}))
       /\ act' = Act("remove_lanelet", q, IF ref THEN 1 ELSE 0, "ok")
       /\ Ref(chk, ExpRemoveLanelet(s, Ls, ref))

Erase(chk) == /\ s' = RemoveState(s, NetPart(s.C)) /\ idSet' = idSet \ Release(NetPart(s.C), FALSE) /\ UNCHANGED cnt
         /\ act' = Act("erase", <<>>, 0, "ok")
         /\ Ref(chk, ExpErase(s))

Replace(chk, N) ==
    LET e  == RemoveState(s, NetPart(s.C))
        S1 == idSet \ Release(NetPart(s.C), FALSE)
        m  == MarkNet(N, S1)
    IN /\ UNCHANGED cnt
       /\ IF m[1] THEN s' = NetState(e, N) /\ idSet' = m[2] /\ act' = Act("replace", <<N>>, 0, "ok")
          ELSE s' = e /\ idSet' = (IF DEV_PartialNetwork THEN m[2] ELSE S1) /\ act' = Act("replace", <<N>>, 0, "ValueError")
       /\ Ref(chk, ExpReplace(s, N))

\* generate_object_id: NO MaxGen guard
Gen1(chk) == LET c0 == IF cnt = -1 THEN 0 ELSE cnt
            c1 == IF idSet = {} THEN c0 ELSE IF Max(idSet) > c0 THEN Max(idSet) ELSE c0
        IN /\ cnt' = c1 + 1 /\ s' = [s EXCEPT !.gen = @ \cup {c1 + 1}] /\ UNCHANGED idSet
           /\ act' = [Act("gen", <<>>, 0, "ok") EXCEPT !.gid = c1 + 1]
           /\ Ref(chk, Outcome("ok", {s}, FALSE))

RemoveAbsent(chk, n, list) ==
    /\ n \notin s.C /\ KIND[n] \in ObsKinds
    /\ UNCHANGED <<s, idSet, cnt>> /\ act' = Act("remove_absent", <<n>>, IF list THEN 1 ELSE 0, "ok")
    /\ Ref(chk, Outcome("ok", {s}, FALSE))

OfKind(ks) == {n \in s.C : KIND[n] \in ks}

\* the MC model draws removals from sequences of length 1 or 2 (Seqs1 / Seqs2); here a, b range over the same set and
\* a = b stands for the one-element sequence
\* @type: (Str, Str) => Seq(Str);
Q(a, b) == IF a = b THEN <<a>> ELSE <<a, b>>
\* chk is the literal TRUE / FALSE: with FALSE the refinement observation is switched off (refOk' = TRUE) and the
\* expectation of the contract is not even built - obligations (1)-(3') use Next, the refinement obligation uses NextRef
NextP(chk) ==
    \/ \E n \in Objs : AddObj(chk, n)
    \/ \E N \in Nets : AddNet(chk, N) \/ Replace(chk, N)
    \/ \E a, b \in Objs : a # b /\ a \notin s.C /\ b \notin s.C /\ AddList(chk, a, b)
    \/ \E a, b \in OfKind(ObsKinds) : \E l \in BOOLEAN :
            (l \/ a = b) /\ RemoveSimple(chk, "remove_obstacle", ObsKinds, {a, b}, Q(a, b), l)
    \/ \E n \in OfKind({"sign"}) : \E l \in BOOLEAN : RemoveSimple(chk, "remove_sign", {"sign"}, {n}, <<n>>, l)
    \/ \E n \in OfKind({"light"}) : \E l \in BOOLEAN : RemoveSimple(chk, "remove_light", {"light"}, {n}, <<n>>, l)
    \/ \E n \in OfKind({"inter"}) : \E l \in BOOLEAN : RemoveSimple(chk, "remove_inter", {"inter"}, {n}, <<n>>, l)
    \/ \E a, b \in OfKind({"inter"}) : a # b /\ RemoveSimple(chk, "remove_inter", {"inter", "sign"}, {a, b}, <<a, b>>, TRUE)
    \/ \E a, b \in OfKind({"sign"}) : a # b /\ RemoveSimple(chk, "remove_sign", {"inter", "sign"}, {a, b}, <<a, b>>, TRUE)
    \/ \E a, b \in OfKind({"lanelet"}) : \E r \in BOOLEAN : RemoveLanelet(chk, {a, b}, Q(a, b), r)
    \/ \E n \in Objs \ s.C : \E l \in BOOLEAN : RemoveAbsent(chk, n, l)
    \/ Erase(chk)
    \/ Gen1(chk)
Next    == NextP(FALSE)
NextRef == NextP(TRUE)

(* ---- the contract (MC_ScenarioStore.tla) ------------------------------------------------------------- *)
InvUnique    == Unique(s.C)
InvPoolExact == idSet = Used(s.C)
InvReAddable == \A n \in Objs \ s.C : (IdsObj(n) \cap Used(s.C) = {} /\ NoDupInc(n)) => Mark(IdSeq(n), idSet)[1]
PropInv      == InvUnique /\ InvPoolExact /\ InvReAddable
\* action properties [][...]_vars as action invariants (checked on the one step from IndInit)
ActGenFresh     == act'.op = "gen" => GenOk(s, act'.gid)
ActRejectAtomic == (act'.op = "add" /\ act'.res = "ValueError") => (s' = s /\ idSet' = idSet)
PropAct         == ActGenFresh /\ ActRejectAtomic
\* refinement: every step of the implementation model is a step the contract allows
InvRefines == refOk          \* read at the state AFTER the one step from IndInit: --next=NextRef --inv=InvRefines --length=1

(* ---- the inductive invariant ------------------------------------------------------------------------- *)
Ops == {"init", "add", "add_list", "remove_obstacle", "remove_sign", "remove_light", "remove_inter",
        "remove_lanelet", "erase", "replace", "gen", "remove_absent"}
TypeOK ==
    /\ s.C \subseteq Objs
    /\ DOMAIN s.sg = Lanelets /\ DOMAIN s.lt = Lanelets
    /\ \A n \in Lanelets : s.sg[n] \subseteq Tok[n].sg /\ s.lt[n] \subseteq Tok[n].lt   \* references only shrink or reset
    /\ s.freed \subseteq ProbeIds /\ s.leak = {}
    /\ idSet \subseteq ProbeIds
    /\ cnt >= -1
    /\ act.op \in Ops /\ act.res \in {"ok", "ValueError"} /\ act.ref \in {0, 1} /\ Range(act.toks) \subseteq Names /\ Len(act.toks) <= 2
IndInv ==
    /\ TypeOK
    /\ Unique(s.C)                                   \* contained objects <-> ids: pairwise disjoint
    /\ idSet = Used(s.C)                             \* id set <-> contained objects: exact
    /\ \A g \in s.gen : 1 <= g /\ g <= cnt           \* every id handed out lies at or below the counter
    /\ act.gid >= 0

\* arbitrary state satisfying IndInv.  s.gen is the only component without a finite carrier: Gen(GenBound) is an
\* arbitrary set of at most GenBound integers (IndInv and the properties are universal over its elements and the
\* transition relation only ever adds one element and tests membership of one value).
GenBound == 5
IndInit ==
    /\ \E C \in SUBSET Objs, fr \in SUBSET ProbeIds :
       \E sg \in [Lanelets -> SUBSET {4}], lt \in [Lanelets -> SUBSET {5}] :
           s = [C |-> C, sg |-> sg, lt |-> lt, gen |-> Gen(GenBound), freed |-> fr, leak |-> {}]
    /\ idSet \in SUBSET ProbeIds
    /\ cnt = Gen(1)
    /\ act = Gen(2)
    /\ refOk = TRUE
    /\ IndInv
===================================================================================
