------------------------------ MODULE APA_TrafficLight ------------------------------
(* C17, UNBOUNDED time: typed (Apalache) transcription of TrafficLight + MC_TrafficLight WITHOUT the horizon     *)
(* (`Periods`, Horizon): Tick is always enabled, t is an unbounded natural number.  TLC checks the laws for      *)
(* t <= off + Periods * Total; here they are proved for EVERY t >= 0.                                             *)
(* Universe: cycles of 1..MaxElems = 4 elements, durations 1..MaxDur = 3, three colours, offset 0..MaxOff = 3     *)
(* (a superset of MC_TrafficLight.cfg and MC_TrafficLight4.cfg).                                                  *)
(* Differences forced by the tool:                                                                                *)
(*   - RECURSIVE SumTo is a fold;                                                                                  *)
(*   - `x % Total(c)` is written as a case split over the (at most MaxElems * MaxDur) values of Total(c), each    *)
(*     case a remainder by a literal, so that the SMT problem stays linear (Mod below);                            *)
(*   - quantifiers over 0..Total(c)-1 range over 0..MaxTotal-1 with a guard.                                        *)
(* Added for the inductive argument (not in MC_TrafficLight): the pair (el, pos) of a controller that STEPS        *)
(* through the cycle (stay d_i ticks in element i, then go to the next one, cyclically).  IndInv says that the    *)
(* stepping controller and the closed form ElemAt / Phase agree; its preservation by Tick is LawInOrder and       *)
(* StepLaw for all t.  DEV_TruncatedRemainder models the remainder of C / numpy.fmod (sign of the dividend)        *)
(* in place of the floored `%`: wrong exactly for t < off.                                                         *)
EXTENDS Integers, Sequences, FiniteSets, Apalache

(*
  @typeAlias: elem = {d: Int, c: Str};
*)
APA_TrafficLight_aliases == TRUE

CONSTANTS
    \* @type: Bool;
    DEV_TruncatedRemainder
CInit     == DEV_TruncatedRemainder = FALSE
CInitDev1 == DEV_TruncatedRemainder = TRUE

MaxElems == 4
MaxDur   == 3
MaxOff   == 3
Colors   == {"red", "green", "yellow"}
MaxTotal == MaxElems * MaxDur

VARIABLES
    \* @type: Seq($elem);
    cyc,
    \* @type: Int;
    off,
    \* @type: Int;
    t,
    \* @type: Int;
    el,
    \* @type: Int;
    pos
vars == <<cyc, off, t, el, pos>>

(* ---- TrafficLight.tla ---------------------------------------------------------------------------------------- *)
\* @type: (Seq($elem), Int) => Int;
SumTo(c, i) == LET \* @type: (Int, Int) => Int;
                   Add(acc, j) == acc + (IF j <= i /\ j <= Len(c) THEN c[j].d ELSE 0)
               IN ApaFoldSeqLeft(Add, 0, <<1, 2, 3, 4>>)                           \* d_1 + ... + d_i  (i <= MaxElems = 4)
\* @type: Seq($elem) => Int;
Total(c)    == SumTo(c, Len(c))
\* floored remainder x % m for m in 1..MaxTotal
\* @type: (Int, Int) => Int;
Mod(x, m) == IF m = 1 THEN 0 ELSE IF m = 2 THEN x % 2 ELSE IF m = 3 THEN x % 3 ELSE IF m = 4 THEN x % 4
             ELSE IF m = 5 THEN x % 5 ELSE IF m = 6 THEN x % 6 ELSE IF m = 7 THEN x % 7 ELSE IF m = 8 THEN x % 8
             ELSE IF m = 9 THEN x % 9 ELSE IF m = 10 THEN x % 10 ELSE IF m = 11 THEN x % 11 ELSE x % 12
\* @type: (Seq($elem), Int, Int) => Int;
Phase(c, o, tt) == IF DEV_TruncatedRemainder /\ tt < o THEN -Mod(o - tt, Total(c)) ELSE Mod(tt - o, Total(c))
\* @type: (Seq($elem), Int, Int) => Bool;
InWindow(c, i, r) == SumTo(c, i - 1) <= r /\ r < SumTo(c, i)
\* @type: (Seq($elem), Int, Int) => Int;
ElemAt(c, o, tt) == CHOOSE i \in DOMAIN c : InWindow(c, i, Phase(c, o, tt))
\* @type: (Seq($elem), Int, Int) => Str;
StateAt(c, o, tt) == c[ElemAt(c, o, tt)].c

\* @type: Seq($elem) => Bool;
Partition(c)   == \A r \in 0..MaxTotal - 1 : r < Total(c) => Cardinality({i \in DOMAIN c : InWindow(c, i, r)}) = 1
\* @type: Seq($elem) => Bool;
Covers(c)      == \A i \in DOMAIN c : Cardinality({r \in 0..MaxTotal - 1 : r < Total(c) /\ InWindow(c, i, r)}) = c[i].d
\* @type: (Seq($elem), Int, Int) => Bool;
Periodic(c, o, tt) == StateAt(c, o, tt + Total(c)) = StateAt(c, o, tt)
\* @type: (Seq($elem), Int) => Bool;
InOrder(c, o) == \A i \in DOMAIN c : \A k \in 0..MaxDur - 1 : k < c[i].d => ElemAt(c, o, o + SumTo(c, i - 1) + k) = i

(* ---- MC_TrafficLight.tla, no horizon -------------------------------------------------------------------------- *)
\* @type: Seq($elem) => Bool;
CycleOK(c) == Len(c) \in 1..MaxElems /\ \A i \in DOMAIN c : c[i].d \in 1..MaxDur /\ c[i].c \in Colors
Init == /\ cyc = Gen(MaxElems) /\ CycleOK(cyc)                \* cyc \in Cycles
        /\ off \in 0..MaxOff /\ t = 0
        /\ el = ElemAt(cyc, off, 0) /\ pos = Phase(cyc, off, 0) - SumTo(cyc, el - 1)
Tick == /\ t' = t + 1 /\ UNCHANGED <<cyc, off>>
        /\ IF pos + 1 < cyc[el].d THEN el' = el /\ pos' = pos + 1
           ELSE el' = (el % Len(cyc)) + 1 /\ pos' = 0
Next == Tick

LawPartition == Partition(cyc)
LawCovers    == Covers(cyc)
LawPeriodic  == Periodic(cyc, off, t)
LawInOrder   == InOrder(cyc, off)
LawBeforeOffset == t < off => StateAt(cyc, off, t) = StateAt(cyc, off, t + Total(cyc))
ActStepLaw == LET i == ElemAt(cyc, off, t) j == ElemAt(cyc, off, t') IN j = i \/ j = (i % Len(cyc)) + 1
\* the laws about TIME (unbounded here).  LawPartition / LawCovers / LawInOrder do not mention t: TLC checks them
\* exhaustively over the same universe of cycles and offsets, there is no history to unbound (PropStatic is available
\* as an extra obligation: --init=IndInit --inv=PropStatic --length=0)
PropInv == LawPeriodic /\ LawBeforeOffset
PropStatic == LawPartition /\ LawCovers /\ LawInOrder
PropAct == ActStepLaw

(* ---- the inductive invariant ---------------------------------------------------------------------------------- *)
TypeOK == CycleOK(cyc) /\ off \in 0..MaxOff /\ t >= 0 /\ el \in DOMAIN cyc
IndInv ==
    /\ TypeOK
    \* the stepping controller agrees with the closed form at every time step
    /\ el = ElemAt(cyc, off, t)
    /\ pos = Phase(cyc, off, t) - SumTo(cyc, el - 1)
    /\ pos < cyc[el].d

IndInit == cyc = Gen(MaxElems) /\ off = Gen(1) /\ t = Gen(1) /\ el = Gen(1) /\ pos = Gen(1) /\ IndInv

LemmaPhase == Phase(cyc, off, t + Total(cyc)) = Phase(cyc, off, t)
LemmaTotal == Total(cyc) \in 1..MaxTotal
TypeInit == cyc = Gen(MaxElems) /\ off = Gen(1) /\ t = Gen(1) /\ el = Gen(1) /\ pos = Gen(1) /\ TypeOK
=====================================================================================
