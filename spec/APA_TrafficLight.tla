------------------------------ MODULE APA_TrafficLight ------------------------------
\* COVERS: {"mc": "MC_TrafficLight", "actions": ["Tick"], "devs": []}
(* C17, UNBOUNDED time: typed (Apalache) transcription of TrafficLight + MC_TrafficLight WITHOUT the horizon     *)
(* (`Periods`, Horizon): Tick is always enabled, t is an unbounded natural number.  TLC checks the laws for      *)
(* t <= off + Periods * Total; here they are proved for EVERY t >= 0.                                             *)
(* Universe: cycles of 1..MaxElems = 4 elements, durations 1..MaxDur = 3, three colours, offset 0..MaxOff = 3     *)
(* (a superset of MC_TrafficLight.cfg and MC_TrafficLight4.cfg).                                                  *)
(* Differences forced by the tool:                                                                                *)
(*   - RECURSIVE SumTo is a fold;                                                                                  *)
(*   - `x % Total(c)`: every law is split into one conjunct per value m of Total(c), with the literal `% m`       *)
(*     (PhaseM / ElemAtM / StateAtM below), so that the SMT problem stays linear;                                  *)
(*   - quantifiers over 0..Total(c)-1 range over 0..MaxTotal-1 with a guard; LawBeforeOffset is the case t < off   *)
(*     of LawPeriodic, which is proved for every t.                                                                *)
(* Added for the inductive argument (not in MC_TrafficLight): a controller that STEPS through the cycle - (el, pos):  *)
(* stay d_el ticks in element el, then go to the next one, cyclically - and the ghost quotient per (completed periods,    *)
(* negative before the offset).  IndInv is the DEFINING property of the floored remainder,                              *)
(*     t - off = per * Total + (d_1 + ... + d_(el-1) + pos),   0 <= pos < d_el,                                           *)
(* written without `%` (per * Total is a sum of at most MaxTotal copies of per), so its preservation by Tick is linear      *)
(* arithmetic.  Obligation (3) then connects it to the closed form of TrafficLight.tla: el = ElemAt(cyc, off, t) with   *)
(* ElemAt defined through `%` - for every t.  DEV_TruncatedRemainder models the remainder of C / numpy.fmod (sign of    *)
(* the dividend) in place of the floored `%` in the closed form: wrong exactly for t < off.                             *)
EXTENDS Integers, Sequences, FiniteSets, Apalache

(*
  @typeAlias: elem = {d: Int, c: Str};
*)
APA_TrafficLight_aliases == TRUE

CONSTANTS
    \* @type: Bool;
    DEV_TruncatedRemainder
CInit     == DEV_TruncatedRemainder = FALSE
CInitDev1 == DEV_TruncatedRemainder = TRUE

MaxElems == 4
MaxDur   == 3
MaxOff   == 3
Colors   == {"red", "green", "yellow"}
MaxTotal == MaxElems * MaxDur

VARIABLES
    \* @type: Seq($elem);
    cyc,
    \* @type: Int;
    off,
    \* @type: Int;
    t,
    \* @type: Int;
    el,
    \* @type: Int;
    pos,
    \* @type: Int;
    per
vars == <<cyc, off, t, el, pos, per>>

(* ---- TrafficLight.tla ---------------------------------------------------------------------------------------- *)
\* @type: (Seq($elem), Int) => Int;
SumTo(c, i) == LET \* @type: (Int, Int) => Int;
                   Add(acc, j) == acc + (IF j <= i /\ j <= Len(c) THEN c[j].d ELSE 0)
               IN ApaFoldSeqLeft(Add, 0, <<1, 2, 3, 4>>)                           \* d_1 + ... + d_i  (i <= MaxElems = 4)
\* @type: Seq($elem) => Int;
Total(c)    == SumTo(c, Len(c))
\* Phase(c, off, t) == (t - off) % Total(c).  A remainder by an UNKNOWN divisor is non-linear for the solver, and a case
\* split over the values of Total(c) inside one formula puts up to MaxTotal different moduli on the same unbounded number
\* (measured: does not finish).  So the divisor is a parameter m that is a LITERAL at every use: each law below is the
\* conjunction over m = 1..MaxTotal of  Total(c) = m => law with `% m`  (Apalache checks the conjuncts one by one).
\* @type: (Int, Int, Int) => Int;
PhaseM(m, o, tt) == IF DEV_TruncatedRemainder /\ tt < o THEN -((o - tt) % m) ELSE (tt - o) % m
\* @type: (Seq($elem), Int, Int) => Bool;
InWindow(c, i, r) == SumTo(c, i - 1) <= r /\ r < SumTo(c, i)
\* ElemAt(c, off, t) / StateAt(c, off, t) of TrafficLight.tla under the hypothesis Total(c) = m
\* @type: (Int, Seq($elem), Int, Int) => Int;
ElemAtM(m, c, o, tt) == CHOOSE i \in DOMAIN c : InWindow(c, i, PhaseM(m, o, tt))
\* @type: (Int, Seq($elem), Int, Int) => Str;
StateAtM(m, c, o, tt) == c[ElemAtM(m, c, o, tt)].c
\* @type: (Int => Bool) => Bool;
ForAllTotals(Law(_)) == /\ Law(1) /\ Law(2) /\ Law(3) /\ Law(4) /\ Law(5) /\ Law(6)
                        /\ Law(7) /\ Law(8) /\ Law(9) /\ Law(10) /\ Law(11) /\ Law(12)

\* @type: Seq($elem) => Bool;
Partition(c)   == \A r \in 0..MaxTotal - 1 : r < Total(c) => Cardinality({i \in DOMAIN c : InWindow(c, i, r)}) = 1
\* @type: Seq($elem) => Bool;
Covers(c)      == \A i \in DOMAIN c : Cardinality({r \in 0..MaxTotal - 1 : r < Total(c) /\ InWindow(c, i, r)}) = c[i].d
(* ---- MC_TrafficLight.tla, no horizon -------------------------------------------------------------------------- *)
\* @type: Seq($elem) => Bool;
CycleOK(c) == Len(c) \in 1..MaxElems /\ \A i \in DOMAIN c : c[i].d \in 1..MaxDur /\ c[i].c \in Colors
\* kk * m for m in 0..MaxTotal, without multiplication of two unknowns
\* @type: (Int, Int) => Int;
Times(kk, m) == LET \* @type: (Int, Int) => Int;
                    Add(acc, j) == acc + (IF j <= m THEN kk ELSE 0)
                IN ApaFoldSeqLeft(Add, 0, <<1, 2, 3, 4, 5, 6, 7, 8, 9, 10, 11, 12>>)
\* r is the floored remainder of tt - o by Total(c), kk the quotient
\* @type: (Seq($elem), Int, Int, Int, Int) => Bool;
InPhase(c, o, tt, r, kk) == 0 <= r /\ r < Total(c) /\ tt - o = Times(kk, Total(c)) + r

Init == /\ cyc = Gen(MaxElems) /\ CycleOK(cyc)                \* cyc \in Cycles
        /\ off \in 0..MaxOff /\ t = 0
        /\ \E k0 \in (-MaxOff)..0, r \in 0..(MaxTotal - 1), e \in 1..MaxElems :
              /\ InPhase(cyc, off, 0, r, k0) /\ e \in DOMAIN cyc /\ InWindow(cyc, e, r)
              /\ per = k0 /\ el = e /\ pos = r - SumTo(cyc, e - 1)
Tick == /\ t' = t + 1 /\ UNCHANGED <<cyc, off>>
        /\ IF pos + 1 < cyc[el].d THEN el' = el /\ pos' = pos + 1 /\ per' = per
           ELSE /\ el' = (IF el = Len(cyc) THEN 1 ELSE el + 1) /\ pos' = 0
                /\ per' = (IF el = Len(cyc) THEN per + 1 ELSE per)
Next == Tick

\* LawPartition / LawCovers / LawInOrder do not mention t (TLC checks them exhaustively over the same universe); they are
\* cheap and kept so that PropInv has every law of MC_TrafficLight
LawPartition == Partition(cyc)
LawCovers    == Covers(cyc)
LawTotal     == Total(cyc) \in 1..MaxTotal          \* the conjunctions over m = 1..MaxTotal below cover every cycle
InOrderM(m)  == Total(cyc) = m => \A i \in DOMAIN cyc : \A kk \in 0..MaxDur - 1 :
                    kk < cyc[i].d => ElemAtM(m, cyc, off, off + SumTo(cyc, i - 1) + kk) = i
LawInOrder   == ForAllTotals(InOrderM)
\* stepping controller = closed form of the statement, at every t
AgreeM(m)    == Total(cyc) = m => (el = ElemAtM(m, cyc, off, t) /\ StateAtM(m, cyc, off, t) = cyc[el].c)
LawAgree     == ForAllTotals(AgreeM)
\* LawPeriodic (and its special case LawBeforeOffset: t < off) for every t
PeriodicM(m) == Total(cyc) = m => StateAtM(m, cyc, off, t + m) = StateAtM(m, cyc, off, t)
LawPeriodic  == ForAllTotals(PeriodicM)
PropInv      == LawTotal /\ LawPartition /\ LawCovers /\ LawInOrder /\ LawAgree /\ LawPeriodic
\* StepLaw: stepping time by one stays in the element or moves to the next one (cyclically)
StepM(m)     == Total(cyc) = m => LET i == ElemAtM(m, cyc, off, t) j == ElemAtM(m, cyc, off, t') IN j = i \/ j = (i % Len(cyc)) + 1
ActStepLaw   == ForAllTotals(StepM)
PropAct      == ActStepLaw

(* ---- the inductive invariant ---------------------------------------------------------------------------------- *)
TypeOK == CycleOK(cyc) /\ off \in 0..MaxOff /\ t >= 0 /\ el \in DOMAIN cyc
IndInv ==
    /\ TypeOK
    /\ 0 <= pos /\ pos < cyc[el].d
    /\ t - off = Times(per, Total(cyc)) + SumTo(cyc, el - 1) + pos

IndInit == cyc = Gen(MaxElems) /\ off = Gen(1) /\ t = Gen(1) /\ el = Gen(1) /\ pos = Gen(1) /\ per = Gen(1) /\ IndInv
=====================================================================================
