--------------------------------- MODULE APA_Writers ---------------------------------
\* COVERS: {"mc": "MC_Writers", "actions": ["New", "Write", "EditScenario", "FailedWrite"], "devs": ["DEV_GlobalPrecision", "DEV_AccumulatingRoot", "DEV_NoTruncate", "DEV_NetworkCached", "DEV_FailedWriteKeepsDoc"]}
(* C15, UNBOUNDED histories: typed (Apalache) transcription of MC_Writers + Writers WITHOUT the step       *)
(* counter (`steps`, MaxSteps): any number of write calls, in any interleaving with the construction of    *)
(* up to MaxWriters writers (the universe: MaxWriters = 3, Precisions = {2, 6}, Paths = {"a", "b"}, a scenario  *)
(* of 1..MaxLanelets = 2 lanelets).                                                                        *)
(* `act` is kept (PropOwnInputs reads it).  Obligations as in APA_ScenarioStore.tla; deviation constants   *)
(* are chosen by --cinit (CInit: all FALSE; CInitDev1..5: exactly one TRUE).                               *)
EXTENDS Integers, Sequences, FiniteSets, Apalache

(*
  @typeAlias: wr = {fmt: Str, d: Int};
  @typeAlias: content = {fmt: Str, digits: Int, copies: Int, pp: Int, nl: Int};
  @typeAlias: tr = {n: Int, pp: Int};
  @typeAlias: act = {op: Str, w: Int, path: Str, mode: Str, kind: Str, fmt: Str, d: Int};
*)
APA_Writers_aliases == TRUE

CONSTANTS
    \* @type: Bool;
    DEV_GlobalPrecision,
    \* @type: Bool;
    DEV_AccumulatingRoot,
    \* @type: Bool;
    DEV_NoTruncate,
    \* @type: Bool;
    DEV_NetworkCached,
    \* @type: Bool;
    DEV_FailedWriteKeepsDoc

Dev(a, b, c, d, e) == /\ DEV_GlobalPrecision = a /\ DEV_AccumulatingRoot = b /\ DEV_NoTruncate = c /\ DEV_NetworkCached = d
                      /\ DEV_FailedWriteKeepsDoc = e
CInit     == Dev(FALSE, FALSE, FALSE, FALSE, FALSE)
CInitDev1 == Dev(TRUE, FALSE, FALSE, FALSE, FALSE)
CInitDev2 == Dev(FALSE, TRUE, FALSE, FALSE, FALSE)
CInitDev3 == Dev(FALSE, FALSE, TRUE, FALSE, FALSE)
CInitDev4 == Dev(FALSE, FALSE, FALSE, TRUE, FALSE)
CInitDev5 == Dev(FALSE, FALSE, FALSE, FALSE, TRUE)

MaxWriters == 3
Precisions == {2, 6}
Paths      == {"a", "b"}
MaxLanelets == 2                 \* EditScenario of MC_Writers: nlan < 2

VARIABLES
    \* @type: Seq($wr);
    writers,
    \* @type: Str -> $content;
    files,
    \* @type: Int;
    gprec,
    \* @type: Seq($tr);
    tree,
    \* @type: $act;
    act,
    \* @type: Int;
    nlan,
    \* @type: Seq(Int);
    wnet,
    \* per writer: documents left over from writes that raised
    \* @type: Seq(Int);
    pend
vars == <<writers, files, gprec, tree, act, nlan, wnet, pend>>

(* ---- Writers.tla ------------------------------------------------------------------------------------ *)
Formats == {"xml", "pb"}
Kinds   == {"full", "scenario"}
Modes   == {"always", "skip"}
\* @type: ($wr, Str, Int) => $content;
F(w, kind, nl) == [fmt |-> w.fmt, digits |-> IF w.fmt = "xml" THEN w.d ELSE 0, copies |-> 1,
                   pp |-> IF kind = "full" THEN 1 ELSE 0, nl |-> nl]
\* @type: (Str -> $content, Str, Str) => Bool;
Skipped(fs, path, mode) == mode = "skip" /\ path \in DOMAIN fs
\* @type: $content;
NoFile == [fmt |-> "none", digits |-> 0, copies |-> 0, pp |-> 0, nl |-> 0]

(* ---- MC_Writers.tla --------------------------------------------------------------------------------- *)
W == 1..MaxWriters
\* @type: (Str, Int, Str, Str, Str, Str, Int) => $act;
A(op, w, path, mode, kind, fmt, d) == [op |-> op, w |-> w, path |-> path, mode |-> mode, kind |-> kind, fmt |-> fmt, d |-> d]
Init == /\ writers = <<>> /\ files = [p \in {} |-> NoFile] /\ gprec = 4 /\ tree = <<>>
        /\ nlan = 1 /\ wnet = <<>> /\ pend = <<>>
        /\ act = A("init", 0, "", "", "", "", 0)

\* @type: $content => Int;
Size(c) == (IF c.fmt = "xml" THEN 20 + c.digits ELSE IF c.fmt = "pb" THEN 10 ELSE 1000) + 5 * c.pp + 40 * c.copies * c.nl
\* @type: $content;
Garbled == [fmt |-> "garbled", digits |-> 0, copies |-> 0, pp |-> 0, nl |-> 0]

New(fmt, d) ==
    /\ Len(writers) < MaxWriters
    /\ writers' = Append(writers, [fmt |-> fmt, d |-> d]) /\ tree' = Append(tree, [n |-> 0, pp |-> 0])
    /\ gprec' = d /\ UNCHANGED <<files, nlan>> /\ wnet' = Append(wnet, 0) /\ pend' = Append(pend, 0)
    /\ act' = A("new", Len(writers) + 1, "", "", "", fmt, d)

Write(w, path, mode, kind) ==
    LET wr == writers[w]
        t1 == IF DEV_AccumulatingRoot /\ wr.fmt = "xml"
              THEN [n |-> tree[w].n + 1, pp |-> tree[w].pp + (IF kind = "full" THEN 1 ELSE 0)]
              ELSE [n |-> 1, pp |-> IF kind = "full" THEN 1 ELSE 0]
        content == [fmt |-> wr.fmt,
                    digits |-> IF wr.fmt = "xml" THEN (IF DEV_GlobalPrecision THEN gprec ELSE wr.d) ELSE 0,
                    copies |-> t1.n + (IF wr.fmt = "xml" THEN pend[w] ELSE 0), pp |-> t1.pp,
                    nl |-> IF DEV_NetworkCached /\ wnet[w] # 0 THEN wnet[w] ELSE nlan]
        onDisk == IF DEV_NoTruncate /\ path \in DOMAIN files /\ Size(files[path]) > Size(content)
                  THEN Garbled ELSE content
    IN /\ w \in 1..Len(writers)
       /\ IF Skipped(files, path, mode) THEN UNCHANGED <<files, tree, wnet, pend>>
          ELSE /\ files' = [p \in DOMAIN files \cup {path} |-> IF p = path THEN onDisk ELSE files[p]]
               /\ tree' = [tree EXCEPT ![w] = t1]
               /\ wnet' = [wnet EXCEPT ![w] = IF @ = 0 THEN nlan ELSE @]
               /\ pend' = [pend EXCEPT ![w] = 0]
       /\ UNCHANGED <<writers, gprec, nlan>>
       /\ act' = A("write", w, path, mode, kind, wr.fmt, wr.d)

\* the user edits the scenario the writers reference (a lanelet is added)
EditScenario == /\ nlan < MaxLanelets /\ nlan' = nlan + 1 /\ UNCHANGED <<writers, files, gprec, tree, wnet, pend>>
                /\ act' = A("edit", 0, "", "", "", "", 0)

\* a write into a directory that does not exist raises; nothing is written and nothing may stay behind in the writer
FailedWrite(w, kind) ==
    /\ w \in 1..Len(writers)
    /\ pend' = [pend EXCEPT ![w] = IF DEV_FailedWriteKeepsDoc THEN @ + 1 ELSE 0]
    /\ UNCHANGED <<writers, files, gprec, tree, nlan, wnet>>
    /\ act' = A("fail", w, "", "", kind, writers[w].fmt, writers[w].d)

\* NO step counter
Next == \/ \E fmt \in Formats, d \in Precisions : New(fmt, d)
        \/ EditScenario
        \/ \E w \in W, k \in Kinds : FailedWrite(w, k)
        \/ \E w \in W, p \in Paths, m \in Modes, k \in Kinds : Write(w, p, m, k)

(* ---- the contract ----------------------------------------------------------------------------------- *)
ActOwnInputs == act'.op = "write" =>
                    IF Skipped(files, act'.path, act'.mode) THEN files' = files
                    ELSE files'[act'.path] = F(writers[act'.w], act'.kind, nlan)
InvFiles == \A p \in DOMAIN files : files[p].copies = 1 /\ files[p].fmt \in Formats
PropInv == InvFiles
PropAct == ActOwnInputs

(* ---- the inductive invariant ------------------------------------------------------------------------ *)
TypeOK ==
    /\ Len(writers) <= MaxWriters /\ Len(tree) = Len(writers) /\ Len(wnet) = Len(writers) /\ Len(pend) = Len(writers)
    /\ nlan \in 1..MaxLanelets
    /\ \A i \in DOMAIN writers : writers[i].fmt \in Formats /\ writers[i].d \in Precisions
    /\ DOMAIN files \subseteq Paths
    /\ gprec \in Precisions \cup {4}
    /\ act.op \in {"init", "new", "write", "edit", "fail"} /\ act.w \in 0..MaxWriters
IndInv ==
    /\ TypeOK
    \* the process-global precision is the precision of the writer constructed last
    /\ gprec = (IF Len(writers) = 0 THEN 4 ELSE writers[Len(writers)].d)
    \* element tree of a writer: empty, or exactly the elements of its last write (never accumulated)
    /\ \A i \in DOMAIN tree : tree[i].n \in {0, 1} /\ tree[i].pp \in {0, 1} /\ tree[i].pp <= tree[i].n
    \* network size a writer saw at its first write: none yet, or a size the scenario had then (the scenario only grows)
    /\ \A i \in DOMAIN wnet : wnet[i] \in 0..nlan
    \* nothing of a raising write stays behind in the writer (with the deviation on: any number of left-over documents)
    /\ \A i \in DOMAIN pend : pend[i] >= 0 /\ (~DEV_FailedWriteKeepsDoc => pend[i] = 0)
    \* files and writers: every file on disk is what ONE constructed writer produces from its own inputs (the writer's
    \* format / precision, the kind of the call, the scenario as it was at the time of that write)
    /\ \A p \in DOMAIN files : \E i \in DOMAIN writers, k \in Kinds, nl \in 1..MaxLanelets :
            nl <= nlan /\ files[p] = F(writers[i], k, nl)

IndInit ==
    /\ writers = Gen(MaxWriters) /\ tree = Gen(MaxWriters) /\ wnet = Gen(MaxWriters) /\ pend = Gen(MaxWriters) /\ nlan = Gen(1)
    /\ files = Gen(2)
    /\ gprec = Gen(1)
    /\ act = Gen(1)
    /\ IndInv
=====================================================================================
