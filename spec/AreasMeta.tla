------------------------------- MODULE AreasMeta -------------------------------
(* X07 (extended coverage) - areas and scenario meta data, written from the docstrings, the      *)
(* messages of the argument checks and the definition files of the format:                        *)
(*   1. Area / AreaBorder in a LaneletNetwork (scenario/area.py, scenario/lanelet.py) and in a    *)
(*      Scenario: add_area, remove_area, find_area_by_id, areas, remove_lanelet, translate_rotate, *)
(*      create_from_lanelet_network, Scenario.add_objects / generate_object_id / erase.            *)
(*      The references C09 / C10 do not model:  Lanelet.adjacent_areas  (lanelet -> area) and      *)
(*      AreaBorder.adjacent (area -> lanelet).                                                     *)
(*   2. validating setters of Area, AreaBorder and Lanelet.adjacent_areas                          *)
(*   3. Scenario meta data: constructor / attribute assignment / convert_to_2d on two live         *)
(*      scenarios (defaults are per object)                                                        *)
(*   4. ScenarioID constructor: which arguments are accepted (beyond the grammar of C13)            *)
(*   5. GeoTransformation, Location, Environment, Time: defaults and setters                        *)
(*   6. the enums Tag, TimeOfDay, Weather, Underground, AreaType                                    *)
(* Functional core of the CONTRACT: no variables, no constants.  Every operation has an event      *)
(* shape (the record the harness logs and the model emits); the contract is                         *)
(*   Clause(st, e)  name of the violated clause of event e in abstract state st ("" = accepted)     *)
(*   Post(st, e)    abstract state after e (re-synchronised to what the event reports)              *)
(* Where the documentation is silent both behaviours are accepted (branches commented `silent`).    *)
EXTENDS Integers, Sequences, FiniteSets, TLC

ToSet(q) == {q[i] : i \in DOMAIN q}

(* ========================================================================================== *)
(* 1. A lanelet network with areas.                                                           *)
(*    L   ids of the lanelets            A   areas <<id, tag>> (tag = content marker)         *)
(*    aa  <<lanelet, area id>>           Lanelet.adjacent_areas of the contained lanelets     *)
(*    bd  <<area id, lanelet>>           AreaBorder.adjacent of the borders of contained areas *)
(*    ap  <<area id, x, y>>              first vertex of the first border of the area          *)
(*    lp  <<lanelet, x, y>>              first centre vertex of the lanelet                    *)
(*    host "net" | "scen"  (the network has been handed to a Scenario),  reg  area ids that     *)
(*    entered the scenario inside the network,  gen  ids generate_object_id has returned        *)
(* ========================================================================================== *)
NetFields == {"L", "A", "aa", "bd", "ap", "lp"}
EmptyNet == [L |-> {}, A |-> {}, aa |-> {}, bd |-> {}, ap |-> {}, lp |-> {}, host |-> "net", reg |-> {}, gen |-> {}]
Snap(p)  == [L |-> ToSet(p.L), A |-> ToSet(p.A), aa |-> ToSet(p.aa), bd |-> ToSet(p.bd), ap |-> ToSet(p.ap),
             lp |-> ToSet(p.lp)]
AIds(n)  == {a[1] : a \in n.A}
AreaRefs(n, l)   == {r[2] : r \in {q \in n.aa : q[1] = l}}          \* adjacent_areas of lanelet l
BorderRefs(n, a) == {r[2] : r \in {q \in n.bd : q[1] = a}}          \* lanelets adjacent to the borders of area a
(* referential integrity: no lanelet refers to an absent area, no border to an absent lanelet *)
NoDangling(n)    == (\A r \in n.aa : r[2] \in AIds(n)) /\ (\A r \in n.bd : r[2] \in n.L)
IdsUnique(n)     == \A a, b \in n.A : a[1] = b[1] => a = b

(* translate_rotate(t, angle): p |-> R(angle)(p + t); here t integral and angle = k quarter turns *)
RotQ(v, k) == CASE k % 4 = 0 -> v
                [] k % 4 = 1 -> <<0 - v[2], v[1]>>
                [] k % 4 = 2 -> <<0 - v[1], 0 - v[2]>>
                [] OTHER     -> <<v[2], 0 - v[1]>>
Img(x, y, t) == RotQ(<<x + t[1], y + t[2]>>, t[3])
MoveAll(S, t) == {<<r[1], Img(r[2], r[3], t)[1], Img(r[2], r[3], t)[2]>> : r \in S}

(* the network after a mutator, from the docstrings:                                            *)
(*   add_lanelet / add_area   "already exists in network! No changes are made." -> False         *)
(*   add_area(area, ids)      "Lanelets the area should be referenced from"; an id that is not    *)
(*                            in the network: "cannot be referenced ... does not exist" (warning) *)
(*   remove_area              "Removes an area from a lanelet network and deletes all references" *)
(*   remove_lanelet           "Removes a lanelet from a lanelet network and deletes all references" *)
(*   translate_rotate         "Translates and rotates the complete lanelet network"               *)
(*   erase_lanelet_network    "Removes all elements from lanelet network"                         *)
ExpNet(n, e) ==
  CASE e.op = "n_add_lanelet" ->
         IF e.i \in n.L THEN n
         ELSE [n EXCEPT !.L = @ \cup {e.i}, !.aa = @ \cup {<<e.i, a>> : a \in ToSet(e.aa0)},
                        !.lp = @ \cup {<<e.i, e.pos[1], e.pos[2]>>}]
    [] e.op = "n_remove_lanelet" ->
         IF e.i \notin n.L THEN n
         ELSE [n EXCEPT !.L = @ \ {e.i}, !.aa = {r \in @ : r[1] # e.i}, !.lp = {r \in @ : r[1] # e.i},
                        !.bd = {r \in @ : r[2] # e.i}]                        \* "deletes all references"
    [] e.op = "n_add_area" ->
         IF e.a[1] \in AIds(n) THEN n
         ELSE [n EXCEPT !.A = @ \cup {<<e.a[1], e.a[2]>>},
                        !.aa = @ \cup {<<l, e.a[1]>> : l \in ToSet(e.ids) \cap n.L},
                        !.bd = @ \cup {<<e.a[1], l>> : l \in ToSet(e.bd0)},
                        !.ap = @ \cup {<<e.a[1], e.pos[1], e.pos[2]>>}]
    [] e.op = "n_remove_area" ->
         IF e.i \notin AIds(n) THEN n
         ELSE [n EXCEPT !.A = {a \in @ : a[1] # e.i}, !.bd = {r \in @ : r[1] # e.i}, !.ap = {r \in @ : r[1] # e.i},
                        !.aa = {r \in @ : r[2] # e.i}]                        \* "deletes all references"
    [] e.op = "n_translate_rotate" -> [n EXCEPT !.ap = MoveAll(@, e.t), !.lp = MoveAll(@, e.t)]
    [] e.op = "s_erase" -> [n EXCEPT !.L = {}, !.A = {}, !.aa = {}, !.bd = {}, !.ap = {}, !.lp = {}]
    [] OTHER -> n

(* first component in which the logged network p differs from the expected x ("" if none) *)
Diff(p, x) ==
  IF p.L # x.L THEN "lanelets"
  ELSE IF p.A # x.A THEN "areas"
  ELSE IF p.aa # x.aa THEN (IF \E r \in p.aa \ x.aa : r[2] \notin AIds(p) THEN "lanelet-refers-to-absent-area"
                            ELSE "lanelet-area-refs")
  ELSE IF p.bd # x.bd THEN (IF \E r \in p.bd \ x.bd : r[2] \notin p.L THEN "border-refers-to-absent-lanelet"
                            ELSE "border-lanelet-refs")
  ELSE IF p.ap # x.ap THEN "area-border-vertices"
  ELSE IF p.lp # x.lp THEN "lanelet-vertices"
  ELSE ""
Effect(name, n, e) == LET d == Diff(Snap(e.post), ExpNet(n, e)) IN IF d = "" THEN "" ELSE "X07." \o name \o "/" \o d
Unchanged(name, n, e) == LET d == Diff(Snap(e.post), n) IN IF d = "" THEN "" ELSE "X07." \o name \o "/changes-" \o d

(* create_from_lanelet_network(network, exclude_lanelet_types / shape, cleanup_ids): "Creates a lanelet network  *)
(* from a given lanelet network (copy)"; keep = lanelets that stay; "cleanup_ids: whether unused IDs should be   *)
(* deleted".  An area referenced by a remaining lanelet stays; an area no remaining lanelet refers to may stay   *)
(* or go (silent, as for signs and lights in C10).                                                              *)
CutClause(n, e) ==
  LET r == Snap(e.cut)
      K == ToSet(e.keep) \cap n.L
      must == {a \in n.A : \E l \in K : <<l, a[1]>> \in n.aa}
  IN IF Unchanged("Cut", n, e) # "" THEN Unchanged("Cut", n, e)                         \* the original is not touched
     ELSE IF e.res # "ok" THEN (IF \E l \in K : ~(AreaRefs(n, l) \subseteq AIds(n)) THEN ""    \* silent: a remaining lanelet refers to an absent area
                               ELSE "X07.Cut/raises")
     ELSE IF r.L # K THEN "X07.Cut/lanelets"
     ELSE IF ~(must \subseteq r.A) THEN "X07.Cut/referenced-area-lost"
     ELSE IF ~(r.A \subseteq n.A) THEN "X07.Cut/area-invented"
     ELSE IF \E l \in K : ~(AreaRefs(n, l) \cap AIds(n) \subseteq AreaRefs(r, l) /\ AreaRefs(r, l) \subseteq AreaRefs(n, l))
          THEN "X07.Cut/lanelet-area-refs"
     ELSE IF ~(r.bd \subseteq {q \in n.bd : q[1] \in AIds(r)}) THEN "X07.Cut/border-refs-invented"
     ELSE IF ~({q \in n.bd : q[1] \in AIds(r) /\ q[2] \in K} \subseteq r.bd) THEN "X07.Cut/border-refs-lost"
     ELSE IF e.cleanup = 1 /\ \E q \in r.bd : q[2] \notin K THEN "X07.CutNoDangling/border-refers-to-absent-lanelet"
     ELSE IF r.ap # {q \in n.ap : q[1] \in AIds(r)} THEN "X07.Cut/area-border-vertices"
     ELSE IF e.shared > 0 THEN "X07.CutCopy/shared-area-object"                        \* "(copy)"
     ELSE ""

NClause(n, e) ==
  CASE e.op = "n_add_lanelet" ->           \* via "net": add_lanelet returns True / False; via "scen": add_objects raises ValueError
         LET want == IF e.via = "net" THEN (IF e.i \in n.L THEN "F" ELSE "T") ELSE (IF e.i \in n.L THEN "ValueError" ELSE "ok")
         IN IF e.res # want THEN "X07.AddLanelet/result" ELSE Effect("AddLanelet", n, e)
    [] e.op = "n_remove_lanelet" ->
         IF e.i \notin n.L THEN (IF e.res = "ok" THEN Effect("RemoveLanelet", n, e) ELSE Unchanged("RemoveLanelet", n, e))   \* silent
         ELSE IF e.res # "ok" THEN "X07.RemoveLanelet/raises" ELSE Effect("RemoveLanelet", n, e)
    [] e.op = "n_add_area" ->
         IF e.res # (IF e.a[1] \in AIds(n) THEN "F" ELSE "T")
         THEN (IF e.a[1] \in AIds(n) THEN "X07.AddArea/duplicate-id-not-refused" ELSE "X07.AddArea/fresh-id-refused")
         ELSE Effect("AddArea", n, e)
    [] e.op = "n_remove_area" ->
         IF e.i \notin AIds(n) THEN (IF e.res = "ok" THEN Effect("RemoveArea", n, e) ELSE Unchanged("RemoveArea", n, e))       \* silent
         ELSE IF e.res # "ok" THEN "X07.RemoveArea/raises" ELSE Effect("RemoveArea", n, e)
    [] e.op = "n_find_area" ->               \* "The area object if the id exists and None otherwise"
         IF Unchanged("FindArea", n, e) # "" THEN Unchanged("FindArea", n, e)
         ELSE IF e.i < 0 THEN (IF e.res = "ok" /\ e.found # <<>> THEN "X07.FindArea/invented" ELSE "")     \* silent: assert or None
         ELSE IF e.res # "ok" THEN "X07.FindArea/raises"
         ELSE IF e.i \in AIds(n)
         THEN (IF e.found = <<>> THEN "X07.FindArea/contained-not-found"
               ELSE IF <<e.found[1], e.found[2]>> \notin n.A \/ e.found[1] # e.i \/ e.same # 1 THEN "X07.FindArea/other-object" ELSE "")
         ELSE IF e.found # <<>> THEN "X07.FindArea/absent-found" ELSE ""
    [] e.op = "n_areas" ->                   \* "List of areas of the lanelet network."
         IF Unchanged("Areas", n, e) # "" THEN Unchanged("Areas", n, e)
         ELSE IF e.res # "ok" THEN "X07.Areas/raises"
         ELSE IF ToSet(e.list) # n.A \/ Len(e.list) # Cardinality(n.A) THEN "X07.Areas/contents" ELSE ""
    [] e.op = "n_translate_rotate" ->
         IF e.res # "ok" THEN "X07.Transform/raises" ELSE IF e.exact # 1 THEN "X07.Transform/off-grid" ELSE Effect("Transform", n, e)
    [] e.op = "n_cut" -> CutClause(n, e)
    [] e.op = "s_adopt" ->                   \* Scenario.add_objects(network): the network becomes the scenario's network
         IF e.res # "ok" THEN "X07.Adopt/raises" ELSE Unchanged("Adopt", n, e)
    [] e.op = "s_add_area" ->                \* add_objects: "a value error is raised if the type of scenario_object is invalid";
                                             \* Area is not among the listed types.  A version that supports it must add it.
         IF e.res = "ok" THEN Effect("ScenarioAddArea", n, [e EXCEPT !.op = "n_add_area"])
         ELSE IF e.res # "ValueError" THEN "X07.ScenarioAddArea/other-exception"
         ELSE Unchanged("ScenarioAddArea", n, e)
    [] e.op = "s_gen" ->                     \* "Generates a unique ID which is not assigned to any object in the scenario."
         IF Unchanged("GenFresh", n, e) # "" THEN Unchanged("GenFresh", n, e)
         ELSE IF e.res # "ok" THEN "X07.GenFresh/raises"
         ELSE IF e.id \in n.L THEN "X07.GenFresh/id-of-a-lanelet"
         ELSE IF e.id \in n.reg \cap AIds(n) THEN "X07.GenFresh/id-of-an-area"
         ELSE IF e.id \in n.gen THEN "X07.GenFresh/repeated" ELSE ""          \* silent: areas added behind the scenario's back
    [] e.op = "s_erase" -> IF e.res # "ok" THEN "X07.Erase/raises" ELSE Effect("Erase", n, e)
    [] OTHER -> "machinery/unknown-network-op"

NPost(n, e) ==
  LET p == Snap(e.post)
      host1 == IF e.op = "s_adopt" /\ e.res = "ok" THEN "scen" ELSE n.host
      reg0  == IF e.op = "s_adopt" /\ e.res = "ok" THEN AIds(p)
               ELSE IF e.op = "n_remove_area" THEN n.reg \ {e.i}
               ELSE IF e.op = "s_add_area" /\ e.res = "ok" THEN n.reg \cup {e.a[1]}
               ELSE n.reg
  IN [L |-> p.L, A |-> p.A, aa |-> p.aa, bd |-> p.bd, ap |-> p.ap, lp |-> p.lp, host |-> host1,
      reg |-> reg0 \cap AIds(p), gen |-> IF e.op = "s_gen" /\ e.res = "ok" THEN n.gen \cup {e.id} ELSE n.gen]

(* ========================================================================================== *)
(* 2. validating setters (value-like: one fresh object per event).  Rows <<class, attribute,  *)
(*    value token, class of the value>>: "T" the documented type (accepted, stored), "F"      *)
(*    refused by the documented assertion (value kept), "E" silent.                            *)
(* ========================================================================================== *)
SetterTable == {
  <<"Area", "area_id", "int", "T">>, <<"Area", "area_id", "str", "F">>, <<"Area", "area_id", "float", "F">>,
  <<"Area", "area_id", "None", "F">>, <<"Area", "area_id", "bool", "E">>,
  <<"Area", "border", "borders", "T">>, <<"Area", "border", "empty-list", "T">>, <<"Area", "border", "list-of-int", "F">>,
  <<"Area", "border", "tuple", "F">>, <<"Area", "border", "None", "F">>,
  <<"Area", "area_types", "types", "T">>, <<"Area", "area_types", "empty-set", "T">>, <<"Area", "area_types", "set-of-str", "F">>,
  <<"Area", "area_types", "list", "F">>, <<"Area", "area_types", "None", "F">>,
  <<"AreaBorder", "area_border_id", "int", "T">>, <<"AreaBorder", "area_border_id", "str", "F">>,
  <<"AreaBorder", "area_border_id", "None", "F">>, <<"AreaBorder", "area_border_id", "bool", "E">>,
  <<"AreaBorder", "border_vertices", "poly2", "T">>, <<"AreaBorder", "border_vertices", "poly3", "T">>,
  <<"AreaBorder", "border_vertices", "flat", "F">>, <<"AreaBorder", "border_vertices", "None", "F">>,
  <<"AreaBorder", "border_vertices", "one-point", "E">>, <<"AreaBorder", "border_vertices", "nested-list", "E">>,
  <<"AreaBorder", "adjacent", "ints", "T">>, <<"AreaBorder", "adjacent", "empty-list", "T">>,
  <<"AreaBorder", "adjacent", "list-of-str", "F">>, <<"AreaBorder", "adjacent", "set", "F">>, <<"AreaBorder", "adjacent", "int", "F">>,
  <<"AreaBorder", "adjacent", "None", "E">>,                                  \* the constructor's default is None
  <<"AreaBorder", "line_marking", "marking", "T">>, <<"AreaBorder", "line_marking", "str", "F">>,
  <<"AreaBorder", "line_marking", "None", "E">>,                              \* the constructor's default is None
  <<"Lanelet", "adjacent_areas", "set", "T">>, <<"Lanelet", "adjacent_areas", "empty-set", "T">>,
  <<"Lanelet", "adjacent_areas", "list", "F">>, <<"Lanelet", "adjacent_areas", "None", "F">> }
SetterClass(e) == IF \E r \in SetterTable : r[1] = e.cls /\ r[2] = e.attr /\ r[3] = e.tok
                  THEN (CHOOSE r \in SetterTable : r[1] = e.cls /\ r[2] = e.attr /\ r[3] = e.tok)[4] ELSE "?"
(* event: now = token of the value read back after the call: e.tok (replaced) / "init" (kept) / "other" *)
SClause(e) ==
  LET c == SetterClass(e) IN
  IF c = "?" THEN "machinery/unknown-setter-row"
  ELSE IF e.res = "ok" /\ e.now # e.tok THEN "X07.Setter/accepted-but-not-stored"
  ELSE IF e.res # "ok" /\ e.now # "init" THEN "X07.Setter/refused-but-changed"
  ELSE IF c = "T" /\ e.res # "ok" THEN "X07.Setter/valid-value-refused"
  ELSE IF c = "F" /\ e.res = "ok" THEN "X07.Setter/invalid-value-accepted"
  ELSE ""

(* ========================================================================================== *)
(* 3. Scenario meta data on two live objects "A" and "B".  An object is the record             *)
(*    [live, dt, author, tags, affiliation, source, location, sid] of value tokens;             *)
(*    sid = <<base, n>>: base "def" (the default id), "uA"/"uB" (an id made by the caller for   *)
(*    that object), n = number of convert_to_2d() calls seen by the id ("2D" appended).         *)
(* ========================================================================================== *)
PlainFields == {"author", "tags", "affiliation", "source", "location"}    \* plain attributes: stored as given
MetaFields  == PlainFields \cup {"dt", "sid"}
DtClass(t)  == IF t \in {"float", "int", "npfloat"} THEN "T"              \* "Expected a real number"
               ELSE IF t \in {"str", "None", "list", "complex"} THEN "F"
               ELSE "E"                                                    \* silent: bool, nan, inf, negative, zero
PlainClass(t) == IF t \in {"None", "v1", "v2"} THEN "T" ELSE "E"           \* silent: a value of another type
SidCtorClass(t) == IF t \in {"-", "uA", "uB"} THEN "T" ELSE "F"           \* assert isinstance(scenario_id, ScenarioID)
NoObj == [live |-> 0, dt |-> "-", author |-> "-", tags |-> "-", affiliation |-> "-", source |-> "-", location |-> "-",
          sid |-> <<"-", 0>>]
NoMeta == [A |-> NoObj, B |-> NoObj]
Other(o) == IF o = "A" THEN "B" ELSE "A"
Dflt(g, f) == IF g[f] = "-" THEN "None" ELSE g[f]
NewObj(g) == [live |-> 1, dt |-> g.dt, author |-> Dflt(g, "author"), tags |-> Dflt(g, "tags"),
              affiliation |-> Dflt(g, "affiliation"), source |-> Dflt(g, "source"), location |-> Dflt(g, "location"),
              sid |-> IF g.sid = "-" THEN <<"def", 0>> ELSE <<g.sid, 0>>]
NewClass(g) == IF DtClass(g.dt) = "F" \/ SidCtorClass(g.sid) = "F" THEN "F"
               ELSE IF DtClass(g.dt) = "E" \/ \E f \in PlainFields : g[f] # "-" /\ PlainClass(g[f]) = "E" THEN "E" ELSE "T"
Norm(x) == [live |-> x.live, dt |-> x.dt, author |-> x.author, tags |-> x.tags, affiliation |-> x.affiliation,
            source |-> x.source, location |-> x.location, sid |-> <<x.sid[1], x.sid[2]>>]
ObjDiff(x, y) == IF x.live # y.live THEN "live"
                 ELSE IF \E f \in PlainFields \cup {"dt"} : x[f] # y[f]
                      THEN CHOOSE f \in PlainFields \cup {"dt"} : x[f] # y[f] ELSE IF x.sid # y.sid THEN "scenario_id" ELSE ""
(* the other object is not affected by an operation on o - unless the caller handed the same id object to both *)
OtherOk(m, e) ==
  LET q == Other(e.o)  was == m[q]  is == Norm(e.snap[q]) IN
  IF was = is THEN ""
  ELSE IF was.live = 1 /\ is.live = 1 /\ [was EXCEPT !.sid = is.sid] = is /\ was.sid[1] = m[e.o].sid[1] /\ was.sid[1] # "def"
       THEN ""                                                             \* aliasing created by the caller
  ELSE IF was.live = 1 /\ was.sid[1] = "def" /\ ObjDiff(was, is) = "scenario_id"
       THEN "X07.DefaultsNotShared/default-scenario-id-of-other-scenario-changed"
  ELSE "X07.Isolation/other-scenario-changed/" \o ObjDiff(was, is)
MClause(m, e) ==
  LET now == Norm(e.snap[e.o])  was == m[e.o] IN
  IF OtherOk(m, e) # "" THEN OtherOk(m, e)
  ELSE CASE e.op = "m_new" ->                \* Scenario(dt, scenario_id, author, tags, affiliation, source, location)
         LET c == NewClass(e.given)  x == NewObj(e.given) IN
         IF e.res # "ok" THEN (IF c = "T" THEN "X07.ScenarioNew/valid-arguments-refused" ELSE "")
         ELSE IF c = "F" THEN "X07.ScenarioNew/invalid-arguments-accepted"
         ELSE IF now = x THEN ""
         ELSE IF e.given.sid = "-" /\ ObjDiff(now, x) = "scenario_id" /\ now.sid[1] = "def"
              THEN "X07.DefaultsNotShared/new-scenario-sees-earlier-change-of-default-id"
         ELSE "X07.ScenarioNew/" \o ObjDiff(now, x)
    [] e.op = "m_set" ->                     \* attribute assignment: dt is validated, the others are plain attributes
         LET c == IF e.f = "dt" THEN DtClass(e.tok) ELSE IF e.f = "sid" THEN (IF e.tok \in {"uA", "uB"} THEN "T" ELSE "E")
                  ELSE PlainClass(e.tok)
             x == IF e.f = "sid" THEN [was EXCEPT !.sid = <<e.tok, 0>>] ELSE [was EXCEPT ![e.f] = e.tok]
         IN IF e.res # "ok" THEN (IF c = "T" THEN "X07.ScenarioSet/valid-value-refused"
                                  ELSE IF now # was THEN "X07.ScenarioSet/refused-but-changed/" \o ObjDiff(now, was) ELSE "")
            ELSE IF c = "F" THEN "X07.ScenarioSet/invalid-value-accepted"
            ELSE IF now # x THEN "X07.ScenarioSet/" \o ObjDiff(now, x) ELSE ""
    [] e.op = "m_to2d" ->                    \* convert_to_2d(): "2D" is appended to the current name - of THIS scenario
         IF e.res # "ok" THEN "X07.ConvertTo2d/raises"
         ELSE IF now # [was EXCEPT !.sid = <<was.sid[1], was.sid[2] + 1>>] THEN "X07.ConvertTo2d/" \o ObjDiff(now, was) ELSE ""
    [] e.op = "m_str" ->                     \* str(scenario): a description, never an error
         IF e.res # "ok" THEN "X07.ScenarioStr/raises" ELSE IF now # was THEN "X07.ScenarioStr/mutates" ELSE ""
    [] OTHER -> "machinery/unknown-meta-op"
MPost(m, e) == [A |-> Norm(e.snap.A), B |-> Norm(e.snap.B)]

(* ========================================================================================== *)
(* 4. ScenarioID(cooperative, country_id, map_name, map_id, configuration_id, obstacle_behavior, *)
(*    prediction_id, scenario_version): argument checks.  config = <<>> (None) or <<n>>;          *)
(*    pk/pv = kind ("none", "int", "list") and numbers of prediction_id.                          *)
(* ========================================================================================== *)
SidVersions   == {"2018b", "2020a"}
SidBehaviours == {"S", "T", "P", "I"}
GoodCountries == {"ZAM", "DEU", "USA"}                 \* "ZAM" or an ISO-3166 alpha-3 code
BadCountries  == {"deu", "XYZ", "DE", "GERM"}
SidInvalid(e) == \/ e.ver \notin SidVersions \cup {"-"}                    \* "Scenario_version {} not supported."
                 \/ e.country \in BadCountries                             \* "not in the ISO-3166 three-letter format"
                 \/ e.map_id <= 0                                          \* "Map id <= 0!"
                 \/ (e.config # <<>> /\ e.config[1] <= 0)                  \* "Configuration id <= 0!"
                 \/ e.beh \notin SidBehaviours \cup {"None"}               \* "Unsupported prediction type"
                 \/ (e.pk # "none" /\ e.beh = "None")                      \* "Prediction id was given, but obstacle behavior undefined!"
                 \/ \E i \in DOMAIN e.pv : e.pv[i] <= 0                    \* "Prediction id <= 0!"
SidZeroOnly(e) == ~SidInvalid([e EXCEPT !.config = IF @ = <<0>> THEN <<>> ELSE @,
                                        !.pv = [i \in DOMAIN @ |-> IF @[i] = 0 THEN 1 ELSE @[i]]])
SidSilent(e)  == (e.pk = "list" /\ e.pv = <<>>) \/ e.map = "empty"          \* silent: empty prediction list, empty name
SidCountry(e) == IF e.country \in {"-", "None"} THEN "ZAM" ELSE e.country
IClause(e) ==
  IF SidInvalid(e)
  THEN (IF e.res # "ok" THEN ""
        ELSE IF SidZeroOnly(e) THEN "X07.SidValidate/zero-id-accepted" ELSE "X07.SidValidate/invalid-accepted")
  ELSE IF SidSilent(e) THEN ""
  ELSE IF e.res # "ok" THEN "X07.SidValidate/valid-refused"
  ELSE IF e.out.country # SidCountry(e) THEN "X07.SidFields/country"
  ELSE IF e.out.alnum # 1 THEN "X07.SidFields/map-name-outside-grammar"    \* map names are [a-zA-Z0-9]+
  ELSE IF e.out.map_id # e.map_id THEN "X07.SidFields/map-id"
  ELSE IF e.out.coop # e.coop THEN "X07.SidFields/cooperative" ELSE ""

(* ========================================================================================== *)
(* 5. GeoTransformation, Location, Environment, Time: positional value tokens ("-" = argument *)
(*    not given).  Defaults from the signatures / parameter documentation.                     *)
(* ========================================================================================== *)
HClasses == {"GeoTransformation", "Location", "Environment", "Time"}
HArity   == [GeoTransformation |-> 5, Location |-> 5, Environment |-> 4, Time |-> 5]
(* values acceptable when the argument is absent or None.  GeoTransformation: the signature says None, the      *)
(* identity transformation (0, 0, 0, 1) is the obvious meaning - both accepted                                  *)
HNeutral == [GeoTransformation |-> <<{"None", "0", ""}, {"None", "0"}, {"None", "0"}, {"None", "0"}, {"None", "1"}>>,
             Location |-> <<{"-999"}, {"999"}, {"999"}, {"None"}, {"None"}>>,
             Environment |-> <<{"None"}, {"None"}, {"None"}, {"None"}>>,
             Time |-> <<{}, {}, {"None"}, {"None"}, {"None"}>>]
HAcc(cls, i, tok) == IF tok = "-" THEN HNeutral[cls][i]
                     ELSE IF tok = "None" THEN (IF cls = "GeoTransformation" THEN HNeutral[cls][i] ELSE {"None"})
                     ELSE {tok}
(* Time: "hours (0-24)", "minutes (0-60)", "day (1-31)", "month (1-12)": documented ranges, no promise to check *)
HOutOfRange(cls, i, tok) == cls = "Time" /\ <<i, tok>> \in {<<1, "25">>, <<1, "-1">>, <<2, "61">>, <<2, "-1">>, <<3, "0">>,
                                                           <<3, "32">>, <<4, "0">>, <<4, "13">>}
HClause(h, e) ==
  CASE e.op = "h_new" ->
         IF e.res # "ok" THEN (IF \E i \in DOMAIN e.given : HOutOfRange(e.cls, i, e.given[i]) THEN "" ELSE "X07.HolderNew/raises")
         ELSE IF Len(e.got) # HArity[e.cls] THEN "machinery/holder-arity"
         ELSE IF \E i \in DOMAIN e.got : e.got[i] \notin HAcc(e.cls, i, e.given[i])
              THEN "X07.HolderNew/" \o (IF e.given[CHOOSE i \in DOMAIN e.got : e.got[i] \notin HAcc(e.cls, i, e.given[i])] = "-"
                                         THEN "default" ELSE "stored-value")
         ELSE ""
    [] e.op = "h_set" ->
         IF e.res # "ok" THEN (IF ~HOutOfRange(e.cls, e.i, e.tok) THEN "X07.HolderSet/raises"
                               ELSE IF e.got # h THEN "X07.HolderSet/refused-but-changed" ELSE "")
         ELSE IF e.got[e.i] \notin HAcc(e.cls, e.i, e.tok) THEN "X07.HolderSet/stored-value"
         ELSE IF \E j \in DOMAIN e.got : j # e.i /\ e.got[j] # h[j] THEN "X07.HolderSet/changes-other-attribute"
         ELSE ""
    [] OTHER -> "machinery/unknown-holder-op"

(* ========================================================================================== *)
(* 6. enums.  Tag: the names of scenario_tags.proto; every enum: @enum.unique, the value is    *)
(*    the lower-case name (the spelling used in the files), lookup by value finds the member.   *)
(* ========================================================================================== *)
TagNames == {"INTERSTATE", "URBAN", "HIGHWAY", "COMFORT", "CRITICAL", "EVASIVE", "CUT_IN", "ILLEGAL_CUTIN", "INTERSECTION",
             "LANE_CHANGE", "LANE_FOLLOWING", "MERGING_LANES", "MULTI_LANE", "ONCOMING_TRAFFIC", "NO_ONCOMING_TRAFFIC",
             "PARALLEL_LANES", "RACE_TRACK", "ROUNDABOUT", "RURAL", "SIMULATED", "SINGLE_LANE", "SLIP_ROAD", "SPEED_LIMIT",
             "TRAFFIC_JAM", "TURN_LEFT", "TURN_RIGHT", "TWO_LANE", "EMERGENCY_BRAKING"}
Injective(q) == \A i, j \in DOMAIN q : i # j => q[i] # q[j]
EClause(e) ==
  CASE e.op = "e_table" ->                 \* names, values, lower = lower-cased names
         IF ~Injective(e.names) \/ ~Injective(e.values) THEN "X07.Enum/not-unique"
         ELSE IF e.values # e.lower THEN "X07.Enum/value-is-not-the-lower-case-name"
         ELSE IF e.enum = "Tag" /\ ToSet(e.names) # TagNames THEN "X07.Enum/tag-table-differs-from-definition-file"
         ELSE IF e.enum # "Tag" /\ "UNKNOWN" \notin ToSet(e.names) THEN "X07.Enum/no-unknown-member" ELSE ""
    [] e.op = "e_lookup" ->                \* Enum(value): the member with that value, ValueError otherwise
         IF \E i \in DOMAIN e.values : e.values[i] = e.value
         THEN (IF e.res # e.names[CHOOSE i \in DOMAIN e.values : e.values[i] = e.value] THEN "X07.Enum/lookup" ELSE "")
         ELSE IF e.res # "ValueError" THEN "X07.Enum/unknown-value-accepted" ELSE ""
    [] OTHER -> "machinery/unknown-enum-op"

(* ========================================================================================== *)
NOps == {"n_add_lanelet", "n_remove_lanelet", "n_add_area", "n_remove_area", "n_find_area", "n_areas", "n_translate_rotate",
         "n_cut", "s_adopt", "s_add_area", "s_gen", "s_erase"}
MOps == {"m_new", "m_set", "m_to2d", "m_str"}
HOps == {"h_new", "h_set"}
EOps == {"e_table", "e_lookup"}
Empty == [n |-> EmptyNet, m |-> NoMeta, h |-> <<>>]
Clause(st, e) == CASE e.op \in NOps -> NClause(st.n, e)
                   [] e.op \in MOps -> MClause(st.m, e)
                   [] e.op \in HOps -> HClause(st.h, e)
                   [] e.op \in EOps -> EClause(e)
                   [] e.op = "a_set" -> SClause(e)
                   [] e.op = "i_new" -> IClause(e)
                   [] OTHER -> "machinery/unknown-op"
Post(st, e)   == [n |-> IF e.op \in NOps THEN NPost(st.n, e) ELSE st.n,
                  m |-> IF e.op \in MOps THEN MPost(st.m, e) ELSE st.m,
                  h |-> IF e.op \in HOps THEN e.got ELSE st.h]

(* ---- laws of the contract operators (checked by TLC in MC_AreasMeta) ----------------------- *)
NetOf(n) == [L |-> n.L, A |-> n.A, aa |-> n.aa, bd |-> n.bd, ap |-> n.ap, lp |-> n.lp]
(* removing keeps integrity; removing twice is removing once; four quarter turns about the origin are the identity *)
LawRemoveAreaIntegrity(n, i)    == NoDangling(n) => NoDangling(ExpNet(n, [op |-> "n_remove_area", i |-> i]))
LawRemoveLaneletIntegrity(n, i) == NoDangling(n) => NoDangling(ExpNet(n, [op |-> "n_remove_lanelet", i |-> i]))
LawRemoveIdempotent(n, i) == LET a == [op |-> "n_remove_area", i |-> i]  l == [op |-> "n_remove_lanelet", i |-> i]
                             IN ExpNet(ExpNet(n, a), a) = ExpNet(n, a) /\ ExpNet(ExpNet(n, l), l) = ExpNet(n, l)
LawRemovesCommute(n, i, j) == LET a == [op |-> "n_remove_area", i |-> i]  l == [op |-> "n_remove_lanelet", i |-> j]
                              IN ExpNet(ExpNet(n, a), l) = ExpNet(ExpNet(n, l), a)
LawQuarterTurns(S)        == LET q == <<0, 0, 1>> IN MoveAll(MoveAll(MoveAll(MoveAll(S, q), q), q), q) = S
LawMoveBack(S, t)         == MoveAll(MoveAll(S, <<t[1], t[2], 0>>), <<0 - t[1], 0 - t[2], 0>>) = S
LawSetterTableFunctional  == \A r, s \in SetterTable : (r[1] = s[1] /\ r[2] = s[2] /\ r[3] = s[3]) => r = s
=================================================================================
