-------------------------------- MODULE Assignment --------------------------------
(* C07 - obstacle-lanelet assignment is geometrically correct and invertible.                     *)
(* Functional core.  Lanelets are axis-parallel integer boxes <<x0, y0, x1, y1>>; an obstacle has  *)
(* a kind, a shape and one pose per time step of its horizon; poses are <<cx2, cy2, q>> with the   *)
(* centre in DOUBLED coordinates and q quarter turns.  All sets are closed: a centre on a shared   *)
(* edge lies in both lanelets, a shape touching a lanelet intersects it.                           *)
(*   shape = <<"rect", l, w>> | <<"poly", l, w>> (the same box given as a polygon) | <<"disc", r, 0>> *)
EXTENDS Integers, Sequences, FiniteSets, TLC

Range(q) == {q[i] : i \in DOMAIN q}
Abs(x) == IF x < 0 THEN -x ELSE x
Max2(a, b) == IF a > b THEN a ELSE b

CenterIn(box, p) == 2 * box[1] <= p[1] /\ p[1] <= 2 * box[3] /\ 2 * box[2] <= p[2] /\ p[2] <= 2 * box[4]
Half2(shape, q) == IF q % 2 = 0 THEN <<shape[2], shape[3]>> ELSE <<shape[3], shape[2]>>      \* doubled half sizes = full sizes
Gap2(lo, hi, c) == Max2(Max2(2 * lo - c, c - 2 * hi), 0)                                   \* doubled distance of c to [lo, hi]
(* <<"roff", l, w>>: an l x w rectangle whose own centre is OFFSET by one unit along its length axis from the obstacle's *)
(* reference point (Rectangle(l, w, center=(1, 0))): the occupancy is centred at Anchor, the CENTRE relation still     *)
(* follows the state's position                                                                                        *)
Anchor(shape, p) ==           \* (Rectangle.rotate_translate_local turns the rectangle about ITS OWN centre and then
    IF shape[1] # "roff" THEN p   \*  translates it: the offset itself is not turned with the orientation)
    ELSE <<p[1] + 2, p[2], p[3]>>
ShapeMeets(box, shape, p0) ==
    LET p == Anchor(shape, p0) IN
    IF shape[1] = "disc"
    THEN LET dx == Gap2(box[1], box[3], p[1])  dy == Gap2(box[2], box[4], p[2])
         IN dx * dx + dy * dy <= (2 * shape[2]) * (2 * shape[2])
    ELSE LET h == Half2(shape, p[3])
         IN /\ p[1] - h[1] <= 2 * box[3] /\ 2 * box[1] <= p[1] + h[1]
            /\ p[2] - h[2] <= 2 * box[4] /\ 2 * box[2] <= p[2] + h[2]

(* strict version: the shape meets the INTERIOR of the box (more than boundary contact) *)
ShapeMeetsStrict(box, shape, p0) ==
    LET p == Anchor(shape, p0) IN
    IF shape[1] = "disc"
    THEN LET dx == Gap2(box[1], box[3], p[1])  dy == Gap2(box[2], box[4], p[2])
         IN dx * dx + dy * dy < (2 * shape[2]) * (2 * shape[2])
    ELSE LET h == Half2(shape, p[3])
         IN /\ p[1] - h[1] < 2 * box[3] /\ 2 * box[1] < p[1] + h[1]
            /\ p[2] - h[2] < 2 * box[4] /\ 2 * box[2] < p[2] + h[2]
(* pure boundary contact is decided exactly only for unrotated boxes; any non-zero turn carries ~1e-16 float noise   *)
(* into the vertices and a disc is exported as a polygon, so there contact may go either way (EITHER-band)        *)
ContactExact(shape, p) == shape[1] # "disc" /\ p[3] % 4 = 0

(* lanelets a disc of HALF the radius already meets (used only to name a violation precisely) *)
HalfDiscMeets(box, shape, p) ==
    shape[1] = "disc" /\ LET dx == Gap2(box[1], box[3], p[1])  dy == Gap2(box[2], box[4], p[2])
                         IN dx * dx + dy * dy < shape[2] * shape[2]

(* world: lan: id -> box, LIDs; obstacle o: [kind, shape, t0, poses] with poses[1] the initial pose *)
LastT(o) == o.t0 + Len(o.poses) - 1
PoseAt(o, t) == o.poses[t - o.t0 + 1]
ExpCenter(W, o, t) == {l \in W.L : CenterIn(W.lan[l], PoseAt(o, t))}
ExpShape(W, o, t)  == {l \in W.L : ShapeMeets(W.lan[l], o.shape, PoseAt(o, t))}                    \* closed-set truth (upper bound)
MustHalf(W, o, t)  == {l \in W.L : HalfDiscMeets(W.lan[l], o.shape, PoseAt(o, t))}
MustShape(W, o, t) == {l \in W.L : IF ContactExact(o.shape, PoseAt(o, t)) THEN ShapeMeets(W.lan[l], o.shape, PoseAt(o, t))
                                   ELSE ShapeMeetsStrict(W.lan[l], o.shape, PoseAt(o, t))}
===================================================================================
