------------------------------ MODULE BenchmarkId ------------------------------
(* C13 - benchmark ids print and parse consistently.                               *)
(*                                                                                 *)
(* Functional core, written from the documented id format                          *)
(*     (C-)? COUNTRY _ MAPNAME - MAPID ( _ CONFIGID ( _ BEHAVIOUR (- PREDID)+ )? )? *)
(* (ScenarioID docstring: "C-USA_US101-33_2_T-1"; the regular expression in the    *)
(* class; numbers are positive decimals without leading zero) and from the         *)
(* Solution.benchmark_id docstring                                                 *)
(*     VEHICLES : COSTS : SCENARIOID : VERSION,                                     *)
(*     VEHICLES = PM1 | [PM1,PM3,...],  COSTS = JB1 | [JB1,SA1,...]                 *)
(* NOT from the printing / parsing code.                                           *)
(*                                                                                 *)
(* Text is a TOKEN SEQUENCE.  The lexical classes are purely lexical (the same     *)
(* tokeniser runs on the Python side on the real strings):                         *)
(*   [k |-> "sep",  s |-> c,  n |-> 0]   one non-alphanumeric character            *)
(*   [k |-> "num",  s |-> "", n |-> v]   maximal alphanumeric run matching          *)
(*                                       [1-9][0-9]* (value below 2^31)            *)
(*   [k |-> "up3",  s |-> w,  n |-> 0]   maximal run of exactly three letters A-Z   *)
(*   [k |-> "word", s |-> w,  n |-> 0]   every other maximal alphanumeric run      *)
(* The tokenisation is injective, so equality of token sequences is equality of    *)
(* strings.  TLC never looks inside a word.                                        *)
(*                                                                                 *)
(* A scenario id is the record                                                     *)
(*   [coop : 0/1, country : up3 text, map : TOKEN of the map name, map_id : Nat,   *)
(*    config : <<>> or <<n>>, beh : "None" or a behaviour letter,                  *)
(*    pred : sequence of numbers (<<>> = not given), ver : version text]           *)
(* "one or several prediction ids" is ONE abstract value, the non-empty sequence:  *)
(* whether the caller handed 1 or [1] to the constructor is not part of the id.    *)
EXTENDS Integers, Sequences, FiniteSets, TLC, Json

Behaviours == {"S", "T", "P", "I"}
Versions   == {"2018b", "2020a"}
Models     == {"PM", "ST", "KS", "MB", "KST"}
Types      == 1..4                                   \* FORD_ESCORT, BMW_320i, VW_VANAGON, TRUCK
Costs      == {"JB1", "SA1", "WX1", "SM1", "SM2", "SM3", "MW1", "TR1"}
Supported(m) == IF m = "PM" THEN {"JB1", "WX1", "MW1"} ELSE Costs        \* SupportedCostFunctions
Triples == {x \in {[m |-> mm, t |-> tt, c |-> cc] : mm \in Models, tt \in Types, cc \in Costs} : x.c \in Supported(x.m)}
Vehicles == {[m |-> mm, t |-> tt] : mm \in Models, tt \in Types}

(* ---------------------------------- tokens ---------------------------------- *)
Sep(c)  == [k |-> "sep",  s |-> c,  n |-> 0]
Num(v)  == [k |-> "num",  s |-> "", n |-> v]
Up3(w)  == [k |-> "up3",  s |-> w,  n |-> 0]
Word(w) == [k |-> "word", s |-> w,  n |-> 0]

IsSep(t, c)  == t.k = "sep" /\ t.s = c
IsNum(t)     == t.k = "num"
IsC(t)       == t.k = "word" /\ t.s = "C"
IsCountry(t) == t.k = "up3"                          \* [A-Z]{3}
IsName(t)    == t.k \in {"word", "up3", "num"}       \* [a-zA-Z0-9]+ : any maximal alphanumeric run
IsBeh(t)     == t.k = "word" /\ t.s \in Behaviours
IsText(t)    == t.k \in {"word", "up3"}

(* ------------------------------- scenario ids ------------------------------- *)
Valid(id) ==
  /\ id.coop \in {0, 1}
  /\ IsName(id.map)
  /\ id.map_id > 0
  /\ Len(id.config) <= 1 /\ \A i \in 1..Len(id.config) : id.config[i] > 0
  /\ id.beh \in Behaviours \cup {"None"}
  /\ \A i \in 1..Len(id.pred) : id.pred[i] > 0
  /\ (id.pred # <<>> => id.beh # "None")             \* a prediction id needs an obstacle behaviour
  /\ id.ver \in Versions

(* the parts the format forces: a behaviour segment needs a configuration segment in front of it and at
   least one prediction number behind it; the constructor fills in 1 for both *)
Normalize(id) ==
  LET isMap   == id.config = <<>> /\ id.beh = "None" /\ id.pred = <<>>
      hasPred == id.beh # "None" \/ id.pred # <<>>
  IN [id EXCEPT !.config = IF ~isMap /\ id.config = <<>> THEN <<1>> ELSE @,
                !.pred   = IF hasPred /\ id.pred = <<>> THEN <<1>> ELSE @]

RECURSIVE PredToks(_, _)
PredToks(p, i) == IF i > Len(p) THEN <<>> ELSE <<Sep("-"), Num(p[i])>> \o PredToks(p, i + 1)

Render(id) ==                                        \* id normalised
  (IF id.coop = 1 THEN <<Word("C"), Sep("-")>> ELSE <<>>)
  \o <<Up3(id.country), Sep("_"), id.map, Sep("-"), Num(id.map_id)>>
  \o (IF id.config # <<>> THEN <<Sep("_"), Num(id.config[1])>> ELSE <<>>)
  \o (IF id.beh # "None" THEN <<Sep("_"), Word(id.beh)>> \o PredToks(id.pred, 1) ELSE <<>>)
PrintId(id) == Render(Normalize(id))                \* "Print(id)" of the design; the name Print belongs to the TLC module

(* history dimension: a ScenarioID is a mutable object with public fields.  Assigning ONE field the value it has in
   another id b gives the id below; the printed text of the object is PrintId of THIS record - the specification
   has no memory of what was printed before.  Only assignments whose result is a valid id with nothing left to
   default are in the quantifier (an assignment bypasses the constructor). *)
FieldNames == {"coop", "country", "map", "map_id", "config", "beh", "pred", "ver"}
After(f, fld, b) == [Normalize(f) EXCEPT ![fld] = Normalize(b)[fld]]
ValidSet(f, fld, b) == /\ fld \in FieldNames /\ Valid(f) /\ Valid(b)
                       /\ LET a == After(f, fld, b) IN Valid(a) /\ Normalize(a) = a

(* the id grammar as a nondeterministic automaton over token classes *)
Match(cls, t) ==
  CASE cls = "C"       -> IsC(t)
    [] cls = "dash"    -> IsSep(t, "-")
    [] cls = "us"      -> IsSep(t, "_")
    [] cls = "country" -> IsCountry(t)
    [] cls = "name"    -> IsName(t)
    [] cls = "num"     -> IsNum(t)
    [] cls = "beh"     -> IsBeh(t)
IdGrammar ==
  [start |-> {0}, final |-> {7, 9, 13},
   delta |-> { <<0, "C", 1>>, <<1, "dash", 2>>, <<0, "country", 3>>, <<2, "country", 3>>,        \* (C-)? COUNTRY
               <<3, "us", 4>>, <<4, "name", 5>>, <<5, "dash", 6>>, <<6, "num", 7>>,              \* _MAPNAME-MAPID
               <<7, "us", 8>>, <<8, "num", 9>>,                                                  \* (_CONFIGID
               <<9, "us", 10>>, <<10, "beh", 11>>, <<11, "dash", 12>>, <<12, "num", 13>>,        \*   (_BEHAVIOUR-PREDID
               <<13, "dash", 12>> }]                                                             \*     (-PREDID)* )? )?
RECURSIVE RunNFA(_, _, _, _)
RunNFA(G, S, toks, i) ==
  IF i > Len(toks) \/ S = {} THEN S
  ELSE RunNFA(G, {d[3] : d \in {e \in G.delta : e[1] \in S /\ Match(e[2], toks[i])}}, toks, i + 1)
Accepts(G, toks) == RunNFA(G, G.start, toks, 1) \cap G.final # {}

(* the parser: a deterministic automaton with registers, one CASE arm per arrow of the format *)
EmptyId(ver) == [coop |-> 0, country |-> "", map |-> Word(""), map_id |-> 0, config |-> <<>>, beh |-> "None",
                 pred |-> <<>>, ver |-> ver]
PStep(st, t) ==
  CASE st.q = 0 /\ IsC(t)                  -> [st EXCEPT !.q = 1]
    [] st.q = 1 /\ IsSep(t, "-")           -> [st EXCEPT !.q = 2, !.id.coop = 1]
    [] st.q \in {0, 2} /\ IsCountry(t)     -> [st EXCEPT !.q = 3, !.id.country = t.s]
    [] st.q = 3 /\ IsSep(t, "_")           -> [st EXCEPT !.q = 4]
    [] st.q = 4 /\ IsName(t)               -> [st EXCEPT !.q = 5, !.id.map = t]
    [] st.q = 5 /\ IsSep(t, "-")           -> [st EXCEPT !.q = 6]
    [] st.q = 6 /\ IsNum(t)                -> [st EXCEPT !.q = 7, !.id.map_id = t.n]
    [] st.q = 7 /\ IsSep(t, "_")           -> [st EXCEPT !.q = 8]
    [] st.q = 8 /\ IsNum(t)                -> [st EXCEPT !.q = 9, !.id.config = <<t.n>>]
    [] st.q = 9 /\ IsSep(t, "_")           -> [st EXCEPT !.q = 10]
    [] st.q = 10 /\ IsBeh(t)               -> [st EXCEPT !.q = 11, !.id.beh = t.s]
    [] st.q \in {11, 13} /\ IsSep(t, "-")  -> [st EXCEPT !.q = 12]
    [] st.q = 12 /\ IsNum(t)               -> [st EXCEPT !.q = 13, !.id.pred = Append(@, t.n)]
    [] OTHER                               -> [st EXCEPT !.q = -1]
RECURSIVE PRun(_, _, _)
PRun(st, toks, i) == IF i > Len(toks) THEN st ELSE PRun(PStep(st, toks[i]), toks, i + 1)
Parse(toks, ver) ==
  LET st == PRun([q |-> 0, id |-> EmptyId(ver)], toks, 1)
  IN [ok |-> IF st.q \in {7, 9, 13} THEN 1 ELSE 0, id |-> st.id]

SameId(a, b) == /\ a.coop = b.coop /\ a.country = b.country /\ a.map = b.map /\ a.map_id = b.map_id
                /\ a.config = b.config /\ a.beh = b.beh /\ a.pred = b.pred /\ a.ver = b.ver

(* ------------------------------- solution ids ------------------------------- *)
(* a solution id: [vs |-> <<[m, t], ...>>, cs |-> <<cost, ...>>, pp |-> <<planning problem id, ...>>, f |-> scenario id];
   the version is f.ver.  Position i of vs / cs / pp is the i-th planning problem solution: the lists of the text are
   POSITIONAL, the i-th vehicle id and the i-th cost id belong to the i-th planning problem solution, which is the
   i-th trajectory node of a written document.  pp is not printed. *)
VehWord(v) == v.m \o ToString(v.t)                   \* "PM" and 1 -> "PM1"
ValidSol(s) == /\ Len(s.vs) >= 1 /\ Len(s.cs) = Len(s.vs) /\ Valid(s.f)
               /\ Len(s.pp) = Len(s.vs) /\ \A i, j \in 1..Len(s.pp) : s.pp[i] >= 0 /\ (i # j => s.pp[i] # s.pp[j])
               /\ \A i \in 1..Len(s.vs) : s.vs[i] \in Vehicles /\ s.cs[i] \in Supported(s.vs[i].m)
NormalizeSol(s) == [s EXCEPT !.f = Normalize(@)]

RECURSIVE CommaJoin(_, _)
CommaJoin(ws, i) == IF i > Len(ws) THEN <<>>
                    ELSE (IF i > 1 THEN <<Sep(",")>> ELSE <<>>) \o <<Word(ws[i])>> \o CommaJoin(ws, i + 1)
ListToks(ws) == IF Len(ws) = 1 THEN <<Word(ws[1])>> ELSE <<Sep("[")>> \o CommaJoin(ws, 1) \o <<Sep("]")>>
PrintSol(s) ==
  ListToks([i \in 1..Len(s.vs) |-> VehWord(s.vs[i])]) \o <<Sep(":")>> \o ListToks(s.cs) \o <<Sep(":")>>
  \o PrintId(s.f) \o <<Sep(":"), Word(s.f.ver)>>

RECURSIVE SplitAt(_, _, _, _)
SplitAt(toks, i, cur, acc) ==                        \* segments between the ':' tokens
  IF i > Len(toks) THEN Append(acc, cur)
  ELSE IF IsSep(toks[i], ":") THEN SplitAt(toks, i + 1, <<>>, Append(acc, cur))
  ELSE SplitAt(toks, i + 1, Append(cur, toks[i]), acc)
Segments(toks) == SplitAt(toks, 1, <<>>, <<>>)
(* LIST = text | '[' text (',' text)+ ']' *)
ListOk(seg) ==
  \/ Len(seg) = 1 /\ IsText(seg[1])
  \/ /\ Len(seg) >= 5 /\ Len(seg) % 2 = 1 /\ IsSep(seg[1], "[") /\ IsSep(seg[Len(seg)], "]")
     /\ \A j \in 2..Len(seg) - 1 : IF j % 2 = 0 THEN IsText(seg[j]) ELSE IsSep(seg[j], ",")
ListOf(seg) == IF Len(seg) = 1 THEN <<seg[1].s>> ELSE [j \in 1..(Len(seg) - 1) \div 2 |-> seg[2 * j].s]
AcceptsSol(toks) ==
  LET g == Segments(toks)
  IN /\ Len(g) = 4 /\ ListOk(g[1]) /\ ListOk(g[2]) /\ Accepts(IdGrammar, g[3])
     /\ Len(g[4]) = 1 /\ IsText(g[4][1])
VehTable == [v \in Vehicles |-> VehWord(v)]          \* the vehicle-id table: the parser looks words up, it never splits them
VehWords == {VehTable[v] : v \in Vehicles}
KnownVeh(w) == w \in VehWords
VehOf(w) == CHOOSE v \in Vehicles : VehTable[v] = w
ParseSol(toks) ==
  IF ~AcceptsSol(toks) THEN [ok |-> 0]
  ELSE LET g  == Segments(toks)
           vw == ListOf(g[1])
           cw == ListOf(g[2])
       IN IF Len(vw) # Len(cw) \/ (\E i \in 1..Len(vw) : ~KnownVeh(vw[i])) \/ (\E i \in 1..Len(cw) : cw[i] \notin Costs)
          THEN [ok |-> 0]
          ELSE [ok |-> 1, sol |-> [vs |-> [i \in 1..Len(vw) |-> VehOf(vw[i])], cs |-> cw,
                                   f |-> Parse(g[3], g[4][1].s).id]]
SameSol(a, b) == a.vs = b.vs /\ a.cs = b.cs /\ SameId(a.f, b.f)

(* ---- which planning problem a vehicle / cost id belongs to ---- *)
IsPermOf(a, b) == /\ Len(a) = Len(b) /\ {a[i] : i \in 1..Len(a)} = {b[i] : i \in 1..Len(b)}
                  /\ \A i, j \in 1..Len(a) : i # j => a[i] # a[j]
IndexOf(seq, x) == CHOOSE j \in 1..Len(seq) : seq[j] = x
(* the same solution with its planning problem solutions listed in the order ord (a permutation of s.pp) *)
Arrange(s, ord) == [vs |-> [i \in 1..Len(ord) |-> s.vs[IndexOf(s.pp, ord[i])]],
                    cs |-> [i \in 1..Len(ord) |-> s.cs[IndexOf(s.pp, ord[i])]], pp |-> ord, f |-> s.f]
Assignment(vs, cs, pp) == {<<pp[i], vs[i].m, vs[i].t, cs[i]>> : i \in 1..Len(pp)}     \* planning problem -> (model, type, cost)
(* toks is a solution id whose i-th vehicle / cost id is the one solution s gives the planning problem nodes[i] *)
AlignedText(s, toks, nodes) ==
  LET p == ParseSol(toks)
  IN /\ p.ok = 1 /\ IsPermOf(nodes, s.pp) /\ Len(p.sol.vs) = Len(nodes)
     /\ \A i \in 1..Len(nodes) : LET j == IndexOf(s.pp, nodes[i]) IN p.sol.vs[i] = s.vs[j] /\ p.sol.cs[i] = s.cs[j]
(* a written document: the id text plus one trajectory node per planning problem solution (its planning problem id and
   its trajectory type = the vehicle model whose states it holds); reading pairs the i-th ids with the i-th node and
   refuses a model that does not fit the node's trajectory type *)
Doc(s, text) == [bid |-> text, nodes |-> s.pp, tt |-> [i \in 1..Len(s.vs) |-> s.vs[i].m]]
ReadDoc(d) ==
  LET p == ParseSol(d.bid)
  IN IF p.ok = 0 THEN [ok |-> 0]
     ELSE IF Len(p.sol.vs) # Len(d.nodes) \/ (\E i \in 1..Len(d.nodes) : p.sol.vs[i].m # d.tt[i]) THEN [ok |-> 0]
     ELSE [ok |-> 1, sol |-> [vs |-> p.sol.vs, cs |-> p.sol.cs, pp |-> d.nodes, f |-> p.sol.f]]

(* parse - mutate - parse: parsing is a function of the text alone.  Whatever is done to the id an earlier parse of
   the text returned (here: one field assigned), parsing the same text again gives the id of the text: it equals
   Normalize(f), prints as the text, and differs from the mutated first result. *)
ReparseLaw(f, fld, b) ==
  LET x  == PrintId(f)
      p1 == Parse(x, f.ver).id
      m  == [p1 EXCEPT ![fld] = Normalize(b)[fld]]             \* the first result after the assignment
      p2 == Parse(x, f.ver).id
  IN p2 = Normalize(f) /\ PrintId(p2) = x /\ (m # p1 => p2 # m)

(* ---- laws checked by TLC on the specification itself ---- *)
GrammarLaw(id)   == Accepts(IdGrammar, PrintId(id))
GrammarTight(id) == ~Accepts(IdGrammar, Tail(PrintId(id))) /\ ~Accepts(IdGrammar, PrintId(id) \o <<Sep("-")>>)
                    /\ ~Accepts(IdGrammar, PrintId(id) \o <<Num(1)>>)
ParseLaw(id)     == LET p == Parse(PrintId(id), id.ver) IN p.ok = 1 /\ p.id = Normalize(id)
ReprintLaw(id)   == PrintId(Parse(PrintId(id), id.ver).id) = PrintId(id)
NormalLaw(id)    == Valid(Normalize(id)) /\ Normalize(Normalize(id)) = Normalize(id)
SolGrammarLaw(s) == AcceptsSol(PrintSol(s))
SolParseLaw(s)   == LET p == ParseSol(PrintSol(s)) IN p.ok = 1 /\ SameSol(p.sol, NormalizeSol(s))
SolReprintLaw(s) == PrintSol(ParseSol(PrintSol(s)).sol) = PrintSol(s)
SolLaws(s)       == LET t == PrintSol(s)               \* the three solution laws with the printed text shared
                        p == ParseSol(t)               \* (used for the large thorough scope)
                    IN AcceptsSol(t) /\ p.ok = 1 /\ SameSol(p.sol, NormalizeSol(s)) /\ PrintSol(p.sol) = t
(* text = the id printed for s (PrintSol(s) on the specification): aligned with the planning problems, and a
   document written with it reads back with every planning problem keeping its (model, type, cost) *)
SolAlignLaw(s, text) == /\ AlignedText(s, text, s.pp)
                        /\ LET r == ReadDoc(Doc(s, text))
                           IN r.ok = 1 /\ Assignment(r.sol.vs, r.sol.cs, r.sol.pp) = Assignment(s.vs, s.cs, s.pp)
(* rejected assignment: an assignment that raises has no effect.  before / after = the id (normalised) before the
   attempt and after the exception was caught: the same id, the same text, still round-tripping.  An assignment of
   an invalid value that does NOT raise is outside the statement (it is about valid ids): no obligation. *)
RejectAtomicLaw(before, after) == SameId(after, before) /\ PrintId(after) = PrintId(before) /\ ParseLaw(after)
=================================================================================
