---------------------------------- MODULE Cache ----------------------------------
(* C11 - derived data never goes stale under mutation.                                          *)
(* Functional core of the CONTRACT: primary data only, no caches.  Every query answer is        *)
(* Recompute(primary).  Geometry lives on the integer lattice and rotations are quarter turns,  *)
(* so every expected answer is exact:                                                           *)
(*   pose   = <<x, y, q>>   position (x, y), orientation q * pi/2 (q in 0..3)                   *)
(*   shape  = <<l, w>>      rectangle length x width (integers)                                 *)
(*   ring   = sequence of integer points (lanelet polygon: right boundary then reversed left)  *)
(* Occupancy vertices are reported in DOUBLED coordinates (corners of odd-sized boxes are       *)
(* half-integers).                                                                              *)
EXTENDS Integers, Sequences, FiniteSets, TLC

TL == INSTANCE TrafficLight WITH MaxElems <- 3, MaxDur <- 3, MaxOff <- 3, Colors <- {"red", "green", "yellow"}, Periods <- 1

Range(q) == {q[i] : i \in DOMAIN q}
Rot(q, p) == CASE q % 4 = 0 -> p
               [] q % 4 = 1 -> <<-p[2], p[1]>>
               [] q % 4 = 2 -> <<-p[1], -p[2]>>
               [] q % 4 = 3 -> <<p[2], -p[1]>>
Move(m, p)     == Rot(m.q, <<p[1] + m.tx, p[2] + m.ty>>)            \* translate, then rotate about the origin
MovePose(m, s) == LET p == Move(m, <<s[1], s[2]>>) IN <<p[1], p[2], (s[3] + m.q) % 4>>
MoveSeq(m, S)  == [i \in DOMAIN S |-> Move(m, S[i])]
MovePoses(m, S) == [i \in DOMAIN S |-> MovePose(m, S[i])]

(* ---- primary data ---------------------------------------------------------------------------------- *)
(* ob: has (1 = trajectory prediction present), init pose, t0 initial time step, traj poses for t0+1.., *)
(*     shp obstacle shape, pshp prediction shape, hist previous initial poses (oldest first)            *)
(* net: [L |-> set of lanelet ids, ring |-> [id -> ring], len |-> [id -> center line length]]           *)
(* lgt: [cyc |-> sequence of [d, c], off |-> offset]                                                    *)

(* ---- queries, recomputed from primary data --------------------------------------------------------- *)
BoxCorners2(pose, shp) ==      \* doubled coordinates of the corners of the l x w box at the pose
    {LET d == Rot(pose[3], <<sx * shp[1], sy * shp[2]>>) IN <<2 * pose[1] + d[1], 2 * pose[2] + d[2]>> :
        sx \in {-1, 1}, sy \in {-1, 1}}
LastT(ob) == IF ob.has = 1 THEN ob.t0 + Len(ob.traj) ELSE ob.t0
PoseAt(ob, t) == IF t = ob.t0 THEN ob.init ELSE ob.traj[t - ob.t0]
InHorizon(ob, t) == ob.t0 <= t /\ t <= LastT(ob)
OccAt(ob, t)   == IF ~InHorizon(ob, t) THEN {} ELSE BoxCorners2(PoseAt(ob, t), IF t = ob.t0 THEN ob.shp ELSE ob.pshp)
StateAt(ob, t) == IF ~InHorizon(ob, t) THEN <<>> ELSE PoseAt(ob, t)

MinC(S, k) == CHOOSE v \in {p[k] : p \in S} : \A p \in S : v <= p[k]
MaxC(S, k) == CHOOSE v \in {p[k] : p \in S} : \A p \in S : v >= p[k]
(* lanelets stay axis-parallel boxes under quarter turns: containment / intersection are bounding-box tests (closed sets) *)
InRing2(ring, p2) ==           \* p2 in doubled coordinates
    LET S == Range(ring) IN /\ 2 * MinC(S, 1) <= p2[1] /\ p2[1] <= 2 * MaxC(S, 1)
                            /\ 2 * MinC(S, 2) <= p2[2] /\ p2[2] <= 2 * MaxC(S, 2)
BoxMeets2(ring, c2, h2) ==     \* axis-parallel query box with centre c2 (doubled) and half sizes h2 (doubled)
    LET S == Range(ring) IN /\ c2[1] - h2[1] <= 2 * MaxC(S, 1) /\ 2 * MinC(S, 1) <= c2[1] + h2[1]
                            /\ c2[2] - h2[2] <= 2 * MaxC(S, 2) /\ 2 * MinC(S, 2) <= c2[2] + h2[2]
(* strict versions: the point / box meets the interior (positive-area overlap).  Pure boundary contact is an      *)
(* EITHER-band here: after a quarter turn the float coordinates carry ~1e-16 noise, so touching may go either way   *)
(* (exact boundary semantics on unrotated lattices is the business of C06).                                         *)
InRingStrict2(ring, p2) ==
    LET S == Range(ring) IN /\ 2 * MinC(S, 1) < p2[1] /\ p2[1] < 2 * MaxC(S, 1)
                            /\ 2 * MinC(S, 2) < p2[2] /\ p2[2] < 2 * MaxC(S, 2)
BoxMeetsStrict2(ring, c2, h2) ==
    LET S == Range(ring) IN /\ c2[1] - h2[1] < 2 * MaxC(S, 1) /\ 2 * MinC(S, 1) < c2[1] + h2[1]
                            /\ c2[2] - h2[2] < 2 * MaxC(S, 2) /\ 2 * MinC(S, 2) < c2[2] + h2[2]
MustByPos(net, p2)        == {i \in net.L : InRingStrict2(net.ring[i], p2)}
MustByShape(net, c2, h2)  == {i \in net.L : BoxMeetsStrict2(net.ring[i], c2, h2)}
FindByPos(net, p2)        == {i \in net.L : InRing2(net.ring[i], p2)}
FindByShape(net, c2, h2)  == {i \in net.L : BoxMeets2(net.ring[i], c2, h2)}
LightAt(lgt, t) == TL!StateAt(lgt.cyc, lgt.off, t)

(* ---- history contract of update_initial_state ------------------------------------------------------- *)
LastN(s, n) == IF Len(s) <= n THEN s ELSE SubSeq(s, Len(s) - n + 1, Len(s))
HistAfter(ob, maxh) == LastN(Append(ob.hist, ob.init), maxh)

(* ---- mutators on primary data (used by the model; trace validation adopts the logged primary data) -- *)
MoveOb(m, ob, withInit) ==
    [ob EXCEPT !.init = IF withInit THEN MovePose(m, @) ELSE @, !.traj = MovePoses(m, @)]
MoveNet(m, net, ids) == [net EXCEPT !.ring = [i \in DOMAIN net.ring |-> IF i \in ids THEN MoveSeq(m, @[i]) ELSE @[i]]]
===================================================================================
