------------------------------ MODULE Codec ------------------------------
(* C01 / C02 / C03 - the scenario file formats (XML 2020a, protobuf) as a CONTRACT over scenario DESCRIPTORS.   *)
(*                                                                                                            *)
(* Functional core, no variables.  Written from the property statements, the shipped XSD (Xsd2020a.tla) and   *)
(* the shipped .proto files - not from the reader / writer code.                                              *)
(*                                                                                                            *)
(* A descriptor is a record of component descriptors                                                          *)
(*    [hdr, lanelets, signs, lights, inters, obstacles, pps]                                                  *)
(* whose leaves are TOKENS: enumeration member NAMES, booleans 0/1, ids, presence (sequences of length 0/1),  *)
(* value kinds (exact / interval / region), time steps and NUMBER TOKENS (NumToks; the harness maps a token   *)
(* to a concrete float from a fixed table).  Fields named `g` only steer the concretisation (e.g. pass None   *)
(* instead of an empty set) and are not content.                                                              *)
(*                                                                                                            *)
(* Content is compared as LEAVES: Leaves(desc) is the sequence of <<kind, key, path, value>> (all strings) a   *)
(* scenario exposes through its public accessors, in a fixed traversal order; the harness computes the same   *)
(* sequence from real objects (alpha).  A real-valued leaf has value "r" ("r0": the documented default 0 of    *)
(* an initial state); in a read-back projection it carries the closeness class instead.                       *)
(*    XmlCarried / PbCarried(leaf)   which leaves the format has an element / attribute / field for           *)
(*    XmlExpressible / PbExpressible what the schema / the .proto enums can express (the quantifier)          *)
(*    ReadBack(desc)                 expected descriptor after write -> read (reader default of initial states) *)
(*    Expected(fmt, desc)            = carried leaves of ReadBack(desc)                                        *)
(*    MatchStateClass / Populated    which attributes a read-back state populates                             *)
(*    AbstractDoc(desc)              the XML document (element entries of Xsd2020a) the contract demands       *)
EXTENDS Xsd2020a

Range(s) == {s[i] : i \in DOMAIN s}
RECURSIVE Cat(_)
Cat(ss) == IF ss = <<>> THEN <<>> ELSE Head(ss) \o Cat(Tail(ss))                 \* flatten one level
Map(s, Op(_)) == [i \in DOMAIN s |-> Op(s[i])]
MapI(s, Op(_, _)) == [i \in DOMAIN s |-> Op(s[i], i)]
RECURSIVE JoinS(_, _)
JoinS(s, sep) == IF s = <<>> THEN "" ELSE IF Len(s) = 1 THEN s[1] ELSE s[1] \o sep \o JoinS(Tail(s), sep)
B(x) == IF x THEN "1" ELSE "0"
I2S(i) == ToString(i)

(* ------------------------------ enumerations: <<member NAME, xml value>> in master order ------------------ *)
LineMarkingT == << <<"DASHED", "dashed">>, <<"SOLID", "solid">>, <<"SOLID_SOLID", "solid_solid">>,
                   <<"DASHED_DASHED", "dashed_dashed">>, <<"SOLID_DASHED", "solid_dashed">>,
                   <<"DASHED_SOLID", "dashed_solid">>, <<"CURB", "curb">>, <<"LOWERED_CURB", "lowered_curb">>,
                   <<"BROAD_DASHED", "broad_dashed">>, <<"BROAD_SOLID", "broad_solid">>, <<"UNKNOWN", "unknown">>,
                   <<"NO_MARKING", "no_marking">> >>
LaneletTypeT == << <<"URBAN", "urban">>, <<"COUNTRY", "country">>, <<"HIGHWAY", "highway">>, <<"DRIVE_WAY", "driveWay">>,
                   <<"MAIN_CARRIAGE_WAY", "mainCarriageWay">>, <<"ACCESS_RAMP", "accessRamp">>,
                   <<"EXIT_RAMP", "exitRamp">>, <<"SHOULDER", "shoulder">>, <<"BUS_LANE", "busLane">>,
                   <<"BUS_STOP", "busStop">>, <<"BICYCLE_LANE", "bicycleLane">>, <<"SIDEWALK", "sidewalk">>,
                   <<"CROSSWALK", "crosswalk">>, <<"INTERSTATE", "interstate">>, <<"INTERSECTION", "intersection">>,
                   <<"BORDER", "border">>, <<"PARKING", "parking">>, <<"RESTRICTED", "restricted">>,
                   <<"RESTRICTED_AREA", "restricted_area">>, <<"UNKNOWN", "unknown">> >>
RoadUserT == << <<"VEHICLE", "vehicle">>, <<"CAR", "car">>, <<"TRUCK", "truck">>, <<"BUS", "bus">>,
                <<"PRIORITY_VEHICLE", "priorityVehicle">>, <<"MOTORCYCLE", "motorcycle">>, <<"BICYCLE", "bicycle">>,
                <<"PEDESTRIAN", "pedestrian">>, <<"TRAIN", "train">>, <<"TAXI", "taxi">> >>
ObstacleTypeT == << <<"UNKNOWN", "unknown">>, <<"CAR", "car">>, <<"TRUCK", "truck">>, <<"BUS", "bus">>,
                    <<"BICYCLE", "bicycle">>, <<"PEDESTRIAN", "pedestrian">>, <<"PRIORITY_VEHICLE", "priorityVehicle">>,
                    <<"PARKED_VEHICLE", "parkedVehicle">>, <<"CONSTRUCTION_ZONE", "constructionZone">>,
                    <<"TRAIN", "train">>, <<"ROAD_BOUNDARY", "roadBoundary">>, <<"MOTORCYCLE", "motorcycle">>,
                    <<"TAXI", "taxi">>, <<"BUILDING", "building">>, <<"PILLAR", "pillar">>,
                    <<"MEDIAN_STRIP", "median_strip">> >>
TagT == << <<"INTERSTATE", "interstate">>, <<"URBAN", "urban">>, <<"HIGHWAY", "highway">>, <<"COMFORT", "comfort">>,
           <<"CRITICAL", "critical">>, <<"EVASIVE", "evasive">>, <<"CUT_IN", "cut_in">>,
           <<"ILLEGAL_CUTIN", "illegal_cutin">>, <<"INTERSECTION", "intersection">>, <<"LANE_CHANGE", "lane_change">>,
           <<"LANE_FOLLOWING", "lane_following">>, <<"MERGING_LANES", "merging_lanes">>, <<"MULTI_LANE", "multi_lane">>,
           <<"ONCOMING_TRAFFIC", "oncoming_traffic">>, <<"NO_ONCOMING_TRAFFIC", "no_oncoming_traffic">>,
           <<"PARALLEL_LANES", "parallel_lanes">>, <<"RACE_TRACK", "race_track">>, <<"ROUNDABOUT", "roundabout">>,
           <<"RURAL", "rural">>, <<"SIMULATED", "simulated">>, <<"SINGLE_LANE", "single_lane">>,
           <<"SLIP_ROAD", "slip_road">>, <<"SPEED_LIMIT", "speed_limit">>, <<"TRAFFIC_JAM", "traffic_jam">>,
           <<"TURN_LEFT", "turn_left">>, <<"TURN_RIGHT", "turn_right">>, <<"TWO_LANE", "two_lane">>,
           <<"EMERGENCY_BRAKING", "emergency_braking">> >>
TimeOfDayT == << <<"NIGHT", "night">>, <<"SUNSET", "sunset">>, <<"AFTERNOON", "afternoon">>, <<"NOON", "noon">>,
                 <<"MORNING", "morning">>, <<"UNKNOWN", "unknown">> >>
WeatherT == << <<"CLEAR", "clear">>, <<"LIGHT_RAIN", "light_rain">>, <<"MID_RAIN", "mid_rain">>,
               <<"HEAVY_RAIN", "heavy_rain">>, <<"FOG", "fog">>, <<"SNOW", "snow">>, <<"HAIL", "hail">>,
               <<"CLOUDY", "cloudy">>, <<"UNKNOWN", "unknown">> >>
UndergroundT == << <<"WET", "wet">>, <<"CLEAN", "clean">>, <<"DIRTY", "dirty">>, <<"DAMAGED", "damaged">>,
                   <<"SNOW", "snow">>, <<"ICE", "ice">>, <<"UNKNOWN", "unknown">> >>
LightDirT == << <<"RIGHT", "right">>, <<"STRAIGHT", "straight">>, <<"LEFT", "left">>,
                <<"LEFT_STRAIGHT", "leftStraight">>, <<"STRAIGHT_RIGHT", "straightRight">>,
                <<"LEFT_RIGHT", "leftRight">>, <<"ALL", "all">> >>
LightStateT == << <<"RED", "red">>, <<"YELLOW", "yellow">>, <<"RED_YELLOW", "redYellow">>, <<"GREEN", "green">>,
                  <<"INACTIVE", "inactive">> >>
Names(Tb) == [i \in DOMAIN Tb |-> Tb[i][1]]
NameSet(Tb) == {Tb[i][1] : i \in DOMAIN Tb}
XmlVal(Tb, name) == Tb[CHOOSE i \in DOMAIN Tb : Tb[i][1] = name][2]
EnumTables == [LineMarking |-> LineMarkingT, LaneletType |-> LaneletTypeT, RoadUser |-> RoadUserT,
               ObstacleType |-> ObstacleTypeT, Tag |-> TagT, TimeOfDay |-> TimeOfDayT, Weather |-> WeatherT,
               Underground |-> UndergroundT, TrafficLightDirection |-> LightDirT, TrafficLightState |-> LightStateT]

(* member NAMES of the enums of the shipped .proto files (lanelet, obstacle, scenario_tags, location, traffic_light) *)
PbEnums == [LineMarking |-> NameSet(LineMarkingT), LaneletType |-> NameSet(LaneletTypeT), RoadUser |-> NameSet(RoadUserT),
            ObstacleType |-> NameSet(ObstacleTypeT), Tag |-> NameSet(TagT),
            TimeOfDay |-> {"NIGHT", "DAY", "UNKNOWN"},                                            \* location.proto
            Weather |-> {"SUNNY", "LIGHT_RAIN", "HEAVY_AIN", "FOG", "SNOW", "HAIL", "UNKNOWN"},   \* sic
            Underground |-> NameSet(UndergroundT), TrafficLightDirection |-> NameSet(LightDirT),
            TrafficLightState |-> NameSet(LightStateT)]

(* sample of traffic sign element ids: enum class, member NAME, value; pb = the .proto enum of that class has the NAME *)
SignId(c, n, v, pb) == [c |-> c, n |-> n, v |-> v, pb |-> pb]
SignIdT == << SignId("TrafficSignIDZamunda", "MAX_SPEED", "274", TRUE), SignId("TrafficSignIDZamunda", "STOP", "206", TRUE),
              SignId("TrafficSignIDZamunda", "YIELD", "205", TRUE), SignId("TrafficSignIDZamunda", "TOWN_SIGN", "310", TRUE),
              SignId("TrafficSignIDZamunda", "PRIORITY", "306", TRUE),
              SignId("TrafficSignIDZamunda", "ADDITION_SCHOOL", "1012-50", TRUE),            \* value not in the XSD
              SignId("TrafficSignIDGermany", "MAX_SPEED", "274", TRUE), SignId("TrafficSignIDGermany", "STOP", "206", TRUE),
              SignId("TrafficSignIDGermany", "EMERGENCY_STOP", "328", FALSE),                \* .proto: EMERYGECNY_STOP
              SignId("TrafficSignIDUsa", "MAX_SPEED", "R2-1", TRUE), SignId("TrafficSignIDUsa", "U_TURN", "R3-4", TRUE),
              SignId("TrafficSignIDUsa", "STOP", "R1-1", FALSE),                             \* neither XSD nor .proto
              SignId("TrafficSignIDSpain", "STOP", "r2", TRUE), SignId("TrafficSignIDSpain", "YIELD", "r1", TRUE),
              SignId("TrafficSignIDChina", "MAX_SPEED", "274", TRUE) >>
(* enum class the XML reader can name for a country code (the format stores only the value; the benchmark id the country) *)
CountryClass == [ZAM |-> {"TrafficSignIDZamunda", "TrafficSignIDGermany"}, DEU |-> {"TrafficSignIDGermany"},
                 USA |-> {"TrafficSignIDUsa"}, ESP |-> {"TrafficSignIDSpain"}, CHN |-> {"TrafficSignIDChina"}]

(* ------------------------------ numbers ------------------------------------------------------------------- *)
NumToks == <<"zero", "one", "tenth", "half", "ordinary", "tiny", "small", "big", "long", "neg", "angle">>
PositiveToks == {"one", "tenth", "half", "ordinary", "tiny", "small", "big", "long", "angle"}
NumLex(t) == IF t \in {"zero", "default0"} THEN "dec0" ELSE IF t = "neg" THEN "dec-" ELSE "dec+"   \* plain decimal, never "exp"
(* interval end points: lo < hi for the concrete table *)
IntervalPairs == {<<"neg", "one">>, <<"zero", "ordinary">>, <<"tiny", "small">>, <<"one", "big">>, <<"half", "angle">>}

(* ------------------------------ state attributes ------------------------------------------------------------ *)
(* <<attribute of the public state classes, short path name, XSD element ("" = none), field of obstacle.proto State?>> *)
AttrT == << <<"position", "position", "position", TRUE>>, <<"orientation", "orientation", "orientation", TRUE>>,
            <<"velocity", "velocity", "velocity", TRUE>>, <<"acceleration", "acceleration", "acceleration", TRUE>>,
            <<"yaw_rate", "yawRate", "yawRate", TRUE>>, <<"slip_angle", "slipAngle", "slipAngle", TRUE>>,
            <<"steering_angle", "steerAngle", "steeringAngle", TRUE>>, <<"roll_angle", "rollAngle", "rollAngle", TRUE>>,
            <<"roll_rate", "rollRate", "rollRate", TRUE>>, <<"pitch_angle", "pitchAngle", "pitchAngle", TRUE>>,
            <<"pitch_rate", "pitchRate", "pitchRate", TRUE>>, <<"velocity_y", "velocityY", "velocityY", TRUE>>,
            <<"position_z", "positionZ", "positionZ", TRUE>>, <<"velocity_z", "velocityZ", "velocityZ", TRUE>>,
            <<"roll_angle_front", "rollAngleF", "rollAngleFront", TRUE>>, <<"roll_rate_front", "rollRateF", "rollRateFront", TRUE>>,
            <<"velocity_y_front", "velocityYF", "velocityYFront", TRUE>>, <<"position_z_front", "positionZF", "positionZFront", TRUE>>,
            <<"velocity_z_front", "velocityZF", "velocityZFront", TRUE>>, <<"roll_angle_rear", "rollAngleR", "rollAngleRear", TRUE>>,
            <<"roll_rate_rear", "rollRateR", "rollRateRear", TRUE>>, <<"velocity_y_rear", "velocityYR", "velocityYRear", TRUE>>,
            <<"position_z_rear", "positionZR", "positionZRear", TRUE>>, <<"velocity_z_rear", "velocityZR", "velocityZRear", TRUE>>,
            <<"left_front_wheel_angular_speed", "wheelSpeedLF", "leftFrontWheelAngularSpeed", TRUE>>,
            <<"right_front_wheel_angular_speed", "wheelSpeedRF", "rightFrontWheelAngularSpeed", TRUE>>,
            <<"left_rear_wheel_angular_speed", "wheelSpeedLR", "leftRearWheelAngularSpeed", TRUE>>,
            <<"right_rear_wheel_angular_speed", "wheelSpeedRR", "rightRearWheelAngularSpeed", TRUE>>,
            <<"delta_y_f", "deltaYF", "deltaYFront", TRUE>>, <<"delta_y_r", "deltaYR", "deltaYRear", TRUE>>,
            <<"curvature", "curvature", "curvature", TRUE>>, <<"curvature_rate", "curvRate", "curvatureChange", TRUE>>,
            <<"jerk", "jerk", "jerk", TRUE>>, <<"jounce", "jounce", "jounce", FALSE>>,
            <<"hitch_angle", "hitchAngle", "", FALSE>>, <<"steering_angle_speed", "steerSpeed", "", TRUE>>,
            <<"acceleration_y", "accelY", "", TRUE>>, <<"front_wheel_angular_speed", "wheelSpeedF", "", TRUE>>,
            <<"rear_wheel_angular_speed", "wheelSpeedR", "", TRUE>>, <<"lateral_position", "latPosition", "", FALSE>>,
            <<"longitudinal_position", "lonPosition", "", FALSE>>, <<"jerk_dot", "jerkDot", "", FALSE>>,
            <<"kappa_dot_dot", "kappaDotDot", "", FALSE>> >>
AttrOrder == [i \in DOMAIN AttrT |-> AttrT[i][1]]
AttrRow(a) == AttrT[CHOOSE i \in DOMAIN AttrT : AttrT[i][1] = a]
AttrShort(a) == AttrRow(a)[2]
AttrXml(a) == AttrRow(a)[3]
AttrPb(a) == AttrRow(a)[4]
InitialAttrs == <<"position", "orientation", "velocity", "acceleration", "yaw_rate", "slip_angle">>   \* InitialState

(* the public state classes (commonroad.scenario.state.SpecificStateClasses, in that order): attributes besides time_step *)
StateClassT ==
  << <<"InitialState", InitialAttrs>>, <<"PMState", <<"position", "velocity", "velocity_y">> >>,
     <<"KSState", <<"position", "steering_angle", "velocity", "orientation">> >>,
     <<"KSTState", <<"position", "steering_angle", "velocity", "orientation", "hitch_angle">> >>,
     <<"STState", <<"position", "steering_angle", "velocity", "orientation", "slip_angle", "yaw_rate">> >>,
     <<"STDState", <<"position", "steering_angle", "velocity", "orientation", "slip_angle", "yaw_rate",
                    "front_wheel_angular_speed", "rear_wheel_angular_speed">> >>,
     <<"MBState", <<"position", "steering_angle", "velocity", "orientation", "yaw_rate", "roll_angle", "roll_rate",
                   "pitch_angle", "pitch_rate", "velocity_y", "position_z", "velocity_z", "roll_angle_front",
                   "roll_rate_front", "velocity_y_front", "position_z_front", "velocity_z_front", "roll_angle_rear",
                   "roll_rate_rear", "velocity_y_rear", "position_z_rear", "velocity_z_rear",
                   "left_front_wheel_angular_speed", "right_front_wheel_angular_speed",
                   "left_rear_wheel_angular_speed", "right_rear_wheel_angular_speed", "delta_y_f", "delta_y_r">> >>,
     <<"InputState", <<"steering_angle_speed", "acceleration">> >>,
     <<"PMInputState", <<"acceleration", "acceleration_y">> >>,
     <<"LateralState", <<"lateral_position", "orientation", "curvature", "curvature_rate">> >>,
     <<"LongitudinalState", <<"longitudinal_position", "velocity", "acceleration", "jerk">> >>,
     <<"ExtendedPMState", <<"position", "velocity", "orientation", "acceleration">> >> >>
ClassAttrs(c) == IF c = "CustomState" THEN Range(AttrOrder)
                 ELSE Range(StateClassT[CHOOSE i \in DOMAIN StateClassT : StateClassT[i][1] = c][2])
StateClassNames == {StateClassT[i][1] : i \in DOMAIN StateClassT} \cup {"CustomState"}

SignalT == << <<"horn", "horn">>, <<"indicator_left", "indicatorLeft">>, <<"indicator_right", "indicatorRight">>,
              <<"braking_lights", "brakingLights">>, <<"hazard_warning_lights", "hazardLights">>,
              <<"flashing_blue_lights", "blueLights">> >>                       \* SignalState slot, short path name
SignalOrder == Names(SignalT)
SignalXml == [horn |-> "horn", indicator_left |-> "indicatorLeft", indicator_right |-> "indicatorRight",
              braking_lights |-> "brakingLights", hazard_warning_lights |-> "hazardWarningLights",
              flashing_blue_lights |-> "flashingBlueLights"]
MaxId == 99

(* ------------------------------ descriptor access ----------------------------------------------------------- *)
Has(st, a)  == \E i \in DOMAIN st.a : st.a[i].n = a                       \* state st populates attribute a
Val(st, a)  == st.a[CHOOSE i \in DOMAIN st.a : st.a[i].n = a].v
PopSet(st)  == {st.a[i].n : i \in DOMAIN st.a}                            \* populated attributes besides time_step
SortIds(S)  == SelectSeq([i \in 1..MaxId |-> i], LAMBDA i : i \in S)
IdStr(ids)  == JoinS([i \in DOMAIN SortIds(Range(ids)) |-> I2S(SortIds(Range(ids))[i])], ",")      \* id SET as text
NameStr(Tb, names) == JoinS(SelectSeq(Names(Tb), LAMBDA n : n \in Range(names)), ",")               \* enum SET as text
RECURSIVE KindOfShape(_)
KindOfShape(sh) == IF sh.k = "group" THEN "group:" \o JoinS([i \in DOMAIN sh.parts |-> sh.parts[i].k], "+") ELSE sh.k

(* ------------------------------ leaves ---------------------------------------------------------------------- *)
Lf(K, Y, P, v) == << <<K, Y, P, v>> >>
R(tok) == IF tok = "default0" THEN "r0" ELSE "r"
Re(K, Y, P, tok) == Lf(K, Y, P, R(tok))                                   \* a real-valued leaf
XY(K, Y, P, x, y) == Re(K, Y \o "/x", P, x) \o Re(K, Y \o "/y", P, y)

SimpleShapeLeaves(K, Y, P, sh) ==
  CASE sh.k = "rect"   -> Re(K, Y, P \o ".len", sh.l) \o Re(K, Y, P \o ".wid", sh.w) \o Re(K, Y, P \o ".ori", sh.o)
                          \o XY(K, Y, P \o ".ctr", sh.cx, sh.cy)
    [] sh.k = "circle" -> Re(K, Y, P \o ".rad", sh.r) \o XY(K, Y, P \o ".ctr", sh.cx, sh.cy)
    [] sh.k = "poly"   -> Lf(K, Y, P \o ".vtx.n", I2S(sh.n))
                          \o Cat([j \in 1..sh.n |-> XY(K, Y \o "/" \o I2S(j), P \o ".vtx", sh.s, sh.s)])
ShapeLeaves(K, Y, P, sh) ==
  Lf(K, Y, P \o ".kind", KindOfShape(sh))
  \o IF sh.k = "group" THEN Cat([i \in DOMAIN sh.parts |-> SimpleShapeLeaves(K, Y \o "/g" \o I2S(i), P, sh.parts[i])])
     ELSE SimpleShapeLeaves(K, Y, P, sh)

TimeLeaves(K, Y, S, t) ==
  IF t.k = "exact" THEN Lf(K, Y, S \o ".time.kind", "exact") \o Lf(K, Y, S \o ".time", I2S(t.t))
  ELSE Lf(K, Y, S \o ".time.kind", "interval") \o Lf(K, Y, S \o ".time", I2S(t.lo) \o ".." \o I2S(t.hi))

ValueLeaves(K, Y, S, a, v) ==
  LET P == S \o "." \o AttrShort(a) IN
  CASE v.k = "exact" /\ a = "position" -> Lf(K, Y, P \o ".kind", "exact") \o XY(K, Y, P, v.x, v.y)
    [] v.k = "exact"    -> Lf(K, Y, P \o ".kind", "exact") \o Re(K, Y, P, v.x)
    [] v.k = "interval" -> Lf(K, Y, P \o ".kind", "interval") \o Re(K, Y \o "/lo", P, v.lo) \o Re(K, Y \o "/hi", P, v.hi)
    [] v.k = "region"   -> Lf(K, Y, P \o ".kind", "region") \o ShapeLeaves(K, Y, S \o ".region", v.sh)
    [] v.k = "lanelets" -> Lf(K, Y, P \o ".kind", "lanelets")          \* goal position given by lanelet ids
StateLeaves(K, Y, S, st) ==
  TimeLeaves(K, Y, S, st.t)
  \o Cat([i \in DOMAIN AttrOrder |-> IF Has(st, AttrOrder[i]) THEN ValueLeaves(K, Y, S, AttrOrder[i], Val(st, AttrOrder[i]))
                                     ELSE <<>>])
SigHas(sg, n) == \E i \in DOMAIN sg.b : sg.b[i].n = n
SigVal(sg, n) == sg.b[CHOOSE i \in DOMAIN sg.b : sg.b[i].n = n].v
SignalLeaves(K, Y, S, sg) ==
  TimeLeaves(K, Y, S, sg.t)
  \o Cat([i \in DOMAIN SignalT |-> IF SigHas(sg, SignalT[i][1]) THEN Lf(K, Y, S \o "." \o SignalT[i][2], I2S(SigVal(sg, SignalT[i][1])))
                                   ELSE <<>>])

ObstacleLeaves(o) ==
  LET K == "obstacle"  Y == I2S(o.id)
      sI == IF o.role = "static" THEN "staticSignal" ELSE "initialSignalState"
      sS == IF o.role = "static" THEN "staticSeries" ELSE "signalSeries"
      withState == o.role \in {"static", "dynamic"}
  IN Lf(K, Y, "role", o.role)
     \o (IF o.role # "phantom" THEN Lf(K, Y, "type", o.type) \o ShapeLeaves(K, Y, "shape", o.sh) ELSE <<>>)
     \o (IF withState
         THEN StateLeaves(K, Y, "initialState", o.init)
              \o Lf(K, Y, sI \o ".present", I2S(Len(o.iss)))
              \o Cat([i \in DOMAIN o.iss |-> SignalLeaves(K, Y, sI, o.iss[i])])
              \o Lf(K, Y, sS \o ".isNone", I2S(o.g.serNone)) \o Lf(K, Y, sS \o ".n", I2S(Len(o.ser)))
              \o Cat([i \in DOMAIN o.ser |-> SignalLeaves(K, Y \o "/s" \o I2S(i), sS, o.ser[i])])
         ELSE <<>>)
     \o (IF o.role \in {"dynamic", "phantom"}
         THEN Lf(K, Y, "prediction.kind", o.pred.k)
              \o (IF o.pred.k = "traj"
                  THEN Lf(K, Y, "trajectory.t0", I2S(o.pred.t0)) \o Lf(K, Y, "trajectory.n", I2S(Len(o.pred.states)))
                       \o Cat([i \in DOMAIN o.pred.states |-> StateLeaves(K, Y \o "/t" \o I2S(i), "trajectory", o.pred.states[i])])
                       \o ShapeLeaves(K, Y, "prediction.shape", o.pred.sh)
                  ELSE IF o.pred.k = "set"
                  THEN Lf(K, Y, "occupancySet.t0", I2S(o.pred.t0)) \o Lf(K, Y, "occupancySet.n", I2S(Len(o.pred.occs)))
                       \o Cat([i \in DOMAIN o.pred.occs |->
                                 TimeLeaves(K, Y \o "/o" \o I2S(i), "occupancySet", o.pred.occs[i].t)
                                 \o ShapeLeaves(K, Y \o "/o" \o I2S(i), "occupancySet.shape", o.pred.occs[i].sh)])
                  ELSE <<>>)
         ELSE <<>>)

BoundLeaves(K, Y, P, la, lm) ==
  Lf(K, Y, P \o ".n", I2S(la.nv))
  \o Cat([j \in 1..la.nv |-> XY(K, Y \o "/" \o I2S(j), P, la.geo, la.geo)])
  \o Lf(K, Y, P \o ".lineMarking", lm)
AdjLeaves(K, Y, P, adj) ==
  IF adj = <<>> THEN Lf(K, Y, P, "None") \o Lf(K, Y, P \o ".drivingDir", "None")
  ELSE Lf(K, Y, P, I2S(adj[1].id)) \o Lf(K, Y, P \o ".drivingDir", IF adj[1].same = 1 THEN "same" ELSE "opposite")
LaneletLeaves(la) ==
  LET K == "lanelet"  Y == I2S(la.id) IN
  BoundLeaves(K, Y, "leftBound", la, la.lml) \o BoundLeaves(K, Y, "rightBound", la, la.lmr)
  \o Lf(K, Y, "predecessor", IdStr(la.pred)) \o Lf(K, Y, "successor", IdStr(la.succ))
  \o AdjLeaves(K, Y, "adjacentLeft", la.adjL) \o AdjLeaves(K, Y, "adjacentRight", la.adjR)
  \o Lf(K, Y, "stopLine.present", I2S(Len(la.stop)))
  \o Cat([i \in DOMAIN la.stop |->
            XY(K, Y \o "/s", "stopLine", la.geo, la.geo) \o XY(K, Y \o "/e", "stopLine", la.geo, la.geo)
            \o Lf(K, Y, "stopLine.lineMarking", la.stop[i].lm)
            \o Lf(K, Y, "stopLine.trafficSignRef", IdStr(la.stop[i].sref))
            \o Lf(K, Y, "stopLine.trafficSignRef.isNone", I2S(la.stop[i].g.srefNone))
            \o Lf(K, Y, "stopLine.trafficLightRef", IdStr(la.stop[i].lref))
            \o Lf(K, Y, "stopLine.trafficLightRef.isNone", I2S(la.stop[i].g.lrefNone))])
  \o Lf(K, Y, "laneletType", NameStr(LaneletTypeT, la.types))
  \o Lf(K, Y, "userOneWay", NameStr(RoadUserT, la.uow)) \o Lf(K, Y, "userBidirectional", NameStr(RoadUserT, la.ubi))
  \o Lf(K, Y, "trafficSignRef", IdStr(la.signs)) \o Lf(K, Y, "trafficLightRef", IdStr(la.lights))

PosLeaves(K, Y, pos) == Lf(K, Y, "position.present", I2S(Len(pos)))
                        \o Cat([i \in DOMAIN pos |-> XY(K, Y, "position", pos[i].x, pos[i].y)])
SignLeaves(s) ==
  LET K == "trafficSign"  Y == I2S(s.id) IN
  Lf(K, Y, "element.n", I2S(Len(s.els)))
  \o Cat([i \in DOMAIN s.els |-> LET Ye == Y \o "/e" \o I2S(i) IN
            Lf(K, Ye, "element.idClass", s.els[i].id.c) \o Lf(K, Ye, "element.idName", s.els[i].id.n)
            \o Lf(K, Ye, "element.idValue", s.els[i].id.v) \o Lf(K, Ye, "element.additionalValue", JoinS(s.els[i].av, "|"))])
  \o PosLeaves(K, Y, s.pos) \o Lf(K, Y, "virtual", I2S(s.virt)) \o Lf(K, Y, "firstOccurrence", IdStr(s.first))
LightLeaves(t) ==
  LET K == "trafficLight"  Y == I2S(t.id) IN
  Lf(K, Y, "cycle.n", I2S(Len(t.cyc)))
  \o Cat([i \in DOMAIN t.cyc |-> Lf(K, Y \o "/c" \o I2S(i), "cycle.color", t.cyc[i].c)
                                 \o Lf(K, Y \o "/c" \o I2S(i), "cycle.duration", I2S(t.cyc[i].d))])
  \o Lf(K, Y, "timeOffset", I2S(t.off)) \o PosLeaves(K, Y, t.pos)
  \o Lf(K, Y, "direction", t.dir) \o Lf(K, Y, "active", I2S(t.act))
InterLeaves(x) ==
  LET K == "intersection"  Y == I2S(x.id) IN
  Lf(K, Y, "incoming.n", I2S(Len(x.incs)))
  \o Cat([i \in DOMAIN x.incs |-> LET Yi == Y \o "/" \o I2S(x.incs[i].id)  inc == x.incs[i] IN
            Lf(K, Yi, "incoming.incomingLanelet", IdStr(inc.lan)) \o Lf(K, Yi, "incoming.successorsRight", IdStr(inc.r))
            \o Lf(K, Yi, "incoming.successorsStraight", IdStr(inc.s)) \o Lf(K, Yi, "incoming.successorsLeft", IdStr(inc.l))
            \o Lf(K, Yi, "incoming.isLeftOf", IF inc.lo = 0 THEN "None" ELSE I2S(inc.lo))])
  \o Lf(K, Y, "crossing", IdStr(x.cross)) \o Lf(K, Y, "crossing.isNone", I2S(x.g.crossNone))
PPLeaves(p) ==
  LET K == "planning"  Y == I2S(p.id) IN
  StateLeaves(K, Y, "initialState", p.init)
  \o Lf(K, Y, "goalState.n", I2S(Len(p.goals)))
  \o Cat([i \in DOMAIN p.goals |-> StateLeaves(K, Y \o "/g" \o I2S(i), "goalState", p.goals[i].st)
                                    \o Lf(K, Y \o "/g" \o I2S(i), "goalState.lanelets", IdStr(p.goals[i].lan))])
  \o Lf(K, Y, "goalLanelets.isNone", I2S(p.g.lanNone))
HeaderLeaves(h) ==
  LET K == "header"  Y == "0" IN
  Re(K, Y, "dt", h.dt) \o Lf(K, Y, "benchmarkId", h.cid \o "_Test-1") \o Lf(K, Y, "author", "crv-author")
  \o Lf(K, Y, "affiliation", "crv-affiliation") \o Lf(K, Y, "source", "crv-source")
  \o Lf(K, Y, "tags", NameStr(TagT, h.tags))
  \o Lf(K, Y, "location.geoNameId", I2S(h.gid)) \o Re(K, Y, "location.gpsLatitude", h.lat) \o Re(K, Y, "location.gpsLongitude", h.lon)
  \o Lf(K, Y, "geo.present", I2S(Len(h.geo)))
  \o Cat([i \in DOMAIN h.geo |-> Lf(K, Y, "geo.reference", h.geo[i].ref) \o Re(K, Y, "geo.xTranslation", h.geo[i].xt)
                                 \o Re(K, Y, "geo.yTranslation", h.geo[i].yt) \o Re(K, Y, "geo.zRotation", h.geo[i].zr)
                                 \o Re(K, Y, "geo.scaling", h.geo[i].sc)])
  \o Lf(K, Y, "env.present", I2S(Len(h.env)))
  \o Cat([i \in DOMAIN h.env |-> Lf(K, Y, "env.time", I2S(h.env[i].hh) \o ":" \o I2S(h.env[i].mm))
                                 \o Lf(K, Y, "env.timeOfDay", h.env[i].tod) \o Lf(K, Y, "env.weather", h.env[i].w)
                                 \o Lf(K, Y, "env.underground", h.env[i].u)])

(* all leaves of a descriptor, in the traversal order the harness uses as well *)
Leaves(d) == HeaderLeaves(d.hdr) \o Cat(Map(d.lanelets, LaneletLeaves)) \o Cat(Map(d.signs, SignLeaves))
             \o Cat(Map(d.lights, LightLeaves)) \o Cat(Map(d.inters, InterLeaves)) \o Cat(Map(d.obstacles, ObstacleLeaves))
             \o Cat(Map(d.pps, PPLeaves))

(* ------------------------------ which leaves a format carries ------------------------------------------------ *)
ShapeSuffixes == {".kind", ".len", ".wid", ".ori", ".ctr", ".rad", ".vtx.n", ".vtx"}
SignalSuffixes == {".present", ".isNone", ".n", ".time.kind", ".time"} \cup {"." \o SignalT[i][2] : i \in DOMAIN SignalT}
(* None-vs-empty of optional collections is an artefact of the Python API, no format has a field for it:          *)
(* reference sets None == empty set, signal_series None == [], goal-lanelet dict None == {} (DESIGN App. C)       *)
NoneFlags == {<<"obstacle", "signalSeries.isNone">>, <<"obstacle", "staticSeries.isNone">>,
              <<"lanelet", "stopLine.trafficSignRef.isNone">>, <<"lanelet", "stopLine.trafficLightRef.isNone">>,
              <<"intersection", "crossing.isNone">>, <<"planning", "goalLanelets.isNone">>}
XmlNotCarried ==
  NoneFlags
  \cup {<<"trafficSign", "firstOccurrence">>}                      \* XSD 642-656: trafficSign has no such element
  \cup {<<"trafficSign", "element.idClass">>, <<"trafficSign", "element.idName">>}   \* 647: only the VALUE is stored
  \cup {<<"obstacle", p \o x>> : p \in {"staticSignal", "staticSeries"}, x \in SignalSuffixes}   \* 739-746: no signal states
  \cup {<<"obstacle", "prediction.shape" \o x>> : x \in ShapeSuffixes}               \* 768-774: trajectory has no shape
PbNotCarried == NoneFlags
NotCarried(fmt) == IF fmt = "xml" THEN XmlNotCarried ELSE PbNotCarried
Carried(fmt, l) == <<l[1], l[3]>> \notin NotCarried(fmt)
XmlCarried(l) == Carried("xml", l)      \* e.g. obstacle initialSignalState.horn, trafficSign virtual, lanelet lineMarking
PbCarried(l)  == Carried("pb", l)       \* in addition trafficSign firstOccurrence, static obstacle signal states, ...

(* ------------------------------ the round trip ---------------------------------------------------------------- *)
(* the reader's documented default: unset attributes of INITIAL states read back as 0 *)
DefaultVal(a) == IF a = "position" THEN [k |-> "exact", x |-> "default0", y |-> "default0"] ELSE [k |-> "exact", x |-> "default0"]
FillInitial(st) ==
  [st EXCEPT !.a = st.a \o SelectSeq([i \in DOMAIN InitialAttrs |-> [n |-> InitialAttrs[i], v |-> DefaultVal(InitialAttrs[i])]],
                                     LAMBDA e : ~Has(st, e.n)),
             !.c = "InitialState"]
RBObstacle(o) == IF o.role \in {"static", "dynamic"} THEN [o EXCEPT !.init = FillInitial(o.init)] ELSE o
RBPP(p) == [p EXCEPT !.init = FillInitial(p.init)]
(* expected descriptor after write -> read, either format: identity except the initial-state default *)
ReadBack(d) == [d EXCEPT !.obstacles = Map(d.obstacles, RBObstacle), !.pps = Map(d.pps, RBPP)]
ReadBackXml(d) == ReadBack(d)
ReadBackPb(d)  == ReadBack(d)
CarriedLeaves(fmt, d) == SelectSeq(Leaves(d), LAMBDA l : Carried(fmt, l))
Expected(fmt, d) == CarriedLeaves(fmt, ReadBack(d))

(* tolerance rule: closeness class every real leaf must come back in *)
RealClasses == {"re:exact", "re:within_tol", "re:out_of_tol", "re:zero", "re:other"}
AllowedReal(fmt) == IF fmt = "xml" THEN {"re:exact", "re:within_tol"} ELSE {"re:exact"}   \* |x'-x| < 10^-d / bit identical
NormLeaf(fmt, l) == IF l[4] \in AllowedReal(fmt) THEN <<l[1], l[2], l[3], "r">>
                    ELSE IF l[4] = "re:zero" THEN <<l[1], l[2], l[3], "r0">> ELSE l
Observed(fmt, back) == [i \in DOMAIN SelectSeq(back, LAMBDA l : Carried(fmt, l)) |->
                          NormLeaf(fmt, SelectSeq(back, LAMBDA l : Carried(fmt, l))[i])]
SameLeaf(a, b) == a[1] = b[1] /\ a[2] = b[2] /\ a[3] = b[3]
(* name of the first leaf on which the observed read-back differs from the expected one; "" if none *)
Diff(fmt, exp, back) ==
  LET obs == Observed(fmt, back)
      raw == SelectSeq(back, LAMBDA l : Carried(fmt, l))
      n   == IF Len(exp) < Len(obs) THEN Len(exp) ELSE Len(obs)
      bad == {i \in 1..n : exp[i] # obs[i]}
      pre == IF fmt = "xml" THEN "C01." ELSE "C02."
      tol == IF fmt = "xml" THEN "Tolerance/" ELSE "BitIdentical/"
      nm(l) == l[1] \o "." \o l[3]
  IN IF bad = {} /\ Len(exp) = Len(obs) THEN ""
     ELSE IF bad = {} THEN (IF Len(exp) > Len(obs) THEN pre \o "Leaf/" \o nm(exp[n + 1]) ELSE pre \o "Leaf/" \o nm(obs[n + 1]))
     ELSE LET i == CHOOSE j \in bad : \A r \in bad : j <= r IN
          IF SameLeaf(exp[i], obs[i])
          THEN (IF exp[i][4] \in {"r", "r0"} /\ raw[i][4] \in RealClasses THEN pre \o tol \o nm(exp[i]) ELSE pre \o "Leaf/" \o nm(exp[i]))
          ELSE IF ~\E j \in DOMAIN obs : SameLeaf(exp[i], obs[j]) THEN pre \o "Leaf/" \o nm(exp[i])     \* dropped
          ELSE pre \o "Leaf/" \o nm(obs[i])                                                                \* not in the original

(* ------------------------------ state classes ------------------------------------------------------------------ *)
(* which attributes a read-back state must populate (the statement; class identity is not required) *)
Populated(F, isInitial) == IF isInitial THEN F \cup Range(InitialAttrs) ELSE F
(* the documented matching rule of both readers: initial states become InitialState filled with defaults; otherwise the *)
(* first class (SpecificStateClasses order) with as many attributes as written fields, all of them written; else custom  *)
MatchStateClass(F, isInitial) ==
  IF isInitial THEN "InitialState"
  ELSE LET ok == {i \in DOMAIN StateClassT : Range(StateClassT[i][2]) = F} IN
       IF ok = {} THEN "CustomState" ELSE StateClassT[CHOOSE i \in ok : \A r \in ok : i <= r][1]
PopulatedBy(c, F) == IF c = "CustomState" THEN F ELSE ClassAttrs(c)
PopulatedPreservedFor(F, isInitial) == PopulatedBy(MatchStateClass(F, isInitial), F) = Populated(F, isInitial)

(* ------------------------------ what the formats can express (the quantifiers) -------------------------------- *)
AllStates(d) ==      \* <<state, isInitial>> of every state of the descriptor
  Cat([i \in DOMAIN d.obstacles |-> LET o == d.obstacles[i] IN
        (IF o.role \in {"static", "dynamic"} THEN << <<o.init, TRUE>> >> ELSE <<>>)
        \o (IF o.role = "dynamic" /\ o.pred.k = "traj" THEN [j \in DOMAIN o.pred.states |-> <<o.pred.states[j], FALSE>>] ELSE <<>>)])
  \o Cat([i \in DOMAIN d.pps |-> << <<d.pps[i].init, TRUE>> >> \o [j \in DOMAIN d.pps[i].goals |-> <<d.pps[i].goals[j].st, FALSE>>]])
IdsOf(s) == {s[i].id : i \in DOMAIN s}
IncIds(d) == UNION {IdsOf(d.inters[i].incs) : i \in DOMAIN d.inters}
AllIdSeq(d) == [i \in DOMAIN d.lanelets |-> d.lanelets[i].id] \o [i \in DOMAIN d.signs |-> d.signs[i].id]
               \o [i \in DOMAIN d.lights |-> d.lights[i].id] \o [i \in DOMAIN d.inters |-> d.inters[i].id]
               \o Cat([i \in DOMAIN d.inters |-> [j \in DOMAIN d.inters[i].incs |-> d.inters[i].incs[j].id]])
               \o [i \in DOMAIN d.obstacles |-> d.obstacles[i].id] \o [i \in DOMAIN d.pps |-> d.pps[i].id]
SimpleShapeOK(sh) == CASE sh.k = "rect" -> sh.l \in PositiveToks /\ sh.w \in PositiveToks
                       [] sh.k = "circle" -> sh.r \in PositiveToks
                       [] sh.k = "poly" -> sh.n >= 3
                       [] OTHER -> FALSE
ShapeOK(sh) == IF sh.k = "group" THEN Len(sh.parts) >= 2 /\ \A i \in DOMAIN sh.parts : SimpleShapeOK(sh.parts[i]) ELSE SimpleShapeOK(sh)
Homogeneous(sh) == sh.k # "group" \/ \A i \in DOMAIN sh.parts : sh.parts[i].k = sh.parts[1].k
TimeOK(t, lo) == IF t.k = "exact" THEN t.t >= lo ELSE t.lo >= 0 /\ t.hi >= 1 /\ t.lo <= t.hi
ValueOK(a, v) == CASE v.k = "exact" -> TRUE
                   [] v.k = "interval" -> a # "position" /\ <<v.lo, v.hi>> \in IntervalPairs
                   [] v.k = "region" -> a = "position" /\ ShapeOK(v.sh)
                   [] v.k = "lanelets" -> a = "position"
StateOK(st) == /\ \A i \in DOMAIN st.a : st.a[i].n \in Range(AttrOrder) /\ ValueOK(st.a[i].n, st.a[i].v)
               /\ \A i, j \in DOMAIN st.a : i # j => st.a[i].n # st.a[j].n
               /\ st.c \in StateClassNames /\ PopSet(st) \subseteq ClassAttrs(st.c)
SignalOK(sg, lo) == TimeOK(sg.t, lo) /\ \A i \in DOMAIN sg.b : sg.b[i].n \in Range(SignalOrder) /\ sg.b[i].v \in {0, 1}
LaneletIds(d) == IdsOf(d.lanelets)
(* sanity every scenario of either quantifier satisfies: ids >= 1 and distinct, references resolve to the right kind, *)
(* 2-D geometry with positive sizes, explicit sign / light positions, non-empty light cycle                            *)
WellFormed(d) ==
  /\ \A i \in DOMAIN AllIdSeq(d) : AllIdSeq(d)[i] \in 1..MaxId
  /\ \A i, j \in DOMAIN AllIdSeq(d) : i # j => AllIdSeq(d)[i] # AllIdSeq(d)[j]
  /\ \A i \in DOMAIN d.lanelets : LET la == d.lanelets[i] IN
       /\ la.nv >= 2 /\ Range(la.pred) \cup Range(la.succ) \subseteq LaneletIds(d)
       /\ \A a \in Range(la.adjL) \cup Range(la.adjR) : a.id \in LaneletIds(d)
       /\ Range(la.signs) \subseteq IdsOf(d.signs) /\ Range(la.lights) \subseteq IdsOf(d.lights)
       /\ \A s \in Range(la.stop) : Range(s.sref) \subseteq IdsOf(d.signs) /\ Range(s.lref) \subseteq IdsOf(d.lights)
  /\ \A i \in DOMAIN d.signs : Len(d.signs[i].els) >= 1 /\ Len(d.signs[i].pos) = 1 /\ Range(d.signs[i].first) \subseteq LaneletIds(d)
  /\ \A i \in DOMAIN d.lights : /\ Len(d.lights[i].cyc) >= 1 /\ Len(d.lights[i].pos) = 1 /\ d.lights[i].off >= 0
                                /\ \A c \in Range(d.lights[i].cyc) : c.d >= 1
  /\ \A i \in DOMAIN d.inters : LET x == d.inters[i] IN
       /\ Len(x.incs) >= 1 /\ Range(x.cross) \subseteq LaneletIds(d)
       /\ \A inc \in Range(x.incs) : /\ Range(inc.lan) \cup Range(inc.r) \cup Range(inc.s) \cup Range(inc.l) \subseteq LaneletIds(d)
                                     /\ inc.lo \in {0} \cup IdsOf(x.incs)
  /\ \A i \in DOMAIN d.obstacles : LET o == d.obstacles[i] IN
       /\ o.role \in {"static", "dynamic", "phantom", "environment"}
       /\ o.role # "phantom" => ShapeOK(o.sh) /\ o.type \in NameSet(ObstacleTypeT)
       /\ o.role \in {"static", "dynamic"} =>
            /\ StateOK(o.init) /\ o.init.t = [k |-> "exact", t |-> 0] /\ PopSet(o.init) \subseteq Range(InitialAttrs)
            /\ Len(o.iss) <= 1 /\ \A s \in Range(o.iss) : SignalOK(s, 0) /\ s.t = [k |-> "exact", t |-> 0]
            /\ \A s \in Range(o.ser) : SignalOK(s, 1)
            /\ (o.g.serNone = 1 => o.ser = <<>>)
       /\ o.role \in {"dynamic", "phantom"} =>
            /\ o.pred.k \in {"none", "traj", "set"} /\ (o.role = "phantom" => o.pred.k # "traj")
            /\ o.pred.k = "traj" => /\ Len(o.pred.states) >= 1 /\ ShapeOK(o.pred.sh)
                                    /\ \A j \in DOMAIN o.pred.states : /\ StateOK(o.pred.states[j])
                                                                       /\ o.pred.states[j].t = [k |-> "exact", t |-> o.pred.t0 + j - 1]
                                    /\ o.pred.t0 >= 1
            /\ o.pred.k = "set" => /\ Len(o.pred.occs) >= 1 /\ o.pred.t0 >= 0
                                   /\ \A c \in Range(o.pred.occs) : TimeOK(c.t, 1) /\ ShapeOK(c.sh)
  /\ \A i \in DOMAIN d.pps : LET p == d.pps[i] IN
       /\ StateOK(p.init) /\ p.init.t = [k |-> "exact", t |-> 0] /\ PopSet(p.init) \subseteq Range(InitialAttrs)
       /\ Len(p.goals) >= 1
       /\ \A gl \in Range(p.goals) : /\ StateOK(gl.st) /\ TimeOK(gl.st.t, 0) /\ Range(gl.lan) \subseteq LaneletIds(d)
                                     /\ (gl.lan # <<>>) = (Has(gl.st, "position") /\ Val(gl.st, "position").k = "lanelets")
       /\ (p.g.lanNone = 1 => \A gl \in Range(p.goals) : gl.lan = <<>>)
  /\ d.hdr.cid \in DOMAIN CountryClass /\ \A gt \in Range(d.hdr.geo) : gt.sc \in PositiveToks

InXsd(Tb, enum, name) == XmlVal(Tb, name) \in enum
XmlStateOK(st, timeLo) ==          \* XSD 126-203: position, orientation, time required; only the listed elements
  /\ Has(st, "position") /\ Has(st, "orientation") /\ st.t.k = "exact" /\ st.t.t >= timeLo
  /\ \A a \in PopSet(st) : AttrXml(a) # ""
  /\ Val(st, "position").k \in {"exact", "region"} /\ (Val(st, "position").k = "region" => Homogeneous(Val(st, "position").sh))
XmlExpressible(d) ==
  /\ WellFormed(d)
  /\ Len(d.lanelets) >= 1 /\ Len(d.pps) >= 1                                                        \* 929, 937
  /\ \A e \in Range(d.hdr.env) : /\ InXsd(TimeOfDayT, EnumTimeOfDay, e.tod) /\ InXsd(WeatherT, EnumWeather, e.w)
                                 /\ InXsd(UndergroundT, EnumUnderground, e.u)
  /\ \A t \in Range(d.hdr.tags) : InXsd(TagT, EnumTags, t)
  /\ \A la \in Range(d.lanelets) : /\ Len(la.types) >= 1                                           \* 349
                                   /\ \A t \in Range(la.types) : InXsd(LaneletTypeT, EnumLaneletType, t)
                                   /\ \A u \in Range(la.uow) \cup Range(la.ubi) : InXsd(RoadUserT, EnumVehicleType, u)
  /\ \A s \in Range(d.signs) : /\ \A e \in Range(s.els) : e.id.v \in EnumTrafficSignID /\ e.id.c \in CountryClass[d.hdr.cid]
                               /\ \E la \in Range(d.lanelets) : s.id \in Range(la.signs)     \* 2020a: a sign is referenced by a lanelet
  /\ \A x \in Range(d.inters) : \A inc \in Range(x.incs) : Len(inc.lan) >= 1                      \* 701
  /\ \A o \in Range(d.obstacles) :
       /\ o.role = "static" => /\ InXsd(ObstacleTypeT, EnumTypeStatic, o.type) /\ o.iss = <<>> /\ o.ser = <<>>   \* 731-746
                               /\ XmlStateOK(o.init, 0)
       /\ o.role = "dynamic" => /\ InXsd(ObstacleTypeT, EnumTypeDynamic, o.type) /\ o.pred.k \in {"traj", "set"}  \* 747-792
                                /\ XmlStateOK(o.init, 0)
                                /\ o.pred.k = "traj" => \A st \in Range(o.pred.states) : XmlStateOK(st, 1)
       /\ o.role = "environment" => InXsd(ObstacleTypeT, EnumTypeEnv, o.type)                                   \* 794-808
       /\ o.role = "phantom" => o.pred.k = "set"                                                                \* 810-821
  /\ \A p \in Range(d.pps) :
       /\ PopSet(p.init) \in {{"position", "velocity", "orientation", "yaw_rate", "slip_angle"},
                              {"position", "velocity", "orientation", "yaw_rate", "slip_angle", "acceleration"}}   \* 226-236
       /\ \A a \in PopSet(p.init) : Val(p.init, a).k = "exact"
       /\ \A gl \in Range(p.goals) : /\ gl.st.t.k = "interval" /\ gl.st.t.hi >= 1                              \* 237-244
                                     /\ PopSet(gl.st) \subseteq {"position", "orientation", "velocity"}
                                     /\ \A a \in PopSet(gl.st) \ {"position"} : Val(gl.st, a).k = "interval"
                                     /\ Has(gl.st, "position") => /\ Val(gl.st, "position").k \in {"region", "lanelets"}
                                                                  /\ Val(gl.st, "position").k = "region" => Homogeneous(Val(gl.st, "position").sh)
PbExpressible(d) ==
  /\ WellFormed(d)
  /\ \A e \in Range(d.hdr.env) : e.tod \in PbEnums.TimeOfDay /\ e.w \in PbEnums.Weather /\ e.u \in PbEnums.Underground
  /\ \A s \in Range(d.signs) : \A e \in Range(s.els) : e.id.pb
  /\ \A sq \in Range(AllStates(d)) : /\ \A a \in PopSet(sq[1]) : AttrPb(a)
                                     /\ Has(sq[1], "position") => Val(sq[1], "position").k # "lanelets" \/ TRUE
=============================================================================
