------------------------------ MODULE Codec ------------------------------
(* C01 / C02 / C03 - the scenario file formats (XML 2020a, protobuf) as a CONTRACT over scenario DESCRIPTORS.   *)
(*                                                                                                            *)
(* Functional core, no variables.  Written from the property statements, the shipped XSD (Xsd2020a.tla) and   *)
(* the shipped .proto files - not from the reader / writer code.                                              *)
(*                                                                                                            *)
(* A descriptor is a record of component descriptors                                                          *)
(*    [hdr, lanelets, signs, lights, inters, obstacles, pps]                                                  *)
(* whose leaves are TOKENS: enumeration member NAMES, booleans 0/1, ids, presence (sequences of length 0/1),  *)
(* value kinds (exact / interval / region), time steps and NUMBER TOKENS (NumToks; the harness maps a token   *)
(* to a concrete float from a fixed table).  Fields named `g` only steer the concretisation (e.g. pass None   *)
(* instead of an empty set) and are not content.                                                              *)
(*                                                                                                            *)
(* Content is compared as LEAVES: Leaves(desc) is the sequence of <<kind, key, path, value>> (all strings) a   *)
(* scenario exposes through its public accessors, in a fixed traversal order; the harness computes the same   *)
(* sequence from real objects (alpha).  A real-valued leaf has value "r" ("r0": the documented default 0 of    *)
(* an initial state); in a read-back projection it carries the closeness class instead.                       *)
(*    XmlCarried / PbCarried(leaf)   which leaves the format has an element / attribute / field for           *)
(*    XmlExpressible / PbExpressible what the schema / the .proto enums can express (the quantifier)          *)
(*    ReadBack(desc)                 expected descriptor after write -> read (reader default of initial states) *)
(*    Expected(fmt, desc)            = carried leaves of ReadBack(desc)                                        *)
(*    MatchStateClass / Populated    which attributes a read-back state populates                             *)
(*    AbstractDoc(desc)              the XML document (element entries of Xsd2020a) the contract demands       *)
EXTENDS Xsd2020a, SequencesExt          \* Range(f) == {f[x] : x \in DOMAIN f} comes with Functions

Cat(ss) == FlattenSeq(ss)                                                        \* flatten one level (no deep recursion)
Map(s, Op(_)) == [i \in DOMAIN s |-> Op(s[i])]
MapI(s, Op(_, _)) == [i \in DOMAIN s |-> Op(s[i], i)]
RECURSIVE JoinS(_, _)
JoinS(s, sep) == IF s = <<>> THEN "" ELSE IF Len(s) = 1 THEN s[1] ELSE s[1] \o sep \o JoinS(Tail(s), sep)
B(x) == IF x THEN "1" ELSE "0"
I2S(i) == ToString(i)

(* ------------------------------ enumerations: <<member NAME, xml value>> in master order ------------------ *)
LineMarkingT == << <<"DASHED", "dashed">>, <<"SOLID", "solid">>, <<"SOLID_SOLID", "solid_solid">>,
                   <<"DASHED_DASHED", "dashed_dashed">>, <<"SOLID_DASHED", "solid_dashed">>,
                   <<"DASHED_SOLID", "dashed_solid">>, <<"CURB", "curb">>, <<"LOWERED_CURB", "lowered_curb">>,
                   <<"BROAD_DASHED", "broad_dashed">>, <<"BROAD_SOLID", "broad_solid">>, <<"UNKNOWN", "unknown">>,
                   <<"NO_MARKING", "no_marking">> >>
LaneletTypeT == << <<"URBAN", "urban">>, <<"COUNTRY", "country">>, <<"HIGHWAY", "highway">>, <<"DRIVE_WAY", "driveWay">>,
                   <<"MAIN_CARRIAGE_WAY", "mainCarriageWay">>, <<"ACCESS_RAMP", "accessRamp">>,
                   <<"EXIT_RAMP", "exitRamp">>, <<"SHOULDER", "shoulder">>, <<"BUS_LANE", "busLane">>,
                   <<"BUS_STOP", "busStop">>, <<"BICYCLE_LANE", "bicycleLane">>, <<"SIDEWALK", "sidewalk">>,
                   <<"CROSSWALK", "crosswalk">>, <<"INTERSTATE", "interstate">>, <<"INTERSECTION", "intersection">>,
                   <<"BORDER", "border">>, <<"PARKING", "parking">>, <<"RESTRICTED", "restricted">>,
                   <<"RESTRICTED_AREA", "restricted_area">>, <<"UNKNOWN", "unknown">> >>
RoadUserT == << <<"VEHICLE", "vehicle">>, <<"CAR", "car">>, <<"TRUCK", "truck">>, <<"BUS", "bus">>,
                <<"PRIORITY_VEHICLE", "priorityVehicle">>, <<"MOTORCYCLE", "motorcycle">>, <<"BICYCLE", "bicycle">>,
                <<"PEDESTRIAN", "pedestrian">>, <<"TRAIN", "train">>, <<"TAXI", "taxi">> >>
ObstacleTypeT == << <<"UNKNOWN", "unknown">>, <<"CAR", "car">>, <<"TRUCK", "truck">>, <<"BUS", "bus">>,
                    <<"BICYCLE", "bicycle">>, <<"PEDESTRIAN", "pedestrian">>, <<"PRIORITY_VEHICLE", "priorityVehicle">>,
                    <<"PARKED_VEHICLE", "parkedVehicle">>, <<"CONSTRUCTION_ZONE", "constructionZone">>,
                    <<"TRAIN", "train">>, <<"ROAD_BOUNDARY", "roadBoundary">>, <<"MOTORCYCLE", "motorcycle">>,
                    <<"TAXI", "taxi">>, <<"BUILDING", "building">>, <<"PILLAR", "pillar">>,
                    <<"MEDIAN_STRIP", "median_strip">> >>
TagT == << <<"INTERSTATE", "interstate">>, <<"URBAN", "urban">>, <<"HIGHWAY", "highway">>, <<"COMFORT", "comfort">>,
           <<"CRITICAL", "critical">>, <<"EVASIVE", "evasive">>, <<"CUT_IN", "cut_in">>,
           <<"ILLEGAL_CUTIN", "illegal_cutin">>, <<"INTERSECTION", "intersection">>, <<"LANE_CHANGE", "lane_change">>,
           <<"LANE_FOLLOWING", "lane_following">>, <<"MERGING_LANES", "merging_lanes">>, <<"MULTI_LANE", "multi_lane">>,
           <<"ONCOMING_TRAFFIC", "oncoming_traffic">>, <<"NO_ONCOMING_TRAFFIC", "no_oncoming_traffic">>,
           <<"PARALLEL_LANES", "parallel_lanes">>, <<"RACE_TRACK", "race_track">>, <<"ROUNDABOUT", "roundabout">>,
           <<"RURAL", "rural">>, <<"SIMULATED", "simulated">>, <<"SINGLE_LANE", "single_lane">>,
           <<"SLIP_ROAD", "slip_road">>, <<"SPEED_LIMIT", "speed_limit">>, <<"TRAFFIC_JAM", "traffic_jam">>,
           <<"TURN_LEFT", "turn_left">>, <<"TURN_RIGHT", "turn_right">>, <<"TWO_LANE", "two_lane">>,
           <<"EMERGENCY_BRAKING", "emergency_braking">> >>
TimeOfDayT == << <<"NIGHT", "night">>, <<"SUNSET", "sunset">>, <<"AFTERNOON", "afternoon">>, <<"NOON", "noon">>,
                 <<"MORNING", "morning">>, <<"UNKNOWN", "unknown">> >>
WeatherT == << <<"CLEAR", "clear">>, <<"LIGHT_RAIN", "light_rain">>, <<"MID_RAIN", "mid_rain">>,
               <<"HEAVY_RAIN", "heavy_rain">>, <<"FOG", "fog">>, <<"SNOW", "snow">>, <<"HAIL", "hail">>,
               <<"CLOUDY", "cloudy">>, <<"UNKNOWN", "unknown">> >>
UndergroundT == << <<"WET", "wet">>, <<"CLEAN", "clean">>, <<"DIRTY", "dirty">>, <<"DAMAGED", "damaged">>,
                   <<"SNOW", "snow">>, <<"ICE", "ice">>, <<"UNKNOWN", "unknown">> >>
LightDirT == << <<"RIGHT", "right">>, <<"STRAIGHT", "straight">>, <<"LEFT", "left">>,
                <<"LEFT_STRAIGHT", "leftStraight">>, <<"STRAIGHT_RIGHT", "straightRight">>,
                <<"LEFT_RIGHT", "leftRight">>, <<"ALL", "all">> >>
LightStateT == << <<"RED", "red">>, <<"YELLOW", "yellow">>, <<"RED_YELLOW", "redYellow">>, <<"GREEN", "green">>,
                  <<"INACTIVE", "inactive">> >>
Names(Tb) == [i \in DOMAIN Tb |-> Tb[i][1]]
NameSet(Tb) == {Tb[i][1] : i \in DOMAIN Tb}
XmlVal(Tb, name) == Tb[CHOOSE i \in DOMAIN Tb : Tb[i][1] = name][2]
EnumTables == [LineMarking |-> LineMarkingT, LaneletType |-> LaneletTypeT, RoadUser |-> RoadUserT,
               ObstacleType |-> ObstacleTypeT, Tag |-> TagT, TimeOfDay |-> TimeOfDayT, Weather |-> WeatherT,
               Underground |-> UndergroundT, TrafficLightDirection |-> LightDirT, TrafficLightState |-> LightStateT]

(* member NAMES of the enums of the shipped .proto files (lanelet, obstacle, scenario_tags, location, traffic_light) *)
PbEnums == [LineMarking |-> NameSet(LineMarkingT), LaneletType |-> NameSet(LaneletTypeT), RoadUser |-> NameSet(RoadUserT),
            ObstacleType |-> NameSet(ObstacleTypeT), Tag |-> NameSet(TagT),
            TimeOfDay |-> {"NIGHT", "DAY", "UNKNOWN"},                                            \* location.proto
            Weather |-> {"SUNNY", "LIGHT_RAIN", "HEAVY_AIN", "FOG", "SNOW", "HAIL", "UNKNOWN"},   \* sic
            Underground |-> NameSet(UndergroundT), TrafficLightDirection |-> NameSet(LightDirT),
            TrafficLightState |-> NameSet(LightStateT)]

(* sample of traffic sign element ids: enum class, member NAME, value; pb = the .proto enum of that class has the NAME *)
SignId(c, n, v, pb) == [c |-> c, n |-> n, v |-> v, pb |-> pb]
SignIdT == << SignId("TrafficSignIDGermany", "MAX_SPEED", "274", TRUE), SignId("TrafficSignIDGermany", "STOP", "206", TRUE),
              SignId("TrafficSignIDGermany", "YIELD", "205", TRUE), SignId("TrafficSignIDGermany", "TOWN_SIGN", "310", TRUE),
              SignId("TrafficSignIDGermany", "PRIORITY", "306", TRUE),
              SignId("TrafficSignIDGermany", "ADDITION_SCHOOL", "1012-50", TRUE),            \* value not in the XSD
              SignId("TrafficSignIDGermany", "EMERGENCY_STOP", "328", FALSE),                \* .proto: EMERYGECNY_STOP
              SignId("TrafficSignIDUsa", "MAX_SPEED", "R2-1", TRUE), SignId("TrafficSignIDUsa", "U_TURN", "R3-4", TRUE),
              SignId("TrafficSignIDUsa", "STOP", "R1-1", FALSE),                             \* neither XSD nor .proto
              SignId("TrafficSignIDSpain", "STOP", "r2", TRUE), SignId("TrafficSignIDSpain", "YIELD", "r1", TRUE),
              SignId("TrafficSignIDChina", "MAX_SPEED", "274", TRUE) >>
(* every member of TrafficSignIDGermany (= TrafficSignIDZamunda): NAME, value, member of the .proto enum? *)
G(n, v, pb) == SignId("TrafficSignIDGermany", n, v, pb)
SignIdGermanyT ==
<< G("WARNING_DANGER_SPOT", "101", TRUE), G("WARNING_RIGHT_BEFORE_LEFT", "102", TRUE),
   G("WARNING_LEFT_CURVE", "103-10", TRUE), G("WARNING_RIGHT_CURVE", "103-20", TRUE),
   G("WARNING_STEEP_HILL_DOWNWARDS", "108", TRUE), G("WARNING_SLIPPERY_ROAD", "114", TRUE),
   G("WARNING_CONSTRUCTION_SITE", "123", TRUE), G("WARNING_TRAFFIC_QUEUES_LIKELY", "124", TRUE),
   G("WARNING_ONCOMING_TRAFFIC", "125", TRUE), G("WARNING_TRAFFIC_LIGHTS_AHEAD", "131", TRUE),
   G("WARNING_PEDESTRIANS_RIGHT", "133-10", TRUE), G("WARNING_PEDESTRIANS_LEFT", "133-20", TRUE),
   G("WARNING_CROSSING_CYCLIST", "138", TRUE), G("WARNING_ANIMAL_CROSSING_RIGHT", "142-10", TRUE),
   G("WARNING_LOOSE_GRAVEL", "145-50", TRUE), G("RAILWAY", "201", TRUE), G("YIELD", "205", TRUE),
   G("STOP", "206", TRUE), G("PRIORITY_OPPOSITE_DIRECTION", "208", TRUE), G("TURN_RIGHT_AHEAD", "209-10", TRUE),
   G("TURN_LEFT_AHEAD", "209-20", TRUE), G("KEEP_STRAIGHT_AHEAD", "209-30", TRUE),
   G("PRESCRIBED_DIRECTION_RIGHT", "211-20", TRUE), G("ROUNDABOUT", "215", TRUE), G("ONEWAY_RIGHT", "220-10", TRUE),
   G("ONEWAY_LEFT", "220-20", TRUE), G("PRESCRIBED_PASSING_LEFT", "222-10", TRUE),
   G("PRESCRIBED_PASSING_RIGHT", "222-20", TRUE), G("DO_NOT_DRIVE_ON_SHOULDER_LANE", "223.2", TRUE),
   G("DO_NOT_DRIVE_ON_SHOULDER_LANE_2_LANE", "223.2-50", TRUE),
   G("DO_NOT_DRIVE_ON_SHOULDER_LANE_3_LANE", "223.2-51", TRUE), G("BUS_STOP", "224-50", TRUE),
   G("BIKEWAY", "237", TRUE), G("PEDESTRIAN_SIDEWALK", "239", TRUE), G("PEDESTRIAN_AND_BICYCLE_ROAD", "240", TRUE),
   G("PEDESTRIAN_ZONE_START", "242.1", TRUE), G("PEDESTRIAN_ZONE_END", "242.2", TRUE),
   G("BICYCLE_ROAD_START", "244.1", TRUE), G("BICYCLE_ROAD_END", "244.2", TRUE), G("BUS_LANE", "245", TRUE),
   G("BAN_ALL_VEHICLES", "250", TRUE), G("BAN_CARS", "251", TRUE), G("BAN_TRUCKS", "253", TRUE),
   G("BAN_BICYCLE", "254", TRUE), G("BAN_MOTORCYCLE", "255", TRUE), G("BAN_BUS", "257-54", TRUE),
   G("BAN_PEDESTRIAN", "259", TRUE), G("BAN_CAR_TRUCK_BUS_MOTORCYCLE", "260", TRUE),
   G("BAN_VEHICLES_CARRYING_DANGEROUS_GOODS", "261", TRUE), G("MAX_WEIGHT", "262", TRUE), G("MAX_WIDTH", "264", TRUE),
   G("MAX_HEIGHT", "265", TRUE), G("MAX_LENGTH", "266", TRUE), G("NO_ENTRY", "267", TRUE),
   G("ENVIRONMENTAL_ZONE_START", "270.1", TRUE), G("ENVIRONMENTAL_ZONE_END", "270.2", TRUE), G("U_TURN", "272", TRUE),
   G("MAX_SPEED", "274", TRUE), G("MAX_SPEED_ZONE_START", "274.1", TRUE), G("MAX_SPEED_ZONE_END", "274.2", TRUE),
   G("MIN_SPEED", "275", TRUE), G("NO_OVERTAKING_START", "276", TRUE), G("NO_OVERTAKING_TRUCKS_START", "277", TRUE),
   G("MAX_SPEED_END", "278", TRUE), G("NO_OVERTAKING_END", "280", TRUE), G("NO_OVERTAKING_TRUCKS_END", "281", TRUE),
   G("ALL_MAX_SPEED_AND_OVERTAKING_END", "282", TRUE), G("NO_STOP_START_RIGHT", "283-10", TRUE),
   G("NO_STOP_CENTER_RIGHT", "283-30", TRUE), G("RESTRICTED_STOP_CENTER_RIGHT", "286-30", TRUE),
   G("RIGHT_OF_WAY", "301", TRUE), G("PRIORITY", "306", TRUE), G("PRIORITY_OVER_ONCOMING", "308", TRUE),
   G("TOWN_SIGN", "310", TRUE), G("TOWN_SIGN_BACK", "311", TRUE), G("PARKING_AREA", "314", TRUE),
   G("PARKING_AREA_LEFT", "314-10", TRUE), G("PARKING_AREA_RIGHT", "314-20", TRUE),
   G("PARKING_AREA_RIGHT_LEFT", "314-30", TRUE), G("TRAFFIC_CALMED_AREA_START", "325.1", TRUE),
   G("TRAFFIC_CALMED_AREA_END", "325.2", TRUE), G("TUNNEL", "327", TRUE), G("EMERGENCY_STOP", "328", FALSE),
   G("INTERSTATE_START", "330.1", TRUE), G("INTERSTATE_END", "330.2", TRUE), G("HIGHWAY_START", "331.1", TRUE),
   G("HIGHWAY_END", "331.2", TRUE), G("HIGHWAY_EXIT_WITH_PLACE_NAME", "332", TRUE), G("EXIT_ROUTE", "332.1", TRUE),
   G("HIGHWAY_EXIT", "333", TRUE), G("EXIT_BUILT_UP", "333-21", TRUE), G("EXIT_GENERAL", "333-22", TRUE),
   G("PEDESTRIANS_CROSSING", "350", TRUE), G("WATER_PROTECTION_ZONE", "354", TRUE),
   G("TRAFFIC_ASSISTANTS", "356", TRUE), G("DEAD_END", "357", TRUE), G("POLICE", "363", TRUE),
   G("EMERGENCY_CALL_STATION", "365-51", TRUE), G("GAS_STATION", "365-52", TRUE),
   G("CAMP_AND_CARAVAN_SITE", "365-60", TRUE), G("ATTRACTION_POINT", "386.1", TRUE),
   G("TOURISTIC_ROUTE", "386.2", TRUE), G("NEARBY_ATTRACTION_POINT", "386.3", TRUE),
   G("HIGHWAY_INTERSECTION", "406-50", TRUE), G("DIRECTION_ARROW_SIGN_MULTI", "418-20", TRUE),
   G("DIRECTION_ARROW_SIGN_SINGLE", "419-20", TRUE), G("DIRECTION_SIGN_CONSOLIDATED", "434-50", TRUE),
   G("EXPRESSWAY_ARROW_DIRECTION", "430-20", TRUE), G("ARROW_SIGN_POST_POINT_OF_INTEREST_LEFT", "432-10", TRUE),
   G("STATION", "432-20", TRUE), G("GUIDE_SIGN_TABLE", "434", TRUE), G("ADVANCE_DIRECTION", "438", TRUE),
   G("DIRECTIONS_SIGN", "439", TRUE), G("EXPRESSWAY_ENTRANCE_DIRECTIONS", "440", TRUE),
   G("INTERSTATE_ANNOUNCEMENT", "448", TRUE), G("INTERSTATE_ADVANCE_DIRECTION", "449", TRUE),
   G("HIGHWAY_EXIT_AHEAD_100_METER", "450-50", TRUE), G("HIGHWAY_EXIT_AHEAD_200_METER", "450-51", TRUE),
   G("HIGHWAY_EXIT_AHEAD_300_METER", "450-52", TRUE), G("EXPRESSWAY_EXIT_100_METRES", "450-53", TRUE),
   G("EXPRESSWAY_EXIT_200_METRES", "450-54", TRUE), G("EXPRESSWAY_EXIT_300_METRES", "450-55", TRUE),
   G("INTERSTATE_DISTANCE", "453", TRUE), G("DETOUR_SKETCH", "458", TRUE), G("DETOUR_STRAIGHT", "455.1-30", TRUE),
   G("DETOUR_ON_DEMAND_LEFT", "460-10", TRUE), G("DETOUR_ON_DEMAND_GET_IN_LEFT_LANE", "460-12", TRUE),
   G("DETOUR_ON_DEMAND_ANNOUNCEMENT_RIGHT", "460-20", TRUE), G("DETOUR_ON_DEMAND_RIGHT", "460-21", TRUE),
   G("DETOUR_ON_DEMAND_GET_IN_RIGHT_LANE", "460-22", TRUE), G("DETOUR_ON_DEMAND_STRAIGHTFORWARD", "460-30", TRUE),
   G("TRANSITION_3_LEFT_2_TRANSITIONED", "501-15", TRUE), G("TRANSITION_1_LEFT_1_STRAIGHT", "501-16", TRUE),
   G("TRANSITION_3_RIGHT", "511-22", TRUE), G("LANE_BOARD_NO_OPPOSITE_TWO_LANES", "521-30", TRUE),
   G("THREE_LANES_NO_ONCOMING_LANES", "521-31", TRUE), G("FOUR_LANES_NO_ONCOMING_LANES", "521-32", TRUE),
   G("FIVE_LANES_NO_ONCOMING_LANES", "521-33", TRUE), G("LANE_BOARD_3_LANES_NO_OPPOSITE_WITH_SIGNS", "525", TRUE),
   G("NARROWING_LANES_1_LANE_FROM_RIGHT", "531-10", TRUE), G("NARROWING_LANES_1_LANE_FROM_LEFT", "531-20", TRUE),
   G("NARROWING_LANES_2_LANES_PLUS_1_LEFT", "531-21", TRUE),
   G("FOUR_LANES_NO_ONCOMING_TRAFFIC_TWO_RIGHT_LANES_TURN_RIGHT", "533-22", TRUE),
   G("MERGING_LANES_1_LANE_PLUS_1_LANE_RIGHT", "550-20", TRUE), G("BARRIER", "600-35", TRUE),
   G("BARRIER_GATE_100_800", "600-30", TRUE), G("BARRIER_GATE_100_1200", "600-31", TRUE),
   G("BARRIER_GATE_100_1600", "600-32", TRUE), G("BARRIER_GATE_250_1600", "600-34", TRUE),
   G("BARRIER_GATE", "600-38", TRUE), G("ROAD_WARNING_POST_SCRAPER_BEACON_RIGHT", "605-10", TRUE),
   G("ROAD_WARNING_POST_ARROW_BEACON_RIGHT", "605-11", TRUE),
   G("ROAD_WARNING_POST_SCRAPER_BEACON_LEFT", "605-20", TRUE),
   G("ROAD_WARNING_POST_SCRAPER_BEACON_ARROW_RIGHT", "605-21", TRUE),
   G("ROAD_WARNING_POST_GUIDE_UP_THREE_ARROWS", "605-31", TRUE), G("DIRECTION_SIGN_LEFT_SINGLE", "625-10", TRUE),
   G("DIRECTION_SIGN_LEFT_SMALL", "625-11", TRUE), G("DIRECTION_SIGN_LEFT_MEDIUM", "625-12", TRUE),
   G("DIRECTION_SIGN_LEFT_LARGE", "625-13", TRUE), G("DIRECTION_SIGN_RIGHT_SINGLE", "625-20", TRUE),
   G("DIRECTION_SIGN_RIGHT_SMALL", "625-21", TRUE), G("DIRECTION_SIGN_RIGHT_MEDIUM", "625-22", TRUE),
   G("DIRECTION_SIGN_RIGHT_LARGE", "625-23", TRUE), G("WARNING_PANEL_RIGHT", "626-10", TRUE),
   G("WARNING_PANEL_LEFT", "626-20", TRUE), G("WARNING_PANEL_STRAIGHT_BROAD", "626-30", TRUE),
   G("WARNING_PANEL_STRAIGHT_HIGH", "626-31", TRUE), G("GUIDE_SILL_WITH_GUIDE_BEACON_RIGHT", "628-10", TRUE),
   G("GUIDE_RAIL_WITH_GUIDE_BEACON_RIGHT", "629-10", TRUE), G("GUIDE_PANEL_WITH_GUIDE_BEACON_RIGHT", "629-20", TRUE),
   G("GREEN_ARROW", "720", TRUE), G("ADDITION_LEFT_DIRECTION", "1000", TRUE),
   G("ADDITION_LEFT_DIRECTION_1", "1000-10", TRUE), G("ADDITION_LEFT_DIRECTION_DANGER_POINT", "1000-11", TRUE),
   G("ADDITION_RIGHT_DIRECTION_1", "1000-20", TRUE), G("ADDITION_RIGHT_DIRECTION_DANGER_POINT", "1000-21", TRUE),
   G("ADDITION_BOTH_DIRECTIONS_HORIZONTAL", "1000-30", TRUE), G("ADDITION_BOTH_DIRECTIONS_VERTICAL", "1000-31", TRUE),
   G("ADDITION_VALID_FOR_X_METERS", "1001-30", TRUE), G("ADDITION_VALID_FOR_X_KILOMETERS", "1001-31", TRUE),
   G("ADDITION_LEFT_TURNING_PRIORITY_WITH_OPPOSITE_RIGHT_YIELD", "1002-10", TRUE),
   G("ADDITION_LEFT_TRAFFIC_PRIORITY_WITH_STRAIGHT_RIGHT_YIELD", "1002-11", TRUE),
   G("ADDITION_LEFT_TURNING_PRIORITY_WITH_OPPOSITE_YIELD", "1002-12", TRUE),
   G("ADDITION_LEFT_TURNING_PRIORITY_WITH_RIGHT_YIELD", "1002-13", TRUE),
   G("ADDITION_LEFT_TRAFFIC_PRIORITY_WITH_STRAIGHT_YIELD", "1002-14", TRUE),
   G("ADDITION_RIGHT_TURNING_PRIORITY_WITH_OPPOSITE_LEFT_YIELD", "1002-20", TRUE),
   G("ADDITION_RIGHT_TRAFFIC_PRIORITY_WITH_STRAIGHT_LEFT_YIELD", "1002-21", TRUE),
   G("ADDITION_RIGHT_TURNING_PRIORITY_WITH_OPPOSITE_YIELD", "1002-22", TRUE),
   G("ADDITION_RIGHT_TURNING_PRIORITY_WITH_LEFT_YIELD", "1002-23", TRUE),
   G("ADDITION_RIGHT_TRAFFIC_PRIORITY_WITH_STRAIGHT_YIELD", "1002-24", TRUE),
   G("ADDITION_VALID_IN_X_METERS", "1004-30", TRUE), G("ADDITION_VALID_IN_X_KILOMETERS", "1004-31", TRUE),
   G("ADDITION_VALID_IN_200_KILOMETERS", "1004-32", TRUE), G("ADDITION_VALID_IN_400_METRES", "1004-33", TRUE),
   G("ADDITION_VALID_IN_600_METRES", "1004-34", TRUE), G("ADDITION_VALID_IN_2_KILOMETERS", "1004-35", TRUE),
   G("ADDITION_OIL_ON_ROAD", "1006-30", TRUE), G("ADDITION_SMOKE", "1006-31", TRUE),
   G("ADDITION_LOOSE_GRAVEL", "1006-32", TRUE), G("ADDITION_BUILDING_SITE_EXIT", "1006-33", TRUE),
   G("ADDITION_DAMAGED_ROAD", "1006-34", TRUE), G("ADDITION_DIRTY_ROAD", "1006-35", TRUE),
   G("ADDITION_DANGER_OF_COLLISION", "1006-36", TRUE), G("ADDITION_TOAD_MIGRATION", "1006-37", TRUE),
   G("ADDITION_DANGER_OF_CONGESTION", "1006-38", TRUE), G("ADDITION_RESTRICTED_VIEW_DUE_TO_TREES", "1006-39", TRUE),
   G("DANGER_INDICATION_SMOKE", "1007-31", TRUE), G("ADDITION_CHILDREN_PLAYING_ON_ROAD", "1010-10", TRUE),
   G("ADDITION_WINTER_SPORTS_ALLOWED", "1010-11", TRUE),
   G("ADDITION_TRAILERS_ALLOWED_TO_PARK_MORE_THAN_14_DAYS", "1010-12", TRUE),
   G("ADDITION_CARAVANS_ALLOWED_TO_PARK_MORE_THAN_14_DAYS", "1010-13", TRUE),
   G("ADDITION_ROLLING_HIGHWAY", "1010-14", TRUE), G("ADDITION_LOADING_AREA", "1012-30", TRUE),
   G("ADDITION_END", "1012-31", TRUE), G("ADDITION_GET_OFF_BICYCLES", "1012-32", TRUE),
   G("ADDITION_NO_MOPEDS", "1012-33", TRUE), G("ADDITION_GREEN_WAVE_AT_KM_H", "1012-34", TRUE),
   G("ADDITION_STOP_HERE_AT_RED", "1012-35", TRUE), G("ADDITION_NOISE_CONTROL", "1012-36", TRUE),
   G("ADDITION_INFLOW_REGULATION", "1012-37", TRUE), G("ADDITION_SECONDARY_LANE", "1012-38", TRUE),
   G("ADDITION_SCHOOL", "1012-50", TRUE), G("ADDITION_KINDERGARTEN", "1012-51", TRUE),
   G("ADDITION_RETIREMENT_HOME", "1012-52", TRUE), G("ADDITION_HOSPITAL", "1012-53", TRUE),
   G("ADDITION_RESIDENTS_PERMITTED", "1020-30", TRUE), G("ADDITION_BICYCLES_PERMITTED", "1022-10", TRUE),
   G("ADDITION_CARS_PERMITTED", "1024-10", TRUE), G("ADDITION_AGRICULTURE_PERMITTED", "1026-36", TRUE),
   G("ADDITION_FOREST_PERMITTED", "1026-37", TRUE), G("ADDITION_AGRICULTURE_FOREST_PERMITTED", "1026-38", TRUE),
   G("ADDITION_GREEN_STICKER_PERMITTED", "1031-52", TRUE), G("ADDITION_TIME_PERIOD_PERMITTED", "1040-30", TRUE),
   G("ADDITION_MOTOR_VEHICLES_ALLOWED_MASS_3_5_TONS", "1048-12", TRUE),
   G("ADDITION_MIN_MASS_3_5_TONS", "1049-13", TRUE), G("ADDITION_NO_WATER_POLLUTANTS_LOADED", "1052-31", TRUE),
   G("ALLOWED_MASS_7_5_TONS", "1053-33", TRUE), G("ADDITION_VALID_ON_SHOULDER", "1053-34", TRUE),
   G("ADDITION_VALID_WHEN_WET", "1053-35", TRUE), G("LINE_MARKING_MISSING", "2113", TRUE), G("UNKNOWN", "", TRUE) >>
(* (TrafficSignIDZamunda is an alias of TrafficSignIDGermany.)  Enum class the XML reader can name for a country code (the format stores only the value; the benchmark id the country) *)
CountryClass == [ZAM |-> {"TrafficSignIDGermany"}, DEU |-> {"TrafficSignIDGermany"},
                 USA |-> {"TrafficSignIDUsa"}, ESP |-> {"TrafficSignIDSpain"}, CHN |-> {"TrafficSignIDChina"}]

(* ------------------------------ numbers ------------------------------------------------------------------- *)
NumToks == <<"zero", "one", "tenth", "half", "ordinary", "tiny", "small", "big", "long", "neg", "angle">>
(* near twins: differ from their partner by less than 1e-10 (or by the sign of zero) but are different doubles - shapes *)
(* compare equal on 10 decimals, the protobuf format must still reproduce every bit                                   *)
NearPairs == {<<"zero", "negzero">>, <<"ordinary", "ordinary2">>, <<"one", "one2">>, <<"half", "half2">>, <<"p3", "p3b">>,
              <<"angle", "angle2">>}
NearToks == <<"negzero", "ordinary2", "one2", "half2", "p3", "p3b", "angle2">>
PositiveToks == {"one", "tenth", "half", "ordinary", "tiny", "small", "big", "long", "angle", "ordinary2", "one2", "half2", "p3", "p3b", "angle2"}
NumLex(t) == IF t \in {"zero", "default0", "negzero"} THEN "dec0" ELSE IF t = "neg" THEN "dec-" ELSE "dec+"   \* plain decimal, never "exp"
(* interval end points: lo < hi for the concrete table *)
IntervalPairs == {<<"neg", "one">>, <<"zero", "ordinary">>, <<"tiny", "small">>, <<"one", "big">>, <<"half", "angle">>}
(* orientations of shapes lie in [-2pi, 2pi], angle intervals are at most 2pi long (documented constructor preconditions) *)
AngleToks  == {"zero", "one", "tenth", "half", "tiny", "small", "neg", "angle", "negzero", "one2", "half2", "p3", "p3b", "angle2"}
AnglePairs == {<<"neg", "one">>, <<"tiny", "small">>, <<"half", "angle">>}

(* ------------------------------ state attributes ------------------------------------------------------------ *)
(* <<attribute of the public state classes, short path name, XSD element ("" = none), field of obstacle.proto State?>> *)
AttrT == << <<"position", "position", "position", TRUE>>, <<"orientation", "orientation", "orientation", TRUE>>,
            <<"velocity", "velocity", "velocity", TRUE>>, <<"acceleration", "acceleration", "acceleration", TRUE>>,
            <<"yaw_rate", "yawRate", "yawRate", TRUE>>, <<"slip_angle", "slipAngle", "slipAngle", TRUE>>,
            <<"steering_angle", "steerAngle", "steeringAngle", TRUE>>, <<"roll_angle", "rollAngle", "rollAngle", TRUE>>,
            <<"roll_rate", "rollRate", "rollRate", TRUE>>, <<"pitch_angle", "pitchAngle", "pitchAngle", TRUE>>,
            <<"pitch_rate", "pitchRate", "pitchRate", TRUE>>, <<"velocity_y", "velocityY", "velocityY", TRUE>>,
            <<"position_z", "positionZ", "positionZ", TRUE>>, <<"velocity_z", "velocityZ", "velocityZ", TRUE>>,
            <<"roll_angle_front", "rollAngleF", "rollAngleFront", TRUE>>, <<"roll_rate_front", "rollRateF", "rollRateFront", TRUE>>,
            <<"velocity_y_front", "velocityYF", "velocityYFront", TRUE>>, <<"position_z_front", "positionZF", "positionZFront", TRUE>>,
            <<"velocity_z_front", "velocityZF", "velocityZFront", TRUE>>, <<"roll_angle_rear", "rollAngleR", "rollAngleRear", TRUE>>,
            <<"roll_rate_rear", "rollRateR", "rollRateRear", TRUE>>, <<"velocity_y_rear", "velocityYR", "velocityYRear", TRUE>>,
            <<"position_z_rear", "positionZR", "positionZRear", TRUE>>, <<"velocity_z_rear", "velocityZR", "velocityZRear", TRUE>>,
            <<"left_front_wheel_angular_speed", "wheelSpeedLF", "leftFrontWheelAngularSpeed", TRUE>>,
            <<"right_front_wheel_angular_speed", "wheelSpeedRF", "rightFrontWheelAngularSpeed", TRUE>>,
            <<"left_rear_wheel_angular_speed", "wheelSpeedLR", "leftRearWheelAngularSpeed", TRUE>>,
            <<"right_rear_wheel_angular_speed", "wheelSpeedRR", "rightRearWheelAngularSpeed", TRUE>>,
            <<"delta_y_f", "deltaYF", "deltaYFront", TRUE>>, <<"delta_y_r", "deltaYR", "deltaYRear", TRUE>>,
            <<"curvature", "curvature", "curvature", TRUE>>, <<"curvature_rate", "curvRate", "curvatureChange", TRUE>>,
            <<"jerk", "jerk", "jerk", TRUE>>, <<"jounce", "jounce", "jounce", FALSE>>,
            <<"hitch_angle", "hitchAngle", "", FALSE>>, <<"steering_angle_speed", "steerSpeed", "", TRUE>>,
            <<"acceleration_y", "accelY", "", TRUE>>, <<"front_wheel_angular_speed", "wheelSpeedF", "", TRUE>>,
            <<"rear_wheel_angular_speed", "wheelSpeedR", "", TRUE>>, <<"lateral_position", "latPosition", "", FALSE>>,
            <<"longitudinal_position", "lonPosition", "", FALSE>>, <<"jerk_dot", "jerkDot", "", FALSE>>,
            <<"kappa_dot_dot", "kappaDotDot", "", FALSE>> >>
AttrOrder == [i \in DOMAIN AttrT |-> AttrT[i][1]]
AttrRow(a) == AttrT[CHOOSE i \in DOMAIN AttrT : AttrT[i][1] = a]
AttrShort(a) == AttrRow(a)[2]
AttrXml(a) == AttrRow(a)[3]
AttrPb(a) == AttrRow(a)[4]
InitialAttrs == <<"position", "orientation", "velocity", "acceleration", "yaw_rate", "slip_angle">>   \* InitialState

(* the public state classes (commonroad.scenario.state.SpecificStateClasses, in that order): attributes besides time_step *)
StateClassT ==
  << <<"InitialState", InitialAttrs>>, <<"PMState", <<"position", "velocity", "velocity_y">> >>,
     <<"KSState", <<"position", "steering_angle", "velocity", "orientation">> >>,
     <<"KSTState", <<"position", "steering_angle", "velocity", "orientation", "hitch_angle">> >>,
     <<"STState", <<"position", "steering_angle", "velocity", "orientation", "slip_angle", "yaw_rate">> >>,
     <<"STDState", <<"position", "steering_angle", "velocity", "orientation", "slip_angle", "yaw_rate",
                    "front_wheel_angular_speed", "rear_wheel_angular_speed">> >>,
     <<"MBState", <<"position", "steering_angle", "velocity", "orientation", "yaw_rate", "roll_angle", "roll_rate",
                   "pitch_angle", "pitch_rate", "velocity_y", "position_z", "velocity_z", "roll_angle_front",
                   "roll_rate_front", "velocity_y_front", "position_z_front", "velocity_z_front", "roll_angle_rear",
                   "roll_rate_rear", "velocity_y_rear", "position_z_rear", "velocity_z_rear",
                   "left_front_wheel_angular_speed", "right_front_wheel_angular_speed",
                   "left_rear_wheel_angular_speed", "right_rear_wheel_angular_speed", "delta_y_f", "delta_y_r">> >>,
     <<"InputState", <<"steering_angle_speed", "acceleration">> >>,
     <<"PMInputState", <<"acceleration", "acceleration_y">> >>,
     <<"LateralState", <<"lateral_position", "orientation", "curvature", "curvature_rate">> >>,
     <<"LongitudinalState", <<"longitudinal_position", "velocity", "acceleration", "jerk">> >>,
     <<"ExtendedPMState", <<"position", "velocity", "orientation", "acceleration">> >> >>
ClassAttrs(c) == IF c = "CustomState" THEN Range(AttrOrder)
                 ELSE Range(StateClassT[CHOOSE i \in DOMAIN StateClassT : StateClassT[i][1] = c][2])
StateClassNames == {StateClassT[i][1] : i \in DOMAIN StateClassT} \cup {"CustomState"}

SignalT == << <<"horn", "horn">>, <<"indicator_left", "indicatorLeft">>, <<"indicator_right", "indicatorRight">>,
              <<"braking_lights", "brakingLights">>, <<"hazard_warning_lights", "hazardLights">>,
              <<"flashing_blue_lights", "blueLights">> >>                       \* SignalState slot, short path name
SignalOrder == Names(SignalT)
SignalXml == [horn |-> "horn", indicator_left |-> "indicatorLeft", indicator_right |-> "indicatorRight",
              braking_lights |-> "brakingLights", hazard_warning_lights |-> "hazardWarningLights",
              flashing_blue_lights |-> "flashingBlueLights"]
MaxId == 99

(* ------------------------------ descriptor access ----------------------------------------------------------- *)
Has(st, a)  == \E i \in DOMAIN st.a : st.a[i].n = a                       \* state st populates attribute a
Val(st, a)  == st.a[CHOOSE i \in DOMAIN st.a : st.a[i].n = a].v
PopSet(st)  == {st.a[i].n : i \in DOMAIN st.a}                            \* populated attributes besides time_step
RECURSIVE SortIds(_)
SortIds(S)  == IF S = {} THEN <<>> ELSE LET m == CHOOSE x \in S : \A y \in S : x <= y IN <<m>> \o SortIds(S \ {m})
IdStr(ids)  == LET so == SortIds(Range(ids)) IN JoinS([i \in DOMAIN so |-> I2S(so[i])], ",")    \* id SET as text
NameStr(Tb, names) == JoinS(SelectSeq(Names(Tb), LAMBDA n : n \in Range(names)), ",")               \* enum SET as text
RECURSIVE KindOfShape(_)
KindOfShape(sh) == IF sh.k = "group" THEN "group:" \o JoinS([i \in DOMAIN sh.parts |-> sh.parts[i].k], "+") ELSE sh.k

(* ------------------------------ leaves ---------------------------------------------------------------------- *)
Lf(K, Y, P, v) == << <<K, Y, P, v>> >>
R(tok) == IF tok = "default0" THEN "r0" ELSE IF tok = "derived" THEN "rD" ELSE "r"   \* rD: any real is acceptable
Re(K, Y, P, tok) == Lf(K, Y, P, R(tok))                                   \* a real-valued leaf
XY(K, Y, P, x, y) == Re(K, Y \o "/x", P, x) \o Re(K, Y \o "/y", P, y)

SimpleShapeLeaves(K, Y, P, sh) ==
  CASE sh.k = "rect"   -> Re(K, Y, P \o ".len", sh.l) \o Re(K, Y, P \o ".wid", sh.w) \o Re(K, Y, P \o ".ori", sh.o)
                          \o XY(K, Y, P \o ".ctr", sh.cx, sh.cy)
    [] sh.k = "circle" -> Re(K, Y, P \o ".rad", sh.r) \o XY(K, Y, P \o ".ctr", sh.cx, sh.cy)
    [] sh.k = "poly"   -> Lf(K, Y, P \o ".vtx.n", I2S(sh.n))
                          \o Cat([j \in 1..sh.n |-> XY(K, Y \o "/" \o I2S(j), P \o ".vtx", sh.s, sh.s)])
ShapeLeaves(K, Y, P, sh) ==
  Lf(K, Y, P \o ".kind", KindOfShape(sh))
  \o IF sh.k = "group" THEN Cat([i \in DOMAIN sh.parts |-> SimpleShapeLeaves(K, Y \o "/g" \o I2S(i), P, sh.parts[i])])
     ELSE SimpleShapeLeaves(K, Y, P, sh)

TimeLeaves(K, Y, S, t) ==
  IF t.k = "exact" THEN Lf(K, Y, S \o ".time.kind", "exact") \o Lf(K, Y, S \o ".time", I2S(t.t))
  ELSE Lf(K, Y, S \o ".time.kind", "interval") \o Lf(K, Y, S \o ".time", I2S(t.lo) \o ".." \o I2S(t.hi))

ValueLeaves(K, Y, S, a, v) ==
  LET P == S \o "." \o AttrShort(a) IN
  CASE v.k = "exact" /\ a = "position" -> Lf(K, Y, P \o ".kind", "exact") \o XY(K, Y, P, v.x, v.y)
    [] v.k = "exact"    -> Lf(K, Y, P \o ".kind", "exact") \o Re(K, Y, P, v.x)
    [] v.k = "interval" -> Lf(K, Y, P \o ".kind", "interval") \o Re(K, Y \o "/lo", P, v.lo) \o Re(K, Y \o "/hi", P, v.hi)
    [] v.k = "region"   -> Lf(K, Y, P \o ".kind", "region") \o ShapeLeaves(K, Y, S \o ".region", v.sh)
    [] v.k = "lanelets" -> Lf(K, Y, P \o ".kind", "lanelets")          \* goal position given by lanelet ids
StateLeaves(K, Y, S, st) ==
  TimeLeaves(K, Y, S, st.t)
  \o Cat([i \in DOMAIN AttrOrder |-> IF Has(st, AttrOrder[i]) THEN ValueLeaves(K, Y, S, AttrOrder[i], Val(st, AttrOrder[i]))
                                     ELSE <<>>])
SigHas(sg, n) == \E i \in DOMAIN sg.b : sg.b[i].n = n
SigVal(sg, n) == sg.b[CHOOSE i \in DOMAIN sg.b : sg.b[i].n = n].v
SignalLeaves(K, Y, S, sg) ==
  TimeLeaves(K, Y, S, sg.t)
  \o Cat([i \in DOMAIN SignalT |-> IF SigHas(sg, SignalT[i][1]) THEN Lf(K, Y, S \o "." \o SignalT[i][2], I2S(SigVal(sg, SignalT[i][1])))
                                   ELSE <<>>])

ObstacleLeaves(o) ==
  LET K == "obstacle"  Y == I2S(o.id)
      sI == IF o.role = "static" THEN "staticSignal" ELSE "initialSignalState"
      sS == IF o.role = "static" THEN "staticSeries" ELSE "signalSeries"
      withState == o.role \in {"static", "dynamic"}
  IN Lf(K, Y, "role", o.role)
     \o (IF o.role # "phantom" THEN Lf(K, Y, "type", o.type) \o ShapeLeaves(K, Y, "shape", o.sh) ELSE <<>>)
     \o (IF withState
         THEN StateLeaves(K, Y, "initialState", o.init)
              \o Lf(K, Y, sI \o ".present", I2S(Len(o.iss)))
              \o Cat([i \in DOMAIN o.iss |-> SignalLeaves(K, Y, sI, o.iss[i])])
              \o Lf(K, Y, sS \o ".isNone", I2S(o.g.serNone)) \o Lf(K, Y, sS \o ".n", I2S(Len(o.ser)))
              \o Cat([i \in DOMAIN o.ser |-> SignalLeaves(K, Y \o "/s" \o I2S(i), sS, o.ser[i])])
         ELSE <<>>)
     \o (IF o.role \in {"dynamic", "phantom"}
         THEN Lf(K, Y, "prediction.kind", o.pred.k)
              \o (IF o.pred.k = "traj"
                  THEN Lf(K, Y, "trajectory.t0", I2S(o.pred.t0)) \o Lf(K, Y, "trajectory.n", I2S(Len(o.pred.states)))
                       \o Cat([i \in DOMAIN o.pred.states |-> StateLeaves(K, Y \o "/t" \o I2S(i), "trajectory", o.pred.states[i])])
                       \o ShapeLeaves(K, Y, "prediction.shape", o.pred.sh)
                  ELSE IF o.pred.k = "set"
                  THEN Lf(K, Y, "occupancySet.t0", I2S(o.pred.t0)) \o Lf(K, Y, "occupancySet.n", I2S(Len(o.pred.occs)))
                       \o Cat([i \in DOMAIN o.pred.occs |->
                                 TimeLeaves(K, Y \o "/o" \o I2S(i), "occupancySet", o.pred.occs[i].t)
                                 \o ShapeLeaves(K, Y \o "/o" \o I2S(i), "occupancySet.shape", o.pred.occs[i].sh)])
                  ELSE <<>>)
         ELSE <<>>)

BoundLeaves(K, Y, P, la, lm) ==
  Lf(K, Y, P \o ".n", I2S(la.nv))
  \o Cat([j \in 1..la.nv |-> XY(K, Y \o "/" \o I2S(j), P, la.geo, la.geo)])
  \o Lf(K, Y, P \o ".lineMarking", lm)
AdjLeaves(K, Y, P, adj) ==
  IF adj = <<>> THEN Lf(K, Y, P, "None") \o Lf(K, Y, P \o ".drivingDir", "None")
  ELSE Lf(K, Y, P, I2S(adj[1].id)) \o Lf(K, Y, P \o ".drivingDir", IF adj[1].same = 1 THEN "same" ELSE "opposite")
LaneletLeaves(la) ==
  LET K == "lanelet"  Y == I2S(la.id) IN
  BoundLeaves(K, Y, "leftBound", la, la.lml) \o BoundLeaves(K, Y, "rightBound", la, la.lmr)
  \o Lf(K, Y, "predecessor", IdStr(la.pred)) \o Lf(K, Y, "successor", IdStr(la.succ))
  \o AdjLeaves(K, Y, "adjacentLeft", la.adjL) \o AdjLeaves(K, Y, "adjacentRight", la.adjR)
  \o Lf(K, Y, "stopLine.present", I2S(Len(la.stop)))
  \o Cat([i \in DOMAIN la.stop |->
            Lf(K, Y, "stopLine.hasPoints", IF la.stop[i].pts = 0 THEN "0" ELSE "1")
            \o (IF la.stop[i].pts = 0 THEN <<>>
                ELSE LET tk == IF la.stop[i].pts = 2 THEN "derived" ELSE la.geo IN        \* 2: put there by the XML reader
                     XY(K, Y \o "/s", "stopLine", tk, tk) \o XY(K, Y \o "/e", "stopLine", tk, tk))
            \o Lf(K, Y, "stopLine.lineMarking", la.stop[i].lm)
            \o Lf(K, Y, "stopLine.trafficSignRef", IdStr(la.stop[i].sref))
            \o Lf(K, Y, "stopLine.trafficSignRef.isNone", I2S(la.stop[i].g.srefNone))
            \o Lf(K, Y, "stopLine.trafficLightRef", IdStr(la.stop[i].lref))
            \o Lf(K, Y, "stopLine.trafficLightRef.isNone", I2S(la.stop[i].g.lrefNone))])
  \o Lf(K, Y, "laneletType", NameStr(LaneletTypeT, la.types))
  \o Lf(K, Y, "userOneWay", NameStr(RoadUserT, la.uow)) \o Lf(K, Y, "userBidirectional", NameStr(RoadUserT, la.ubi))
  \o Lf(K, Y, "trafficSignRef", IdStr(la.signs)) \o Lf(K, Y, "trafficLightRef", IdStr(la.lights))

PosLeaves(K, Y, pos) == Lf(K, Y, "position.present", I2S(Len(pos)))
                        \o Cat([i \in DOMAIN pos |-> XY(K, Y, "position", pos[i].x, pos[i].y)])
SignLeaves(s) ==
  LET K == "trafficSign"  Y == I2S(s.id) IN
  Lf(K, Y, "element.n", I2S(Len(s.els)))
  \o Cat([i \in DOMAIN s.els |-> LET Ye == Y \o "/e" \o I2S(i) IN
            Lf(K, Ye, "element.idClass", s.els[i].id.c) \o Lf(K, Ye, "element.idName", s.els[i].id.n)
            \o Lf(K, Ye, "element.idValue", s.els[i].id.v) \o Lf(K, Ye, "element.additionalValue", JoinS(s.els[i].av, "|"))])
  \o PosLeaves(K, Y, s.pos) \o Lf(K, Y, "virtual", I2S(s.virt)) \o Lf(K, Y, "firstOccurrence", IdStr(s.first))
LightLeaves(t) ==
  LET K == "trafficLight"  Y == I2S(t.id) IN
  Lf(K, Y, "cycle.isNone", I2S(t.g.cycNone)) \o Lf(K, Y, "cycle.n", I2S(Len(t.cyc)))
  \o Cat([i \in DOMAIN t.cyc |-> Lf(K, Y \o "/c" \o I2S(i), "cycle.color", t.cyc[i].c)
                                 \o Lf(K, Y \o "/c" \o I2S(i), "cycle.duration", I2S(t.cyc[i].d))])
  \o Lf(K, Y, "timeOffset", I2S(t.off)) \o PosLeaves(K, Y, t.pos)
  \o Lf(K, Y, "direction", t.dir) \o Lf(K, Y, "active", I2S(t.act))
InterLeaves(x) ==
  LET K == "intersection"  Y == I2S(x.id) IN
  Lf(K, Y, "incoming.n", I2S(Len(x.incs)))
  \o Cat([i \in DOMAIN x.incs |-> LET Yi == Y \o "/" \o I2S(x.incs[i].id)  inc == x.incs[i] IN
            Lf(K, Yi, "incoming.incomingLanelet", IdStr(inc.lan)) \o Lf(K, Yi, "incoming.successorsRight", IdStr(inc.r))
            \o Lf(K, Yi, "incoming.successorsStraight", IdStr(inc.s)) \o Lf(K, Yi, "incoming.successorsLeft", IdStr(inc.l))
            \o Lf(K, Yi, "incoming.isLeftOf", IF inc.lo = 0 THEN "None" ELSE I2S(inc.lo))])
  \o Lf(K, Y, "crossing", IdStr(x.cross))                      \* None is not observable (stored as the empty set)
PPLeaves(p) ==
  LET K == "planning"  Y == I2S(p.id) IN
  StateLeaves(K, Y, "initialState", p.init)
  \o Lf(K, Y, "goalState.n", I2S(Len(p.goals)))
  \o Cat([i \in DOMAIN p.goals |-> StateLeaves(K, Y \o "/g" \o I2S(i), "goalState", p.goals[i].st)
                                    \o Lf(K, Y \o "/g" \o I2S(i), "goalState.lanelets", IdStr(p.goals[i].lan))])
  \o Lf(K, Y, "goalLanelets.isNone", I2S(p.g.lanNone))
HeaderLeaves(h) ==
  LET K == "header"  Y == "0" IN
  Re(K, Y, "dt", h.dt) \o Lf(K, Y, "benchmarkId", h.cid \o "_Test-1") \o Lf(K, Y, "author", "crv-author")
  \o Lf(K, Y, "affiliation", "crv-affiliation") \o Lf(K, Y, "source", "crv-source")
  \o Lf(K, Y, "tags", NameStr(TagT, h.tags))
  \o Lf(K, Y, "location.geoNameId", I2S(h.gid)) \o Re(K, Y, "location.gpsLatitude", h.lat) \o Re(K, Y, "location.gpsLongitude", h.lon)
  \o Lf(K, Y, "geo.present", I2S(Len(h.geo)))
  \o Cat([i \in DOMAIN h.geo |-> Lf(K, Y, "geo.reference", h.geo[i].ref) \o Re(K, Y, "geo.xTranslation", h.geo[i].xt)
                                 \o Re(K, Y, "geo.yTranslation", h.geo[i].yt) \o Re(K, Y, "geo.zRotation", h.geo[i].zr)
                                 \o Re(K, Y, "geo.scaling", h.geo[i].sc)])
  \o Lf(K, Y, "env.present", I2S(Len(h.env)))
  \o Cat([i \in DOMAIN h.env |-> Lf(K, Y, "env.time", I2S(h.env[i].hh) \o ":" \o I2S(h.env[i].mm))
                                 \o Lf(K, Y, "env.timeOfDay", h.env[i].tod) \o Lf(K, Y, "env.weather", h.env[i].w)
                                 \o Lf(K, Y, "env.underground", h.env[i].u)])

(* all leaves of a descriptor, in the traversal order the harness uses as well *)
Leaves(d) == HeaderLeaves(d.hdr) \o Cat(Map(d.lanelets, LaneletLeaves)) \o Cat(Map(d.signs, SignLeaves))
             \o Cat(Map(d.lights, LightLeaves)) \o Cat(Map(d.inters, InterLeaves)) \o Cat(Map(d.obstacles, ObstacleLeaves))
             \o Cat(Map(d.pps, PPLeaves))

(* ------------------------------ which leaves a format carries ------------------------------------------------ *)
ShapeSuffixes == {".kind", ".len", ".wid", ".ori", ".ctr", ".rad", ".vtx.n", ".vtx"}
SignalSuffixes == {".present", ".isNone", ".n", ".time.kind", ".time"} \cup {"." \o SignalT[i][2] : i \in DOMAIN SignalT}
(* None-vs-empty of optional collections is an artefact of the Python API, no format has a field for it:          *)
(* reference sets None == empty set, signal_series None == [], goal-lanelet dict None == {} (DESIGN App. C)       *)
(* a traffic light without cycle == a light with an empty cycle and offset 0 (protobuf: repeated cycle_elements)      *)
NoneFlags == {<<"trafficLight", "cycle.isNone">>, <<"obstacle", "signalSeries.isNone">>, <<"obstacle", "staticSeries.isNone">>,
              <<"lanelet", "stopLine.trafficSignRef.isNone">>, <<"lanelet", "stopLine.trafficLightRef.isNone">>,
              <<"planning", "goalLanelets.isNone">>}
XmlNotCarried ==
  NoneFlags
  \cup {<<"trafficSign", "firstOccurrence">>}                      \* XSD 642-656: trafficSign has no such element
  \cup {<<"trafficSign", "element.idClass">>, <<"trafficSign", "element.idName">>}   \* 647: only the VALUE is stored
  \cup {<<"obstacle", p \o x>> : p \in {"staticSignal", "staticSeries"}, x \in SignalSuffixes}   \* 739-746: no signal states
  \cup {<<"obstacle", "prediction.shape" \o x>> : x \in ShapeSuffixes}               \* 768-774: trajectory has no shape
PbNotCarried == NoneFlags
NotCarried(fmt) == IF fmt = "xml" THEN XmlNotCarried ELSE PbNotCarried
Carried(fmt, l) == <<l[1], l[3]>> \notin NotCarried(fmt)
XmlCarried(l) == Carried("xml", l)      \* e.g. obstacle initialSignalState.horn, trafficSign virtual, lanelet lineMarking
PbCarried(l)  == Carried("pb", l)       \* in addition trafficSign firstOccurrence, static obstacle signal states, ...

(* ------------------------------ the round trip ---------------------------------------------------------------- *)
(* the reader's documented default: unset attributes of INITIAL states read back as 0 *)
DefaultVal(a) == IF a = "position" THEN [k |-> "exact", x |-> "default0", y |-> "default0"] ELSE [k |-> "exact", x |-> "default0"]
FillInitial(st) ==
  [st EXCEPT !.a = st.a \o SelectSeq([i \in DOMAIN InitialAttrs |-> [n |-> InitialAttrs[i], v |-> DefaultVal(InitialAttrs[i])]],
                                     LAMBDA e : ~Has(st, e.n)),
             !.c = "InitialState"]
RBObstacle(o) == IF o.role \in {"static", "dynamic"} THEN [o EXCEPT !.init = FillInitial(o.init)] ELSE o
RBPP(p) == [p EXCEPT !.init = FillInitial(p.init)]
(* expected descriptor after write -> read, either format: identity except the initial-state default *)
ReadBack(d) == [d EXCEPT !.obstacles = Map(d.obstacles, RBObstacle), !.pps = Map(d.pps, RBPP)]
ReadBackPb(d)  == ReadBack(d)
(* XML 2020a: a stop line written without points lies at the end of its lanelet - the reader puts it there (XSD 296: *)
(* point minOccurs=0); which coordinates is not asserted (derived from the lanelet bounds).                        *)
RBStop(s) == IF s.pts = 0 THEN [s EXCEPT !.pts = 2] ELSE s
RBLaneletXml(la) == [la EXCEPT !.stop = Map(la.stop, RBStop)]
ReadBackXml(d) == [ReadBack(d) EXCEPT !.lanelets = Map(d.lanelets, RBLaneletXml)]
ReadBackOf(fmt, d) == IF fmt = "xml" THEN ReadBackXml(d) ELSE ReadBackPb(d)
CarriedLeaves(fmt, d) == SelectSeq(Leaves(d), LAMBDA l : Carried(fmt, l))
Expected(fmt, d) == CarriedLeaves(fmt, ReadBackOf(fmt, d))

(* tolerance rule: closeness class every real leaf must come back in *)
RealClasses == {"re:exact", "re:within_tol", "re:out_of_tol", "re:zero", "re:other"}
AllowedReal(fmt) == IF fmt = "xml" THEN {"re:exact", "re:within_tol"} ELSE {"re:exact"}   \* |x'-x| < 10^-d / bit identical
NormLeaf(fmt, l) == IF l[4] \in AllowedReal(fmt) THEN <<l[1], l[2], l[3], "r">>
                    ELSE IF l[4] = "re:zero" THEN <<l[1], l[2], l[3], "r0">> ELSE l
Observed(fmt, back) == LET sel == SelectSeq(back, LAMBDA l : Carried(fmt, l)) IN [i \in DOMAIN sel |-> NormLeaf(fmt, sel[i])]
SameLeaf(a, b) == a[1] = b[1] /\ a[2] = b[2] /\ a[3] = b[3]
Match(e, o) == e = o \/ (e[4] = "rD" /\ SameLeaf(e, o) /\ o[4] \in {"r", "r0"} \cup RealClasses)
MaxClauses == 8
(* the clauses of ALL leaves on which the observed read-back differs from the expected one (each clause once, at most *)
(* MaxClauses, in leaf order): a differing value, a leaf that was dropped, a leaf the original does not have          *)
Diffs(fmt, exp, back) ==
  LET obs == Observed(fmt, back)
      raw == SelectSeq(back, LAMBDA l : Carried(fmt, l))
      pre == IF fmt = "xml" THEN "C01." ELSE "C02."
      tol == IF fmt = "xml" THEN "Tolerance/" ELSE "BitIdentical/"
      nm(l) == l[1] \o "." \o l[3]
      valueClause(e, r) == IF e[4] \in {"r", "r0", "rD"} /\ r[4] \in RealClasses THEN pre \o tol \o nm(e) ELSE pre \o "Leaf/" \o nm(e)
      aligned == Len(exp) = Len(obs) /\ \A i \in DOMAIN exp : SameLeaf(exp[i], obs[i])
      cl == IF aligned
            THEN [i \in DOMAIN exp |-> IF Match(exp[i], obs[i]) THEN "" ELSE valueClause(exp[i], raw[i])]
            ELSE [i \in DOMAIN exp |-> LET S == {j \in DOMAIN obs : SameLeaf(exp[i], obs[j])} IN
                                       IF S = {} THEN pre \o "Leaf/" \o nm(exp[i])                         \* dropped
                                       ELSE LET j == CHOOSE j \in S : TRUE IN
                                            IF Match(exp[i], obs[j]) THEN "" ELSE valueClause(exp[i], raw[j])]
                 \o [j \in DOMAIN obs |-> IF \E i \in DOMAIN exp : SameLeaf(exp[i], obs[j]) THEN ""
                                          ELSE pre \o "Leaf/" \o nm(obs[j])]                              \* not in the original
      first == {i \in DOMAIN cl : cl[i] # "" /\ \A j \in 1..(i - 1) : cl[j] # cl[i]}
  IN IF exp = obs THEN {} ELSE {cl[i] : i \in {i \in first : Cardinality({j \in first : j < i}) < MaxClauses}}

(* ------------------------------ band: traffic lights without cycle ---------------------------------------------- *)
(* The quantifier of C01 / C02 restricts traffic lights to a non-empty cycle.  An EMPTY cycle is still asserted for      *)
(* protobuf (repeated cycle_elements; it round-trips).  A light built WITHOUT cycle (traffic_light_cycle = None) is      *)
(* outside the property: a write that raises is accepted and, when it is written, nothing is demanded of its cycle      *)
(* leaves.  (Observed: the protobuf writer raises AttributeError for TrafficLight(id, position).)                        *)
CyclelessLights(d) == {d.lights[i].id : i \in DOMAIN d.lights} \ {d.lights[i].id : i \in {j \in DOMAIN d.lights : d.lights[j].g.cycNone = 0}}
HasCyclelessLight(d) == CyclelessLights(d) # {}
InBand(d, l) == /\ l[1] = "trafficLight" /\ l[3] \in {"cycle.n", "timeOffset", "cycle.color", "cycle.duration"}
                /\ \E x \in CyclelessLights(d) : l[2] = I2S(x) \/ l[2] \in {I2S(x) \o "/c" \o I2S(n) : n \in 1..4}
OutsideBand(d, leaves) == SelectSeq(leaves, LAMBDA l : ~InBand(d, l))

(* ------------------------------ state classes ------------------------------------------------------------------ *)
(* which attributes a read-back state must populate (the statement; class identity is not required) *)
Populated(F, isInitial) == IF isInitial THEN F \cup Range(InitialAttrs) ELSE F
(* the documented matching rule of both readers: initial states become InitialState filled with defaults; otherwise the *)
(* first class (SpecificStateClasses order) with as many attributes as written fields, all of them written; else custom  *)
MatchStateClass(F, isInitial) ==
  IF isInitial THEN "InitialState"
  ELSE LET ok == {i \in DOMAIN StateClassT : Range(StateClassT[i][2]) = F} IN
       IF ok = {} THEN "CustomState" ELSE StateClassT[CHOOSE i \in ok : \A r \in ok : i <= r][1]
PopulatedBy(c, F) == IF c = "CustomState" THEN F ELSE ClassAttrs(c)
PopulatedPreservedFor(F, isInitial) == PopulatedBy(MatchStateClass(F, isInitial), F) = Populated(F, isInitial)

(* ------------------------------ what the formats can express (the quantifiers) -------------------------------- *)
AllStates(d) ==      \* <<state, isInitial>> of every state of the descriptor
  Cat([i \in DOMAIN d.obstacles |-> LET o == d.obstacles[i] IN
        (IF o.role \in {"static", "dynamic"} THEN << <<o.init, TRUE>> >> ELSE <<>>)
        \o (IF o.role = "dynamic" /\ o.pred.k = "traj" THEN [j \in DOMAIN o.pred.states |-> <<o.pred.states[j], FALSE>>] ELSE <<>>)])
  \o Cat([i \in DOMAIN d.pps |-> << <<d.pps[i].init, TRUE>> >> \o [j \in DOMAIN d.pps[i].goals |-> <<d.pps[i].goals[j].st, FALSE>>]])
IdsOf(s) == {s[i].id : i \in DOMAIN s}
IncIds(d) == UNION {IdsOf(d.inters[i].incs) : i \in DOMAIN d.inters}
AllIdSeq(d) == [i \in DOMAIN d.lanelets |-> d.lanelets[i].id] \o [i \in DOMAIN d.signs |-> d.signs[i].id]
               \o [i \in DOMAIN d.lights |-> d.lights[i].id] \o [i \in DOMAIN d.inters |-> d.inters[i].id]
               \o Cat([i \in DOMAIN d.inters |-> [j \in DOMAIN d.inters[i].incs |-> d.inters[i].incs[j].id]])
               \o [i \in DOMAIN d.obstacles |-> d.obstacles[i].id] \o [i \in DOMAIN d.pps |-> d.pps[i].id]
SimpleShapeOK(sh) == CASE sh.k = "rect" -> sh.l \in PositiveToks /\ sh.w \in PositiveToks /\ sh.o \in AngleToks
                       [] sh.k = "circle" -> sh.r \in PositiveToks
                       [] sh.k = "poly" -> sh.n >= 3
                       [] OTHER -> FALSE
ShapeOK(sh) == IF sh.k = "group" THEN Len(sh.parts) >= 2 /\ \A i \in DOMAIN sh.parts : SimpleShapeOK(sh.parts[i]) ELSE SimpleShapeOK(sh)
Homogeneous(sh) == sh.k # "group" \/ \A i \in DOMAIN sh.parts : sh.parts[i].k = sh.parts[1].k
TimeOK(t, lo) == IF t.k = "exact" THEN t.t >= lo ELSE t.lo >= 0 /\ t.hi >= 1 /\ t.lo <= t.hi
ValueOK(a, v) == CASE v.k = "exact" -> TRUE
                   [] v.k = "interval" -> a # "position" /\ <<v.lo, v.hi>> \in (IF a = "orientation" THEN AnglePairs ELSE IntervalPairs)
                   [] v.k = "region" -> a = "position" /\ ShapeOK(v.sh)
                   [] v.k = "lanelets" -> a = "position"
StateOK(st) == /\ \A i \in DOMAIN st.a : st.a[i].n \in Range(AttrOrder) /\ ValueOK(st.a[i].n, st.a[i].v)
               /\ \A i, j \in DOMAIN st.a : i # j => st.a[i].n # st.a[j].n
               /\ st.c \in StateClassNames /\ PopSet(st) \subseteq ClassAttrs(st.c)
SignalOK(sg, lo) == TimeOK(sg.t, lo) /\ \A i \in DOMAIN sg.b : sg.b[i].n \in Range(SignalOrder) /\ sg.b[i].v \in {0, 1}
LaneletIds(d) == IdsOf(d.lanelets)
(* sanity every scenario of either quantifier satisfies: ids >= 1 and distinct, references resolve to the right kind, *)
(* 2-D geometry with positive sizes, explicit sign / light positions (a non-empty light cycle: XmlExpressible only)    *)
WellFormed(d) ==
  /\ LET ids == AllIdSeq(d) IN /\ \A i \in DOMAIN ids : ids[i] \in 1..MaxId
                               /\ \A i, j \in DOMAIN ids : i # j => ids[i] # ids[j]
  /\ \A i \in DOMAIN d.lanelets : LET la == d.lanelets[i] IN
       /\ la.nv >= 2 /\ Range(la.pred) \cup Range(la.succ) \subseteq LaneletIds(d)
       /\ \A a \in Range(la.adjL) \cup Range(la.adjR) : a.id \in LaneletIds(d)
       /\ Range(la.signs) \subseteq IdsOf(d.signs) /\ Range(la.lights) \subseteq IdsOf(d.lights)
       /\ \A s \in Range(la.stop) : Range(s.sref) \subseteq IdsOf(d.signs) /\ Range(s.lref) \subseteq IdsOf(d.lights) /\ s.pts \in {0, 1}
  /\ \A i \in DOMAIN d.signs : Len(d.signs[i].els) >= 1 /\ Len(d.signs[i].pos) = 1 /\ Range(d.signs[i].first) \subseteq LaneletIds(d)
  /\ \A i \in DOMAIN d.lights : /\ Len(d.lights[i].pos) = 1 /\ d.lights[i].off >= 0
                                /\ \A c \in Range(d.lights[i].cyc) : c.d >= 1
                                /\ (d.lights[i].g.cycNone = 1 => d.lights[i].cyc = <<>> /\ d.lights[i].off = 0)
  /\ \A i \in DOMAIN d.inters : LET x == d.inters[i] IN
       /\ Len(x.incs) >= 1 /\ Range(x.cross) \subseteq LaneletIds(d)
       /\ \A inc \in Range(x.incs) : /\ Range(inc.lan) \cup Range(inc.r) \cup Range(inc.s) \cup Range(inc.l) \subseteq LaneletIds(d)
                                     /\ inc.lo \in {0} \cup IdsOf(x.incs)
  /\ \A i \in DOMAIN d.obstacles : LET o == d.obstacles[i] IN
       /\ o.role \in {"static", "dynamic", "phantom", "environment"}
       /\ o.role # "phantom" => ShapeOK(o.sh) /\ o.type \in NameSet(ObstacleTypeT)
       /\ o.role \in {"static", "dynamic"} =>
            /\ StateOK(o.init) /\ o.init.t = [k |-> "exact", t |-> 0] /\ PopSet(o.init) \subseteq Range(InitialAttrs)
            /\ Has(o.init, "position") /\ Has(o.init, "orientation")     \* the obstacle constructors place the shape there
            /\ (Val(o.init, "position").k = "region" => Val(o.init, "position").sh.k # "group")     \* constructor precondition
            /\ Len(o.iss) <= 1 /\ \A s \in Range(o.iss) : SignalOK(s, 0) /\ s.t = [k |-> "exact", t |-> 0]
            /\ \A s \in Range(o.ser) : SignalOK(s, 1)
            /\ (o.g.serNone = 1 => o.ser = <<>>)
       /\ o.role \in {"dynamic", "phantom"} =>
            /\ o.pred.k \in {"none", "traj", "set"} /\ (o.role = "phantom" => o.pred.k # "traj")
            /\ o.pred.k = "traj" => /\ Len(o.pred.states) >= 1 /\ ShapeOK(o.pred.sh)
                                    /\ \A j \in DOMAIN o.pred.states : /\ StateOK(o.pred.states[j])
                                                                       /\ o.pred.states[j].t = [k |-> "exact", t |-> o.pred.t0 + j - 1]
                                    /\ o.pred.t0 >= 1
            /\ o.pred.k = "set" => /\ Len(o.pred.occs) >= 1 /\ o.pred.t0 >= 0
                                   /\ \A c \in Range(o.pred.occs) : TimeOK(c.t, 1) /\ ShapeOK(c.sh)
  /\ \A i \in DOMAIN d.pps : LET p == d.pps[i] IN
       /\ StateOK(p.init) /\ p.init.t = [k |-> "exact", t |-> 0] /\ PopSet(p.init) \subseteq Range(InitialAttrs)
       /\ {"position", "velocity", "orientation", "yaw_rate", "slip_angle"} \subseteq PopSet(p.init)   \* PlanningProblem: mandatory
       /\ Len(p.goals) >= 1
       /\ \A gl \in Range(p.goals) : /\ StateOK(gl.st) /\ TimeOK(gl.st.t, 0) /\ Range(gl.lan) \subseteq LaneletIds(d)
                                     /\ gl.st.t.k = "interval"                                       \* GoalRegion: intervals only
                                     /\ \A a \in PopSet(gl.st) \ {"position"} : Val(gl.st, a).k = "interval"
                                     /\ (gl.lan # <<>>) = (Has(gl.st, "position") /\ Val(gl.st, "position").k = "lanelets")
       /\ (p.g.lanNone = 1 => \A gl \in Range(p.goals) : gl.lan = <<>>)
  /\ d.hdr.cid \in DOMAIN CountryClass /\ \A gt \in Range(d.hdr.geo) : gt.sc \in PositiveToks

InXsd(Tb, enum, name) == XmlVal(Tb, name) \in enum
XmlStateOK(st, timeLo) ==          \* XSD 126-203: position, orientation, time required; only the listed elements
  /\ Has(st, "position") /\ Has(st, "orientation") /\ st.t.k = "exact" /\ st.t.t >= timeLo
  /\ \A a \in PopSet(st) : AttrXml(a) # ""
  /\ Val(st, "position").k \in {"exact", "region"} /\ (Val(st, "position").k = "region" => Homogeneous(Val(st, "position").sh))
XmlExpressible(d) ==
  /\ WellFormed(d)
  /\ Len(d.lanelets) >= 1 /\ Len(d.pps) >= 1                                                        \* 929, 937
  /\ \A e \in Range(d.hdr.env) : /\ InXsd(TimeOfDayT, EnumTimeOfDay, e.tod) /\ InXsd(WeatherT, EnumWeather, e.w)
                                 /\ InXsd(UndergroundT, EnumUnderground, e.u)
  /\ \A t \in Range(d.hdr.tags) : InXsd(TagT, EnumTags, t)
  /\ \A la \in Range(d.lanelets) : /\ Len(la.types) >= 1                                           \* 349
                                   /\ \A t \in Range(la.types) : InXsd(LaneletTypeT, EnumLaneletType, t)
                                   /\ \A u \in Range(la.uow) \cup Range(la.ubi) : InXsd(RoadUserT, EnumVehicleType, u)
  /\ \A s \in Range(d.signs) : /\ \A e \in Range(s.els) : e.id.v \in EnumTrafficSignID /\ e.id.c \in CountryClass[d.hdr.cid]
                               /\ \E la \in Range(d.lanelets) : s.id \in Range(la.signs)     \* 2020a: a sign is referenced by a lanelet
  /\ \A t \in Range(d.lights) : Len(t.cyc) >= 1                                                   \* 674: non-empty cycle
  /\ \A x \in Range(d.inters) : \A inc \in Range(x.incs) : Len(inc.lan) >= 1                      \* 701
  /\ \A o \in Range(d.obstacles) :
       /\ o.role = "static" => /\ InXsd(ObstacleTypeT, EnumTypeStatic, o.type) /\ o.iss = <<>> /\ o.ser = <<>>   \* 731-746
                               /\ XmlStateOK(o.init, 0)
       /\ o.role = "dynamic" => /\ InXsd(ObstacleTypeT, EnumTypeDynamic, o.type) /\ o.pred.k \in {"traj", "set"}  \* 747-792
                                /\ XmlStateOK(o.init, 0)
                                /\ o.pred.k = "traj" => \A st \in Range(o.pred.states) : XmlStateOK(st, 1)
       /\ o.role = "environment" => InXsd(ObstacleTypeT, EnumTypeEnv, o.type)                                   \* 794-808
       /\ o.role = "phantom" => o.pred.k = "set"                                                                \* 810-821
  /\ \A p \in Range(d.pps) :
       /\ PopSet(p.init) \in {{"position", "velocity", "orientation", "yaw_rate", "slip_angle"},
                              {"position", "velocity", "orientation", "yaw_rate", "slip_angle", "acceleration"}}   \* 226-236
       /\ \A a \in PopSet(p.init) : Val(p.init, a).k = "exact"
       /\ \A gl \in Range(p.goals) : /\ gl.st.t.k = "interval" /\ gl.st.t.hi >= 1                              \* 237-244
                                     /\ PopSet(gl.st) \subseteq {"position", "orientation", "velocity"}
                                     /\ \A a \in PopSet(gl.st) \ {"position"} : Val(gl.st, a).k = "interval"
                                     /\ Has(gl.st, "position") => /\ Val(gl.st, "position").k \in {"region", "lanelets"}
                                                                  /\ Val(gl.st, "position").k = "region" => Homogeneous(Val(gl.st, "position").sh)
PbExpressible(d) ==
  /\ WellFormed(d)
  /\ \A e \in Range(d.hdr.env) : e.tod \in PbEnums.TimeOfDay /\ e.w \in PbEnums.Weather /\ e.u \in PbEnums.Underground
  /\ \A s \in Range(d.signs) : \A e \in Range(s.els) : e.id.pb
  /\ \A sq \in Range(AllStates(d)) : /\ \A a \in PopSet(sq[1]) : AttrPb(a)
                                     /\ Has(sq[1], "position") => Val(sq[1], "position").k # "lanelets" \/ TRUE

(* ------------------------------ id assignment ---------------------------------------------------------------- *)
(* The pools use SYMBOLIC ids (lanelets 1..3, signs 21 22, lights 31 32, intersection 41 with incomings 45 46,        *)
(* obstacles 51..54, planning problems 91 92).  The numeric ORDER of ids of different kinds is a dimension of its   *)
(* own (writers that sort or merge references, xs:key / xs:keyref, readers that scan): Renumber(d, tok) replaces    *)
(* every id and every reference by the concrete id of the table `tok` and re-sorts each component list by id.       *)
SymbolicIds == {1, 2, 3, 21, 22, 31, 32, 41, 45, 46, 51, 52, 53, 54, 91, 92}
IdPairs ==
  [natural       |-> {},
   lights_first  |-> {<<21, 38>>, <<22, 39>>, <<31, 21>>, <<32, 22>>},                      \* every light id < every sign id
   interleaved   |-> {<<21, 21>>, <<31, 22>>, <<22, 23>>, <<32, 24>>},                      \* sign, light, sign, light
   lanelets_high |-> {<<1, 71>>, <<2, 72>>, <<3, 73>>},                                     \* lanelet ids above all others but planning
   obstacles_low |-> {<<1, 11>>, <<2, 12>>, <<3, 13>>, <<51, 1>>, <<52, 2>>, <<53, 3>>, <<54, 4>>},
   pp_smallest   |-> {<<1, 11>>, <<2, 12>>, <<3, 13>>, <<91, 1>>, <<92, 2>>},
   reversed      |-> {<<i, 100 - i>> : i \in SymbolicIds}]                                  \* every order reversed, also within a kind
IdTokens == <<"natural", "lights_first", "interleaved", "lanelets_high", "obstacles_low", "pp_smallest", "reversed">>
Ren(tok, i) == LET P == {p \in IdPairs[tok] : p[1] = i} IN IF P = {} THEN i ELSE (CHOOSE p \in P : TRUE)[2]
ASSUME IdTablesInjective ==
  \A t \in Range(IdTokens) : (\A a, b \in SymbolicIds : a # b => Ren(t, a) # Ren(t, b)) /\ (\A a \in SymbolicIds : Ren(t, a) \in 1..MaxId)
SortById(sq) == LET ids == SortIds({sq[i].id : i \in DOMAIN sq}) IN [k \in DOMAIN ids |-> CHOOSE x \in Range(sq) : x.id = ids[k]]
Renumber(d, tok) ==
  LET r(i) == Ren(tok, i)
      rs(ids) == [k \in DOMAIN ids |-> r(ids[k])]
      adj(a) == [k \in DOMAIN a |-> [a[k] EXCEPT !.id = r(a[k].id)]]
      stop(s) == [s EXCEPT !.sref = rs(s.sref), !.lref = rs(s.lref)]
      lanelet(la) == [la EXCEPT !.id = r(la.id), !.pred = rs(la.pred), !.succ = rs(la.succ), !.adjL = adj(la.adjL), !.adjR = adj(la.adjR),
                                !.stop = Map(la.stop, stop), !.signs = rs(la.signs), !.lights = rs(la.lights)]
      sign(s) == [s EXCEPT !.id = r(s.id), !.first = rs(s.first)]
      light(t) == [t EXCEPT !.id = r(t.id)]
      inc(i) == [i EXCEPT !.id = r(i.id), !.lan = rs(i.lan), !.r = rs(i.r), !.s = rs(i.s), !.l = rs(i.l), !.lo = IF i.lo = 0 THEN 0 ELSE r(i.lo)]
      inter(x) == [x EXCEPT !.id = r(x.id), !.incs = SortById(Map(x.incs, inc)), !.cross = rs(x.cross)]
      obst(o) == [o EXCEPT !.id = r(o.id)]
      goal(g) == [g EXCEPT !.lan = rs(g.lan)]
      pp(p) == [p EXCEPT !.id = r(p.id), !.goals = Map(p.goals, goal)]
  IN [hdr |-> d.hdr, lanelets |-> SortById(Map(d.lanelets, lanelet)), signs |-> SortById(Map(d.signs, sign)),
      lights |-> SortById(Map(d.lights, light)), inters |-> SortById(Map(d.inters, inter)),
      obstacles |-> SortById(Map(d.obstacles, obst)), pps |-> SortById(Map(d.pps, pp)), ids |-> tok]

(* ------------------------------ writer reuse ------------------------------------------------------------------ *)
(* "Every scenario ... writing it and reading it back yields the same content" includes a scenario that was EDITED     *)
(* after an earlier write with the same writer object.  A case may carry  reuse = <<[route, edit, w2, first]>> :     *)
(*   write#1 (write_to_file) -> the scenario / planning problem set is edited in place -> write#2 with the SAME      *)
(*   writer (w2 = "full": write_to_file, "scenario": write_scenario_to_file) -> write#2 is read back.                 *)
(* EditOf is the descriptor of the edited objects, WrittenBy what write#2 is asked to write (no planning problems for *)
(* a scenario-only file).  Ids of added objects are free in every id table of Renumber.                              *)
(* READER reuse (route = "reader"): reader R is created on write#1 and opened once (first = "open" / "open_lanelet_network"), *)
(* the edited scenario is written to the SAME path by a fresh writer, R.open() again must yield the edited scenario; *)
(* edit "none": nothing is rewritten, the second open() must agree with the file.                                     *)
(* TWIN (route = "twin", edit "none"): before the case is written, its near twin (every number token replaced by its   *)
(* NearPairs partner) is written by a different writer object in the same process.                                   *)
(* remove_sign / remove_light / remove_lanelet go through the Scenario API, which cleans the references in place.    *)
(* retry (writer route): write#1 goes to a path whose directory does not exist and raises; the directory is created and  *)
(* write#2 of the SAME writer goes to that path - a failed write must leave nothing behind in the writer.                *)
EditTokens == <<"add_network", "remove_obstacle", "translate", "light_offset", "add_pp", "none", "remove_sign", "remove_light",
                "remove_lanelet", "retry">>
RemoveId(ids, x) == SelectSeq(ids, LAMBDA i : i # x)
AllRefsToLanelets(d) ==
  UNION {Range(inc.lan) \cup Range(inc.r) \cup Range(inc.s) \cup Range(inc.l) : inc \in UNION {Range(x.incs) : x \in Range(d.inters)}}
  \cup UNION {Range(x.cross) : x \in Range(d.inters)} \cup UNION {Range(sg.first) : sg \in Range(d.signs)}
  \cup UNION {Range(gl.lan) : gl \in UNION {Range(p.goals) : p \in Range(d.pps)}}
EditSignId(cid) == LET ok == {i \in DOMAIN SignIdT : SignIdT[i].c \in CountryClass[cid] /\ SignIdT[i].v \in EnumTrafficSignID /\ SignIdT[i].pb}
                   IN SignIdT[CHOOSE i \in ok : \A j \in ok : i <= j]
NewLanelet == [id |-> 5, nv |-> 2, geo |-> "one", lml |-> "SOLID", lmr |-> "DASHED", pred |-> <<>>, succ |-> <<>>, adjL |-> <<>>, adjR |-> <<>>,
               stop |-> <<>>, types |-> <<"URBAN">>, uow |-> <<>>, ubi |-> <<>>, signs |-> <<26>>, lights |-> <<36>>]
NewSign(cid) == [id |-> 26, els |-> <<[id |-> EditSignId(cid), av |-> <<"30">>]>>, pos |-> <<[x |-> "one", y |-> "half"]>>, virt |-> 0, first |-> <<>>]
NewLight == [id |-> 36, cyc |-> <<[c |-> "GREEN", d |-> 4], [c |-> "RED", d |-> 6]>>, off |-> 1, pos |-> <<[x |-> "half", y |-> "one"]>>,
             dir |-> "ALL", act |-> 1, g |-> [cycNone |-> 0]]
NewPP == [id |-> 95,
          init |-> [t |-> [k |-> "exact", t |-> 0], c |-> "InitialState",
                    a |-> <<[n |-> "position", v |-> [k |-> "exact", x |-> "one", y |-> "half"]], [n |-> "orientation", v |-> [k |-> "exact", x |-> "tenth"]],
                            [n |-> "velocity", v |-> [k |-> "exact", x |-> "ordinary"]], [n |-> "acceleration", v |-> [k |-> "exact", x |-> "zero"]],
                            [n |-> "yaw_rate", v |-> [k |-> "exact", x |-> "zero"]], [n |-> "slip_angle", v |-> [k |-> "exact", x |-> "zero"]]>>],
          goals |-> <<[st |-> [t |-> [k |-> "interval", lo |-> 2, hi |-> 9], a |-> <<>>, c |-> "CustomState"], lan |-> <<>>]>>,
          g |-> [lanNone |-> 1]]
EditApplicable(d, tok) == CASE tok = "remove_obstacle" -> d.obstacles # <<>>
                            [] tok = "light_offset" -> d.lights # <<>>
                            [] tok = "remove_sign" -> d.signs # <<>>
                            [] tok = "remove_light" -> d.lights # <<>>
                            \* the second lanelet, when only lanelets refer to it (predecessor / successor / adjacent) and it owns nothing
                            [] tok = "remove_lanelet" -> /\ Len(d.lanelets) >= 2 /\ d.lanelets[2].id \notin AllRefsToLanelets(d)
                                                         /\ d.lanelets[2].signs = <<>> /\ d.lanelets[2].lights = <<>> /\ d.lanelets[2].stop = <<>>
                            \* StopLine.translate_rotate raises for a stop line without points (observed; belongs to C05, not asserted here)
                            [] tok = "translate" -> \A i \in DOMAIN d.lanelets : \A j \in DOMAIN d.lanelets[i].stop : d.lanelets[i].stop[j].pts = 1
                            [] OTHER -> tok \in Range(EditTokens)
Edit(d, tok) ==
  CASE tok = "add_network" -> [d EXCEPT !.lanelets = SortById(@ \o <<NewLanelet>>), !.signs = SortById(@ \o <<NewSign(d.hdr.cid)>>),
                                        !.lights = SortById(@ \o <<NewLight>>)]
    [] tok = "remove_obstacle" -> [d EXCEPT !.obstacles = Tail(@)]
    [] tok = "translate" -> d                  \* lanelet network moved by a lattice vector: same tokens, other coordinates
    [] tok = "none" -> d
    [] tok = "retry" -> d
    [] tok = "remove_sign" -> LET x == d.signs[1].id IN
         [d EXCEPT !.signs = Tail(@),
                   !.lanelets = Map(@, LAMBDA la : [la EXCEPT !.signs = RemoveId(@, x),
                                                              !.stop = Map(@, LAMBDA st : [st EXCEPT !.sref = RemoveId(@, x)])])]
    [] tok = "remove_light" -> LET x == d.lights[1].id IN
         [d EXCEPT !.lights = Tail(@),
                   !.lanelets = Map(@, LAMBDA la : [la EXCEPT !.lights = RemoveId(@, x),
                                                              !.stop = Map(@, LAMBDA st : [st EXCEPT !.lref = RemoveId(@, x)])])]
    [] tok = "remove_lanelet" -> LET x == d.lanelets[2].id
                                     unadj(a) == IF a # <<>> /\ a[1].id = x THEN <<>> ELSE a IN
         [d EXCEPT !.lanelets = Map(SelectSeq(@, LAMBDA la : la.id # x),
                                    LAMBDA la : [la EXCEPT !.pred = RemoveId(@, x), !.succ = RemoveId(@, x), !.adjL = unadj(@), !.adjR = unadj(@)])]
    [] tok = "light_offset" -> [d EXCEPT !.lights[1].off = @ + 2]
    [] tok = "add_pp" -> [d EXCEPT !.pps = SortById(@ \o <<NewPP>>)]
EditOf(d, ru) == IF ru = <<>> THEN d ELSE Edit(d, ru[1].edit)
WrittenBy(d, ru) == IF ru # <<>> /\ ru[1].w2 = "scenario" THEN [EditOf(d, ru) EXCEPT !.pps = <<>>] ELSE EditOf(d, ru)
ReuseOK(d, ru) == ru = <<>> \/ (/\ EditApplicable(d, ru[1].edit) /\ ru[1].w2 \in {"full", "scenario"} /\ WellFormed(EditOf(d, ru))
                                 /\ ru[1].route \in {"writer", "reader", "twin"} /\ ru[1].first \in {"open", "open_lanelet_network"}
                                 /\ (ru[1].route = "twin" => ru[1].edit = "none") /\ (ru[1].edit = "retry" => ru[1].route = "writer"))

(* ------------------------------ C03: the document the contract demands ------------------------------------------- *)
(* AbstractDoc(d): element entries (Xsd2020a) of an XML document that carries every XML-carried leaf of d, children in *)
(* the order the XSD prescribes, numbers in plain decimal notation, enumerations by their schema values.  TLC checks   *)
(* (MC_Codec!LawSchema) that Xsd2020a accepts it for every XmlExpressible descriptor: contract and schema agree.       *)
El(p, ch) == <<[p |-> p, ch |-> ch, tc |-> "", tx |-> "", at |-> <<>>]>>
ElA(p, ch, at) == <<[p |-> p, ch |-> ch, tc |-> "", tx |-> "", at |-> at]>>
Tx(p, tc, tx) == <<[p |-> p, ch |-> <<>>, tc |-> tc, tx |-> tx, at |-> <<>>]>>
IntC(i) == IF i > 0 THEN "int+" ELSE IF i = 0 THEN "int0" ELSE "int-"
IntEl(p, i) == Tx(p, IntC(i), I2S(i))
NumEl(p, tok) == Tx(p, NumLex(tok), "")
Word(p, w) == Tx(p, "other", w)
BoolEl(p, b) == Tx(p, "bool", IF b = 1 THEN "true" ELSE "false")
IdAttr(i) == <<<<"id", IntC(i), I2S(i)>>>>
RefEl(p, i) == ElA(p, <<>>, <<<<"ref", IntC(i), I2S(i)>>>>)
Rep(name, n) == [i \in 1..n |-> name]
PointDoc(p, x, y) == El(p, <<"x", "y">>) \o NumEl(p \o <<"x">>, x) \o NumEl(p \o <<"y">>, y)
ShapeName(sh) == IF sh.k = "rect" THEN "rectangle" ELSE IF sh.k = "circle" THEN "circle" ELSE "polygon"
SimpleShapeDoc(p, sh) ==            \* p = path of the rectangle / circle / polygon element
  CASE sh.k = "rect" -> El(p, <<"length", "width", "orientation", "center">>) \o NumEl(p \o <<"length">>, sh.l)
                        \o NumEl(p \o <<"width">>, sh.w) \o NumEl(p \o <<"orientation">>, sh.o) \o PointDoc(p \o <<"center">>, sh.cx, sh.cy)
    [] sh.k = "circle" -> El(p, <<"radius", "center">>) \o NumEl(p \o <<"radius">>, sh.r) \o PointDoc(p \o <<"center">>, sh.cx, sh.cy)
    [] sh.k = "poly" -> El(p, Rep("point", sh.n)) \o PointDoc(p \o <<"point">>, sh.s, sh.s)
ShapeParts(sh) == IF sh.k = "group" THEN sh.parts ELSE <<sh>>
ShapeChildren(sh) == [i \in DOMAIN ShapeParts(sh) |-> ShapeName(ShapeParts(sh)[i])]
ShapeBody(p, sh) == Cat([i \in DOMAIN ShapeParts(sh) |-> SimpleShapeDoc(p \o <<ShapeName(ShapeParts(sh)[i])>>, ShapeParts(sh)[i])])
TimeDoc(p, t) == IF t.k = "exact" THEN El(p, <<"exact">>) \o IntEl(p \o <<"exact">>, t.t)
                 ELSE El(p, <<"intervalStart", "intervalEnd">>) \o IntEl(p \o <<"intervalStart">>, t.lo) \o IntEl(p \o <<"intervalEnd">>, t.hi)
ValueDoc(p, a, v, lan) ==
  CASE v.k = "exact" /\ a = "position" -> El(p, <<"point">>) \o PointDoc(p \o <<"point">>, v.x, v.y)
    [] v.k = "exact" -> El(p, <<"exact">>) \o NumEl(p \o <<"exact">>, v.x)
    [] v.k = "interval" -> El(p, <<"intervalStart", "intervalEnd">>) \o NumEl(p \o <<"intervalStart">>, v.lo) \o NumEl(p \o <<"intervalEnd">>, v.hi)
    [] v.k = "region" -> El(p, ShapeChildren(v.sh)) \o ShapeBody(p, v.sh)
    [] v.k = "lanelets" -> El(p, Rep("lanelet", Len(lan))) \o Cat([i \in DOMAIN lan |-> RefEl(p \o <<"lanelet">>, lan[i])])
StateAttrSeq(st) == SelectSeq(AttrOrder, LAMBDA a : Has(st, a))
StateDoc(p, st, lan) ==
  El(p, <<"time">> \o [i \in DOMAIN StateAttrSeq(st) |-> AttrXml(StateAttrSeq(st)[i])])
  \o TimeDoc(p \o <<"time">>, st.t)
  \o Cat([i \in DOMAIN StateAttrSeq(st) |-> ValueDoc(p \o <<AttrXml(StateAttrSeq(st)[i])>>, StateAttrSeq(st)[i], Val(st, StateAttrSeq(st)[i]), lan)])
SigSeq(sg) == SelectSeq(SignalOrder, LAMBDA n : SigHas(sg, n))
SignalDoc(p, sg) == El(p, <<"time">> \o [i \in DOMAIN SigSeq(sg) |-> SignalXml[SigSeq(sg)[i]]]) \o TimeDoc(p \o <<"time">>, sg.t)
                    \o Cat([i \in DOMAIN SigSeq(sg) |-> BoolEl(p \o <<SignalXml[SigSeq(sg)[i]]>>, SigVal(sg, SigSeq(sg)[i]))])
OccSetDoc(p, occs) ==
  El(p, Rep("occupancy", Len(occs)))
  \o Cat([i \in DOMAIN occs |-> El(p \o <<"occupancy">>, <<"shape", "time">>)
                                \o El(p \o <<"occupancy", "shape">>, ShapeChildren(occs[i].sh)) \o ShapeBody(p \o <<"occupancy", "shape">>, occs[i].sh)
                                \o TimeDoc(p \o <<"occupancy", "time">>, occs[i].t)])
Root == <<"commonRoad">>
ObstacleDoc(o) ==
  LET p == Root \o <<o.role \o "Obstacle">>
      typeDoc == Word(p \o <<"type">>, XmlVal(ObstacleTypeT, o.type))
      shapeDoc == El(p \o <<"shape">>, ShapeChildren(o.sh)) \o ShapeBody(p \o <<"shape">>, o.sh)
  IN CASE o.role = "static" -> ElA(p, <<"type", "shape", "initialState">>, IdAttr(o.id)) \o typeDoc \o shapeDoc
                               \o StateDoc(p \o <<"initialState">>, o.init, <<>>)
       [] o.role = "environment" -> ElA(p, <<"type", "shape">>, IdAttr(o.id)) \o typeDoc \o shapeDoc
       [] o.role = "phantom" -> ElA(p, <<"occupancySet">>, IdAttr(o.id)) \o OccSetDoc(p \o <<"occupancySet">>, o.pred.occs)
       [] o.role = "dynamic" ->
            ElA(p, <<"type", "shape", "initialState">> \o (IF o.iss # <<>> THEN <<"initialSignalState">> ELSE <<>>)
                   \o <<IF o.pred.k = "traj" THEN "trajectory" ELSE "occupancySet">> \o (IF o.ser # <<>> THEN <<"signalSeries">> ELSE <<>>),
                IdAttr(o.id))
            \o typeDoc \o shapeDoc \o StateDoc(p \o <<"initialState">>, o.init, <<>>)
            \o Cat([i \in DOMAIN o.iss |-> SignalDoc(p \o <<"initialSignalState">>, o.iss[i])])
            \o (IF o.pred.k = "traj"
                THEN El(p \o <<"trajectory">>, Rep("state", Len(o.pred.states)))
                     \o Cat([i \in DOMAIN o.pred.states |-> StateDoc(p \o <<"trajectory", "state">>, o.pred.states[i], <<>>)])
                ELSE OccSetDoc(p \o <<"occupancySet">>, o.pred.occs))
            \o (IF o.ser # <<>> THEN El(p \o <<"signalSeries">>, Rep("signalState", Len(o.ser)))
                                     \o Cat([i \in DOMAIN o.ser |-> SignalDoc(p \o <<"signalSeries", "signalState">>, o.ser[i])])
                ELSE <<>>)
BoundDoc(p, la, lm) == El(p, Rep("point", la.nv) \o <<"lineMarking">>) \o PointDoc(p \o <<"point">>, la.geo, la.geo)
                       \o Word(p \o <<"lineMarking">>, XmlVal(LineMarkingT, lm))
AdjDoc(p, adj) == Cat([i \in DOMAIN adj |-> ElA(p, <<>>, <<<<"ref", IntC(adj[i].id), I2S(adj[i].id)>>,
                                                           <<"drivingDir", "other", IF adj[i].same = 1 THEN "same" ELSE "opposite">>>>)])
EnumSeq(Tb, names) == SelectSeq(Names(Tb), LAMBDA n : n \in Range(names))
LaneletDoc(la) ==
  LET p == Root \o <<"lanelet">>  ty == EnumSeq(LaneletTypeT, la.types)  uo == EnumSeq(RoadUserT, la.uow)  ub == EnumSeq(RoadUserT, la.ubi)
      refs(name, ids) == Cat([i \in DOMAIN SortIds(Range(ids)) |-> RefEl(p \o <<name>>, SortIds(Range(ids))[i])])
      n(ids) == Cardinality(Range(ids))
  IN ElA(p, <<"leftBound", "rightBound">> \o Rep("predecessor", n(la.pred)) \o Rep("successor", n(la.succ))
            \o (IF la.adjL # <<>> THEN <<"adjacentLeft">> ELSE <<>>) \o (IF la.adjR # <<>> THEN <<"adjacentRight">> ELSE <<>>)
            \o (IF la.stop # <<>> THEN <<"stopLine">> ELSE <<>>) \o Rep("laneletType", Len(ty)) \o Rep("userOneWay", Len(uo))
            \o Rep("userBidirectional", Len(ub)) \o Rep("trafficSignRef", n(la.signs)) \o Rep("trafficLightRef", n(la.lights)),
         IdAttr(la.id))
     \o BoundDoc(p \o <<"leftBound">>, la, la.lml) \o BoundDoc(p \o <<"rightBound">>, la, la.lmr)
     \o refs("predecessor", la.pred) \o refs("successor", la.succ) \o AdjDoc(p \o <<"adjacentLeft">>, la.adjL) \o AdjDoc(p \o <<"adjacentRight">>, la.adjR)
     \o Cat([i \in DOMAIN la.stop |-> LET q == p \o <<"stopLine">>  s == la.stop[i] IN
               El(q, (IF s.pts = 0 THEN <<>> ELSE <<"point", "point">>) \o <<"lineMarking">> \o Rep("trafficSignRef", n(s.sref))
                     \o Rep("trafficLightRef", n(s.lref)))
               \o (IF s.pts = 0 THEN <<>> ELSE PointDoc(q \o <<"point">>, la.geo, la.geo)) \o Word(q \o <<"lineMarking">>, XmlVal(LineMarkingT, s.lm))
               \o Cat([j \in DOMAIN s.sref |-> RefEl(q \o <<"trafficSignRef">>, s.sref[j])])
               \o Cat([j \in DOMAIN s.lref |-> RefEl(q \o <<"trafficLightRef">>, s.lref[j])])])
     \o Cat([i \in DOMAIN ty |-> Word(p \o <<"laneletType">>, XmlVal(LaneletTypeT, ty[i]))])
     \o Cat([i \in DOMAIN uo |-> Word(p \o <<"userOneWay">>, XmlVal(RoadUserT, uo[i]))])
     \o Cat([i \in DOMAIN ub |-> Word(p \o <<"userBidirectional">>, XmlVal(RoadUserT, ub[i]))])
     \o refs("trafficSignRef", la.signs) \o refs("trafficLightRef", la.lights)
PosExactDoc(p, pos) == Cat([i \in DOMAIN pos |-> El(p, <<"point">>) \o PointDoc(p \o <<"point">>, pos[i].x, pos[i].y)])
SignDoc(s) ==
  LET p == Root \o <<"trafficSign">> IN
  ElA(p, Rep("trafficSignElement", Len(s.els)) \o (IF s.pos # <<>> THEN <<"position">> ELSE <<>>) \o <<"virtual">>, IdAttr(s.id))
  \o Cat([i \in DOMAIN s.els |-> El(p \o <<"trafficSignElement">>, <<"trafficSignID">> \o Rep("additionalValue", Len(s.els[i].av)))
                                 \o Tx(p \o <<"trafficSignElement", "trafficSignID">>, "other", s.els[i].id.v)
                                 \o Cat([j \in DOMAIN s.els[i].av |-> Word(p \o <<"trafficSignElement", "additionalValue">>, s.els[i].av[j])])])
  \o PosExactDoc(p \o <<"position">>, s.pos) \o BoolEl(p \o <<"virtual">>, s.virt)
LightDoc(t) ==
  LET p == Root \o <<"trafficLight">> IN
  ElA(p, <<"cycle">> \o (IF t.pos # <<>> THEN <<"position">> ELSE <<>>) \o <<"direction", "active">>, IdAttr(t.id))
  \o El(p \o <<"cycle">>, Rep("cycleElement", Len(t.cyc)) \o (IF t.off > 0 THEN <<"timeOffset">> ELSE <<>>))
  \o Cat([i \in DOMAIN t.cyc |-> El(p \o <<"cycle", "cycleElement">>, <<"duration", "color">>)
                                 \o IntEl(p \o <<"cycle", "cycleElement", "duration">>, t.cyc[i].d)
                                 \o Word(p \o <<"cycle", "cycleElement", "color">>, XmlVal(LightStateT, t.cyc[i].c))])
  \o (IF t.off > 0 THEN IntEl(p \o <<"cycle", "timeOffset">>, t.off) ELSE <<>>)        \* 675: positiveInteger, 0 = absent
  \o PosExactDoc(p \o <<"position">>, t.pos) \o Word(p \o <<"direction">>, XmlVal(LightDirT, t.dir)) \o BoolEl(p \o <<"active">>, t.act)
InterDoc(x) ==
  LET p == Root \o <<"intersection">>  n(ids) == Cardinality(Range(ids)) IN
  ElA(p, Rep("incoming", Len(x.incs)) \o (IF x.cross # <<>> THEN <<"crossing">> ELSE <<>>), IdAttr(x.id))
  \o Cat([i \in DOMAIN x.incs |-> LET q == p \o <<"incoming">>  inc == x.incs[i] IN
            ElA(q, Rep("incomingLanelet", n(inc.lan)) \o Rep("successorsRight", n(inc.r)) \o Rep("successorsStraight", n(inc.s))
                   \o Rep("successorsLeft", n(inc.l)) \o (IF inc.lo # 0 THEN <<"isLeftOf">> ELSE <<>>), IdAttr(inc.id))
            \o Cat([j \in DOMAIN inc.lan |-> RefEl(q \o <<"incomingLanelet">>, inc.lan[j])])
            \o Cat([j \in DOMAIN inc.r |-> RefEl(q \o <<"successorsRight">>, inc.r[j])])
            \o Cat([j \in DOMAIN inc.s |-> RefEl(q \o <<"successorsStraight">>, inc.s[j])])
            \o Cat([j \in DOMAIN inc.l |-> RefEl(q \o <<"successorsLeft">>, inc.l[j])])
            \o (IF inc.lo # 0 THEN RefEl(q \o <<"isLeftOf">>, inc.lo) ELSE <<>>)])
  \o (IF x.cross # <<>> THEN El(p \o <<"crossing">>, Rep("crossingLanelet", n(x.cross)))
                             \o Cat([j \in DOMAIN x.cross |-> RefEl(p \o <<"crossing", "crossingLanelet">>, x.cross[j])])
      ELSE <<>>)
PPDoc(pp) ==
  LET p == Root \o <<"planningProblem">> IN
  ElA(p, <<"initialState">> \o Rep("goalState", Len(pp.goals)), IdAttr(pp.id))
  \o StateDoc(p \o <<"initialState">>, pp.init, <<>>)
  \o Cat([i \in DOMAIN pp.goals |-> StateDoc(p \o <<"goalState">>, pp.goals[i].st, pp.goals[i].lan)])
HeaderDoc(d) ==
  LET h == d.hdr  p == Root \o <<"location">>  tg == EnumSeq(TagT, h.tags)
      n(s) == Len(s)
  IN ElA(Root, <<"location", "scenarioTags">> \o Rep("lanelet", n(d.lanelets)) \o Rep("trafficSign", n(d.signs))
               \o Rep("trafficLight", n(d.lights)) \o Rep("intersection", n(d.inters))
               \o Cat([r \in 1..4 |-> LET role == <<"static", "dynamic", "phantom", "environment">>[r] IN
                        Rep(role \o "Obstacle", Cardinality({i \in DOMAIN d.obstacles : d.obstacles[i].role = role}))])
               \o Rep("planningProblem", n(d.pps)),
         <<<<"commonRoadVersion", "other", "2020a">>, <<"benchmarkID", "other", h.cid \o "_Test-1">>, <<"date", "date", "">>,
           <<"author", "other", "crv-author">>, <<"affiliation", "other", "crv-affiliation">>, <<"source", "other", "crv-source">>,
           <<"timeStepSize", NumLex(h.dt), "">>>>)
     \o El(p, <<"geoNameId", "gpsLatitude", "gpsLongitude">> \o (IF h.geo # <<>> THEN <<"geoTransformation">> ELSE <<>>)
              \o (IF h.env # <<>> THEN <<"environment">> ELSE <<>>))
     \o IntEl(p \o <<"geoNameId">>, h.gid) \o NumEl(p \o <<"gpsLatitude">>, h.lat) \o NumEl(p \o <<"gpsLongitude">>, h.lon)
     \o Cat([i \in DOMAIN h.geo |-> LET q == p \o <<"geoTransformation">> IN
               El(q, <<"geoReference", "additionalTransformation">>) \o Word(q \o <<"geoReference">>, h.geo[i].ref)
               \o El(q \o <<"additionalTransformation">>, <<"xTranslation", "yTranslation", "zRotation", "scaling">>)
               \o NumEl(q \o <<"additionalTransformation", "xTranslation">>, h.geo[i].xt)
               \o NumEl(q \o <<"additionalTransformation", "yTranslation">>, h.geo[i].yt)
               \o NumEl(q \o <<"additionalTransformation", "zRotation">>, h.geo[i].zr)
               \o NumEl(q \o <<"additionalTransformation", "scaling">>, h.geo[i].sc)])
     \o Cat([i \in DOMAIN h.env |-> LET q == p \o <<"environment">> IN
               El(q, <<"time", "timeOfDay", "weather", "underground">>) \o Tx(q \o <<"time">>, "time", "")
               \o Word(q \o <<"timeOfDay">>, XmlVal(TimeOfDayT, h.env[i].tod)) \o Word(q \o <<"weather">>, XmlVal(WeatherT, h.env[i].w))
               \o Word(q \o <<"underground">>, XmlVal(UndergroundT, h.env[i].u))])
     \o El(Root \o <<"scenarioTags">>, [i \in DOMAIN tg |-> XmlVal(TagT, tg[i])])
     \o Cat([i \in DOMAIN tg |-> Tx(Root \o <<"scenarioTags", XmlVal(TagT, tg[i])>>, "empty", "")])
RoleSorted(obs) == Cat([r \in 1..4 |-> SelectSeq(obs, LAMBDA o : o.role = <<"static", "dynamic", "phantom", "environment">>[r])])
AbstractDoc(d) == HeaderDoc(d) \o Cat(Map(d.lanelets, LaneletDoc)) \o Cat(Map(d.signs, SignDoc)) \o Cat(Map(d.lights, LightDoc))
                  \o Cat(Map(d.inters, InterDoc)) \o Cat(Map(RoleSorted(d.obstacles), ObstacleDoc)) \o Cat(Map(d.pps, PPDoc))
(* ids and refs of that document *)
DocIds(d) == [i \in DOMAIN d.lanelets |-> <<Root \o <<"lanelet">>, I2S(d.lanelets[i].id)>>]
             \o [i \in DOMAIN d.signs |-> <<Root \o <<"trafficSign">>, I2S(d.signs[i].id)>>]
             \o [i \in DOMAIN d.lights |-> <<Root \o <<"trafficLight">>, I2S(d.lights[i].id)>>]
             \o [i \in DOMAIN d.inters |-> <<Root \o <<"intersection">>, I2S(d.inters[i].id)>>]
             \o Cat([i \in DOMAIN d.inters |-> [j \in DOMAIN d.inters[i].incs |-> <<Root \o <<"intersection", "incoming">>, I2S(d.inters[i].incs[j].id)>>]])
             \o [i \in DOMAIN d.obstacles |-> <<Root \o <<d.obstacles[i].role \o "Obstacle">>, I2S(d.obstacles[i].id)>>]
             \o [i \in DOMAIN d.pps |-> <<Root \o <<"planningProblem">>, I2S(d.pps[i].id)>>]
DocRefs(d) == LET re == SelectSeq(AbstractDoc(d), LAMBDA e : e.at # <<>> /\ e.at[1][1] = "ref") IN [k \in DOMAIN re |-> re[k].at[1][3]]
ContractDocValid(d) == SchemaAccepts(AbstractDoc(d), DocIds(d), DocRefs(d))
=============================================================================
