------------------------------- MODULE CommonRoad -------------------------------
(* X10 (extended coverage) - the whole-system composition: ONE scenario (+ planning problem set) shared by   *)
(* all subsystems.  Functional core of the CONTRACT, no variables:                                              *)
(*   World W    ids (reserved ids), the lanelet network (L, ring, succ, pred, sign / light references,          *)
(*              registries regS / regD), the sign, the light (position, cycle, offset), the obstacles           *)
(*              (kind, t0, poses, shapes, history, recorded centre / shape relations), the planning problem     *)
(*   Exp(st, e, hasP, p)   expected world after the public call e  (p = the observed world, used ONLY to        *)
(*              resolve the declared EITHER bands; hasP = FALSE: canonical choice, used by the model)           *)
(*   ExpRes(st, e)         "ok" / "ValueError" / "either"                                                       *)
(*   AnswerOk(W, e)        verdict on a query answer (T / F with Must / May bands on boundary contact)          *)
(*   Inv(W)                conjunction of the subsystem invariants                                              *)
(*   Diff(x, p)            first component in which two worlds differ;  Clause(...) names the failing clause    *)
(* The contracts of the subsystems are REUSED: Cache.tla (lattice geometry, rigid motions, Recompute queries,   *)
(* history rule, traffic light via TrafficLight.tla), Assignment.tla (closed / strict box tests = Must / May),  *)
(* NetworkRefs.tla (Restrict, hanging rule, Dangles); the id-pool rules are those of ScenarioStore.tla          *)
(* (PoolExact, Reject + atomic, GenFresh, ReAddable) restated over the world's id set.                          *)
(* Lattice world: box lanelets, integer centres, quarter turns; occupancies / query points in DOUBLED           *)
(* coordinates.  Pure boundary contact is an EITHER band as in Cache.tla / Assignment.tla.                      *)
EXTENDS Integers, Sequences, FiniteSets, TLC

CONSTANTS HistBand,     \* TRUE: a DynamicObstacle's history may stay where it was under translate_rotate (docstrings silent)
          StrictReassign \* TRUE: a repeated assignment must also clear registrations that no recorded relation backs any more
                         \* (update_initial_state / update_prediction / a cut-out dropped the relation: obstacle-level calls cannot
                         \* reach the registries - silent, same band as in RemoveObstacle); FALSE: such entries may stay

C  == INSTANCE Cache
A  == INSTANCE Assignment
NR == INSTANCE NetworkRefs WITH NL <- 3

Range(q) == {q[i] : i \in DOMAIN q}
LanU    == 1..3
SignId  == 11
LightId == 21
PPId    == 41
Pick(must, may, got) == IF must \subseteq got /\ got \subseteq may THEN got ELSE must     \* a Must / May band

(* ---- tokens (what the constructors of the driver build) --------------------------------------------------- *)
Box(x0, y0, x1, y1) == <<<<x0, y0>>, <<x1, y0>>, <<x1, y1>>, <<x0, y1>>>>
BaseRing  == [i \in LanU |-> CASE i = 1 -> Box(0, 0, 2, 2) [] i = 2 -> Box(2, 0, 4, 2) [] i = 3 -> Box(0, 2, 2, 4)]
BaseCyc   == <<[d |-> 2, c |-> "red"], [d |-> 1, c |-> "green"]>>
BaseLight == [pos |-> <<4, -1>>, cyc |-> BaseCyc, off |-> 0]
NoLight   == [pos |-> <<>>, cyc |-> <<>>, off |-> 0]
BaseSignPos == <<0, -1>>
NoRel == [isf |-> 0, is |-> {}, icf |-> 0, ic |-> {}, saT |-> {}, sa |-> {}, caT |-> {}, ca |-> {}]
Ob(kind, t0, init, has, traj, shp, pshp, hist, rel) ==
    [kind |-> kind, t0 |-> t0, init |-> init, has |-> has, traj |-> traj, shp |-> shp, pshp |-> pshp, hist |-> hist,
     hl |-> <<Len(hist), Len(hist), Len(hist), Len(hist)>>, rel |-> rel]
StaticTok(x, y) == Ob("static", 0, <<x, y, 0>>, 0, <<>>, <<1, 1>>, <<1, 1>>, <<>>, NoRel)
ObTok(tok) == CASE tok = 31 -> Ob("dynamic", 0, <<1, 1, 0>>, 1, <<<<2, 1, 0>>, <<3, 1, 1>>>>, <<1, 3>>, <<1, 3>>, <<>>, NoRel)
                [] tok = 32 -> StaticTok(1, 3)
                [] tok = 3  -> StaticTok(3, 1)
                [] OTHER    -> StaticTok(1, 1)              \* the obstacle added under a generated id
EmptyF == [i \in LanU |-> {}]
NetTok(N) ==       \* NA = the initial network, NB = lanelet 3 alone
    IF N = "NA" THEN [L |-> {1, 2}, succ |-> [EmptyF EXCEPT ![1] = {2}], pred |-> [EmptyF EXCEPT ![2] = {1}],
                      sg |-> [EmptyF EXCEPT ![1] = {SignId}], lt |-> [EmptyF EXCEPT ![1] = {LightId}, ![2] = {LightId}],
                      S |-> {SignId}, T |-> {LightId}]
    ELSE [L |-> {3}, succ |-> EmptyF, pred |-> EmptyF, sg |-> EmptyF, lt |-> EmptyF, S |-> {}, T |-> {}]
NetIds(N) == NetTok(N).L \cup NetTok(N).S \cup NetTok(N).T

W0 == [ids |-> {1, 2, SignId, LightId, 31, 32},
       L |-> {1, 2}, ring |-> [i \in LanU |-> IF i = 3 THEN <<>> ELSE BaseRing[i]],
       succ |-> NetTok("NA").succ, pred |-> NetTok("NA").pred, sg |-> NetTok("NA").sg, lt |-> NetTok("NA").lt,
       regS |-> EmptyF, regD |-> EmptyF,
       S |-> {SignId}, spos |-> BaseSignPos, T |-> {LightId}, lgt |-> BaseLight,
       O |-> {31, 32}, ob |-> [o \in {31, 32} |-> ObTok(o)],
       P |-> {PPId}, pp |-> [i \in {PPId} |-> [init |-> <<0, 1, 0>>, goal |-> <<3, 1, 0, 1, 1>>]]]
St0 == [W |-> W0, gen |-> {}, hasOrig |-> FALSE, orig |-> W0]

(* ---- geometry on the world (Cache.tla / Assignment.tla operators) ----------------------------------------- *)
BoxOf(ring) == LET S == Range(ring) IN <<C!MinC(S, 1), C!MinC(S, 2), C!MaxC(S, 1), C!MaxC(S, 2)>>
P2(pose)    == <<2 * pose[1], 2 * pose[2], pose[3]>>
IsDyn(ob)   == ob.kind = "dynamic"
Horizon(ob) == IF IsDyn(ob) THEN ob.t0..C!LastT(ob) ELSE {ob.t0}
PoseAtW(ob, t) == IF t = ob.t0 \/ ~IsDyn(ob) THEN ob.init ELSE ob.traj[t - ob.t0]
ShapeAtW(ob, t) == LET s == IF t = ob.t0 \/ ~IsDyn(ob) THEN ob.shp ELSE ob.pshp IN <<"rect", s[1], s[2]>>
OccAtW(ob, t)   == IF IsDyn(ob) THEN C!OccAt(ob, t) ELSE C!BoxCorners2(ob.init, ob.shp)       \* a static obstacle is there at every t
StateAtW(ob, t) == IF IsDyn(ob) THEN C!StateAt(ob, t) ELSE ob.init
ShapeMust(W, ob, t) == {l \in W.L : A!ShapeMeetsStrict(BoxOf(W.ring[l]), ShapeAtW(ob, t), P2(PoseAtW(ob, t)))}
ShapeMay(W, ob, t)  == {l \in W.L : A!ShapeMeets(BoxOf(W.ring[l]), ShapeAtW(ob, t), P2(PoseAtW(ob, t)))}
CenterMust(W, ob, t) == {l \in W.L : C!InRingStrict2(W.ring[l], P2(PoseAtW(ob, t)))}
CenterMay(W, ob, t)  == {l \in W.L : C!InRing2(W.ring[l], P2(PoseAtW(ob, t)))}
CNet(W) == [L |-> W.L, ring |-> W.ring]                                                      \* the network as Cache.tla sees it

(* ---- rigid motions (C05): translate, then rotate about the origin ------------------------------------------ *)
Mo(a) == [tx |-> a[1], ty |-> a[2], q |-> a[3]]
MoveNetW(W, m) ==
    [W EXCEPT !.ring = [i \in LanU |-> IF i \in W.L THEN C!MoveSeq(m, W.ring[i]) ELSE <<>>],
              !.spos = IF W.S = {} THEN <<>> ELSE C!Move(m, @),
              !.lgt  = IF W.T = {} THEN @ ELSE [@ EXCEPT !.pos = C!Move(m, @)]]
MoveObW(ob, m, histMoves) ==
    [ob EXCEPT !.init = C!MovePose(m, @), !.traj = C!MovePoses(m, @),
               !.hist = IF histMoves THEN C!MovePoses(m, @) ELSE @]
MoveGoal(m, g) == LET c == C!MovePose(m, <<g[1], g[2], g[3]>>) IN <<c[1], c[2], c[3], g[4], g[5]>>
MovePPs(W, m) == [W EXCEPT !.pp = [i \in W.P |-> [init |-> C!MovePose(m, W.pp[i].init), goal |-> MoveGoal(m, W.pp[i].goal)]]]
(* the history band: the moved history is expected unless the observed one is the unmoved one (and HistBand) *)
HistMoves(ob, o, hasP, p) == ~(HistBand /\ hasP /\ o \in p.O /\ p.ob[o].hist = ob.hist)
MoveObs(W, m, os, hasP, p) ==
    [W EXCEPT !.ob = [o \in W.O |-> IF o \in os THEN MoveObW(W.ob[o], m, HistMoves(W.ob[o], o, hasP, p)) ELSE W.ob[o]]]

(* ---- obstacle-lanelet assignment (C07) --------------------------------------------------------------------- *)
AssignK(a)   == CHOOSE k \in 1..Len(a) : a[k] = -1 /\ \A j \in 1..(k - 1) : a[j] # -1       \* a = obstacle ids ++ <<-1>> ++ time steps
AssignSel(W, a) == IF AssignK(a) = 1 THEN W.O ELSE {a[i] : i \in 1..(AssignK(a) - 1)}
AssignAllT(a) == AssignK(a) = Len(a)
AssignTs(a)  == {a[i] : i \in (AssignK(a) + 1)..Len(a)}
TimesOf(ob, a) == IF ~IsDyn(ob) \/ AssignAllT(a) THEN Horizon(ob) ELSE AssignTs(a) \cap Horizon(ob)
(* silent: a requested time step before the initial time step of a predicted obstacle *)
AssignEither(W, a) == ~AssignAllT(a) /\ \E o \in AssignSel(W, a) \cap W.O :
                         IsDyn(W.ob[o]) /\ W.ob[o].has = 1 /\ \E t \in AssignTs(a) : t < W.ob[o].t0
RelAt(rel, t0, t)  == IF t = t0 THEN rel.is ELSE {x[2] : x \in {y \in rel.sa : y[1] = t}}
AssignRel(W, ob, Ts, g) ==      \* g = the observed relation record (band resolution)
    LET now == ob.t0 \in Ts
        fut == Ts \ {ob.t0}
        gat(pairs, t) == {x[2] : x \in {y \in pairs : y[1] = t}}
    IN [isf |-> IF now THEN 1 ELSE ob.rel.isf,
        is  |-> IF now THEN Pick(ShapeMust(W, ob, ob.t0), ShapeMay(W, ob, ob.t0), g.is) ELSE ob.rel.is,
        icf |-> IF now THEN 1 ELSE ob.rel.icf,
        ic  |-> IF now THEN Pick(CenterMust(W, ob, ob.t0), CenterMay(W, ob, ob.t0), g.ic) ELSE ob.rel.ic,
        saT |-> ob.rel.saT \cup fut,
        sa  |-> {x \in ob.rel.sa : x[1] \notin fut} \cup
                UNION {{<<t, l>> : l \in Pick(ShapeMust(W, ob, t), ShapeMay(W, ob, t), gat(g.sa, t))} : t \in fut},
        caT |-> ob.rel.caT \cup fut,
        ca  |-> {x \in ob.rel.ca : x[1] \notin fut} \cup
                UNION {{<<t, l>> : l \in Pick(CenterMust(W, ob, t), CenterMay(W, ob, t), gat(g.ca, t))} : t \in fut}]
GRel(W, o, hasP, p) == IF hasP /\ o \in p.O THEN p.ob[o].rel ELSE NoRel
AssignW(W, Sel, a, hasP, p) ==
    LET Ts(o)  == TimesOf(W.ob[o], a)
        rel(o) == AssignRel(W, W.ob[o], Ts(o), GRel(W, o, hasP, p))
        dyn    == {o \in Sel : IsDyn(W.ob[o])}
        sta    == Sel \ dyn
        (* a registration being re-assigned goes if the previous recorded relation backs it; an unbacked one is silent *)
        goesS(l, o) == StrictReassign \/ l \in W.ob[o].rel.is \/ ~(hasP /\ o \in p.regS[l])
        goesD(l, x) == StrictReassign \/ l \in RelAt(W.ob[x[2]].rel, W.ob[x[2]].t0, x[1]) \/ ~(hasP /\ x \in p.regD[l])
    IN [W EXCEPT !.ob = [o \in W.O |-> IF o \in Sel THEN [W.ob[o] EXCEPT !.rel = rel(o)] ELSE W.ob[o]],
                 (* the registries are exactly the inverse of the shape relation at the assigned time steps *)
                 !.regS = [l \in LanU |-> IF l \in W.L THEN {o \in W.regS[l] : ~(o \in sta /\ goesS(l, o))} \cup {o \in sta : l \in rel(o).is} ELSE {}],
                 !.regD = [l \in LanU |-> IF l \in W.L
                                          THEN {x \in W.regD[l] : ~(x[2] \in dyn /\ x[1] \in Ts(x[2]) /\ goesD(l, x))} \cup
                                               UNION {{<<t, o>> : t \in {u \in Ts(o) : l \in RelAt(rel(o), W.ob[o].t0, u)}} : o \in dyn}
                                          ELSE {}]]

(* ---- the network (C10, NetworkRefs.tla) and the id pool (C09) ---------------------------------------------- *)
NRNet(W) == [NR!EmptyNet EXCEPT !.L = W.L, !.pred = W.pred, !.succ = W.succ, !.sg = W.sg, !.lt = W.lt, !.S = W.S, !.T = W.T]
ContainedIds(W) == W.L \cup W.S \cup W.T \cup W.O
(* obstacle -> lanelet relations that refer to a lanelet which left the network: silent (kept or dropped) *)
DropRel(rel, G, g) ==
    LET keepS(cur, got) == (cur \ G) \cup (cur \cap G \cap got)
        keepP(cur, got) == {x \in cur : x[2] \notin G \/ x \in got}
    IN [rel EXCEPT !.is = keepS(@, g.is), !.ic = keepS(@, g.ic), !.sa = keepP(@, g.sa), !.ca = keepP(@, g.ca)]
DropRefs(W, G, hasP, p) ==
    [W EXCEPT !.ob = [o \in W.O |-> [W.ob[o] EXCEPT !.rel = DropRel(@, G, IF hasP /\ o \in p.O THEN p.ob[o].rel ELSE W.ob[o].rel)]]]
RemoveElems(W, gL, gS, gT, hasP, p) ==
    LET r == NR!Restrict(NRNet(W), W.L \ gL, W.S \ gS, W.T \ gT, {}, {})
        W1 == [W EXCEPT !.ids = @ \ (gL \cup gS \cup gT), !.L = r.L, !.succ = r.succ, !.pred = r.pred, !.sg = r.sg, !.lt = r.lt,
                        !.S = r.S, !.T = r.T,
                        !.ring = [i \in LanU |-> IF i \in r.L THEN W.ring[i] ELSE <<>>],
                        !.regS = [i \in LanU |-> IF i \in r.L THEN W.regS[i] ELSE {}],
                        !.regD = [i \in LanU |-> IF i \in r.L THEN W.regD[i] ELSE {}],
                        !.spos = IF r.S = {} THEN <<>> ELSE @, !.lgt = IF r.T = {} THEN NoLight ELSE @]
    IN DropRefs(W1, gL, hasP, p)
Erased(W, hasP, p) == RemoveElems(W, W.L, W.S, W.T, hasP, p)
AddNet(W, N) ==
    LET n == NetTok(N) IN
    [W EXCEPT !.ids = @ \cup NetIds(N), !.L = n.L, !.succ = n.succ, !.pred = n.pred, !.sg = n.sg, !.lt = n.lt,
              !.S = n.S, !.T = n.T, !.ring = [i \in LanU |-> IF i \in n.L THEN BaseRing[i] ELSE <<>>],
              !.regS = EmptyF, !.regD = EmptyF,
              !.spos = IF n.S = {} THEN <<>> ELSE BaseSignPos, !.lgt = IF n.T = {} THEN NoLight ELSE BaseLight]
AddLanelets(W, ls) ==      \* fresh base lanelets without relations / references
    [W EXCEPT !.ids = @ \cup ls, !.L = @ \cup ls, !.ring = [i \in LanU |-> IF i \in ls THEN BaseRing[i] ELSE @[i]]]
(* hanging rule: signs / lights go with the lanelet ONLY IF no remaining lanelet refers to them (they may stay) *)
Hang(W, l, hasP, p) ==
    LET hs == NR!HangS(NRNet(W), {l})  ht == NR!HangT(NRNet(W), {l})
    IN <<IF hasP THEN hs \cap (W.S \ p.S) ELSE hs, IF hasP THEN ht \cap (W.T \ p.T) ELSE ht>>
CutOut(W, c2, hasP, p) ==     \* create_from_lanelet_network(shape) REPLACING the network: ids = the lanelets that stay
    LET K  == Pick({l \in W.L : C!BoxMeetsStrict2(W.ring[l], c2, <<1, 1>>)}, {l \in W.L : C!BoxMeets2(W.ring[l], c2, <<1, 1>>)},
                   IF hasP THEN p.L ELSE {})
        n  == NRNet(W)
        S1 == Pick(NR!RefdSigns(n, K) \cap W.S, W.S, IF hasP THEN p.S ELSE {})
        T1 == Pick(NR!RefdLights(n, K) \cap W.T, W.T, IF hasP THEN p.T ELSE {})
        W1 == RemoveElems(W, W.L \ K, W.S \ S1, W.T \ T1, hasP, p)
    IN (* the kept lanelets are copies: their registries are kept or start empty (silent); relations to them kept or dropped *)
       DropRefs([W1 EXCEPT !.regS = [i \in LanU |-> IF hasP /\ p.regS[i] = {} THEN {} ELSE @[i]],
                           !.regD = [i \in LanU |-> IF hasP /\ p.regD[i] = {} THEN {} ELSE @[i]]], K, hasP, p)

(* ---- removal of an obstacle: registry entries backed by its recorded relation must go; others are silent ---- *)
RemoveObstacle(W, o, hasP, p) ==
    LET ob == W.ob[o]
        bS(l) == ob.rel.isf = 1 /\ l \in ob.rel.is
        bD(l, t) == (t = ob.t0 /\ bS(l)) \/ <<t, l>> \in ob.rel.sa
        got(f, l) == IF hasP THEN p[f][l] ELSE {}
    IN [W EXCEPT !.ids = @ \ {o}, !.O = @ \ {o}, !.ob = [x \in W.O \ {o} |-> W.ob[x]],
                 !.regS = [l \in LanU |-> IF IsDyn(ob) THEN @[l] ELSE IF bS(l) THEN @[l] \ {o} ELSE (@[l] \ {o}) \cup (@[l] \cap {o} \cap got("regS", l))],
                 !.regD = [l \in LanU |-> IF ~IsDyn(ob) THEN @[l]
                                          ELSE {x \in @[l] : x[2] # o \/ (~bD(l, x[1]) /\ x \in got("regD", l))}]]

(* ---- file round trip: what a written file carries (C01 / C02) ----------------------------------------------- *)
ReadBack(W, la, hasP, p) ==
    LET W1 == [W EXCEPT !.ids = ContainedIds(W), !.regS = EmptyF, !.regD = EmptyF,
                        !.ob = [o \in W.O |-> Ob(W.ob[o].kind, W.ob[o].t0, W.ob[o].init, W.ob[o].has, W.ob[o].traj, W.ob[o].shp,
                                                  W.ob[o].pshp, <<>>, NoRel)]]
    IN IF la = 1 THEN AssignW(W1, W1.O, <<-1>>, hasP, p) ELSE W1
(* the XML reader rejects a file whose traffic sign is referenced by no lanelet ("CommonRoad file is invalid") *)
UnrefSign(W) == W.S # {} /\ \A l \in W.L : SignId \notin W.sg[l]

(* ---- expected result and expected world of every public call ----------------------------------------------- *)
Flat3(a, from) == [i \in 1..((Len(a) - from + 1) \div 3) |-> <<a[from + 3 * (i - 1)], a[from + 3 * (i - 1) + 1], a[from + 3 * (i - 1) + 2]>>]
ColOf(i) == CASE i = 0 -> "red" [] i = 1 -> "green" [] OTHER -> "yellow"
Cyc2(a)  == [i \in 1..(Len(a) \div 2) |-> [d |-> a[2 * i - 1], c |-> ColOf(a[2 * i])]]
QueryOps == {"occ", "state", "find_pos", "find_shape", "by_box", "light", "states_at", "goal", "check_orig", "occs_at"}

ExpRes(st, e) ==
    LET W == st.W IN
    CASE e.op = "add_obstacle" -> IF e.a[1] \in W.ids THEN "ValueError" ELSE "ok"
      [] e.op = "add_lanelet"  -> IF e.a[1] \in W.ids THEN "ValueError" ELSE "ok"
      [] e.op = "add_sign"     -> IF SignId \in W.ids THEN "ValueError" ELSE "ok"
      [] e.op = "add_light"    -> IF LightId \in W.ids THEN "ValueError" ELSE "ok"
      [] e.op = "replace"      -> IF NetIds(e.s) \cap Erased(W, FALSE, W).ids # {} THEN "ValueError" ELSE "ok"
      [] e.op = "assign"       -> IF AssignEither(W, e.a) THEN "either" ELSE "ok"
      [] e.op = "open"         -> IF e.s = "xml" /\ UnrefSign(W) THEN "either" ELSE "ok"
      [] OTHER -> "ok"

Exp(st, e, hasP, p) ==
    LET W == st.W  a == e.a  failed == e.exc # "None" IN
    CASE e.op \in QueryOps \cup {"gen", "write", "copy"} -> W
      [] e.op = "tr" ->
           LET m == Mo(a) IN
           IF e.s = "scenario" THEN MoveObs(MoveNetW(W, m), m, W.O, hasP, p)
           ELSE IF e.s = "network" THEN MoveNetW(W, m)
           ELSE IF e.s = "pps" THEN MovePPs(W, m)
           ELSE MoveObs(W, m, {a[4]} \cap W.O, hasP, p)
      [] e.op = "assign" -> IF failed THEN p ELSE AssignW(W, AssignSel(W, a) \cap W.O, a, hasP, p)
      [] e.op = "add_obstacle" ->
           IF a[1] \in W.ids THEN W
           ELSE [W EXCEPT !.ids = @ \cup {a[1]}, !.O = @ \cup {a[1]}, !.ob = [o \in W.O \cup {a[1]} |-> IF o = a[1] THEN ObTok(a[1]) ELSE W.ob[o]]]
      [] e.op = "gen_add" ->
           [W EXCEPT !.ids = @ \cup {e.gid}, !.O = @ \cup {e.gid}, !.ob = [o \in W.O \cup {e.gid} |-> IF o = e.gid THEN ObTok(0) ELSE W.ob[o]]]
      [] e.op = "remove_obstacle" -> RemoveObstacle(W, a[1], hasP, p)
      [] e.op = "add_lanelet" -> IF a[1] \in W.ids THEN W ELSE AddLanelets(W, {a[1]})
      [] e.op = "add_sign" ->
           IF SignId \in W.ids THEN W
           ELSE [W EXCEPT !.ids = @ \cup {SignId}, !.S = {SignId}, !.spos = BaseSignPos,
                          !.sg = [l \in LanU |-> IF l \in Range(a) \cap W.L THEN @[l] \cup {SignId} ELSE @[l]]]
      [] e.op = "add_light" ->
           IF LightId \in W.ids THEN W
           ELSE [W EXCEPT !.ids = @ \cup {LightId}, !.T = {LightId}, !.lgt = BaseLight,
                          !.lt = [l \in LanU |-> IF l \in Range(a) \cap W.L THEN @[l] \cup {LightId} ELSE @[l]]]
      [] e.op = "remove_lanelet" ->
           LET h == IF a[2] = 1 THEN Hang(W, a[1], hasP, p) ELSE <<{}, {}>> IN RemoveElems(W, {a[1]}, h[1], h[2], hasP, p)
      [] e.op = "remove_sign"  -> RemoveElems(W, {}, {SignId}, {}, hasP, p)
      [] e.op = "remove_light" -> RemoveElems(W, {}, {}, {LightId}, hasP, p)
      [] e.op = "erase"   -> Erased(W, hasP, p)
      [] e.op = "replace" ->
           LET er == Erased(W, hasP, p) IN
           IF NetIds(e.s) \cap er.ids = {} THEN AddNet(er, e.s)
           ELSE IF hasP /\ p.L = {} /\ p.S = {} /\ p.T = {} THEN er ELSE W      \* rejected: nothing happened, or the old network is gone
      [] e.op = "cutout"  -> CutOut(W, <<a[1], a[2]>>, hasP, p)
      [] e.op = "merge"   -> AddLanelets(W, Range(a) \ W.L)                     \* every lanelet of the source that is not yet there
      [] e.op = "update_initial_state" ->
           LET ob == W.ob[a[1]] IN
           [W EXCEPT !.ob[a[1]] = Ob("dynamic", ob.t0 + 1, <<a[2], a[3], a[4]>>, 0, <<>>, ob.shp, ob.shp, C!HistAfter(ob, a[5]), NoRel)]
      [] e.op = "update_prediction" ->
           LET tr == Flat3(a, 2) IN
           [W EXCEPT !.ob[a[1]] = [@ EXCEPT !.has = IF tr = <<>> THEN 0 ELSE 1, !.traj = tr, !.pshp = W.ob[a[1]].shp,
                                           !.rel = [@ EXCEPT !.saT = {}, !.sa = {}, !.caT = {}, !.ca = {}]]]
      [] e.op = "set_cycle"  -> [W EXCEPT !.lgt.cyc = Cyc2(a)]
      [] e.op = "set_offset" -> [W EXCEPT !.lgt.off = a[1]]
      [] e.op = "open" -> IF failed THEN W ELSE ReadBack(W, a[1], hasP, p)
      [] OTHER -> W

(* the model's deterministic step: canonical band choices *)
Step(st, e) == Exp(st, e, FALSE, st.W)

(* ---- the preconditions the drivers promise ----------------------------------------------------------------- *)
Enabled(st, e) ==
    LET W == st.W  a == e.a IN
    CASE e.op = "tr" -> e.s # "obstacle" \/ a[4] \in W.O
      [] e.op \in {"remove_obstacle", "occ", "state"} -> a[1] \in W.O
      [] e.op \in {"update_initial_state", "update_prediction"} -> a[1] \in W.O /\ IsDyn(W.ob[a[1]])
      [] e.op = "assign" -> W.O # {} /\ AssignSel(W, a) \subseteq W.O
      [] e.op = "remove_lanelet" -> a[1] \in W.L
      [] e.op = "remove_sign" -> W.S # {}
      [] e.op \in {"remove_light", "set_cycle", "set_offset", "light"} -> W.T # {}
      [] e.op = "cutout" -> W.L # {}
      [] e.op = "merge" -> (Range(a) \cap W.ids) \subseteq W.L         \* network-level call: the ids must be free in the scenario
      [] e.op = "check_orig" -> st.hasOrig
      [] e.op = "goal" -> W.P # {}
      [] OTHER -> TRUE

(* ---- query answers: Recompute(primary) ---------------------------------------------------------------------- *)
InBoxStrict(b, p2) == b[1] < p2[1] /\ p2[1] < b[2] /\ b[3] < p2[2] /\ p2[2] < b[4]
InBoxClosed(b, p2) == b[1] <= p2[1] /\ p2[1] <= b[2] /\ b[3] <= p2[2] /\ p2[2] <= b[4]
HasOcc(ob, t) == ~IsDyn(ob) \/ C!InHorizon(ob, t)
ByBox(W, b, t, strict) == {o \in W.O : /\ HasOcc(W.ob[o], t)
                                       /\ LET c == P2(PoseAtW(W.ob[o], t)) IN IF strict THEN InBoxStrict(b, c) ELSE InBoxClosed(b, c)}
GoalBox(g) == LET h == IF g[3] % 2 = 0 THEN <<g[4], g[5]>> ELSE <<g[5], g[4]>>
              IN <<2 * g[1] - h[1], 2 * g[1] + h[1], 2 * g[2] - h[2], 2 * g[2] + h[2]>>
GoalVerdict(W, p2, t) == LET b == GoalBox(W.pp[PPId].goal) IN
                         IF t \notin 0..10 \/ ~InBoxClosed(b, p2) THEN "F" ELSE IF InBoxStrict(b, p2) THEN "T" ELSE "EITHER"
Pair(q) == <<q[1], q[2]>>
PtSet(s) == {Pair(x) : x \in Range(s)}
(* name of the violated clause ("" = the answer is Recompute(primary)) *)
AnswerOk(st, e) ==
    LET W == st.W  a == e.a IN
    CASE e.op = "occ"   -> PtSet(e.rpts) = OccAtW(W.ob[a[1]], a[2])
      [] e.op = "state" -> e.rpose = StateAtW(W.ob[a[1]], a[2])
      [] e.op = "find_pos"   -> C!MustByPos(CNet(W), Pair(a)) \subseteq Range(e.rids) /\ Range(e.rids) \subseteq C!FindByPos(CNet(W), Pair(a))
      [] e.op = "find_shape" -> /\ C!MustByShape(CNet(W), Pair(a), <<1, 1>>) \subseteq Range(e.rids)
                                /\ Range(e.rids) \subseteq C!FindByShape(CNet(W), Pair(a), <<1, 1>>)
      [] e.op = "by_box" -> LET b == <<a[1], a[2], a[3], a[4]>> IN
                            ByBox(W, b, a[5], TRUE) \subseteq Range(e.rids) /\ Range(e.rids) \subseteq ByBox(W, b, a[5], FALSE)
      [] e.op = "light" -> e.rstr = C!LightAt(W.lgt, a[1])
      [] e.op = "states_at" -> {<<x[1], x[2]>> : x \in Range(e.rmap)} =
                               {<<o, PoseAtW(W.ob[o], a[1])>> : o \in {x \in W.O : HasOcc(W.ob[x], a[1])}}
      [] e.op = "occs_at" -> {PtSet(x) : x \in Range(e.rocc)} = {OccAtW(W.ob[o], a[1]) : o \in {x \in W.O : HasOcc(W.ob[x], a[1])}}
      [] e.op = "goal" -> LET v == GoalVerdict(W, <<a[1], a[2]>>, a[3]) IN v = "EITHER" \/ (v = "T") = (e.rint = 1)
      [] OTHER -> TRUE

(* ---- comparison of two worlds: the first component that differs --------------------------------------------- *)
ObCore(ob) == <<ob.kind, ob.t0, ob.init, ob.has, ob.traj, ob.shp, ob.pshp>>
(* a relation that was never recorded (None) and an empty one are not distinguished (as in C01): the flags isf / icf and the  *)
(* recorded time steps saT / caT are carried but not compared                                                                  *)
Diff(x, p) ==
    IF x.ids # p.ids THEN "ids"
    ELSE IF x.L # p.L THEN "lanelets"
    ELSE IF x.ring # p.ring THEN "lanelet-geometry"
    ELSE IF x.succ # p.succ \/ x.pred # p.pred THEN "successor-predecessor"
    ELSE IF x.S # p.S \/ x.sg # p.sg THEN "signs"
    ELSE IF x.T # p.T \/ x.lt # p.lt THEN "lights"
    ELSE IF x.spos # p.spos THEN "sign-position"
    ELSE IF x.lgt.pos # p.lgt.pos THEN "light-position"
    ELSE IF x.lgt # p.lgt THEN "light-cycle"
    ELSE IF x.O # p.O THEN "obstacles"
    ELSE IF \E o \in x.O : ObCore(x.ob[o]) # ObCore(p.ob[o]) THEN "obstacle-state"
    ELSE IF \E o \in x.O : x.ob[o].hist # p.ob[o].hist THEN "history"
    ELSE IF \E o \in x.O : x.ob[o].hl # p.ob[o].hl THEN "history-lengths"
    ELSE IF \E o \in x.O : LET r == x.ob[o].rel  s == p.ob[o].rel IN r.ic # s.ic \/ r.ca # s.ca
         THEN "center-assignment"
    ELSE IF \E o \in x.O : LET r == x.ob[o].rel  s == p.ob[o].rel IN r.is # s.is \/ r.sa # s.sa
         THEN "shape-assignment"
    ELSE IF x.regS # p.regS THEN "registry-static"
    ELSE IF x.regD # p.regD THEN "registry-dynamic"
    ELSE IF x.P # p.P \/ x.pp # p.pp THEN "planning-problems"
    ELSE ""

(* ---- clause names: "X10.<listed property of the clause, or subsystem>/<what>" ------------------------------- *)
NetOps == {"add_lanelet", "add_sign", "add_light", "remove_lanelet", "remove_sign", "remove_light", "erase", "replace", "cutout", "merge"}
Owner(e, d) ==
    IF d = "ids" THEN "C09/PoolExact"
    ELSE IF e.op \in QueryOps THEN "C18/query-mutates"
    ELSE IF e.op = "write" THEN "C18/write-mutates"
    ELSE IF e.op = "copy" THEN "C18/copy-differs"
    ELSE IF e.op = "open" THEN (IF d \in {"registry-static", "registry-dynamic"} THEN "C07/RegistryInverse"
                                ELSE IF d \in {"center-assignment", "shape-assignment"} THEN "C07/Correct"
                                ELSE IF e.s = "xml" THEN "C01/ReadBack" ELSE "C02/ReadBack")
    ELSE IF e.op = "tr" THEN "C05/Motion"
    ELSE IF e.op = "assign" THEN (IF d \in {"registry-static", "registry-dynamic"} THEN "C07/RegistryInverse/after-reassign" ELSE "C07/Correct")
    ELSE IF e.op = "remove_obstacle" /\ d \in {"registry-static", "registry-dynamic"} THEN "C07/RemoveConsistent"
    ELSE IF e.op \in NetOps THEN "C10/Network"
    ELSE IF e.op \in {"update_initial_state", "update_prediction"} THEN "C11/Obstacle"
    ELSE IF e.op \in {"set_cycle", "set_offset"} THEN "C17/Light"
    ELSE "Store"
TotalClause(e) ==
    IF e.op = "remove_obstacle" THEN "X10.C07/RemoveTotal"
    ELSE IF e.op = "open" THEN (IF e.s = "xml" THEN "X10.C01/ReadBack/raises" ELSE "X10.C02/ReadBack/raises")
    ELSE IF e.op = "write" THEN "X10.C15/write-raises"
    ELSE IF e.op \in QueryOps THEN "X10.C11/Total/" \o e.op
    ELSE "X10.Total/" \o e.op

GenOk(st, g) == g \notin st.W.ids /\ g \notin st.gen
(* the contract clause of one logged event (pre-state st, observed world p): "" = accepted *)
Clause(st, e, p) ==
    LET r == ExpRes(st, e)
        x == Exp(st, e, TRUE, p)
        d == Diff(x, p)
        raised == e.exc # "None"
    IN IF ~Enabled(st, e) THEN "driver/precondition/" \o e.op
       ELSE IF r = "ValueError" /\ e.exc # "exc:ValueError" THEN "X10.C09/RejectRaises/" \o e.op
       ELSE IF r = "ok" /\ raised THEN (IF e.exc = "exc:ValueError" /\ e.op \in {"add_obstacle", "add_lanelet", "add_sign", "add_light", "replace", "gen_add"}
                                        THEN "X10.C09/ReAddable/" \o e.op ELSE TotalClause(e))
       ELSE IF e.op \in {"gen", "gen_add"} /\ ~GenOk(st, e.gid) THEN "X10.C09/GenFresh"
       ELSE IF e.op = "merge" /\ x.L # p.L THEN "X10.Merge/lanelets-after-duplicate-skipped"
       ELSE IF d # "" THEN (IF r = "ValueError" THEN "X10.C09/RejectAtomic/" \o d ELSE "X10." \o Owner(e, d) \o "/" \o d)
       ELSE IF e.op = "check_orig" THEN
            (LET od == Diff(st.orig, e.rworld) IN
             IF od # "" THEN "X10.C18/original-changed/" \o od
             ELSE IF e.has31 = 1 /\ PtSet(e.rpts) # OccAtW(st.orig.ob[31], e.a[1]) THEN "X10.C11/Recompute/original-occupancy" ELSE "")
       ELSE IF e.op \in QueryOps /\ ~raised /\ ~AnswerOk(st, e) THEN "X10.C11/Recompute/" \o e.op
       ELSE ""
(* the specification state after the event: re-synchronised to the observed world *)
Post(st, e, p) ==
    [W |-> p,
     gen |-> IF e.op = "open" /\ e.exc = "None" THEN {} ELSE IF e.op \in {"gen", "gen_add"} THEN st.gen \cup {e.gid} ELSE st.gen,
     hasOrig |-> IF e.op = "copy" /\ e.exc = "None" THEN TRUE ELSE IF e.op = "open" /\ e.exc = "None" THEN FALSE ELSE st.hasOrig,
     orig |-> IF e.op = "copy" /\ e.exc = "None" THEN st.W ELSE st.orig]

(* ---- the world invariant: conjunction of the subsystem invariants ------------------------------------------- *)
InvPool(W)     == W.ids = ContainedIds(W)                                                   \* C09 PoolExact (+ Unique: the id sets are disjoint)
InvDisjoint(W) == W.L \cap W.O = {} /\ (W.L \cup W.O) \cap (W.S \cup W.T) = {}
InvRefs(W)     == NR!Dangles(NRNet(W)) = ""                                                 \* C10 NoDangling
InvAbsent(W)   == \A l \in LanU \ W.L : W.ring[l] = <<>> /\ W.regS[l] = {} /\ W.regD[l] = {} /\ W.succ[l] = {} /\ W.sg[l] = {}
InvRegistry(W) ==          \* C07: the registries mention only contained obstacles of the right kind
    \A l \in W.L : W.regS[l] \subseteq {o \in W.O : ~IsDyn(W.ob[o])} /\ \A x \in W.regD[l] : x[2] \in W.O /\ IsDyn(W.ob[x[2]])
InvHistory(W)  == \A o \in W.O : W.ob[o].hl = <<Len(W.ob[o].hist), Len(W.ob[o].hist), Len(W.ob[o].hist), Len(W.ob[o].hist)>>
InvTraj(W)     == \A o \in W.O : (W.ob[o].has = 0 => W.ob[o].traj = <<>>) /\ (~IsDyn(W.ob[o]) => W.ob[o].has = 0)
Inv(W) == InvPool(W) /\ InvDisjoint(W) /\ InvRefs(W) /\ InvAbsent(W) /\ InvRegistry(W) /\ InvHistory(W) /\ InvTraj(W)

(* ---- laws of the contract operators (checked by TLC on every reachable world) -------------------------------- *)
LawUndo(W, m) ==           \* undoing a scenario motion restores the world (C05)
    LET e1 == [op |-> "tr", a |-> <<m.tx, m.ty, m.q, 0>>, s |-> "scenario", exc |-> "None"]
        e2 == [op |-> "tr", a |-> <<0, 0, (4 - m.q) % 4, 0>>, s |-> "scenario", exc |-> "None"]
        e3 == [op |-> "tr", a |-> <<-m.tx, -m.ty, 0, 0>>, s |-> "scenario", exc |-> "None"]
        s(w) == [St0 EXCEPT !.W = w]
    IN Step(s(Step(s(Step(s(W), e1)), e2)), e3) = W
LawMotionKeepsAssignment(W, m) ==   \* a scenario-level motion moves lanelets and obstacles together: the lattice truth is invariant
    LET W1 == Step([St0 EXCEPT !.W = W], [op |-> "tr", a |-> <<m.tx, m.ty, m.q, 0>>, s |-> "scenario", exc |-> "None"])
    IN \A o \in W.O : \A t \in Horizon(W.ob[o]) : /\ ShapeMust(W1, W1.ob[o], t) = ShapeMust(W, W.ob[o], t)
                                                  /\ CenterMay(W1, W1.ob[o], t) = CenterMay(W, W.ob[o], t)
LawAssignInverse(W) ==      \* after assigning everything the registries are, over every obstacle's horizon, exactly the inverse of the
    W.O # {} =>             \* recorded shape relation (C07); entries outside the horizon stem from update_initial_state / update_prediction (silent)
      LET W1 == Step([St0 EXCEPT !.W = W], [op |-> "assign", a |-> <<-1>>, s |-> "", exc |-> "None"]) IN
      \A l \in W1.L : \A o \in W1.O :
         IF IsDyn(W1.ob[o]) THEN \A t \in Horizon(W1.ob[o]) : (<<t, o>> \in W1.regD[l]) <=> (l \in RelAt(W1.ob[o].rel, W1.ob[o].t0, t))
         ELSE (o \in W1.regS[l]) <=> (l \in W1.ob[o].rel.is)
LawAssignIdempotent(W) ==
    W.O # {} => LET e == [op |-> "assign", a |-> <<-1>>, s |-> "", exc |-> "None"]
                    W1 == Step([St0 EXCEPT !.W = W], e)
                IN Step([St0 EXCEPT !.W = W1], e) = W1
LawReadBackIdempotent(W) ==     \* a file carries everything a file carries: reading twice changes nothing more
    \A la \in {0, 1} : ReadBack(ReadBack(W, la, FALSE, W), la, FALSE, W) = ReadBack(W, la, FALSE, W)
LawMustMay(W) == \A o \in W.O : \A t \in Horizon(W.ob[o]) : /\ ShapeMust(W, W.ob[o], t) \subseteq ShapeMay(W, W.ob[o], t)
                                                            /\ CenterMust(W, W.ob[o], t) \subseteq CenterMay(W, W.ob[o], t)
                                                            /\ CenterMust(W, W.ob[o], t) \subseteq ShapeMust(W, W.ob[o], t)
=================================================================================
