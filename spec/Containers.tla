------------------------------ MODULE Containers ------------------------------
(* X01 (extended coverage) - the small containers and time-indexed sequences of the library,  *)
(* written from their docstrings (and the messages of their argument checks):                  *)
(*   PlanningProblemSet   planning/planning_problem.py   a set of problems keyed by unique id  *)
(*   Trajectory           scenario/trajectory.py         states indexed by consecutive time steps *)
(*   Prediction           prediction/prediction.py       occupancies indexed by time step / interval *)
(*   Trajectory.resample_continuous_time_state_list       fixed-resolution resampling (section 4)     *)
(* Functional core of the CONTRACT: no variables.  Every operation has an event shape          *)
(* (the record the harness logs and the model emits) and the contract is the pair              *)
(*   Clause(st, e)  name of the violated clause of event e in abstract state st ("" = accepted) *)
(*   Post(st, e)    abstract state after e (re-synchronised to what the event reports)         *)
(* Where a docstring is silent both behaviours are accepted (the EITHER bands are the ""       *)
(* branches commented `silent`).                                                              *)
EXTENDS Integers, Sequences, FiniteSets, TLC

Range(s) == {s[i] : i \in DOMAIN s}
Max(X)   == CHOOSE x \in X : \A y \in X : y <= x
Min(X)   == CHOOSE x \in X : \A y \in X : x <= y

(* ======================================================================================== *)
(* 1. PlanningProblemSet: state S = set of contained problems <<id, tag>> (tag = content)   *)
(* ======================================================================================== *)
PIds(S)      == {p[1] : p \in S}
PUnique(S)   == \A p, q \in S : p[1] = q[1] => p = q                    \* ids unique
PTag(S, i)   == (CHOOSE p \in S : p[1] = i)[2]
NoDupIds(q)  == \A i, j \in DOMAIN q : i # j => q[i][1] # q[j][1]
(* a list with repeated ids: nothing is documented; if the constructor accepts it, exactly   *)
(* one of the listed problems must be kept per id (ids stay unique, nothing invented)         *)
OnePerId(q)  == {S \in SUBSET Range(q) : PUnique(S) /\ PIds(S) = PIds(Range(q))}

(* events: post = contents after the call as a list of <<id, tag>>; bad = number of dict     *)
(* keys that differ from the id of the problem they map to                                    *)
PClause(S, e) ==
  LET P == Range(e.post) IN
  IF e.bad > 0 THEN "X01.PpsKeys/key-differs-from-problem-id"
  ELSE IF ~PUnique(P) THEN "X01.PpsUnique"
  ELSE CASE e.op = "p_new" ->            \* PlanningProblemSet(list)
         IF NoDupIds(e.q)
         THEN IF e.res # "ok" THEN "X01.PpsConstruct/valid-list-rejected"
              ELSE IF P # Range(e.q) THEN "X01.PpsConstruct/contents" ELSE ""
         ELSE IF e.res # "ok" THEN ""                                   \* silent: rejecting duplicates is fine
              ELSE IF P \notin OnePerId(e.q) THEN "X01.PpsConstruct/duplicate-ids" ELSE ""
    [] e.op = "p_add" ->                 \* add_planning_problem(p)
         LET p == <<e.p[1], e.p[2]>> IN
         IF p[1] \in PIds(S)
         THEN IF e.res # "ValueError" THEN "X01.PpsAdd/duplicate-not-rejected"
              ELSE IF P # S THEN "X01.PpsAdd/reject-not-atomic" ELSE ""
         ELSE IF e.res # "ok" THEN "X01.PpsAdd/fresh-id-rejected"
              ELSE IF P # S \cup {p} THEN "X01.PpsAdd/effect" ELSE ""
    [] e.op = "p_find" ->                \* find_planning_problem_by_id(i): the contained problem, else KeyError
         IF P # S THEN "X01.PpsFind/mutates"
         ELSE IF e.i \in PIds(S)
         THEN IF e.res # "ok" \/ e.tag # PTag(S, e.i) \/ e.same # 1 THEN "X01.PpsFind/contained" ELSE ""
         ELSE IF e.res # "KeyError" THEN "X01.PpsFind/missing" ELSE ""
    [] e.op = "p_setdict" ->             \* planning_problem_dict = {...}: immutable - notified and ignored
         IF P # S THEN "X01.PpsDictImmutable/changed"
         ELSE IF e.res = "silent" THEN "X01.PpsDictImmutable/silent" ELSE ""
    [] e.op = "p_translate" ->           \* translate_rotate moves the problems, not the membership
         IF e.res # "ok" THEN "X01.PpsTranslate/raises"
         ELSE IF P # S THEN "X01.PpsTranslate/contents" ELSE ""
    [] OTHER -> "machinery/unknown-pps-op"

(* ======================================================================================== *)
(* 2. Trajectory: state tr = [ts |-> time steps of the state list, wild |-> outside the     *)
(*    documented assumptions].  A documented trajectory is (t0, n): steps t0, t0+1, ...     *)
(* ======================================================================================== *)
Steps(t0, n)     == [i \in 1..n |-> t0 + i - 1]
Contiguous(ts)   == \A i \in 1..Len(ts) - 1 : ts[i + 1] = ts[i] + 1
Increasing(ts)   == \A i \in 1..Len(ts) - 1 : ts[i + 1] > ts[i]
(* index (1-based) of the state at time step t of the trajectory (t0, n); 0 = None *)
StateIndex(t0, n, t) == IF t0 <= t /\ t < t0 + n THEN t - t0 + 1 ELSE 0
(* the same for any strictly increasing list of time steps: "the state of the trajectory at time_step" *)
IndexOf(ts, t)   == IF \E i \in DOMAIN ts : ts[i] = t THEN CHOOSE i \in DOMAIN ts : ts[i] = t ELSE 0
(* states_in_time_interval(a, b): one entry per time step a..b (both ends included) *)
InInterval(ts, a, b) == [k \in 1..(b - a + 1) |-> IndexOf(ts, a + k - 1)]
NoTraj           == [ts |-> <<>>, wild |-> FALSE]
(* occupancies a TrajectoryPrediction derives from a trajectory: one per state, at its time step *)
TPOccs(ts)       == [i \in DOMAIN ts |-> <<ts[i], ts[i]>>]

(* events: ts = time steps of state_list after the call, it0 = initial_time_step after the call,     *)
(* idx = position in state_list (object identity) of the returned state, 0 = None, -1 = foreign object *)
TClause(tr, e) ==
  CASE e.op = "t_new" ->                 \* Trajectory(a0, states with time steps q)
         IF e.q = <<>> \/ e.q[1] # e.a0                      \* asserted: non-empty, first state at initial_time_step
         THEN IF e.res = "ok" THEN "X01.TrajConstruct/invalid-accepted" ELSE ""
         ELSE IF \E i \in DOMAIN e.q : e.q[i] < 0 THEN ""    \* silent: negative time steps
         ELSE IF Contiguous(e.q)
         THEN IF e.res # "ok" THEN "X01.TrajConstruct/valid-rejected"
              ELSE IF e.ts # e.q \/ e.it0 # e.a0 THEN "X01.TrajConstruct/contents" ELSE ""
         ELSE ""                                             \* silent: consecutive steps are "assumed", not promised to be checked
    [] e.op = "t_append" ->              \* append_state: time step "must be larger than the time step of the last state"
         IF tr.wild \/ tr.ts = <<>> THEN ""
         ELSE LET last == tr.ts[Len(tr.ts)] IN
              IF e.t <= last
              THEN IF e.res = "ok" THEN "X01.TrajAppend/not-larger-accepted"
                   ELSE IF e.ts # tr.ts THEN "X01.TrajAppend/reject-not-atomic" ELSE ""
              ELSE IF e.t = last + 1
              THEN IF e.res # "ok" THEN "X01.TrajAppend/next-step-rejected"
                   ELSE IF e.ts # Append(tr.ts, e.t) THEN "X01.TrajAppend/effect" ELSE ""
              ELSE \* a larger, non-consecutive step: the docstring allows it, the constructor's assumption does not - either
                   IF e.res = "ok" THEN (IF e.ts # Append(tr.ts, e.t) THEN "X01.TrajAppend/effect" ELSE "")
                   ELSE IF e.ts # tr.ts THEN "X01.TrajAppend/reject-not-atomic" ELSE ""
    [] e.op \in {"t_at", "t_final", "t_range", "t_pred"} ->
         IF e.ts # tr.ts THEN "X01.TrajQuery/mutates"
         ELSE IF tr.wild \/ tr.ts = <<>> THEN ""
         ELSE IF e.it0 # tr.ts[1] THEN "X01.TrajInitialTimeStep"
         ELSE IF e.op = "t_at" THEN          \* state_at_time_step(t): the state whose time step is t, None if there is none
                (IF e.res # "ok" THEN "X01.TrajStateAt/raises"
                 ELSE IF e.idx # IndexOf(tr.ts, e.t)
                 THEN (IF IndexOf(tr.ts, e.t) = 0 THEN "X01.TrajStateAt/state-of-other-step" ELSE "X01.TrajStateAt/existing-step")
                 ELSE "")
         ELSE IF e.op = "t_final" THEN
                (IF e.res # "ok" \/ e.idx # Len(tr.ts) THEN "X01.TrajFinalState" ELSE "")
         ELSE IF e.op = "t_range" THEN       \* states_in_time_interval(a, b)
                (IF e.b < e.a THEN (IF e.res = "ok" /\ e.idxs # <<>> THEN "X01.TrajRange/empty-interval" ELSE "")   \* silent: raise or []
                 ELSE IF e.res # "ok" THEN "X01.TrajRange/raises"
                 ELSE IF e.idxs # InInterval(tr.ts, e.a, e.b) THEN "X01.TrajRange/contents" ELSE "")
         ELSE                                \* TrajectoryPrediction(trajectory): time indexing follows the trajectory
                (IF e.res # "ok" THEN "X01.TrajPred/raises"
                 ELSE IF e.occ # TPOccs(tr.ts) THEN "X01.TrajPred/occupancy-steps"
                 ELSE IF e.init # tr.ts[1] THEN "X01.TrajPred/initial"
                 ELSE IF e.fin # tr.ts[Len(tr.ts)] THEN "X01.TrajPred/final" ELSE "")
    [] OTHER -> "machinery/unknown-trajectory-op"

TPost(tr, e) == IF e.op = "t_new" THEN [ts |-> e.ts, wild |-> ~Contiguous(e.ts)]
                ELSE [ts |-> e.ts, wild |-> tr.wild]

(* ======================================================================================== *)
(* 3. Prediction time indexing: occs = list of <<lo, hi>> (exact time step: lo = hi)        *)
(* ======================================================================================== *)
Covers(o, t)      == o[1] <= t /\ t <= o[2]                \* an interval occupancy covers every t in it
Matches(occs, t)  == {i \in DOMAIN occs : Covers(occs[i], t)}
FinalHi(occs)     == Max({occs[i][2] : i \in DOMAIN occs})  \* last time step any occupancy is defined for
(* acceptable answers (index into the list, 0 = None) of occupancy_at_time_step(t) *)
OccAtOk(t0, occs, t) ==
  LET M == Matches(occs, t) IN
  IF M = {} THEN {0}                      \* no occupancy is defined at t
  ELSE IF t < t0 THEN M \cup {0}          \* silent: an occupancy before the declared initial time step
  ELSE M                                  \* silent on WHICH one if several are defined at t

OClause(e) ==
  CASE e.op = "o_at" ->
         LET M == Matches(e.occs, e.t) IN
         IF e.res # "ok" THEN "X01.OccAt/raises"
         ELSE IF e.idx \in OccAtOk(e.t0, e.occs, e.t) THEN ""
         ELSE IF M = {} THEN "X01.OccAt/none-expected"
         ELSE IF e.idx = 0 THEN "X01.OccAt/missed" ELSE "X01.OccAt/wrong-occupancy"
    [] e.op = "o_final" ->               \* final_time_step: fin = <<lo, hi>> of the returned int / Interval
         IF e.occs = <<>> THEN ""                                        \* silent: empty prediction
         ELSE IF e.res # "ok" THEN "X01.FinalTimeStep/raises"
         ELSE IF e.fin[2] # FinalHi(e.occs) THEN "X01.FinalTimeStep/not-last" ELSE ""
    [] e.op = "o_init" -> IF e.res # "ok" \/ e.val # e.t0 THEN "X01.InitialTimeStep" ELSE ""
    [] OTHER -> "machinery/unknown-prediction-op"

(* ======================================================================================== *)
(* 4. Trajectory.resample_continuous_time_state_list(states, time stamps, dT, N, t_0):      *)
(*    "resamples a given state list with continuous time vector in a fixed time resolution. *)
(*    The interpolation is done in a linear fashion"; N = "the resulting number of states.  *)
(*    It must hold (t_0+N*dT) in time interval"; "It must hold t in time interval".          *)
(*    Exact rational model: dT = p/q, t_0 = a/q, time stamps 0, 1, .., tmax, signal v(j) = j*j *)
(*    at the stamps (so the piecewise linear interpolant is integral on the grid 1/q).        *)
(* ======================================================================================== *)
Dyadic(q)       == q \in {1, 2, 4, 8, 16, 32, 64}          \* dT and t_0 are exact binary floats
SampleQ(m, q)   == LET j == m \div q  r == m % q IN j * j * q + r * (2 * j + 1)   \* q * interpolant(m / q)
RInside(e)      == 0 <= e.a /\ e.a <= e.tmax * e.q /\ e.a + e.num * e.p <= e.tmax * e.q
RBoundary(e)    == e.a = e.tmax * e.q \/ e.a + e.num * e.p = e.tmax * e.q
RSteps(n)       == [k \in 1..n |-> k - 1]                   \* the result is a trajectory starting at time step 0
RClause(e) ==
  IF ~RInside(e) THEN (IF e.res = "ok" THEN "X01.Resample/outside-accepted" ELSE "")
  ELSE IF e.res # "ok" THEN (IF RBoundary(e) /\ ~Dyadic(e.q) THEN "" ELSE "X01.Resample/raises")   \* silent: rounding at the very end
  ELSE IF e.cnt \notin {e.num, e.num + 1} THEN "X01.Resample/count"      \* "N states" or the N+1 samples t_0 .. t_0+N*dT
  ELSE IF e.steps # RSteps(e.cnt) THEN "X01.Resample/time-steps"
  ELSE IF e.exact # 1 \/ \E k \in 1..e.cnt : e.vq[k] # SampleQ(e.a + (k - 1) * e.p, e.q) \/ e.xq[k] # e.vq[k]
       THEN "X01.Resample/linear"
  ELSE ""

(* ======================================================================================== *)
POps == {"p_new", "p_add", "p_find", "p_setdict", "p_translate"}
TOps == {"t_new", "t_append", "t_at", "t_final", "t_range", "t_pred"}
OOps == {"o_at", "o_final", "o_init"}
ROps == {"r_resample"}
Empty == [S |-> {}, tr |-> NoTraj]
Clause(st, e) == CASE e.op \in POps -> PClause(st.S, e)
                   [] e.op \in TOps -> TClause(st.tr, e)
                   [] e.op \in OOps -> OClause(e)
                   [] e.op \in ROps -> RClause(e)
                   [] OTHER -> "machinery/unknown-op"
Post(st, e)   == [S  |-> IF e.op \in POps THEN Range(e.post) ELSE st.S,
                  tr |-> IF e.op \in TOps THEN TPost(st.tr, e) ELSE st.tr]

(* ---- laws of the contract operators (checked by TLC in MC_Containers) ------------------ *)
LawIndexContig(t0, n, QT) == \A t \in QT : IndexOf(Steps(t0, n), t) = StateIndex(t0, n, t)
LawIndexHit(ts, QT)       == \A t \in QT : LET i == IndexOf(ts, t) IN (i = 0 /\ t \notin Range(ts)) \/ (i > 0 /\ ts[i] = t)
LawFinalIsLast(ts)        == ts # <<>> => IndexOf(ts, ts[Len(ts)]) = Len(ts)
LawRangeSplit(ts, QT)     == \A a, b, c \in QT : a <= b /\ b <= c =>
                                InInterval(ts, a, c) = InInterval(ts, a, b) \o InInterval(ts, b + 1, c)
LawRangeLen(ts, QT)       == \A a, b \in QT : Len(InInterval(ts, a, b)) = IF b >= a THEN b - a + 1 ELSE 0
LawIntervalCovers(occs)   == \A i \in DOMAIN occs : \A t \in occs[i][1]..occs[i][2] : i \in Matches(occs, t)
LawExact(occs, QT)        == \A i \in DOMAIN occs : occs[i][1] = occs[i][2] =>
                                \A t \in QT : (i \in Matches(occs, t)) <=> (t = occs[i][1])
LawWithinFinal(occs, QT)  == \A t \in QT : Matches(occs, t) # {} => t <= FinalHi(occs)
(* every sample of an admissible request lies inside the time vector (nothing is extrapolated), for both readings of N *)
LawResampleInside(e) == RInside(e) => \A n \in {e.num, e.num + 1} : \A k \in 1..n : e.a + (k - 1) * e.p <= e.tmax * e.q
LawSampleKnots(q, tmax) == \A j \in 0..tmax : SampleQ(j * q, q) = j * j * q       \* the interpolant passes through the given states
LawBeyondNone(t0, occs, QT) == occs # <<>> => \A t \in QT : t > FinalHi(occs) => OccAtOk(t0, occs, t) = {0}
=================================================================================
