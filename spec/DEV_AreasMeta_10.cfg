\* SHIPPED: the referential-integrity invariant itself fails (lanelet refers to an absent area)
SPECIFICATION Spec
CONSTANTS
  Domains = {"refs"}
  NL = 2
  WellFormedInputs = TRUE
  MaxMoves = 2
  MaxGen = 3
  MaxTo2d = 2
  DtToks = {"float", "int", "str", "bool"}
  PlainToks = {"None", "v1", "bad"}
  MetaPlain = {"author", "tags"}
  DEV_RemoveAreaKeepsRefs = TRUE
  DEV_CleanupSkipsBorders = FALSE
  DEV_MoveSkipsAreas = FALSE
  DEV_GenIgnoresAreas = FALSE
  DEV_AddAreaOverwrites = FALSE
  DEV_CutSharesAreas = FALSE
  DEV_SharedDefaultId = FALSE
  DEV_ZeroIdAsOne = FALSE
  DEV_SetterNoCheck = FALSE
VIEW View
INVARIANT InvNoDangling
