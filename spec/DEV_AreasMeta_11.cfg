\* SHIPPED: convert_to_2d on one scenario changes the other
SPECIFICATION Spec
CONSTANTS
  Domains = {"meta"}
  NL = 2
  WellFormedInputs = TRUE
  MaxMoves = 2
  MaxGen = 3
  MaxTo2d = 2
  DtToks = {"float", "int", "str", "bool"}
  PlainToks = {"None", "v1", "bad"}
  MetaPlain = {"author", "tags"}
  DEV_RemoveAreaKeepsRefs = FALSE
  DEV_CleanupSkipsBorders = FALSE
  DEV_MoveSkipsAreas = FALSE
  DEV_GenIgnoresAreas = FALSE
  DEV_AddAreaOverwrites = FALSE
  DEV_CutSharesAreas = FALSE
  DEV_SharedDefaultId = TRUE
  DEV_ZeroIdAsOne = FALSE
  DEV_SetterNoCheck = FALSE
VIEW View
PROPERTY PropMetaIsolated
