\* SHIPPED: generate_object_id returns the id of an area of the adopted network
SPECIFICATION Spec
CONSTANTS
  Domains = {"scen"}
  NL = 2
  WellFormedInputs = TRUE
  MaxMoves = 2
  MaxGen = 3
  MaxTo2d = 2
  DtToks = {"float", "int", "str", "bool"}
  PlainToks = {"None", "v1", "bad"}
  MetaPlain = {"author", "tags"}
  DEV_RemoveAreaKeepsRefs = FALSE
  DEV_CleanupSkipsBorders = FALSE
  DEV_MoveSkipsAreas = FALSE
  DEV_GenIgnoresAreas = TRUE
  DEV_AddAreaOverwrites = FALSE
  DEV_CutSharesAreas = FALSE
  DEV_SharedDefaultId = FALSE
  DEV_ZeroIdAsOne = FALSE
  DEV_SetterNoCheck = FALSE
VIEW View
PROPERTY PropNetRefines
