SPECIFICATION Spec
CONSTANTS
  MaxSteps = 5
  DEV_StaticRegistersCenter = TRUE
INVARIANT InvInverseStatic
INVARIANT InvInverseDynamic
INVARIANT InvRemoveTotal
INVARIANT InvCentreVsShape
