SPECIFICATION Spec
CONSTANTS
  MaxSteps = 5
  DEV_StaticRegistersCenter = TRUE
  DEV_ReassignKeepsOld = FALSE
  DEV_RemoveNeedsLanelets = FALSE
  DEV_ForgetsCentre = FALSE
  DEV_NetMoveKeepsIndex = FALSE
INVARIANT InvInverseStatic
INVARIANT InvInverseDynamic
INVARIANT InvRemoveTotal
INVARIANT InvCentreVsShape
