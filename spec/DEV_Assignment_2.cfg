SPECIFICATION Spec
CONSTANTS
  MaxSteps = 5
  DEV_StaticRegistersCenter = FALSE
  DEV_ReassignKeepsOld = TRUE
  DEV_RemoveNeedsLanelets = FALSE
  DEV_ForgetsCentre = FALSE
  DEV_NetMoveKeepsIndex = FALSE
INVARIANT InvInverseStatic
INVARIANT InvInverseDynamic
INVARIANT InvRemoveTotal
INVARIANT InvCentreVsShape
