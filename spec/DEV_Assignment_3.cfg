SPECIFICATION Spec
CONSTANTS
  MaxSteps = 5
  DEV_StaticRegistersCenter = FALSE
  DEV_ReassignKeepsOld = FALSE
  DEV_RemoveNeedsLanelets = TRUE
  DEV_ForgetsCentre = FALSE
  DEV_NetMoveKeepsIndex = FALSE
INVARIANT InvInverseStatic
INVARIANT InvInverseDynamic
INVARIANT InvRemoveTotal
INVARIANT InvCentreVsShape
