SPECIFICATION Spec
CONSTANTS
  Countries = {"ZAM"}
  MapNames = {"Test"}
  MapIds = {1}
  Configs = {1}
  MaxList = 1
  GenMode = FALSE
  Wide = FALSE
  DEV_StoreBeforeValidate = FALSE
  DEV_SortedIdLists = FALSE
  DEV_SpellingInEq = TRUE
INVARIANT LawRoundTripEqual
