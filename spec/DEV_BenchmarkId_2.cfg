SPECIFICATION Spec
CONSTANTS
  Countries = {"ZAM"}
  MapNames = {"Test"}
  MapIds = {1}
  Configs = {1}
  MaxList = 2
  GenMode = TRUE
  Wide = FALSE
  DEV_StoreBeforeValidate = FALSE
  DEV_SortedIdLists = TRUE
  DEV_SpellingInEq = FALSE
INVARIANT LawSolAligned
