SPECIFICATION Spec
CONSTANTS
  Countries = {"ZAM"}
  MapNames = {"Test"}
  MapIds = {1}
  Configs = {1}
  MaxList = 1
  GenMode = TRUE
  Wide = FALSE
  DEV_StoreBeforeValidate = TRUE
  DEV_SortedIdLists = FALSE
  DEV_SpellingInEq = FALSE
INVARIANT LawRejectAtomic
