SPECIFICATION Spec
CONSTANTS
  MaxSteps = 3
  DEV_NoInvalidateOnPredictionTR = TRUE
  DEV_NoReindexOnNetworkTR = FALSE
  DEV_NoInvalidateCycle = FALSE
  DEV_MergeRebuildOnlyIfAll = FALSE
  DEV_SetterSkipsSameObject = FALSE
VIEW View
INVARIANT InvFresh
