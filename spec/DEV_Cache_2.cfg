SPECIFICATION Spec
CONSTANTS
  MaxSteps = 3
  DEV_NoInvalidateOnPredictionTR = FALSE
  DEV_NoReindexOnNetworkTR = TRUE
  DEV_NoInvalidateCycle = FALSE
VIEW View
INVARIANT InvFresh
