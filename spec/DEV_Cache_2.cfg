SPECIFICATION Spec
CONSTANTS
  MaxSteps = 3
  DEV_NoInvalidateOnPredictionTR = FALSE
  DEV_NoReindexOnNetworkTR = TRUE
  DEV_NoInvalidateCycle = FALSE
  DEV_MergeRebuildOnlyIfAll = FALSE
VIEW View
INVARIANT InvFresh
