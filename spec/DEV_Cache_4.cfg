SPECIFICATION Spec
CONSTANTS
  MaxSteps = 3
  DEV_NoInvalidateOnPredictionTR = FALSE
  DEV_NoReindexOnNetworkTR = FALSE
  DEV_NoInvalidateCycle = FALSE
  DEV_MergeRebuildOnlyIfAll = TRUE
  DEV_SetterSkipsSameObject = FALSE
VIEW View
INVARIANT InvFresh
