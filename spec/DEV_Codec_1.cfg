SPECIFICATION Spec
CONSTANTS
  Component = "obstacle"
  Precisions = {4}
  NMixed = 0
  DEV_XmlDropsHorn = TRUE
  DEV_ReaderStopsAtFirstUnset = FALSE
INVARIANT LawImplConforms
