SPECIFICATION Spec
CONSTANTS
  Component = "dev_horn"
  Precisions = {4}
  NMixed = 0
  NShards = 1
  DEV_XmlDropsHorn = TRUE
  DEV_ReaderStopsAtFirstUnset = FALSE
INVARIANT LawImplConforms
