SPECIFICATION Spec
CONSTANTS
  Component = "dev_init"
  Precisions = {4}
  NMixed = 0
  NShards = 1
  DEV_XmlDropsHorn = FALSE
  DEV_ReaderStopsAtFirstUnset = TRUE
INVARIANT LawImplConforms
