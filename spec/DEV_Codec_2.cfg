SPECIFICATION Spec
CONSTANTS
  Component = "planning"
  Precisions = {4}
  NMixed = 0
  DEV_XmlDropsHorn = FALSE
  DEV_ReaderStopsAtFirstUnset = TRUE
INVARIANT LawImplConforms
