SPECIFICATION Spec
CONSTANTS
  HistBand = TRUE
  StrictReassign = FALSE
  MaxSteps = 3
  Rich = FALSE
  Acts = {"assign", "file", "tr"}
  DEV_ReadDropsRegistries = TRUE
  DEV_NetworkTRKeepsIndex = FALSE
  DEV_ReplaceLeaksIds = FALSE
  DEV_CopySharesOccCache = FALSE
  DEV_ReassignKeepsStale = FALSE
  DEV_MergeStopsAtDuplicate = FALSE
  DEV_RemoveNeedsLanelets = FALSE
VIEW View
PROPERTY PropRefines
