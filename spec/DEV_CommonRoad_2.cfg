SPECIFICATION Spec
CONSTANTS
  HistBand = TRUE
  StrictReassign = FALSE
  MaxSteps = 3
  Rich = FALSE
  Acts = {"tr", "find_pos", "file"}
  DEV_ReadDropsRegistries = FALSE
  DEV_NetworkTRKeepsIndex = TRUE
  DEV_ReplaceLeaksIds = FALSE
  DEV_CopySharesOccCache = FALSE
  DEV_ReassignKeepsStale = FALSE
  DEV_MergeStopsAtDuplicate = FALSE
  DEV_RemoveNeedsLanelets = FALSE
VIEW View
INVARIANT InvFresh
