SPECIFICATION Spec
CONSTANTS
  HistBand = TRUE
  StrictReassign = FALSE
  MaxSteps = 3
  Rich = FALSE
  Acts = {"replace", "remove_obstacle", "tr"}
  DEV_ReadDropsRegistries = FALSE
  DEV_NetworkTRKeepsIndex = FALSE
  DEV_ReplaceLeaksIds = TRUE
  DEV_CopySharesOccCache = FALSE
  DEV_ReassignKeepsStale = FALSE
  DEV_MergeStopsAtDuplicate = FALSE
  DEV_RemoveNeedsLanelets = FALSE
VIEW View
INVARIANT InvWorld
