SPECIFICATION Spec
CONSTANTS
  HistBand = TRUE
  StrictReassign = FALSE
  MaxSteps = 4
  Rich = FALSE
  Acts = {"copy", "tr", "occ", "check_orig"}
  DEV_ReadDropsRegistries = FALSE
  DEV_NetworkTRKeepsIndex = FALSE
  DEV_ReplaceLeaksIds = FALSE
  DEV_CopySharesOccCache = TRUE
  DEV_ReassignKeepsStale = FALSE
  DEV_MergeStopsAtDuplicate = FALSE
  DEV_RemoveNeedsLanelets = FALSE
VIEW View
INVARIANT InvOrigFresh
