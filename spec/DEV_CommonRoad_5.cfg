SPECIFICATION Spec
CONSTANTS
  HistBand = TRUE
  StrictReassign = FALSE
  MaxSteps = 3
  Rich = FALSE
  Acts = {"assign", "tr", "file"}
  DEV_ReadDropsRegistries = FALSE
  DEV_NetworkTRKeepsIndex = FALSE
  DEV_ReplaceLeaksIds = FALSE
  DEV_CopySharesOccCache = FALSE
  DEV_ReassignKeepsStale = TRUE
  DEV_MergeStopsAtDuplicate = FALSE
  DEV_RemoveNeedsLanelets = FALSE
VIEW View
PROPERTY PropRefines
