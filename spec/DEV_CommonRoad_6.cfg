SPECIFICATION Spec
CONSTANTS
  HistBand = TRUE
  StrictReassign = FALSE
  MaxSteps = 3
  Rich = FALSE
  Acts = {"merge", "remove_lanelet", "file"}
  DEV_ReadDropsRegistries = FALSE
  DEV_NetworkTRKeepsIndex = FALSE
  DEV_ReplaceLeaksIds = FALSE
  DEV_CopySharesOccCache = FALSE
  DEV_ReassignKeepsStale = FALSE
  DEV_MergeStopsAtDuplicate = TRUE
  DEV_RemoveNeedsLanelets = FALSE
VIEW View
PROPERTY PropRefines
