SPECIFICATION Spec
CONSTANTS
  HistBand = TRUE
  StrictReassign = FALSE
  MaxSteps = 3
  Rich = FALSE
  Acts = {"assign", "remove_lanelet", "remove_obstacle", "replace"}
  DEV_ReadDropsRegistries = FALSE
  DEV_NetworkTRKeepsIndex = FALSE
  DEV_ReplaceLeaksIds = FALSE
  DEV_CopySharesOccCache = FALSE
  DEV_ReassignKeepsStale = FALSE
  DEV_MergeStopsAtDuplicate = FALSE
  DEV_RemoveNeedsLanelets = TRUE
VIEW View
PROPERTY PropRefines
