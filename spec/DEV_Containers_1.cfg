SPECIFICATION Spec
CONSTANTS
  Domains = {"pps"}
  NIds = 3
  NTags = 2
  MaxList = 2
  TValMax = 3
  T0Max = 1
  MaxTLen = 4
  QMax = 5
  OccMax = 3
  MaxOccs = 3
  RNumMax = 4
  RQs = {1, 2, 4, 10}
  RPMax = 3
  RTMax = 3
  DEV_AddOverwrites = TRUE
  DEV_GapAppendPositional = FALSE
  DEV_FinalPyMax = FALSE
VIEW View
PROPERTY PropPpsRefines
