\* deviation DEV_FocusTruncates: TLC must report a violation of PropRndRefines
SPECIFICATION Spec
CONSTANTS
  ClassTable <- MiniTable
  Base = {"time_begin"}
  DefTok = "D"
  Domains = {"focus"}
  TNames = {"A", "B"}
  NewClasses = {"MPDrawParams", "InitialStateParams", "StateParams", "ArrowParams"}
  MaxOid = 8
  TbToks = {"7"}
  TbSteps = {0, 1, 2, 3}
  PTbSteps = {1, 2}
  DEV_SharedDefaults = FALSE
  DEV_NoCtorPropagation = FALSE
  DEV_SetItemSilent = FALSE
  DEV_LoadParentWins = FALSE
  DEV_LoadValidatesRoot = FALSE
  DEV_SignParamsGlobal = FALSE
  DEV_FocusTruncates = TRUE
  DEV_CenterFromTrajectory = FALSE
  DEV_SetNoneIgnored = FALSE
  DEV_TrajsRecolour = FALSE
  DEV_PerCallLeaks = FALSE
  DEV_RenderKeepsDynamic = FALSE
VIEW View
PROPERTY PropRndRefines
