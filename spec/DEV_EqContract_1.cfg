SPECIFICATION Spec
CONSTANTS
  MaxDepth = 0
  MutDepth = 0
  DEV_StaleKeyOnMove = TRUE
  DEV_EqSeesDerived = FALSE
INVARIANT InvCurrent
