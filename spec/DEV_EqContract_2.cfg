SPECIFICATION Spec
CONSTANTS
  MaxDepth = 0
  MutDepth = 0
  DEV_StaleKeyOnMove = FALSE
  DEV_EqSeesDerived = TRUE
INVARIANT InvObserved
