\* deviation DEV_ReaderCaches: TLC must report a violation of PropRefines
SPECIFICATION Spec
CONSTANTS
  Domains = {"read"}
  WPaths = {"", "a.xml", "a.pb", "nodir/a.xml", "dir"}
  WDirs = {"nodir/a.xml"}
  AnsLevel = 1
  MaxWriters = 2
  WSteps = 4
  WHs = {"arg", "scn", "both"}
  RNames = {"a.xml"}
  RFmts = {"xml", "pb"}
  RVs = {1, 2}
  MaxReaders = 2
  RSteps = 5
  DEV_AnyButNReplaces = FALSE
  DEV_ValidityIgnored = FALSE
  DEV_ScenarioNoSuffix = FALSE
  DEV_NetDrops2018bSpeed = FALSE
  DEV_SuffixDecidesFormat = FALSE
  DEV_ReaderCaches = TRUE
  DEV_SuffixBeatsOverride = FALSE
  DEV_SkipTruncates = FALSE
  DEV_ScenarioWins = FALSE
VIEW View
PROPERTY PropRefines
