\* deviation DEV_ScenarioWins: TLC must report a violation of InvCtorRefines
SPECIFICATION Spec
CONSTANTS
  Domains = {"ctor"}
  WPaths = {"", "a.xml", "a.pb", "nodir/a.xml", "dir"}
  WDirs = {"nodir/a.xml"}
  AnsLevel = 1
  MaxWriters = 2
  WSteps = 4
  WHs = {"arg", "scn", "both"}
  RNames = {"a.xml", "a.pb", "a.XML"}
  RFmts = {"xml", "pb", "xml18", "garb"}
  RVs = {1}
  MaxReaders = 2
  RSteps = 4
  DEV_AnyButNReplaces = FALSE
  DEV_ValidityIgnored = FALSE
  DEV_ScenarioNoSuffix = FALSE
  DEV_NetDrops2018bSpeed = FALSE
  DEV_SuffixDecidesFormat = FALSE
  DEV_ReaderCaches = FALSE
  DEV_SuffixBeatsOverride = FALSE
  DEV_SkipTruncates = FALSE
  DEV_ScenarioWins = TRUE
VIEW View
INVARIANT InvCtorRefines
