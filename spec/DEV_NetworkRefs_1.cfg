SPECIFICATION Spec
CONSTANTS
  NL = 3
  Kind = "base"
  Depth = 2
  DEV_StopLineRefsKept = TRUE
  DEV_HangingRemovesShared = FALSE
  DEV_AdjacencyKept = FALSE
PROPERTY PropContract
