SPECIFICATION Spec
CONSTANTS
  Domains = {"dynh"}
  MaxUpd = 2
  MaxH = 2
  MaxSetsH = 0
  MaxSets = 1
  NScnIds = 2
  MaxScn = 2
  DEV_UpdateNonAtomic = TRUE
  DEV_SignalHistoryNoTrunc = FALSE
  DEV_KeepPrediction = FALSE
  DEV_CenterShapeSwapped = FALSE
  DEV_SeriesOnly = FALSE
  DEV_TypeMutable = FALSE
  DEV_WheelbaseTypo = FALSE
  DEV_HashNoneIds = FALSE
VIEW View
PROPERTY PropRejectAtomic
