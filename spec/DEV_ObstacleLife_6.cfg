SPECIFICATION Spec
CONSTANTS
  Domains = {"dyns", "scn"}
  MaxUpd = 2
  MaxH = 2
  MaxSetsH = 0
  MaxSets = 1
  NScnIds = 2
  MaxScn = 2
  DEV_UpdateNonAtomic = FALSE
  DEV_SignalHistoryNoTrunc = FALSE
  DEV_KeepPrediction = FALSE
  DEV_CenterShapeSwapped = FALSE
  DEV_SeriesOnly = FALSE
  DEV_TypeMutable = TRUE
  DEV_WheelbaseTypo = FALSE
  DEV_HashNoneIds = FALSE
VIEW View
PROPERTY PropImmutable
