SPECIFICATION Spec
CONSTANTS
  MaxOps = 2
  ArchSize = 8
  DEV_OccAddsOrientation = TRUE
  DEV_PbWriteTouchesDefaultdict = FALSE
PROPERTY PropFrame
