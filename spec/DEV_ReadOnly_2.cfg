SPECIFICATION Spec
CONSTANTS
  MaxOps = 2
  ArchSize = 8
  DEV_OccAddsOrientation = FALSE
  DEV_PbWriteTouchesDefaultdict = TRUE
  DEV_NetworkCopyShallow = FALSE
PROPERTY PropFrame
