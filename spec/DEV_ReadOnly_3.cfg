SPECIFICATION Spec
CONSTANTS
  MaxOps = 2
  ArchSize = 8
  DEV_OccAddsOrientation = FALSE
  DEV_PbWriteTouchesDefaultdict = FALSE
  DEV_NetworkCopyShallow = TRUE
PROPERTY PropFrame
