SPECIFICATION Spec
CONSTANTS
  Mode = "tree"
  MCFields = {"time_begin", "facecolor"}
  MCValues = {"a"}
  MCSub = "reduced"
  WithReplace = TRUE
  DEV_CachedSubParams = TRUE
  MaxSets = 3
  WMax = 6
  TMax = 8
PROPERTY PropContract
