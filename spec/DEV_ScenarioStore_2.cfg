SPECIFICATION Spec
CONSTANTS
  DEV_ListRemoveInterKeepsIncoming = FALSE
  DEV_PartialIntersection = TRUE
  DEV_PartialNetwork = FALSE
  DEV_AddNetOnNonEmpty = FALSE
  DEV_HangingFreesNamedIds = FALSE
  MaxGen = 0
  Universe = {"LA","LB","LC","LD","SA","SB","TA","XA","XB","OS","OD","OP","OE","NA","NB","NC"}
VIEW View
PROPERTY PropRejectAtomic
