SPECIFICATION Spec
CONSTANTS
  DEV_ListRemoveInterKeepsIncoming = FALSE
  DEV_PartialIntersection = FALSE
  DEV_PartialNetwork = FALSE
  DEV_AddNetOnNonEmpty = TRUE
  DEV_HangingFreesNamedIds = FALSE
  MaxGen = 0
  Universe = {"LA","LB","LC","LD","SA","SB","TA","XA","XB","OS","OD","OP","OE","NA","NB","NC"}
VIEW View
INVARIANT InvPoolExact
