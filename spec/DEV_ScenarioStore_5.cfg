SPECIFICATION Spec
CONSTANTS
  DEV_ListRemoveInterKeepsIncoming = FALSE
  DEV_PartialIntersection = FALSE
  DEV_PartialNetwork = FALSE
  DEV_AddNetOnNonEmpty = FALSE
  DEV_HangingFreesNamedIds = TRUE
  MaxGen = 0
  Universe = {"LC","LD","SA","TA","OQ","OD"}
VIEW View
INVARIANT InvPoolExact
