SPECIFICATION Spec
CONSTANTS
  DEV_ReaderNoKST = TRUE
  MaxCoop = 2
INVARIANT LawReaderTotal
