SPECIFICATION Spec
CONSTANTS
  DEV_NoTruncate = TRUE
  MaxWrites = 2
INVARIANT LawFileExact
