\* SHIPPED get_state_type: a desired model the state does not support makes the scan return the first type whose fields are there (MBState, desired ST -> PM) instead of the exact type
SPECIFICATION Spec
CONSTANTS
  Domains = {"tab"}
  PModels = {"PM", "ST", "KS", "MB", "KST"}
  PCosts = {"JB1", "SA1"}
  PVTypes = {"FORD_ESCORT", "TRUCK"}
  PShapes = {"PM", "ST", "KS", "KST", "MB", "Input", "PMInput", "STD", "KSA", "PMA", "KSI", "EPM", "INIT", "KSpart"}
  PIds = {1, 2}
  MaxItems = 2
  CtSet = {"None", "posint", "posfloat", "npfloat", "npint", "zero", "zerof", "neg", "negf", "text", "nan", "inf", "bool"}
  FDirs = {"root", "rootsl", "sub", "default", "dot", "emptystr", "missing", "nested", "file"}
  FFiles = {"None", "a", "old", "subdir"}
  MaxWrites = 2
  DEV_StateTypeFirstSuperset = TRUE
  DEV_TrajSetterNoDesired = FALSE
  DEV_CostSetterUnchecked = FALSE
  DEV_PrettyFalseBytes = FALSE
  DEV_ReaderShipped = FALSE
VIEW View
INVARIANT InvStateTypeRefines
