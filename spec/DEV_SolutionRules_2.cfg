\* SHIPPED trajectory setter: infers the type without the vehicle model, so it rejects trajectories the constructor accepts for the same object (KS model, ST states)
SPECIFICATION Spec
CONSTANTS
  Domains = {"pps"}
  PModels = {"PM", "ST", "KS", "MB", "KST"}
  PCosts = {"JB1", "SA1"}
  PVTypes = {"FORD_ESCORT", "TRUCK"}
  PShapes = {"PM", "ST", "KS", "KST", "MB", "Input", "PMInput", "STD", "KSA", "PMA", "KSI", "EPM", "INIT", "KSpart"}
  PIds = {1, 2}
  MaxItems = 2
  CtSet = {"None", "posint", "posfloat", "npfloat", "npint", "zero", "zerof", "neg", "negf", "text", "nan", "inf", "bool"}
  FDirs = {"root", "rootsl", "sub", "default", "dot", "emptystr", "missing", "nested", "file"}
  FFiles = {"None", "a", "old", "subdir"}
  MaxWrites = 2
  DEV_StateTypeFirstSuperset = FALSE
  DEV_TrajSetterNoDesired = TRUE
  DEV_CostSetterUnchecked = FALSE
  DEV_PrettyFalseBytes = FALSE
  DEV_ReaderShipped = FALSE
VIEW View
PROPERTY PropRefines
