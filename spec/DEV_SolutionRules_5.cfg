\* SHIPPED reader: SolutionException("... does not have a benchmark id!") is built but not raised; vehicle id "KSx" ends in int("x")
SPECIFICATION Spec
CONSTANTS
  Domains = {"tab"}
  PModels = {"PM", "ST", "KS", "MB", "KST"}
  PCosts = {"JB1", "SA1"}
  PVTypes = {"FORD_ESCORT", "TRUCK"}
  PShapes = {"PM", "ST", "KS", "KST", "MB", "Input", "PMInput", "STD", "KSA", "PMA", "KSI", "EPM", "INIT", "KSpart"}
  PIds = {1, 2}
  MaxItems = 2
  CtSet = {"None", "posint", "posfloat", "npfloat", "npint", "zero", "zerof", "neg", "negf", "text", "nan", "inf", "bool"}
  FDirs = {"root", "rootsl", "sub", "default", "dot", "emptystr", "missing", "nested", "file"}
  FFiles = {"None", "a", "old", "subdir"}
  MaxWrites = 2
  DEV_StateTypeFirstSuperset = FALSE
  DEV_TrajSetterNoDesired = FALSE
  DEV_CostSetterUnchecked = FALSE
  DEV_PrettyFalseBytes = FALSE
  DEV_ReaderShipped = TRUE
VIEW View
INVARIANT InvReaderTable
