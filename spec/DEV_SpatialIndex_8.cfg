SPECIFICATION Spec
CONSTANTS
  Fams = {"adjacent", "lshape"}
  MaxRoutes = 2
  PerClass = 1
  DEV_RemoveNoRebuild = FALSE
  DEV_MoveNoRebuild = FALSE
  DEV_CopyMisMaps = FALSE
  DEV_PickleNoRebuild = FALSE
  DEV_AddRebuildsFirst = FALSE
  DEV_DeferredRemoveKeepsPolygon = FALSE
  DEV_ForkSharesLanelets = TRUE
  ForkAll = FALSE
  DEV_DrawMovesVertices = FALSE
  DEV_RectKeepsExportedPolygon = FALSE
  ShapeHist = FALSE
  DEV_DiscHalfRadius = FALSE
INVARIANT TypeOK
INVARIANT IndexMirrors
INVARIANT OriginalIsolated
