SPECIFICATION Spec
CONSTANTS
  Domains = {"so"}
  MCClasses = {"PMState", "KSState", "ExtendedPMState", "InputState", "CustomState"}
  WithInterval = FALSE
  ExtraOn = {"InputState"}
  PresetOn = {"PMState"}
  GridMax = 12
  VdFns = {"is_real_number", "is_integer_number", "is_natural_number", "is_positive", "is_negative", "is_valid_length", "is_valid_orientation", "is_real_number_vector", "is_list_of_numbers", "is_in_interval", "is_valid_polyline", "is_valid_array_of_vertices", "is_valid_list_of_vertices"}
  VdBig = FALSE
  DEV_ConvertKeepsExtra = TRUE
  DEV_FillOverwrites = FALSE
  DEV_FillTimeStepFloat = FALSE
  DEV_HasValueDerivedRaises = FALSE
  DEV_ComplexIsReal = FALSE
  DEV_ZeroDimRaises = FALSE
  DEV_BoolSignRaises = FALSE
  DEV_NonPositiveIsNegative = FALSE
VIEW View
PROPERTY PropStateRefines
