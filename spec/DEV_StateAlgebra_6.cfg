SPECIFICATION Spec
CONSTANTS
  Domains = {"vd"}
  MCClasses = {"PMState", "KSState", "ExtendedPMState", "InputState", "CustomState"}
  WithInterval = FALSE
  ExtraOn = {"InputState"}
  PresetOn = {"PMState"}
  GridMax = 12
  VdFns = {"is_positive"}
  VdBig = FALSE
  DEV_ConvertKeepsExtra = FALSE
  DEV_FillOverwrites = FALSE
  DEV_FillTimeStepFloat = FALSE
  DEV_HasValueDerivedRaises = FALSE
  DEV_ComplexIsReal = FALSE
  DEV_ZeroDimRaises = FALSE
  DEV_BoolSignRaises = TRUE
  DEV_NonPositiveIsNegative = FALSE
VIEW View
INVARIANT InvValidityRefines
