\* conceivable: the trajectory setter keeps the cached occupancy set
SPECIFICATION Spec
CONSTANTS
  Domains = {"p"}
  NL = 2
  NS = 2
  GCountry = "ZAMUNDA"
  GFams = {"GERMANY"}
  GVals = {1, 2}
  GMaxEls = 1
  VCountries = {"ZAMUNDA", "USA", "FRANCE"}
  VFams = {"GERMANY", "USA", "FRANCE"}
  VVals <- V12b
  VMaxEls = 2
  EVals = {1, 2}
  EMaxLen = 2
  QFams = {"GERMANY"}
  QVals = {1, 2}
  QMaxLen = 2
  XIds <- XIdsM
  XLSets = {{}, {1}, {1, 2}}
  XDirs = {"r"}
  XMaxIncs = 2
  XLo = {}
  PTMax = 4
  PMaxObs = 2
  DEV_CountryFallback = FALSE
  DEV_StaleCache = FALSE
  DEV_SharedDefault = FALSE
  DEV_EqDictCollapse = FALSE
  DEV_MapNoneCrash = FALSE
  DEV_PredictCrash = FALSE
  DEV_SetterUnchecked = FALSE
  DEV_StaleOccupancy = TRUE
VIEW View
PROPERTY PropPRefines
