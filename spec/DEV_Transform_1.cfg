SPECIFICATION Spec
CONSTANTS
  Full = FALSE
  DEV_SmallAngleLinearised = TRUE
  DEV_EnvironmentNotMoved = FALSE
INVARIANT G_LawImplRigid
