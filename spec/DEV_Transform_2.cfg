SPECIFICATION Spec
CONSTANTS
  Full = FALSE
  DEV_SmallAngleLinearised = FALSE
  DEV_EnvironmentNotMoved = TRUE
INVARIANT G_LawImplConforms
