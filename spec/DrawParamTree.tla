----------------------------- MODULE DrawParamTree -----------------------------
(* X04 (extended coverage) - the draw-parameter objects and the renderer object's life cycle.  *)
(*   part 1  commonroad/visualization/draw_params.py: BaseParam and the nested dataclass tree    *)
(*           (construction, item access, save / load, copies, equality, independence of trees)   *)
(*   part 2  commonroad/visualization/mp_renderer.py: MPRenderer as a state machine              *)
(*           (draw_* fill the static / dynamic / traffic-sign buffers, render / render_static /  *)
(*           render_dynamic / clear / remove_dynamic, plot_limits and focus_obstacle, which      *)
(*           parameters a draw call uses and that it never changes any parameter object)         *)
(* What C19 (Render.tla) already states is NOT repeated: which artists one draw call produces    *)
(* for which time window, and Set / Replace on ONE tree.  Here: whole histories over SEVERAL     *)
(* trees and over one renderer object, checked after every step.                                 *)
(* Functional core of the CONTRACT (no variables), written from the docstrings, the comments and *)
(* error messages of the two files and doc/source/user/visualization.rst:                        *)
(*   Clause(st, e)  name of the violated clause of event e in abstract state st ("" = accepted)  *)
(*   Post(st, e)    abstract state after e (re-synchronised to what the event reports)           *)
(* Where the documentation is silent both behaviours are accepted (branches commented `silent`). *)
EXTENDS Integers, Sequences, FiniteSets, TLC

CONSTANTS
    ClassTable,     \* [class name |-> [fields |-> set of scalar field names, kids |-> <<<<slot, class>>, ...>>]]
                    \* (trace validation: the table GENERATED from the real dataclasses, RenderTree.tla; MC: a small one)
    Base,           \* the base parameters every group declares (time_begin, time_end, antialiased)
    DefTok          \* value token "the default value of that field" (only used for base parameters: same default everywhere)

Range(s) == {s[i] : i \in DOMAIN s}

(* ======================================================================================== *)
(* 1. parameter trees                                                                       *)
(* ======================================================================================== *)
Classes        == DOMAIN ClassTable
Kids(c)        == ClassTable[c].kids
KidNames(c)    == {k[1] : k \in Range(Kids(c))}
KidClass(c, s) == (CHOOSE k \in Range(Kids(c)) : k[1] = s)[2]
Scalars(c)     == ClassTable[c].fields
RECURSIVE NodesFrom(_, _)
NodesFrom(c, path) == {path} \cup UNION {NodesFrom(k[2], Append(path, k[1])) : k \in Range(Kids(c))}
NodesBy        == [c \in Classes |-> NodesFrom(c, <<>>)]              \* constant: node = path of slot names from the root
RECURSIVE ClassFrom(_, _, _)
ClassFrom(c, path, i) == IF i > Len(path) THEN c ELSE ClassFrom(KidClass(c, path[i]), path, i + 1)
ClassAt        == [c \in Classes |-> [n \in NodesBy[c] |-> ClassFrom(c, n, 1)]]
IsPrefix(p, q) == Len(p) <= Len(q) /\ \A i \in 1..Len(p) : p[i] = q[i]
Declares(c, n, f) == f \in Scalars(ClassAt[c][n])
(* nodes a set of field f at node n reaches (C19: "every nested group that declares it") *)
Targets(c, n, f)  == {m \in NodesBy[c] : IsPrefix(n, m) /\ Declares(c, m, f)}

(* A VALUATION is the set of <<node, field, token>> whose value differs from the value a freshly constructed default  *)
(* object of the root class holds there (sparse: the empty set is "all defaults").                                    *)
Entries(q)        == {<<x[1], x[2], x[3]>> : x \in Range(q)}           \* JSON list of [path, field, token]
Functional(V)     == \A a, b \in V : (a[1] = b[1] /\ a[2] = b[2]) => a = b
SetOp(c, V, n, f, v) == LET T == Targets(c, n, f) IN
                        {e \in V : ~(e[2] = f /\ e[1] \in T)} \cup (IF v = DefTok THEN {} ELSE {<<m, f, v>> : m \in T})
(* construction Class(kw...): kw = entries <<node, field, token>> - the group at `node` was constructed with field=token   *)
(* (node <<>> = the arguments of the outermost constructor; deeper nodes = explicitly constructed nested groups handed  *)
(* to their parent's constructor).  "Make sure that the base parameters are propagated to all sub-parameters"            *)
(* (__post_init__): every nested group ends up with the OUTERMOST group's base parameters; other arguments stay where    *)
(* they were given.                                                                                                     *)
NewVal(c, K) == {e \in K : e[2] \notin Base /\ e[3] # DefTok /\ e[1] \in NodesBy[c] /\ Declares(c, e[1], e[2])}
                \cup UNION {{<<m, e[2], e[3]>> : m \in NodesBy[c]} : e \in {x \in K : x[1] = <<>> /\ x[2] \in Base /\ x[3] # DefTok}}
ValAt(V, n, f)    == IF \E e \in V : e[1] = n /\ e[2] = f THEN (CHOOSE e \in V : e[1] = n /\ e[2] = f)[3] ELSE DefTok

(* excerpt of the real class table used by the model checker (MC_DrawParamTree: ClassTable <- MiniTable); the trace      *)
(* specification ASSUMEs that it is a sub-table of the generated one                                                    *)
MiniTable == [MPDrawParams       |-> [fields |-> {"time_begin"}, kids |-> <<<<"initial_state", "InitialStateParams">>>>],
              InitialStateParams |-> [fields |-> {"time_begin"}, kids |-> <<<<"state", "StateParams">>>>],
              StateParams        |-> [fields |-> {"time_begin", "facecolor"}, kids |-> <<<<"arrow", "ArrowParams">>>>],
              ArrowParams        |-> [fields |-> {"time_begin", "facecolor"}, kids |-> <<>>]]
SubTable(small, big) == \A c \in DOMAIN small : /\ c \in DOMAIN big /\ small[c].fields \subseteq big[c].fields
                                                 /\ Range(small[c].kids) \subseteq Range(big[c].kids)

(* the trees of a history live under the names A, B, C *)
Names   == {"A", "B", "C"}
Absent  == [cls |-> "", val |-> {}]
NoTrees == [n \in Names |-> Absent]
(* post = every live tree after the call: list of [name, cls, val (list of entries)] *)
PostTrees(e) == [n \in Names |-> IF \E i \in DOMAIN e.post : e.post[i].name = n
                                 THEN LET r == e.post[CHOOSE i \in DOMAIN e.post : e.post[i].name = n]
                                      IN [cls |-> r.cls, val |-> Entries(r.val)]
                                 ELSE Absent]
OnlyBaseDiffers(V, W) == \A e \in (V \ W) \cup (W \ V) : e[2] \in Base
FrameBut(T, P, keep)  == \A n \in Names \ keep : P[n] = T[n]

(* T = the trees before the call, P = the trees after it (as logged) *)
DClauseP(T, e, P) ==
  CASE e.op = "d_new" ->                 \* name = Class(kw)
         LET want == [cls |-> e.cls, val |-> NewVal(e.cls, Entries(e.kw))] IN
         IF e.res # "ok" THEN "X04.Construct/raises"
         ELSE IF ~FrameBut(T, P, {e.name}) THEN "X04.Independent/construct-changes-other-tree"
         ELSE IF P[e.name] = want THEN ""
         ELSE IF P[e.name].cls = e.cls /\ OnlyBaseDiffers(P[e.name].val, want.val) THEN "X04.Construct/base-not-propagated"
         ELSE "X04.Construct/contents"
    [] e.op = "d_set" ->                 \* via "attr": node.field = v;  via "item": node[field] = v
         LET c == T[e.name].cls
             decl == Declares(c, e.path, e.field)
             moved == [T EXCEPT ![e.name].val = SetOp(c, T[e.name].val, e.path, e.field, e.tok)] IN
         IF ~FrameBut(T, P, {e.name}) THEN "X04.Independent/set-changes-other-tree"
         ELSE IF decl THEN (IF e.res # "ok" THEN "X04.Set/declared-rejected"
                            ELSE IF P # moved THEN "X04.Set/effect" ELSE "")
         ELSE IF e.via = "item" THEN        \* "<key> is not a parameter of <Class>" - the message of the KeyError of __setitem__
              (IF e.res = "KeyError" THEN (IF P # T THEN "X04.SetItem/rejected-but-changed" ELSE "")
               ELSE IF P # T THEN "X04.SetItem/unknown-key-accepted-and-propagated"
               ELSE "X04.SetItem/unknown-key-silently-ignored")
         ELSE \* silent: an attribute no field of the group declares - rejected, ignored or handed down (C19's Set) - either
              IF e.res = "ok" THEN (IF P = moved \/ P = T THEN "" ELSE "X04.Set/effect")
              ELSE IF P # T THEN "X04.Set/rejected-but-changed" ELSE ""
    [] e.op = "d_get" ->                 \* node[key]: the parameter, KeyError if it "is not a parameter of" the group
         LET c == T[e.name].cls
             cn == ClassAt[c][e.path] IN
         IF P # T THEN "X04.GetItem/mutates"
         ELSE IF e.key \in Scalars(cn) THEN
                (IF e.res # "ok" \/ e.kind # "scalar" THEN "X04.GetItem/declared-rejected"
                 ELSE IF e.tok # ValAt(T[e.name].val, e.path, e.key) THEN "X04.GetItem/value" ELSE "")
         ELSE IF e.key \in KidNames(cn) THEN
                (IF e.res # "ok" \/ e.kind # "group" \/ e.same # 1 THEN "X04.GetItem/group" ELSE "")
         ELSE IF e.res # "KeyError" THEN "X04.GetItem/unknown-key" ELSE ""
    [] e.op \in {"d_round", "d_copy"} -> \* dst = Class.load(save(src))  /  dst = copy.deepcopy(src)
         LET want == [T EXCEPT ![e.dst] = T[e.src]] IN
         IF ~FrameBut(T, P, {e.dst}) THEN "X04.Independent/copy-changes-other-tree"
         ELSE IF e.res # "ok" THEN (IF e.op = "d_round" THEN "X04.RoundTrip/raises" ELSE "X04.Copy/raises")
         ELSE IF P = want THEN ""
         ELSE IF e.op = "d_copy" THEN "X04.Copy/contents"
         ELSE IF P[e.dst].cls = T[e.src].cls /\ OnlyBaseDiffers(P[e.dst].val, T[e.src].val) THEN "X04.RoundTrip/nested-base-value-lost"
         ELSE "X04.RoundTrip/contents"
    [] e.op = "d_eq" ->                  \* a == b (dataclass equality): same class and the same values everywhere
         IF P # T THEN "X04.Eq/mutates"
         ELSE IF e.res # (IF T[e.a] = T[e.b] THEN "T" ELSE "F") THEN "X04.Eq" ELSE ""
    [] OTHER -> "machinery/unknown-tree-op"

DClause(T, e) == DClauseP(T, e, PostTrees(e))
DPost(T, e)   == PostTrees(e)

(* ======================================================================================== *)
(* 2. the renderer object                                                                   *)
(* ======================================================================================== *)
(* Drawables carry an id; every one lives in its own region of the plane, so an artist is attributed to the id of its   *)
(* region.  kind: "lane" (a lanelet network) -> static; "obs" (static obstacle), "dyn" (dynamic obstacle with a          *)
(* trajectory prediction: t0 = initial time step, n predicted steps, position (x2 + 2 * (t - t0), y2) / 2 at time t),    *)
(* "trajs" (a list of trajectories) -> dynamic; "sign" (traffic sign) -> the traffic-sign list.                          *)
(* Numbers with a trailing 2 are doubled (the half-integer grid).  psrc = where the parameters of the call come from:   *)
(* "none" (renderer default), "mp" (an MPDrawParams handed to the call), "spec" (the parameter object of the type).     *)
(* "optional parameters for plotting, overriding the parameters of the renderer" / "setting parameters on a per-object  *)
(* basis, when calling individual draw functions. Note, that the latter overrides the former."                          *)
ColOf(psrc)   == CASE psrc = "none" -> "d" [] psrc = "mp" -> "m" [] psrc = "spec" -> "s"      \* colour token of the source
FlagOf(psrc)  == IF psrc = "none" THEN 0 ELSE 1          \* show_label is off in the renderer default, on in per-call objects
NoLim         == [k |-> "none", v |-> <<>>]
DefaultFocusLim2 == <<-40, 40, -40, 40>>                  \* "Default plot limits for focused obstacle": [-20, 20, -20, 20]
NoAx          == [s |-> {}, d |-> {}, g |-> {}, l |-> {}]
NoRnd == [live |-> FALSE, lim |-> NoLim, focus |-> 0, tb |-> 0, S |-> {}, D |-> {}, G |-> {}, L |-> {},
          c |-> <<>>, ck |-> TRUE, ax |-> NoAx, rd |-> FALSE, fr |-> TRUE]
(* observation carried by every renderer event:                                                                        *)
(*   bs / bd / bl : ids found in the static buffers / dynamic buffers (patches, collections) / label buffer           *)
(*   bg           : ids in the traffic-sign list                                                                       *)
(*   xs / xd / xl : ids of visible artists attached to the axes (static / dynamic / labels); xg : [id, labelled] signs *)
(*   lk / lv      : what the plot_limits getter returns (kind, doubled values)                                         *)
(*   pc           : plot_center (doubled) or <<>>                                                                      *)
Ids(q)        == Range(q)
Pairs(q)      == {<<x[1], x[2]>> : x \in Range(q)}
ObsAx(e)      == [s |-> Ids(e.xs), d |-> Ids(e.xd), g |-> Pairs(e.xg), l |-> Ids(e.xl)]
BufferIs(e, S, D, L, GI) == Ids(e.bs) = S /\ Ids(e.bd) = D /\ Ids(e.bl) = L /\ Ids(e.bg) = GI
SignIds(G)    == {g[1] : g \in G}

Exists(e, b)  == e.t0 <= b /\ b <= e.t0 + e.n            \* the dynamic obstacle has a state at time step b
PosAt2(e, b)  == <<e.x2 + 2 * (b - e.t0), e.y2>>
EffTb(R, e)   == IF e.psrc = "none" THEN R.tb ELSE e.ptb   \* time_begin of the parameters the call has to use

(* limits the axes must have after a full render; {} = not determined by the documentation (autoscale / "auto" /        *)
(* focused obstacle not drawn or without a state at time_begin)                                                         *)
Shift(L, c)   == <<L[1] + c[1], L[2] + c[1], L[3] + c[2], L[4] + c[2]>>
LimWanted(R)  ==
  IF R.lim.k = "auto" THEN {}
  ELSE IF R.focus = 0 THEN (IF R.lim.k = "none" \/ R.c # <<>> THEN {} ELSE {R.lim.v})     \* "If not supplied, using ax.autoscale()"; silent: focus switched off after the focused obstacle was drawn
  ELSE LET L == IF R.lim.k = "none" THEN DefaultFocusLim2 ELSE R.lim.v IN
       IF ~R.ck \/ R.c = <<>> THEN {}                                        \* silent
       ELSE {Shift(L, R.c)}          \* "plot limits are relative to the obstacle position" / "centered around center of obstacle at time_begin"

RClause(R, e) ==
  LET ax == ObsAx(e) IN
  CASE e.op = "r_new" ->                 \* MPRenderer(plot_limits=.., focus_obstacle=..)
         IF e.res # "ok" THEN "X04.RendererNew/raises"
         ELSE IF ~BufferIs(e, {}, {}, {}, {}) THEN "X04.RendererNew/buffers-not-empty"
         ELSE IF e.limk \in {"list", "nested"} THEN (IF e.lk # "list" \/ e.lv # e.lim THEN "X04.PlotLimits/constructor" ELSE "")
         ELSE IF e.limk = "auto" THEN (IF e.lk # "auto" THEN "X04.PlotLimits/constructor" ELSE "")
         ELSE IF e.focus = 0 THEN (IF e.lk # "none" THEN "X04.PlotLimits/constructor" ELSE "")
         ELSE IF e.lk = "none" \/ (e.lk = "list" /\ e.lv = DefaultFocusLim2) THEN "" ELSE "X04.PlotLimits/constructor"
    [] e.op = "r_settb" ->               \* renderer.draw_params.time_begin = b  (a Set on the renderer's own tree)
         IF ~BufferIs(e, R.S, R.D, R.L, SignIds(R.G)) \/ ax # R.ax THEN "X04.Draw/settb-touches-buffers" ELSE ""
    [] e.op = "r_setfocus" ->            \* renderer.focus_obstacle_id = id
         IF ~BufferIs(e, R.S, R.D, R.L, SignIds(R.G)) \/ ax # R.ax THEN "X04.Draw/setfocus-touches-buffers" ELSE ""
    [] e.op = "r_setlim" ->              \* renderer.plot_limits = value; then the getter
         IF e.limk = "bad" THEN (IF e.res = "ok" /\ (e.lk # R.lim.k \/ e.lv # R.lim.v) THEN "X04.PlotLimits/invalid-accepted" ELSE "")   \* silent: raise or ignore
         ELSE IF e.res # "ok" THEN "X04.PlotLimits/valid-rejected"
         ELSE IF e.limk \in {"list", "nested"} THEN (IF e.lk # "list" \/ e.lv # e.lim THEN "X04.PlotLimits/set-get" ELSE "")
         ELSE IF e.limk = "auto" THEN (IF e.lk # "auto" THEN "X04.PlotLimits/set-get" ELSE "")
         ELSE \* None: "If not supplied, using ax.autoscale()"; with a focus obstacle the default window
              IF e.lk = "none" \/ (R.focus # 0 /\ e.lk = "list" /\ e.lv = DefaultFocusLim2) THEN ""
              ELSE "X04.PlotLimits/set-None-ignored"
    [] e.op = "r_draw" ->                \* drawable.draw(renderer, params)
         IF e.res # "ok" THEN "X04.Draw/raises"
         ELSE IF Range(e.dirty) # {} THEN "X04.ParamsUnchanged/renderer-defaults-changed-by-draw"
         ELSE IF Range(e.pdirty) # {} THEN "X04.ParamsUnchanged/per-call-object-changed-by-draw"
         ELSE IF ax # R.ax THEN "X04.Draw/touches-axes"
         ELSE IF e.kind = "lane" THEN
                (IF ~BufferIs(e, R.S \cup {e.id}, R.D, R.L, SignIds(R.G)) THEN "X04.Draw/lane-buffers" ELSE "")
         ELSE IF e.kind = "sign" THEN
                (IF ~BufferIs(e, R.S, R.D, R.L, SignIds(R.G) \cup {e.id}) THEN "X04.Draw/sign-buffers" ELSE "")
         ELSE IF e.kind = "obs" THEN
                (IF ~BufferIs(e, R.S, R.D \cup {e.id}, R.L, SignIds(R.G)) THEN "X04.Draw/dynamic-buffers"
                 ELSE IF e.col # ColOf(e.psrc) THEN "X04.ParamsPrecedence/" \o e.psrc \o "-drawn-as-" \o e.col
                 ELSE "")
         ELSE IF e.kind = "trajs" THEN    \* silent here: which states fall into the time window of the parameters (C19)
                (IF ~BufferIs(e, R.S, R.D \cup {e.id}, R.L, SignIds(R.G)) /\ ~BufferIs(e, R.S, R.D, R.L, SignIds(R.G)) THEN "X04.Draw/dynamic-buffers" ELSE "")
         ELSE LET b == EffTb(R, e) IN    \* "dyn"
              IF Ids(e.bs) # R.S \/ Ids(e.bg) # SignIds(R.G) \/ ~(R.D \subseteq Ids(e.bd)) \/ ~(R.L \subseteq Ids(e.bl))
                 \/ ~(Ids(e.bd) \subseteq R.D \cup {e.id}) \/ ~(Ids(e.bl) \subseteq R.L \cup {e.id}) THEN "X04.Draw/dynamic-buffers"
              ELSE IF ~Exists(e, b) THEN ""          \* silent here (C19 states what is drawn outside the obstacle's horizon)
              ELSE IF e.id \notin Ids(e.bd) THEN "X04.Draw/dynamic-buffers"
              ELSE IF e.col # ColOf(e.psrc) THEN "X04.ParamsPrecedence/" \o e.psrc \o "-drawn-as-" \o e.col
              ELSE IF e.id \notin Ids(e.bl) THEN       \* show_label: "Show the ID of the dynamic obstacle"
                     (IF b = e.t0 /\ b # 0 THEN "X04.Label/missing-at-initial-time-step" ELSE "X04.Label/missing")
              ELSE IF R.focus = e.id /\ e.pc # PosAt2(e, b) THEN   \* "centered around center of obstacle at time_begin"
                     (IF b = e.t0 /\ b # 0 THEN "X04.Focus/no-center-at-initial-time-step" ELSE "X04.Focus/center")
              ELSE IF R.focus # e.id /\ e.pc # R.c THEN "X04.Focus/center-moved-by-other-obstacle"
              ELSE ""
    [] e.op = "r_render" ->              \* render(keep_static_artists=keep): "Render all objects from buffer"
         LET want == LimWanted(R) IN
         IF e.res # "ok" THEN "X04.Render/raises"
         ELSE IF ax.s # R.S THEN (IF R.S \ ax.s # {} THEN "X04.Render/static-not-shown" ELSE "X04.Render/static-stale")
         ELSE IF ax.d # R.D THEN (IF R.D \ ax.d # {} THEN "X04.Render/dynamic-not-shown" ELSE "X04.Render/dynamic-stale")
         ELSE IF ax.l # R.L THEN (IF R.L \ ax.l # {} THEN "X04.Render/label-not-shown" ELSE "X04.Render/label-stale")
         ELSE IF SignIds(ax.g) # SignIds(R.G) THEN (IF SignIds(R.G) \ SignIds(ax.g) # {} THEN "X04.Render/sign-not-shown" ELSE "X04.Render/sign-stale")
         ELSE IF ax.g # R.G THEN "X04.ParamsPerObject/sign-drawn-with-parameters-of-another-call"
         ELSE IF ~BufferIs(e, IF e.keep = 1 THEN R.S ELSE {}, {}, {}, {}) THEN   \* the buffer is flushed; keep_static_artists keeps the static part
                (IF e.keep = 1 /\ Ids(e.bs) # R.S THEN "X04.Render/keep-static-lost" ELSE "X04.Render/buffers-not-flushed")
         ELSE IF want # {} /\ (e.exact # 1 \/ e.lim2 \notin want) THEN
                (IF R.focus # 0 /\ R.c # <<>> THEN "X04.PlotLimits/focused-window" ELSE "X04.PlotLimits/window")
         ELSE ""
    [] e.op = "r_clear" ->               \* clear(keep_static_artists=keep): "Clears the internal drawing buffer"
         IF e.res # "ok" THEN "X04.Clear/raises"
         ELSE IF ax # R.ax THEN "X04.Clear/touches-axes"
         ELSE IF ~BufferIs(e, IF e.keep = 1 THEN R.S ELSE {}, {}, {}, {}) THEN
                (IF e.keep = 1 /\ Ids(e.bs) # R.S THEN "X04.Clear/keep-static-lost" ELSE "X04.Clear/buffers-not-empty")
         ELSE IF e.pc # <<>> THEN "X04.Clear/center-kept"
         ELSE ""
    [] e.op = "r_render_static" ->       \* "Only render static objects from buffer" (no axes reset)
         IF e.res # "ok" THEN "X04.RenderStatic/raises"
         ELSE IF ax.s # R.ax.s \cup R.S THEN "X04.RenderStatic/shown"
         ELSE IF ax.d # R.ax.d \/ ax.l # R.ax.l \/ ax.g # R.ax.g THEN "X04.RenderStatic/touches-dynamic"
         ELSE ""                          \* silent: whether the buffers are kept
    [] e.op = "r_render_dynamic" ->      \* "Only render dynamic objects from buffer" (no axes reset)
         IF e.res # "ok" THEN "X04.RenderDynamic/raises"
         ELSE IF ax.d # R.ax.d \cup R.D \/ ax.l # R.ax.l \cup R.L THEN "X04.RenderDynamic/shown"
         ELSE IF SignIds(ax.g) # SignIds(R.ax.g) \cup SignIds(R.G) THEN "X04.RenderDynamic/signs-shown"
         ELSE IF ax.s # R.ax.s THEN "X04.RenderDynamic/touches-static"
         ELSE ""
    [] e.op = "r_remove_dynamic" ->      \* "Remove the dynamic objects from their current axis"
         IF e.res # "ok" THEN "X04.RemoveDynamic/raises"
         ELSE IF ax.s # R.ax.s THEN "X04.RemoveDynamic/touches-static"
         ELSE IF R.rd THEN                \* what one render_dynamic of freshly cleared buffers put on (then empty) axes must be gone
                (IF ax.d # {} \/ ax.l # {} \/ ax.g # {} THEN "X04.RemoveDynamic/still-shown" ELSE "")
         ELSE IF ~(ax.d \subseteq R.ax.d /\ ax.l \subseteq R.ax.l /\ SignIds(ax.g) \subseteq SignIds(R.ax.g)) THEN "X04.RemoveDynamic/adds"
         ELSE ""      \* silent: render() ends with clear() (the renderer no longer knows the artists it put on the axes);
                      \* render_dynamic twice without clear() attaches the buffered artists twice
    [] OTHER -> "machinery/unknown-renderer-op"

(* abstract state after the event: buffers / axes / limits / plot centre as observed; the sign flags as the contract says *)
(* (they are not observable before the next render); ck = the documentation determines the centre; fr = no          *)
(* render_dynamic / remove_dynamic since the buffers were last cleared; rd = the dynamic artists on the axes are exactly  *)
(* those of one render_dynamic of freshly cleared buffers (the loop of create_video: remove_dynamic, clear, draw,         *)
(* render_dynamic)                                                                                                        *)
RPost(R, e) ==
  LET ax == ObsAx(e)
      GI == Ids(e.bg)
      base == [R EXCEPT !.S = Ids(e.bs), !.D = Ids(e.bd), !.L = Ids(e.bl), !.ax = ax, !.c = e.pc, !.lim = [k |-> e.lk, v |-> e.lv],
                        !.G = {g \in R.G : g[1] \in GI}] IN
  CASE e.op = "r_new" -> [NoRnd EXCEPT !.live = (e.res = "ok"), !.lim = [k |-> e.lk, v |-> e.lv], !.focus = e.focus,
                                       !.S = Ids(e.bs), !.D = Ids(e.bd), !.L = Ids(e.bl), !.ax = ax]
    [] e.op = "r_settb"    -> [base EXCEPT !.tb = e.b]
    [] e.op = "r_setfocus" -> [base EXCEPT !.focus = e.id]
    [] e.op = "r_draw" ->
         IF e.kind = "sign" THEN [base EXCEPT !.G = {g \in R.G : g[1] # e.id /\ g[1] \in GI} \cup
                                                   (IF e.id \in GI THEN {<<e.id, FlagOf(e.psrc)>>} ELSE {})]
         ELSE IF e.kind = "dyn" /\ R.focus = e.id THEN
                LET b == EffTb(R, e) IN
                [base EXCEPT !.ck = Exists(e, b)]
         ELSE base
    [] e.op \in {"r_render", "r_clear"} -> [base EXCEPT !.ck = TRUE, !.rd = FALSE, !.fr = TRUE]
    [] e.op = "r_render_dynamic" -> [base EXCEPT !.rd = (R.fr /\ R.ax.d = {} /\ R.ax.l = {} /\ R.ax.g = {}), !.fr = FALSE]
    [] e.op = "r_remove_dynamic" -> [base EXCEPT !.rd = FALSE, !.fr = FALSE]
    [] OTHER -> base

(* ======================================================================================== *)
DOps  == {"d_new", "d_set", "d_get", "d_round", "d_copy", "d_eq"}
ROps  == {"r_new", "r_settb", "r_setfocus", "r_setlim", "r_draw", "r_render", "r_clear", "r_render_static",
          "r_render_dynamic", "r_remove_dynamic"}
Empty == [T |-> NoTrees, R |-> NoRnd]
Clause(st, e) == CASE e.op \in DOps -> DClause(st.T, e)
                   [] e.op \in ROps -> RClause(st.R, e)
                   [] OTHER -> "machinery/unknown-op"
Post(st, e)   == [T |-> IF e.op \in DOps THEN DPost(st.T, e) ELSE st.T,
                  R |-> IF e.op \in ROps THEN RPost(st.R, e) ELSE st.R]

(* ---- laws of the contract operators (checked by TLC in MC_DrawParamTree) ---------------- *)
LawNewUniform(c, K)   == \A f \in Base : \A m, n \in NodesBy[c] : ValAt(NewVal(c, K), m, f) = ValAt(NewVal(c, K), n, f)
LawNewFunctional(c, K) == Functional(K) => Functional(NewVal(c, K))
LawSetReaches(c, V, n, f, v) == \A m \in Targets(c, n, f) : ValAt(SetOp(c, V, n, f, v), m, f) = v
LawSetFrame(c, V, n, f, v)   == \A e \in V : (e[2] # f \/ ~IsPrefix(n, e[1])) => e \in SetOp(c, V, n, f, v)
LawSetIdempotent(c, V, n, f, v) == SetOp(c, SetOp(c, V, n, f, v), n, f, v) = SetOp(c, V, n, f, v)
LawSetFunctional(c, V, n, f, v) == Functional(V) => Functional(SetOp(c, V, n, f, v))
LawRootSetUniform(c, V, f, v) == f \in Base => \A m \in NodesBy[c] : ValAt(SetOp(c, V, <<>>, f, v), m, f) = v
LawShiftZero(L)       == Shift(L, <<0, 0>>) = L
LawShiftWidth(L, c)   == LET M == Shift(L, c) IN M[2] - M[1] = L[2] - L[1] /\ M[4] - M[3] = L[4] - L[3]
LawShiftCentre(L, c)  == LET M == Shift(L, c) IN M[1] + M[2] = L[1] + L[2] + 2 * c[1] /\ M[3] + M[4] = L[3] + L[4] + 2 * c[2]
=================================================================================
