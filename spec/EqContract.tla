------------------------------ MODULE EqContract ------------------------------
(* C12 - equality and hashing of scenario elements follow their contract.                      *)
(*                                                                                             *)
(* Functional core (no variables).  A CLASS TABLE lists, for every scenario-element class, its *)
(* constructor-visible attribute GROUPS and, per group, a small abstract domain of value       *)
(* TOKENS:                                                                                     *)
(*    "d"          the constructor default (often None) - present iff the parameter(s) have one *)
(*    "v1", "v2"   two other valid values ("v3", "v4": further valid values, e.g. another type  *)
(*                 the annotation allows: an Interval instead of a float, a Shape instead of a  *)
(*                 point, a SetBasedPrediction instead of a TrajectoryPrediction)               *)
(*    "v1r"        the same Python value as "v1" (set / dict typed attributes only) built with  *)
(*                 another insertion order; the id sets contain {0, 8}, whose hashes collide in *)
(*                 CPython's 8-slot table so that the iteration order really differs            *)
(* Parameters that are only valid together form ONE group with a joint domain (Lanelet          *)
(* adjacent_left + adjacent_left_same_direction, ScenarioID obstacle_behavior + prediction_id,  *)
(* Trajectory initial_time_step + state_list, ...), so that "a single-attribute perturbation"   *)
(* is always a change of one group to another VALID value.                                      *)
(* A valuation is a function  group name -> token.  The contract is stated on valuations:       *)
(*    ExpectedEq(x, y)   x and y agree on every group modulo insertion order                    *)
(*    Expected3          three-valued: "EITHER" where the statement is silent (Either table)    *)
(* The concrete Python values of the tokens live in harness/crv/props/c12.py; the table below   *)
(* is the single source of truth for (class, group, token) - MC_EqContract prints it as JSON    *)
(* and the driver refuses to run unless it has a builder for exactly these triples.             *)
EXTENDS Integers, Sequences, FiniteSets, TLC, Json

(*    "de"         the default VALUE passed explicitly (history lists: [] instead of leaving the  *)
(*                 keyword out) - the same value as "d" spelled another way, like "v1r" for "v1" *)
Tokens == {"d", "de", "v1", "v1r", "v2", "v3", "v4"}
Canon  == [d |-> "d", de |-> "d", v1 |-> "v1", v1r |-> "v1", v2 |-> "v2", v3 |-> "v3", v4 |-> "v4"]

(* ---- token domains ---- *)
V    == <<"v1", "v2">>                    \* required parameter
V3   == <<"v1", "v2", "v3">>
V4   == <<"v1", "v2", "v3", "v4">>
D    == <<"d", "v1", "v2">>               \* optional parameter
D3   == <<"d", "v1", "v2", "v3">>
D4   == <<"d", "v1", "v2", "v3", "v4">>
B    == <<"d", "v1">>                     \* optional bool: default and its negation
VS   == <<"v1", "v1r", "v2">>             \* required set-valued parameter
DS   == <<"d", "v1", "v1r", "v2">>        \* optional set- / dict-valued parameter
(* history lists of a dynamic obstacle: default, explicit [], two entries, one of them perturbed, one entry,  *)
(* entries with None (what update_initial_state archives for default arguments), id sets re-inserted          *)
HL   == <<"d", "de", "v1", "v2", "v3">>                  \* list of states (never None)
HLN  == <<"d", "de", "v1", "v2", "v3", "v4">>            \* list of signal states, v4 = [None, s]
HLS  == <<"d", "de", "v1", "v1r", "v2", "v3", "v4">>     \* list of id sets, v4 = [None, {3}]

G(name, toks) == [g |-> name, toks |-> toks]
C(name, groups) == [cls |-> name, groups |-> groups]

StateTime == G("time_step", D3)           \* v3 = Interval
Pos   == G("position", D3)                \* v3 = Rectangle (uncertain position)
Ori   == G("orientation", D3)             \* v3 = AngleInterval
Vel   == G("velocity", D3)                \* v3 = Interval
R(name) == G(name, D)                     \* optional real

IdSetsOfObstacle == <<G("initial_center_lanelet_ids", DS), G("initial_shape_lanelet_ids", DS)>>
ObstacleCommon == <<G("obstacle_id", V), G("obstacle_type", V), G("obstacle_shape", V3), G("initial_state", V)>>
                  \o IdSetsOfObstacle \o <<G("initial_signal_state", D), G("signal_series", D)>>

ClassTable == <<
  (* ---- geometry, intervals ---- *)
  C("Rectangle", <<G("length", V), G("width", V), G("center", D), G("orientation", D)>>),
  C("Circle", <<G("radius", V), G("center", D)>>),
  C("Polygon", <<G("vertices", V3)>>),
  C("ShapeGroup", <<G("shapes", V3)>>),
  C("Interval", <<G("start", V), G("end", V)>>),
  C("AngleInterval", <<G("start", V), G("end", V)>>),
  (* ---- states ---- *)
  C("InitialState", <<StateTime, Pos, Ori, Vel, R("acceleration"), R("yaw_rate"), R("slip_angle")>>),
  C("PMState", <<StateTime, Pos, Vel, R("velocity_y")>>),
  C("ExtendedPMState", <<StateTime, Pos, Vel, Ori, R("acceleration")>>),
  C("KSState", <<StateTime, Pos, R("steering_angle"), Vel, Ori>>),
  C("KSTState", <<StateTime, Pos, R("steering_angle"), Vel, Ori, R("hitch_angle")>>),
  C("STState", <<StateTime, Pos, R("steering_angle"), Vel, Ori, R("slip_angle"), R("yaw_rate")>>),
  C("STDState", <<StateTime, Pos, R("steering_angle"), Vel, Ori, R("slip_angle"), R("yaw_rate"),
                  R("front_wheel_angular_speed"), R("rear_wheel_angular_speed")>>),
  C("MBState", <<StateTime, Pos, R("steering_angle"), Vel, Ori, R("yaw_rate"), R("roll_angle"), R("roll_rate"),
                 R("pitch_angle"), R("pitch_rate"), R("velocity_y"), R("position_z"), R("velocity_z"),
                 R("roll_angle_front"), R("roll_rate_front"), R("velocity_y_front"), R("position_z_front"),
                 R("velocity_z_front"), R("roll_angle_rear"), R("roll_rate_rear"), R("velocity_y_rear"),
                 R("position_z_rear"), R("velocity_z_rear"), R("left_front_wheel_angular_speed"),
                 R("right_front_wheel_angular_speed"), R("left_rear_wheel_angular_speed"),
                 R("right_rear_wheel_angular_speed"), R("delta_y_f"), R("delta_y_r")>>),
  C("LongitudinalState", <<StateTime, R("longitudinal_position"), Vel, R("acceleration"), R("jerk")>>),
  C("LateralState", <<StateTime, R("lateral_position"), Ori, R("curvature"), R("curvature_rate")>>),
  C("InputState", <<StateTime, R("steering_angle_speed"), R("acceleration")>>),
  C("PMInputState", <<StateTime, R("acceleration"), R("acceleration_y")>>),
  C("LKSInputState", <<StateTime, R("jerk_dot"), R("kappa_dot_dot")>>),
  C("CustomState", <<G("time_step", V3), Pos, R("custom_attr")>>),              \* "d" = attribute not given
  C("SignalState", <<G("time_step", D), G("horn", D), G("indicator_left", D), G("indicator_right", D),
                     G("braking_lights", D), G("hazard_warning_lights", D), G("flashing_blue_lights", D)>>),
  C("MetaInformationState", <<G("meta_data_str", D), G("meta_data_int", D), G("meta_data_float", D),
                              G("meta_data_bool", D)>>),
  (* ---- trajectories, occupancies, predictions ---- *)
  C("Trajectory", <<G("state_list", V4)>>),                  \* joint: initial_time_step + state_list
  C("Occupancy", <<G("time_step", V3), G("shape", V3)>>),
  C("TrajectoryPrediction", <<G("trajectory", V), G("shape", V), G("center_lanelet_assignment", DS),
                              G("shape_lanelet_assignment", DS)>>),
  C("SetBasedPrediction", <<G("initial_time_step", V), G("occupancy_set", V3)>>),
  (* ---- obstacles ---- *)
  C("StaticObstacle", ObstacleCommon),
  C("DynamicObstacle", ObstacleCommon \o <<G("prediction", D3), G("initial_meta_information_state", D),
                        G("meta_information_series", D), G("external_dataset_id", D), G("history", HL),
                        G("signal_history", HLN), G("center_lanelet_ids_history", HLS),
                        G("shape_lanelet_ids_history", HLS)>>),
  C("PhantomObstacle", <<G("obstacle_id", V), G("prediction", D)>>),
  C("EnvironmentObstacle", <<G("obstacle_id", V), G("obstacle_type", V), G("obstacle_shape", V3)>>),
  (* ---- road network ---- *)
  C("StopLine", <<G("start", V), G("end", V), G("line_marking", V), G("traffic_sign_ref", DS),
                  G("traffic_light_ref", DS)>>),
  C("Lanelet", <<G("left_vertices", V), G("center_vertices", V), G("right_vertices", V), G("lanelet_id", V),
                 G("predecessor", D), G("successor", D),
                 G("adjacent_left", D3), G("adjacent_right", D3),   \* joint: neighbour id + same-direction flag
                 G("line_marking_left_vertices", D), G("line_marking_right_vertices", D), G("stop_line", D),
                 G("lanelet_type", DS), G("user_one_way", DS), G("user_bidirectional", DS),
                 G("traffic_signs", DS), G("traffic_lights", DS), G("adjacent_areas", DS)>>),
  C("TrafficSignElement", <<G("traffic_sign_element_id", V3), G("additional_values", D)>>),
  C("TrafficSign", <<G("traffic_sign_id", V), G("traffic_sign_elements", V3), G("first_occurrence", VS),
                     G("position", V), G("virtual", B)>>),
  C("TrafficLightCycleElement", <<G("state", V), G("duration", V)>>),
  C("TrafficLightCycle", <<G("cycle_elements", D3), G("time_offset", D), G("active", B)>>),
  C("TrafficLight", <<G("traffic_light_id", V), G("position", V), G("traffic_light_cycle", D3),   \* joint: cycle + active
                      G("color", D), G("direction", D), G("shape", D)>>),
  C("IntersectionIncomingElement", <<G("incoming_id", V), G("incoming_lanelets", DS), G("successors_right", DS),
                      G("successors_straight", DS), G("successors_left", DS), G("left_of", D)>>),
  C("Intersection", <<G("intersection_id", V), G("incomings", V3), G("crossings", DS)>>),
  C("AreaBorder", <<G("area_border_id", V), G("border_vertices", V), G("adjacent", D), G("line_marking", D)>>),
  C("Area", <<G("area_id", V), G("border", D), G("area_types", DS)>>),
  C("MapInformation", <<G("commonroad_version", D), G("map_id", D), G("date", V), G("author", D),
                        G("affiliation", D), G("source", D), G("licence_name", D), G("licence_text", D)>>),
                        \* date: the default is "now", not a value - never left out
  C("LaneletNetwork", <<G("information", D),
                        \* content reached through the public add_* methods ("d" = nothing added)
                        G("lanelets", D), G("traffic_signs", D), G("traffic_lights", D), G("intersections", D),
                        G("areas", D)>>),
  (* ---- planning ---- *)
  C("GoalRegion", <<G("state_list", V3), G("lanelets_of_goal_position", DS)>>),
  C("PlanningProblem", <<G("planning_problem_id", V), G("initial_state", V), G("goal_region", V)>>),
  C("PlanningProblemSet", <<G("planning_problem_list", D3)>>),
  (* ---- scenario meta data, scenario ---- *)
  C("ScenarioID", <<G("cooperative", B), G("country_id", D), G("map_name", D), G("map_id", D),
                    G("configuration_id", D), G("behavior", D4),   \* joint: obstacle_behavior + prediction_id
                    G("scenario_version", B)>>),         \* only two supported versions
  C("GeoTransformation", <<G("geo_reference", D), G("x_translation", D), G("y_translation", D),
                           G("z_rotation", D), G("scaling", D)>>),
  C("Environment", <<G("time", D), G("time_of_day", D), G("weather", D), G("underground", D)>>),
  C("Time", <<G("hours", V), G("minutes", V), G("day", D), G("month", D), G("year", D)>>),
  C("Location", <<G("geo_name_id", D), G("gps_latitude", D), G("gps_longitude", D), G("geo_transformation", D),
                  G("environment", D)>>),
  C("Scenario", <<G("dt", V), G("scenario_id", D), G("author", D), G("tags", DS), G("affiliation", D),
                  G("source", D), G("location", D),
                  \* content reached through add_objects ("d" = nothing added)
                  G("lanelet_network", D), G("obstacles", D3)>>)
>>

(* Pairs of tokens of one group about which the statement is silent: both answers of == are accepted.       *)
(* (ScenarioID prediction_id 1 vs [1] used to be listed; the constructor now normalises [1] to 1, so "v4" is  *)
(* the genuine list [1, 2] and nothing is silent at the moment.)  Entries: <<class, group, {token, token}>>.   *)
Either == {}

(* ---- table access ---- *)
Range(s)      == {s[i] : i \in DOMAIN s}
Classes       == {ClassTable[i].cls : i \in DOMAIN ClassTable}
Entry(c)      == ClassTable[CHOOSE i \in DOMAIN ClassTable : ClassTable[i].cls = c]
GroupsOf(c)   == {gr.g : gr \in Range(Entry(c).groups)}
Dom(c, g)     == Range((CHOOSE gr \in Range(Entry(c).groups) : gr.g = g).toks)
HasDefault(c, g) == "d" \in Dom(c, g)
Valuations(c) == [GroupsOf(c) -> Tokens]
IsValuation(c, x) == DOMAIN x = GroupsOf(c) /\ \A g \in GroupsOf(c) : x[g] \in Dom(c, g)

SeedDefault(c) == [g \in GroupsOf(c) |-> IF HasDefault(c, g) THEN "d" ELSE "v1"]   \* default-argument instance
SeedFull(c)    == [g \in GroupsOf(c) |-> "v1"]                                     \* fully populated instance

(* ---- the contract on valuations ---- *)
SameValue(t, u)  == Canon[t] = Canon[u]
Differing(x, y)  == {g \in DOMAIN x : ~SameValue(x[g], y[g])}
Reordered(x, y)  == {g \in DOMAIN x : x[g] # y[g] /\ SameValue(x[g], y[g])}
ExpectedEq(x, y) == Differing(x, y) = {}
Silent(c, x, y)  == \E g \in Differing(x, y) : <<c, g, {Canon[x[g]], Canon[y[g]]}>> \in Either
Expected3(c, x, y) == IF ExpectedEq(x, y) THEN "T" ELSE IF Silent(c, x, y) THEN "EITHER" ELSE "F"
HashKey(x)       == [g \in DOMAIN x |-> Canon[x[g]]]       \* a witness that a consistent hash exists

(* ---- laws (checked by TLC in MC_EqContract on the explored valuations) ---- *)
LawReflexive(x)        == ExpectedEq(x, x)
LawSymmetric(x, y)     == ExpectedEq(x, y) = ExpectedEq(y, x)
LawTransitive(x, y, z) == ExpectedEq(x, y) /\ ExpectedEq(y, z) => ExpectedEq(x, z)
LawHash(x, y)          == ExpectedEq(x, y) <=> HashKey(x) = HashKey(y)

(* ============================ history dimension: public in-place mutators ============================ *)
(* "Equality follows the CURRENT attribute values": an object that was built at valuation A, compared and    *)
(* hashed (warm) or not (cold), and then changed in place through the public API so that it now has the      *)
(* values of B, must be == to a freshly built object with the values of B, hash like it, and be != to a      *)
(* fresh object with the old values.  Three kinds of mutators:                                               *)
(*   "set"   an attribute setter (plain attribute assignment for dataclass states) or, for container content, *)
(*           the public add_* / remove_* methods: one group changes from token a to token b                   *)
(*   "move"  translate_rotate with a lattice motion (integer translation, quarter turn): the valuation stays, *)
(*           the spatial groups Moved(c) are displaced - the descriptor gets the motion mark "m1"             *)
(*   "flat"  convert_to_2d: the object was built from 3-d points (mark "z3") and is flattened to "id"         *)
(* An object descriptor is [val |-> valuation, mot |-> motion mark]; gamma builds it from RAW values to which  *)
(* the harness applies the motion itself (never through the library's translate_rotate).                       *)
Motions == {"id", "m1", "z3"}

(* groups without a working public setter (read-only, or the setter warns "immutable" and ignores the value),  *)
(* and groups whose joint constraint cannot be kept by a setter                                                 *)
NoSetter == {
  <<"ShapeGroup", "shapes">>, <<"Trajectory", "state_list">>, <<"SetBasedPrediction", "initial_time_step">>,
  <<"StaticObstacle", "obstacle_id">>, <<"StaticObstacle", "obstacle_type">>, <<"StaticObstacle", "obstacle_shape">>,
  <<"DynamicObstacle", "obstacle_id">>, <<"DynamicObstacle", "obstacle_type">>, <<"DynamicObstacle", "obstacle_shape">>,
  <<"EnvironmentObstacle", "obstacle_id">>, <<"EnvironmentObstacle", "obstacle_type">>,
  <<"EnvironmentObstacle", "obstacle_shape">>,
  <<"GoalRegion", "lanelets_of_goal_position">>, <<"PlanningProblem", "planning_problem_id">>,
  <<"Scenario", "lanelet_network">> }

(* container content: changed by add_* ("d" -> v) and remove_* (v -> "d") instead of a setter *)
Content == {<<"LaneletNetwork", g>> : g \in {"lanelets", "traffic_signs", "traffic_lights", "intersections", "areas"}}
           \cup {<<"Scenario", "obstacles">>}

(* groups whose setter takes None and stores what the constructor stores for a left-out argument: the    *)
(* transition  v -> "d"  exists (elsewhere a setter cannot "omit")                                           *)
SetNone == {<<"Intersection", "crossings">>,
            <<"IntersectionIncomingElement", "incoming_lanelets">>, <<"IntersectionIncomingElement", "successors_right">>,
            <<"IntersectionIncomingElement", "successors_straight">>, <<"IntersectionIncomingElement", "successors_left">>,
            <<"IntersectionIncomingElement", "left_of">>,
            <<"StopLine", "traffic_sign_ref">>, <<"StopLine", "traffic_light_ref">>,
            <<"StaticObstacle", "initial_signal_state">>, <<"StaticObstacle", "signal_series">>,
            <<"StaticObstacle", "initial_center_lanelet_ids">>, <<"StaticObstacle", "initial_shape_lanelet_ids">>,
            <<"DynamicObstacle", "initial_signal_state">>, <<"DynamicObstacle", "signal_series">>,
            <<"DynamicObstacle", "initial_center_lanelet_ids">>, <<"DynamicObstacle", "initial_shape_lanelet_ids">>,
            <<"DynamicObstacle", "prediction">>, <<"DynamicObstacle", "initial_meta_information_state">>,
            <<"DynamicObstacle", "meta_information_series">>, <<"DynamicObstacle", "external_dataset_id">>,
            <<"PhantomObstacle", "prediction">>,
            <<"TrajectoryPrediction", "center_lanelet_assignment">>, <<"TrajectoryPrediction", "shape_lanelet_assignment">>,
            <<"TrafficLight", "shape">>}
            \* (not AreaBorder.adjacent / line_marking: their setters assert a non-None value)

(* explicit transition tables where not every (a, b) is reachable by one mutator call *)
SpecialPairs == [
  \* cycle setter keeps `active`; `active` setter keeps the cycle; nothing leads out of / into "no cycle"
  \* (out of "no cycle" only to v3: a light built without cycle stores active = False, and the cycle setter keeps it;
  \*  into "no cycle" and other states the constructor would have normalised: see RawMut)
  TrafficLight_traffic_light_cycle |-> {<<"v1", "v2">>, <<"v2", "v1">>, <<"v1", "v3">>, <<"v3", "v1">>, <<"d", "v3">>},
  \* add_planning_problem only adds: {} -> {1} -> {1, 2}
  PlanningProblemSet_planning_problem_list |-> {<<"d", "v3">>, <<"v3", "v1">>},
  \* the constructor turns configuration_id None into 1 as soon as a behaviour is given, the attributes do not:
  \* assigning a behaviour to an id that has none does not lead to a constructible valuation
  ScenarioID_behavior |-> {<<a, b>> \in {"v1", "v2", "v3", "v4"} \X {"v1", "v2", "v3", "v4"} : a # b} ]

SetPairs(c, g) ==
  LET k == c \o "_" \o g
  IN  IF <<c, g>> \in NoSetter THEN {}
      ELSE IF k \in DOMAIN SpecialPairs THEN SpecialPairs[k]
      ELSE IF <<c, g>> \in Content
           THEN {<<a, b>> \in Dom(c, g) \X Dom(c, g) : ~SameValue(a, b) /\ "d" \in {a, b}}
      ELSE {<<a, b>> \in Dom(c, g) \X Dom(c, g) : ~SameValue(a, b) /\ (b # "d" \/ <<c, g>> \in SetNone)}
SetName(c, g, a, b) == IF <<c, g>> \in Content \/ c = "PlanningProblemSet"
                       THEN (IF b = "d" THEN "remove:" ELSE "add:") \o g
                       ELSE "set:" \o g

(* translate_rotate: the groups the library documents to move.  (What translate_rotate must do to them is C05; *)
(* here they only say from which raw values the reference object is built.)                                    *)
StatePos == {"position", "orientation"}
Moved == [
  Rectangle |-> {"center", "orientation"}, Circle |-> {"center"}, Polygon |-> {"vertices"}, ShapeGroup |-> {"shapes"},
  InitialState |-> StatePos, PMState |-> {"position"}, ExtendedPMState |-> StatePos, KSState |-> StatePos,
  KSTState |-> StatePos, STState |-> StatePos, STDState |-> StatePos, MBState |-> StatePos,
  LateralState |-> {"orientation"}, CustomState |-> {"position"},
  \* inherit State.translate_rotate but have no spatial attribute: the identity, nothing to check
  LongitudinalState |-> {}, InputState |-> {}, PMInputState |-> {}, LKSInputState |-> {},
  Trajectory |-> {"state_list"}, Occupancy |-> {"shape"}, TrajectoryPrediction |-> {"trajectory"},
  SetBasedPrediction |-> {"occupancy_set"},
  StaticObstacle |-> {"initial_state"}, DynamicObstacle |-> {"initial_state", "prediction"},
  PhantomObstacle |-> {"prediction"}, EnvironmentObstacle |-> {"obstacle_shape"},
  StopLine |-> {"start", "end"},
  Lanelet |-> {"left_vertices", "center_vertices", "right_vertices", "stop_line"},
  TrafficSign |-> {"position"}, TrafficLight |-> {"position"},
  LaneletNetwork |-> {"lanelets", "traffic_signs", "traffic_lights", "areas"},
  GoalRegion |-> {"state_list"}, PlanningProblem |-> {"initial_state", "goal_region"},
  PlanningProblemSet |-> {"planning_problem_list"}, Scenario |-> {"lanelet_network", "obstacles"} ]
(* translate_rotate is not applicable (raises) when ALL these groups are given - recorded as a C05 finding:    *)
(* PMState.orientation is a read-only property derived from velocity and velocity_y, and State.translate_rotate *)
(* assigns to it (AttributeError: property 'orientation' of 'PMState' object has no setter)                     *)
MoveBlockedBy == [PMState |-> {"velocity", "velocity_y"}]
BlockGroups(c) == IF c \in DOMAIN MoveBlockedBy THEN MoveBlockedBy[c] ELSE {}
MoveBlocked(c, v) == BlockGroups(c) # {} /\ \A g \in BlockGroups(c) : v[g] # "d"
(* convert_to_2d *)
Flat == [
  StopLine |-> {"start", "end"}, Lanelet |-> {"left_vertices", "center_vertices", "right_vertices", "stop_line"},
  TrafficSign |-> {"position"}, TrafficLight |-> {"position"},
  LaneletNetwork |-> {"lanelets", "traffic_signs", "traffic_lights"} ]
(* the default of a spatial group is "nothing there" (None, empty) and is not displaced - except these *)
SpatialDefault == {<<"Rectangle", "center">>, <<"Rectangle", "orientation">>, <<"Circle", "center">>}

MotGroups(c, mk) == IF mk = "move" THEN (IF c \in DOMAIN Moved THEN Moved[c] ELSE {})
                    ELSE IF mk = "flat" THEN (IF c \in DOMAIN Flat THEN Flat[c] ELSE {}) ELSE {}
Displaced(c, mk, v) == \E g \in MotGroups(c, mk) : v[g] # "d" \/ <<c, g>> \in SpatialDefault
MotBefore(mk) == IF mk = "flat" THEN "z3" ELSE "id"
MotAfter(mk)  == IF mk = "move" THEN "m1" ELSE "id"
(*   "adv"   DynamicObstacle.update_initial_state(state [, signal state, centre ids, shape ids] [, max_history_length]): *)
(*           the obstacle is ADVANCED: its initial state / signal state / lanelet ids are archived at the end of the  *)
(*           four history lists (truncated to the last n entries), the arguments become the new initial values        *)
(*           (left out = None), prediction and signal series are dropped.  In token space: B = A with the initial     *)
(*           groups at the argument tokens and prediction = signal_series = "d"; the history groups keep A's tokens    *)
(*           and the descriptor carries the archive mark <<n, archived tokens>> (n = 0: no max_history_length given). *)
(*   "upd"   DynamicObstacle.update_prediction(prediction [, signal_series]): two groups change at once                *)
(*   "raw"   a public setter call that leaves the object in a state NO constructor call produces, because the         *)
(*           constructor normalises what the setter stores as given (a light whose cycle is taken away keeps its       *)
(*           stored `active`; a direction flag without a neighbour; ...).  Nothing is demanded about == with fresh     *)
(*           objects (EITHER); demanded is the contract of the object itself: x == x, x == deepcopy(x), symmetry       *)
(*           against a fresh object built from its current attribute values and against a fresh object with the old    *)
(*           values, equal => equal hashes, hash() still total.   <<class, mutator, group, tokens it applies to>>       *)
RawMut == {
  <<"TrafficLight", "drop_cycle", "traffic_light_cycle", {"v1", "v2", "v3"}>>,               \* x.traffic_light_cycle = None
  <<"TrafficLight", "empty_cycle", "traffic_light_cycle", {"v1", "v2", "v3"}>>,              \* x.traffic_light_cycle.cycle_elements = []
  <<"TrafficLight", "none_cycle_elements", "traffic_light_cycle", {"v1", "v2", "v3"}>>,      \* ... .cycle_elements = None
  <<"TrafficLight", "activate_without_cycle", "traffic_light_cycle", {"d"}>>,                \* x.active = True
  <<"TrafficLightCycle", "none_cycle_elements", "cycle_elements", {"d", "v1", "v2", "v3"}>>, \* x.cycle_elements = None
  <<"Lanelet", "flag_without_neighbour_left", "adjacent_left", {"d"}>>,        \* x.adj_left_same_direction = True
  <<"Lanelet", "flag_without_neighbour_right", "adjacent_right", {"d"}>>,
  <<"Lanelet", "drop_neighbour_left", "adjacent_left", {"v1", "v2", "v3"}>>,   \* x.adj_left = None (flag stays)
  <<"Lanelet", "drop_neighbour_right", "adjacent_right", {"v1", "v2", "v3"}>>,
  <<"LaneletNetwork", "lights_drop_cycle", "traffic_lights", {"v1", "v2"}>>,    \* the same through the contained light
  <<"LaneletNetwork", "lights_empty_cycle", "traffic_lights", {"v1", "v2"}>>,
  <<"Scenario", "lights_drop_cycle", "lanelet_network", {"v1", "v2"}>>,
  <<"Scenario", "lights_empty_cycle", "lanelet_network", {"v1", "v2"}>> }
RawNames(c) == {r[2] : r \in {q \in RawMut : q[1] = c}}
IsRaw(c, name, a) == \E r \in RawMut : r[1] = c /\ r[2] = name /\ a[r[3]] \in r[4]
MutKinds == {"set", "move", "flat", "adv", "upd", "raw"}
Advanced == {"DynamicObstacle"}
AdvInitial == <<"initial_state", "initial_signal_state", "initial_center_lanelet_ids", "initial_shape_lanelet_ids">>
AdvDropped == {"prediction", "signal_series"}
AdvLengths == 0..2
(* the four history lists run in parallel (one entry per past time step); the library truncates all of them when *)
(* `history` exceeds max_history_length, so advancing is only defined for lists of one common length              *)
AdvHistory == {"history", "signal_history", "center_lanelet_ids_history", "shape_lanelet_ids_history"}
HistLen == [d |-> 0, de |-> 0, v1 |-> 2, v1r |-> 2, v2 |-> 2, v3 |-> 1, v4 |-> 2]
Parallel(a) == \A g, h \in AdvHistory : HistLen[a[g]] = HistLen[a[h]]
AdvMark(a, n) == <<n>> \o [i \in 1..Len(AdvInitial) |-> Canon[a[AdvInitial[i]]]]

DescA(v, m, k) == [val |-> v, mot |-> m, adv |-> k]
Desc(v, m) == DescA(v, m, <<>>)
DescKey(d) == [val |-> HashKey(d.val), mot |-> d.mot, adv |-> d.adv]
(* descriptors of one class: equal iff same values modulo insertion order, same displacement, same archive *)
ExpectedEqD(c, p, q) == /\ ExpectedEq(p.val, q.val)
                        /\ p.adv = q.adv
                        /\ \/ p.mot = q.mot
                           \/ /\ "z3" \notin {p.mot, q.mot} /\ ~Displaced(c, "move", p.val)
                           \/ /\ "m1" \notin {p.mot, q.mot} /\ ~Displaced(c, "flat", p.val)

(* ============================ observed dimension: read-only public queries ============================ *)
(* Queries never change equality: after the read-only public queries of its class were run on x only, or on  *)
(* x and on an independently built twin y, x == y, y == x, x == its deep copies taken before and after the   *)
(* queries, the hashes agree, and == still returns a truth value.  (Derived data a query caches on the        *)
(* instance - cumulative distances, polygons, occupancy sets, cycle start times - is not an attribute value.)  *)
ShapeQ == {"shapely_object", "contains_point"}
ObstQ  == {"occupancy_at_time", "state_at_time"}
SpecialQueries == [
  Rectangle |-> ShapeQ \cup {"vertices"}, Circle |-> ShapeQ, Polygon |-> ShapeQ \cup {"center"}, ShapeGroup |-> {"contains_point"},
  TrafficLightCycle |-> {"get_state_at_time_step", "cycle_init_timesteps"},
  TrafficLight |-> {"get_state_at_time_step"},
  Lanelet |-> {"distance", "inner_distance", "polygon", "interpolate_position", "orientation_by_position"},
  LaneletNetwork |-> {"find_lanelet_by_position", "lanelet_polygons", "map_inc_lanelets_to_intersections",
                      "lanelets_in_proximity", "light_states"},
  StaticObstacle |-> ObstQ, DynamicObstacle |-> ObstQ, PhantomObstacle |-> ObstQ, EnvironmentObstacle |-> {"occupancy_at_time"},
  Trajectory |-> {"state_at_time_step", "final_state"},
  TrajectoryPrediction |-> {"occupancy_set", "occupancy_at_time_step"},
  SetBasedPrediction |-> {"occupancy_at_time_step"},
  GoalRegion |-> {"is_reached"}, PlanningProblem |-> {"goal_reached"},
  Scenario |-> {"occupancies_at_time_step", "obstacle_states_at_time_step", "light_states", "render"} ]
Heavy == {"render"}                              \* only on the seeds
Queries(c, depth) == ({"str", "repr", "hash"} \cup (IF c \in DOMAIN SpecialQueries THEN SpecialQueries[c] ELSE {}))
                     \ (IF depth = 0 THEN {} ELSE Heavy)
Observers == {"x", "both"}

(* is  A --mutator--> B  an edge of the mutation relation? *)
IsMutation(c, mk, a, b) ==
  CASE mk = "set"  -> /\ Cardinality(Differing(a, b)) = 1
                      /\ LET g == CHOOSE h \in Differing(a, b) : TRUE IN <<a[g], b[g]>> \in SetPairs(c, g)
                      /\ \A h \in DOMAIN a : h \in Differing(a, b) \/ a[h] = b[h]
    [] mk \in {"move", "flat"} -> a = b /\ Displaced(c, mk, a) /\ ~(mk = "move" /\ MoveBlocked(c, a))
    [] mk = "adv" -> /\ c \in Advanced /\ Parallel(a)
                     /\ ~SameValue(a["initial_state"], b["initial_state"])          \* advanced to ANOTHER state
                     /\ \A g \in AdvDropped : b[g] = "d"
                     /\ \A i \in 2..Len(AdvInitial) : b[AdvInitial[i]] \in {"d", "v1", "v2"}   \* no re-insertion twin
                     /\ \A g \in DOMAIN a : g \in Range(AdvInitial) \cup AdvDropped \/ a[g] = b[g]
    [] mk = "upd" -> /\ c \in Advanced
                     /\ b["prediction"] # "d"                                       \* the prediction argument is required
                     /\ \A g \in DOMAIN a : g \in AdvDropped \/ a[g] = b[g]
                     /\ Differing(a, b) # {}
    [] mk = "raw" -> a = b /\ RawNames(c) # {}                                     \* plus IsRaw(c, name, a)
    [] OTHER -> FALSE

(* ---- well-formedness of the table ---- *)
TableOK ==
  /\ \A i, j \in DOMAIN ClassTable : ClassTable[i].cls = ClassTable[j].cls => i = j
  /\ \A c \in Classes :
       /\ \A i, j \in DOMAIN Entry(c).groups : Entry(c).groups[i].g = Entry(c).groups[j].g => i = j
       /\ \A g \in GroupsOf(c) :
            /\ Dom(c, g) \subseteq Tokens
            /\ "v1" \in Dom(c, g)
            /\ Cardinality({Canon[t] : t \in Dom(c, g)}) >= 2          \* something to perturb to
            /\ \A t \in Dom(c, g) : Canon[t] \in Dom(c, g)            \* "v1r" only next to "v1"
  /\ \A e \in Either : e[1] \in Classes /\ e[2] \in GroupsOf(e[1]) /\ e[3] \subseteq Dom(e[1], e[2])
  /\ DOMAIN SpecialQueries \subseteq Classes
  /\ \A r \in RawMut : r[1] \in Classes /\ r[3] \in GroupsOf(r[1]) /\ r[4] \subseteq Dom(r[1], r[3])
  /\ \A e \in NoSetter \cup Content \cup SpatialDefault \cup SetNone : e[1] \in Classes /\ e[2] \in GroupsOf(e[1])
  /\ \A c \in DOMAIN Moved : c \in Classes /\ Moved[c] \subseteq GroupsOf(c)
  /\ \A c \in DOMAIN Flat : c \in DOMAIN Moved /\ Flat[c] \subseteq Moved[c]
  /\ \A c \in Classes : \A g \in GroupsOf(c) : \A pr \in SetPairs(c, g) :
        pr[1] \in Dom(c, g) /\ pr[2] \in Dom(c, g) /\ ~SameValue(pr[1], pr[2])
ASSUME TableOK
=================================================================================
