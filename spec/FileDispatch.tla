----------------------------- MODULE FileDispatch -----------------------------
(* X09 (extended coverage) - the front doors of the library:                                   *)
(*   common/file_reader.py  CommonRoadFileReader(filename, file_format=None), open(),          *)
(*                          open_lanelet_network()                                             *)
(*   common/file_writer.py  CommonRoadFileWriter(scenario, planning_problem_set, author, ...), *)
(*                          write_to_file(), write_scenario_to_file(), OverwriteExistingFile    *)
(* NOT the codec content (Codec.tla, Xsd2020a.tla, Writers.tla): a file is an abstract content  *)
(*   C(fmt, v, pp, h)  fmt = "xml" | "pb" | "xml18" (a 2018b document) | "garb" | "dir" | "none" *)
(*                     v = which scenario, pp = number of planning problems (-1: not known to   *)
(*                     the specification), h = whose metadata the header carries ("arg" | "scn") *)
(* and the file system is a function  relative name -> content  over a sandbox directory.       *)
(* Contract, from the docstrings / prompt text / assert messages:                               *)
(*   reader  "file_format: Format of file. If None, inferred from file suffix."                *)
(*           "CommonRoadFileReader::init: file_format must be provided." (bytes without format) *)
(*           open: "Opens and loads CommonRoad scenario and planning problems from file."       *)
(*           "lanelet_assignment: Activates calculation of lanelets occupied by obstacles"      *)
(*           open_lanelet_network: "Opens and loads CommonRoad lanelet network from file."      *)
(*   writer  "file_format: Format of file"; "filename ... If 'None', the Benchmark ID is taken"; *)
(*           "If file already exists, it will be overwritten of skipped";                       *)
(*           prompt "File {} already exists, replace old file (or else skip)? (y/n)";           *)
(*           "check_validity: check xml file against .xsd definition" / "Validity checking      *)
(*           before writing"; check_validity_of_commonroad_file: "Throw an error if it is not   *)
(*           valid"; asserts "author must be a string", "tag must be a enum of type Tag", and    *)
(*           not (author is None and scenario.author is None) (same for affiliation/source/tags) *)
(* Functional core: no variables.  Clause(st, e) names the violated clause of the logged event  *)
(* e in abstract state st ("" = accepted), Post(st, e) is the abstract state afterwards          *)
(* (re-synchronised to what the event reports).  Where the documentation is silent both         *)
(* behaviours are accepted: the bands are the sets returned by Detect / Ask and the branches    *)
(* commented `silent`.                                                                          *)
EXTENDS Integers, Sequences, FiniteSets, TLC

Range(s) == {s[i] : i \in DOMAIN s}

(* ======================================================================================== *)
(* 1. contents and the file system                                                          *)
(* ======================================================================================== *)
C(fmt, v, pp, h) == [fmt |-> fmt, v |-> v, pp |-> pp, h |-> h]
DirC    == C("dir", 0, 0, "")
NoFile  == C("none", 0, 0, "")
Garbage == C("garb", 0, 0, "")
Ext(fmt) == IF fmt = "xml" THEN ".xml" ELSE ".pb"                  \* FileFormat.XML.value / FileFormat.PROTOBUF.value
IsDir(F, n)  == n \in DOMAIN F /\ F[n] = DirC
IsFile(F, n) == n \in DOMAIN F /\ F[n] # DirC
FileAt(F, n) == IF n \in DOMAIN F THEN F[n] ELSE NoFile
Known(c)     == c.pp >= 0                                           \* fixtures taken from the library's test files: content unknown
Compatible(cf, f) == (f = "xml" /\ cf \in {"xml", "xml18"}) \/ (f = "pb" /\ cf = "pb")

(* ======================================================================================== *)
(* 2. reader: format detection.  parts = the file name split at "." (tokenised by the       *)
(*    driver), ff = "none" | "xml" | "pb" | "str" (something that is not a FileFormat),     *)
(*    src = "str" | "path" | "bytes" (the document itself instead of a name).               *)
(*    Detect = the set of formats the reader may use; "err" = it may refuse (at             *)
(*    construction or at every open).                                                       *)
(* ======================================================================================== *)
XmlCase == {"XML", "Xml", "xMl", "xmL", "XMl", "XmL", "xML"}
PbCase  == {"PB", "Pb", "pB"}
Detect(parts, ff, src) ==
  IF ff \in {"xml", "pb"} THEN {ff}                                 \* an explicit format wins over any suffix
  ELSE IF ff # "none" THEN {"err", "xml", "pb"}                     \* silent: outside the documented argument type
  ELSE IF src = "bytes" THEN {"err"}                                \* "file_format must be provided"
  ELSE LET n == Len(parts)  last == parts[n] IN
       IF n < 2 THEN {"err"}                                        \* no suffix: nothing to infer from
       ELSE IF n = 2 /\ parts[1] = "" THEN (IF last \in {"xml", "pb"} THEN {"err", last} ELSE {"err"})   \* silent: ".xml" is a hidden file
       ELSE IF last = "xml" THEN {"xml"}
       ELSE IF last = "pb" THEN {"pb"}
       ELSE IF last \in XmlCase THEN {"err", "xml"}                 \* silent: letter case
       ELSE IF last \in PbCase THEN {"err", "pb"}
       ELSE {"err"}

(* reader objects: name, D = Detect(...), src, snap = content handed over as bytes, last = content and flag of its last open() *)
LastOpen(c, la) == [c |-> c, la |-> la]
ReaderRec(name, D, src, snap) == [name |-> name, D |-> D, src |-> src, snap |-> snap, last |-> LastOpen(NoFile, -1)]
Target(st, rd) == IF rd.src = "bytes" THEN rd.snap ELSE FileAt(st.files, rd.name)

RNewClause(st, e) ==
  LET D == Detect(e.parts, e.ff, e.src) IN
  IF e.fs # st.files THEN "X09.ReadOnly/reader-changes-files"
  ELSE IF e.src = "bytes" /\ e.ff = "none"
  THEN (IF e.res # "exc:RuntimeError" THEN "X09.Detect/bytes-without-format" ELSE "")
  ELSE IF e.res # "ok" /\ "err" \notin D
  THEN (IF e.ff = "none" THEN "X09.Detect/known-suffix-rejected" ELSE "X09.Detect/override-rejected")
  ELSE ""                                                           \* a reader that must fail may fail here or at open()

(* the part of open() / open_lanelet_network() they share: may / must it succeed *)
CanOpen(rd, c)  == \E f \in rd.D \ {"err"} : Compatible(c.fmt, f)
MustOpen(rd, c) == CanOpen(rd, c) /\ "err" \notin rd.D
RefusedName(rd, c) == IF c.fmt \in {"none", "dir"} THEN "X09.Open/missing-file-accepted"
                      ELSE IF rd.D = {"err"} THEN "X09.Detect/unknown-format-accepted"
                      ELSE "X09.Open/format-mismatch-accepted"

(* open(lanelet_assignment): v / pp / h = projection of the returned objects, nfp / ofp = identifiers of the   *)
(* lanelet network / the obstacles without the lanelet registries, reg = 1 when obstacle-lanelet registries    *)
(* are filled, fresh = 1 when no returned object is shared with an earlier result, eqprev = 1 when the result  *)
(* equals (library ==) the previous result of the same reader                                                  *)
OpenClause(st, e) ==
  LET rd == st.readers[e.r]
      c  == Target(st, rd)
  IN IF e.fs # st.files THEN "X09.ReadOnly/open-changes-files"
     ELSE IF ~CanOpen(rd, c) THEN (IF e.res = "ok" THEN RefusedName(rd, c) ELSE "")
     ELSE IF e.res # "ok" THEN (IF MustOpen(rd, c) THEN "X09.Open/raises" ELSE "")
     ELSE IF Known(c) /\ (e.v # c.v \/ e.pp # c.pp \/ e.h # c.h) THEN "X09.Open/not-the-file-content"   \* "loads ... from file": no state kept between calls
     ELSE IF e.fresh # 1 THEN "X09.OpenFresh/aliased-result"
     ELSE IF Known(c) /\ e.la = 1 /\ e.reg # 1 THEN "X09.Assignment/not-computed"
     ELSE IF c \in DOMAIN st.fp /\ st.fp[c].n # e.nfp THEN "X09.SameNetwork/open-vs-open_lanelet_network"
     ELSE IF c \in DOMAIN st.fp /\ st.fp[c].o >= 0 /\ st.fp[c].o # e.ofp THEN "X09.Assignment/changes-more-than-registries"
     ELSE IF rd.last = LastOpen(c, e.la) /\ e.eqprev # 1 THEN "X09.OpenTwice/results-differ"     \* same file, same flag: equal results
     ELSE ""                                                        \* silent: lanelet_assignment = False may fill the registries too

NetClause(st, e) ==
  LET rd == st.readers[e.r]
      c  == Target(st, rd)
  IN IF e.fs # st.files THEN "X09.ReadOnly/open-changes-files"
     ELSE IF ~CanOpen(rd, c) THEN (IF e.res = "ok" THEN RefusedName(rd, c) ELSE "")
     ELSE IF e.res # "ok" THEN (IF MustOpen(rd, c) THEN "X09.OpenNetwork/raises" ELSE "")
     ELSE IF Known(c) /\ e.v # c.v THEN "X09.OpenNetwork/not-the-file-content"
     ELSE IF e.fresh # 1 THEN "X09.OpenFresh/aliased-result"
     ELSE IF c \in DOMAIN st.fp /\ st.fp[c].n # e.nfp THEN "X09.SameNetwork/open-vs-open_lanelet_network"
     ELSE ""

(* ======================================================================================== *)
(* 3. writer objects [fmt, pps = "one" | "empty", h = "arg" | "scn" | "both" (where the      *)
(*    metadata was given: constructor arguments, the scenario, both), v = scenario]          *)
(* ======================================================================================== *)
WriterRec(fmt, pps, h, v) == [fmt |-> fmt, pps |-> pps, h |-> h, v |-> v]
(* what a write of this writer produces: its own format whatever the file is called; the explicitly passed *)
(* metadata wins over the scenario's; planning problems only with write_to_file                            *)
F(w, kind) == C(w.fmt, w.v, IF kind = "full" /\ w.pps = "one" THEN 1 ELSE 0, IF w.h = "scn" THEN "scn" ELSE "arg")
(* the XSD wants at least one planning problem: write_to_file of an empty planning problem set is not valid *)
InvalidDoc(w, kind, cv) == cv = 1 /\ kind = "full" /\ w.fmt = "xml" /\ F(w, kind).pp = 0

(* the scripted user.  Outcomes = acceptable <<what happens, number of prompts>> *)
YesLike == {"Y", "yes", "Yes", "YES"}
RECURSIVE Ask(_, _)
Ask(ans, k) ==                               \* the k-th prompt is issued, ans = the answers still to come
  IF ans = <<>> THEN {[a |-> "exc", p |-> k], [a |-> "skip", p |-> k]}        \* silent: input exhausted (EOFError) - never a write
  ELSE IF ans[1] = "y" THEN {[a |-> "write", p |-> k]}
  ELSE IF ans[1] = "n" THEN {[a |-> "skip", p |-> k]}
  ELSE {[a |-> "skip", p |-> k]} \cup Ask(Tail(ans), k + 1)                    \* "(or else skip)", or ask again
         \cup (IF ans[1] \in YesLike THEN {[a |-> "write", p |-> k]} ELSE {})  \* silent: other spellings of yes
Outcomes(mode, exists, ans) ==
  IF ~exists \/ mode = "always" THEN {[a |-> "write", p |-> 0]}
  ELSE IF mode = "skip" THEN {[a |-> "skip", p |-> 0]}
  ELSE Ask(ans, 1)

(* write event: path = "" for filename None, pdir = directory part of the name ("" = sandbox root), sid =      *)
(* str(scenario_id), ans = scripted answers, prompts = calls of input(), touched = names created or rewritten, *)
(* warned = 1 when a warning / log record / printed line mentions validity, fs = the sandbox afterwards        *)
WTarget(w, e) == IF e.path = "" THEN e.sid \o Ext(w.fmt) ELSE e.path
WriteClause(st, e) ==
  LET w      == st.writers[e.w]
      F0     == st.files
      F1     == e.fs
      tgt    == WTarget(w, e)
      T      == Range(e.touched)
      isDir  == IsDir(F0, tgt)
      dirOk  == e.pdir = "" \/ IsDir(F0, e.pdir)
      exists == IsFile(F0, tgt)
      new    == F(w, e.kind)
      inval  == InvalidDoc(w, e.kind, e.cv)
      outs0  == Outcomes(e.mode, exists, e.ans)
      outs   == IF inval THEN outs0 \cup {[a |-> "exc", p |-> o.p] : o \in {o \in outs0 : o.a = "write"}} ELSE outs0
      obs    == [a |-> IF e.res # "ok" THEN "exc" ELSE IF tgt \in T THEN "write" ELSE "skip", p |-> e.prompts]
      frame  == /\ T \subseteq {tgt}
                /\ \A n \in DOMAIN F0 \ {tgt} : n \in DOMAIN F1 /\ F1[n] = F0[n]
                /\ DOMAIN F1 \subseteq DOMAIN F0 \cup {tgt}
  IN
  IF e.path = "" /\ tgt \notin T /\ T # {}
  THEN (IF e.sid \in T THEN "X09.DefaultName/no-suffix" ELSE "X09.DefaultName/other-name")
  ELSE IF e.path = "" /\ T = {} /\ IsFile(F0, e.sid) /\ obs \notin outs /\ obs \in Outcomes(e.mode, TRUE, e.ans)
  THEN "X09.DefaultName/no-suffix"                    \* it behaves as if the file named without the suffix were the target
  ELSE IF ~frame THEN "X09.Frame/other-file-changed"
  ELSE IF isDir \/ ~dirOk
  THEN (IF e.res = "ok" THEN (IF isDir THEN "X09.Write/directory-target-accepted" ELSE "X09.Write/missing-directory-accepted")
        ELSE IF F1 # F0 THEN "X09.Write/failed-not-atomic"
        ELSE IF e.prompts # 0 THEN "X09.AskUser/unexpected-prompt" ELSE "")
  ELSE IF obs.p \notin {o.p : o \in outs}
  THEN (IF e.mode # "ask" \/ ~exists THEN "X09.AskUser/unexpected-prompt" ELSE "X09.AskUser/prompt-count")
  ELSE IF obs \notin outs
  THEN (IF obs.a = "write" THEN (IF e.mode = "skip" THEN "X09.Skip/overwrites" ELSE "X09.AskUser/non-yes-answer-replaces")
        ELSE IF obs.a = "skip" THEN "X09.Write/not-written"
        ELSE "X09.Write/raises")
  ELSE IF obs.a = "write"
  THEN (IF inval THEN (IF e.warned = 0 THEN "X09.CheckValidity/invalid-document-written-silently" ELSE "")
        ELSE IF tgt \notin DOMAIN F1 THEN "X09.Write/no-file"
        ELSE IF F1[tgt].fmt # new.fmt THEN "X09.OwnFormat/format-follows-file-name"
        ELSE IF F1[tgt].h # new.h THEN "X09.Metadata/argument-does-not-win"
        ELSE IF F1[tgt] # new THEN "X09.Write/content" ELSE "")
  ELSE IF F1 # F0
  THEN (IF obs.a = "skip" THEN "X09.Skip/not-untouched" ELSE IF inval THEN "" ELSE "X09.Write/failed-not-atomic")
  ELSE ""

(* ======================================================================================== *)
(* 4. writer constructor table (stateless).  Per field author / affiliation / source / tags  *)
(*    / location: a = what the argument is ("none" | "val" | "bad" = wrong type), s = what    *)
(*    the scenario holds ("none" | "val"); got = whose value a written file carries.          *)
(* ======================================================================================== *)
NFields == 5                                         \* 1 author 2 affiliation 3 source 4 tags 5 location (no assert, default Location())
CtorOk(a, s) == \A f \in 1..4 : a[f] # "bad" /\ ~(a[f] = "none" /\ s[f] = "none")
Winner(af, sf) == IF af = "val" THEN "arg" ELSE IF sf = "val" THEN "scn" ELSE "default"
CtorClause(e) ==
  IF ~CtorOk(e.a, e.s) THEN (IF e.res = "ok" THEN "X09.Ctor/invalid-metadata-accepted" ELSE "")
  ELSE IF e.res # "ok" THEN "X09.Ctor/valid-metadata-rejected"
  ELSE IF \E f \in 1..NFields : e.got[f] # Winner(e.a[f], e.s[f]) THEN "X09.Metadata/argument-does-not-win"
  ELSE ""

(* ======================================================================================== *)
(* 5. the contract                                                                          *)
(* ======================================================================================== *)
FsOps == {"init", "put", "rm", "w_new", "write", "r_new", "open", "open_net"}
EmptyFn == [x \in {} |-> NoFile]
Empty == [files |-> EmptyFn, writers |-> EmptyFn, readers |-> EmptyFn, fp |-> EmptyFn]
Upd(f, k, v) == [x \in DOMAIN f \cup {k} |-> IF x = k THEN v ELSE f[x]]

Clause(st, e) ==
  CASE e.op = "init" -> ""
    [] e.op = "put" -> IF FileAt(e.fs, e.name) # e.c THEN "driver/put-projection" ELSE ""      \* the harness installed a fixture: checks the projection
    [] e.op = "rm" -> IF e.name \in DOMAIN e.fs THEN "driver/rm" ELSE ""
    [] e.op = "w_new" -> IF e.fs # st.files THEN "X09.Ctor/changes-files"
                         ELSE IF e.res # "ok" THEN "X09.Ctor/valid-metadata-rejected" ELSE ""
    [] e.op = "write" -> IF e.w \notin DOMAIN st.writers THEN "driver/unknown-writer" ELSE WriteClause(st, e)
    [] e.op = "r_new" -> RNewClause(st, e)
    [] e.op = "open" -> IF e.r \notin DOMAIN st.readers THEN "driver/unknown-reader" ELSE OpenClause(st, e)
    [] e.op = "open_net" -> IF e.r \notin DOMAIN st.readers THEN "driver/unknown-reader" ELSE NetClause(st, e)
    [] e.op = "ctor" -> CtorClause(e)
    [] OTHER -> "machinery/unknown-op"

Post(st, e) ==
  IF e.op \notin FsOps THEN st
  ELSE LET s1 == [st EXCEPT !.files = e.fs] IN
       IF e.op = "w_new" /\ e.res = "ok"
       THEN [s1 EXCEPT !.writers = Upd(st.writers, e.w, WriterRec(e.fmt, e.pps, e.h, e.v))]
       ELSE IF e.op = "r_new" /\ e.res = "ok"
       THEN [s1 EXCEPT !.readers = Upd(st.readers, e.r, ReaderRec(e.name, Detect(e.parts, e.ff, e.src), e.src,
                                                                   IF e.src = "bytes" THEN FileAt(st.files, e.name) ELSE NoFile))]
       ELSE IF e.op \in {"open", "open_net"} /\ e.r \in DOMAIN st.readers /\ e.res = "ok"
       THEN LET rd == st.readers[e.r]
                c  == Target(st, rd)
                o1 == IF e.op = "open" THEN e.ofp ELSE -1
                f1 == IF c \notin DOMAIN st.fp THEN Upd(st.fp, c, [n |-> e.nfp, o |-> o1])
                      ELSE IF st.fp[c].o < 0 /\ o1 >= 0 THEN Upd(st.fp, c, [n |-> st.fp[c].n, o |-> o1])
                      ELSE st.fp
            IN [s1 EXCEPT !.fp = f1,
                          !.readers = IF e.op = "open" THEN Upd(st.readers, e.r, [rd EXCEPT !.last = LastOpen(c, e.la)]) ELSE st.readers]
       ELSE s1

(* ---- laws of the contract operators (checked by TLC in MC_FileDispatch) ------------------- *)
(* the explicit format always wins; a detectable suffix never needs luck; something is always answered *)
LawOverrideWins(P)  == \A parts \in P : \A ff \in {"xml", "pb"} : \A src \in {"str", "path", "bytes"} : Detect(parts, ff, src) = {ff}
LawDetectTotal(P)   == \A parts \in P : \A ff \in {"none", "xml", "pb", "str"} : \A src \in {"str", "path", "bytes"} :
                          Detect(parts, ff, src) # {} /\ Detect(parts, ff, src) \subseteq {"err", "xml", "pb"}
(* a file written under the default name can be opened by the front-door reader without naming the format *)
LawDefaultReadable(sidParts) == \A fmt \in {"xml", "pb"} : Detect(Append(sidParts, fmt), "none", "str") = {fmt}
(* the user: "y" first replaces, "n" first skips, exactly one prompt; no queue ever makes a write mandatory *)
(* unless it holds a "y"; the file can only be replaced by an answer in {"y"} + YesLike                      *)
LawAsk(A) == \A ans \in A :
               /\ Ask(ans, 1) # {}
               /\ (ans # <<>> /\ ans[1] = "y") => Ask(ans, 1) = {[a |-> "write", p |-> 1]}
               /\ (ans # <<>> /\ ans[1] = "n") => Ask(ans, 1) = {[a |-> "skip", p |-> 1]}
               /\ (\A i \in DOMAIN ans : ans[i] \notin {"y"} \cup YesLike) => \A o \in Ask(ans, 1) : o.a # "write"
               /\ \A o \in Ask(ans, 1) : o.p >= 1 /\ o.p <= Len(ans) + 1
LawModes(A) == \A ans \in A : /\ Outcomes("always", TRUE, ans) = {[a |-> "write", p |-> 0]}
                              /\ Outcomes("skip", TRUE, ans) = {[a |-> "skip", p |-> 0]}
                              /\ \A m \in {"always", "skip", "ask"} : Outcomes(m, FALSE, ans) = {[a |-> "write", p |-> 0]}
(* constructor: what is accepted always has a winner from the two sources for the four asserted fields *)
LawCtor(a, s) == CtorOk(a, s) => \A f \in 1..4 : Winner(a[f], s[f]) \in {"arg", "scn"}
=================================================================================
