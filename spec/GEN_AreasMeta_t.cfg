\* thorough tier
SPECIFICATION Spec
CONSTANTS
  Domains = {"refs", "move", "scen", "meta", "sid", "setter"}
  NL = 2
  WellFormedInputs = FALSE
  MaxMoves = 2
  MaxGen = 3
  MaxTo2d = 2
  DtToks = {"float", "int", "str", "bool", "nan"}
  PlainToks = {"None", "v1", "bad"}
  MetaPlain = {"author", "tags"}
  DEV_RemoveAreaKeepsRefs = TRUE
  DEV_CleanupSkipsBorders = TRUE
  DEV_MoveSkipsAreas = TRUE
  DEV_GenIgnoresAreas = TRUE
  DEV_AddAreaOverwrites = FALSE
  DEV_CutSharesAreas = FALSE
  DEV_SharedDefaultId = TRUE
  DEV_ZeroIdAsOne = TRUE
  DEV_SetterNoCheck = FALSE
VIEW View
ACTION_CONSTRAINT EmitEdge
INVARIANT EmitCase
