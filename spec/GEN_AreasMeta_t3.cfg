\* thorough tier: the reference domain over three lanelets
SPECIFICATION Spec
CONSTANTS
  Domains = {"refs"}
  NL = 3
  WellFormedInputs = FALSE
  MaxMoves = 2
  MaxGen = 3
  MaxTo2d = 2
  DtToks = {"float", "int", "npfloat", "str", "None", "bool", "nan", "neg"}
  PlainToks = {"None", "v1", "v2", "bad"}
  MetaPlain = {"author", "tags", "location"}
  DEV_RemoveAreaKeepsRefs = TRUE
  DEV_CleanupSkipsBorders = TRUE
  DEV_MoveSkipsAreas = TRUE
  DEV_GenIgnoresAreas = TRUE
  DEV_AddAreaOverwrites = FALSE
  DEV_CutSharesAreas = FALSE
  DEV_SharedDefaultId = TRUE
  DEV_ZeroIdAsOne = TRUE
  DEV_SetterNoCheck = FALSE
VIEW View
ACTION_CONSTRAINT EmitEdge
INVARIANT EmitCase
