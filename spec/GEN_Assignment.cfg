SPECIFICATION Spec
CONSTANTS
  MaxSteps = 5
  DEV_StaticRegistersCenter = FALSE
ACTION_CONSTRAINT Emit
