SPECIFICATION Spec
CONSTANTS
  MaxSteps = 5
  DEV_StaticRegistersCenter = FALSE
  DEV_ReassignKeepsOld = FALSE
  DEV_RemoveNeedsLanelets = FALSE
  DEV_ForgetsCentre = FALSE
  DEV_NetMoveKeepsIndex = FALSE
ACTION_CONSTRAINT Emit
