SPECIFICATION Spec
CONSTANTS
  MaxSteps = 3
  DEV_NoInvalidateOnPredictionTR = FALSE
  DEV_NoReindexOnNetworkTR = FALSE
  DEV_NoInvalidateCycle = FALSE
  DEV_MergeRebuildOnlyIfAll = FALSE
  DEV_SetterSkipsSameObject = FALSE
VIEW View
ACTION_CONSTRAINT Emit
