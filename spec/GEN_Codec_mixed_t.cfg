SPECIFICATION Spec
CONSTANTS
  Component = "mixed"
  Precisions = {1, 2, 3, 4, 5, 6, 7, 8, 9, 10, 11, 12}
  NMixed = 15000
  NShards = 1
  DEV_XmlDropsHorn = FALSE
  DEV_ReaderStopsAtFirstUnset = FALSE
INVARIANT Emit
