SPECIFICATION Spec
CONSTANTS
  Component = "mixedx"
  Precisions = {1, 4, 8, 12}
  NMixed = 1500
  NShards = 1
  DEV_XmlDropsHorn = FALSE
  DEV_ReaderStopsAtFirstUnset = FALSE
INVARIANT Emit
