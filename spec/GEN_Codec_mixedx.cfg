SPECIFICATION Spec
CONSTANTS
  Component = "mixedx"
  Precisions = {1, 4, 8, 12}
  NMixed = 1500
INVARIANT Emit
