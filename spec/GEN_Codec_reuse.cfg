SPECIFICATION Spec
CONSTANTS
  Component = "reuse"
  Precisions = {1, 4, 8, 12}
  NMixed = 0
  NShards = 1
  DEV_XmlDropsHorn = FALSE
  DEV_ReaderStopsAtFirstUnset = FALSE
INVARIANT Emit
