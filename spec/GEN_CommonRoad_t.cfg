SPECIFICATION Spec
CONSTANTS
  HistBand = TRUE
  StrictReassign = FALSE
  MaxSteps = 2
  Rich = TRUE
  Acts = {"tr", "assign", "add_obstacle", "remove_obstacle", "gen", "gen_add", "add_lanelet", "remove_lanelet", "add_sign", "add_light", "remove_sign", "remove_light", "replace", "erase", "cutout", "merge", "update_initial_state", "update_prediction", "set_cycle", "set_offset", "file", "copy", "occ", "check_orig", "find_pos", "find_shape", "state", "light", "by_box", "states_at", "occs_at", "goal"}
  DEV_ReadDropsRegistries = FALSE
  DEV_NetworkTRKeepsIndex = FALSE
  DEV_ReplaceLeaksIds = FALSE
  DEV_CopySharesOccCache = FALSE
  DEV_ReassignKeepsStale = FALSE
  DEV_MergeStopsAtDuplicate = FALSE
  DEV_RemoveNeedsLanelets = FALSE
VIEW View
ACTION_CONSTRAINT EmitEdge
