\* graph of the SHIPPED behaviour (DEV_GapAppendPositional = TRUE): the walks reach trajectories with gap appends
SPECIFICATION Spec
CONSTANTS
  Domains = {"pps", "traj", "pred", "res"}
  NIds = 3
  NTags = 2
  MaxList = 2
  TValMax = 3
  T0Max = 1
  MaxTLen = 4
  QMax = 5
  OccMax = 3
  MaxOccs = 3
  RNumMax = 4
  RQs = {1, 2, 4, 10}
  RPMax = 3
  RTMax = 3
  DEV_AddOverwrites = FALSE
  DEV_GapAppendPositional = TRUE
  DEV_FinalPyMax = FALSE
VIEW View
ACTION_CONSTRAINT EmitEdge
INVARIANT EmitCase
