\* labelled graph of the SHIPPED behaviour (the deviation constants marked SHIPPED are TRUE): the walks visit the states the real objects reach
SPECIFICATION Spec
CONSTANTS
  ClassTable <- MiniTable
  Base = {"time_begin"}
  DefTok = "D"
  Domains = {"tree", "life", "sign", "focus"}
  TNames = {"A", "B"}
  NewClasses = {"MPDrawParams", "InitialStateParams", "StateParams", "ArrowParams"}
  MaxOid = 8
  TbToks = {"7"}
  TbSteps = {0, 1, 2}
  PTbSteps = {1}
  DEV_SharedDefaults = FALSE
  DEV_NoCtorPropagation = FALSE
  DEV_SetItemSilent = TRUE
  DEV_LoadParentWins = TRUE
  DEV_LoadValidatesRoot = TRUE
  DEV_SignParamsGlobal = TRUE
  DEV_FocusTruncates = TRUE
  DEV_CenterFromTrajectory = TRUE
  DEV_SetNoneIgnored = TRUE
  DEV_TrajsRecolour = TRUE
  DEV_PerCallLeaks = FALSE
  DEV_RenderKeepsDynamic = FALSE
VIEW View
CONSTRAINT GenSmall
ACTION_CONSTRAINT EmitEdge
