SPECIFICATION Spec
CONSTANTS
  MaxDepth = 1
  MutDepth = 0
  DEV_StaleKeyOnMove = FALSE
INVARIANT Emit
