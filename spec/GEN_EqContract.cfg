SPECIFICATION Spec
CONSTANTS
  MaxDepth = 1
  MutDepth = 0
  DEV_StaleKeyOnMove = FALSE
  DEV_EqSeesDerived = FALSE
INVARIANT Emit
