SPECIFICATION Spec
CONSTANTS
  MaxDepth = 1
INVARIANT Emit
