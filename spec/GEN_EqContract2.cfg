SPECIFICATION Spec
CONSTANTS
  MaxDepth = 2
INVARIANT Emit
