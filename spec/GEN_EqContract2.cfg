SPECIFICATION Spec
CONSTANTS
  MaxDepth = 2
  MutDepth = 1
  DEV_StaleKeyOnMove = FALSE
INVARIANT Emit
