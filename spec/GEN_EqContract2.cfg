SPECIFICATION Spec
CONSTANTS
  MaxDepth = 2
  MutDepth = 1
  DEV_StaleKeyOnMove = FALSE
  DEV_EqSeesDerived = FALSE
INVARIANT Emit
