\* labelled graph of the SHIPPED behaviour (the four SHIPPED deviation constants TRUE) + the two tables
SPECIFICATION Spec
CONSTANTS
  Domains = {"write", "read", "ctor", "detect"}
  WPaths = {"", "a.xml", "a.pb", "nodir/a.xml", "dir"}
  WDirs = {"nodir/a.xml"}
  AnsLevel = 1
  MaxWriters = 2
  WSteps = 3
  WHs = {"both"}
  RNames = {"a.xml", "a.pb"}
  RFmts = {"xml", "pb", "xml18", "garb"}
  RVs = {1}
  MaxReaders = 1
  RSteps = 4
  DEV_AnyButNReplaces = TRUE
  DEV_ValidityIgnored = TRUE
  DEV_ScenarioNoSuffix = TRUE
  DEV_NetDrops2018bSpeed = TRUE
  DEV_SuffixDecidesFormat = FALSE
  DEV_ReaderCaches = FALSE
  DEV_SuffixBeatsOverride = FALSE
  DEV_SkipTruncates = FALSE
  DEV_ScenarioWins = FALSE
VIEW View
ACTION_CONSTRAINT EmitEdge
INVARIANT EmitCase
