\* labelled graph of the SHIPPED behaviour (the four SHIPPED deviation constants TRUE) + (second graph: one reader, one name, the file is replaced / removed between opens)
SPECIFICATION Spec
CONSTANTS
  Domains = {"read"}
  WPaths = {"", "a.xml", "a.pb", "nodir/a.xml", "dir"}
  WDirs = {"nodir/a.xml"}
  AnsLevel = 1
  MaxWriters = 2
  WSteps = 3
  WHs = {"both"}
  RNames = {"a.xml"}
  RFmts = {"xml", "pb"}
  RVs = {1, 2}
  MaxReaders = 1
  RSteps = 5
  DEV_AnyButNReplaces = TRUE
  DEV_ValidityIgnored = TRUE
  DEV_ScenarioNoSuffix = TRUE
  DEV_NetDrops2018bSpeed = TRUE
  DEV_SuffixDecidesFormat = FALSE
  DEV_ReaderCaches = FALSE
  DEV_SuffixBeatsOverride = FALSE
  DEV_SkipTruncates = FALSE
  DEV_ScenarioWins = FALSE
VIEW View
ACTION_CONSTRAINT EmitEdge
INVARIANT EmitCase
