\* labelled graph of the SHIPPED behaviour (the four SHIPPED deviation constants TRUE) + (third graph: two writers, two names, four steps, the richer answer queues)
SPECIFICATION Spec
CONSTANTS
  Domains = {"write"}
  WPaths = {"", "a.xml"}
  WDirs = {"nodir/a.xml"}
  AnsLevel = 2
  MaxWriters = 2
  WSteps = 4
  WHs = {"both"}
  RNames = {"a.xml", "a.pb"}
  RFmts = {"xml", "pb", "xml18", "garb"}
  RVs = {1}
  MaxReaders = 1
  RSteps = 4
  DEV_AnyButNReplaces = TRUE
  DEV_ValidityIgnored = TRUE
  DEV_ScenarioNoSuffix = TRUE
  DEV_NetDrops2018bSpeed = TRUE
  DEV_SuffixDecidesFormat = FALSE
  DEV_ReaderCaches = FALSE
  DEV_SuffixBeatsOverride = FALSE
  DEV_SkipTruncates = FALSE
  DEV_ScenarioWins = FALSE
VIEW View
ACTION_CONSTRAINT EmitEdge
INVARIANT EmitCase
