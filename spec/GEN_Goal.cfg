SPECIFICATION Spec
CONSTANTS
  Gen = TRUE
  Big = FALSE
INVARIANT Emit
