SPECIFICATION Spec
CONSTANTS
  Gen = TRUE
  Big = TRUE
INVARIANT Emit
