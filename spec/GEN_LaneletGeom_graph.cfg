SPECIFICATION Spec
CONSTANTS
  Steps <- StepsQ1
  MaxSegs = 4
  MergeSegs = 2
  Lens = {1, 2}
  Ranges = {1, 2, 3, 5, 100}
  Den = 60
  N = 3
  Starts = {1, 2, 3}
  Modes = {"route"}
  Units = {1, 2, 5, 10}
  Dtypes = {"f64", "i64", "i32", "f32", "fortran", "sliced", "isliced"}
  MaxMut = 2
  DEV_SetterKeepsDistance = FALSE
  DEV_NoLoopGuard = FALSE
INVARIANT Emit
