SPECIFICATION Spec
CONSTANTS
  NL = 3
  Kind = "base"
  Depth = 2
  DEV_StopLineRefsKept = FALSE
  DEV_HangingRemovesShared = FALSE
  DEV_AdjacencyKept = FALSE
INVARIANT Emit
