SPECIFICATION Spec
CONSTANTS
  Scale = 1
  TMax = 7
INVARIANT Emit
