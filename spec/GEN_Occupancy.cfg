SPECIFICATION Spec
CONSTANTS
  Scale = 1
  TMax = 8
INVARIANT Emit
