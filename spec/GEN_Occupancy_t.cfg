SPECIFICATION Spec
CONSTANTS
  Scale = 2
  TMax = 7
INVARIANT Emit
