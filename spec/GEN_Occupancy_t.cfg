SPECIFICATION Spec
CONSTANTS
  Scale = 2
  TMax = 8
INVARIANT Emit
