SPECIFICATION Spec
CONSTANTS
  StepsA <- StepsQ1
  StepsX <- StepsAll
  MaxSegs = 3
  PairSegs = 2
  MaxN = 6
  Dists <- DistsQ
  Origins <- Origins2
  Ids = {1, 2, 3}
  RefIds = {11, 12}
  Modes = {"poly", "pair", "link", "find", "refs", "inc", "prox", "orient"}
INVARIANT Emit
