SPECIFICATION Spec
CONSTANTS
  StepsA <- StepsQ1
  StepsX <- StepsAll4
  MaxSegs = 4
  PairSegs = 2
  MaxN = 8
  Dists <- DistsQ
  Origins <- Origins3
  Ids = {1, 2, 3}
  RefIds = {11, 12}
  Modes = {"poly", "pair", "link", "find", "refs", "inc", "prox", "orient"}
INVARIANT Emit
