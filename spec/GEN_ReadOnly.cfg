SPECIFICATION Spec
CONSTANTS
  MaxOps = 2
  ArchSize = 2
  DEV_OccAddsOrientation = FALSE
  DEV_PbWriteTouchesDefaultdict = FALSE
  DEV_NetworkCopyShallow = FALSE
INVARIANT Emit
