SPECIFICATION Spec
CONSTANTS
  MaxOps = 2
  ArchSize = 2
  DEV_OccAddsOrientation = FALSE
  DEV_PbWriteTouchesDefaultdict = FALSE
INVARIANT Emit
