SPECIFICATION Spec
CONSTANTS
  MaxOps = 2
  ArchSize = 3
  DEV_OccAddsOrientation = FALSE
  DEV_PbWriteTouchesDefaultdict = FALSE
  DEV_NetworkCopyShallow = FALSE
INVARIANT Emit
