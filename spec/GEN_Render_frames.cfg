SPECIFICATION Spec
CONSTANTS
  Mode = "frames"
  MCFields = {"time_begin"}
  MCValues = {"a"}
  MCSub = ""
  WithReplace = FALSE
  DEV_CachedSubParams = FALSE
  MaxSets = 0
  WMax = 6
  TMax = 8
INVARIANT EmitFrames
