SPECIFICATION Spec
CONSTANTS
  Mode = "total"
  MCFields = {"time_begin"}
  MCValues = {"a"}
  MCSub = ""
  MaxSets = 0
  WMax = 6
  TMax = 8
INVARIANT EmitTotal
