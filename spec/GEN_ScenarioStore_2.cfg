SPECIFICATION Spec
CONSTANTS
  DEV_ListRemoveInterKeepsIncoming = FALSE
  DEV_PartialIntersection = FALSE
  DEV_PartialNetwork = FALSE
  DEV_AddNetOnNonEmpty = FALSE
  DEV_HangingFreesNamedIds = FALSE
  MaxGen = 1
  Universe = {"XA","XB","OD","OE","LC","TA","SB"}
VIEW View
ACTION_CONSTRAINT Emit
