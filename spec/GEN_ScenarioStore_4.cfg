SPECIFICATION Spec
CONSTANTS
  DEV_ListRemoveInterKeepsIncoming = FALSE
  DEV_PartialIntersection = FALSE
  DEV_PartialNetwork = FALSE
  DEV_AddNetOnNonEmpty = FALSE
  DEV_HangingFreesNamedIds = FALSE
  MaxGen = 1
  Universe = {"LC","LD","SA","TA","OQ"}
VIEW View
ACTION_CONSTRAINT Emit
