SPECIFICATION Spec
CONSTANTS
  DEV_ReaderNoKST = FALSE
  MaxCoop = 3
INVARIANT Emit
