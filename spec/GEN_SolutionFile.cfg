SPECIFICATION Spec
CONSTANTS
  DEV_NoTruncate = FALSE
  MaxWrites = 2
INVARIANT Emit
