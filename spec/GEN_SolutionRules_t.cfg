\* labelled graph of the SHIPPED behaviour (the four shipped deviation constants TRUE): walks reach what the real code reaches
SPECIFICATION Spec
CONSTANTS
  Domains = {"tab", "pps", "sol", "fs"}
  PModels = {"PM", "ST", "KS", "MB", "KST"}
  PCosts = {"JB1", "SA1", "WX1"}
  PVTypes = {"FORD_ESCORT", "VW_VANAGON", "TRUCK"}
  PShapes = {"PM", "ST", "KS", "KST", "MB", "Input", "PMInput", "STD", "KSA", "PMA", "KSI", "EPM", "INIT", "KSpart"}
  PIds = {1, 2}
  MaxItems = 2
  CtSet = {"None", "posint", "posfloat", "npfloat", "npint", "zero", "zerof", "neg", "negf", "text", "nan", "inf", "bool"}
  FDirs = {"root", "rootsl", "sub", "default", "dot", "emptystr", "missing", "nested", "file"}
  FFiles = {"None", "a", "old", "subdir"}
  MaxWrites = 2
  DEV_StateTypeFirstSuperset = TRUE
  DEV_TrajSetterNoDesired = TRUE
  DEV_CostSetterUnchecked = FALSE
  DEV_PrettyFalseBytes = TRUE
  DEV_ReaderShipped = TRUE
VIEW View
ACTION_CONSTRAINT EmitEdge
INVARIANT EmitCase
