SPECIFICATION Spec
CONSTANTS
  Fams = {"lshape", "para"}
  MaxRoutes = 3
  PerClass = 4
  DEV_RemoveNoRebuild = FALSE
  DEV_MoveNoRebuild = FALSE
  DEV_CopyMisMaps = FALSE
  DEV_PickleNoRebuild = FALSE
  DEV_AddRebuildsFirst = FALSE
INVARIANT Emit
