SPECIFICATION Spec
CONSTANTS
  Fams = {"curved", "cross4"}
  MaxRoutes = 2
  PerClass = 4
  DEV_RemoveNoRebuild = FALSE
  DEV_MoveNoRebuild = FALSE
  DEV_CopyMisMaps = FALSE
  DEV_PickleNoRebuild = FALSE
  DEV_AddRebuildsFirst = FALSE
  DEV_DeferredRemoveKeepsPolygon = FALSE
  DEV_ForkSharesLanelets = FALSE
  ForkAll = FALSE
  DEV_DrawMovesVertices = FALSE
  DEV_RectKeepsExportedPolygon = FALSE
  ShapeHist = FALSE
  DEV_DiscHalfRadius = FALSE
INVARIANT Emit
