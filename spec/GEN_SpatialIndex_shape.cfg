SPECIFICATION Spec
CONSTANTS
  Fams = {"single"}
  MaxRoutes = 0
  PerClass = 1
  DEV_RemoveNoRebuild = FALSE
  DEV_MoveNoRebuild = FALSE
  DEV_CopyMisMaps = FALSE
  DEV_PickleNoRebuild = FALSE
  DEV_AddRebuildsFirst = FALSE
  DEV_DeferredRemoveKeepsPolygon = FALSE
  DEV_ForkSharesLanelets = FALSE
  ForkAll = FALSE
  DEV_DrawMovesVertices = FALSE
  DEV_RectKeepsExportedPolygon = FALSE
  ShapeHist = TRUE
  DEV_DiscHalfRadius = FALSE
INVARIANT EmitS
