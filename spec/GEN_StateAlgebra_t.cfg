SPECIFICATION Spec
CONSTANTS
  Domains = {"so", "dv", "tj", "sg", "mi", "vd"}
  MCClasses = {"PMState", "KSState", "ExtendedPMState", "InputState", "CustomState", "LongitudinalState", "PMInputState"}
  WithInterval = TRUE
  ExtraOn = {"PMState", "InputState", "PMInputState"}
  PresetOn = {"PMState", "LongitudinalState"}
  GridMax = 24
  VdFns = {"is_real_number", "is_integer_number", "is_natural_number", "is_positive", "is_negative", "is_valid_length", "is_valid_orientation", "is_real_number_vector", "is_list_of_numbers", "is_in_interval", "is_valid_velocity", "is_valid_acceleration", "is_valid_polyline", "is_valid_array_of_vertices", "is_valid_list_of_vertices"}
  VdBig = TRUE
  DEV_ConvertKeepsExtra = FALSE
  DEV_FillOverwrites = FALSE
  DEV_FillTimeStepFloat = TRUE
  DEV_HasValueDerivedRaises = TRUE
  DEV_ComplexIsReal = FALSE
  DEV_ZeroDimRaises = FALSE
  DEV_BoolSignRaises = FALSE
  DEV_NonPositiveIsNegative = FALSE
VIEW View
\* graph of the SHIPPED behaviour (time_step default 0.0); the value-like domains only enumerate inputs
ACTION_CONSTRAINT EmitEdge
INVARIANT EmitCase
