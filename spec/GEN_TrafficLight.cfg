SPECIFICATION Spec
CONSTANTS
  MaxElems = 3
  MaxDur = 3
  MaxOff = 3
  Periods = 3
  Colors = {"red", "green", "yellow"}
INVARIANT Emit
