SPECIFICATION Spec
CONSTANTS
  MaxElems = 4
  MaxDur = 2
  MaxOff = 3
  Periods = 3
  Colors = {"red", "green", "yellow"}
INVARIANT Emit
