SPECIFICATION Spec
CONSTANTS
  Domains = {"tsi", "tsv", "el", "sg", "eq", "x", "p"}
  NL = 2
  NS = 2
  GCountry = "ZAMUNDA"
  GFams = {"GERMANY"}
  GVals <- V12b
  GMaxEls = 1
  VCountries = {"ZAMUNDA", "GERMANY", "USA", "SPAIN", "FRANCE", "ITALY", "AUSTRALIA"}
  VFams = {"GERMANY", "USA", "FRANCE"}
  VVals <- V120b
  VMaxEls = 2
  EVals = {1, 2}
  EMaxLen = 2
  QFams = {"GERMANY"}
  QVals = {1, 2, 3}
  QMaxLen = 2
  XIds <- XIdsM
  XLSets = {{}, {1}, {2}, {1, 2}}
  XDirs = {"r"}
  XMaxIncs = 2
  XLo = {}
  PTMax = 4
  PMaxObs = 3
  DEV_CountryFallback = FALSE
  DEV_StaleCache = FALSE
  DEV_SharedDefault = FALSE
  DEV_EqDictCollapse = FALSE
  DEV_MapNoneCrash = FALSE
  DEV_PredictCrash = FALSE
  DEV_SetterUnchecked = FALSE
  DEV_StaleOccupancy = FALSE
VIEW View
ACTION_CONSTRAINT EmitEdge
INVARIANT EmitCase
