SPECIFICATION Spec
CONSTANTS
  Full = FALSE
INVARIANT Emit
