SPECIFICATION Spec
CONSTANTS
  Full = TRUE
  DEV_SmallAngleLinearised = FALSE
  DEV_EnvironmentNotMoved = FALSE
INVARIANT Emit
