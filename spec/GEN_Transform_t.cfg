SPECIFICATION Spec
CONSTANTS
  Full = TRUE
INVARIANT Emit
