--------------------------------- MODULE Goal ---------------------------------
(* C08 - goal-region membership is decided correctly.                              *)
(*                                                                                 *)
(* Functional core, written from the statement (not from goal.py):                 *)
(*   a state reaches a goal region  iff  SOME goal state is satisfied in ALL the   *)
(*   attributes it constrains (time, position, orientation, velocity).             *)
(*                                                                                 *)
(* Abstract domains (all integers):                                                *)
(*   time        time steps, interval [lo, hi]                                     *)
(*   position    DOUBLED coordinates (X = 2x), so half-integer points are integers *)
(*               rect  <<X0, Y0, X1, Y1>>  axis-parallel, X0 < X1, Y0 < Y1         *)
(*               disc  centre <<CX, CY>>, radius RAD (doubled), squared distances   *)
(*               poly  <<<<X, Y>>, ...>>   simple polygon, either orientation       *)
(*               group / lanelets   sequence of rects (union)                      *)
(*   orientation grid k*pi/12, full turn = 24.  A goal interval is GIVEN as [a, b]  *)
(*               with a in -24..24, 0 <= b - a <= 23 (any length below 2pi).        *)
(*   velocity    integers, interval [lo, hi]                                       *)
(* Query state:  kinematic  [kind "ks", t, p, th, thint, v, vint]  (thint/vint = 1:  *)
(*               the value is handed over as a Python int; thint = 1 only for th=0) *)
(*               point-mass [kind "pm", t, p, vx, vy]: speed^2 = vx^2 + vy^2,       *)
(*               heading = atan2(vy, vx) = grid direction of (vx, vy).             *)
(* Verdicts are three-valued; "EITHER" marks the declared tolerance bands.         *)
EXTENDS Integers, Sequences, FiniteSets, TLC, Json

Verdict == {"T", "F", "EITHER"}
B3(b)   == IF b THEN "T" ELSE "F"
All3(S) == IF "F" \in S THEN "F" ELSE IF "EITHER" \in S THEN "EITHER" ELSE "T"      \* conjunction, All3({}) = "T"
Any3(S) == IF "T" \in S THEN "T" ELSE IF "EITHER" \in S THEN "EITHER" ELSE "F"      \* disjunction, Any3({}) = "F"
Rank(x) == CASE x = "F" -> 0 [] x = "EITHER" -> 1 [] x = "T" -> 2
Leq3(x, y)   == Rank(x) <= Rank(y)
Compat(x, y) == x = y \/ x = "EITHER" \/ y = "EITHER"

Min(a, b) == IF a <= b THEN a ELSE b
Max(a, b) == IF a <= b THEN b ELSE a

(* ------------------------------ constraints ------------------------------------ *)
NoC == [k |-> "none"]
Iv(lo, hi)    == [k |-> "iv", lo |-> lo, hi |-> hi]                \* time / velocity interval
Ang(a, b)     == [k |-> "ang", a |-> a, b |-> b]                   \* AngleInterval(a*pi/12, b*pi/12) as given
Rect(r)       == [k |-> "rect", r |-> r]
Disc(c, rad)  == [k |-> "disc", c |-> c, rad |-> rad]
Poly(v)       == [k |-> "poly", v |-> v]
Group(rs)     == [k |-> "group", rs |-> rs]                        \* ShapeGroup of rectangles
Lanelets(rs)  == [k |-> "lanelets", rs |-> rs]                     \* lanelet goal: rs[i] = area of the i-th referenced lanelet
GS(t, p, o, v) == [t |-> t, pos |-> p, ori |-> o, vel |-> v]       \* one goal state
KS(t, p, th, thint, v, vint) == [kind |-> "ks", t |-> t, p |-> p, th |-> th, thint |-> thint, v |-> v, vint |-> vint]
PM(t, p, vx, vy)             == [kind |-> "pm", t |-> t, p |-> p, vx |-> vx, vy |-> vy]

Attrs == {"time", "position", "orientation", "velocity"}
Con(g, a) == CASE a = "time" -> g.t [] a = "position" -> g.pos [] a = "orientation" -> g.ori [] a = "velocity" -> g.vel
Constrained(g) == {a \in Attrs : Con(g, a).k # "none"}

(* ------------------------------ exact lattice geometry (DESIGN A.4) ------------ *)
InRect(r, p) == r[1] <= p[1] /\ p[1] <= r[3] /\ r[2] <= p[2] /\ p[2] <= r[4]                 \* boundary included
InDisc(c, rad, p) == (p[1] - c[1]) * (p[1] - c[1]) + (p[2] - c[2]) * (p[2] - c[2]) <= rad * rad
Nxt(P, i)      == P[(i % Len(P)) + 1]
Cross(a, b, p) == (b[1] - a[1]) * (p[2] - a[2]) - (b[2] - a[2]) * (p[1] - a[1])
OnSeg(a, b, p) == /\ Cross(a, b, p) = 0
                  /\ Min(a[1], b[1]) <= p[1] /\ p[1] <= Max(a[1], b[1])
                  /\ Min(a[2], b[2]) <= p[2] /\ p[2] <= Max(a[2], b[2])
Crosses(a, b, p) == /\ (a[2] > p[2]) # (b[2] > p[2])
                    /\ LET d == b[2] - a[2]  lhs == (p[1] - a[1]) * d  rhs == (b[1] - a[1]) * (p[2] - a[2])
                       IN IF d > 0 THEN lhs < rhs ELSE lhs > rhs
InPoly(P, p) == \/ \E i \in 1..Len(P) : OnSeg(P[i], Nxt(P, i), p)                              \* boundary included
                \/ Cardinality({i \in 1..Len(P) : Crosses(P[i], Nxt(P, i), p)}) % 2 = 1       \* crossing number
InRegion(c, p) == CASE c.k = "rect" -> InRect(c.r, p)
                    [] c.k = "disc" -> InDisc(c.c, c.rad, p)       \* Circle.contains_point is exact on this data: no band
                    [] c.k = "poly" -> InPoly(c.v, p)
                    [] c.k \in {"group", "lanelets"} -> \E i \in 1..Len(c.rs) : InRect(c.rs[i], p)

(* ------------------------------ angles on the pi/12 grid ----------------------- *)
Turn == 24
AngleIn(a, b, th)  == ((th - a) % Turn) <= b - a                                  \* closed form of membership mod 2pi
AngleLit(a, b, th) == \E j \in -3..3 : a <= th + Turn * j /\ th + Turn * j <= b   \* the definition (j in -2..2 suffices for |th| <= 24)
Shifted(a, b)      == b > Turn              \* the constructor stores such an interval one full turn lower: new floats
OnEnd(a, b, th)    == (th - a) % Turn = 0 \/ (th - b) % Turn = 0
ExactEnd(a, b, th) == ~Shifted(a, b) /\ (th = a \/ th = b)                        \* the very same float as a stored end point
(* k*pi/12 is not representable: an orientation ON an end point after a non-zero number of full turns is a band case. *)
SatAngle(a, b, th) == IF OnEnd(a, b, th) /\ ~ExactEnd(a, b, th) THEN "EITHER" ELSE B3(AngleIn(a, b, th))

(* ------------------------------ point-mass states ------------------------------ *)
Dirs == <<[d |-> <<1, 0>>, h |-> 0, n |-> "E"], [d |-> <<1, 1>>, h |-> 3, n |-> "NE"], [d |-> <<0, 1>>, h |-> 6, n |-> "N"],
          [d |-> <<-1, 1>>, h |-> 9, n |-> "NW"], [d |-> <<-1, 0>>, h |-> 12, n |-> "W"], [d |-> <<-1, -1>>, h |-> -9, n |-> "SW"],
          [d |-> <<0, -1>>, h |-> -6, n |-> "S"], [d |-> <<1, -1>>, h |-> -3, n |-> "SE"]>>
Sgn(x) == IF x > 0 THEN 1 ELSE IF x < 0 THEN -1 ELSE 0
Abs(x) == IF x < 0 THEN -x ELSE x
DirOf(vx, vy)   == {i \in 1..Len(Dirs) : /\ Sgn(vx) = Dirs[i].d[1] /\ Sgn(vy) = Dirs[i].d[2]
                                         /\ (vx # 0 /\ vy # 0) => Abs(vx) = Abs(vy)}       \* (vx, vy) = m * d, m > 0
IsCompass(vx, vy) == (vx = 0 /\ vy = 0) \/ DirOf(vx, vy) # {}
Heading(vx, vy) == IF vx = 0 /\ vy = 0 THEN 0 ELSE Dirs[CHOOSE i \in DirOf(vx, vy) : TRUE].h        \* atan2(0, 0) = 0
Speed2(s)       == s.vx * s.vx + s.vy * s.vy
Theta(s)        == IF s.kind = "pm" THEN Heading(s.vx, s.vy) ELSE s.th

(* ------------------------------ satisfaction ----------------------------------- *)
SatVel(c, s) == IF s.kind = "pm"
                THEN B3((c.lo <= 0 \/ c.lo * c.lo <= Speed2(s)) /\ (c.hi >= 0 /\ Speed2(s) <= c.hi * c.hi))  \* lo <= hypot <= hi
                ELSE B3(c.lo <= s.v /\ s.v <= c.hi)
Sat(a, g, s) == LET c == Con(g, a) IN
                IF c.k = "none" THEN "T"
                ELSE CASE a = "time"        -> B3(c.lo <= s.t /\ s.t <= c.hi)
                       [] a = "position"    -> B3(InRegion(c, s.p))
                       [] a = "orientation" -> SatAngle(c.a, c.b, Theta(s))
                       [] a = "velocity"    -> SatVel(c, s)
SatGS(g, s)      == All3({Sat(a, g, s) : a \in Attrs})
Reached(goal, s) == Any3({SatGS(goal[i], s) : i \in DOMAIN goal})
(* the same with attribute m declared undecided: used only to NAME the attribute that decides a wrong verdict *)
SatGSM(g, s, m)      == All3({IF a = m /\ Con(g, a).k # "none" THEN "EITHER" ELSE Sat(a, g, s) : a \in Attrs})
ReachedM(goal, s, m) == Any3({SatGSM(goal[i], s, m) : i \in DOMAIN goal})
Deciders(goal, s)    == {m \in Attrs : ReachedM(goal, s, m) = "EITHER"}
Decider(goal, s) == LET D == Deciders(goal, s)  D2 == D \ {"time"} IN     \* tie-break: time is the mandatory, plain integer test
                    IF Cardinality(D) = 1 THEN CHOOSE m \in D : TRUE
                    ELSE IF Cardinality(D2) = 1 THEN CHOOSE m \in D2 : TRUE ELSE ""

GoalReachedV(goal, traj)  == Any3({Reached(goal, traj[i]) : i \in DOMAIN traj})
IndexOk(goal, traj, idx)  == idx \in 0..Len(traj) - 1 /\ Reached(goal, traj[idx + 1]) # "F"     \* 0-based index of a reaching state

(* ------------------------------ admissible inputs (statement's quantifier) ------ *)
AdmIv(c)  == c.k = "none" \/ (c.k = "iv" /\ c.lo <= c.hi)
AdmAng(c) == c.k = "none" \/ (c.k = "ang" /\ c.a \in -Turn..Turn /\ c.b - c.a \in 0..Turn - 1)
AdmRect(r) == r[1] < r[3] /\ r[2] < r[4]
AdmPos(c) == CASE c.k = "none" -> TRUE
               [] c.k = "rect" -> AdmRect(c.r)
               [] c.k = "disc" -> c.rad > 0
               [] c.k = "poly" -> Len(c.v) >= 3
               [] c.k \in {"group", "lanelets"} -> Len(c.rs) >= 1 /\ \A i \in 1..Len(c.rs) : AdmRect(c.rs[i])
               [] OTHER -> FALSE
AdmGS(g)  == g.t.k = "iv" /\ AdmIv(g.t) /\ AdmPos(g.pos) /\ AdmAng(g.ori) /\ AdmIv(g.vel)   \* time_step is mandatory in the library
AdmState(goal, s) == /\ s.t >= 0
                     /\ s.kind = "ks" => (s.thint = 1 => s.th = 0)
                     /\ s.kind = "pm" => ((\E i \in DOMAIN goal : goal[i].ori.k # "none") => IsCompass(s.vx, s.vy))
Admissible(goal, s) == Len(goal) >= 1 /\ (\A i \in DOMAIN goal : AdmGS(goal[i])) /\ AdmState(goal, s)

(* ------------------------------ laws (checked by TLC in MC_Goal) ---------------- *)
LawNoConstraint(s)    == Reached(<<GS(NoC, NoC, NoC, NoC)>>, s) = "T"              \* nothing constrained: always reached
LawAngleClosed(a, b, th) == AngleIn(a, b, th) <=> AngleLit(a, b, th)
LawAngleTurn(a, b, th)   == AngleIn(a, b, th + Turn) <=> AngleIn(a, b, th)
LawBandOnlyOnEnds(goal, s) == Reached(goal, s) = "EITHER" =>
                                \E i \in DOMAIN goal : goal[i].ori.k = "ang" /\ OnEnd(goal[i].ori.a, goal[i].ori.b, Theta(s))
LawHeading == \A i \in 1..Len(Dirs) : \A m \in 1..2 :
                 LET v == Dirs[i].d IN Heading(m * v[1], m * v[2]) = Dirs[i].h /\ IsCompass(m * v[1], m * v[2])
=================================================================================
