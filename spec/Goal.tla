--------------------------------- MODULE Goal ---------------------------------
(* C08 - goal-region membership is decided correctly.                              *)
(*                                                                                 *)
(* Functional core, written from the statement (not from goal.py):                 *)
(*   a state reaches a goal region  iff  SOME goal state is satisfied in ALL the   *)
(*   attributes it constrains (time, position, orientation, velocity).             *)
(*                                                                                 *)
(* Abstract domains (all integers):                                                *)
(*   time        time steps, interval [lo, hi]                                     *)
(*   position    DOUBLED coordinates (X = 2x), so half-integer points are integers *)
(*               rect  <<X0, Y0, X1, Y1>>  axis-parallel, X0 < X1, Y0 < Y1         *)
(*               disc  centre <<CX, CY>>, radius RAD (doubled), squared distances   *)
(*               poly  <<<<X, Y>>, ...>>   simple polygon, either orientation       *)
(*               group / lanelets   sequence of rects (union)                      *)
(*               mgroup  ShapeGroup MIXING rects, discs, polygons and nested       *)
(*                       mgroups: ms = sequence of region descriptors (union)     *)
(*   orientation grid k*pi/12, full turn = 24.  A goal interval is GIVEN as [a, b]  *)
(*               with a in -24..24, 0 <= b - a <= 23 (any length below 2pi).        *)
(*   velocity    integers, interval [lo, hi]                                       *)
(* Query state:  kinematic  [kind "ks", t, p, th, thint, v, vint]  (thint/vint = 1:  *)
(*               the value is handed over as a Python int; thint = 1 only for th=0) *)
(*               point-mass [kind "pm", t, p, vx, vy]: speed^2 = vx^2 + vy^2,       *)
(*               heading = atan2(vy, vx) = grid direction of (vx, vy).             *)
(* Verdicts are three-valued; "EITHER" marks the declared tolerance bands.         *)
EXTENDS Integers, Sequences, FiniteSets, TLC, Json

Verdict == {"T", "F", "EITHER"}
B3(b)   == IF b THEN "T" ELSE "F"
All3(S) == IF "F" \in S THEN "F" ELSE IF "EITHER" \in S THEN "EITHER" ELSE "T"      \* conjunction, All3({}) = "T"
Any3(S) == IF "T" \in S THEN "T" ELSE IF "EITHER" \in S THEN "EITHER" ELSE "F"      \* disjunction, Any3({}) = "F"
Rank(x) == CASE x = "F" -> 0 [] x = "EITHER" -> 1 [] x = "T" -> 2
Leq3(x, y)   == Rank(x) <= Rank(y)
Compat(x, y) == x = y \/ x = "EITHER" \/ y = "EITHER"

Min(a, b) == IF a <= b THEN a ELSE b
Max(a, b) == IF a <= b THEN b ELSE a

(* ------------------------------ constraints ------------------------------------ *)
NoC == [k |-> "none"]
Iv(lo, hi)    == [k |-> "iv", lo |-> lo, hi |-> hi]                \* time / velocity interval
Ang(a, b)     == [k |-> "ang", a |-> a, b |-> b]                   \* AngleInterval(a*pi/12, b*pi/12) as given
Rect(r)       == [k |-> "rect", r |-> r]
Disc(c, rad)  == [k |-> "disc", c |-> c, rad |-> rad]
Poly(v)       == [k |-> "poly", v |-> v]
Group(rs)     == [k |-> "group", rs |-> rs]                        \* ShapeGroup of rectangles
MGroup(ms)    == [k |-> "mgroup", ms |-> ms]                       \* ShapeGroup of arbitrary member shapes (may nest)
Lanelets(rs)  == [k |-> "lanelets", rs |-> rs]                     \* lanelet goal: rs[i] = area of the i-th referenced lanelet
GS(t, p, o, v) == [t |-> t, pos |-> p, ori |-> o, vel |-> v]       \* one goal state
KS(t, p, th, thint, v, vint) == [kind |-> "ks", t |-> t, p |-> p, th |-> th, thint |-> thint, v |-> v, vint |-> vint]
PM(t, p, vx, vy)             == [kind |-> "pm", t |-> t, p |-> p, vx |-> vx, vy |-> vy]
(* The state CLASS does not matter, only which attributes a state STORES: a state that stores an orientation (kind "ks")   *)
(* is judged by it and by its stored velocity - also when it additionally stores or derives a lateral velocity `vy`        *)
(* (MBState, ExtendedPMState, a custom state with orientation + velocity + velocity_y).  Only a state WITHOUT a stored     *)
(* orientation but with velocity and velocity_y (kind "pm": PMState, custom state) is judged by atan2(vy, vx) and |v|.     *)
(* `cls` names the library class the driver has to build; no operator of this module reads it.                            *)
KSC(cls, t, p, th, v, vy) == [kind |-> "ks", t |-> t, p |-> p, th |-> th, thint |-> 0, v |-> v, vint |-> 0, cls |-> cls, vy |-> vy]
PMC(cls, t, p, vx, vy)    == [kind |-> "pm", t |-> t, p |-> p, vx |-> vx, vy |-> vy, cls |-> cls]
KsClasses == {"KSState", "STState", "ExtendedPMState", "MBState", "InitialState", "CustomOV", "CustomOVV"}
PmClasses == {"PMState", "CustomVV"}

Attrs == {"time", "position", "orientation", "velocity"}
Con(g, a) == CASE a = "time" -> g.t [] a = "position" -> g.pos [] a = "orientation" -> g.ori [] a = "velocity" -> g.vel
Constrained(g) == {a \in Attrs : Con(g, a).k # "none"}

(* ------------------------------ exact lattice geometry (DESIGN A.4) ------------ *)
InRect(r, p) == r[1] <= p[1] /\ p[1] <= r[3] /\ r[2] <= p[2] /\ p[2] <= r[4]                 \* boundary included
InDisc(c, rad, p) == (p[1] - c[1]) * (p[1] - c[1]) + (p[2] - c[2]) * (p[2] - c[2]) <= rad * rad
Nxt(P, i)      == P[(i % Len(P)) + 1]
Cross(a, b, p) == (b[1] - a[1]) * (p[2] - a[2]) - (b[2] - a[2]) * (p[1] - a[1])
OnSeg(a, b, p) == /\ Cross(a, b, p) = 0
                  /\ Min(a[1], b[1]) <= p[1] /\ p[1] <= Max(a[1], b[1])
                  /\ Min(a[2], b[2]) <= p[2] /\ p[2] <= Max(a[2], b[2])
Crosses(a, b, p) == /\ (a[2] > p[2]) # (b[2] > p[2])
                    /\ LET d == b[2] - a[2]  lhs == (p[1] - a[1]) * d  rhs == (b[1] - a[1]) * (p[2] - a[2])
                       IN IF d > 0 THEN lhs < rhs ELSE lhs > rhs
InPoly(P, p) == \/ \E i \in 1..Len(P) : OnSeg(P[i], Nxt(P, i), p)                              \* boundary included
                \/ Cardinality({i \in 1..Len(P) : Crosses(P[i], Nxt(P, i), p)}) % 2 = 1       \* crossing number
RECURSIVE InRegion(_, _)
InRegion(c, p) == CASE c.k = "rect" -> InRect(c.r, p)
                    [] c.k = "disc" -> InDisc(c.c, c.rad, p)       \* Circle.contains_point is exact on this data: no band
                    [] c.k = "poly" -> InPoly(c.v, p)
                    [] c.k \in {"group", "lanelets"} -> \E i \in 1..Len(c.rs) : InRect(c.rs[i], p)
                    [] c.k = "mgroup" -> \E i \in 1..Len(c.ms) : InRegion(c.ms[i], p)      \* union; a disc counts by its FULL radius
RECURSIVE Leaves(_)                                                                      \* the primitive members of a (nested) group
Leaves(c) == IF c.k = "mgroup" THEN UNION {Leaves(c.ms[i]) : i \in 1..Len(c.ms)} ELSE {c}

(* ------------------------------ angles on the pi/12 grid ----------------------- *)
Turn == 24
AngleIn(a, b, th)  == ((th - a) % Turn) <= b - a                                  \* closed form of membership mod 2pi
AngleLit(a, b, th) == \E j \in -3..3 : a <= th + Turn * j /\ th + Turn * j <= b   \* the definition (j in -2..2 suffices for |th| <= 24)
Shifted(a, b)      == b > Turn              \* the constructor stores such an interval one full turn lower: new floats
OnEnd(a, b, th)    == (th - a) % Turn = 0 \/ (th - b) % Turn = 0
ExactEnd(a, b, th) == ~Shifted(a, b) /\ (th = a \/ th = b)                        \* the very same float as a stored end point
(* k*pi/12 is not representable: an orientation ON an end point after a non-zero number of full turns is a band case. *)
SatAngle(a, b, th) == IF OnEnd(a, b, th) /\ ~ExactEnd(a, b, th) THEN "EITHER" ELSE B3(AngleIn(a, b, th))

(* ------------------------------ point-mass states ------------------------------ *)
Dirs == <<[d |-> <<1, 0>>, h |-> 0, n |-> "E"], [d |-> <<1, 1>>, h |-> 3, n |-> "NE"], [d |-> <<0, 1>>, h |-> 6, n |-> "N"],
          [d |-> <<-1, 1>>, h |-> 9, n |-> "NW"], [d |-> <<-1, 0>>, h |-> 12, n |-> "W"], [d |-> <<-1, -1>>, h |-> -9, n |-> "SW"],
          [d |-> <<0, -1>>, h |-> -6, n |-> "S"], [d |-> <<1, -1>>, h |-> -3, n |-> "SE"]>>
Sgn(x) == IF x > 0 THEN 1 ELSE IF x < 0 THEN -1 ELSE 0
Abs(x) == IF x < 0 THEN -x ELSE x
DirOf(vx, vy)   == {i \in 1..Len(Dirs) : /\ Sgn(vx) = Dirs[i].d[1] /\ Sgn(vy) = Dirs[i].d[2]
                                         /\ (vx # 0 /\ vy # 0) => Abs(vx) = Abs(vy)}       \* (vx, vy) = m * d, m > 0
IsCompass(vx, vy) == (vx = 0 /\ vy = 0) \/ DirOf(vx, vy) # {}
Heading(vx, vy) == IF vx = 0 /\ vy = 0 THEN 0 ELSE Dirs[CHOOSE i \in DirOf(vx, vy) : TRUE].h        \* atan2(0, 0) = 0
Speed2(s)       == s.vx * s.vx + s.vy * s.vy
Theta(s)        == IF s.kind = "pm" THEN Heading(s.vx, s.vy) ELSE s.th

(* ------------------------------ satisfaction ----------------------------------- *)
(* fz is a set of attributes whose floats carry noise.  {"pos", "ori"}: the goal was turned by a quarter turn q*pi/2 (q # 0) inside the library: its corner / centre / end-point *)
(* floats carry rounding noise (cos(pi/2) = 6e-17), so pure boundary contact and every interval end point is a band;   *)
(* interior and exterior points must still be decided.  fz = {}: everything is exact (see module header).               *)
(* {"ori"} alone: the goal went through a file (the angle end points were printed and parsed).                          *)
InRectOpen(r, p) == r[1] < p[1] /\ p[1] < r[3] /\ r[2] < p[2] /\ p[2] < r[4]
Dist2(c, p) == (p[1] - c[1]) * (p[1] - c[1]) + (p[2] - c[2]) * (p[2] - c[2])
RECURSIVE RegionFz(_, _)
RegionFz(c, p) == CASE c.k = "rect" -> IF InRectOpen(c.r, p) THEN "T" ELSE IF InRect(c.r, p) THEN "EITHER" ELSE "F"
                    [] c.k = "disc" -> IF Dist2(c.c, p) < c.rad * c.rad THEN "T" ELSE IF Dist2(c.c, p) = c.rad * c.rad THEN "EITHER" ELSE "F"
                    [] c.k = "poly" -> IF \E i \in 1..Len(c.v) : OnSeg(c.v[i], Nxt(c.v, i), p) THEN "EITHER" ELSE B3(InPoly(c.v, p))
                    [] c.k \in {"group", "lanelets"} ->
                         IF \E i \in 1..Len(c.rs) : InRectOpen(c.rs[i], p) THEN "T"
                         ELSE IF \E i \in 1..Len(c.rs) : InRect(c.rs[i], p) THEN "EITHER" ELSE "F"   \* also a shared edge: a gap may open
                    [] c.k = "mgroup" -> Any3({RegionFz(c.ms[i], p) : i \in 1..Len(c.ms)})
(* A state that stores BOTH an orientation and a velocity_y (MBState: body-frame lateral velocity; custom state with      *)
(* orientation + velocity + velocity_y) is neither a kinematic nor a point-mass state of the statement: for the            *)
(* orientation and velocity constraints BOTH readings are accepted - stored orientation / stored velocity, or               *)
(* atan2(vy, v) / hypot(v, vy) - i.e. the verdict is decided only where the two readings agree.  Time, position: exact.    *)
StoresVy(s) == s.kind = "ks" /\ "cls" \in DOMAIN s /\ s.cls \in {"MBState", "CustomOVV"}
Both(x, y)  == IF x = y THEN x ELSE "EITHER"
InSpeed2(c, q2) == B3((c.lo <= 0 \/ c.lo * c.lo <= q2) /\ (c.hi >= 0 /\ q2 <= c.hi * c.hi))                 \* lo <= sqrt(q2) <= hi
SatVel(c, s) == IF s.kind = "pm" THEN InSpeed2(c, Speed2(s))
                ELSE IF StoresVy(s) THEN Both(B3(c.lo <= s.v /\ s.v <= c.hi), InSpeed2(c, s.v * s.v + s.vy * s.vy))
                ELSE B3(c.lo <= s.v /\ s.v <= c.hi)
SatTheta(c, th, fz) == IF "ori" \in fz THEN (IF OnEnd(c.a, c.b, th) THEN "EITHER" ELSE B3(AngleIn(c.a, c.b, th)))
                       ELSE SatAngle(c.a, c.b, th)
SatOri(c, s, fz) == IF StoresVy(s)
                    THEN Both(SatTheta(c, s.th, fz), IF IsCompass(s.v, s.vy) THEN SatTheta(c, Heading(s.v, s.vy), fz) ELSE "EITHER")
                    ELSE SatTheta(c, Theta(s), fz)
SatF(a, g, s, fz) == LET c == Con(g, a) IN
                IF c.k = "none" THEN "T"
                ELSE CASE a = "time"        -> B3(c.lo <= s.t /\ s.t <= c.hi)
                       [] a = "position"    -> IF "pos" \in fz THEN RegionFz(c, s.p) ELSE B3(InRegion(c, s.p))
                       [] a = "orientation" -> SatOri(c, s, fz)
                       [] a = "velocity"    -> SatVel(c, s)
Sat(a, g, s)           == SatF(a, g, s, {})
SatGSF(g, s, fz)       == All3({SatF(a, g, s, fz) : a \in Attrs})
ReachedF(goal, s, fz)  == Any3({SatGSF(goal[i], s, fz) : i \in DOMAIN goal})
SatGS(g, s)            == SatGSF(g, s, {})
Reached(goal, s)       == ReachedF(goal, s, {})
(* the same with attribute m declared undecided: used only to NAME the attribute that decides a wrong verdict *)
SatGSM(g, s, m)      == All3({IF a = m /\ Con(g, a).k # "none" THEN "EITHER" ELSE Sat(a, g, s) : a \in Attrs})
ReachedM(goal, s, m) == Any3({SatGSM(goal[i], s, m) : i \in DOMAIN goal})
Deciders(goal, s)    == {m \in Attrs : ReachedM(goal, s, m) = "EITHER"}
Decider(goal, s) == LET D == Deciders(goal, s)  D2 == D \ {"time"} IN     \* tie-break: time is the mandatory, plain integer test
                    IF Cardinality(D) = 1 THEN CHOOSE m \in D : TRUE
                    ELSE IF Cardinality(D2) = 1 THEN CHOOSE m \in D2 : TRUE ELSE ""

GoalReachedVF(goal, traj, fz) == Any3({ReachedF(goal, traj[i], fz) : i \in DOMAIN traj})
IndexOkF(goal, traj, idx, fz) == idx \in 0..Len(traj) - 1 /\ ReachedF(goal, traj[idx + 1], fz) # "F"
GoalReachedV(goal, traj)  == GoalReachedVF(goal, traj, {})
IndexOk(goal, traj, idx)  == IndexOkF(goal, traj, idx, {})                                     \* 0-based index of a reaching state

(* ------------------------------ lattice rigid motions (translate_rotate) -------- *)
(* m = [t |-> <<TX, TY>> (doubled), q |-> quarter turns]:  p |-> R^q (p + t), "first translate, then rotate about the   *)
(* origin".  Exact on the lattice; orientations move by 6q grid steps.                                                  *)
RECURSIVE RotQ(_, _)
RotQ(q, p)   == IF q % 4 = 0 THEN p ELSE RotQ((q % 4) - 1, <<-p[2], p[1]>>)
Move(m, p)   == RotQ(m.q, <<p[1] + m.t[1], p[2] + m.t[2]>>)
MoveRect(m, r) == LET a == Move(m, <<r[1], r[2]>>)  b == Move(m, <<r[3], r[4]>>)
                  IN <<Min(a[1], b[1]), Min(a[2], b[2]), Max(a[1], b[1]), Max(a[2], b[2])>>       \* stays axis-parallel
RECURSIVE MoveRegion(_, _)
MoveRegion(m, c) == CASE c.k = "none" -> c
                      [] c.k = "rect" -> Rect(MoveRect(m, c.r))
                      [] c.k = "disc" -> Disc(Move(m, c.c), c.rad)
                      [] c.k = "poly" -> Poly([i \in 1..Len(c.v) |-> Move(m, c.v[i])])
                      [] c.k = "mgroup" -> MGroup([i \in 1..Len(c.ms) |-> MoveRegion(m, c.ms[i])])
                      [] c.k = "group" -> Group([i \in 1..Len(c.rs) |-> MoveRect(m, c.rs[i])])
                      [] c.k = "lanelets" -> Lanelets([i \in 1..Len(c.rs) |-> MoveRect(m, c.rs[i])])
MoveAng(m, c)  == IF c.k = "none" \/ m.q % 4 = 0 THEN c ELSE Ang(c.a + 6 * (m.q % 4), c.b + 6 * (m.q % 4))
MoveGS(m, g)   == GS(g.t, MoveRegion(m, g.pos), MoveAng(m, g.ori), g.vel)
MoveGoal(goal, m) == [i \in DOMAIN goal |-> MoveGS(m, goal[i])]
MoveState(s, m) == IF s.kind = "pm" THEN LET v == RotQ(m.q, <<s.vx, s.vy>>) IN PM(s.t, Move(m, s.p), v[1], v[2])
                   ELSE [s EXCEPT !.p = Move(m, s.p), !.th = IF s.thint = 1 THEN @ ELSE @ + 6 * (m.q % 4)]
Fz(m) == m.q % 4 # 0
FzOf(m) == IF Fz(m) THEN {"pos", "ori"} ELSE {}
MovedReached(goal, m, s)        == ReachedF(MoveGoal(goal, m), s, FzOf(m))       \* expected verdict after goal.translate_rotate(m)
MovedGoalReachedV(goal, m, tr)  == GoalReachedVF(MoveGoal(goal, m), tr, FzOf(m))
MovedIndexOk(goal, m, tr, idx)  == IndexOkF(MoveGoal(goal, m), tr, idx, FzOf(m))
AdmMove(m) == m.q \in -3..3

(* ------------------------------ goal read from a file, scenario / planning problems moved --------------------------- *)
(* hist = sequence of "scn" (Scenario.translate_rotate(m): the road network moves, the goal must NOT) and "pps"            *)
(* (PlanningProblemSet.translate_rotate(m): the goal moves).  The goal ends up moved once per "pps" step, in any order.   *)
RECURSIVE GoalAfter(_, _, _)
GoalAfter(goal, m, hist) == IF hist = <<>> THEN goal
                            ELSE GoalAfter(IF Head(hist) = "pps" THEN MoveGoal(goal, m) ELSE goal, m, Tail(hist))
Turned(m, hist)  == Fz(m) /\ \E i \in DOMAIN hist : hist[i] = "pps"
FileFz(m, hist)  == {"ori"} \cup (IF Turned(m, hist) THEN {"pos"} ELSE {})       \* positions are half-integers: exact in both formats
FileReached(goal, m, hist, s)            == ReachedF(GoalAfter(goal, m, hist), s, FileFz(m, hist))
FileGoalReachedV(goal, m, hist, tr)      == GoalReachedVF(GoalAfter(goal, m, hist), tr, FileFz(m, hist))
FileIndexOk(goal, m, hist, tr, idx)      == IndexOkF(GoalAfter(goal, m, hist), tr, idx, FileFz(m, hist))
AdmHist(hist) == \A i \in DOMAIN hist : hist[i] \in {"scn", "pps"}
LawFileOrder(goal, m) == /\ GoalAfter(goal, m, <<"scn">>) = goal /\ GoalAfter(goal, m, <<"scn", "scn">>) = goal
                         /\ GoalAfter(goal, m, <<"scn", "pps">>) = MoveGoal(goal, m)
                         /\ GoalAfter(goal, m, <<"pps", "scn">>) = MoveGoal(goal, m)
                         /\ GoalAfter(goal, m, <<"pps">>) = MoveGoal(goal, m)

(* ------------------------------ admissible inputs (statement's quantifier) ------ *)
AdmIv(c)  == c.k = "none" \/ (c.k = "iv" /\ c.lo <= c.hi)
AdmAng(c) == c.k = "none" \/ (c.k = "ang" /\ c.a \in -Turn..Turn /\ c.b - c.a \in 0..Turn - 1)
AdmRect(r) == r[1] < r[3] /\ r[2] < r[4]
RECURSIVE AdmPos(_)
AdmPos(c) == CASE c.k = "none" -> TRUE
               [] c.k = "rect" -> AdmRect(c.r)
               [] c.k = "disc" -> c.rad > 0
               [] c.k = "poly" -> Len(c.v) >= 3
               [] c.k = "mgroup" -> Len(c.ms) >= 1 /\ \A i \in 1..Len(c.ms) : c.ms[i].k \in {"rect", "disc", "poly", "mgroup"} /\ AdmPos(c.ms[i])
               [] c.k \in {"group", "lanelets"} -> Len(c.rs) >= 1 /\ \A i \in 1..Len(c.rs) : AdmRect(c.rs[i])
               [] OTHER -> FALSE
AdmGS(g)  == g.t.k = "iv" /\ AdmIv(g.t) /\ AdmPos(g.pos) /\ AdmAng(g.ori) /\ AdmIv(g.vel)   \* time_step is mandatory in the library
AdmState(goal, s) == /\ s.t >= 0
                     /\ s.kind = "ks" => (s.thint = 1 => s.th = 0)
                     /\ s.kind = "pm" => ((\E i \in DOMAIN goal : goal[i].ori.k # "none") => IsCompass(s.vx, s.vy))
Admissible(goal, s) == Len(goal) >= 1 /\ (\A i \in DOMAIN goal : AdmGS(goal[i])) /\ AdmState(goal, s)

(* ------------------------------ laws (checked by TLC in MC_Goal) ---------------- *)
LawNoConstraint(s)    == Reached(<<GS(NoC, NoC, NoC, NoC)>>, s) = "T"              \* nothing constrained: always reached
LawAngleClosed(a, b, th) == AngleIn(a, b, th) <=> AngleLit(a, b, th)
LawAngleTurn(a, b, th)   == AngleIn(a, b, th + Turn) <=> AngleIn(a, b, th)
LawBandOnlyOnEnds(goal, s) == Reached(goal, s) = "EITHER" =>
                                \/ (StoresVy(s) /\ \E i \in DOMAIN goal : goal[i].ori.k # "none" \/ goal[i].vel.k # "none")
                                \/ \E i \in DOMAIN goal : goal[i].ori.k = "ang" /\ OnEnd(goal[i].ori.a, goal[i].ori.b, Theta(s))
(* rigid motions preserve membership: moving goal and state together changes nothing (exactly for q = 0, up to bands else) *)
LawRigid(goal, s, m) == LET x == Reached(goal, s)  y == MovedReached(goal, m, MoveState(s, m)) IN
                        \/ (s.kind = "ks" /\ s.thint = 1 /\ Fz(m))                 \* the int 0 is not on the turned grid: excluded
                        \/ (s.kind = "pm" /\ s.vx = 0 /\ s.vy = 0 /\ Fz(m))        \* atan2(0, 0) = 0 does not turn either
                        \/ (Compat(x, y) /\ (~Fz(m) => x = y))
(* a (nested) group is the union of its primitive members; a group of rectangles can be written either way *)
LawFlatten(c, p)  == c.k = "mgroup" => (InRegion(c, p) <=> \E m \in Leaves(c) : InRegion(m, p))
LawGroupKind(c, p) == c.k = "group" => (InRegion(c, p) <=> InRegion(MGroup([i \in 1..Len(c.rs) |-> Rect(c.rs[i])]), p))
(* a DERIVED / unused lateral velocity never changes the verdict of a state that stores its orientation *)
LawStoredOrientation(goal, s) == (s.kind = "ks" /\ ~StoresVy(s)) => \A w \in {-2, 0, 3} : Reached(goal, s @@ [vy |-> w]) = Reached(goal, [vy |-> w] @@ s)
LawHeading == \A i \in 1..Len(Dirs) : \A m \in 1..2 :
                 LET v == Dirs[i].d IN Heading(m * v[1], m * v[2]) = Dirs[i].h /\ IsCompass(m * v[1], m * v[2])
=================================================================================
