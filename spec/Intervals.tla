-------------------------------- MODULE Intervals --------------------------------
(* C16 - Interval and AngleInterval behave as the closed sets they denote.           *)
(*                                                                                   *)
(* Functional core (no variables).  Written from the statement, not from the code:   *)
(* an interval IS the set of its points, every operation is described by the set it  *)
(* must produce.  Two finite grids make this exact:                                  *)
(*                                                                                   *)
(*  * plain intervals: end points k/4, k \in -K..K, represented by the numerator k.  *)
(*    Sums, differences, products and quotients by +-1/2, +-1, +-2 and decimal       *)
(*    roundings of such numbers are exact in binary floating point; their values are *)
(*    written in FINE units of 1/200 (= lcm of 1/8 and 1/100), Fine(k) = 50 k.       *)
(*  * angle intervals: start a*pi/12 (a \in -Turn..Turn, Turn = 24 steps = 2 pi) and *)
(*    length len*pi/12, len \in 0..Turn-1 (< 2 pi), represented by the integers      *)
(*    a, len.                                                                        *)
(*                                                                                   *)
(* Sets are sampled on the HALF grid (even index 2k = grid point k, odd index 2k+1 = *)
(* any point strictly inside the cell (k, k+1); because all end points are grid      *)
(* points, membership is constant on an open cell).  A query value is therefore a    *)
(* half-grid index; Half(v, ongrid) converts what the events carry.                  *)
(*                                                                                   *)
(* Closed-form operators Exp... are what the trace specification evaluates; the      *)
(* Law... operators (checked by TLC in MC_Intervals) state that they coincide with   *)
(* the literal set semantics given by the comprehensions below.                      *)
EXTENDS Integers, Sequences, FiniteSets, TLC, Json

CONSTANTS K,        \* plain end points: numerators -K..K of quarters
          Turn,     \* grid steps per full turn (24 <=> step pi/12)
          ThMax     \* query angles: grid indices -ThMax..ThMax

ASSUME K \in Nat /\ Turn \in Nat \ {0} /\ ThMax \in Nat
ASSUME (-7) \div 2 = -4 /\ (-7) % 2 = 1          \* floor division, as used below

B(p)   == IF p THEN "T" ELSE "F"
Min(S) == CHOOSE x \in S : \A y \in S : x <= y
Max(S) == CHOOSE x \in S : \A y \in S : y <= x
MaxOf(a, b) == IF a >= b THEN a ELSE b
MinOf(a, b) == IF a <= b THEN a ELSE b
Half(v, ongrid) == 2 * v + (1 - ongrid)          \* ongrid = 1: the grid point v; 0: strictly inside (v, v+1)

(* =============================== plain intervals =============================== *)
PVals      == -K..K
PIntervals == {I \in [s : PVals, e : PVals] : I.s <= I.e}
G          == 3 * K                               \* sets are compared on the stretch -G..G of the quarter grid
Grid       == -G..G
HGrid      == -(2 * G)..(2 * G)
Members(I) == {x \in Grid : I.s <= x /\ x <= I.e}                 \* the set denoted by I, at grid points
H(I)       == {p \in HGrid : 2 * I.s <= p /\ p <= 2 * I.e}        \* ... at grid points and cell interiors

Fine(k)    == 50 * k                              \* k/4 in units of 1/200
HFine(R)   == {p \in HGrid : R.s <= 25 * p /\ 25 * p <= R.e}     \* half-grid sample of an interval given in fine units

(* ---- queries (closed forms) ---- *)
ExpContains(I, h)         == B(2 * I.s <= h /\ h <= 2 * I.e)      \* h: half-grid index of the query value
ExpContainsInterval(I, J) == B(I.s <= J.s /\ J.e <= I.e)
ExpOverlaps(I, J)         == B(I.e >= J.s /\ J.e >= I.s)
Ok(s, e)  == [res |-> "ok", s |-> s, e |-> e]
NoneRes   == [res |-> "None", s |-> 0, e |-> 0]
ExpIntersection(I, J)     == IF I.e >= J.s /\ J.e >= I.s THEN Ok(Fine(MaxOf(I.s, J.s)), Fine(MinOf(I.e, J.e))) ELSE NoneRes

(* ---- operations: point maps (quarter numerator -> fine units) and closed-form results ---- *)
Scalars    == {[n |-> -2, d |-> 1], [n |-> -1, d |-> 1], [n |-> -1, d |-> 2],
               [n |-> 1, d |-> 2], [n |-> 1, d |-> 1], [n |-> 2, d |-> 1]}            \* -2, -1, -1/2, 1/2, 1, 2
Zero       == [n |-> 0, d |-> 1]
Rounds     == {"None", "0", "1", "2"}             \* round(I), round(I, 0), round(I, 1), round(I, 2)

MulPt(x, c) == (Fine(x) * c.n) \div c.d                                         \* exact: Fine(x) is even, d \in {1, 2}
DivPt(x, c) == IF c.n > 0 THEN (Fine(x) * c.d) \div c.n ELSE ((-Fine(x)) * c.d) \div (-c.n)   \* exact: |n| \in {1, 2}
RoundHalfEven(num, den) ==                        \* nearest integer to num/den (den > 0), ties to the even one
  LET q == num \div den  r == num % den
  IN IF 2 * r < den THEN q ELSE IF 2 * r > den THEN q + 1 ELSE IF q % 2 = 0 THEN q ELSE q + 1
Pow10(n)    == CASE n = "None" -> 1 [] n = "0" -> 1 [] n = "1" -> 10 [] n = "2" -> 100
RoundPt(x, n) == RoundHalfEven(x * Pow10(n), 4) * (200 \div Pow10(n))           \* x/4 rounded to n decimals

Apply(op, x) == CASE op.k = "add"   -> Fine(x + op.x)
                  [] op.k = "sub"   -> Fine(x - op.x)
                  [] op.k = "mul"   -> MulPt(x, op.c)
                  [] op.k = "div"   -> DivPt(x, op.c)
                  [] op.k = "round" -> RoundPt(x, op.n)

ExpAdd(I, x)   == Ok(Fine(I.s + x), Fine(I.e + x))
ExpSub(I, x)   == Ok(Fine(I.s - x), Fine(I.e - x))
ExpMul(I, c)   == IF c.n > 0 THEN Ok(MulPt(I.s, c), MulPt(I.e, c)) ELSE Ok(MulPt(I.e, c), MulPt(I.s, c))
ExpDiv(I, c)   == IF c.n > 0 THEN Ok(DivPt(I.s, c), DivPt(I.e, c)) ELSE Ok(DivPt(I.e, c), DivPt(I.s, c))
ExpRound(I, n) == Ok(RoundPt(I.s, n), RoundPt(I.e, n))
ExpOp(I, op)   == CASE op.k = "add" -> ExpAdd(I, op.x) [] op.k = "sub" -> ExpSub(I, op.x)
                    [] op.k = "mul" -> ExpMul(I, op.c) [] op.k = "div" -> ExpDiv(I, op.c)
                    [] op.k = "round" -> ExpRound(I, op.n)

AddOps   == {[k |-> "add", x |-> x] : x \in PVals}
SubOps   == {[k |-> "sub", x |-> x] : x \in PVals}
MulOps   == {[k |-> "mul", c |-> c] : c \in Scalars \cup {Zero}}
DivOps   == {[k |-> "div", c |-> c] : c \in Scalars}
RoundOps == {[k |-> "round", n |-> n] : n \in Rounds}

(* construction / end point assignment: [s, e] is an interval iff s <= e *)
ExpConstruct(s, e) == IF s <= e THEN Ok(Fine(s), Fine(e)) ELSE [res |-> "reject", s |-> 0, e |-> 0]

(* end point assignment through the public setters (I.start = x, I.end = x): the object then denotes the interval *)
(* with the NEW bounds - exactly what a fresh construction with those bounds gives; start > end is rejected       *)
ExpSetStart(I, x) == ExpConstruct(x, I.e)
ExpSetEnd(I, x)   == ExpConstruct(I.s, x)

(* ---- laws: the closed forms are the literal set semantics ---- *)
(* R (fine units) is the image of I under the point map of op: a closed set with start <= end whose end points are   *)
(* attained and which, on the image of the whole grid, has exactly the images of the members of I.                   *)
ImageOK(I, op, R) ==
  LET img == {Apply(op, x) : x \in Members(I)}
      tgt == {Apply(op, x) : x \in Grid}
  IN /\ R.res = "ok" /\ R.s <= R.e
     /\ R.s \in img /\ R.e \in img
     /\ {y \in tgt : R.s <= y /\ y <= R.e} = img
LawOps(I, ops)            == \A op \in ops : ImageOK(I, op, ExpOp(I, op))
LawContains(I)            == \A h \in HGrid : ExpContains(I, h) = B(h \in H(I))
LawContainsInterval(I)    == \A J \in PIntervals : ExpContainsInterval(I, J) = B(H(J) \subseteq H(I))
LawOverlaps(I)            == \A J \in PIntervals : ExpOverlaps(I, J) = B(H(I) \cap H(J) # {})
LawIntersection(I)        == \A J \in PIntervals :
                               LET X == H(I) \cap H(J)  R == ExpIntersection(I, J)
                               IN IF X = {} THEN R.res = "None" ELSE R.res = "ok" /\ R.s <= R.e /\ HFine(R) = X
LawSet(I)                 == \A x \in PVals :
                               LET R1 == ExpSetStart(I, x)  R2 == ExpSetEnd(I, x)
                               IN /\ IF x <= I.e THEN R1.res = "ok" /\ HFine(R1) = {p \in HGrid : 2 * x <= p /\ p <= 2 * I.e}
                                                  ELSE R1.res = "reject"
                                  /\ IF I.s <= x THEN R2.res = "ok" /\ HFine(R2) = {p \in HGrid : 2 * I.s <= p /\ p <= 2 * x}
                                                  ELSE R2.res = "reject"
LawConstruct              == \A s, e \in PVals : (ExpConstruct(s, e).res = "ok") <=> (\E I \in PIntervals : I.s = s /\ I.e = e)

(* =============================== angle intervals =============================== *)
AStarts    == -Turn..Turn
ALens      == 0..(Turn - 1)
AIntervals == [a : AStarts, len : ALens]
Wraps      == -4..4                               \* enough full turns for every index used here (checked: LawWraps)
T2         == 2 * Turn
Residues2  == 0..(T2 - 1)                         \* the circle on the half grid

(* the set of directions denoted by A: all th (mod 2 pi) with a <= th + 2 pi j <= a + len for some integer j *)
ASet(A)    == {p \in Residues2 : \E j \in Wraps : 2 * A.a <= p + T2 * j /\ p + T2 * j <= 2 * (A.a + A.len)}
ASetT      == TLCEval([A \in AIntervals |-> TLCEval(ASet(A))])     \* table, evaluated once (TLCEval: not lazily)

(* The class documents the domain [-2 pi, 2 pi]; outside of it the constructor re-bases both end points by 2 pi,     *)
(* which is not exact in floating point.  Only for intervals inside the domain are the stored end points the very   *)
(* floats that were passed in.                                                                                       *)
InDomain(A) == -Turn <= A.a /\ A.a + A.len <= Turn

(* membership of the query with half-grid index h: "T" / "F", or "EITHER" when h coincides with an end point only    *)
(* after a non-zero number of full turns (or a re-based end point): k*pi/12 +- 2 pi is not exact.                    *)
AOffset(A, h)      == (h - 2 * A.a) % T2                                          \* position of h on the circle, from the start of A
ExpAngleContains(A, h) ==
  LET d == AOffset(A, h)
  IN IF d > 2 * A.len THEN "F"
     ELSE IF d # 0 /\ d # 2 * A.len THEN "T"
     ELSE IF InDomain(A) /\ (h = 2 * A.a \/ h = 2 * (A.a + A.len)) THEN "T" ELSE "EITHER"

(* J is contained in A iff every direction of J is a direction of A.  Coinciding end points are exact only when they *)
(* are the same grid index and neither interval was re-based.                                                        *)
ExpAngleContainsInterval(A, J) ==
  LET d == (J.a - A.a) % Turn
      sameStart == InDomain(A) /\ InDomain(J) /\ J.a = A.a
      sameEnd   == InDomain(A) /\ InDomain(J) /\ J.a + J.len = A.a + A.len
  IN IF d + J.len > A.len THEN "F"
     ELSE IF (d = 0 => sameStart) /\ (d + J.len = A.len => sameEnd) THEN "T" ELSE "EITHER"

(* shifting by x grid steps: any representation of the rotated set (same length, start congruent modulo a turn) *)
AShiftOK(A, x, R) == R.len = A.len /\ (R.a - (A.a + x)) % Turn = 0
RECURSIVE Down(_, _), Up(_)
Down(s, len) == IF s + len > Turn THEN Down(s - Turn, len) ELSE s
Up(s)        == IF s < -Turn THEN Up(s + Turn) ELSE s
Rebase(s, len) == Up(Down(s, len))                \* one admissible representation inside the domain
ExpAngleShift(A, x) == [a |-> Rebase(A.a + x, A.len), len |-> A.len]

(* end point assignment on an angle interval [a, a+len] that lies inside the domain (so its stored end points are the   *)
(* floats passed in): new bounds x..y (absolute grid indices).  Admissible: inside the domain, and either inverted    *)
(* (must be rejected) or shorter than a full turn; the object then denotes the interval a fresh construction gives.   *)
AngleSetAdmissible(x, y) == -Turn <= x /\ x <= Turn /\ -Turn <= y /\ y <= Turn /\ (x > y \/ y - x < Turn)
ExpAngleSet(x, y) == IF x > y THEN [res |-> "reject", a |-> 0, len |-> 0] ELSE [res |-> "ok", a |-> x, len |-> y - x]
ExpAngleSetStart(A, x) == ExpAngleSet(x, A.a + A.len)
ExpAngleSetEnd(A, y)   == ExpAngleSet(A.a, y)

(* overlaps of two angle intervals: the statement does not say whether the inherited method compares the stored     *)
(* numbers or the sets of directions; both readings are accepted, touching end points may be inexact.                *)
NormA(A) == [a |-> Rebase(A.a, A.len), len |-> A.len]
ExpAngleOverlaps(A, J) ==
  LET A1 == NormA(A)  J1 == NormA(J)
      exact    == InDomain(A) /\ InDomain(J)
      linStrict == A1.a + A1.len > J1.a /\ J1.a + J1.len > A1.a
      linTouch  == (A1.a + A1.len = J1.a /\ J1.a + J1.len >= A1.a) \/ (J1.a + J1.len = A1.a /\ A1.a + A1.len >= J1.a)
      lin       == IF linStrict \/ (linTouch /\ exact) THEN "T" ELSE IF linTouch THEN "EITHER" ELSE "F"
      dj == (J.a - A.a) % Turn   da == (A.a - J.a) % Turn
      modStrict == dj < A.len \/ da < J.len \/ (dj = 0 /\ exact /\ J.a = A.a)
      modTouch  == dj <= A.len \/ da <= J.len
      mod       == IF modStrict THEN "T" ELSE IF modTouch THEN "EITHER" ELSE "F"
  IN IF lin = mod THEN lin ELSE "EITHER"

(* ---- laws ---- *)
LawWraps(A) == \A h \in -(2 * ThMax + 1)..(2 * ThMax + 1) :               \* the wrap range is wide enough for all queries
                 \A j \in {-5, 5} : ~(2 * A.a <= h + T2 * j /\ h + T2 * j <= 2 * (A.a + A.len))
LawAngleContains(A) ==
  \A h \in -(2 * ThMax + 1)..(2 * ThMax + 1) :
    LET W      == {j \in Wraps : 2 * A.a <= h + T2 * j /\ h + T2 * j <= 2 * (A.a + A.len)}      \* witnesses th + 2 pi j \in [a, b]
        inner  == \E j \in W : 2 * A.a < h + T2 * j /\ h + T2 * j < 2 * (A.a + A.len)
        v      == ExpAngleContains(A, h)
    IN /\ (v = "F") <=> (W = {})
       /\ (v = "T") <=> (inner \/ (0 \in W /\ InDomain(A)))
       /\ (v = "EITHER") => (h % 2 = 0 /\ ~inner /\ \E j \in W : j # 0 \/ ~InDomain(A))
       /\ (h % T2) \in ASetT[A] <=> (W # {})
LawAngleContainsInterval(A, Js) ==
  \A J \in Js :
    LET v == ExpAngleContainsInterval(A, J)
    IN /\ (v = "F") <=> ~(ASetT[J] \subseteq ASetT[A])
       /\ (v = "EITHER") => \/ (2 * J.a) % T2 = (2 * A.a) % T2
                            \/ (2 * (J.a + J.len)) % T2 = (2 * (A.a + A.len)) % T2
LawAngleCanonical(A) == \A R \in AIntervals : (ASetT[R] = ASetT[A]) <=> (R.len = A.len /\ (R.a - A.a) % Turn = 0)
LawAngleShift(A, xs) ==
  \A x \in xs : LET R == ExpAngleShift(A, x)
                IN /\ R \in AIntervals /\ InDomain(R) /\ AShiftOK(A, x, R)
                   /\ ASetT[R] = {(p + 2 * x) % T2 : p \in ASetT[A]}
LawAngleSet(A) ==                                \* re-bounding is rejected iff inverted; else it gives a valid interval inside the domain
  \A x \in AStarts :                             \* (that its directions are those between the new bounds is checked on the transitions)
    /\ AngleSetAdmissible(x, A.a + A.len) => LET R == ExpAngleSetStart(A, x)
                                              IN IF x > A.a + A.len THEN R.res = "reject"
                                                 ELSE /\ R.res = "ok" /\ [a |-> R.a, len |-> R.len] \in AIntervals /\ InDomain(R)
                                                      /\ R.a = x /\ R.a + R.len = A.a + A.len
    /\ AngleSetAdmissible(A.a, x) => LET R == ExpAngleSetEnd(A, x)
                                     IN IF A.a > x THEN R.res = "reject"
                                        ELSE /\ R.res = "ok" /\ [a |-> R.a, len |-> R.len] \in AIntervals /\ InDomain(R)
                                             /\ R.a = A.a /\ R.a + R.len = x
LawAngleOverlaps(A, Js) ==
  \A J \in Js : LET v == ExpAngleOverlaps(A, J)
                IN /\ (v = "T") => ASetT[A] \cap ASetT[J] # {}                  \* "T" only if the direction sets meet
                   /\ (v = "F") => (ASetT[A] \cap ASetT[J] = {})                \* "F" only if they are disjoint
===================================================================================
