------------------------------ MODULE LaneletGeom ------------------------------
(* C20 - lanelet arc-length geometry and successor-route enumeration are sound.      *)
(* Functional core, written from the statement (not from the searchsorted / cumsum /  *)
(* breadth-wise expansion code).  No VARIABLES here.                                  *)
(*                                                                                    *)
(* Domain: polylines are sequences of integer points <<x, y>> whose segments have      *)
(* positive INTEGER length (axis-parallel or Pythagorean steps), so every cumulative   *)
(* distance is an integer and every interpolated point an exact rational.  An arc      *)
(* length is the rational sn/sd (sd > 0; the model uses the half-integer grid sd = 2). *)
(* A rational is <<num, den>> with den > 0; a rational point is <<rx, ry>>.            *)
EXTENDS Integers, Sequences, FiniteSets, TLC, Json

Abs(x) == IF x < 0 THEN -x ELSE x
Last(s) == s[Len(s)]

(* ------------------------------ (1) arc length ------------------------------------ *)
SqLen(p, q) == (q[1] - p[1]) * (q[1] - p[1]) + (q[2] - p[2]) * (q[2] - p[2])
HasIntLen(p, q) == \E k \in 1..(Abs(q[1] - p[1]) + Abs(q[2] - p[2])) : k * k = SqLen(p, q)
(* the statement's quantifier: >= 2 vertices, consecutive vertices distinct (here: positive integer distance) *)
WellFormed(poly) == Len(poly) >= 2 /\ \A i \in 1..Len(poly) - 1 : HasIntLen(poly[i], poly[i + 1])
SegLen(poly, i) == CHOOSE k \in 1..(Abs(poly[i + 1][1] - poly[i][1]) + Abs(poly[i + 1][2] - poly[i][2])) :
                      k * k = SqLen(poly[i], poly[i + 1])

RECURSIVE CumAt(_, _)
CumAt(poly, i) == IF i = 1 THEN 0 ELSE CumAt(poly, i - 1) + SegLen(poly, i - 1)   \* length of poly[1..i]
Cum(poly) == [i \in 1..Len(poly) |-> CumAt(poly, i)]
RECURSIVE SumSegs(_, _)
SumSegs(poly, i) == IF i >= Len(poly) THEN 0 ELSE SegLen(poly, i) + SumSegs(poly, i + 1)
Length(poly) == SumSegs(poly, 1)                                                   \* the polyline's length

(* segment i carries the arc length sn/sd; at an inner vertex two segments do, and both give the same points *)
OnSeg(poly, i, sn, sd) == sd * CumAt(poly, i) <= sn /\ sn <= sd * CumAt(poly, i + 1)
InRange(poly, sn, sd)  == 0 <= sn /\ sn <= sd * Length(poly)
SegOf(poly, sn, sd)    == CHOOSE i \in 1..Len(poly) - 1 : OnSeg(poly, i, sn, sd)
ParamNum(poly, i, sn, sd) == sn - sd * CumAt(poly, i)          \* segment parameter r = ParamNum / ParamDen in [0, 1]
ParamDen(poly, i, sd)     == sd * SegLen(poly, i)
(* the point of polyline Q (the center line itself or a boundary) on segment i at parameter num/den *)
Lerp(Q, i, num, den) == << <<Q[i][1] * den + num * (Q[i + 1][1] - Q[i][1]), den>>,
                           <<Q[i][2] * den + num * (Q[i + 1][2] - Q[i][2]), den>> >>
PointOn(center, Q, sn, sd) == LET i == SegOf(center, sn, sd)
                              IN Lerp(Q, i, ParamNum(center, i, sn, sd), ParamDen(center, i, sd))
PointAt(poly, sn, sd)      == PointOn(poly, poly, sn, sd)        \* center-line point at arc length sn/sd
BoundaryAt(center, B, sn, sd) == PointOn(center, B, sn, sd)      \* boundary point at the same segment parameter

RatEq(a, b) == a[1] * b[2] = b[1] * a[2]
PtEq(P, Q)  == RatEq(P[1], Q[1]) /\ RatEq(P[2], Q[2])
IntPt(v)    == << <<v[1], 1>>, <<v[2], 1>> >>
(* an implementation value logged as grid index k (meaning k/D) equals the rational q *)
OnGrid(q, D)    == (q[1] * D) % q[2] = 0
GridEq(k, q, D) == k * q[2] = q[1] * D

Shift(poly, v) == [i \in 1..Len(poly) |-> <<poly[i][1] + v[1], poly[i][2] + v[2]>>]   \* parallel offset boundary

(* ---- laws (checked by TLC on the model's polylines) ---- *)
LawCumStart(poly)    == Cum(poly)[1] = 0
LawCumMonotone(poly) == \A i \in 1..Len(poly) - 1 : Cum(poly)[i] <= Cum(poly)[i + 1]
LawCumEnd(poly)      == Cum(poly)[Len(poly)] = Length(poly)
LawEnds(poly)        == /\ PtEq(PointAt(poly, 0, 2), IntPt(poly[1]))
                        /\ PtEq(PointAt(poly, 2 * Length(poly), 2), IntPt(Last(poly)))
LawVertices(poly)    == \A k \in 1..Len(poly) : PtEq(PointAt(poly, 2 * Cum(poly)[k], 2), IntPt(poly[k]))
(* every segment that carries sn/sd yields the same point of Q: the choice in SegOf is immaterial *)
LawSegIndependent(center, Q, sn, sd) ==
  \A i \in 1..Len(center) - 1 : OnSeg(center, i, sn, sd) =>
   \A j \in 1..Len(center) - 1 : OnSeg(center, j, sn, sd) =>
     PtEq(Lerp(Q, i, ParamNum(center, i, sn, sd), ParamDen(center, i, sd)),
          Lerp(Q, j, ParamNum(center, j, sn, sd), ParamDen(center, j, sd)))
(* PointAt lies on its segment at distance s - Cum[i] from vertex i and Cum[i+1] - s from vertex i+1 *)
LawArc(poly, sn, sd) ==
  LET i == SegOf(poly, sn, sd)  P == PointAt(poly, sn, sd)  d == ParamDen(poly, i, sd)
      sq(V) == (P[1][1] - V[1] * d) * (P[1][1] - V[1] * d) + (P[2][1] - V[2] * d) * (P[2][1] - V[2] * d)
      a == (sn - sd * CumAt(poly, i)) * SegLen(poly, i)
      b == (sd * CumAt(poly, i + 1) - sn) * SegLen(poly, i)
  IN P[1][2] = d /\ P[2][2] = d /\ sq(poly[i]) = a * a /\ sq(poly[i + 1]) = b * b

(* ------------------------------ (2) merge ------------------------------------------ *)
(* a lane is [l, c, r]: left boundary, center line, right boundary with equally many vertices *)
Joint(a, b) == Last(a.l) = b.l[1] /\ Last(a.c) = b.c[1] /\ Last(a.r) = b.r[1]
Merge(a, b) == [l |-> a.l \o Tail(b.l), c |-> a.c \o Tail(b.c), r |-> a.r \o Tail(b.r)]
LawMergeLength(a, b) == Length(Merge(a, b).c) = Length(a.c) + Length(b.c)
LawMergeCount(a, b)  == Len(Merge(a, b).c) = Len(a.c) + Len(b.c) - 1
LawMergeCum(a, b)    == LET m == Merge(a, b).c IN
                        /\ \A i \in 1..Len(a.c) : Cum(m)[i] = Cum(a.c)[i]
                        /\ \A i \in 1..Len(b.c) : Cum(m)[Len(a.c) + i - 1] = Length(a.c) + Cum(b.c)[i]
(* the merged lane is a lane: its center-line point at arc length s is a's point for s <= |a| and b's beyond *)
LawMergePoint(a, b, sn, sd) ==
  LET m == Merge(a, b)  la == Length(a.c) IN
  /\ sn <= sd * la => /\ PtEq(PointAt(m.c, sn, sd), PointAt(a.c, sn, sd))
                      /\ PtEq(BoundaryAt(m.c, m.l, sn, sd), BoundaryAt(a.c, a.l, sn, sd))
                      /\ PtEq(BoundaryAt(m.c, m.r, sn, sd), BoundaryAt(a.c, a.r, sn, sd))
  /\ sn >= sd * la => /\ PtEq(PointAt(m.c, sn, sd), PointAt(b.c, sn - sd * la, sd))
                      /\ PtEq(BoundaryAt(m.c, m.l, sn, sd), BoundaryAt(b.c, b.l, sn - sd * la, sd))
                      /\ PtEq(BoundaryAt(m.c, m.r, sn, sd), BoundaryAt(b.c, b.r, sn - sd * la, sd))

(* ------------------------------ (2b) histories -------------------------------------- *)
(* "Every lanelet" includes a lanelet that was queried and then changed through the public API.  The mutations *)
(* of the model (tokens; the driver's table in crv/props/c20.py gives them the same meaning):                  *)
(*   mv1 / mv3  Lanelet.translate_rotate: lattice translation, then a quarter turn (exact on the lattice)      *)
(*   net2       LaneletNetwork.translate_rotate on a network that contains the lanelet                         *)
(*   setc / setl / setr   assign a new polyline through the center / left / right vertices setter               *)
(*   mrgf / mrgs          merge with a successor that starts where the lane ends (predecessor / successor first)*)
(*   draw       the lanelet is drawn + rendered inside a small network (successor of a lanelet that carries a   *)
(*              traffic light with an active cycle): not a mutation - the lane stays what it was                *)
(* After any history the answers must be those of the lane's CURRENT polylines: the cumulative distance and     *)
(* PointAt are functions of the current vertices only.                                                         *)
Rot(v, q) == CASE q = 0 -> v  [] q = 1 -> <<-v[2], v[1]>>  [] q = 2 -> <<-v[1], -v[2]>>  [] q = 3 -> <<v[2], -v[1]>>
MovePt(v, t, q)   == Rot(<<v[1] + t[1], v[2] + t[2]>>, q)               \* first translate, then rotate
MovePoly(P, t, q) == [i \in 1..Len(P) |-> MovePt(P[i], t, q)]
MoveLane(a, t, q) == [l |-> MovePoly(a.l, t, q), c |-> MovePoly(a.c, t, q), r |-> MovePoly(a.r, t, q)]
MoveOf(tok) == CASE tok = "mv1"  -> [t |-> <<1, 2>>,  q |-> 1]
                 [] tok = "mv3"  -> [t |-> <<-3, 1>>, q |-> 3]
                 [] tok = "net2" -> [t |-> <<2, -1>>, q |-> 2]
MoveToks  == {"mv1", "mv3", "net2"}
SetToks   == {"setc", "setl", "setr"}
MergeToks == {"mrgf", "mrgs"}
FrameToks == {"draw"}                     \* read-only operations between queries
MutToks   == MoveToks \cup SetToks \cup MergeToks \cup FrameToks
QueryToks == {"qd", "qi", "qall"}         \* distance only / one interpolate_position / the full query set
(* the polyline the setters assign: the old one stretched by 2 about its first vertex (all arc lengths change) *)
Stretch(P) == [i \in 1..Len(P) |-> <<2 * P[i][1] - P[1][1], 2 * P[i][2] - P[1][2]>>]
(* the successor used by the merge tokens: every polyline continues from its last vertex with the same steps *)
Continue(P) == LET e == Last(P) IN <<e, <<e[1] + 3, e[2] + 4>>, <<e[1] + 3, e[2] + 6>> >>
SuccLane(a) == [l |-> Continue(a.l), c |-> Continue(a.c), r |-> Continue(a.r)]
Apply(tok, a) == CASE tok \in MoveToks  -> MoveLane(a, MoveOf(tok).t, MoveOf(tok).q)
                   [] tok = "setc"       -> [a EXCEPT !.c = Stretch(a.c)]
                   [] tok = "setl"       -> [a EXCEPT !.l = Stretch(a.l)]
                   [] tok = "setr"       -> [a EXCEPT !.r = Stretch(a.r)]
                   [] tok \in MergeToks -> Merge(a, SuccLane(a))
                   [] tok \in FrameToks -> a
(* a rigid lattice motion keeps every cumulative distance and moves every interpolated point with the lane *)
MoveRat(P, t, q) == LET d == P[1][2]                                     \* both coordinates share the denominator
                        w == Rot(<<P[1][1] + t[1] * d, P[2][1] + t[2] * d>>, q)
                    IN << <<w[1], d>>, <<w[2], d>> >>
LawRigidCum(a, tok) == LET b == Apply(tok, a) IN WellFormed(b.c) /\ Cum(b.c) = Cum(a.c)
LawRigid(a, tok, sn, sd) ==
  LET b == Apply(tok, a)  m == MoveOf(tok) IN
  /\ LawRigidCum(a, tok)
  /\ PtEq(PointAt(b.c, sn, sd), MoveRat(PointAt(a.c, sn, sd), m.t, m.q))
  /\ PtEq(BoundaryAt(b.c, b.l, sn, sd), MoveRat(BoundaryAt(a.c, a.l, sn, sd), m.t, m.q))
  /\ PtEq(BoundaryAt(b.c, b.r, sn, sd), MoveRat(BoundaryAt(a.c, a.r, sn, sd), m.t, m.q))

(* ------------------------------ (2c) similar lanelets, array representations -------------------------------- *)
(* Arc-length geometry is invariant under similarities.  Multiplying every vertex by the Gaussian integer p + qi   *)
(* maps lattice polylines to lattice polylines and multiplies every length by sqrt(U), U = p^2 + q^2: the image of  *)
(* an integer-length polyline has segments of length k * sqrt(U) (sqrt(2)-, sqrt(5)-, sqrt(10)-type diagonals).    *)
(* The driver hands the IMAGE to the library (as int64 / int32 / float32 / float64 / Fortran-ordered / sliced      *)
(* arrays - all represent lattice points exactly) and maps the answers back: lengths / sqrt(U), points by the      *)
(* inverse map; the expected values are those of the pre-image, computed here.                                    *)
SimOf(U) == CASE U = 1 -> <<1, 0>> [] U = 2 -> <<1, 1>> [] U = 5 -> <<1, 2>> [] U = 10 -> <<1, 3>>
SimPt(v, pq)   == <<pq[1] * v[1] - pq[2] * v[2], pq[2] * v[1] + pq[1] * v[2]>>
SimPoly(P, pq) == [i \in 1..Len(P) |-> SimPt(P[i], pq)]
(* the similarity scales squared lengths by U and commutes with interpolation (so the abstraction is exact) *)
LawSimilar(a, U, sn, sd) ==
  LET pq == SimOf(U)  i == SegOf(a.c, sn, sd)  num == ParamNum(a.c, i, sn, sd)  den == ParamDen(a.c, i, sd)
      img(Q) == Lerp(SimPoly(Q, pq), i, num, den)
      pre(Q) == Lerp(Q, i, num, den)
      same(Q) == /\ img(Q)[1][1] = pq[1] * pre(Q)[1][1] - pq[2] * pre(Q)[2][1]
                 /\ img(Q)[2][1] = pq[2] * pre(Q)[1][1] + pq[1] * pre(Q)[2][1]
  IN /\ pq[1] * pq[1] + pq[2] * pq[2] = U
     /\ \A k \in 1..Len(a.c) - 1 : SqLen(SimPt(a.c[k], pq), SimPt(a.c[k + 1], pq)) = U * SqLen(a.c[k], a.c[k + 1])
     /\ same(a.c) /\ same(a.l) /\ same(a.r)
(* precision a returned float must have: arrays of float32 carry float32 precision (1e-5 band), all others 1e-9. *)
(* The driver logs the class of every value: 2 = within 1e-9, 1 = within 1e-5 (relative), 0 = off.               *)
PrecOf(dt) == IF dt = "f32" THEN 1 ELSE 2

(* ------------------------------ (3) routes ----------------------------------------- *)
(* G: function node -> set of successor nodes; len: node -> length; R: sequence of paths (sequences of nodes). *)
(* The contract is a predicate on R, not one answer; duplicates and any order are allowed.                     *)
Rev(G) == [n \in DOMAIN G |-> {m \in DOMAIN G : n \in G[m]}]
RECURSIVE Acc(_, _, _)
Acc(len, p, k) == IF k = 0 THEN 0 ELSE Acc(len, p, k - 1) + len[p[k]]       \* accumulated length of p[1..k]
Idx(R) == 1..Len(R)
(* lengths are in units of sqrt(U) (U = 1: plain integers): Acc * sqrt(U) >= range  <=>  Acc^2 * U >= range^2    *)
(* D: the direct successors of the lanelet the search is CALLED ON (its own current list); G: the network's links, *)
(* used for every continuation.  The caller need not be the network's object of that id (a copy edited later, a   *)
(* foreign lanelet with a colliding id, a merged lanelet): the statement speaks of "a direct successor" of the     *)
(* lanelet and of covering "every direct successor".  sameLanelet = FALSE (foreign lanelet whose id merely         *)
(* collides with a network lanelet): the statement does not say whether that network lanelet may be visited.       *)
RoutesFrom(G, D, len, start, range, R, U, sameLanelet) ==
  IF \E i \in Idx(R) : Len(R[i]) = 0 \/ R[i][1] \notin D
    THEN "first"                                   \* a path does not start at a direct successor
  ELSE IF \E i \in Idx(R) : \E k \in 1..Len(R[i]) - 1 : R[i][k] \notin DOMAIN G \/ R[i][k + 1] \notin G[R[i][k]]
    THEN "chain"                                   \* a path is not a chain of successor links
  ELSE IF sameLanelet /\ \E i \in Idx(R) : \E k \in 1..Len(R[i]) : R[i][k] = start
    THEN "start"                                   \* a path revisits the start lanelet
  ELSE IF \E i \in Idx(R) : \E j, k \in 1..Len(R[i]) : j < k /\ R[i][j] = R[i][k]
    THEN "loop"                                    \* a path is not loop-free
  ELSE IF \E i \in Idx(R) : \E k \in 1..Len(R[i]) - 1 : Acc(len, R[i], k) * Acc(len, R[i], k) * U >= range * range
    THEN "range"                                   \* a path was extended although its length had reached the range
  ELSE IF \E s \in D : \A i \in Idx(R) : R[i][1] # s
    THEN "cover"                                   \* a direct successor starts no path
  ELSE ""
RoutesClause(G, len, start, range, R, U) == RoutesFrom(G, G[start], len, start, range, R, U, TRUE)
ValidRoutes(G, len, start, range, R, U) == RoutesClause(G, len, start, range, R, U) = ""
=================================================================================
