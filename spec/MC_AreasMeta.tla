----------------------------- MODULE MC_AreasMeta -----------------------------
(* Implementation-shaped model for X07: what the shipped classes do (dicts keyed by id, sets of  *)
(* referenced ids on the lanelets, lists of adjacent lanelets on the area borders, clean-up      *)
(* routines that walk some of these relations, a default argument object made once), one action   *)
(* per public mutator / query.  Every action logs the event the harness would log (`act`), and    *)
(* TLC checks that the contract of AreasMeta.tla accepts every step (Clause = "") together with    *)
(* the referential-integrity invariant and the laws of the contract operators.  Deviation         *)
(* constants name shipped / conceivable behaviour that breaks the contract; with all of them      *)
(* FALSE the model is the repaired design.                                                        *)
EXTENDS AreasMeta, Json

CONSTANTS
    Domains,                    \* subset of {"refs", "move", "scen", "meta", "sid", "holder", "setter"}
    NL,                         \* lanelets 1..NL; areas have the ids NL+1, NL+2 (three area tokens)
    WellFormedInputs,           \* objects handed in refer to existing elements only (FALSE: graph for the walks)
    MaxMoves, MaxGen, MaxTo2d,  \* bounds: translate_rotate calls, generate_object_id calls, convert_to_2d calls per id
    DtToks, PlainToks, MetaPlain,   \* meta: dt tokens, tokens of plain attributes, plain attributes explored
    DEV_RemoveAreaKeepsRefs,    \* SHIPPED: remove_area leaves the area id in Lanelet.adjacent_areas
    DEV_CleanupSkipsBorders,    \* SHIPPED: cleanup_lanelet_references (remove_lanelet, cut-out) leaves AreaBorder.adjacent
    DEV_MoveSkipsAreas,         \* SHIPPED: LaneletNetwork.translate_rotate does not move the area borders
    DEV_GenIgnoresAreas,        \* SHIPPED: add_objects(network) does not reserve the ids of the areas
    DEV_AddAreaOverwrites,      \* conceivable: add_area replaces the area of a used id
    DEV_CutSharesAreas,         \* conceivable: the cut-out network holds the area objects of the original
    DEV_SharedDefaultId,        \* SHIPPED: Scenario(dt) - the default ScenarioID() is one object made at import
    DEV_ZeroIdAsOne,            \* SHIPPED: ScenarioID(configuration_id=0) / (prediction_id=0) are taken as 1
    DEV_SetterNoCheck           \* conceivable: a validating setter stores whatever it gets

VARIABLES dom, n, cnt, mv, m, dflt, pr, act
vars == <<dom, n, cnt, mv, m, dflt, pr, act>>
View == <<dom, n, cnt, mv, m, dflt, pr>>

Lan == 1..NL
RECURSIVE SeqOf(_)
SeqOf(S) == IF S = {} THEN <<>> ELSE LET x == CHOOSE y \in S : TRUE IN <<x>> \o SeqOf(S \ {x})
MaxOf(S) == CHOOSE x \in S : \A y \in S : y <= x
PostRec(x) == [L |-> SeqOf(x.L), A |-> SeqOf(x.A), aa |-> SeqOf(x.aa), bd |-> SeqOf(x.bd), ap |-> SeqOf(x.ap),
               lp |-> SeqOf(x.lp)]

(* ---- universe of the network domains ------------------------------------------------------ *)
AreaToks == { [id |-> NL + 1, tag |-> 0, bd0 |-> {1, 2} \cap Lan, pos |-> <<0, 0>>],
              [id |-> NL + 1, tag |-> 1, bd0 |-> {},              pos |-> <<3, 1>>],
              [id |-> NL + 2, tag |-> 0, bd0 |-> {2} \cap Lan,    pos |-> <<2, 5>>] }
AreaIdU  == {NL + 1, NL + 2}
LCtor(i) == IF i = 1 THEN {NL + 1} ELSE {}             \* adjacent_areas given to the constructor of lanelet i
LPos(i)  == <<10 * i, 0>>
IdsChoices == IF dom = "refs" THEN {<<>>, <<1>>, <<1, 2>>, <<2, 9>>} ELSE {<<1>>}      \* 9: never in the network
Moves    == {<<1, 2, 0>>, <<0, 0, 1>>, <<0 - 3, 1, 2>>}
NetDoms  == {"refs", "move", "scen"}

Init == /\ dom \in Domains
        /\ n = EmptyNet /\ cnt = 0 /\ mv = 0 /\ m = NoMeta /\ dflt = 0
        /\ pr \in (IF dom = "sid" THEN
                       {[coop |-> f[1], country |-> f[2], map |-> f[3], ver |-> f[4], map_id |-> x[1], config |-> x[2],
                         beh |-> x[3], pk |-> x[4][1], pv |-> x[4][2]] :
                          f \in {0, 1} \X {"-", "None", "DEU", "deu", "XYZ"} \X {"Test", "seps", "empty"} \X {"-", "2018b", "2019a"},
                          x \in {<<1, <<>>, "None", <<"none", <<>>>>>>, <<3, <<2>>, "T", <<"int", <<2>>>>>>}}
                       \cup
                       {[coop |-> f[1], country |-> f[2], map |-> f[3], ver |-> f[4], map_id |-> x[1], config |-> x[2],
                         beh |-> x[3], pk |-> x[4][1], pv |-> x[4][2]] :
                          f \in {<<0, "-", "Test", "-">>, <<1, "DEU", "seps", "2018b">>},
                          x \in {0, 1, 3} \X {<<>>, <<0>>, <<2>>, <<0 - 1>>} \X {"None", "T", "X"}
                                \X {<<"none", <<>>>>, <<"int", <<0>>>>, <<"int", <<2>>>>, <<"int", <<0 - 1>>>>, <<"list", <<>>>>,
                                    <<"list", <<3>>>>, <<"list", <<2, 0>>>>, <<"list", <<1, 4>>>>}}
                   ELSE IF dom = "holder" THEN
                       UNION {{[cls |-> c, given |-> g] : g \in [1..HArity[c] -> {"-", "None", "v", "w", "x"}]} : c \in HClasses}
                   ELSE IF dom = "setter" THEN {[cls |-> r[1], attr |-> r[2], tok |-> r[3]] : r \in SetterTable}
                   ELSE {[none |-> 0]})
        /\ act = [op |-> "init"]

(* ======================================================================================== *)
(* network: self._lanelets, self._areas, Lanelet._adjacent_areas, AreaBorder._adjacent        *)
(* ======================================================================================== *)
(* the impl keeps reg / host / gen exactly as the contract's NPost does: computed from the event *)
Step(a, x) == LET e == a @@ [post |-> PostRec(x)] IN n' = NPost(n, e) /\ act' = e

AddLanelet(i) ==
    LET dup == i \in n.L
        x   == IF dup THEN n ELSE [n EXCEPT !.L = @ \cup {i}, !.aa = @ \cup {<<i, a>> : a \in LCtor(i)},
                                            !.lp = @ \cup {<<i, LPos(i)[1], LPos(i)[2]>>}]
        via == IF n.host = "scen" THEN "scen" ELSE "net"
    IN /\ WellFormedInputs => LCtor(i) \subseteq AIds(n)
       /\ Step([op |-> "n_add_lanelet", i |-> i, aa0 |-> SeqOf(LCtor(i)), pos |-> LPos(i), via |-> via,
                res |-> IF via = "net" THEN (IF dup THEN "F" ELSE "T") ELSE (IF dup THEN "ValueError" ELSE "ok")], x)
       /\ UNCHANGED <<cnt, mv>>
RemoveLanelet(i) ==
    LET x == IF i \notin n.L THEN n
             ELSE [n EXCEPT !.L = @ \ {i}, !.aa = {r \in @ : r[1] # i}, !.lp = {r \in @ : r[1] # i},
                            !.bd = IF DEV_CleanupSkipsBorders THEN @ ELSE {r \in @ : r[2] # i}]
    IN /\ Step([op |-> "n_remove_lanelet", i |-> i, via |-> IF n.host = "scen" /\ i \in n.L THEN "scen" ELSE "net", res |-> "ok"], x)
       /\ UNCHANGED <<cnt, mv>>
AddArea(t, ids) ==
    LET dup == t.id \in AIds(n)
        fresh == [n EXCEPT !.A = {a \in @ : a[1] # t.id} \cup {<<t.id, t.tag>>},
                           !.aa = @ \cup {<<l, t.id>> : l \in ToSet(ids) \cap n.L},
                           !.bd = {r \in @ : r[1] # t.id} \cup {<<t.id, l>> : l \in t.bd0},
                           !.ap = {r \in @ : r[1] # t.id} \cup {<<t.id, t.pos[1], t.pos[2]>>}]
        x == IF dup /\ ~DEV_AddAreaOverwrites THEN n ELSE fresh
    IN /\ WellFormedInputs => t.bd0 \subseteq n.L
       /\ Step([op |-> "n_add_area", a |-> <<t.id, t.tag>>, bd0 |-> SeqOf(t.bd0), ids |-> ids, pos |-> t.pos,
                res |-> IF dup /\ ~DEV_AddAreaOverwrites THEN "F" ELSE "T"], x)
       /\ UNCHANGED <<cnt, mv>>
RemoveArea(i) ==
    LET x == IF i \notin AIds(n) THEN n
             ELSE [n EXCEPT !.A = {a \in @ : a[1] # i}, !.bd = {r \in @ : r[1] # i}, !.ap = {r \in @ : r[1] # i},
                            !.aa = IF DEV_RemoveAreaKeepsRefs THEN @ ELSE {r \in @ : r[2] # i}]
    IN Step([op |-> "n_remove_area", i |-> i, res |-> "ok"], x) /\ UNCHANGED <<cnt, mv>>
FindArea(i) ==
    LET hit == {a \in n.A : a[1] = i} IN
    /\ Step([op |-> "n_find_area", i |-> i, res |-> IF i < 0 THEN "AssertionError" ELSE "ok",
             found |-> IF hit = {} THEN <<>> ELSE CHOOSE a \in hit : TRUE, same |-> IF hit = {} THEN 0 ELSE 1], n)
    /\ UNCHANGED <<cnt, mv>>
Areas == Step([op |-> "n_areas", res |-> "ok", list |-> SeqOf(n.A)], n) /\ UNCHANGED <<cnt, mv>>
Move(t) ==
    /\ mv < MaxMoves /\ mv' = mv + 1 /\ UNCHANGED cnt
    /\ Step([op |-> "n_translate_rotate", t |-> t, res |-> "ok", exact |-> 1],
            [n EXCEPT !.lp = MoveAll(@, t), !.ap = IF DEV_MoveSkipsAreas THEN @ ELSE MoveAll(@, t)])
Cut(K, cleanup) ==
    LET refd == UNION {AreaRefs(n, l) : l \in K}
        boom == ~(refd \subseteq AIds(n))                       \* find_area_by_id(None) -> add_area(None): assertion
        A1   == {a \in n.A : a[1] \in refd}
        ids1 == {a[1] : a \in A1}
        r == [L |-> K, A |-> A1, aa |-> {q \in n.aa : q[1] \in K},
              bd |-> {q \in n.bd : q[1] \in ids1 /\ (cleanup = 0 \/ DEV_CleanupSkipsBorders \/ q[2] \in K)},
              ap |-> {q \in n.ap : q[1] \in ids1}, lp |-> {q \in n.lp : q[1] \in K}]
        none == [L |-> {}, A |-> {}, aa |-> {}, bd |-> {}, ap |-> {}, lp |-> {}]
    IN /\ K \subseteq n.L
       /\ Step([op |-> "n_cut", keep |-> SeqOf(K), cleanup |-> cleanup, res |-> IF boom THEN "AssertionError" ELSE "ok",
                cut |-> PostRec(IF boom THEN none ELSE r),
                shared |-> IF DEV_CutSharesAreas /\ ~boom THEN Cardinality(A1) ELSE 0], n)
       /\ UNCHANGED <<cnt, mv>>
Adopt == /\ n.host = "net"
         /\ Step([op |-> "s_adopt", res |-> "ok"], n)
         /\ cnt' = 0 /\ UNCHANGED mv
SAddArea(t) == /\ n.host = "scen"
               /\ Step([op |-> "s_add_area", a |-> <<t.id, t.tag>>, bd0 |-> SeqOf(t.bd0), ids |-> <<>>, pos |-> t.pos,
                        res |-> "ValueError"], n)
               /\ UNCHANGED <<cnt, mv>>
Gen == LET idset == n.L \cup (IF DEV_GenIgnoresAreas THEN {} ELSE AIds(n)) \cup {0}
           c1    == (IF cnt > MaxOf(idset) THEN cnt ELSE MaxOf(idset)) + 1
       IN /\ n.host = "scen" /\ Cardinality(n.gen) < MaxGen
          /\ cnt' = c1 /\ UNCHANGED mv
          /\ Step([op |-> "s_gen", res |-> "ok", id |-> c1], n)
Erase == /\ n.host = "scen"
         /\ Step([op |-> "s_erase", res |-> "ok"], [n EXCEPT !.L = {}, !.A = {}, !.aa = {}, !.bd = {}, !.ap = {}, !.lp = {}])
         /\ UNCHANGED <<cnt, mv>>

NNext == /\ dom \in NetDoms /\ UNCHANGED <<dom, m, dflt, pr>>
         /\ \/ \E i \in Lan : AddLanelet(i)
            \/ \E t \in AreaToks : \E ids \in IdsChoices : AddArea(t, ids)
            \/ dom # "move" /\ (\/ \E i \in Lan : RemoveLanelet(i)
                                 \/ \E j \in AreaIdU : RemoveArea(j))
            \/ dom = "refs" /\ (\/ \E i \in AreaIdU \cup {0 - 1} : FindArea(i)
                                \/ Areas
                                \/ \E K \in SUBSET n.L : \E c \in {0, 1} : Cut(K, c))
            \/ dom = "move" /\ (\E t \in Moves : Move(t))
            \/ dom = "scen" /\ (Adopt \/ Gen \/ Erase \/ \E t \in AreaToks : SAddArea(t))

(* ======================================================================================== *)
(* scenario meta data: two scenarios; A is driven, B is the witness                          *)
(* ======================================================================================== *)
Base(o)   == [dt |-> "float", author |-> "-", tags |-> "-", affiliation |-> "-", source |-> "-", location |-> "-", sid |-> "-"]
UTok(o)   == "u" \o o
GivenA    == {Base("A")} \cup {[Base("A") EXCEPT !.dt = t] : t \in DtToks}
             \cup {[Base("A") EXCEPT ![f] = t] : f \in MetaPlain, t \in PlainToks}
             \cup {[Base("A") EXCEPT !.sid = t] : t \in {"uA", "bad", "None"}}
             \cup {[dt |-> "int", author |-> "v1", tags |-> "v1", affiliation |-> "v1", source |-> "v1", location |-> "v1", sid |-> "uA"]}
GivenB    == {Base("B"), [Base("B") EXCEPT !.sid = "uB"]}
Snap2(mm) == [A |-> mm.A, B |-> mm.B]
MStep(mm, a) == m' = mm /\ act' = a @@ [snap |-> mm]
DefSid    == <<"def", IF DEV_SharedDefaultId THEN dflt ELSE 0>>
MNew(o, g) ==
    LET ok  == DtClass(g.dt) # "F" /\ SidCtorClass(g.sid) # "F"
        obj == [NewObj(g) EXCEPT !.sid = IF g.sid = "-" THEN DefSid ELSE <<g.sid, 0>>]
    IN /\ MStep(IF ok THEN [m EXCEPT ![o] = obj] ELSE [m EXCEPT ![o] = NoObj],
                [op |-> "m_new", o |-> o, given |-> g, res |-> IF ok THEN "ok" ELSE "AssertionError"])
       /\ UNCHANGED dflt
MSet(o, f, t) ==
    LET ok == f # "dt" \/ DtClass(t) # "F" IN
    /\ m[o].live = 1
    /\ MStep(IF ~ok THEN m ELSE IF f = "sid" THEN [m EXCEPT ![o].sid = <<t, 0>>] ELSE [m EXCEPT ![o][f] = t],
             [op |-> "m_set", o |-> o, f |-> f, tok |-> t, res |-> IF ok THEN "ok" ELSE "AssertionError"])
    /\ UNCHANGED dflt
MTo2d(o) ==
    LET shared == DEV_SharedDefaultId /\ m[o].sid[1] = "def"
        bump(x) == [x EXCEPT !.sid = <<@[1], @[2] + 1>>]
    IN /\ m[o].live = 1 /\ m[o].sid[2] < MaxTo2d
       /\ dflt' = IF shared THEN dflt + 1 ELSE dflt
       /\ MStep([q \in {"A", "B"} |-> IF q = o \/ (shared /\ m[q].live = 1 /\ m[q].sid[1] = "def") THEN bump(m[q]) ELSE m[q]],
                [op |-> "m_to2d", o |-> o, res |-> "ok"])
MStr(o) == m[o].live = 1 /\ MStep(m, [op |-> "m_str", o |-> o, res |-> "ok"]) /\ UNCHANGED dflt
MNext == /\ dom = "meta" /\ UNCHANGED <<dom, n, cnt, mv, pr>>
         /\ \/ \E g \in GivenA : MNew("A", g)
            \/ \E g \in GivenB : MNew("B", g)
            \/ \E t \in DtToks : MSet("A", "dt", t)
            \/ \E f \in MetaPlain : \E t \in PlainToks \ {"-"} : MSet("A", f, t)
            \/ MSet("A", "sid", "uA")
            \/ \E o \in {"A", "B"} : MTo2d(o) \/ MStr(o)

Next == NNext \/ MNext
Spec == Init /\ [][Next]_vars

(* ======================================================================================== *)
(* value-like parts: the implementation's answer to one request                               *)
(* ======================================================================================== *)
ImplSid(a) ==
    LET zeroC == a.config = <<0>>
        zeroP == a.pk = "int" /\ a.pv = <<0>>
        bad == \/ a.ver \notin SidVersions \cup {"-"} \/ a.country \in BadCountries \/ a.map_id <= 0
               \/ a.beh \notin SidBehaviours \cup {"None"} \/ (a.pk # "none" /\ a.beh = "None")
               \/ (a.config # <<>> /\ a.config[1] < 0) \/ (zeroC /\ ~DEV_ZeroIdAsOne)
               \/ (\E i \in DOMAIN a.pv : a.pv[i] < 0) \/ (\E i \in DOMAIN a.pv : a.pv[i] = 0 /\ ~(zeroP /\ DEV_ZeroIdAsOne))
    IN a @@ [op |-> "i_new", res |-> IF bad THEN "AssertionError" ELSE "ok",
             out |-> [country |-> IF a.country \in {"-", "None"} THEN "ZAM" ELSE a.country,
                      alnum |-> IF a.map = "empty" THEN 0 ELSE 1, map_id |-> a.map_id, coop |-> a.coop]]
ImplSetter(r) ==
    LET c == SetterClass(r)  ok == c # "F" \/ DEV_SetterNoCheck
    IN r @@ [op |-> "a_set", res |-> IF ok THEN "ok" ELSE "AssertionError", now |-> IF ok THEN r.tok ELSE "init"]
(* holders: the token universe {"-", "None", "v", "w", "x"} of the MC run stands for "not given", None and three values *)
HDefaultImpl == [GeoTransformation |-> <<"0", "0", "0", "0", "1">>, Location |-> <<"-999", "999", "999", "None", "None">>,
                 Environment |-> <<"None", "None", "None", "None">>, Time |-> <<"-", "-", "None", "None", "None">>]
ImplH(cls, i, tok) == IF tok = "-" \/ (tok = "None" /\ cls = "GeoTransformation") THEN HDefaultImpl[cls][i] ELSE tok
HGivenOk(p) == p.cls = "Time" => p.given[1] # "-" /\ p.given[2] # "-"            \* required arguments
ImplHNew(p) == [op |-> "h_new", cls |-> p.cls, given |-> p.given, res |-> "ok",
                got |-> [i \in 1..HArity[p.cls] |-> ImplH(p.cls, i, p.given[i])]]
ImplHSet(p, h, i, tok) == [op |-> "h_set", cls |-> p.cls, i |-> i, tok |-> tok, res |-> "ok", got |-> [h EXCEPT ![i] = ImplH(p.cls, i, tok)]]

(* ---- the contract, as invariants and action properties of the implementation model ------ *)
PropNetRefines == [][(dom \in NetDoms) => (NClause(n, act') = "")]_vars
InvNoDangling  == (dom \in NetDoms /\ WellFormedInputs) => NoDangling(n)
InvIdsUnique   == dom \in NetDoms => IdsUnique(n)
InvNetLaws     == dom \in NetDoms =>
                    /\ \A i \in AreaIdU : LawRemoveAreaIntegrity(n, i) /\ LawRemoveIdempotent(n, i)
                    /\ \A i \in Lan : LawRemoveLaneletIntegrity(n, i) /\ LawRemoveIdempotent(n, i)
                    /\ \A i \in AreaIdU : \A j \in Lan : LawRemovesCommute(n, i, j)
                    /\ LawQuarterTurns(n.ap) /\ \A t \in Moves : LawMoveBack(n.lp, t)
PropMetaRefines == [][dom = "meta" => MClause(m, act') = "" /\ m' = MPost(m, act')]_vars
PropMetaIsolated == [][(dom = "meta" /\ act'.op \in {"m_set", "m_to2d", "m_str"}) => m'[Other(act'.o)] = m[Other(act'.o)]]_vars
InvSidImpl     == dom = "sid" => IClause(ImplSid(pr)) = ""
InvSetterImpl  == dom = "setter" => SClause(ImplSetter(pr)) = "" /\ LawSetterTableFunctional
InvHolderImpl  == (dom = "holder" /\ HGivenOk(pr)) =>
                    LET e0 == ImplHNew(pr) IN
                    /\ HClause(<<>>, e0) = ""
                    /\ \A i \in 1..HArity[pr.cls] : \A t \in {"None", "v", "w"} :
                         LET e1 == ImplHSet(pr, e0.got, i, t) IN
                         /\ HClause(e0.got, e1) = ""
                         /\ HClause(e1.got, ImplHSet(pr, e1.got, i, t)) = ""                \* setting twice = setting once
                         /\ ImplHSet(pr, e1.got, i, t).got = e1.got

(* ---- generation (GEN configurations, -workers 1) ---------------------------------------- *)
NetKey == [d |-> dom, L |-> n.L, A |-> n.A, aa |-> n.aa, bd |-> n.bd, ap |-> n.ap, lp |-> n.lp, h |-> n.host, r |-> n.reg,
           g |-> n.gen, c |-> cnt, mv |-> mv]
MetaKey == [d |-> dom, A |-> m.A, B |-> m.B, df |-> dflt]
StKey == IF dom = "meta" THEN MetaKey ELSE NetKey
ArgOf(a) == [f \in (DOMAIN a) \ {"post", "cut", "snap", "shared", "found", "same", "list", "exact", "id"} |-> a[f]]
EmitEdge == (dom \in NetDoms \cup {"meta"}) => PrintT(<<"EDGE", ToJson([from |-> StKey, act |-> ArgOf(act'), to |-> StKey'])>>)
(* holders for the harness: real value tokens per class / position, and the setter calls to make after construction *)
HToks == [GeoTransformation |-> <<{"-", "None", "s"}, {"-", "None", "5"}, {"-", "None", "5"}, {"-", "None", "5"}, {"-", "None", "5"}>>,
          Location |-> <<{"-", "7"}, {"-", "48"}, {"-", "11"}, {"-", "None", "g"}, {"-", "None", "e"}>>,
          Environment |-> <<{"-", "None", "t"}, {"-", "None", "m"}, {"-", "None", "m"}, {"-", "None", "m"}>>,
          Time |-> <<{"10", "25"}, {"30", "61"}, {"-", "None", "15", "32"}, {"-", "6", "13"}, {"-", "2020"}>>]
HCases == UNION {{[kind |-> "holder", cls |-> c, given |-> g,
                   sets |-> IF \A i \in DOMAIN g : g[i] = "-" \/ (c = "Time" /\ i <= 2 /\ g[i] \in {"10", "30"})
                            THEN SeqOf(UNION {{<<i, t>> : t \in {"None", "0", "3"} \cup (HToks[c][i] \ {"-"})} : i \in 1..HArity[c]})
                            ELSE <<>>] :
                    g \in {h \in [1..HArity[c] -> UNION {HToks[c][i] : i \in 1..HArity[c]}] : \A i \in 1..HArity[c] : h[i] \in HToks[c][i]}} :
                 c \in HClasses}
EmitCase == /\ (dom = "sid") => PrintT(<<"CASE", ToJson([kind |-> "sid"] @@ pr)>>)
            /\ (dom = "setter") => PrintT(<<"CASE", ToJson([kind |-> "setter"] @@ pr)>>)
            /\ (dom = "setter" /\ pr.cls = "Lanelet" /\ pr.tok = "set") => \A c \in HCases : PrintT(<<"CASE", ToJson(c)>>)
            /\ (dom = "setter" /\ pr.cls = "Lanelet" /\ pr.tok = "set") =>
                  \A en \in {"Tag", "TimeOfDay", "Weather", "Underground", "AreaType"} : PrintT(<<"CASE", ToJson([kind |-> "enum", enum |-> en])>>)
=================================================================================
