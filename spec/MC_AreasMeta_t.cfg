\* thorough tier
SPECIFICATION Spec
CONSTANTS
  Domains = {"refs", "move", "scen", "meta", "sid", "holder", "setter"}
  NL = 3
  WellFormedInputs = TRUE
  MaxMoves = 2
  MaxGen = 4
  MaxTo2d = 2
  DtToks = {"float", "int", "npfloat", "str", "None", "bool", "nan", "neg"}
  PlainToks = {"None", "v1", "v2", "bad"}
  MetaPlain = {"author", "tags", "location"}
  DEV_RemoveAreaKeepsRefs = FALSE
  DEV_CleanupSkipsBorders = FALSE
  DEV_MoveSkipsAreas = FALSE
  DEV_GenIgnoresAreas = FALSE
  DEV_AddAreaOverwrites = FALSE
  DEV_CutSharesAreas = FALSE
  DEV_SharedDefaultId = FALSE
  DEV_ZeroIdAsOne = FALSE
  DEV_SetterNoCheck = FALSE
VIEW View
INVARIANT InvNoDangling
INVARIANT InvIdsUnique
INVARIANT InvNetLaws
INVARIANT InvSidImpl
INVARIANT InvSetterImpl
INVARIANT InvHolderImpl
PROPERTY PropNetRefines
PROPERTY PropMetaRefines
PROPERTY PropMetaIsolated
