SPECIFICATION Spec
CONSTANTS
  MaxSteps = 6
  DEV_StaticRegistersCenter = FALSE
INVARIANT InvInverseStatic
INVARIANT InvInverseDynamic
INVARIANT InvRemoveTotal
INVARIANT InvCentreVsShape
