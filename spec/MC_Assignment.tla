------------------------------- MODULE MC_Assignment -------------------------------
(* Model for C07 over a small lattice world: all histories of add / assign / remove on a scenario   *)
(* with lanelet registries, implementation-shaped (assign records forward relations and updates the  *)
(* registries; remove deletes the registry entries it expects to find).  Invariants: registries are  *)
(* the inverse of the recorded shape relations, assigned relations equal the lattice truth, remove   *)
(* never fails.  DEV_StaticRegistersCenter reproduces the shipped static-obstacle defect.            *)
EXTENDS Assignment, Json
CONSTANTS MaxSteps, DEV_StaticRegistersCenter

Lan == (1 :> <<0, 0, 2, 2>>) @@ (2 :> <<2, 0, 4, 2>>) @@ (3 :> <<0, 2, 2, 4>>)
Obs == (11 :> [kind |-> "static",  shape |-> <<"rect", 2, 1>>, t0 |-> 0, poses |-> <<<<3, 2, 0>>>>]) @@         \* centre in 1, shape on 1 and 2
       (12 :> [kind |-> "static",  shape |-> <<"disc", 1, 0>>, t0 |-> 0, poses |-> <<<<2, 2, 0>>>>]) @@         \* disc touching 2 and 3
       (13 :> [kind |-> "dynamic", shape |-> <<"rect", 1, 1>>, t0 |-> 0, poses |-> <<<<2, 2, 0>>, <<4, 2, 0>>, <<6, 2, 1>>>>]) @@  \* crosses the shared edge
       (14 :> [kind |-> "dynamic", shape |-> <<"poly", 2, 2>>, t0 |-> 1, poses |-> <<<<2, 4, 0>>>>]) @@          \* no prediction, on the edge 1|3
       (15 :> [kind |-> "dynamic", shape |-> <<"rect", 3, 1>>, t0 |-> 0, poses |-> <<<<2, 2, 0>>, <<2, 2, 1>>, <<2, 2, 0>>>>])  \* turning on the spot: {1,2} / {1,3}
W == [L |-> DOMAIN Lan, lan |-> Lan, O |-> DOMAIN Obs, ob |-> Obs]

VARIABLES present, rel, regS, regD, failed, steps, act
vars == <<present, rel, regS, regD, failed, steps, act>>
(* rel[o]: "none" or the recorded shape relation per time step; regS[l] set of static ids; regD[l] set of <<t, o>> *)
NoRel == [t \in {} |-> {}]
Init == /\ present = {} /\ rel = [o \in W.O |-> NoRel] /\ regS = [l \in W.L |-> {}] /\ regD = [l \in W.L |-> {}]
        /\ failed = FALSE /\ steps = 0 /\ act = <<"init", 0>>
Horizon(o) == W.ob[o].t0..LastT(W.ob[o])
Add(o) == /\ o \notin present /\ present' = present \cup {o} /\ rel' = [rel EXCEPT ![o] = NoRel]
          /\ UNCHANGED <<regS, regD, failed>> /\ act' = <<"add", o>>
AssignAll ==
    LET shp(o) == [t \in Horizon(o) |-> ExpShape(W, W.ob[o], t)]
        regOf(o) == IF DEV_StaticRegistersCenter /\ W.ob[o].kind = "static" THEN ExpCenter(W, W.ob[o], W.ob[o].t0)
                    ELSE ExpShape(W, W.ob[o], W.ob[o].t0)
    IN /\ present # {}
       /\ rel' = [o \in W.O |-> IF o \in present THEN shp(o) ELSE rel[o]]
       /\ regS' = [l \in W.L |-> regS[l] \cup {o \in present : W.ob[o].kind = "static" /\ l \in regOf(o)}]
       /\ regD' = [l \in W.L |-> regD[l] \cup {<<t, o>> \in (0..8) \X present :
                                               W.ob[o].kind = "dynamic" /\ t \in Horizon(o) /\ l \in ExpShape(W, W.ob[o], t)}]
       /\ UNCHANGED <<present, failed>> /\ act' = <<"assign", 0>>
Remove(o) ==
    LET t0 == W.ob[o].t0
        ls == IF rel[o] = NoRel THEN {} ELSE rel[o][t0]
    IN /\ o \in present /\ present' = present \ {o}
       /\ IF W.ob[o].kind = "static"
          THEN /\ failed' = (failed \/ \E l \in ls : o \notin regS[l])          \* set.remove raises KeyError
               /\ regS' = [l \in W.L |-> IF l \in ls THEN regS[l] \ {o} ELSE regS[l]] /\ UNCHANGED regD
          ELSE /\ regD' = [l \in W.L |-> {p \in regD[l] : p[2] # o \/ (rel[o] # NoRel /\ p[1] \in DOMAIN rel[o] /\ l \notin rel[o][p[1]])}]
               /\ UNCHANGED <<regS, failed>>
       /\ rel' = [rel EXCEPT ![o] = NoRel] /\ act' = <<"remove", o>>
Next == /\ steps < MaxSteps /\ steps' = steps + 1
        /\ \/ \E o \in W.O : Add(o) \/ Remove(o)
           \/ AssignAll
Spec == Init /\ [][Next]_vars

InvInverseStatic == \A l \in W.L : regS[l] = {o \in present : W.ob[o].kind = "static" /\ rel[o] # NoRel /\ l \in rel[o][W.ob[o].t0]}
InvInverseDynamic == \A l \in W.L : regD[l] = {<<t, o>> \in (0..8) \X present : W.ob[o].kind = "dynamic" /\ rel[o] # NoRel
                                                                              /\ t \in DOMAIN rel[o] /\ l \in rel[o][t]}
InvRemoveTotal == ~failed
InvCentreVsShape == \A o \in W.O : \A t \in Horizon(o) : /\ ExpCenter(W, W.ob[o], t) \subseteq ExpShape(W, W.ob[o], t)
                                                              /\ MustShape(W, W.ob[o], t) \subseteq ExpShape(W, W.ob[o], t)
StKey == [present |-> present, regS |-> regS, steps |-> steps, assigned |-> {o \in W.O : rel[o] # NoRel}]
Emit == PrintT(<<"EDGE", ToJson([from |-> StKey, act |-> act', to |-> StKey'])>>)
===================================================================================
