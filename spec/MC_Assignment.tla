------------------------------- MODULE MC_Assignment -------------------------------
(* Model for C07 over a small lattice world: all histories of add / assign / remove on a scenario   *)
(* with lanelet registries, implementation-shaped (assign records forward relations and updates the  *)
(* registries; remove deletes the registry entries it expects to find).  Invariants: registries are  *)
(* the inverse of the recorded shape relations, assigned relations equal the lattice truth, remove   *)
(* never fails.  DEV_StaticRegistersCenter reproduces the shipped static-obstacle defect.            *)
EXTENDS Assignment, Json
CONSTANTS MaxSteps, DEV_StaticRegistersCenter,
          DEV_ReassignKeepsOld,      \* a repeated assignment only adds registry entries (stale ones of a moved obstacle stay)
          DEV_RemoveNeedsLanelets,   \* remove_obstacle looks up every recorded lanelet and fails if one is gone
          DEV_NetMoveKeepsIndex,     \* LaneletNetwork.translate_rotate leaves the spatial index at the old place: a later
                                     \* assignment looks the lanelets up where they were
          DEV_ForgetsCentre          \* re-assignment / removal drop only the registrations the recorded SHAPE relation names
                                     \* (registrations made by an assignment by centre only stay behind)

Lan == (1 :> <<0, 0, 2, 2>>) @@ (2 :> <<2, 0, 4, 2>>) @@ (3 :> <<0, 2, 2, 4>>)
Obs == (11 :> [kind |-> "static",  shape |-> <<"rect", 2, 1>>, t0 |-> 0, poses |-> <<<<3, 2, 0>>>>]) @@         \* centre in 1, shape on 1 and 2
       (12 :> [kind |-> "static",  shape |-> <<"disc", 1, 0>>, t0 |-> 0, poses |-> <<<<2, 2, 0>>>>]) @@         \* disc touching 2 and 3
       (13 :> [kind |-> "dynamic", shape |-> <<"rect", 1, 1>>, t0 |-> 0, poses |-> <<<<2, 2, 0>>, <<4, 2, 0>>, <<6, 2, 1>>>>]) @@  \* crosses the shared edge
       (14 :> [kind |-> "dynamic", shape |-> <<"poly", 2, 2>>, t0 |-> 1, poses |-> <<<<2, 4, 0>>>>]) @@          \* no prediction, on the edge 1|3
       (15 :> [kind |-> "dynamic", shape |-> <<"rect", 3, 1>>, t0 |-> 0, poses |-> <<<<2, 2, 0>>, <<2, 2, 1>>, <<2, 2, 0>>>>]) @@  \* turning on the spot: {1,2} / {1,3}
       (16 :> [kind |-> "dynamic", shape |-> <<"roff", 1, 1>>, t0 |-> 0, poses |-> <<<<3, 2, 0>>, <<3, 2, 1>>>>])   \* reference point in 1, shape centred in 2
W0 == [L |-> DOMAIN Lan, lan |-> Lan, O |-> DOMAIN Obs, ob |-> Obs]

VARIABLES present, rel, regS, regD, failed, steps, act,
          moved,     \* obstacles that were moved by Shift (obstacle-level translate_rotate) since they were built
          gone,      \* lanelets removed from the network
          crel,      \* recorded CENTRE relation per time step (every assignment records it)
          cmode,     \* obstacles whose registrations follow the centre relation (last assigned with use_center_only)
          netmoved   \* the lanelet network was moved by NetShift (LaneletNetwork.translate_rotate)
vars == <<present, rel, regS, regD, failed, steps, act, moved, gone, crel, cmode, netmoved>>
NetShift == <<2, 0>>                                 \* lanelet boxes are in plain units: two units to the right
ShiftBox(b) == <<b[1] + NetShift[1], b[2] + NetShift[2], b[3] + NetShift[1], b[4] + NetShift[2]>>
Shift == <<4, 0>>                                   \* doubled coordinates: two units to the right
Movable == {11, 13}
ShiftOb(o) == [o EXCEPT !.poses = [i \in DOMAIN @ |-> <<@[i][1] + Shift[1], @[i][2] + Shift[2], @[i][3]>>]]
(* the CURRENT world: remaining lanelets, obstacles at their current poses *)
W == [L |-> DOMAIN Lan \ gone, lan |-> [l \in DOMAIN Lan |-> IF netmoved THEN ShiftBox(Lan[l]) ELSE Lan[l]], O |-> DOMAIN Obs, ob |-> [o \in DOMAIN Obs |-> IF o \in moved THEN ShiftOb(Obs[o]) ELSE Obs[o]]]
(* rel[o]: "none" or the recorded shape relation per time step; regS[l] set of static ids; regD[l] set of <<t, o>> *)
NoRel == [t \in {} |-> {}]
Init == /\ present = {} /\ rel = [o \in W0.O |-> NoRel] /\ regS = [l \in W0.L |-> {}] /\ regD = [l \in W0.L |-> {}]
        /\ failed = FALSE /\ steps = 0 /\ act = <<"init", 0>> /\ moved = {} /\ gone = {}
        /\ crel = [o \in W0.O |-> NoRel] /\ cmode = {} /\ netmoved = FALSE
Horizon(o) == W.ob[o].t0..LastT(W.ob[o])
Add(o) == /\ o \notin present /\ present' = present \cup {o} /\ rel' = [rel EXCEPT ![o] = NoRel]
          /\ crel' = [crel EXCEPT ![o] = NoRel] /\ cmode' = cmode \ {o}
          /\ UNCHANGED <<regS, regD, failed, moved, gone, netmoved>> /\ act' = <<"add", o>>
At(r, t) == IF r # NoRel /\ t \in DOMAIN r THEN r[t] ELSE {}
(* lanelets on which the library looks for registrations of o at t before it re-assigns or removes it *)
Backed(o, t) == At(rel[o], t) \cup (IF DEV_ForgetsCentre THEN {} ELSE At(crel[o], t))
Unreg(l) == IF DEV_ReassignKeepsOld THEN {} ELSE {o \in present : l \in Backed(o, W.ob[o].t0)}
UnregD(l) == IF DEV_ReassignKeepsOld THEN {} ELSE {p \in (0..8) \X present : l \in Backed(p[2], p[1])}
WI == IF DEV_NetMoveKeepsIndex THEN [W EXCEPT !.lan = Lan] ELSE W      \* the world as the spatial index sees it
AssignAll ==
    LET shp(o) == [t \in Horizon(o) |-> ExpShape(WI, W.ob[o], t)]
        cen(o) == [t \in Horizon(o) |-> ExpCenter(WI, W.ob[o], t)]
        regOf(o) == IF DEV_StaticRegistersCenter /\ W.ob[o].kind = "static" THEN ExpCenter(WI, W.ob[o], W.ob[o].t0)
                    ELSE ExpShape(WI, W.ob[o], W.ob[o].t0)
    IN /\ present # {}
       /\ rel' = [o \in W.O |-> IF o \in present THEN shp(o) ELSE rel[o]]
       /\ crel' = [o \in W.O |-> IF o \in present THEN cen(o) ELSE crel[o]] /\ cmode' = cmode \ present
       \* a repeated assignment REPLACES the registrations of the assigned obstacles
       /\ regS' = [l \in W0.L |-> IF l \in gone THEN {} ELSE
                       (regS[l] \ Unreg(l)) \cup {o \in present : W.ob[o].kind = "static" /\ l \in regOf(o)}]
       /\ regD' = [l \in W0.L |-> IF l \in gone THEN {} ELSE
                       (regD[l] \ UnregD(l))
                       \cup {<<t, o>> \in (0..8) \X present :
                                W.ob[o].kind = "dynamic" /\ t \in Horizon(o) /\ l \in ExpShape(WI, W.ob[o], t)}]
       /\ UNCHANGED <<present, failed, moved, gone, netmoved>> /\ act' = <<"assign", 0>>
(* assign_obstacles_to_lanelets(use_center_only=True): only the centre relation is recorded, registrations follow it *)
AssignCenter ==
    LET cen(o) == [t \in Horizon(o) |-> ExpCenter(W, W.ob[o], t)]
    IN /\ present # {}
       /\ crel' = [o \in W.O |-> IF o \in present THEN cen(o) ELSE crel[o]] /\ cmode' = cmode \cup present
       /\ regS' = [l \in W0.L |-> IF l \in gone THEN {} ELSE
                       (regS[l] \ Unreg(l)) \cup {o \in present : W.ob[o].kind = "static" /\ l \in ExpCenter(W, W.ob[o], W.ob[o].t0)}]
       /\ regD' = [l \in W0.L |-> IF l \in gone THEN {} ELSE
                       (regD[l] \ UnregD(l))
                       \cup {<<t, o>> \in (0..8) \X present :
                                W.ob[o].kind = "dynamic" /\ t \in Horizon(o) /\ l \in ExpCenter(W, W.ob[o], t)}]
       /\ UNCHANGED <<present, rel, failed, moved, gone, netmoved>> /\ act' = <<"assign_center", 0>>
Remove(o) ==
    LET t0 == W.ob[o].t0
        ls == Backed(o, t0)
        recorded == UNION {Backed(o, t) : t \in 0..8}
    IN /\ o \in present /\ present' = present \ {o}
       /\ IF W.ob[o].kind = "static"
          THEN /\ failed' = (failed \/ (DEV_RemoveNeedsLanelets /\ ls \cap gone # {}))   \* None.static_obstacles_on_lanelet
               /\ regS' = [l \in W0.L |-> IF l \in ls THEN regS[l] \ {o} ELSE regS[l]] /\ UNCHANGED regD
          ELSE /\ regD' = [l \in W0.L |-> {p \in regD[l] : p[2] # o \/ l \notin Backed(o, p[1])}]
               /\ failed' = (failed \/ (DEV_RemoveNeedsLanelets /\ recorded \cap gone # {}))
               /\ UNCHANGED regS
       /\ rel' = [rel EXCEPT ![o] = NoRel] /\ crel' = [crel EXCEPT ![o] = NoRel] /\ cmode' = cmode \ {o}
       /\ UNCHANGED <<moved, gone, netmoved>> /\ act' = <<"remove", o>>
(* obstacle-level translate_rotate: poses change, recorded relations and registries stay (stale until re-assigned) *)
Move(o) == /\ o \in present /\ o \in Movable /\ o \notin moved /\ moved' = moved \cup {o}
           /\ UNCHANGED <<present, rel, regS, regD, failed, gone, crel, cmode, netmoved>> /\ act' = <<"move", o>>
(* LaneletNetwork.translate_rotate: the lanelets move; recorded relations and registries are stale until re-assigned *)
MoveNetwork == /\ ~netmoved /\ netmoved' = TRUE
               /\ UNCHANGED <<present, rel, regS, regD, failed, moved, gone, crel, cmode>> /\ act' = <<"move_network", 0>>
(* Scenario.remove_lanelet: the lanelet and its registries disappear; obstacles keep the id in their recorded relations *)
RemoveLanelet(l) == /\ l \notin gone /\ gone' = gone \cup {l}
                    /\ regS' = [regS EXCEPT ![l] = {}] /\ regD' = [regD EXCEPT ![l] = {}]
                    /\ UNCHANGED <<present, rel, failed, moved, crel, cmode, netmoved>> /\ act' = <<"remove_lanelet", l>>
Next == /\ steps < MaxSteps /\ steps' = steps + 1
        /\ \/ \E o \in W.O : Add(o) \/ Remove(o) \/ Move(o)
           \/ AssignAll \/ AssignCenter
           \/ RemoveLanelet(2) \/ MoveNetwork
Spec == Init /\ [][Next]_vars

(* after an assignment the recorded relations are the truth of the CURRENT world (moved obstacles, remaining lanelets) *)
PropAssignTruth == [][act'[1] = "assign" => \A o \in present' : \A t \in DOMAIN rel'[o] : rel'[o][t] = ExpShape(W', W'.ob[o], t)]_vars
(* the relation the registrations of o follow: shape (statement) or, after an assignment by centre only, centre *)
Guide(o) == IF o \in cmode THEN crel[o] ELSE rel[o]
InvInverseStatic == \A l \in W.L : regS[l] = {o \in present : W.ob[o].kind = "static" /\ l \in At(Guide(o), W.ob[o].t0)}
InvInverseDynamic == \A l \in W.L : regD[l] = {<<t, o>> \in (0..8) \X present : W.ob[o].kind = "dynamic" /\ l \in At(Guide(o), t)}
InvRemoveTotal == ~failed
InvCentreVsShape == \A o \in W.O : \A t \in Horizon(o) : /\ ExpCenter(W, W.ob[o], t) \subseteq ExpShape(W, W.ob[o], t)
                                                              /\ MustShape(W, W.ob[o], t) \subseteq ExpShape(W, W.ob[o], t)
StKey == [present |-> present, regS |-> regS, steps |-> steps, assigned |-> {o \in W.O : rel[o] # NoRel}, moved |-> moved, gone |-> gone, cmode |-> cmode, netmoved |-> netmoved]
Emit == PrintT(<<"EDGE", ToJson([from |-> StKey, act |-> act', to |-> StKey'])>>)
===================================================================================
