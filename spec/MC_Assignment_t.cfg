SPECIFICATION Spec
CONSTANTS
  MaxSteps = 10
  DEV_StaticRegistersCenter = FALSE
  DEV_ReassignKeepsOld = FALSE
  DEV_RemoveNeedsLanelets = FALSE
  DEV_ForgetsCentre = FALSE
  DEV_NetMoveKeepsIndex = FALSE
INVARIANT InvInverseStatic
INVARIANT InvInverseDynamic
INVARIANT InvRemoveTotal
INVARIANT InvCentreVsShape
PROPERTY PropAssignTruth
