---------------------------- MODULE MC_BenchmarkId ----------------------------
(* Model for C13: one state per case.  Scenario-id cases are initial states; a     *)
(* solution case starts with one (model, type, cost) triple and Extend appends     *)
(* further triples (cooperative solutions) up to MaxList.                          *)
(* Reorder gives the planning problem solutions of a cooperative solution other    *)
(* planning problem ids, in every order (non-ascending, 12 before 3, ...).         *)
(* Reject attempts an assignment of an invalid value that raises: no effect.       *)
(* History dimension: SetField assigns one public field of an id another value of  *)
(* the scope (one step; the object was printed before the assignment).             *)
EXTENDS BenchmarkId
CONSTANTS Countries, MapNames, MapIds, Configs, MaxList, GenMode,
          Wide,                 \* TRUE (thorough): SetField from every id, Reorder on lists with <= 1 triple outside Reps;
                                \* FALSE: SetField from the ids generation executes, Reorder on lists of Reps
          DEV_StoreBeforeValidate,  \* deviation (seeded, not shipped): a validating setter stores the value, then raises
          DEV_SortedIdLists,    \* deviation (seeded, not shipped): the id lists are printed in ascending planning-problem-id order
          DEV_SpellingInEq      \* deviation of the shipped code: == compares the int / list spelling of the prediction ids

VARIABLES c
vars == <<c>>

(* how the caller hands the prediction ids to the constructor: nothing, one number, a list *)
PredChoices == { [pk |-> "none", pred |-> <<>>], [pk |-> "int", pred |-> <<1>>], [pk |-> "int", pred |-> <<7>>],
                 [pk |-> "list", pred |-> <<1>>], [pk |-> "list", pred |-> <<1, 2>>],
                 [pk |-> "list", pred |-> <<3, 1, 2>>] }
ConfigChoices == {<<>>} \cup {<<n>> : n \in Configs}
IdCases ==
  { x \in { [kind |-> "id", pk |-> p.pk,
             f |-> [coop |-> co, country |-> cy, map |-> Word(mn), map_id |-> mi, config |-> cf, beh |-> b,
                    pred |-> p.pred, ver |-> "2020a"]] :
            co \in {0, 1}, cy \in Countries, mn \in MapNames, mi \in MapIds, cf \in ConfigChoices,
            b \in Behaviours \cup {"None"}, p \in PredChoices } : Valid(x.f) }       \* the constructor's validity rules

(* scenario ids used inside solution ids: map only, configuration only, cooperative with one prediction,
   one prediction spelled as a list, cooperative with defaults to fill in + several predictions + the other
   format version.
   lim = longest vehicle list explored with this id *)
SolSeeds ==
  { [pk |-> "none", lim |-> 1, f |-> [coop |-> 0, country |-> "ZAM", map |-> Word("Test"), map_id |-> 1,
                                      config |-> <<>>, beh |-> "None", pred |-> <<>>, ver |-> "2020a"]],
    [pk |-> "none", lim |-> 1, f |-> [coop |-> 0, country |-> "DEU", map |-> Word("US101"), map_id |-> 33,
                                      config |-> <<12>>, beh |-> "None", pred |-> <<>>, ver |-> "2020a"]],
    [pk |-> "int",  lim |-> 2, f |-> [coop |-> 1, country |-> "USA", map |-> Word("A9"), map_id |-> 1,
                                      config |-> <<1>>, beh |-> "T", pred |-> <<1>>, ver |-> "2020a"]],
    [pk |-> "list", lim |-> 1, f |-> [coop |-> 0, country |-> "DEU", map |-> Word("Test"), map_id |-> 1,
                                      config |-> <<1>>, beh |-> "S", pred |-> <<1>>, ver |-> "2020a"]],
    [pk |-> "list", lim |-> 3, f |-> [coop |-> 1, country |-> "CHN", map |-> Word("x1Y"), map_id |-> 33,
                                      config |-> <<>>, beh |-> "I", pred |-> <<3, 1, 2>>, ver |-> "2018b"]] }

(* generation samples the cooperative lists: all singles; longer lists with at most one triple outside Reps *)
Reps == { [m |-> "PM", t |-> 1, c |-> "JB1"], [m |-> "ST", t |-> 2, c |-> "SA1"], [m |-> "KS", t |-> 3, c |-> "SM2"],
          [m |-> "MB", t |-> 4, c |-> "TR1"], [m |-> "KST", t |-> 2, c |-> "WX1"] }
NonReps(vs) == Cardinality({i \in 1..Len(vs) : vs[i] \notin Reps})

SolOf(x) == [vs |-> [i \in 1..Len(x.vs) |-> [m |-> x.vs[i].m, t |-> x.vs[i].t]],
             cs |-> [i \in 1..Len(x.vs) |-> x.vs[i].c], pp |-> x.pp, f |-> x.f]

(* planning problem ids: 1..n in order by default; Reorder explores every injective list over PpIds *)
PpIds == {3, 7, 12}
DefaultPp(n) == [i \in 1..n |-> i]
PpOrders(n) == {q \in [1..n -> PpIds] : \A i, j \in 1..n : i # j => q[i] # q[j]}
Distinct(vs) == \A i, j \in 1..Len(vs) : i # j => vs[i] # vs[j]

Init == \/ c \in IdCases
        \/ \E sd \in SolSeeds, t \in Triples : c = [kind |-> "sol", pk |-> sd.pk, lim |-> sd.lim, f |-> sd.f, vs |-> <<t>>, pp |-> <<1>>]
Extend == /\ c.kind = "sol" /\ Len(c.vs) < c.lim /\ Len(c.vs) < MaxList /\ c.pp = DefaultPp(Len(c.vs))
          /\ \E t \in Triples : /\ GenMode => NonReps(Append(c.vs, t)) <= 1
                                /\ c' = [c EXCEPT !.vs = Append(@, t), !.pp = DefaultPp(Len(c.vs) + 1)]
(* model: lists with at most one triple outside Reps; generation: lists of distinct Reps (they differ in model, cost
   and mostly type, so a misaligned list is visible) *)
Reorder == /\ c.kind = "sol" /\ Len(c.vs) >= 2 /\ c.pp = DefaultPp(Len(c.vs))
           /\ IF GenMode THEN NonReps(c.vs) = 0 /\ Distinct(c.vs) ELSE IF Wide THEN NonReps(c.vs) <= 1 ELSE NonReps(c.vs) = 0
           /\ \E q \in PpOrders(Len(c.vs)) : c' = [c EXCEPT !.pp = q]
(* values a field can be assigned; for the prediction ids also how the value is spelled *)
SetValues(fld) ==
  CASE fld = "coop"    -> {[v |-> x, pk |-> ""] : x \in {0, 1}}
    [] fld = "country" -> {[v |-> x, pk |-> ""] : x \in Countries}
    [] fld = "map"     -> {[v |-> Word(x), pk |-> ""] : x \in MapNames}
    [] fld = "map_id"  -> {[v |-> x, pk |-> ""] : x \in MapIds}
    [] fld = "config"  -> {[v |-> x, pk |-> ""] : x \in ConfigChoices}
    [] fld = "beh"     -> {[v |-> x, pk |-> ""] : x \in Behaviours \cup {"None"}}
    [] fld = "pred"    -> {[v |-> p.pred, pk |-> p.pk] : p \in PredChoices}
    [] fld = "ver"     -> {[v |-> x, pk |-> ""] : x \in Versions}
(* generation executes the assignments on the ids of one map (all shapes of configuration / behaviour / predictions) *)
GenBase(f) == f.map = Word("Test") /\ f.map_id = 1 /\ f.country \in {"ZAM", "DEU"}
(* b = the id the object is after the assignment (differs from the normalised f in the one field);
   bpk = how the constructor is handed b's prediction ids when the value is fetched from a constructed b *)
SetField ==
  /\ c.kind = "id" /\ (GenMode \/ ~Wide => GenBase(c.f))
  /\ \E fld \in FieldNames : \E x \in SetValues(fld) :
       LET na == Normalize(c.f)
           b  == [na EXCEPT ![fld] = x.v]
       IN /\ x.v # na[fld] /\ Normalize(b) = b /\ ValidSet(c.f, fld, b)
          /\ c' = [kind |-> "set", pk |-> c.pk, f |-> c.f, fld |-> fld, b |-> b,
                   bpk |-> IF fld = "pred" THEN x.pk
                           ELSE IF b.pred = <<>> THEN "none" ELSE IF Len(b.pred) = 1 THEN "int" ELSE "list"]
(* rejected assignments: kinds of invalid values per field (the driver concretises them) *)
RejKinds(fld) ==
  CASE fld = "country" -> {"name", "lower", "alpha2", "empty", "unknown3", "long", "int"}
    [] fld = "map"     -> {"none", "int"}
    [] fld = "map_id"  -> {"zero", "negative", "none"}
    [] fld = "config"  -> {"zero", "negative"}
    [] fld = "beh"     -> {"unknown", "lower"}
    [] fld = "pred"    -> {"zero", "list-zero", "empty-list"}
    [] fld = "coop"    -> {"text"}
    [] fld = "ver"     -> {"unknown"}
Reject == /\ c.kind = "id" /\ (GenMode \/ ~Wide => GenBase(c.f))
          /\ GenMode => c.f.coop = 0 /\ c.f.country = "ZAM"
          /\ \E fld \in FieldNames : \E bad \in RejKinds(fld) :
               c' = [kind |-> "rej", pk |-> c.pk, f |-> c.f, fld |-> fld, bad |-> bad]
(* the id after the exception of a rejected assignment was caught; with the deviation a text-valued field keeps the
   rejected value *)
AfterReject(x) == IF DEV_StoreBeforeValidate /\ x.fld \in {"country", "beh", "ver"}
                  THEN [Normalize(x.f) EXCEPT ![x.fld] = x.bad] ELSE Normalize(x.f)
Next == Extend \/ Reorder \/ SetField \/ Reject
Spec == Init /\ [][Next]_vars

LawValid      == CASE c.kind = "id" -> Valid(c.f) [] c.kind = "sol" -> ValidSol(SolOf(c))
                   [] c.kind = "set" -> ValidSet(c.f, c.fld, c.b)
                   [] c.kind = "rej" -> Valid(c.f) /\ c.fld \in FieldNames /\ c.bad \in RejKinds(c.fld)
LawNormal     == c.kind = "id" => NormalLaw(c.f)
LawGrammar    == c.kind = "id" => GrammarLaw(c.f) /\ GrammarTight(c.f)
LawParse      == c.kind = "id" => ParseLaw(c.f)
LawReprint    == c.kind = "id" => ReprintLaw(c.f)
LawSolGrammar == c.kind = "sol" => SolGrammarLaw(SolOf(c))
LawSolParse   == c.kind = "sol" => SolParseLaw(SolOf(c))
LawSolReprint == c.kind = "sol" => SolReprintLaw(SolOf(c))
(* the printed lists are positional.  ImplPrintSol is PrintSol unless the deviation prints them sorted by planning
   problem id while the planning problem solutions (and the written trajectory nodes) keep their order *)
ImplPrintSol(s) == IF DEV_SortedIdLists THEN PrintSol(Arrange(s, SortSeq(s.pp, LAMBDA a, b : a < b))) ELSE PrintSol(s)
LawSolAligned == c.kind = "sol" => SolAlignLaw(SolOf(c), ImplPrintSol(SolOf(c)))
LawSolAll     == c.kind = "sol" => SolLaws(SolOf(c))
(* after an assignment the object is the id After(...) and nothing else: its text is PrintId of that record (the
   specification has no cache), it conforms to the grammar, parses back to itself and reprints identically *)
LawSetPrint   == c.kind = "set" => LET a == After(c.f, c.fld, c.b)
                                   IN /\ a = c.b /\ a[c.fld] # Normalize(c.f)[c.fld] /\ PrintId(a) = Render(a)
                                      /\ (c.fld \notin {"ver"} => PrintId(a) # PrintId(c.f))
                                      /\ GrammarLaw(a) /\ ParseLaw(a) /\ ReprintLaw(a)
LawRejectAtomic == c.kind = "rej" => RejectAtomicLaw(Normalize(c.f), AfterReject(c))
LawReparse    == c.kind = "set" => ReparseLaw(c.f, c.fld, c.b)
(* the int / list spelling of one prediction id is not part of the abstract id: both spellings print alike *)
LawSpelling   == [][c'.f = c.f]_vars

(* implementation-shaped equality of the original and the parsed-back id.  The constructor stores the spelling it was
   given (the default it fills in is the number 1); from_benchmark_id spells one number as an int and several as a
   list.  With DEV_SpellingInEq the spelling takes part in ==, as in the shipped ScenarioID.__eq__: the id built
   with the list [1] is then unequal to its own parsed-back id (finding C13/pred-list-1). *)
CtorSpelling(pk, f) == IF pk = "none" THEN (IF f.beh # "None" THEN "int" ELSE "none") ELSE pk
ParsedSpelling(f)   == LET n == Len(Parse(PrintId(f), f.ver).id.pred)
                       IN IF n = 0 THEN "none" ELSE IF n = 1 THEN "int" ELSE "list"
LawRoundTripEqual ==
  c.kind = "id" => /\ SameId(Parse(PrintId(c.f), c.f.ver).id, Normalize(c.f))
                   /\ DEV_SpellingInEq => CtorSpelling(c.pk, c.f) = ParsedSpelling(c.f)

Emit == PrintT(<<"CASE", ToJson(c)>>)
=================================================================================
