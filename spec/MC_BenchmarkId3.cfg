SPECIFICATION Spec
CONSTANTS
  Countries = {"ZAM", "DEU", "USA", "CHN"}
  MapNames = {"Test", "US101", "A9", "x1Y"}
  MapIds = {1, 33}
  Configs = {1, 12}
  MaxList = 3
  GenMode = FALSE
  Wide = TRUE
  DEV_StoreBeforeValidate = FALSE
  DEV_SortedIdLists = FALSE
  DEV_SpellingInEq = FALSE
INVARIANT LawValid
INVARIANT LawNormal
INVARIANT LawGrammar
INVARIANT LawParse
INVARIANT LawReprint
INVARIANT LawRoundTripEqual
INVARIANT LawSetPrint
INVARIANT LawReparse
INVARIANT LawRejectAtomic
INVARIANT LawSolAll
INVARIANT LawSolAligned
PROPERTY LawSpelling
