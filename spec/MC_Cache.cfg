SPECIFICATION Spec
CONSTANTS
  MaxSteps = 4
  DEV_NoInvalidateOnPredictionTR = FALSE
  DEV_NoReindexOnNetworkTR = FALSE
  DEV_NoInvalidateCycle = FALSE
VIEW View
INVARIANT InvFresh
PROPERTY PropHistory
