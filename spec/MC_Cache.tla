---------------------------------- MODULE MC_Cache ----------------------------------
(* Implementation-shaped model for C11: the primary data of Cache.tla PLUS the caches the code     *)
(* keeps (TrajectoryPrediction.occupancy_set, the network's spatial index over polygon snapshots,  *)
(* TrafficLightCycle.cycle_init_timesteps), one action per public mutator / query; queries fill    *)
(* the caches.  The invariant says every answer equals Recompute(primary).  Deviation constants    *)
(* name the invalidations the shipped code lacks.                                                  *)
EXTENDS Cache, Json

CONSTANTS MaxSteps,
          DEV_NoInvalidateOnPredictionTR,   \* TrajectoryPrediction.translate_rotate keeps the cached occupancy set
          DEV_NoReindexOnNetworkTR,         \* LaneletNetwork.translate_rotate keeps the old spatial index
          DEV_NoInvalidateCycle,            \* TrafficLightCycle setters keep cycle_init_timesteps
          DEV_MergeRebuildOnlyIfAll,        \* add_lanelets_from_network rebuilds the index only if every lanelet was new
          DEV_SetterSkipsSameObject         \* the trajectory setter keeps the occupancy cache when handed the object it already holds

VARIABLES P, occC, idx, cinit, steps, act, ans, exp
vars == <<P, occC, idx, cinit, steps, act, ans, exp>>
View == <<P, occC, idx, cinit, steps, ans = exp>>

Box(x0, y0, x1, y1) == <<<<x0, y0>>, <<x1, y0>>, <<x1, y1>>, <<x0, y1>>>>
Ring3 == Box(0, 1, 2, 2)
P0 == [ob  |-> [has |-> 1, init |-> <<0, 0, 0>>, t0 |-> 0, traj |-> <<<<1, 0, 0>>, <<2, 0, 0>>>>,
               shp |-> <<2, 1>>, pshp |-> <<2, 1>>, hist |-> <<>>],
       net |-> [L |-> {1, 2}, ring |-> [i \in 1..3 |-> IF i = 1 THEN Box(0, 0, 2, 1) ELSE IF i = 2 THEN Box(2, 0, 4, 1) ELSE Ring3]],
       lgt |-> [cyc |-> <<[d |-> 2, c |-> "red"], [d |-> 1, c |-> "green"]>>, off |-> 0]]
Motions == {[tx |-> 1, ty |-> 0, q |-> 0], [tx |-> 0, ty |-> 0, q |-> 1], [tx |-> -1, ty |-> 2, q |-> 3]}
Trajs   == {<<<<5, 5, 1>>>>, <<<<0, 1, 0>>, <<0, 2, 0>>, <<0, 3, 1>>>>}
Cycles2 == {<<[d |-> 1, c |-> "green"], [d |-> 1, c |-> "red"]>>, <<[d |-> 3, c |-> "yellow"]>>}
QPoints == {<<1, 1>>, <<5, 1>>, <<-1, 3>>, <<2, 3>>}          \* doubled coordinates
QTimes  == 0..4

ColIdx(c) == CASE c = "red" -> 0 [] c = "green" -> 1 [] c = "yellow" -> 2
RECURSIVE CycArg(_)
CycArg(c) == IF c = <<>> THEN <<>> ELSE <<c[1].d, ColIdx(c[1].c)>> \o CycArg(Tail(c))
RECURSIVE FlatPoses(_)
FlatPoses(tr) == IF tr = <<>> THEN <<>> ELSE tr[1] \o FlatPoses(Tail(tr))
A(op, lvl, arg) == [op |-> op, lvl |-> lvl, arg |-> arg]
Mut(a) == act' = a /\ steps' = steps + 1 /\ UNCHANGED <<ans, exp>>
Qry(a, got, want) == act' = a /\ steps' = steps + 1 /\ ans' = <<a.op, got>> /\ exp' = <<a.op, want>> /\ UNCHANGED P

NoOcc == [ok |-> 0, traj |-> <<>>, pshp |-> <<0, 0>>]
NoCyc == [ok |-> 0, cyc |-> <<>>, off |-> 0]
Init == /\ P = P0 /\ occC = NoOcc /\ idx = [i \in P0.net.L |-> P0.net.ring[i]] /\ cinit = NoCyc
        /\ steps = 0 /\ act = A("init", "", <<>>) /\ ans = <<"init", 0>> /\ exp = <<"init", 0>>

TR(lvl, m) ==
    LET obs == lvl \in {"scenario", "obstacle", "prediction"}
        nts == lvl \in {"scenario", "network"}
        ob1 == IF obs THEN MoveOb(m, P.ob, lvl # "prediction") ELSE P.ob
        nt1 == IF nts THEN MoveNet(m, P.net, P.net.L) ELSE P.net
    IN /\ (lvl = "prediction" => P.ob.has = 1)
       /\ P' = [P EXCEPT !.ob = ob1, !.net = nt1]
       /\ occC' = IF obs /\ ~DEV_NoInvalidateOnPredictionTR THEN NoOcc ELSE occC
       /\ idx' = IF nts /\ ~DEV_NoReindexOnNetworkTR THEN [i \in nt1.L |-> nt1.ring[i]] ELSE idx
       /\ UNCHANGED cinit /\ Mut(A("tr", lvl, <<m.tx, m.ty, m.q>>))
SetTraj(tr) == /\ P.ob.has = 1 /\ P' = [P EXCEPT !.ob.traj = tr] /\ occC' = NoOcc /\ UNCHANGED <<idx, cinit>>
               /\ Mut(A("set_trajectory", "", FlatPoses(tr)))
(* the prediction's own Trajectory object is edited in place (Trajectory.translate_rotate) and handed back to the setter *)
ReTraj(m) == /\ P.ob.has = 1 /\ P' = [P EXCEPT !.ob.traj = MovePoses(m, @)]
             /\ occC' = (IF DEV_SetterSkipsSameObject THEN occC ELSE NoOcc) /\ UNCHANGED <<idx, cinit>>
             /\ Mut(A("reassign_trajectory", "", <<m.tx, m.ty, m.q>>))
SetPShape(s) == /\ P.ob.has = 1 /\ P' = [P EXCEPT !.ob.pshp = s] /\ occC' = NoOcc /\ UNCHANGED <<idx, cinit>>
                /\ Mut(A("set_pshape", "", s))
UpdPred(tr) == /\ P' = [P EXCEPT !.ob.has = IF tr = <<>> THEN 0 ELSE 1, !.ob.traj = tr, !.ob.pshp = P.ob.shp]
               /\ occC' = NoOcc /\ UNCHANGED <<idx, cinit>> /\ Mut(A("update_prediction", "", FlatPoses(tr)))
UpdInit(pose, maxh) ==
    /\ P' = [P EXCEPT !.ob.hist = HistAfter(P.ob, maxh), !.ob.init = pose, !.ob.t0 = P.ob.t0 + 1,
                      !.ob.has = 0, !.ob.traj = <<>>]
    /\ occC' = NoOcc /\ UNCHANGED <<idx, cinit>> /\ Mut(A("update_initial_state", "", <<pose[1], pose[2], pose[3], maxh>>))
AddLan == /\ 3 \notin P.net.L /\ P' = [P EXCEPT !.net.L = @ \cup {3}]
          /\ idx' = [i \in P.net.L \cup {3} |-> P.net.ring[i]] /\ UNCHANGED <<occC, cinit>> /\ Mut(A("add_lanelet", "", <<3>>))
(* LaneletNetwork.add_lanelets_from_network(src): the loop `flag = flag and self.add_lanelet(la, rtree=False)` adds the   *)
(* source lanelets in order and stops at the first id that is already present; then the index is rebuilt.                *)
RECURSIVE MergeAdd(_, _)
MergeAdd(L, src) == IF src = <<>> \/ Head(src) \in L THEN {} ELSE {Head(src)} \cup MergeAdd(L \cup {Head(src)}, Tail(src))
MergeNet(src) ==
    LET add  == MergeAdd(P.net.L, src)
        net1 == [P.net EXCEPT !.L = @ \cup add, !.ring = [i \in DOMAIN @ |-> IF i \in add THEN P0.net.ring[i] ELSE @[i]]]
    IN /\ P' = [P EXCEPT !.net = net1]
       /\ idx' = IF DEV_MergeRebuildOnlyIfAll /\ add # Range(src) THEN idx ELSE [i \in net1.L |-> net1.ring[i]]
       /\ UNCHANGED <<occC, cinit>> /\ Mut(A("merge_network", "", src))
RemLan(i) == /\ i \in P.net.L /\ P' = [P EXCEPT !.net.L = @ \ {i}]
             /\ idx' = [j \in P.net.L \ {i} |-> P.net.ring[j]] /\ UNCHANGED <<occC, cinit>> /\ Mut(A("remove_lanelet", "", <<i>>))
Inval == IF DEV_NoInvalidateCycle THEN cinit ELSE NoCyc
SetCycle(c) == /\ P' = [P EXCEPT !.lgt.cyc = c] /\ cinit' = Inval /\ UNCHANGED <<occC, idx>>
               /\ Mut(A("set_cycle_elements", "", CycArg(c)))
SetOff(o) == /\ P' = [P EXCEPT !.lgt.off = o] /\ cinit' = Inval /\ UNCHANGED <<occC, idx>> /\ Mut(A("set_offset", "", <<o>>))
SetDur(d) == /\ P' = [P EXCEPT !.lgt.cyc[1].d = d] /\ cinit' = Inval /\ UNCHANGED <<occC, idx>> /\ Mut(A("set_duration", "", <<1, d>>))

QOcc(t) ==
    LET useC == P.ob.has = 1 /\ t > P.ob.t0
        c1   == IF occC.ok = 0 THEN [ok |-> 1, traj |-> P.ob.traj, pshp |-> P.ob.pshp] ELSE occC
        got  == IF ~useC THEN OccAt(P.ob, t)
                ELSE IF t - P.ob.t0 \in 1..Len(c1.traj) /\ InHorizon(P.ob, t) THEN BoxCorners2(c1.traj[t - P.ob.t0], c1.pshp) ELSE {}
    IN /\ occC' = (IF useC THEN c1 ELSE occC) /\ UNCHANGED <<idx, cinit>> /\ Qry(A("occ", "", <<t>>), got, OccAt(P.ob, t))
QState(t) == UNCHANGED <<occC, idx, cinit>> /\ Qry(A("state", "", <<t>>), StateAt(P.ob, t), StateAt(P.ob, t))
QPos(p) == UNCHANGED <<occC, idx, cinit>> /\
           Qry(A("find_pos", "", p), {i \in DOMAIN idx : InRing2(idx[i], p)}, FindByPos(P.net, p))
QShape(p) == UNCHANGED <<occC, idx, cinit>> /\
             Qry(A("find_shape", "", p), {i \in DOMAIN idx : BoxMeets2(idx[i], p, <<1, 1>>)}, FindByShape(P.net, p, <<1, 1>>))
QLight(t) == LET c1 == IF cinit.ok = 0 THEN [ok |-> 1, cyc |-> P.lgt.cyc, off |-> P.lgt.off] ELSE cinit
             IN /\ cinit' = c1 /\ UNCHANGED <<occC, idx>>
                /\ Qry(A("light", "", <<t>>), TL!StateAt(c1.cyc, c1.off, t), LightAt(P.lgt, t))

Next == /\ steps < MaxSteps
        /\ \/ \E lvl \in {"scenario", "obstacle", "prediction", "network"}, m \in Motions : TR(lvl, m)
           \/ \E tr \in Trajs : SetTraj(tr) \/ UpdPred(tr)
           \/ \E m \in Motions : ReTraj(m)
           \/ UpdPred(<<>>) \/ SetPShape(<<1, 1>>)
           \/ \E maxh \in {1, 2} : UpdInit(<<3, 3, 1>>, maxh)
           \/ AddLan \/ \E i \in {1, 2} : RemLan(i)
           \/ \E src \in {<<3>>, <<3, 1>>, <<1, 3>>} : MergeNet(src)
           \/ \E c \in Cycles2 : SetCycle(c)
           \/ SetOff(2) \/ SetDur(3)
           \/ \E t \in QTimes : QOcc(t) \/ QState(t) \/ QLight(t)
           \/ \E p \in QPoints : QPos(p) \/ QShape(p)
Spec == Init /\ [][Next]_vars

InvFresh == ans = exp                              \* every query answers as if recomputed from primary data
InvHistory == Len(P.ob.hist) <= 2
PropHistory == [][act'.op = "update_initial_state" =>
                    P'.ob.hist = LastN(Append(P.ob.hist, P.ob.init), act'.arg[4])]_vars

StKey == [P |-> P, occC |-> occC, idx |-> idx, cinit |-> cinit, steps |-> steps]
Emit == PrintT(<<"EDGE", ToJson([from |-> StKey, act |-> act', to |-> StKey'])>>)
===================================================================================
