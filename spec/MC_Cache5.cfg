SPECIFICATION Spec
CONSTANTS
  MaxSteps = 5
  DEV_NoInvalidateOnPredictionTR = FALSE
  DEV_NoReindexOnNetworkTR = FALSE
  DEV_NoInvalidateCycle = FALSE
  DEV_MergeRebuildOnlyIfAll = FALSE
  DEV_SetterSkipsSameObject = FALSE
VIEW View
INVARIANT InvFresh
PROPERTY PropHistory
