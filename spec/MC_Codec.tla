------------------------------ MODULE MC_Codec ------------------------------
(* Model for C01 / C02 / C03: one state per CASE = [comp, d, desc]: a scenario descriptor in which ONE component  *)
(* (constant Component) runs through its pool exhaustively while all other components stay at a minimal default *)
(* world (lanelets 1..3, planning problem 91), written with decimal precision d.  Component "mixed" draws every   *)
(* component at random from the same pools (seeded, -seed), all at once.  TLC checks the laws of Codec on every   *)
(* case and (GEN configurations) prints it as a CASE line together with the spec's verdicts XmlExpressible /       *)
(* PbExpressible - the harness never decides what a format can express.                                           *)
EXTENDS Codec, Json, Randomization, SequencesExt

CONSTANTS Component,      \* "lanelet" | "sign" | "light" | "intersection" | "obstacle" | "planning" | "header" | "numbers" | "reuse" | "mixed" | "mixedx" | "small" (= planning .. header in one run)
          Precisions,     \* decimal precisions of the numbers component, e.g. {1, 4, 8, 12}
          NMixed,         \* number of random mixed cases
          NShards,        \* the cases are the successors of NShards seed states, so that TLC's workers share the laws
          DEV_XmlDropsHorn,            \* TRUE: the XML writer as shipped before 7d36fa4 - no <horn> element
          DEV_ReaderStopsAtFirstUnset  \* TRUE: the readers as shipped before 600bdde - an initial state is read only up to
                                       \*       its first unset attribute, the rest is replaced by the default

VARIABLE cs
vars == <<cs>>

(* ------------------------------ constructors ------------------------------------------------------------------ *)
Ex(x) == [k |-> "exact", x |-> x]
Iv(lo, hi) == [k |-> "interval", lo |-> lo, hi |-> hi]
PosE(x, y) == [k |-> "exact", x |-> x, y |-> y]
Reg(sh) == [k |-> "region", sh |-> sh]
LanePos == [k |-> "lanelets"]
At2(n, v) == [n |-> n, v |-> v]
TE(t) == [k |-> "exact", t |-> t]
TI(lo, hi) == [k |-> "interval", lo |-> lo, hi |-> hi]
Rect(l, w, o, cx, cy) == [k |-> "rect", l |-> l, w |-> w, o |-> o, cx |-> cx, cy |-> cy]
Circ(r, cx, cy) == [k |-> "circle", r |-> r, cx |-> cx, cy |-> cy]
Poly(n, s) == [k |-> "poly", n |-> n, s |-> s]
Group(parts) == [k |-> "group", parts |-> parts]
St(t, attrs, c) == [t |-> t, a |-> attrs, c |-> c]
Sig(t, bs) == [t |-> t, b |-> bs]
NoPred == [k |-> "none"]
Traj(t0, states, sh) == [k |-> "traj", t0 |-> t0, states |-> states, sh |-> sh]
SetP(t0, occs) == [k |-> "set", t0 |-> t0, occs |-> occs]
Occ(t, sh) == [t |-> t, sh |-> sh]
Obst(role, id, type, sh, init, iss, ser, serNone, pred) ==
  [role |-> role, id |-> id, type |-> type, sh |-> sh, init |-> init, iss |-> iss, ser |-> ser, g |-> [serNone |-> serNone],
   pred |-> pred]
StopP(pts, lm, sref, lref, sN, lN) == [pts |-> pts, lm |-> lm, sref |-> sref, lref |-> lref, g |-> [srefNone |-> sN, lrefNone |-> lN]]
Stop(lm, sref, lref, sN, lN) == StopP(1, lm, sref, lref, sN, lN)
Adj(id, same) == <<[id |-> id, same |-> same]>>
Lanelet(id, nv, geo, lml, lmr, pred, succ, adjL, adjR, stop, types, uow, ubi, signs, lights) ==
  [id |-> id, nv |-> nv, geo |-> geo, lml |-> lml, lmr |-> lmr, pred |-> pred, succ |-> succ, adjL |-> adjL, adjR |-> adjR,
   stop |-> stop, types |-> types, uow |-> uow, ubi |-> ubi, signs |-> signs, lights |-> lights]
XYp(x, y) == <<[x |-> x, y |-> y]>>
SignEl(id, av) == [id |-> id, av |-> av]
Sign(id, els, pos, virt, first) == [id |-> id, els |-> els, pos |-> pos, virt |-> virt, first |-> first]
Cyc(c, d) == [c |-> c, d |-> d]
LightG(id, cyc, off, pos, dir, act, cycNone) == [id |-> id, cyc |-> cyc, off |-> off, pos |-> pos, dir |-> dir, act |-> act, g |-> [cycNone |-> cycNone]]
Light(id, cyc, off, pos, dir, act) == LightG(id, cyc, off, pos, dir, act, 0)
Inc(id, lan, r, s, l, lo) == [id |-> id, lan |-> lan, r |-> r, s |-> s, l |-> l, lo |-> lo]
Inter(id, incs, cross, cN) == [id |-> id, incs |-> incs, cross |-> cross, g |-> [crossNone |-> cN]]
Goal(st, lan) == [st |-> st, lan |-> lan]
PP(id, init, goals, lanNone) == [id |-> id, init |-> init, goals |-> goals, g |-> [lanNone |-> lanNone]]
Geo(ref, xt, yt, zr, sc) == <<[ref |-> ref, xt |-> xt, yt |-> yt, zr |-> zr, sc |-> sc]>>
Env(hh, mm, tod, w, u) == <<[hh |-> hh, mm |-> mm, tod |-> tod, w |-> w, u |-> u]>>
Hdr(dt, cid, tags, gid, lat, lon, geo, env, via) ==
  [dt |-> dt, cid |-> cid, tags |-> tags, gid |-> gid, lat |-> lat, lon |-> lon, geo |-> geo, env |-> env, g |-> [via |-> via]]

(* ------------------------------ the default world ------------------------------------------------------------- *)
DefHdr == Hdr("tenth", "ZAM", <<"URBAN">>, 2867714, "ordinary", "neg", <<>>, <<>>, "scenario")
DefLanelet(id) == Lanelet(id, 2, "one", "NO_MARKING", "NO_MARKING", <<>>, <<>>, <<>>, <<>>, <<>>, <<"URBAN">>, <<>>, <<>>, <<>>, <<>>)
InitAttrsFull == <<At2("position", PosE("ordinary", "neg")), At2("orientation", Ex("angle")), At2("velocity", Ex("one")),
                   At2("acceleration", Ex("half")), At2("yaw_rate", Ex("tenth")), At2("slip_angle", Ex("zero"))>>
InitFull == St(TE(0), InitAttrsFull, "InitialState")
InitOf(S) == St(TE(0), SelectSeq(InitAttrsFull, LAMBDA e : e.n \in S), "InitialState")       \* initial state populating S
PPInit == InitFull      \* with acceleration: the planning pool varies the populated subset
TimeGoal == Goal(St(TI(1, 5), <<>>, "CustomState"), <<>>)
DefPP(id) == PP(id, PPInit, <<TimeGoal>>, 1)
DefSign(id) == Sign(id, <<SignEl(SignIdT[1], <<"50">>)>>, XYp("ordinary", "one"), 0, <<>>)
DefLight(id) == Light(id, <<Cyc("RED", 2), Cyc("GREEN", 3)>>, 0, XYp("one", "ordinary"), "ALL", 1)
World(hdr, l1, signs, lights, inters, obstacles, pps) ==
  [hdr |-> hdr, lanelets |-> <<l1, DefLanelet(2), DefLanelet(3)>>, signs |-> signs, lights |-> lights, inters |-> inters,
   obstacles |-> obstacles, pps |-> pps]
W0 == World(DefHdr, DefLanelet(1), <<>>, <<>>, <<>>, <<>>, <<DefPP(91)>>)

(* ------------------------------ obstacle pool (id 52) ---------------------------------------------------------- *)
DefRect == Rect("ordinary", "one", "zero", "zero", "zero")
Place(pl) == IF pl = "origin" THEN <<"zero", "zero", "zero">> ELSE <<"ordinary", "neg", "angle">>      \* cx, cy, orientation
BasicShapes(pl) == {Rect("long", "one", Place(pl)[3], Place(pl)[1], Place(pl)[2]), Circ("half", Place(pl)[1], Place(pl)[2]),
                    Poly(3, "one"), Poly(4, "ordinary")}
GroupShapes(pl) == {Group(<<Rect("one", "half", Place(pl)[3], Place(pl)[1], Place(pl)[2]), Rect("ordinary", "one", "zero", "one", "one")>>),
                    Group(<<Circ("one", Place(pl)[1], Place(pl)[2]), Circ("half", "one", "zero")>>),
                    Group(<<Poly(3, "one"), Poly(4, "half")>>),
                    Group(<<Rect("one", "half", Place(pl)[3], Place(pl)[1], Place(pl)[2]), Circ("half", "one", "one")>>),
                    Group(<<Poly(3, "one"), Circ("half", "zero", "one"), Rect("one", "one", "zero", "zero", "zero")>>)}
Shapes == BasicShapes("origin") \cup BasicShapes("offset") \cup GroupShapes("origin") \cup GroupShapes("offset")
Shapes4 == BasicShapes("offset")

VKinds == {"exact", "ori_iv", "sc_iv", "pos_rect", "pos_circle", "pos_poly", "pos_grp", "pos_mix"}
TokFor(a) == LET i == CHOOSE j \in DOMAIN AttrOrder : AttrOrder[j] = a IN
             IF a = "orientation" THEN "angle" ELSE NumToks[(i % Len(NumToks)) + 1]
ValFor(a, vk) ==
  IF a = "position"
  THEN CASE vk = "pos_rect"   -> Reg(Rect("one", "half", "angle", "ordinary", "neg"))
         [] vk = "pos_circle" -> Reg(Circ("half", "ordinary", "neg"))
         [] vk = "pos_poly"   -> Reg(Poly(3, "ordinary"))
         [] vk = "pos_grp"    -> Reg(Group(<<Rect("one", "half", "zero", "one", "one"), Rect("half", "one", "angle", "neg", "one")>>))
         [] vk = "pos_mix"    -> Reg(Group(<<Rect("one", "half", "zero", "one", "one"), Circ("half", "neg", "one")>>))
         [] OTHER             -> PosE("ordinary", "neg")
  ELSE IF a = "orientation" /\ vk = "ori_iv" THEN Iv("half", "angle")
  ELSE IF a \notin {"position", "orientation"} /\ vk = "sc_iv" THEN Iv("zero", "ordinary")
  ELSE Ex(TokFor(a))
MkState(c, attrs, t, vk) == St(t, [i \in DOMAIN attrs |-> At2(attrs[i], ValFor(attrs[i], vk))], c)
StateKindsT == SubSeq(StateClassT, 2, Len(StateClassT))                        \* every class but InitialState ...
               \o << <<"CustomState", <<"position", "orientation">> >>,
                     <<"CustomState", <<"position", "orientation", "velocity", "acceleration", "jerk", "jounce">> >>,
                     <<"CustomState", <<"position", "orientation", "curvature", "curvature_rate", "yaw_rate">> >>,
                     <<"CustomState", <<"position", "velocity">> >>,
                     <<"KSState", <<"position", "orientation", "velocity">> >> >>     \* a class with an attribute left unset
StateKinds == {StateKindsT[i] : i \in DOMAIN StateKindsT}
TrajOf(sk, vk, n, sh) == Traj(1, [j \in 1..n |-> MkState(sk[1], sk[2], TE(j), vk)], sh)
DefTraj == TrajOf(<<"KSState", <<"position", "steering_angle", "velocity", "orientation">> >>, "exact", 1, DefRect)
Dyn(type, sh, init, iss, ser, serNone, pred) == Obst("dynamic", 52, type, sh, init, iss, ser, serNone, pred)
Sta(type, sh, init, iss, ser, serNone) == Obst("static", 52, type, sh, init, iss, ser, serNone, NoPred)
EnvO(type, sh) == Obst("environment", 52, type, sh, InitFull, <<>>, <<>>, 1, NoPred)
Pha(pred) == Obst("phantom", 52, "UNKNOWN", DefRect, InitFull, <<>>, <<>>, 1, pred)
OccSamples == { <<Occ(TE(1), DefRect)>>, <<Occ(TE(1), DefRect), Occ(TE(2), Circ("half", "one", "neg"))>>,
                <<Occ(TI(1, 3), Group(<<Rect("one", "half", "angle", "one", "one"), Circ("half", "neg", "one")>>))>>,
                <<Occ(TE(2), Poly(4, "ordinary")), Occ(TI(3, 4), Poly(3, "one")), Occ(TE(5), DefRect)>>,
                <<Occ(TI(0, 2), DefRect)>> }
SetOf(occs) == SetP(IF occs[1].t.k = "exact" THEN occs[1].t.t ELSE occs[1].t.lo, occs)
OTypes == NameSet(ObstacleTypeT)
OType   == {Sta(t, DefRect, InitFull, <<>>, <<>>, 1) : t \in OTypes} \cup {Dyn(t, DefRect, InitFull, <<>>, <<>>, 1, DefTraj) : t \in OTypes}
           \cup {EnvO(t, DefRect) : t \in OTypes}
OShape  == {Sta("PARKED_VEHICLE", sh, InitFull, <<>>, <<>>, 1) : sh \in Shapes}
           \cup {Dyn("CAR", sh, InitFull, <<>>, <<>>, 1, TrajOf(StateKindsT[2], "exact", 1, sh)) : sh \in Shapes}
           \cup {EnvO("BUILDING", sh) : sh \in Shapes} \cup {Pha(SetP(1, <<Occ(TE(1), sh)>>)) : sh \in Shapes}
(* role x shape kind x state kind x value kind, trajectory prediction *)
OTraj   == {Dyn("CAR", sh, InitFull, <<>>, <<>>, 1, TrajOf(sk, vk, 1, sh)) : sh \in Shapes4, sk \in StateKinds, vk \in VKinds}
           \cup {Dyn("BUS", DefRect, InitFull, <<>>, <<>>, 1, TrajOf(sk, vk, 2, DefRect)) : sk \in StateKinds, vk \in VKinds}
(* role x shape kind x value kind of the initial state x prediction kind *)
InitWithPos(v) == St(TE(0), [i \in DOMAIN InitAttrsFull |-> IF InitAttrsFull[i].n = "position" THEN At2("position", v) ELSE InitAttrsFull[i]], "InitialState")
InitVK(vk) == St(TE(0), [i \in DOMAIN InitialAttrs |-> At2(InitialAttrs[i], ValFor(InitialAttrs[i], vk))], "InitialState")
Preds(sh) == {NoPred, TrajOf(StateKindsT[2], "exact", 2, sh)} \cup {SetOf(oc) : oc \in OccSamples}
OInitVK == {Sta("PARKED_VEHICLE", sh, InitVK(vk), <<>>, <<>>, 1) : sh \in Shapes4, vk \in VKinds}
           \cup {Dyn("TRUCK", sh, InitVK(vk), <<>>, <<>>, 1, pr) : sh \in Shapes4, vk \in VKinds, pr \in Preds(DefRect)}
(* every populated subset of the initial-state attributes *)
OInitSub == {Sta("PARKED_VEHICLE", DefRect, InitOf(S), <<>>, <<>>, 1) : S \in SUBSET Range(InitialAttrs)}
            \cup {Dyn("CAR", DefRect, InitOf(S), <<>>, <<>>, 1, DefTraj) : S \in SUBSET Range(InitialAttrs)}
(* signal states: every presence subset of the six booleans x two value patterns; series of length 0..2 *)
SigOf(t, S, p) == Sig(t, [i \in DOMAIN SelectSeq(SignalOrder, LAMBDA n : n \in S) |->
                            At2(SelectSeq(SignalOrder, LAMBDA n : n \in S)[i], (i + p) % 2)])
AllSig == Range(SignalOrder)
Series == { <<<<>>, 1>>, <<<<>>, 0>>, <<<<SigOf(TE(1), AllSig, 0)>>, 0>>,
            <<<<SigOf(TE(1), {"horn"}, 1), SigOf(TI(2, 3), {"braking_lights", "indicator_left"}, 0)>>, 0>>,
            <<<<SigOf(TE(1), {}, 0), SigOf(TE(2), AllSig, 1)>>, 0>> }
OSignal == {Dyn("CAR", DefRect, InitFull, <<SigOf(TE(0), S, p)>>, <<>>, 1, DefTraj) : S \in SUBSET AllSig, p \in {0, 1}}
           \cup {Sta("PARKED_VEHICLE", DefRect, InitFull, <<SigOf(TE(0), S, p)>>, <<>>, 1) : S \in SUBSET AllSig, p \in {0, 1}}
           \cup {Dyn("CAR", DefRect, InitFull, iss, se[1], se[2], pr) :
                   iss \in {<<>>, <<SigOf(TE(0), {"horn", "indicator_right"}, 1)>>}, se \in Series,
                   pr \in {DefTraj, SetOf(<<Occ(TE(1), DefRect)>>)}}
           \cup {Sta("PARKED_VEHICLE", DefRect, InitFull, <<>>, se[1], se[2]) : se \in Series}
OPhantom == {Pha(NoPred)} \cup {Pha(SetOf(oc)) : oc \in OccSamples}
OSetShapes == {Dyn("CAR", DefRect, InitFull, <<>>, <<>>, 1, SetP(1, <<Occ(TE(1), sh), Occ(TI(2, 4), sh2)>>)) :
                 sh \in GroupShapes("offset"), sh2 \in GroupShapes("origin") \cup {DefRect}}
ReId(o, id) == [o EXCEPT !.id = id]
(* near-equal but different shapes in one scenario, both orders (Shape.__eq__ rounds to 10 decimals) *)
NearShapes == { <<Rect("ordinary", "one", "zero", "p3", "one"), Rect("ordinary2", "one2", "negzero", "p3b", "one")>>,
                <<Circ("half", "p3", "zero"), Circ("half2", "p3b", "negzero")>>, <<Poly(4, "one"), Poly(4, "one2")>> }
NearOrdered == NearShapes \cup {<<p[2], p[1]>> : p \in NearShapes}
ONear == {Dyn("CAR", DefRect, InitFull, <<>>, <<>>, 1, SetP(1, <<Occ(TE(1), p[1]), Occ(TE(2), p[2])>>)) : p \in NearOrdered}
         \cup {Dyn("CAR", p[1], InitFull, <<>>, <<>>, 1, TrajOf(StateKindsT[2], "exact", 1, p[2])) : p \in NearOrdered}
         \cup {Dyn("CAR", p[1], InitFull, <<>>, <<>>, 1, SetP(1, <<Occ(TE(1), p[2])>>)) : p \in NearOrdered}
         \cup {Sta("PARKED_VEHICLE", p[1], InitWithPos(Reg(p[2])), <<>>, <<>>, 1) : p \in NearOrdered}
         \cup {Pha(SetP(1, <<Occ(TE(1), Group(<<p[1], p[2]>>))>>)) : p \in NearOrdered}
         \cup {EnvO("BUILDING", Group(<<p[1], p[2]>>)) : p \in NearOrdered}
NearTwoObstacles == {World(DefHdr, DefLanelet(1), <<>>, <<>>, <<>>,
                           <<ReId(Sta("PARKED_VEHICLE", p[1], InitFull, <<>>, <<>>, 1), 51), Sta("PARKED_VEHICLE", p[2], InitFull, <<>>, <<>>, 1)>>,
                           <<DefPP(91)>>) : p \in NearOrdered}
NearPP == {PP(91, PPInit, <<Goal(St(TI(1, 5), <<At2("position", Reg(p[1]))>>, "CustomState"), <<>>),
                            Goal(St(TI(2, 6), <<At2("position", Reg(p[2]))>>, "CustomState"), <<>>)>>, 1) : p \in NearOrdered}
ObstaclePool == ONear \cup OType \cup OShape \cup OTraj \cup OInitVK \cup OInitSub \cup OSignal \cup OPhantom \cup OSetShapes

(* ------------------------------ planning problem pool (id 91) --------------------------------------------------- *)
GoalPosKinds == {"none", "rect", "circle", "poly", "grp", "mix", "lanelets"}
GoalPos(pk) == CASE pk = "rect" -> Reg(Rect("ordinary", "one", "angle", "one", "neg"))
                 [] pk = "circle" -> Reg(Circ("ordinary", "one", "neg"))
                 [] pk = "poly" -> Reg(Poly(4, "ordinary"))
                 [] pk = "grp" -> Reg(Group(<<Circ("one", "one", "one"), Circ("half", "neg", "one")>>))
                 [] pk = "mix" -> Reg(Group(<<Rect("one", "half", "zero", "one", "one"), Poly(3, "one")>>))
                 [] pk = "lanelets" -> LanePos
GoalSt(pk, S, t, exactVals) ==
  St(t, (IF pk = "none" THEN <<>> ELSE <<At2("position", GoalPos(pk))>>)
        \o (IF "orientation" \in S THEN <<At2("orientation", IF exactVals THEN Ex("angle") ELSE Iv("half", "angle"))>> ELSE <<>>)
        \o (IF "velocity" \in S THEN <<At2("velocity", IF exactVals THEN Ex("ordinary") ELSE Iv("zero", "ordinary"))>> ELSE <<>>),
     "CustomState")
GoalOf(pk, S, t, ex) == Goal(GoalSt(pk, S, t, ex), IF pk = "lanelets" THEN <<2, 3>> ELSE <<>>)
Goals1 == {GoalOf(pk, S, t, ex) : pk \in GoalPosKinds, S \in SUBSET {"orientation", "velocity"}, t \in {TI(1, 5), TI(0, 1), TE(7)},
                                  ex \in {FALSE, TRUE}}
PPGoals == {<<gl>> : gl \in Goals1}
           \cup {<<GoalOf(a, {"velocity"}, TI(1, 5), FALSE), GoalOf(b, {}, TI(2, 9), FALSE)>> : a, b \in GoalPosKinds}
PPGoals3 == {<<GoalOf(a, {"velocity"}, TI(1, 5), FALSE), GoalOf("lanelets", {}, TI(2, 9), FALSE), GoalOf(b, {"orientation"}, TI(0, 3), FALSE)>> :
               a, b \in {"none", "rect", "grp", "lanelets"}}
PPInits == {InitOf(S) : S \in SUBSET Range(InitialAttrs)} \cup {InitVK(vk) : vk \in {"ori_iv", "sc_iv", "pos_rect"}}
PPPool == NearPP \cup {PP(91, PPInit, gs, IF \A i \in DOMAIN gs : gs[i].lan = <<>> THEN n ELSE 0) : gs \in PPGoals \cup PPGoals3, n \in {0, 1}}
          \cup {PP(91, ini, <<TimeGoal>>, 1) : ini \in PPInits}

(* ------------------------------ lanelet pool (id 1) ------------------------------------------------------------- *)
LM == NameSet(LineMarkingT)
Lan(nv, geo, lml, lmr, pred, succ, adjL, adjR, stop, types, uow, ubi, signs, lights) ==
  Lanelet(1, nv, geo, lml, lmr, pred, succ, adjL, adjR, stop, types, uow, ubi, signs, lights)
LanDef(lml, lmr, adjL, adjR, stop, types, uow, ubi, signs, lights) ==
  Lan(2, "one", lml, lmr, <<>>, <<>>, adjL, adjR, stop, types, uow, ubi, signs, lights)
Adjs(id) == {<<>>, Adj(id, 1), Adj(id, 0)}
Stops == {Stop(lm, <<21>>, <<31>>, 0, 0) : lm \in LM} \cup {Stop("SOLID", <<>>, <<>>, 1, 1), Stop("SOLID", <<>>, <<>>, 0, 0),
                                                              Stop("DASHED", <<21>>, <<>>, 0, 1), Stop("DASHED", <<>>, <<31>>, 1, 0),
                                                              \* without points: "at the end of the lanelet"
                                                              StopP(0, "SOLID", <<21>>, <<31>>, 0, 0), StopP(0, "BROAD_SOLID", <<>>, <<>>, 1, 1)}
         \cup {StopP(p, "SOLID", sr, lr, 0, 0) : p \in {0, 1}, sr \in {<<21>>, <<21, 22>>}, lr \in {<<31>>, <<31, 32>>}}   \* both kinds, 1 or 2 each
LTypes == NameSet(LaneletTypeT)
Users == NameSet(RoadUserT)
LaneletPool ==
  {LanDef(l, r, <<>>, <<>>, <<>>, <<"URBAN">>, <<>>, <<>>, <<>>, <<>>) : l \in LM, r \in {"SOLID", "UNKNOWN", "NO_MARKING"}}
  \cup {LanDef("SOLID", r, <<>>, <<>>, <<>>, <<"URBAN">>, <<>>, <<>>, <<>>, <<>>) : r \in LM}
  \cup {LanDef("SOLID", "DASHED", a, b, <<>>, <<"URBAN">>, <<>>, <<>>, <<>>, <<>>) : a \in Adjs(2), b \in Adjs(3)}
  \cup {LanDef("SOLID", "DASHED", <<>>, <<>>, <<s>>, <<"URBAN">>, <<>>, <<>>, sr, lr) : s \in Stops, sr \in {<<>>, <<21>>}, lr \in {<<>>, <<31>>}}
  \cup {LanDef("SOLID", "DASHED", <<>>, <<>>, <<>>, <<t>>, <<>>, <<>>, <<>>, <<>>) : t \in LTypes}
  \cup {LanDef("SOLID", "DASHED", <<>>, <<>>, <<>>, ts, <<>>, <<>>, <<>>, <<>>) : ts \in {<<>>, <<"URBAN", "INTERSECTION">>, Names(LaneletTypeT)}}
  \cup {LanDef("SOLID", "DASHED", <<>>, <<>>, <<>>, <<"URBAN">>, <<u>>, <<>>, <<>>, <<>>) : u \in Users}
  \cup {LanDef("SOLID", "DASHED", <<>>, <<>>, <<>>, <<"URBAN">>, <<>>, <<u>>, <<>>, <<>>) : u \in Users}
  \cup {LanDef("SOLID", "DASHED", <<>>, <<>>, <<>>, <<"URBAN">>, Names(RoadUserT), <<"BICYCLE", "PEDESTRIAN">>, <<>>, <<>>)}
  \cup {Lan(3, "ordinary", l, r, <<2>>, <<3>>, a, b, <<s>>, <<"URBAN", "BUS_LANE">>, <<"CAR", "BUS">>, <<"BICYCLE">>, <<21>>, <<31>>) :
          l \in {"SOLID", "BROAD_DASHED", "UNKNOWN"}, r \in {"DASHED", "CURB"}, a \in Adjs(2), b \in Adjs(3),
          s \in {Stop("SOLID", <<21>>, <<31>>, 0, 0), StopP(0, "DASHED", <<21>>, <<>>, 0, 1)}}         \* adjacency + stop line + markings
  \cup {Lan(nv, geo, "SOLID", "DASHED", pr, su, <<>>, <<>>, <<>>, <<"HIGHWAY">>, <<>>, <<>>, <<>>, <<>>) :
          nv \in {2, 3}, geo \in {"one", "ordinary", "long"}, pr \in {<<>>, <<2>>, <<2, 3>>}, su \in {<<>>, <<3>>, <<3, 2>>}}

(* ------------------------------ sign / light / intersection pools ------------------------------------------------ *)
Countries == DOMAIN CountryClass
AVs == {<<>>, <<"50">>, <<"50", "7.5 t">>}
SignPool ==      \* <<sign, country of the scenario>>
  {<<Sign(21, <<SignEl(SignIdT[i], av)>>, XYp("ordinary", "neg"), v, <<>>), c>> : i \in DOMAIN SignIdT, av \in AVs, v \in {0, 1}, c \in Countries}
  \cup {<<Sign(21, <<SignEl(SignIdT[1], <<"30">>), SignEl(SignIdT[i], <<>>)>>, XYp("one", "one"), v, f), "ZAM">> :
          i \in 1..7, v \in {0, 1}, f \in {<<>>, <<1>>, <<1, 2>>}}
SignAllIds == {<<Sign(21, <<SignEl(SignIdGermanyT[i], <<>>)>>, XYp("ordinary", "neg"), 0, <<>>), c>> : i \in DOMAIN SignIdGermanyT, c \in {"ZAM", "DEU"}}
(* virtual = TRUE triggers the known finding C01-virtual-attribute (XML reader): outside this small family XML cases use FALSE *)
VirtualQuota == {Sign(21, <<SignEl(SignIdT[i], <<"50">>)>>, XYp("ordinary", "neg"), 1, <<>>) : i \in 1..3}
QuotaOK(d) == \A s \in Range(d.signs) : s.virt = 1 => [s EXCEPT !.id = 21] \in VirtualQuota        \* whatever id it got
Colors == NameSet(LightStateT)
Cycles == {<<Cyc(a, 1)>> : a \in Colors} \cup {<<Cyc(a, 2), Cyc(b, 30)>> : a, b \in Colors}
          \cup {<<Cyc("RED", 2), Cyc("RED_YELLOW", 1), Cyc(a, 5)>> : a \in Colors}
LightPool ==
  {Light(31, cy, off, XYp("one", "ordinary"), "ALL", 1) : cy \in Cycles, off \in {0, 3}}
  \cup {Light(31, <<Cyc("RED", 2), Cyc("GREEN", 3)>>, off, XYp("ordinary", "neg"), dir, act) :
          off \in {0, 3}, dir \in NameSet(LightDirT), act \in {0, 1}}
  \* protobuf only: an EMPTY cycle (active set through the setter) and no cycle at all x direction x active
  \cup {LightG(31, <<>>, 0, XYp("ordinary", "neg"), dir, act, cn) : dir \in NameSet(LightDirT), act \in {0, 1}, cn \in {0, 1}}
IdSubsets == {<<>>, <<2>>, <<2, 3>>}
Incs1 == {Inc(45, lan, r, s, l, 0) : lan \in {<<1>>, <<1, 2>>}, r \in IdSubsets, s \in IdSubsets, l \in {<<>>, <<3>>}}
InterPool ==
  {Inter(41, <<inc>>, cr[1], cr[2]) : inc \in Incs1, cr \in {<<<<>>, 1>>, <<<<>>, 0>>, <<<<3>>, 0>>}}
  \cup {Inter(41, <<Inc(45, <<1>>, <<2>>, <<>>, <<>>, lo1), Inc(46, <<2>>, <<>>, <<3>>, <<>>, lo2)>>, cr[1], cr[2]) :
          lo1 \in {0, 46}, lo2 \in {0, 45}, cr \in {<<<<>>, 1>>, <<<<3, 1>>, 0>>}}
  \cup {Inter(41, <<Inc(45, <<>>, <<>>, <<>>, <<>>, 0)>>, <<>>, 1)}                 \* default-argument incoming element

(* ------------------------------ header pool ------------------------------------------------------------------------ *)
DefEnv == Env(8, 30, "NIGHT", "FOG", "WET")
HdrWith(tags, geo, env, via) == Hdr("tenth", "ZAM", tags, 2867714, "ordinary", "neg", geo, env, via)
HeaderPool ==
  {HdrWith(<<t>>, <<>>, <<>>, "scenario") : t \in NameSet(TagT)} \cup {HdrWith(ts, <<>>, <<>>, v) : ts \in {<<>>, Names(TagT)}, v \in {"scenario", "writer"}}
  \cup {HdrWith(<<"URBAN">>, <<>>, Env(8, 30, tod, "FOG", "WET"), "scenario") : tod \in NameSet(TimeOfDayT)}
  \cup {HdrWith(<<"URBAN">>, <<>>, Env(0, 0, "NIGHT", w, "WET"), "scenario") : w \in NameSet(WeatherT)}
  \cup {HdrWith(<<"URBAN">>, <<>>, Env(23, 59, "NIGHT", "FOG", u), "scenario") : u \in NameSet(UndergroundT)}
  \cup {HdrWith(<<"URBAN">>, Geo(ref, "ordinary", "neg", "angle", "one"), e, v) : ref \in {"None", "utm"}, e \in {<<>>, DefEnv}, v \in {"scenario", "writer"}}
  \cup {Hdr(dt, c, <<"URBAN">>, gid, "ordinary", "neg", <<>>, <<>>, "scenario") : dt \in {"tenth", "half", "one"}, c \in Countries, gid \in {-999, 0, 2867714}}

(* ------------------------------ numbers: one slot at a time through every token, x precision ---------------------- *)
PosTok == PositiveToks
AnyTok == Range(NumToks)
StaWith(sh, init) == Sta("PARKED_VEHICLE", sh, init, <<>>, <<>>, 1)
InitWith(a, v) == St(TE(0), [i \in DOMAIN InitAttrsFull |-> IF InitAttrsFull[i].n = a THEN At2(a, v) ELSE InitAttrsFull[i]], "InitialState")
NumObst ==
  {StaWith(Rect(t, "one", "zero", "zero", "zero"), InitFull) : t \in PosTok} \cup {StaWith(Rect("one", t, "zero", "zero", "zero"), InitFull) : t \in PosTok}
  \cup {StaWith(Rect("one", "one", t, "zero", "zero"), InitFull) : t \in AngleToks} \cup {StaWith(Rect("one", "one", "zero", t, t), InitFull) : t \in AnyTok}
  \cup {StaWith(Circ(t, "zero", "zero"), InitFull) : t \in PosTok} \cup {StaWith(Circ("one", t, t), InitFull) : t \in AnyTok}
  \cup {StaWith(Poly(n, t), InitFull) : n \in {3, 4}, t \in PosTok}
  \cup {Dyn("CAR", Rect(t, t, "zero", "zero", "zero"), InitFull, <<>>, <<>>, 1, DefTraj) : t \in PosTok}
  \cup {Dyn("CAR", Circ(t, "zero", "zero"), InitFull, <<>>, <<>>, 1, DefTraj) : t \in PosTok}
  \cup {StaWith(DefRect, InitWith("position", PosE(t, t))) : t \in AnyTok}
  \cup {StaWith(DefRect, InitWith(a, Ex(t))) : a \in {"orientation", "velocity", "acceleration", "yaw_rate", "slip_angle"}, t \in AnyTok}
  \cup {StaWith(DefRect, InitWith("velocity", Iv(p[1], p[2]))) : p \in IntervalPairs}
  \cup {StaWith(DefRect, InitWith("orientation", Iv(p[1], p[2]))) : p \in AnglePairs}
  \cup {StaWith(DefRect, InitWith("position", Reg(sh))) :
          sh \in {Rect(t, t, "zero", "zero", "zero") : t \in PosTok} \cup {Rect("one", "one", "zero", t, t) : t \in AnyTok} \cup {Rect("one", "one", t, "one", "one") : t \in AngleToks}
                 \cup {Circ(t, "one", "one") : t \in PosTok}}
  \cup {Dyn("CAR", DefRect, InitFull, <<>>, <<>>, 1,
            Traj(1, <<St(TE(1), <<At2("position", PosE(t, t)), At2("orientation", Ex(t)), At2("velocity", Ex(t)), At2("acceleration", Ex(t))>>, "CustomState")>>, DefRect)) :
          t \in AnyTok}
  \cup {Dyn("CAR", DefRect, InitFull, <<>>, <<>>, 1, SetP(1, <<Occ(TE(1), sh)>>)) :
          sh \in {Rect(t, t, "zero", "zero", "zero") : t \in PosTok} \cup {Rect("one", "one", "zero", t, t) : t \in AnyTok} \cup {Rect("one", "one", t, "one", "one") : t \in AngleToks}
                 \cup {Circ(t, t, t) : t \in PosTok} \cup {Poly(3, t) : t \in PosTok}}
NumHdr == {Hdr(t, "ZAM", <<"URBAN">>, 1, "one", "one", <<>>, <<>>, "scenario") : t \in PosTok}
          \cup {Hdr("tenth", "ZAM", <<"URBAN">>, 1, t, t, <<>>, <<>>, "scenario") : t \in AnyTok}
          \cup {Hdr("tenth", "ZAM", <<"URBAN">>, 1, "one", "one", Geo("utm", t, t, t, "one"), <<>>, "scenario") : t \in AnyTok}
          \cup {Hdr("tenth", "ZAM", <<"URBAN">>, 1, "one", "one", Geo("utm", "one", "one", "zero", t), <<>>, "scenario") : t \in PosTok}
NumLanelet == {Lan(3, t, "SOLID", "DASHED", <<>>, <<>>, <<>>, <<>>, <<Stop("SOLID", <<>>, <<>>, 1, 1)>>, <<"URBAN">>, <<>>, <<>>, <<>>, <<>>) : t \in PosTok}
NumPP == {PP(91, PPInit, <<Goal(St(TI(1, 5), <<At2("position", Reg(sh)), At2("velocity", Iv(p[1], p[2])), At2("orientation", Iv("half", "angle"))>>, "CustomState"), <<>>)>>, 1) :
            sh \in {Rect(t, t, "angle", t, t) : t \in PosTok} \cup {Circ(t, t, t) : t \in PosTok}, p \in IntervalPairs}
         \cup {PP(91, St(TE(0), [i \in DOMAIN PPInit.a |-> At2(PPInit.a[i].n, IF PPInit.a[i].n = "position" THEN PosE(t, t) ELSE Ex(t))], "InitialState"),
                  <<TimeGoal>>, 1) : t \in AnyTok}
NumSign == {Sign(21, <<SignEl(SignIdT[1], <<"50">>)>>, XYp(t, t), 0, <<>>) : t \in AnyTok}
NumLight == {Light(31, <<Cyc("RED", 2)>>, 0, XYp(t, t), "ALL", 1) : t \in AnyTok}

(* ------------------------------ cases ------------------------------------------------------------------------------ *)
Case(comp, d, desc) == [comp |-> comp, d |-> d, desc |-> desc, reuse |-> <<>>]
Ru(edit, w2) == <<[route |-> "writer", edit |-> edit, w2 |-> w2, first |-> "open"]>>
RuT == <<[route |-> "twin", edit |-> "none", w2 |-> "full", first |-> "open"]>>
RuR(edit, first) == <<[route |-> "reader", edit |-> edit, w2 |-> "full", first |-> first]>>
(* (a case that triggers the known finding on virtual signs keeps its plain signature: no writer reuse there) *)
CaseR(comp, d, desc, ru) == [comp |-> comp, d |-> d, desc |-> desc,
                             reuse |-> IF ReuseOK(desc, ru) /\ (\A i \in DOMAIN desc.signs : desc.signs[i].virt = 0) THEN ru ELSE <<>>]
(* one case in three of the mixed draws reuses its writer: a random edit, second write full or scenario-only *)
RandomReuse(i) == LET k == RandomElement(1..44) IN      \* (the parameter keeps TLC from caching one draw)
               IF k > 24 THEN <<>>
               ELSE IF k > 20 THEN RuT
               ELSE IF k > 10 THEN RuR(EditTokens[((k - 1) % Len(EditTokens)) + 1], IF k % 2 = 0 THEN "open" ELSE "open_lanelet_network")
               ELSE Ru(EditTokens[((k - 1) % Len(EditTokens)) + 1], IF k % 2 = 0 THEN "full" ELSE "scenario")
WithL1Refs(sr, lr) == [DefLanelet(1) EXCEPT !.signs = sr, !.lights = lr]
SignsOf(la) == SortIds(Range(la.signs) \cup UNION {Range(s.sref) : s \in Range(la.stop)})
LightsOf(la) == SortIds(Range(la.lights) \cup UNION {Range(s.lref) : s \in Range(la.stop)})
(* a sign must be referenced by a lanelet (2020a); the lanelet under test references what its stop line references *)
EmbedLanelet(la) == LET l2 == [la EXCEPT !.signs = SignsOf(la)] IN
                    World(DefHdr, l2, Map(SignsOf(la), DefSign), Map(LightsOf(la), DefLight), <<>>, <<>>, <<DefPP(91)>>)
EmbedSign(sc) == World([DefHdr EXCEPT !.cid = sc[2]], WithL1Refs(<<21>>, <<>>), <<sc[1]>>, <<>>, <<>>, <<>>, <<DefPP(91)>>)
EmbedLight(t) == World(DefHdr, WithL1Refs(<<>>, <<31>>), <<>>, <<t>>, <<>>, <<>>, <<DefPP(91)>>)
EmbedInter(x) == World(DefHdr, DefLanelet(1), <<>>, <<>>, <<x>>, <<>>, <<DefPP(91)>>)
EmbedObst(o) == World(DefHdr, DefLanelet(1), <<>>, <<>>, <<>>, <<o>>, <<DefPP(91)>>)
EmbedPP(p) == World(DefHdr, DefLanelet(1), <<>>, <<>>, <<>>, <<>>, <<p>>)
EmbedHdr(h) == World(h, DefLanelet(1), <<>>, <<>>, <<>>, <<>>, <<DefPP(91)>>)

NumDescs == {EmbedObst(o) : o \in NumObst} \cup {EmbedHdr(h) : h \in NumHdr} \cup {EmbedLanelet(la) : la \in NumLanelet}
            \cup {EmbedPP(p) : p \in NumPP} \cup {EmbedSign(<<s, "ZAM">>) : s \in NumSign} \cup {EmbedLight(t) : t \in NumLight}

(* mixed: every component drawn at random; lanelet 2 references sign 21 and light 31 so that any draw is well formed *)
(* "mixed": any well-formed pool element; "mixedx": only elements the XML schema can express *)
PoolOK(d) == WellFormed(d) /\ (Component = "mixedx" => XmlExpressible(d) /\ QuotaOK(d))
OkObst == {o \in ObstaclePool : PoolOK(EmbedObst(o))}
OkObstByRole == [r \in {"static", "dynamic"} |-> {o \in OkObst : o.role = r}]
OkPP == {p \in PPPool : PoolOK(EmbedPP(p))}
OkLanelet == {la \in LaneletPool : PoolOK(EmbedLanelet(la))}
OkSign == {sc \in SignPool : PoolOK(EmbedSign(sc))}
OkLight == {t \in LightPool : PoolOK(EmbedLight(t))}
OkInter == {x \in InterPool : PoolOK(EmbedInter(x))}
OkHdr == {h \in HeaderPool : PoolOK(EmbedHdr(h))}
MixedDesc(i) ==
  LET sc == RandomElement(OkSign)
      la == RandomElement(OkLanelet)
      s2 == IF 22 \in Range(SignsOf(la)) THEN <<[sc[1] EXCEPT !.id = 22, !.virt = 0]>> ELSE <<>>      \* what lanelet 1 refers to exists
      t2 == IF 32 \in Range(LightsOf(la)) THEN <<DefLight(32)>> ELSE <<>>
      l2 == [DefLanelet(2) EXCEPT !.signs = <<21>> \o [k \in DOMAIN s2 |-> 22], !.lights = <<31>> \o [k \in DOMAIN t2 |-> 32]]
  IN [hdr |-> [RandomElement(OkHdr) EXCEPT !.cid = sc[2]],
      lanelets |-> <<la, l2, DefLanelet(3)>>,
      signs |-> <<sc[1]>> \o s2, lights |-> <<RandomElement(OkLight)>> \o t2, inters |-> <<RandomElement(OkInter)>>,
      obstacles |-> <<ReId(RandomElement(OkObstByRole["static"]), 51), ReId(RandomElement(OkObstByRole["dynamic"]), 52),
                      ReId(RandomElement(OkObst), 53), ReId(RandomElement(OkObstByRole["dynamic"]), 54)>>,
      pps |-> <<RandomElement(OkPP), ReId(RandomElement(OkPP), 92)>>]

(* a world with every component: lanelet 2 is predecessor / successor / adjacent of its neighbours and nothing else refers *)
(* to it; sign 21 and light 31 are referenced by lanelet 1 and by its stop line                                      *)
RichWorld(o) ==
  [hdr |-> DefHdr,
   lanelets |-> <<Lan(2, "one", "SOLID", "DASHED", <<>>, <<2>>, Adj(2, 1), <<>>, <<Stop("SOLID", <<21>>, <<31>>, 0, 0)>>, <<"URBAN">>, <<"CAR">>,
                      <<>>, <<21>>, <<31>>),
                  [DefLanelet(2) EXCEPT !.pred = <<1>>, !.succ = <<3>>, !.adjR = Adj(1, 1)], [DefLanelet(3) EXCEPT !.pred = <<2>>]>>,
   signs |-> <<DefSign(21)>>, lights |-> <<DefLight(31)>>,
   inters |-> <<Inter(41, <<Inc(45, <<1>>, <<3>>, <<>>, <<>>, 0)>>, <<>>, 0)>>, obstacles |-> <<o>>, pps |-> <<DefPP(91)>>]
ReuseIdTokens == {"natural", "lights_first", "reversed"}
RichObstacles == {Sta("PARKED_VEHICLE", DefRect, InitFull, <<>>, <<>>, 1), Dyn("CAR", DefRect, InitFull, <<>>, <<>>, 1, DefTraj),
                  Pha(SetOf(<<Occ(TE(1), DefRect)>>)), EnvO("BUILDING", DefRect)}
BothRefs(la) == \E s \in Range(la.stop) : s.sref # <<>> /\ s.lref # <<>>
Rotate(comp, pool, Embed(_)) == LET sq == SetToSeq(pool) IN
                                {Case(comp, 4, Renumber(Embed(sq[i]), IdTokens[(i % Len(IdTokens)) + 1])) : i \in DOMAIN sq}
CasesOf(comp) ==
  CASE comp = "obstacle"     -> {Case("obstacle", 4, EmbedObst(o)) : o \in ObstaclePool} \cup {Case("obstacle", 4, w) : w \in NearTwoObstacles}
                                \* ... and the near twin of the scenario written first, by another writer object
                                \cup {CaseR("obstacle", 4, EmbedObst(o), RuT) : o \in ONear} \cup {CaseR("obstacle", 4, w, RuT) : w \in NearTwoObstacles}
    [] comp = "planning"     -> {Case("planning", 4, EmbedPP(p)) : p \in PPPool} \cup {CaseR("planning", 4, EmbedPP(p), RuT) : p \in NearPP}
    \* id-order tokens: ALL of them where the order of ids of different kinds can matter structurally (stop lines that refer
    \* to signs and lights, intersections with two incomings); in rotation over the rest of the pools
    [] comp = "lanelet"      -> {Case("lanelet", 4, Renumber(EmbedLanelet(la), tk)) : la \in {x \in LaneletPool : BothRefs(x)}, tk \in Range(IdTokens)}
                                \cup Rotate("lanelet", {x \in LaneletPool : ~BothRefs(x)}, EmbedLanelet)
    [] comp = "sign"         -> Rotate("sign", SignPool \cup SignAllIds, EmbedSign)
    [] comp = "light"        -> Rotate("light", LightPool, EmbedLight)
    [] comp = "intersection" -> {Case("intersection", 4, Renumber(EmbedInter(x), tk)) : x \in {y \in InterPool : Len(y.incs) = 2}, tk \in Range(IdTokens)}
                                \cup Rotate("intersection", {y \in InterPool : Len(y.incs) # 2}, EmbedInter)
    [] comp = "header"       -> {Case("header", 4, EmbedHdr(h)) : h \in HeaderPool}
    [] comp = "numbers"      -> {Case("numbers", d, desc) : d \in Precisions, desc \in NumDescs}
    [] comp \in {"mixed", "mixedx"} -> {CaseR("mixed", RandomElement(Precisions), Renumber(MixedDesc(i), RandomElement(Range(IdTokens))), RandomReuse(i)) :
                                          i \in 1..NMixed}   \* see ShardCases
    \* writer reuse on a world that has every component: every edit x second write x obstacle role x id-order token
    [] comp = "reuse"        -> {CaseR("reuse", 4, Renumber(RichWorld(o), tk), Ru(ed, w2)) :
                                   o \in RichObstacles, tk \in ReuseIdTokens, ed \in Range(EditTokens), w2 \in {"full", "scenario"}}
                                \cup {CaseR("reuse", 4, Renumber(RichWorld(o), tk), RuR(ed, f)) :
                                        o \in RichObstacles, tk \in ReuseIdTokens, ed \in Range(EditTokens), f \in {"open", "open_lanelet_network"}}
                                \cup {CaseR("reuse", 4, Renumber(RichWorld(o), tk), RuT) : o \in RichObstacles, tk \in ReuseIdTokens}
    \* small witnesses for the deviation configurations (DEV_Codec_*.cfg)
    [] comp = "dev_horn"     -> {Case("obstacle", 4, EmbedObst(Dyn("CAR", DefRect, InitFull, <<SigOf(TE(0), S, 1)>>, <<>>, 1, DefTraj))) :
                                   S \in {{"horn"}, {"horn", "braking_lights"}, {"braking_lights"}}}
    [] comp = "dev_init"     -> {Case("planning", 4, EmbedPP(PP(91, ini, <<TimeGoal>>, 1))) : ini \in PPInits}
SmallComponents == {"planning", "lanelet", "sign", "light", "intersection", "header"}
Cases == IF Component = "small" THEN UNION {CasesOf(c) : c \in SmallComponents} ELSE CasesOf(Component)

(* the pools are generous; WellFormed (constructor preconditions, quantifier text) is the gate.  Shard k holds every *)
(* NShards-th case (random mixed cases: the draws i = k mod NShards); the seed states themselves are not cases.      *)
Seed(k) == [comp |-> "seed", d |-> k, desc |-> <<>>]
IsSeed == cs.comp = "seed"
ShardCases(k) ==
  IF Component \in {"mixed", "mixedx"}
  THEN {c \in {CaseR("mixed", RandomElement(Precisions), Renumber(MixedDesc(i), RandomElement(Range(IdTokens))), RandomReuse(i)) :
                 i \in {j \in 1..NMixed : j % NShards = k - 1}} : WellFormed(c.desc)}
  ELSE LET sq == SetToSeq({c \in Cases : WellFormed(c.desc)}) IN {sq[i] : i \in {j \in DOMAIN sq : j % NShards = k - 1}}
Init == cs \in {Seed(k) : k \in 1..NShards}
Next == IsSeed /\ cs' \in ShardCases(cs.d)
Spec == Init /\ [][Next]_vars

(* ------------------------------ laws checked on every case ---------------------------------------------------------- *)
D == cs.desc
LawWellFormed == WellFormed(D)                                        \* the pools stay inside the common sanity conditions
LawIdempotent == IsSeed \/
  \A fmt \in {"xml", "pb"} : ReadBackOf(fmt, ReadBackOf(fmt, D)) = ReadBackOf(fmt, D)
(* ReadBack is the identity on carried leaves, except that unset attributes of initial states appear with the default *)
InitDefaultPaths == {"initialState." \o AttrShort(InitialAttrs[i]) \o x : i \in DOMAIN InitialAttrs, x \in {"", ".kind"}}
LawIdentityOnCarried == IsSeed \/
  \A fmt \in {"xml", "pb"} :
    LET e == Expected(fmt, D)  c == CarriedLeaves(fmt, D) IN
    /\ SelectSeq(e, LAMBDA l : l[4] \notin {"r0", "rD"} /\ ~(l[3] \in InitDefaultPaths /\ l \notin Range(c)) /\ l[3] # "stopLine.hasPoints")
         = SelectSeq(c, LAMBDA l : l[3] # "stopLine.hasPoints")
    /\ \A l \in Range(e) \ Range(c) : \/ (l[1] \in {"obstacle", "planning"} /\ l[3] \in InitDefaultPaths)
                                       \/ (fmt = "xml" /\ l[1] = "lanelet" /\ l[3] \in {"stopLine", "stopLine.hasPoints"})
LawPopulatedPreserved == IsSeed \/
  \A sq \in Range(AllStates(D)) : PopulatedPreservedFor(PopSet(sq[1]), sq[2])
(* what the expected read-back of a state populates is exactly Populated(written attributes, isInitial) *)
LawExpectedPopulated == IsSeed \/
  LET a == AllStates(D)  b == AllStates(ReadBack(D)) IN
                        \A i \in DOMAIN a : PopSet(b[i][1]) = Populated(PopSet(a[i][1]), a[i][2])
LawCarriedMonotone == IsSeed \/
  \A l \in Range(Leaves(D)) : XmlCarried(l) => PbCarried(l)      \* protobuf carries whatever XML carries
(* a read-back whose reals come back in the required class is accepted by the comparison the trace spec uses *)
LawAccepts == IsSeed \/
  LET proj(fmt, c) == LET lv == Leaves(ReadBackOf(fmt, D)) IN
                                     [i \in DOMAIN lv |-> IF lv[i][4] = "r" THEN <<lv[i][1], lv[i][2], lv[i][3], c>>
                                                          ELSE IF lv[i][4] = "r0" THEN <<lv[i][1], lv[i][2], lv[i][3], "re:zero">>
                                                          ELSE IF lv[i][4] = "rD" THEN <<lv[i][1], lv[i][2], lv[i][3], "re:other">> ELSE lv[i]]
              IN Diffs("xml", Expected("xml", D), proj("xml", "re:within_tol")) = {} /\ Diffs("pb", Expected("pb", D), proj("pb", "re:exact")) = {}

(* ---- implementation-shaped round trip with named deviations (all FALSE: the design after the fixes) ---------------- *)
DropHorn(sg) == [sg EXCEPT !.b = SelectSeq(sg.b, LAMBDA e : e.n # "horn")]
ImplObstacleXml(o) == IF DEV_XmlDropsHorn /\ o.role = "dynamic" THEN [o EXCEPT !.iss = Map(o.iss, DropHorn), !.ser = Map(o.ser, DropHorn)] ELSE o
(* reading stops at the first attribute (InitialState field order) the file does not have *)
ImplFillInitial(st) ==
  LET miss == {i \in DOMAIN InitialAttrs : ~Has(st, InitialAttrs[i])}
      k == IF miss = {} THEN Len(InitialAttrs) + 1 ELSE CHOOSE i \in miss : \A j \in miss : i <= j
  IN IF ~DEV_ReaderStopsAtFirstUnset THEN FillInitial(st)
     ELSE [st EXCEPT !.a = [i \in DOMAIN InitialAttrs |-> IF i < k THEN [n |-> InitialAttrs[i], v |-> Val(st, InitialAttrs[i])]
                                                         ELSE [n |-> InitialAttrs[i], v |-> DefaultVal(InitialAttrs[i])]],
                     !.c = "InitialState"]
ImplReadBack(fmt, d) ==
  LET rb == ReadBackOf(fmt, d) IN
  [rb EXCEPT !.obstacles = [i \in DOMAIN d.obstacles |->
                              LET o == IF fmt = "xml" THEN ImplObstacleXml(d.obstacles[i]) ELSE d.obstacles[i] IN
                              IF o.role \in {"static", "dynamic"} THEN [o EXCEPT !.init = ImplFillInitial(o.init)] ELSE o],
             !.pps = [i \in DOMAIN d.pps |-> [d.pps[i] EXCEPT !.init = ImplFillInitial(d.pps[i].init)]]]
(* Impl => Contract: what the implementation model reads back is accepted by the comparison of the trace spec *)
LawImplConforms == IsSeed \/
  \A fmt \in {"xml", "pb"} :
    LET lv == Leaves(ImplReadBack(fmt, D))
        c == IF fmt = "xml" THEN "re:within_tol" ELSE "re:exact"
        pr == [i \in DOMAIN lv |-> IF lv[i][4] = "r" THEN <<lv[i][1], lv[i][2], lv[i][3], c>>
                                   ELSE IF lv[i][4] = "r0" THEN <<lv[i][1], lv[i][2], lv[i][3], "re:zero">>
                                   ELSE IF lv[i][4] = "rD" THEN <<lv[i][1], lv[i][2], lv[i][3], "re:other">> ELSE lv[i]]
    IN ((fmt = "xml" => XmlExpressible(D)) /\ (fmt = "pb" => PbExpressible(D))) => Diffs(fmt, Expected(fmt, D), pr) = {}

(* the edited scenario of a writer-reuse case is again inside the quantifier, and its contract document is valid *)
LawReuse == IsSeed \/ cs.reuse = <<>> \/
  LET e == EditOf(D, cs.reuse) IN
  /\ WellFormed(e) /\ (XmlExpressible(D) /\ XmlExpressible(e) => ContractDocValid(e))
  /\ (cs.reuse[1].edit \notin {"translate", "none", "retry"} => Leaves(e) # Leaves(D))   \* the edit is visible

(* contract and schema are mutually consistent: the document the contract demands is valid *)
LawSchema == IsSeed \/ (XmlExpressible(D) => ContractDocValid(D))

Emit == IsSeed \/
  PrintT(<<"CASE", ToJson([comp |-> cs.comp, d |-> cs.d, desc |-> cs.desc, reuse |-> cs.reuse,
                           edited |-> IF cs.reuse = <<>> THEN <<>> ELSE <<EditOf(cs.desc, cs.reuse)>>,      \* for the harness to apply
                           xml |-> XmlExpressible(cs.desc) /\ XmlExpressible(EditOf(cs.desc, cs.reuse)),
                           pb |-> PbExpressible(cs.desc) /\ PbExpressible(EditOf(cs.desc, cs.reuse)), q |-> QuotaOK(cs.desc)])>>)

(* the tables of Codec.tla, printed once: the harness checks its value tables against them *)
ASSUME PrintT(<<"TABLE", ToJson([enums |-> EnumTables, pbenums |-> [k \in DOMAIN PbEnums |-> SetToSeq(PbEnums[k])],
                                 numtoks |-> NumToks \o NearToks, near |-> SetToSeq(NearPairs), positive |-> SetToSeq(PositiveToks), intervals |-> SetToSeq(IntervalPairs), angletoks |-> SetToSeq(AngleToks),
                                 attrs |-> AttrT, classes |-> StateClassT, signids |-> SignIdT \o SignIdGermanyT, signals |-> SignalT,
                                 countries |-> [c \in DOMAIN CountryClass |-> SetToSeq(CountryClass[c])],
                                 xsd |-> [k \in DOMAIN Enums |-> SetToSeq(Enums[k])], xsdtags |-> TagSeq])>>)
=============================================================================
