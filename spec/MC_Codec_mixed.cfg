SPECIFICATION Spec
CONSTANTS
  Component = "mixed"
  Precisions = {1, 4, 8, 12}
  NMixed = 300
  NShards = 16
  DEV_XmlDropsHorn = FALSE
  DEV_ReaderStopsAtFirstUnset = FALSE
INVARIANT LawIdempotent
INVARIANT LawIdentityOnCarried
INVARIANT LawPopulatedPreserved
INVARIANT LawExpectedPopulated
INVARIANT LawAccepts
INVARIANT LawImplConforms
INVARIANT LawSchema
INVARIANT LawReuse
