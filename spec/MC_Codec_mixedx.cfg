SPECIFICATION Spec
CONSTANTS
  Component = "mixedx"
  Precisions = {1, 4, 8, 12}
  NMixed = 300
INVARIANT LawIdempotent
INVARIANT LawIdentityOnCarried
INVARIANT LawPopulatedPreserved
INVARIANT LawExpectedPopulated
INVARIANT LawAccepts
INVARIANT LawSchema
