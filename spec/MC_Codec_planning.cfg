SPECIFICATION Spec
CONSTANTS
  Component = "planning"
  Precisions = {1, 4, 8, 12}
  NMixed = 0
INVARIANT LawIdempotent
INVARIANT LawIdentityOnCarried
INVARIANT LawPopulatedPreserved
INVARIANT LawExpectedPopulated
INVARIANT LawCarriedMonotone
INVARIANT LawAccepts
INVARIANT LawSchema
