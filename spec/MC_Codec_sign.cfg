SPECIFICATION Spec
CONSTANTS
  Component = "sign"
  Precisions = {1, 4, 8, 12}
  NMixed = 0
INVARIANT LawWellFormed
INVARIANT LawIdempotent
INVARIANT LawIdentityOnCarried
INVARIANT LawPopulatedPreserved
INVARIANT LawCarriedMonotone
INVARIANT LawAccepts
