---------------------------- MODULE MC_CommonRoad ----------------------------
(* Implementation-shaped model for X10: the world of CommonRoad.tla (primary data of ALL subsystems in one     *)
(* scenario) PLUS what the code keeps besides it - the occupancy cache of the trajectory prediction, the        *)
(* network's spatial index (a snapshot of the polygons), the id counter, and after a copy the object left       *)
(* behind with ITS cache - one action per public call, operations of different subsystems freely interleaved.   *)
(* Checked: the world invariant (conjunction of the subsystem invariants), refinement of the contract           *)
(* (Clause(...) = "" for every step, i.e. exactly what trace validation demands of the real library), freshness *)
(* of every cache-backed answer, independence of the original after a copy, and the laws of the contract        *)
(* operators on every reachable world.  Deviation constants name conceivable cross-subsystem defects (1-5, 7;  *)
(* 5 and 7 were shipped and are fixed: abb8e3d, f1f621b) and one shipped behaviour reported as a finding (6);   *)
(* with all of them FALSE the model is the repaired design.  GEN / SIM configurations generate with all FALSE.  *)
EXTENDS CommonRoad, Json

CONSTANTS MaxSteps,                   \* bound on the length of a history
          Acts,                       \* operation names explored by this configuration
          Rich,                       \* TRUE: the larger argument sets
          DEV_ReadDropsRegistries,    \* open(lanelet_assignment=True) assigns the obstacles but leaves the lanelet registries empty
          DEV_NetworkTRKeepsIndex,    \* translate_rotate on the network keeps the spatial index of the old polygons
          DEV_ReplaceLeaksIds,        \* replace_lanelet_network keeps the ids of the old network reserved
          DEV_CopySharesOccCache,     \* deepcopy / pickle: the copy's prediction shares the cached occupancy set with the original
          DEV_ReassignKeepsStale,     \* (fixed, abb8e3d) assign_obstacles_to_lanelets only adds registry entries
          DEV_MergeStopsAtDuplicate,  \* SHIPPED: add_lanelets_from_network stops adding at the first id that is already present
          DEV_RemoveNeedsLanelets     \* (fixed, f1f621b) remove_obstacle raises when a recorded relation names a lanelet that left / was replaced

VARIABLES st, occC, idx, cnt, origC, shared, steps, act, hist, ans, exp
vars == <<st, occC, idx, cnt, origC, shared, steps, act, hist, ans, exp>>
View == <<st, occC, idx, cnt, origC, shared, steps, ans = exp>>

W == st.W
NoOcc == [ok |-> 0, traj |-> <<>>, pshp |-> <<0, 0>>]
Snap(w) == [i \in LanU |-> w.ring[i]]
E(op, a, s) == [op |-> op, a |-> a, s |-> s, exc |-> "None", gid |-> 0]

Init == /\ st = St0 /\ occC = NoOcc /\ idx = Snap(W0) /\ cnt = 1 /\ origC = NoOcc /\ shared = FALSE
        /\ steps = 0 /\ act = E("init", <<>>, "") /\ hist = <<>> /\ ans = <<"init">> /\ exp = <<"init">>

(* ---- argument sets ------------------------------------------------------------------------------------------ *)
Motions == {<<1, 0, 0>>, <<0, 0, 1>>, <<-1, 2, 3>>} \cup (IF Rich THEN {<<0, -2, 2>>, <<2, 1, 1>>} ELSE {})
Levels  == {<<"scenario", 0>>, <<"network", 0>>, <<"pps", 0>>, <<"obstacle", 31>>, <<"obstacle", 32>>}
AssignArgs == {<<-1>>, <<31, -1>>, <<-1, 1>>, <<31, 32, -1, 0, 2>>} \cup (IF Rich THEN {<<32, -1>>, <<-1, 0>>, <<31, -1, 2, 3>>} ELSE {})
Trajs   == {<<5, 5, 1>>, <<0, 1, 0, 0, 2, 0, 0, 3, 1>>}
QPoints == {<<1, 1>>, <<5, 1>>, <<-1, 3>>, <<2, 3>>} \cup (IF Rich THEN {<<3, 5>>, <<-3, -1>>} ELSE {})     \* doubled coordinates
QBoxes  == {<<1, 5, 1, 3>>, <<-1, 7, -1, 7>>}
QTimes  == 0..3
Cycles  == {<<1, 1, 1, 0>>, <<3, 2>>}

(* ---- one mutating call: primary data by the contract's Step (deviations excepted), caches the way the code does ---- *)
Dev(e, w1) ==      \* the world the deviating implementation produces instead of w1 = Step(st, e)
    IF DEV_ReadDropsRegistries /\ e.op = "open" /\ e.a[1] = 1 THEN [w1 EXCEPT !.regS = EmptyF, !.regD = EmptyF]
    ELSE IF DEV_ReplaceLeaksIds /\ e.op = "replace" /\ ExpRes(st, e) = "ok" THEN [w1 EXCEPT !.ids = @ \cup W.ids]
    ELSE IF DEV_ReassignKeepsStale /\ e.op = "assign" THEN [w1 EXCEPT !.regS = [l \in LanU |-> @[l] \cup W.regS[l]],
                                                                      !.regD = [l \in LanU |-> @[l] \cup W.regD[l]]]
    ELSE IF DEV_MergeStopsAtDuplicate /\ e.op = "merge" THEN
         LET RECURSIVE upTo(_)
             upTo(q) == IF q = <<>> \/ Head(q) \in W.L THEN {} ELSE {Head(q)} \cup upTo(Tail(q))
         IN AddLanelets(W, upTo(e.a))
    ELSE w1
RemoveRaises(e) ==     \* the recorded relation of the obstacle names a lanelet that is absent, or one whose registry lost the time step
    /\ DEV_RemoveNeedsLanelets /\ e.op = "remove_obstacle"
    /\ LET ob == W.ob[e.a[1]] IN
       \/ \E l \in (ob.rel.is \cup {x[2] : x \in ob.rel.sa}) : l \notin W.L
       \/ IsDyn(ob) /\ \E x \in ob.rel.sa : x[2] \in W.L /\ ~\E y \in W.regD[x[2]] : y[1] = x[1]
Expected(e) == ExpRes(st, e)
Outcome(e) == IF RemoveRaises(e) THEN [e EXCEPT !.exc = "exc:AttributeError"]
              ELSE IF Expected(e) = "ValueError" THEN [e EXCEPT !.exc = "exc:ValueError"] ELSE e
TouchesOcc(e) == \/ e.op = "tr" /\ (e.s = "scenario" \/ (e.s = "obstacle" /\ e.a[4] = 31))
                 \/ e.op \in {"update_prediction", "update_initial_state", "open"}
                 \/ e.op \in {"remove_obstacle", "add_obstacle"} /\ e.a[1] = 31
Canon(e) == IF e.op = "file" THEN [e EXCEPT !.op = "open"] ELSE e      \* "file" = write_to_file, then open on what was written
Mut(e0) ==
    LET e  == Outcome(Canon(e0))
        w1 == IF RemoveRaises(e0) THEN W ELSE Dev(e, Step(st, e))
    IN /\ e0.op \in Acts /\ Enabled(st, Canon(e0))
       /\ st' = Post(st, e, w1)
       /\ occC' = IF TouchesOcc(e) THEN NoOcc ELSE occC
       /\ origC' = IF e.op = "copy" THEN occC ELSE IF e.op = "open" THEN NoOcc
                   ELSE IF shared /\ TouchesOcc(e) THEN NoOcc ELSE origC                \* a shared cache is emptied for both
       /\ shared' = IF e.op = "copy" THEN DEV_CopySharesOccCache ELSE IF e.op = "open" THEN FALSE ELSE shared
       /\ idx' = IF DEV_NetworkTRKeepsIndex /\ e.op = "tr" /\ e.s = "network" THEN idx ELSE Snap(w1)
       /\ cnt' = IF e.op = "open" THEN 0 ELSE cnt
       /\ act' = e /\ hist' = Append(hist, e0) /\ UNCHANGED <<ans, exp>>
GenId == LET m == IF W.ids = {} THEN cnt ELSE IF C!MaxC({<<i, i>> : i \in W.ids}, 1) > cnt THEN C!MaxC({<<i, i>> : i \in W.ids}, 1) ELSE cnt
         IN m + 1
Gen(op) == LET e == [E(op, <<>>, "") EXCEPT !.gid = GenId] IN
           /\ op \in Acts /\ Cardinality(st.gen) < 2
           /\ st' = Post(st, e, Step(st, e)) /\ cnt' = GenId
           /\ act' = e /\ hist' = Append(hist, E(op, <<>>, "")) /\ UNCHANGED <<occC, origC, shared, idx, ans, exp>>

(* ---- queries: cache-backed answers next to Recompute(primary) ------------------------------------------------ *)
Qry(e, got, want) == /\ e.op \in Acts /\ Enabled(st, e)
                     /\ act' = e /\ hist' = Append(hist, e) /\ ans' = <<e.op, got>> /\ exp' = <<e.op, want>>
                     /\ UNCHANGED <<st, idx, cnt, shared>>
FillFrom(c, ob) == IF c.ok = 0 THEN [ok |-> 1, traj |-> ob.traj, pshp |-> ob.pshp] ELSE c
CacheAnswer(c, ob, t) == IF t - ob.t0 \in 1..Len(c.traj) /\ C!InHorizon(ob, t) THEN C!BoxCorners2(c.traj[t - ob.t0], c.pshp) ELSE {}
QOcc(o, t) ==
    LET ob   == W.ob[o]
        useC == o = 31 /\ ob.has = 1 /\ t > ob.t0
        c1   == FillFrom(occC, ob)
    IN /\ o \in W.O
       /\ occC' = (IF useC THEN c1 ELSE occC) /\ origC' = (IF useC /\ shared THEN c1 ELSE origC)
       /\ Qry(E("occ", <<o, t>>, ""), IF useC THEN CacheAnswer(c1, ob, t) ELSE OccAtW(ob, t), OccAtW(ob, t))
QOrig(t) ==
    LET ob == st.orig.ob[31]
        useC == 31 \in st.orig.O /\ ob.has = 1 /\ t > ob.t0
        c1   == FillFrom(origC, ob)
    IN /\ st.hasOrig /\ 31 \in st.orig.O
       /\ origC' = (IF useC THEN c1 ELSE origC) /\ occC' = (IF useC /\ shared THEN c1 ELSE occC)
       /\ Qry(E("check_orig", <<t>>, ""), IF useC THEN CacheAnswer(c1, ob, t) ELSE OccAtW(ob, t), OccAtW(ob, t))
Plain(e, v) == UNCHANGED <<occC, origC>> /\ Qry(e, v, v)
QPos(p)   == UNCHANGED <<occC, origC>> /\
             Qry(E("find_pos", p, ""), {i \in W.L : idx[i] # <<>> /\ C!InRing2(idx[i], p)}, C!FindByPos(CNet(W), p))
QShape(p) == UNCHANGED <<occC, origC>> /\
             Qry(E("find_shape", p, ""), {i \in W.L : idx[i] # <<>> /\ C!BoxMeets2(idx[i], p, <<1, 1>>)}, C!FindByShape(CNet(W), p, <<1, 1>>))

Next ==
    /\ steps < MaxSteps /\ steps' = steps + 1
    /\ \/ \E lv \in Levels, m \in Motions : Mut(E("tr", <<m[1], m[2], m[3], lv[2]>>, lv[1]))
       \/ \E a \in AssignArgs : Mut(E("assign", a, ""))
       \/ \E o \in {31, 32, 3} : Mut(E("add_obstacle", <<o>>, ""))
       \/ \E o \in W.O : Mut(E("remove_obstacle", <<o>>, ""))
       \/ Gen("gen") \/ Gen("gen_add")
       \/ \E l \in LanU : Mut(E("add_lanelet", <<l>>, "")) \/ \E r \in {0, 1} : Mut(E("remove_lanelet", <<l, r>>, ""))
       \/ Mut(E("add_sign", <<1>>, "")) \/ Mut(E("add_light", <<1, 2>>, "")) \/ Mut(E("remove_sign", <<>>, "")) \/ Mut(E("remove_light", <<>>, ""))
       \/ \E N \in {"NA", "NB"} : Mut(E("replace", <<>>, N))
       \/ Mut(E("erase", <<>>, ""))
       \/ \E c \in {<<2, 2>>, <<6, 2>>} : Mut(E("cutout", c, ""))
       \/ \E src \in {<<3>>, <<3, 1>>, <<1, 3>>} : Mut(E("merge", src, ""))
       \/ \E h \in {1, 2} : Mut(E("update_initial_state", <<31, 3, 3, 1, h>>, ""))
       \/ \E tr \in Trajs \cup {<<>>} : Mut(E("update_prediction", <<31>> \o tr, ""))
       \/ \E c \in Cycles : Mut(E("set_cycle", c, ""))
       \/ Mut(E("set_offset", <<2>>, ""))
       \/ \E f \in {"xml", "pb"}, la \in {0, 1} : Mut(E("file", <<la>>, f))
       \/ \E k \in {"deepcopy", "pickle"} : Mut(E("copy", <<>>, k))
       \/ \E t \in QTimes : QOcc(31, t) \/ QOrig(t)
       \/ QOcc(32, 1)
       \/ \E p \in QPoints : QPos(p) \/ QShape(p)
       \/ \E t \in {0, 2} : /\ 31 \in W.O
                            /\ Plain(E("state", <<31, t>>, ""), StateAtW(W.ob[31], t))
       \/ \E t \in {1, 4} : Plain(E("light", <<t>>, ""), IF W.T = {} THEN "" ELSE C!LightAt(W.lgt, t))
       \/ \E b \in QBoxes, t \in {0, 2} : Plain(E("by_box", b \o <<t>>, ""), ByBox(W, b, t, FALSE))
       \/ \E t \in {1, 3} : Plain(E("states_at", <<t>>, ""), 0) \/ Plain(E("occs_at", <<t>>, ""), 0)
       \/ \E g \in {<<6, 2, 5>>, <<5, 2, 11>>} : Plain(E("goal", g, ""), 0)
Spec == Init /\ [][Next]_vars

(* ---- the contract as invariants / action properties ---------------------------------------------------------- *)
InvWorld     == Inv(W)                                   \* conjunction of the subsystem invariants, after every call of every subsystem
InvFresh     == ans = exp                                \* C11: cache-backed answers = Recompute(primary), whatever happened in between
InvOrigFresh == (act.op = "check_orig") => ans = exp     \* the object left behind by a copy answers from ITS primary data
InvOrigKept  == st.hasOrig => Inv(st.orig)
PropRefines  == [][IF act'.op \in QueryOps THEN st'.W = st.W ELSE Clause(st, act', st'.W) = ""]_vars
PropFrame    == [][(act'.op \in QueryOps \cup {"gen", "copy"}) => st'.W = st.W]_vars
PropCopyKeepsOriginal == [][(st.hasOrig /\ act'.op \notin {"copy", "open"}) => st'.orig = st.orig]_vars
PropGenFresh == [][act'.op \in {"gen", "gen_add"} => GenOk(st, act'.gid)]_vars
InvLaws      == /\ LawMustMay(W) /\ LawAssignInverse(W) /\ LawAssignIdempotent(W) /\ LawReadBackIdempotent(W)
                /\ \A m \in {Mo(x) : x \in Motions} : LawUndo(W, m) /\ LawMotionKeepsAssignment(W, m)

(* ---- generation --------------------------------------------------------------------------------------------- *)
EmitEdge == PrintT(<<"EDGE", ToJson([from |-> [steps |-> steps, h |-> hist], act |-> hist'[Len(hist')], to |-> [steps |-> steps', h |-> hist']])>>)
EmitHist == (steps = MaxSteps) => PrintT(<<"CASE", ToJson([hist |-> hist])>>)
=================================================================================
