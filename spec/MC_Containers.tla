----------------------------- MODULE MC_Containers -----------------------------
(* Implementation-shaped model for X01: what the shipped classes do (a dict keyed by id; a   *)
(* state list indexed by position t - t0; a first-match scan over the occupancy list and     *)
(* Python's max() for the final time step), one action per public call.  Every action logs   *)
(* the event the harness would log (`act`), and TLC checks that the contract of              *)
(* Containers.tla accepts every step (Clause(...) = "") together with the laws of the        *)
(* contract operators.  Deviation constants name shipped / conceivable behaviour that breaks *)
(* the contract; with all of them FALSE the model is the repaired design.                    *)
EXTENDS Containers, Json

CONSTANTS
    Domains,                    \* subset of {"pps", "traj", "pred", "res"} explored by this configuration
    NIds, NTags, MaxList,       \* planning problems <<id, tag>> in (1..NIds) x (0..NTags-1), length of constructor lists
    TValMax, T0Max, MaxTLen,    \* time steps 0..TValMax in constructor lists, initial time steps 0..T0Max, max list length
    QMax,                       \* query / append times -1..QMax
    OccMax, MaxOccs,            \* occupancy bounds 0 <= lo <= hi <= OccMax, list length
    RNumMax, RQs, RPMax, RTMax, \* resampling requests: N in 1..RNumMax, dT = p/q (q in RQs, p in 1..RPMax), stamps 0..tmax <= RTMax
    DEV_AddOverwrites,          \* add_planning_problem replaces the problem of a used id (no ValueError)
    DEV_GapAppendPositional,    \* SHIPPED: append_state accepts any larger time step, lookups stay positional
    DEV_FinalPyMax              \* SHIPPED: final_time_step = max() under Interval's partial order (start > other.end)

VARIABLES dom, plive, S, tr, pr, act
vars == <<dom, plive, S, tr, pr, act>>
View == <<dom, plive, S, tr, pr>>

PIdU == 1..NIds
PTagU == 0..(NTags - 1)
TVals == 0..TValMax
T0s == 0..T0Max
QT == -1..QMax
OccT == 0..OccMax
SeqsUpTo(U, n) == UNION {[1..k -> U] : k \in 0..n}
Problems == PIdU \X PTagU
OccU     == {<<a, b>> \in OccT \X OccT : a <= b}
OccSeqs  == SeqsUpTo(OccU, MaxOccs)
B(x)     == IF x THEN 1 ELSE 0

Init == /\ dom \in Domains
        /\ plive = FALSE /\ S = {} /\ tr = NoTraj
        /\ pr \in (IF dom = "pred" THEN [t0 : T0s, occs : OccSeqs]
                  ELSE IF dom = "res" THEN {r \in [num : 1..RNumMax, p : 1..RPMax, q : RQs, a : 0..3, tmax : 1..RTMax] :
                                              r.a <= r.tmax * r.q + 1}
                  ELSE {[t0 |-> 0, occs |-> <<>>]})
        /\ act = [op |-> "init"]

(* ---- PlanningProblemSet: self._planning_problem_dict ------------------------------------ *)
LastWins(q) == {q[i] : i \in {i \in DOMAIN q : \A j \in DOMAIN q : j > i => q[j][1] # q[i][1]}}   \* dict comprehension
PostOf(X)   == CHOOSE f \in [1..Cardinality(X) -> X] : Range(f) = X      \* the contents as a list (any order)
PNew(q) == /\ ~plive /\ plive' = TRUE /\ S' = LastWins(q)
           /\ act' = [op |-> "p_new", q |-> q, res |-> "ok", post |-> PostOf(LastWins(q)), bad |-> 0]
PAdd(p) == LET dup == p[1] \in PIds(S)
               S1  == IF ~dup THEN S \cup {p}
                      ELSE IF DEV_AddOverwrites THEN {x \in S : x[1] # p[1]} \cup {p} ELSE S
           IN /\ plive /\ S' = S1 /\ UNCHANGED plive
              /\ act' = [op |-> "p_add", p |-> p, res |-> IF dup /\ ~DEV_AddOverwrites THEN "ValueError" ELSE "ok",
                         post |-> PostOf(S1), bad |-> 0]
PFind(i) == /\ plive /\ UNCHANGED <<plive, S>>
            /\ act' = [op |-> "p_find", i |-> i, res |-> IF i \in PIds(S) THEN "ok" ELSE "KeyError",
                       tag |-> IF i \in PIds(S) THEN PTag(S, i) ELSE -1, same |-> B(i \in PIds(S)),
                       post |-> PostOf(S), bad |-> 0]
PSetDict == /\ plive /\ UNCHANGED <<plive, S>>
            /\ act' = [op |-> "p_setdict", res |-> "warned", post |-> PostOf(S), bad |-> 0]
PTranslate == /\ plive /\ UNCHANGED <<plive, S>>
              /\ act' = [op |-> "p_translate", res |-> "ok", post |-> PostOf(S), bad |-> 0]
PNext == /\ dom = "pps" /\ UNCHANGED <<dom, tr, pr>>
         /\ \/ \E q \in SeqsUpTo(Problems, MaxList) : PNew(q)
            \/ \E p \in Problems : PAdd(p)
            \/ \E i \in PIdU : PFind(i)
            \/ PSetDict \/ PTranslate

(* ---- Trajectory: self._initial_time_step, self._state_list ------------------------------- *)
ImplAt(ts, t) == IF ts # <<>> /\ ts[1] <= t /\ t < ts[1] + Len(ts) THEN t - ts[1] + 1 ELSE 0     \* positional lookup
It0(ts)  == IF ts = <<>> THEN 0 ELSE ts[1]
TLive    == tr.ts # <<>>
TNew(a0, q) ==
    LET ok == q # <<>> /\ q[1] = a0 IN
    /\ ~TLive
    /\ tr' = IF ok THEN [ts |-> q, wild |-> ~Contiguous(q)] ELSE tr
    /\ act' = [op |-> "t_new", a0 |-> a0, q |-> q, res |-> IF ok THEN "ok" ELSE "AssertionError",
               ts |-> IF ok THEN q ELSE <<>>, it0 |-> IF ok THEN a0 ELSE 0]
TAppend(t) ==
    LET last == tr.ts[Len(tr.ts)]
        ok   == IF DEV_GapAppendPositional THEN t > last ELSE t = last + 1
        ts1  == IF ok THEN Append(tr.ts, t) ELSE tr.ts
    IN /\ TLive /\ Len(tr.ts) < MaxTLen
       /\ tr' = [tr EXCEPT !.ts = ts1]
       /\ act' = [op |-> "t_append", t |-> t, res |-> IF ok THEN "ok" ELSE "AssertionError", ts |-> ts1, it0 |-> It0(ts1)]
TQuery(a) == TLive /\ UNCHANGED tr /\ act' = a
TAt(t)   == TQuery([op |-> "t_at", t |-> t, res |-> "ok", idx |-> ImplAt(tr.ts, t), ts |-> tr.ts, it0 |-> It0(tr.ts)])
TFinal   == TQuery([op |-> "t_final", res |-> "ok", idx |-> Len(tr.ts), ts |-> tr.ts, it0 |-> It0(tr.ts)])
TRange(a, b) == TQuery([op |-> "t_range", a |-> a, b |-> b, res |-> IF b < a THEN "AssertionError" ELSE "ok",
                        idxs |-> IF b < a THEN <<>> ELSE [k \in 1..(b - a + 1) |-> ImplAt(tr.ts, a + k - 1)],
                        ts |-> tr.ts, it0 |-> It0(tr.ts)])
TPred    == TQuery([op |-> "t_pred", res |-> "ok", occ |-> [i \in DOMAIN tr.ts |-> <<tr.ts[i], tr.ts[i]>>],
                    init |-> tr.ts[1], fin |-> tr.ts[Len(tr.ts)], ts |-> tr.ts, it0 |-> It0(tr.ts)])
RangeArgs == {<<a, b>> \in QT \X QT : b >= a - 1 /\ b <= a + 3}
TNext == /\ dom = "traj" /\ UNCHANGED <<dom, plive, S, pr>>
         /\ \/ \E a0 \in T0s : \E q \in SeqsUpTo(TVals, 3) : TNew(a0, q)
            \/ \E t \in QT : TAppend(t) \/ TAt(t)
            \/ TFinal \/ TPred
            \/ \E ab \in RangeArgs : TRange(ab[1], ab[2])

(* ---- Prediction: value-like, one state per (initial time step, occupancy list) ---------- *)
ImplOccAt(occs, t) == IF Matches(occs, t) = {} THEN 0 ELSE Min(Matches(occs, t))     \* first match of the scan
RECURSIVE PyMaxFrom(_, _, _)
PyMaxFrom(occs, i, best) == IF i > Len(occs) THEN best      \* max(): replace when item > best; Interval.__gt__: start > other.end
                            ELSE PyMaxFrom(occs, i + 1, IF occs[i][1] > best[2] THEN occs[i] ELSE best)
ImplFinal(occs) == IF DEV_FinalPyMax THEN PyMaxFrom(occs, 2, occs[1])
                   ELSE occs[CHOOSE i \in DOMAIN occs : \A j \in DOMAIN occs : occs[j][2] <= occs[i][2]]

(* ---- resampling: value-like; the repaired design samples t_0 + k*dT for k = 0..N exactly ---------- *)
ResEvent(r) ==
    LET e0 == [op |-> "r_resample", num |-> r.num, p |-> r.p, q |-> r.q, a |-> r.a, tmax |-> r.tmax] IN
    IF ~RInside(e0) THEN [op |-> "r_resample", num |-> r.num, p |-> r.p, q |-> r.q, a |-> r.a, tmax |-> r.tmax,
                          res |-> "AssertionError", cnt |-> 0, steps |-> <<>>, vq |-> <<>>, xq |-> <<>>, exact |-> 1]
    ELSE LET v == [k \in 1..(r.num + 1) |-> SampleQ(r.a + (k - 1) * r.p, r.q)] IN
         [op |-> "r_resample", num |-> r.num, p |-> r.p, q |-> r.q, a |-> r.a, tmax |-> r.tmax,
          res |-> "ok", cnt |-> r.num + 1, steps |-> [k \in 1..(r.num + 1) |-> k - 1], vq |-> v, xq |-> v, exact |-> 1]

Next == PNext \/ TNext
Spec == Init /\ [][Next]_vars

(* ---- the contract, as invariants and action properties of the implementation model ------ *)
InvPpsUnique      == PUnique(S)
PropPpsRejectAtomic == [][(act'.op = "p_add" /\ act'.res = "ValueError") => S' = S]_vars
PropPpsRefines    == [][dom = "pps" => (PClause(S, act') = "" /\ S' = Range(act'.post))]_vars
PropTrajRefines   == [][dom = "traj" => (TClause(tr, act') = "" /\ tr' = TPost(tr, act'))]_vars
Doc               == dom = "traj" /\ TLive /\ ~tr.wild        \* a trajectory inside the documented assumptions
InvTrajIncreasing == Doc => Increasing(tr.ts)
InvTrajIndexContig == (Doc /\ Contiguous(tr.ts)) => LawIndexContig(tr.ts[1], Len(tr.ts), QT)
InvTrajIndexHit   == Doc => LawIndexHit(tr.ts, QT)
InvTrajFinal      == Doc => LawFinalIsLast(tr.ts)
InvTrajRange      == Doc => (LawRangeSplit(tr.ts, QT) /\ LawRangeLen(tr.ts, QT))
PropAppendLaw     == [][(Doc /\ act'.op = "t_append" /\ act'.res = "ok") =>
                          /\ IndexOf(tr'.ts, act'.t) = Len(tr'.ts)
                          /\ \A u \in QT : u # act'.t => IndexOf(tr'.ts, u) = IndexOf(tr.ts, u)]_vars
InvOccAtRefines   == dom = "pred" => \A t \in QT :
                        OClause([op |-> "o_at", t0 |-> pr.t0, occs |-> pr.occs, t |-> t, res |-> "ok",
                                 idx |-> ImplOccAt(pr.occs, t)]) = ""
InvFinalRefines   == (dom = "pred" /\ pr.occs # <<>>) =>
                        OClause([op |-> "o_final", occs |-> pr.occs, res |-> "ok", fin |-> ImplFinal(pr.occs)]) = ""
InvOccLaws        == dom = "pred" => /\ LawIntervalCovers(pr.occs) /\ LawExact(pr.occs, QT)
                                     /\ LawWithinFinal(pr.occs, QT) /\ LawBeyondNone(pr.t0, pr.occs, QT)

InvResample       == dom = "res" => /\ RClause(ResEvent(pr)) = ""
                                    /\ LawResampleInside(ResEvent(pr)) /\ LawSampleKnots(pr.q, pr.tmax)

(* ---- generation (GEN configurations, -workers 1) ---------------------------------------- *)
StKey == [d |-> dom, pl |-> B(plive), S |-> PostOf(S), ts |-> tr.ts, w |-> B(tr.wild)]
EmitEdge == PrintT(<<"EDGE", ToJson([from |-> StKey, act |-> act', to |-> StKey'])>>)
EmitCase == /\ (dom = "pred") => PrintT(<<"CASE", ToJson([t0 |-> pr.t0, occs |-> pr.occs])>>)
            /\ (dom = "res") => PrintT(<<"CASE", ToJson(pr)>>)
=================================================================================
