SPECIFICATION Spec
CONSTANTS
  Domains = {"pps", "traj", "pred", "res"}
  NIds = 3
  NTags = 2
  MaxList = 3
  TValMax = 4
  T0Max = 2
  MaxTLen = 5
  QMax = 7
  OccMax = 4
  MaxOccs = 3
  RNumMax = 6
  RQs = {1, 2, 4, 3, 10}
  RPMax = 3
  RTMax = 3
  DEV_AddOverwrites = FALSE
  DEV_GapAppendPositional = FALSE
  DEV_FinalPyMax = FALSE
VIEW View
INVARIANT InvPpsUnique
INVARIANT InvTrajIncreasing
INVARIANT InvTrajIndexContig
INVARIANT InvTrajIndexHit
INVARIANT InvTrajFinal
INVARIANT InvTrajRange
INVARIANT InvOccAtRefines
INVARIANT InvFinalRefines
INVARIANT InvOccLaws
INVARIANT InvResample
PROPERTY PropPpsRejectAtomic
PROPERTY PropPpsRefines
PROPERTY PropTrajRefines
PROPERTY PropAppendLaw
