--------------------------- MODULE MC_DrawParamTree ---------------------------
(* Implementation-shaped model for X04.                                                          *)
(*  dom = "tree":  parameter objects on a heap (store: object id -> field values; a tree maps    *)
(*     its nodes to object ids, so sharing of nested groups between two trees is expressible);   *)
(*     one action per public call: constructor (+ __post_init__), attribute / item assignment,   *)
(*     item read, save + load, copy.deepcopy, ==.                                                *)
(*  dom = "life" / "sign" / "focus":  one MPRenderer: its buffers (static, dynamic, labels,       *)
(*     traffic-sign list), what is attached to the axes, the artists remove_dynamic knows,        *)
(*     plot limits, focus obstacle, plot centre; one action per public mutator.                   *)
(* Every action logs the event the harness would log (`act`); TLC checks that the contract of    *)
(* DrawParamTree.tla accepts every step (Clause(...) = "") and that the model state equals the   *)
(* re-synchronised contract state, plus the laws of the contract operators.  Deviation constants *)
(* name shipped / conceivable behaviour that breaks the contract; all FALSE = repaired design.   *)
EXTENDS DrawParamTree, Json

CONSTANTS
    Domains,                    \* subset of {"tree", "life", "sign", "focus"}
    TNames,                     \* tree names used by the model (subset of Names)
    NewClasses,                 \* classes the model constructs
    MaxOid,                     \* heap size
    TbToks,                     \* non-default values of time_begin
    TbSteps, PTbSteps,          \* focus domain: renderer-default / per-call time_begin values
    DEV_SharedDefaults,         \* nested default groups are shared between objects of one class (mutable default)
    DEV_NoCtorPropagation,      \* __post_init__ does not hand the base parameters down
    DEV_SetItemSilent,          \* SHIPPED: node[key] = v for an unknown key never raises (and is handed down)
    DEV_LoadParentWins,         \* SHIPPED: load() rebuilds through the constructors: nested base values are overwritten
    DEV_LoadValidatesRoot,      \* SHIPPED: load(validate_types=True) validates against MPDrawParams whatever the class
    DEV_SignParamsGlobal,       \* SHIPPED: one TrafficSignParams for all signs of a frame (last typed per-call object), MPDrawParams ignored
    DEV_FocusTruncates,         \* SHIPPED: plot_limits_focused casts limits and centre to int
    DEV_CenterFromTrajectory,   \* SHIPPED: label / plot centre from initial_state only if time_begin = 0, else from the trajectory
    DEV_SetNoneIgnored,         \* SHIPPED: plot_limits = None keeps the old limits
    DEV_TrajsRecolour,          \* SHIPPED: draw_trajectories(unique_colors) writes facecolor into the parameter object it was given
    DEV_PerCallLeaks,           \* per-call parameters become the renderer default
    DEV_RenderKeepsDynamic      \* render() does not flush the dynamic buffers

VARIABLES dom, store, tree, aT, rv, cR, act
(* aT: the trees as the contract sees them (derived: aT = AbsT(tree, store));  cR: the contract's renderer state          *)
(* (history variable: cR' = RPost(cR, act'))                                                                              *)
vars == <<dom, store, tree, aT, rv, cR, act>>


B(x) == IF x THEN 1 ELSE 0
RECURSIVE SetToSeq(_)
SetToSeq(S) == IF S = {} THEN <<>> ELSE LET x == CHOOSE y \in S : TRUE IN <<x>> \o SetToSeq(S \ {x})
MinOf(S) == CHOOSE x \in S : \A y \in S : x <= y
RECURSIVE NthMin(_, _)
NthMin(S, i) == IF i = 1 THEN MinOf(S) ELSE NthMin(S \ {MinOf(S)}, i - 1)

(* ============================== dom = "tree" ============================================ *)
Oids     == 1..MaxOid
AllFields == UNION {Scalars(c) : c \in Classes}
Blank    == [f \in AllFields |-> DefTok]
NoTree   == [cls |-> "", at |-> <<>>]
Live(tr) == {n \in TNames : tr[n].cls # ""}
UsedBy(tr, N) == UNION {Range(tr[n].at) : n \in N}
FcTok    == "'#070707'"
ToksOf(f) == IF f \in Base THEN TbToks \cup {DefTok} ELSE {FcTok}
LoadRoot == "MPDrawParams"

ValOfIn(tr, st, n) == LET c == tr[n].cls IN
    {<<m, f, st[tr[n].at[m]][f]>> : <<m, f>> \in {x \in NodesBy[c] \X AllFields : Declares(c, x[1], x[2]) /\ st[tr[n].at[x[1]]][x[2]] # DefTok}}
AbsT(tr, st) == [n \in Names |-> IF n \in TNames /\ tr[n].cls # "" THEN [cls |-> tr[n].cls, val |-> ValOfIn(tr, st, n)] ELSE Absent]
PostSeq(tr, st) == SetToSeq({[name |-> n, cls |-> tr[n].cls, val |-> SetToSeq(ValOfIn(tr, st, n))] : n \in Live(tr)})
Gc(tr, st) == [o \in Oids |-> IF o \in UsedBy(tr, TNames) THEN st[o] ELSE Blank]

(* construction menu: entries <<node, field, token>> *)
KwMenu(c) ==
  CASE c = "ArrowParams" -> {{}, {<<<<>>, "time_begin", "7">>}, {<<<<>>, "facecolor", FcTok>>}}
    [] c = "StateParams" -> {{}, {<<<<>>, "time_begin", "7">>}, {<<<<"arrow">>, "time_begin", "8">>},
                             {<<<<>>, "time_begin", "7">>, <<<<"arrow">>, "time_begin", "8">>, <<<<"arrow">>, "facecolor", FcTok>>},
                             {<<<<>>, "facecolor", FcTok>>}}
    [] c = "InitialStateParams" -> {{}, {<<<<>>, "time_begin", "7">>}, {<<<<"state">>, "time_begin", "8">>},
                                    {<<<<"state", "arrow">>, "time_begin", "8">>, <<<<"state">>, "facecolor", FcTok>>}}
    [] c = "MPDrawParams" -> {{}, {<<<<>>, "time_begin", "7">>}, {<<<<"initial_state">>, "time_begin", "8">>},
                              {<<<<>>, "time_begin", "7">>, <<<<"initial_state", "state">>, "time_begin", "8">>}}

InitTok(K, n, f)  == IF \E e \in K : e[1] = n /\ e[2] = f THEN (CHOOSE e \in K : e[1] = n /\ e[2] = f)[3] ELSE DefTok
FinalTok(K, n, f) == IF f \in Base /\ ~DEV_NoCtorPropagation THEN InitTok(K, <<>>, f) ELSE InitTok(K, n, f)

(* NOTE (TLC): LET definitions of an ACTION are re-evaluated at every use; every computed value is therefore bound by *)
(* assigning a primed variable first (tree', then store', then act') and the operators below are expression-level.     *)
NewTree(name, c) ==
    LET others == TNames \ {name}
        donor  == IF DEV_SharedDefaults /\ \E t \in others : tree[t].cls = c
                  THEN {CHOOSE t \in others : tree[t].cls = c} ELSE {}
        ns     == SetToSeq(NodesBy[c])
        free   == Oids \ UsedBy(tree, others)
        at     == [n \in NodesBy[c] |-> IF n # <<>> /\ donor # {} THEN tree[CHOOSE t \in donor : TRUE].at[n]
                                        ELSE NthMin(free, CHOOSE i \in 1..Len(ns) : ns[i] = n)]
    IN [tree EXCEPT ![name] = [cls |-> c, at |-> at]]
NewStore(name, c, K, tr2) ==
    LET at     == tr2[name].at
        shared == {o \in Range(at) : \E t \in TNames \ {name} : o \in Range(tr2[t].at)}
        st1    == [o \in Oids |->
                    IF o \notin Range(at) THEN store[o]
                    ELSE LET n == CHOOSE m \in NodesBy[c] : at[m] = o IN
                         [f \in AllFields |-> IF ~Declares(c, n, f) THEN DefTok
                                              ELSE IF o \in shared /\ f \notin Base THEN store[o][f]
                                              ELSE IF o \in shared /\ DEV_NoCtorPropagation THEN store[o][f]
                                              ELSE FinalTok(K, n, f)]]
    IN Gc(tr2, st1)
TNew(name, c, K) ==
    /\ tree' = NewTree(name, c)
    /\ store' = NewStore(name, c, K, tree')
    /\ act' = [op |-> "d_new", name |-> name, cls |-> c, kw |-> SetToSeq(K), res |-> "ok"]

(* __setattr__: set where declared, then hand the assignment down to every nested group *)
WriteAll(st, c, at, n, f, v) ==
    LET hit == {at[m] : m \in Targets(c, n, f)} IN [o \in Oids |-> IF o \in hit THEN [st[o] EXCEPT ![f] = v] ELSE st[o]]
SetRejected(name, n, f, via) == via = "item" /\ ~Declares(tree[name].cls, n, f) /\ ~DEV_SetItemSilent
TSet(name, n, f, v, via) ==
    /\ tree[name].cls # "" /\ n \in NodesBy[tree[name].cls]
    /\ store' = IF SetRejected(name, n, f, via) THEN store ELSE WriteAll(store, tree[name].cls, tree[name].at, n, f, v)
    /\ UNCHANGED tree
    /\ act' = [op |-> "d_set", name |-> name, path |-> n, field |-> f, tok |-> v, via |-> via,
               res |-> IF SetRejected(name, n, f, via) THEN "KeyError" ELSE "ok"]
GetRec(name, n, key) ==
    LET cn == ClassAt[tree[name].cls][n] IN
    [op |-> "d_get", name |-> name, path |-> n, key |-> key,
     res |-> IF key \in Scalars(cn) \cup KidNames(cn) THEN "ok" ELSE "KeyError",
     kind |-> IF key \in Scalars(cn) THEN "scalar" ELSE IF key \in KidNames(cn) THEN "group" ELSE "",
     tok |-> IF key \in Scalars(cn) THEN store[tree[name].at[n]][key] ELSE "",
     same |-> 1]
TGet(name, n, key) ==
    /\ tree[name].cls # "" /\ n \in NodesBy[tree[name].cls]
    /\ UNCHANGED <<tree, store>>
    /\ act' = GetRec(name, n, key)
(* a fresh, unshared copy of the tree src under the name dst; base values optionally re-derived from the root *)
CloneTree(src, dst) ==
    LET c    == tree[src].cls
        ns   == SetToSeq(NodesBy[c])
        free == Oids \ UsedBy(tree, TNames \ {dst})
        at   == [n \in NodesBy[c] |-> NthMin(free, CHOOSE i \in 1..Len(ns) : ns[i] = n)]
    IN [tree EXCEPT ![dst] = [cls |-> c, at |-> at]]
CloneStore(src, dst, tr2, parentwins) ==
    LET c    == tree[src].cls
        at   == tr2[dst].at
        st1  == [o \in Oids |-> IF o \notin Range(at) THEN store[o]
                                ELSE LET n == CHOOSE m \in NodesBy[c] : at[m] = o IN
                                     [f \in AllFields |-> IF parentwins /\ f \in Base THEN store[tree[src].at[<<>>]][f]
                                                          ELSE store[tree[src].at[n]][f]]]
    IN Gc(tr2, st1)
LoadFails(src, validate) == DEV_LoadValidatesRoot /\ validate = 1 /\ tree[src].cls # LoadRoot
TRound(src, dst, validate) ==
    /\ tree[src].cls # "" /\ src # dst
    /\ tree' = IF LoadFails(src, validate) THEN tree ELSE CloneTree(src, dst)
    /\ store' = IF LoadFails(src, validate) THEN store ELSE CloneStore(src, dst, tree', DEV_LoadParentWins)
    /\ act' = [op |-> "d_round", src |-> src, dst |-> dst, validate |-> validate,
               res |-> IF LoadFails(src, validate) THEN "exc" ELSE "ok"]
TCopy(src, dst) ==
    /\ tree[src].cls # "" /\ src # dst
    /\ tree' = CloneTree(src, dst)
    /\ store' = CloneStore(src, dst, tree', FALSE)
    /\ act' = [op |-> "d_copy", src |-> src, dst |-> dst, res |-> "ok"]
TEq(a, b) ==
    /\ tree[a].cls # "" /\ tree[b].cls # ""
    /\ UNCHANGED <<tree, store>>
    /\ act' = [op |-> "d_eq", a |-> a, b |-> b,
               res |-> IF tree[a].cls = tree[b].cls /\ ValOfIn(tree, store, a) = ValOfIn(tree, store, b) THEN "T" ELSE "F"]
SetFields == AllFields \cup {"no_such_parameter"}
(* the heap is abstracted in the VIEW: class + valuation per tree, and which nodes of different trees are one object *)
Sharing == {x \in UNION {{<<a, m, b, n>> : m \in DOMAIN tree[a].at, n \in DOMAIN tree[b].at} : <<a, b>> \in {y \in TNames \X TNames : y[1] # y[2]}} :
              tree[x[1]].at[x[2]] = tree[x[3]].at[x[4]]}
View == <<dom, aT, Sharing, rv, cR>>
TNext == /\ dom = "tree" /\ UNCHANGED <<dom, rv, cR>>
         /\ \/ \E name \in TNames : \E c \in NewClasses : \E K \in KwMenu(c) : TNew(name, c, K)
            \/ \E name \in Live(tree) : \E n \in NodesBy[tree[name].cls] : \E f \in SetFields :
                 \/ \E v \in (IF f \in AllFields THEN ToksOf(f) ELSE {FcTok}) : \E via \in {"attr", "item"} : TSet(name, n, f, v, via)
                 \/ TGet(name, n, f)
            \/ \E name \in Live(tree) : \E n \in NodesBy[tree[name].cls] : \E k \in KidNames(ClassAt[tree[name].cls][n]) : TGet(name, n, k)
            \/ \E a \in Live(tree) : \E b \in TNames : \/ \E v \in {0, 1} : TRound(a, b, v)
                                                        \/ TCopy(a, b)
                                                        \/ TEq(a, b)
         /\ aT' = AbsT(tree', store')

(* ============================== renderer domains ======================================== *)
(* fixed drawables of the model *)
LaneId == 1
ObsId  == 2
DynId  == 3
SignIds2 == {4, 5}
TrajsId == 6
DynT0  == 1      \* initial time step of the dynamic obstacle, one predicted step
DynN   == 1
DynX2  == 247    \* position at t0: (123.5, 6.5)
DynY2  == 13
Lim1   == <<-5, 5, -3, 3>>            \* [-2.5, 2.5, -1.5, 1.5]
Psrcs  == {"none", "mp", "spec"}

Rv0 == [live |-> FALSE, lim |-> NoLim, focus |-> 0, tb |-> 0, S |-> {}, D |-> {}, L |-> {}, G |-> {},     \* G: <<id, psrc>>
        gpar |-> "none", pc |-> <<>>, ax |-> NoAx, da |-> [d |-> {}, g |-> {}], defcol |-> "d", rdclean |-> FALSE, fresh |-> TRUE]

Obs(r) == [bs |-> SetToSeq(r.S), bd |-> SetToSeq(r.D), bl |-> SetToSeq(r.L), bg |-> SetToSeq({g[1] : g \in r.G}),
           xs |-> SetToSeq(r.ax.s), xd |-> SetToSeq(r.ax.d), xl |-> SetToSeq(r.ax.l), xg |-> SetToSeq(r.ax.g),
           lk |-> IF r.lim.k = "none" /\ r.focus # 0 THEN "list" ELSE r.lim.k,
           lv |-> IF r.lim.k = "none" /\ r.focus # 0 THEN DefaultFocusLim2 ELSE r.lim.v,
           pc |-> r.pc]
Ev(r, rec) == rec @@ Obs(r)

RNew(limk, focus) ==
    LET lim == IF limk = "none" THEN NoLim ELSE IF limk = "auto" THEN [k |-> "auto", v |-> <<>>] ELSE [k |-> "list", v |-> Lim1]
        r2 == [Rv0 EXCEPT !.live = TRUE, !.lim = lim, !.focus = focus] IN
    /\ ~rv.live /\ rv' = r2
    /\ act' = Ev(rv', [op |-> "r_new", limk |-> limk, lim |-> IF limk \in {"list", "nested"} THEN Lim1 ELSE <<>>, focus |-> focus, res |-> "ok"])
RSetTb(b) == LET r2 == [rv EXCEPT !.tb = b] IN rv.live /\ rv' = r2 /\ act' = Ev(rv', [op |-> "r_settb", b |-> b, res |-> "ok"])
RSetFocus(i) == LET r2 == [rv EXCEPT !.focus = i] IN rv.live /\ rv' = r2 /\ act' = Ev(rv', [op |-> "r_setfocus", id |-> i, res |-> "ok"])
RSetLim(limk) ==
    LET lim == CASE limk = "none" -> (IF DEV_SetNoneIgnored THEN rv.lim ELSE NoLim)
                 [] limk = "auto" -> [k |-> "auto", v |-> <<>>]
                 [] limk = "bad"  -> rv.lim
                 [] OTHER -> [k |-> "list", v |-> Lim1]
        r2 == [rv EXCEPT !.lim = lim] IN
    /\ rv.live /\ rv' = r2
    /\ act' = Ev(rv', [op |-> "r_setlim", limk |-> limk, lim |-> IF limk \in {"list", "nested"} THEN Lim1 ELSE <<>>,
                      res |-> IF limk = "bad" THEN "ValueError" ELSE "ok"])

DrawRec(kind, id, psrc) == [op |-> "r_draw", kind |-> kind, id |-> id, psrc |-> psrc, res |-> "ok", dirty |-> <<>>, pdirty |-> <<>>,
                            col |-> "", t0 |-> 0, n |-> 0, x2 |-> 0, y2 |-> 0, ptb |-> 0, uniq |-> 0]
ColUsed(psrc) == IF psrc = "none" THEN rv.defcol ELSE ColOf(psrc)
Leak(r, psrc) == IF DEV_PerCallLeaks /\ psrc # "none" THEN [r EXCEPT !.defcol = ColOf(psrc)] ELSE r
RDrawLane(psrc) == LET r2 == [rv EXCEPT !.S = @ \cup {LaneId}] IN
    rv.live /\ rv' = r2 /\ act' = Ev(rv', DrawRec("lane", LaneId, psrc))
RDrawObs(psrc)  == LET r2 == Leak([rv EXCEPT !.D = @ \cup {ObsId}], psrc) IN
    rv.live /\ rv' = r2 /\ act' = Ev(rv', [DrawRec("obs", ObsId, psrc) EXCEPT !.col = ColUsed(psrc)])
RDrawTrajs(psrc, uniq) ==
    LET r2 == [rv EXCEPT !.D = @ \cup {TrajsId}]
        hit == DEV_TrajsRecolour /\ uniq = 1 IN
    rv.live /\ rv' = r2
    /\ act' = Ev(rv', [DrawRec("trajs", TrajsId, psrc) EXCEPT !.uniq = uniq,
                      !.dirty = IF hit /\ psrc = "none" THEN <<<<<<"trajectory">>, "facecolor">>>> ELSE <<>>,
                      !.pdirty = IF hit /\ psrc # "none" THEN <<<<<<>>, "facecolor">>>> ELSE <<>>])
RDrawSign(i, psrc) ==
    LET r2 == [rv EXCEPT !.G = {g \in @ : g[1] # i} \cup {<<i, psrc>>}, !.gpar = IF psrc = "spec" THEN "spec" ELSE @] IN
    rv.live /\ rv' = r2 /\ act' = Ev(rv', DrawRec("sign", i, psrc))
RDrawDyn(psrc, ptb) ==
    LET b     == IF psrc = "none" THEN rv.tb ELSE ptb
        there == DynT0 <= b /\ b <= DynT0 + DynN
        gone  == DynT0 + DynN < b                                      \* the shipped guard returns before anything is drawn
        state == IF DEV_CenterFromTrajectory THEN (~gone /\ (b = 0 \/ (DynT0 < b /\ b <= DynT0 + DynN))) ELSE there
        pos   == IF DEV_CenterFromTrajectory /\ b = 0 THEN <<DynX2, DynY2>> ELSE <<DynX2 + 2 * (b - DynT0), DynY2>>
        r2 == Leak([rv EXCEPT !.D = IF there THEN @ \cup {DynId} ELSE @,
                              !.L = IF state THEN @ \cup {DynId} ELSE @,
                              !.pc = IF state /\ rv.focus = DynId THEN pos ELSE @], psrc) IN
    rv.live /\ rv' = r2
    /\ act' = Ev(rv', [DrawRec("dyn", DynId, psrc) EXCEPT !.col = IF there THEN ColUsed(psrc) ELSE "", !.t0 = DynT0, !.n = DynN,
                                                        !.x2 = DynX2, !.y2 = DynY2, !.ptb = ptb])

SignFlag(r, g) == IF DEV_SignParamsGlobal THEN (IF r.gpar = "spec" THEN 1 ELSE 0) ELSE FlagOf(g[2])
Flagged(r)     == {<<g[1], SignFlag(r, g)>> : g \in r.G}
Tr(v)          == IF v >= 0 THEN 2 * (v \div 2) ELSE -(2 * ((-v) \div 2))      \* doubled value of int(v / 2)
LimShown(r)    ==
    IF r.lim.k = "auto" \/ (r.lim.k = "none" /\ r.focus = 0) THEN <<0, 0, 0, 0>>
    ELSE LET L == IF r.lim.k = "none" THEN DefaultFocusLim2 ELSE r.lim.v IN
         IF r.pc = <<>> THEN L
         ELSE IF DEV_FocusTruncates THEN Shift(<<Tr(L[1]), Tr(L[2]), Tr(L[3]), Tr(L[4])>>, <<Tr(r.pc[1]), Tr(r.pc[2])>>)
         ELSE Shift(L, r.pc)
Cleared(r, keep) == [r EXCEPT !.S = IF keep = 1 THEN @ ELSE {}, !.D = {}, !.L = {}, !.G = {}, !.gpar = "none", !.pc = <<>>,
                              !.da = [d |-> {}, g |-> {}], !.rdclean = FALSE, !.fresh = TRUE]
RRender(keep) ==
    LET shown == [s |-> rv.S, d |-> rv.D, g |-> Flagged(rv), l |-> rv.L]
        r1 == Cleared([rv EXCEPT !.ax = shown], keep)
        r2 == IF DEV_RenderKeepsDynamic THEN [r1 EXCEPT !.D = rv.D] ELSE r1 IN
    /\ rv.live /\ rv' = r2
    /\ act' = Ev(rv', [op |-> "r_render", keep |-> keep, res |-> "ok", lim2 |-> LimShown(rv), exact |-> 1])
RClear(keep) == LET r2 == Cleared(rv, keep) IN
    rv.live /\ rv' = r2 /\ act' = Ev(rv', [op |-> "r_clear", keep |-> keep, res |-> "ok"])
RRenderStatic == LET r2 == [rv EXCEPT !.ax.s = @ \cup rv.S] IN
    rv.live /\ rv' = r2 /\ act' = Ev(rv', [op |-> "r_render_static", res |-> "ok"])
RRenderDynamic ==
    LET r2 == [rv EXCEPT !.ax.d = @ \cup rv.D, !.ax.l = @ \cup rv.L, !.ax.g = {x \in @ : x[1] \notin {g[1] : g \in rv.G}} \cup Flagged(rv),
                         !.da = [d |-> @.d \cup rv.D, g |-> @.g \cup {g[1] : g \in rv.G}],
                         !.rdclean = (rv.fresh /\ rv.ax.d = {} /\ rv.ax.l = {} /\ rv.ax.g = {}), !.fresh = FALSE] IN
    rv.live /\ rv' = r2 /\ act' = Ev(rv', [op |-> "r_render_dynamic", res |-> "ok"])
RRemoveDynamic ==
    LET r2 == [rv EXCEPT !.ax.d = @ \ rv.da.d, !.ax.g = {x \in @ : x[1] \notin rv.da.g}, !.ax.l = @ \ rv.L, !.L = {}, !.rdclean = FALSE, !.fresh = FALSE] IN
    rv.live /\ rv' = r2 /\ act' = Ev(rv', [op |-> "r_remove_dynamic", res |-> "ok"])

LifeNext == /\ dom = "life"
            /\ \/ RNew("none", 0)
               \/ \E p \in Psrcs : RDrawLane(p) \/ RDrawObs(p)
               \/ \E p \in Psrcs : \E u \in {0, 1} : RDrawTrajs(p, u)
               \/ RDrawSign(4, "none")
               \/ \E k \in {0, 1} : RRender(k) \/ RClear(k)
               \/ RRenderStatic \/ RRenderDynamic \/ RRemoveDynamic
SignNext == /\ dom = "sign"
            /\ \/ RNew("none", 0)
               \/ \E i \in SignIds2 : \E p \in Psrcs : RDrawSign(i, p)
               \/ RRender(0) \/ RClear(0) \/ RRenderDynamic \/ RRemoveDynamic
FocusNext == /\ dom = "focus"
             /\ \/ \E k \in {"none", "list", "auto"} : \E f \in {0, DynId} : RNew(k, f)
                \/ \E b \in TbSteps : RSetTb(b)
                \/ \E f \in {0, DynId} : RSetFocus(f)
                \/ \E k \in {"none", "list", "nested", "auto", "bad"} : RSetLim(k)
                \/ RDrawDyn("none", 0) \/ \E p \in {"mp", "spec"} : \E b \in PTbSteps : RDrawDyn(p, b)
                \/ RDrawObs("none")
                \/ RRender(0) \/ RClear(0)
RNext == /\ (LifeNext \/ SignNext \/ FocusNext) /\ UNCHANGED <<dom, store, tree, aT>>
         /\ cR' = RPost(cR, act')

Init == /\ dom \in Domains
        /\ store = [o \in Oids |-> Blank] /\ tree = [n \in TNames |-> NoTree]
        /\ aT = NoTrees /\ rv = Rv0 /\ cR = NoRnd /\ act = [op |-> "init"]
Next == TNext \/ RNext
Spec == Init /\ [][Next]_vars

(* ---- the contract, as invariants and action properties of the implementation model ------ *)
(* abstract contract state of the model state *)
AbsR(r) == [live |-> r.live, lim |-> [k |-> Obs(r).lk, v |-> Obs(r).lv], focus |-> r.focus, tb |-> r.tb, S |-> r.S, D |-> r.D,
            G |-> {<<g[1], FlagOf(g[2])>> : g \in r.G}, L |-> r.L, c |-> r.pc, ax |-> r.ax]
PropTreeRefines == [][dom = "tree" => DClauseP(aT, act', aT') = ""]_vars
InvTreeAbs      == aT = AbsT(tree, store)
PropRndRefines == [][dom # "tree" => RClause(cR, act') = ""]_vars
InvRndSync     == dom # "tree" => /\ cR.live = rv.live /\ cR.S = rv.S /\ cR.D = rv.D /\ cR.L = rv.L /\ cR.ax = rv.ax /\ cR.c = rv.pc
                                  /\ cR.lim = AbsR(rv).lim /\ cR.focus = rv.focus /\ cR.tb = rv.tb
                                  /\ SignIds(cR.G) = {g[1] : g \in rv.G}
InvHeapDisjoint == \A a, b \in TNames : a # b => Range(tree[a].at) \cap Range(tree[b].at) = {}       \* no sharing between trees
PropIndependent == [][(dom = "tree" /\ act'.op \in {"d_new", "d_set", "d_get"}) => \A n \in TNames \ {act'.name} : aT'[n] = aT[n]]_vars
PropCtorUniform == [][(dom = "tree" /\ act'.op = "d_new") =>
                        \A f \in Base : \A m \in NodesBy[act'.cls] : ValAt(aT'[act'.name].val, m, f) = ValAt(aT'[act'.name].val, <<>>, f)]_vars
PropRoundTrip   == [][(dom = "tree" /\ act'.op \in {"d_round", "d_copy"} /\ act'.res = "ok") => aT'[act'.dst] = aT[act'.src]]_vars
PropFlush       == [][(dom # "tree" /\ act'.op = "r_render") => (rv'.D = {} /\ rv'.L = {} /\ rv'.G = {} /\ rv'.pc = <<>>)]_vars
PropKeepStatic  == [][(dom # "tree" /\ act'.op \in {"r_render", "r_clear"}) => rv'.S = IF act'.keep = 1 THEN rv.S ELSE {}]_vars
PropShown       == [][(dom # "tree" /\ act'.op = "r_render") => (rv'.ax.s = rv.S /\ rv'.ax.d = rv.D /\ rv'.ax.l = rv.L)]_vars
PropVideoLoop   == [][(dom # "tree" /\ act'.op = "r_remove_dynamic" /\ rv.rdclean) => (rv'.ax.d = {} /\ rv'.ax.l = {} /\ rv'.ax.g = {})]_vars
(* laws of the contract operators, over the model's small universe *)
LawVals == {{}, {<<<<>>, "time_begin", "7">>}, {<<<<"state">>, "time_begin", "8">>, <<<<"state", "arrow">>, "facecolor", FcTok>>}}
InvLaws == (\A n \in TNames : tree[n].cls = "") =>      \* constant-level: evaluated in the initial states only
           /\ \A c \in Classes : \A K \in KwMenu(c) : LawNewUniform(c, K) /\ LawNewFunctional(c, K)
           /\ \A V \in LawVals : \A n \in NodesBy["InitialStateParams"] : \A f \in AllFields : \A v \in ToksOf(f) :
                 /\ LawSetReaches("InitialStateParams", V, n, f, v) /\ LawSetFrame("InitialStateParams", V, n, f, v)
                 /\ LawSetIdempotent("InitialStateParams", V, n, f, v) /\ LawSetFunctional("InitialStateParams", V, n, f, v)
                 /\ LawRootSetUniform("InitialStateParams", V, f, v)
           /\ \A c \in {<<0, 0>>, <<3, -2>>, <<247, 13>>} : LawShiftWidth(Lim1, c) /\ LawShiftCentre(Lim1, c)
           /\ LawShiftZero(Lim1)

(* ---- generation (GEN configurations, -workers 1) ---------------------------------------- *)
StKey == IF dom = "tree" THEN [d |-> dom, t |-> [n \in TNames |-> [cls |-> aT[n].cls, val |-> aT[n].val]]]
         ELSE [d |-> dom, r |-> [live |-> B(rv.live), lim |-> rv.lim.k, focus |-> rv.focus, tb |-> rv.tb, S |-> rv.S, D |-> rv.D, L |-> rv.L,
                                 G |-> rv.G, pc |-> rv.pc, ax |-> [s |-> rv.ax.s, d |-> rv.ax.d, l |-> rv.ax.l, g |-> rv.ax.g],
                                 da |-> [d |-> rv.da.d, g |-> rv.da.g], rc |-> B(rv.rdclean), fr |-> B(rv.fresh)]]
GenSmall == dom = "tree" => /\ Cardinality(aT["A"].val) <= 2
                            /\ aT["B"].cls \in {"", "ArrowParams", "StateParams"} /\ Cardinality(aT["B"].val) <= 1
ArgKeys == {"op", "name", "cls", "kw", "path", "field", "tok", "via", "key", "src", "dst", "validate", "a", "b",
            "limk", "lim", "focus", "id", "kind", "psrc", "ptb", "uniq", "keep", "t0", "n", "x2", "y2"}
Args(a) == [k \in DOMAIN a \cap ArgKeys |-> a[k]]
EmitEdge == PrintT(<<"EDGE", ToJson([from |-> StKey, act |-> Args(act'), to |-> StKey'])>>)
=================================================================================
