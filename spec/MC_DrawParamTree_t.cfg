SPECIFICATION Spec
CONSTANTS
  ClassTable <- MiniTable
  Base = {"time_begin"}
  DefTok = "D"
  Domains = {"tree", "life", "sign", "focus"}
  TNames = {"A", "B"}
  NewClasses = {"MPDrawParams", "InitialStateParams", "StateParams", "ArrowParams"}
  MaxOid = 8
  TbToks = {"7"}
  TbSteps = {0, 1, 2, 3, 4}
  PTbSteps = {0, 1, 2, 3}
  DEV_SharedDefaults = FALSE
  DEV_NoCtorPropagation = FALSE
  DEV_SetItemSilent = FALSE
  DEV_LoadParentWins = FALSE
  DEV_LoadValidatesRoot = FALSE
  DEV_SignParamsGlobal = FALSE
  DEV_FocusTruncates = FALSE
  DEV_CenterFromTrajectory = FALSE
  DEV_SetNoneIgnored = FALSE
  DEV_TrajsRecolour = FALSE
  DEV_PerCallLeaks = FALSE
  DEV_RenderKeepsDynamic = FALSE
VIEW View
INVARIANT InvRndSync
INVARIANT InvTreeAbs
INVARIANT InvHeapDisjoint
INVARIANT InvLaws
PROPERTY PropTreeRefines
PROPERTY PropRndRefines
PROPERTY PropIndependent
PROPERTY PropCtorUniform
PROPERTY PropRoundTrip
PROPERTY PropFlush
PROPERTY PropKeepStatic
PROPERTY PropShown
PROPERTY PropVideoLoop
