SPECIFICATION Spec
CONSTANTS
  MaxDepth = 1
INVARIANT InvValid
INVARIANT InvEquivalence
INVARIANT InvPerturb
INVARIANT InvReorder
INVARIANT InvNode
INVARIANT InvHash
INVARIANT InvThree
PROPERTY PropPerturb
PROPERTY PropReorder
