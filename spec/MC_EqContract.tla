---------------------------- MODULE MC_EqContract ----------------------------
(* Model for C12: the perturbation graph over the class table of EqContract.tla.                 *)
(*   seeds   for every class the default-argument instance (all groups "d" where a default       *)
(*           exists) and the fully populated instance (all groups "v1")                          *)
(*   Perturb(g, t)  one group changed to a token with another value (depth < MaxDepth)           *)
(*   Reorder(g)     one set/dict-valued group changed to the same value in another insertion     *)
(*                  order (terminal)                                                             *)
(* A state is a node (val) together with the edge that led to it (par -> val, kind, grp).        *)
(* TLC checks the contract on the explored valuations: ExpectedEq is an equivalence relation,    *)
(* one perturbation makes it false, a reorder keeps it true, HashKey is a consistent hash.       *)
EXTENDS EqContract

CONSTANTS MaxDepth

VARIABLES cls, seed, root, par, val, kind, grp, depth
vars == <<cls, seed, root, par, val, kind, grp, depth>>

Init == /\ cls \in Classes
        /\ seed \in {"default", "full"}
        /\ root = (IF seed = "default" THEN SeedDefault(cls) ELSE SeedFull(cls))
        /\ par = root /\ val = root /\ kind = "node" /\ grp = "@" \o seed /\ depth = 0

Perturb(g, t) == /\ kind # "reorder" /\ depth < MaxDepth
                 /\ ~SameValue(t, val[g])
                 /\ par' = val /\ val' = [val EXCEPT ![g] = t]
                 /\ kind' = "perturb" /\ grp' = g /\ depth' = depth + 1
                 /\ UNCHANGED <<cls, seed, root>>

Reorder(g, t) == /\ kind # "reorder"
                 /\ t # val[g] /\ SameValue(t, val[g])
                 /\ par' = val /\ val' = [val EXCEPT ![g] = t]
                 /\ kind' = "reorder" /\ grp' = g
                 /\ UNCHANGED <<cls, seed, root, depth>>

PerturbSome == \E g \in GroupsOf(cls) : \E t \in Dom(cls, g) : Perturb(g, t)
ReorderSome == \E g \in GroupsOf(cls) : \E t \in Dom(cls, g) : Reorder(g, t)
Next == PerturbSome \/ ReorderSome
Spec == Init /\ [][Next]_vars

(* ---- the laws, on every explored node / edge ---- *)
InvValid       == IsValuation(cls, val) /\ IsValuation(cls, par)
InvEquivalence == /\ LawReflexive(val) /\ LawReflexive(par)
                  /\ LawSymmetric(par, val) /\ LawSymmetric(root, val)
                  /\ LawTransitive(root, par, val) /\ LawTransitive(val, par, root) /\ LawTransitive(par, val, root)
InvPerturb     == kind = "perturb" => ~ExpectedEq(par, val) /\ ~ExpectedEq(val, par) /\ Differing(par, val) = {grp}
InvReorder     == kind = "reorder" => ExpectedEq(par, val) /\ par # val /\ Reordered(par, val) = {grp}
InvNode        == kind = "node" => par = val /\ val = root
InvHash        == LawHash(par, val) /\ LawHash(root, val) /\ LawHash(val, val)
InvThree       == /\ Expected3(cls, par, val) \in {"T", "F", "EITHER"}
                  /\ (Expected3(cls, par, val) = "T") = ExpectedEq(par, val)
                  /\ Expected3(cls, par, val) = Expected3(cls, val, par)
(* action properties: what the two actions do to the contract *)
PropPerturb    == [][kind' = "perturb" => ~ExpectedEq(val, val') /\ par' = val]_vars
PropReorder    == [][kind' = "reorder" => ExpectedEq(val, val') /\ ExpectedEq(root, val) = ExpectedEq(root, val')]_vars

(* ---- generation: the table once, one case per explored state ---- *)
ASSUME PrintT(<<"TABLE", ToJson(ClassTable)>>)
Emit == PrintT(<<"CASE", ToJson([cls |-> cls, x |-> par, y |-> val, kind |-> kind, grp |-> grp, seed |-> seed,
                                 depth |-> depth])>>)
==============================================================================
