---------------------------- MODULE MC_EqContract ----------------------------
(* Model for C12: the perturbation graph over the class table of EqContract.tla.                 *)
(*   seeds   for every class the default-argument instance (all groups "d" where a default       *)
(*           exists) and the fully populated instance (all groups "v1")                          *)
(*   Perturb(g, t)  one group changed to a token with another value (depth < MaxDepth)           *)
(*   Reorder(g)     one set/dict-valued group changed to the same value in another insertion     *)
(*                  order (terminal)                                                             *)
(*   Mutate*        history dimension (terminal): the object of the current node is compared and *)
(*                  hashed (warm) or not (cold) and then changed IN PLACE by a public mutator:   *)
(*                  MutateSet(g, t) setter / add_* / remove_*, MutateMove translate_rotate,      *)
(*                  MutateFlat convert_to_2d                                                     *)
(* A state is a node (val) together with the edge that led to it (par -> val, kind, grp).        *)
(* TLC checks the contract on the explored valuations: ExpectedEq is an equivalence relation,    *)
(* one perturbation makes it false, a reorder keeps it true, HashKey is a consistent hash, and   *)
(* - implementation-shaped part - an object that caches its comparison key (ckey) answers with   *)
(* the key of its CURRENT values after every mutator.  DEV_StaleKeyOnMove = TRUE documents the   *)
(* design in which only setters invalidate the cached key (seeded change C12-2).                 *)
EXTENDS EqContract

CONSTANTS MaxDepth,            \* perturbations per path
          MutDepth,            \* setters are applied to nodes of depth <= MutDepth (moves: to every node)
          DEV_StaleKeyOnMove,  \* deviation: translate_rotate / convert_to_2d keep the cached key
          DEV_EqSeesDerived    \* deviation: == compares the whole instance dictionary, derived data included

VARIABLES cls, seed, root, par, val, kind, grp, depth,
          mk,      \* kind of the mutator that led here ("" if none)
          warm,    \* the object was compared / hashed before it was mutated
          ckey,    \* implementation-shaped: the comparison key the object has cached (<<>> = none)
          nn       \* update_initial_state: max_history_length (0 = argument left out)
vars == <<cls, seed, root, par, val, kind, grp, depth, mk, warm, ckey, nn>>

Init == /\ cls \in Classes
        /\ seed \in {"default", "full"}
        /\ root = (IF seed = "default" THEN SeedDefault(cls) ELSE SeedFull(cls))
        /\ par = root /\ val = root /\ kind = "node" /\ grp = "@" \o seed /\ depth = 0
        /\ mk = "" /\ warm = FALSE /\ ckey = <<>> /\ nn = 0

Open == kind \in {"node", "perturb"}          \* reorder, mutate and observe are terminal
NoMut == UNCHANGED <<mk, warm, ckey, nn>>

Perturb(g, t) == /\ Open /\ depth < MaxDepth
                 /\ ~SameValue(t, val[g])
                 /\ par' = val /\ val' = [val EXCEPT ![g] = t]
                 /\ kind' = "perturb" /\ grp' = g /\ depth' = depth + 1
                 /\ UNCHANGED <<cls, seed, root>> /\ NoMut

Reorder(g, t) == /\ Open
                 /\ t # val[g] /\ SameValue(t, val[g])
                 /\ par' = val /\ val' = [val EXCEPT ![g] = t]
                 /\ kind' = "reorder" /\ grp' = g
                 /\ UNCHANGED <<cls, seed, root, depth>> /\ NoMut

(* the cached key after a mutator: a warm object holds the key of its old values; the mutator drops it -      *)
(* unless the deviation keeps it for the mutators that do not go through a setter                             *)
KeyAfter(w, kept, before) == IF w /\ kept THEN <<DescKey(before)>> ELSE <<>>
Mutate(m, name, b, w, n) ==
                 /\ Open /\ nn' = n
                 /\ IsMutation(cls, m, val, b)
                 /\ par' = val /\ val' = b /\ kind' = "mutate" /\ grp' = name /\ mk' = m /\ warm' = w
                 /\ ckey' = KeyAfter(w, DEV_StaleKeyOnMove /\ m \in {"move", "flat"}, Desc(val, MotBefore(m)))
                 /\ UNCHANGED <<cls, seed, root, depth>>
MutateSet(g, t, w) == depth <= MutDepth /\ Mutate("set", SetName(cls, g, val[g], t), [val EXCEPT ![g] = t], w, 0)
MutateMove(w) == Mutate("move", "translate_rotate", val, w, 0)
MutateFlat(w) == Mutate("flat", "convert_to_2d", val, w, 0)
(* advancing a dynamic obstacle: default arguments (everything but the state left out) / everything given,   *)
(* each without and with max_history_length 1, 2                                                             *)
AdvArgs == {<<"d", "d", "d">>, <<"v1", "v1", "v2">>}          \* signal state, centre ids, shape ids
MutateAdv(st, ar, n, w) ==
  cls \in Advanced /\ Mutate("adv", "update_initial_state",
      [val EXCEPT !["initial_state"] = st, !["initial_signal_state"] = ar[1], !["initial_center_lanelet_ids"] = ar[2],
                  !["initial_shape_lanelet_ids"] = ar[3], !["prediction"] = "d", !["signal_series"] = "d"], w, n)
MutateUpd(p, sg, w) ==
  cls \in Advanced /\ Mutate("upd", "update_prediction", [val EXCEPT !["prediction"] = p, !["signal_series"] = sg], w, 0)

(* observed dimension: the read-only queries are run on x only / on x and its twin; the valuation stays.  *)
(* mk records who was queried; implementation-shaped: a queried instance holds derived data (`derived`)    *)
Observe(who) == /\ Open
                /\ par' = val /\ val' = val /\ kind' = "observe" /\ grp' = "observed:" \o who /\ mk' = who
                /\ UNCHANGED <<cls, seed, root, depth, warm, ckey, nn>>
ObserveSome == \E who \in Observers : Observe(who)
PerturbSome == \E g \in GroupsOf(cls) : \E t \in Dom(cls, g) : Perturb(g, t)
ReorderSome == \E g \in GroupsOf(cls) : \E t \in Dom(cls, g) : Reorder(g, t)
SetSome     == \E g \in GroupsOf(cls) : \E t \in Dom(cls, g) : \E w \in BOOLEAN : MutateSet(g, t, w)
MoveSome    == \E w \in BOOLEAN : MutateMove(w)
FlatSome    == \E w \in BOOLEAN : MutateFlat(w)
MutateRaw(name, w) == IsRaw(cls, name, val) /\ Mutate("raw", name, val, w, 0)
RawSome     == \E name \in RawNames(cls) : \E w \in BOOLEAN : MutateRaw(name, w)
AdvSome     == \E st \in {"v1", "v2"} : \E ar \in AdvArgs : \E n \in AdvLengths : \E w \in BOOLEAN : MutateAdv(st, ar, n, w)
UpdSome     == \E p \in {"v1", "v2", "v3"} : \E sg \in {"d", "v1", "v2"} : \E w \in BOOLEAN : MutateUpd(p, sg, w)
Next == PerturbSome \/ ReorderSome \/ SetSome \/ MoveSome \/ FlatSome \/ AdvSome \/ UpdSome \/ RawSome \/ ObserveSome
Spec == Init /\ [][Next]_vars

(* ---- the laws, on every explored node / edge ---- *)
InvValid       == IsValuation(cls, val) /\ IsValuation(cls, par)
InvEquivalence == /\ LawReflexive(val) /\ LawReflexive(par)
                  /\ LawSymmetric(par, val) /\ LawSymmetric(root, val)
                  /\ LawTransitive(root, par, val) /\ LawTransitive(val, par, root) /\ LawTransitive(par, val, root)
InvPerturb     == kind = "perturb" => ~ExpectedEq(par, val) /\ ~ExpectedEq(val, par) /\ Differing(par, val) = {grp}
InvReorder     == kind = "reorder" => ExpectedEq(par, val) /\ par # val /\ Reordered(par, val) = {grp}
InvNode        == kind = "node" => par = val /\ val = root
InvHash        == LawHash(par, val) /\ LawHash(root, val) /\ LawHash(val, val)
InvThree       == /\ Expected3(cls, par, val) \in {"T", "F", "EITHER"}
                  /\ (Expected3(cls, par, val) = "T") = ExpectedEq(par, val)
                  /\ Expected3(cls, par, val) = Expected3(cls, val, par)
(* history: descriptors before / after the mutator, and what the object answers with *)
Before   == Desc(par, MotBefore(mk))
After    == DescA(val, MotAfter(mk), IF mk = "adv" THEN AdvMark(par, nn) ELSE IF mk = "raw" THEN <<"raw", grp>> ELSE <<>>)
ImplKey  == IF ckey = <<>> THEN DescKey(After) ELSE ckey[1]
InvMutate  == kind = "mutate" => /\ ~ExpectedEqD(cls, Before, After)         \* the mutator changed something ...
                                 /\ ExpectedEqD(cls, After, After)
                                 /\ ExpectedEqD(cls, Before, After) = ExpectedEqD(cls, After, Before)
InvCurrent == kind = "mutate" => ImplKey = DescKey(After)                     \* ... and == / hash follow it
InvMotion  == \A m \in MutKinds : ExpectedEqD(cls, Desc(val, MotBefore(m)), Desc(val, MotAfter(m)))
                                  = ~(m # "set" /\ Displaced(cls, m, val))
(* observed: what == looks at on the two sides (x was queried; the twin only for "both") *)
SeenOf(queried) == [key |-> HashKey(val), derived |-> DEV_EqSeesDerived /\ queried]
InvObserved == kind = "observe" => /\ par = val /\ ExpectedEq(par, val)
                                   /\ SeenOf(TRUE) = SeenOf(mk = "both")          \* queries never change equality
(* action properties: what the actions do to the contract *)
PropPerturb    == [][kind' = "perturb" => ~ExpectedEq(val, val') /\ par' = val]_vars
PropReorder    == [][kind' = "reorder" => ExpectedEq(val, val') /\ ExpectedEq(root, val) = ExpectedEq(root, val')]_vars
PropMutate     == [][kind' = "mutate" => par' = val /\ IsMutation(cls, mk', val, val')
                                         /\ (mk' \in {"set", "adv", "upd"}) = ~ExpectedEq(val, val')]_vars

(* ---- generation: the table once, one case per explored state ---- *)
ASSUME PrintT(<<"TABLE", ToJson(ClassTable)>>)
MotRec == [c \in Classes |-> [move |-> MotGroups(c, "move"), flat |-> MotGroups(c, "flat"),
                              always |-> {g \in GroupsOf(c) : <<c, g>> \in SpatialDefault},
                              blocked |-> BlockGroups(c),
                              has |-> {m \in {"move", "flat"} : c \in DOMAIN (IF m = "move" THEN Moved ELSE Flat)}]]
ASSUME PrintT(<<"MOTION", ToJson(MotRec)>>)
SetRec == [c \in Classes |-> [g \in GroupsOf(c) |->
             {<<pr[1], pr[2], SetName(c, g, pr[1], pr[2])>> : pr \in SetPairs(c, g)}]]
ASSUME PrintT(<<"SETTERS", ToJson(SetRec)>>)
RawRec == [c \in Classes |-> {<<r[2], r[3], r[4]>> : r \in {q \in RawMut : q[1] = c}}]
ASSUME PrintT(<<"RAW", ToJson(RawRec)>>)
ASSUME PrintT(<<"QUERIES", ToJson([c \in Classes |-> Queries(c, 0)])>>)
Emit == PrintT(<<"CASE", ToJson([cls |-> cls, x |-> par, y |-> val, kind |-> kind, grp |-> grp, seed |-> seed,
                                 depth |-> depth, mk |-> mk, warm |-> IF warm THEN 1 ELSE 0, n |-> nn,
                                 queries |-> IF kind = "observe" THEN Queries(cls, depth) ELSE {}])>>)
==============================================================================
