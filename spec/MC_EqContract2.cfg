SPECIFICATION Spec
CONSTANTS
  MaxDepth = 2
  MutDepth = 1
  DEV_StaleKeyOnMove = FALSE
  DEV_EqSeesDerived = FALSE
INVARIANT InvValid
INVARIANT InvEquivalence
INVARIANT InvPerturb
INVARIANT InvReorder
INVARIANT InvNode
INVARIANT InvHash
INVARIANT InvThree
INVARIANT InvMutate
INVARIANT InvCurrent
INVARIANT InvMotion
INVARIANT InvObserved
PROPERTY PropPerturb
PROPERTY PropReorder
PROPERTY PropMutate
