--------------------------- MODULE MC_FileDispatch ---------------------------
(* Implementation-shaped model for X09: what the shipped front doors do                        *)
(*   reader   FileFormat(Path(filename).suffix) at construction, the format object decides the  *)
(*            reader class, every open() parses the file again                                  *)
(*   writer   FileWriter._handle_file_path (default name, is_file(), the three overwrite modes, *)
(*            input()), then the document is built and written                                  *)
(* one action per public call over a sandbox file system; every action logs the event the       *)
(* harness would log (`act`), and TLC checks that the contract of FileDispatch.tla accepts      *)
(* every step (Clause(st, act') = "") together with the laws of the contract operators.         *)
(* Deviation constants name shipped / conceivable behaviour that breaks the contract; with all  *)
(* of them FALSE the model is the repaired design.                                              *)
EXTENDS FileDispatch, Json

CONSTANTS
    Domains,                   \* subset of {"write", "read", "ctor", "detect"}
    WPaths, WDirs,             \* write machine: path tokens ("" = filename None) and which of them lie in a missing directory
    AnsLevel,                  \* 1: answers <<>> y n x; 2: + two-answer queues and other spellings
    MaxWriters, WSteps, WHs,   \* WHs: where the writers get their metadata from, subset of {"arg", "scn", "both"}
    RNames, RFmts, RVs,        \* read machine: file names, fixture formats, fixture scenarios
    MaxReaders, RSteps,
    DEV_AnyButNReplaces,       \* SHIPPED: `if overwrite == "n": skip else: replace` - every other answer replaces the file
    DEV_ValidityIgnored,       \* SHIPPED: check_validity computes the verdict and drops it
    DEV_ScenarioNoSuffix,      \* SHIPPED: XMLFileWriter.write_scenario_to_file(None) names the file str(scenario_id) without ".xml"
    DEV_NetDrops2018bSpeed,    \* SHIPPED: open_lanelet_network() of a 2018b file lacks the speed-limit signs open() adds
    DEV_SuffixDecidesFormat,   \* conceivable: the writer picks the format from the file name
    DEV_ReaderCaches,          \* conceivable: the reader keeps the first parse
    DEV_SuffixBeatsOverride,   \* conceivable: a known suffix beats the explicit file_format
    DEV_SkipTruncates,         \* conceivable: the file is opened for writing before the mode is looked at
    DEV_ScenarioWins           \* conceivable: the scenario's metadata beat the constructor arguments

VARIABLES dom, st, impl, steps, act
vars == <<dom, st, impl, steps, act>>
View == <<dom, st, impl, steps>>
(* impl: what the objects of the implementation hold beyond the abstract state: eff = reader -> "xml" | "pb" | "none" *)
(* (which reader class was built), cache = reader -> content of its first parse, tab = the table case of a stateless domain *)

Sid == "ZAM_Test-1"
B(x) == IF x THEN 1 ELSE 0
InitFiles == [n \in {"dir"} |-> DirC]
NoTab == [k |-> "none"]

(* ---- table domains --------------------------------------------------------------------- *)
ArgKinds == {"none", "val", "bad"}
ScnKinds == {"none", "val"}
CtorCases == {t \in [fmt : {"xml", "pb"}, a : [1..NFields -> ArgKinds], s : [1..NFields -> ScnKinds]] : t.a[5] # "bad"}
PartsU == {<<"a", "xml">>, <<"a", "pb">>, <<"a", "XML">>, <<"a", "Xml">>, <<"a", "PB">>, <<"a">>, <<"a", "txt">>,
           <<"a", "xml", "bak">>, <<"a", "pb", "xml">>, <<"a", "xml", "pb">>, <<"", "xml">>, <<"", "a", "pb">>,
           <<"a", "">>, <<"a b", "xml">>, <<"xml">>, <<"a", "xml ">>}
DetectCases == [parts : PartsU, ff : {"none", "xml", "pb", "str"}, src : {"str", "path", "bytes"},
                disk : {"none", "xml", "pb", "xml18", "garb"}]

(* the implementation: Path(filename).suffix, FileFormat(suffix) *)
PySuffix(parts) == LET n == Len(parts) IN
                   IF n < 2 \/ (n = 2 /\ parts[1] = "") \/ parts[n] = "" THEN "" ELSE parts[n]     \* "a." has no suffix either
ImplNew(parts, ff, src) ==              \* -> [res, eff]
  LET sfx == PySuffix(parts) IN
  IF ff = "none"
  THEN (IF src = "bytes" THEN [res |-> "exc:RuntimeError", eff |-> "none"]
        ELSE IF sfx \in {"xml", "pb"} THEN [res |-> "ok", eff |-> sfx]
        ELSE [res |-> "exc:ValueError", eff |-> "none"])
  ELSE IF ff = "str" THEN [res |-> "ok", eff |-> "none"]                   \* no reader object is built: open() raises AttributeError
  ELSE IF DEV_SuffixBeatsOverride /\ src # "bytes" /\ sfx \in {"xml", "pb"} THEN [res |-> "ok", eff |-> sfx]
  ELSE [res |-> "ok", eff |-> ff]
ImplCtor(t) ==                          \* -> [res, got]
  IF \E f \in 1..4 : t.a[f] = "bad" \/ (t.a[f] = "none" /\ t.s[f] = "none") THEN [res |-> "exc:AssertionError", got |-> <<>>]
  ELSE [res |-> "ok", got |-> [f \in 1..NFields |->
          IF DEV_ScenarioWins THEN (IF t.s[f] = "val" THEN "scn" ELSE IF t.a[f] = "val" THEN "arg" ELSE "default")
          ELSE (IF t.a[f] = "val" THEN "arg" ELSE IF t.s[f] = "val" THEN "scn" ELSE "default")]]
CtorEvent(t) == LET r == ImplCtor(t) IN [op |-> "ctor", fmt |-> t.fmt, a |-> t.a, s |-> t.s, res |-> r.res, got |-> r.got]

Init == /\ dom \in Domains
        /\ st = [Empty EXCEPT !.files = InitFiles]
        /\ impl \in (IF dom = "ctor" THEN [k : {"ctor"}, t : CtorCases]
                     ELSE IF dom = "detect" THEN [k : {"detect"}, t : DetectCases]
                     ELSE {[k |-> "none", eff |-> EmptyFn, cache |-> EmptyFn, prev |-> EmptyFn]})
        /\ steps = 0
        /\ act = [op |-> "init", fs |-> InitFiles]

Step(ev) == act' = ev /\ st' = Post(st, ev)

(* ---- fixtures (the harness installs / removes a file) ------------------------------------ *)
HasObj == DOMAIN st.writers # {} \/ DOMAIN st.readers # {}
IPut(name, c) == Step([op |-> "put", name |-> name, c |-> c, fs |-> Upd(st.files, name, c)]) /\ UNCHANGED impl
IRm(name) == /\ IsFile(st.files, name)
             /\ Step([op |-> "rm", name |-> name, fs |-> [n \in DOMAIN st.files \ {name} |-> st.files[n]]]) /\ UNCHANGED impl

(* ---- writer ------------------------------------------------------------------------------ *)
Answers == IF AnsLevel = 1 THEN {<<>>, <<"y">>, <<"n">>, <<"x">>}
           ELSE {<<>>, <<"y">>, <<"n">>, <<"x">>, <<"N">>, <<"">>, <<"yes">>, <<"x", "y">>, <<"x", "n">>, <<"x", "x">>, <<"no", "y">>}
NameFmt(path, own) == IF path \in {"a.xml", "dir/a.xml", "nodir/a.xml", "a.XML"} THEN "xml"
                      ELSE IF path \in {"a.pb", "dir/a.pb"} THEN "pb" ELSE own
IWNew(fmt, pps, h) ==
  LET w == Cardinality(DOMAIN st.writers) + 1 IN
  /\ w <= MaxWriters
  /\ Step([op |-> "w_new", w |-> w, fmt |-> fmt, pps |-> pps, h |-> h, v |-> w, res |-> "ok", fs |-> st.files])
  /\ UNCHANGED impl

IWrite(w, path, mode, ans, kind, cv) ==
  LET wr     == st.writers[w]
      F0     == st.files
      pdir   == IF path \in WDirs THEN "nodir" ELSE IF path \in {"dir/a.xml", "dir/a.pb"} THEN "dir" ELSE ""
      tgt    == IF path # "" THEN path
                ELSE IF DEV_ScenarioNoSuffix /\ wr.fmt = "xml" /\ kind = "scenario" THEN Sid ELSE Sid \o Ext(wr.fmt)
      isfile == IsFile(F0, tgt)                                            \* pathlib.Path(filename).is_file()
      asked  == isfile /\ mode = "ask"
      eof    == asked /\ ans = <<>>
      answer == IF ~isfile THEN "y" ELSE IF mode = "skip" THEN "n" ELSE IF mode = "always" THEN "y"
                ELSE IF ans = <<>> THEN "" ELSE ans[1]
      go     == ~eof /\ (IF DEV_AnyButNReplaces THEN answer # "n" ELSE answer = "y")
      patherr == IsDir(F0, tgt) \/ pdir = "nodir"
      doc0   == F(wr, kind)
      doc    == [doc0 EXCEPT !.fmt = IF DEV_SuffixDecidesFormat THEN NameFmt(path, wr.fmt) ELSE wr.fmt,
                             !.h = IF DEV_ScenarioWins /\ wr.h = "both" THEN "scn" ELSE doc0.h]
      inval  == InvalidDoc(wr, kind, cv)
      valerr == go /\ ~patherr /\ inval /\ ~DEV_ValidityIgnored             \* repaired design: raise before anything is written
      wrote  == go /\ ~patherr /\ ~valerr
      F1     == IF wrote THEN Upd(F0, tgt, doc)
                ELSE IF DEV_SkipTruncates /\ isfile /\ ~go /\ ~eof THEN Upd(F0, tgt, Garbage) ELSE F0
      res    == IF eof THEN "exc:EOFError" ELSE IF go /\ patherr THEN (IF IsDir(F0, tgt) THEN "exc:IsADirectoryError" ELSE "exc:FileNotFoundError")
                ELSE IF valerr THEN "exc:ValueError" ELSE "ok"
  IN /\ w \in DOMAIN st.writers
     /\ (cv = 1 => kind = "full")                                           \* write_scenario_to_file has no check_validity
     /\ (ans # <<>> => mode = "ask")                                        \* the queue matters in ASK_USER_INPUT mode only
     /\ ((mode = "ask" /\ ~isfile) => ans = <<"n">>)                        \* ... and when there is a file (an unexpected prompt would skip)
     /\ Step([op |-> "write", w |-> w, path |-> path, pdir |-> pdir, sid |-> Sid, mode |-> mode, ans |-> ans, kind |-> kind,
              cv |-> cv, res |-> res, prompts |-> B(asked), touched |-> IF F1 # F0 \/ wrote THEN <<tgt>> ELSE <<>>,
              warned |-> 0, fs |-> F1])
     /\ UNCHANGED impl

WNext == /\ dom = "write" /\ steps < WSteps
         /\ \/ \E fmt \in {"xml", "pb"}, pps \in {"one", "empty"}, h \in WHs : IWNew(fmt, pps, h)
            \/ \E w \in 1..MaxWriters, p \in WPaths, m \in {"always", "skip", "ask"}, ans \in Answers,
                  k \in {"full", "scenario"}, cv \in {0, 1} : IWrite(w, p, m, ans, k, cv)

(* ---- reader ------------------------------------------------------------------------------ *)
NameParts(name) == CASE name = "a.xml" -> <<"a", "xml">> [] name = "a.pb" -> <<"a", "pb">> [] name = "a.XML" -> <<"a", "XML">>
                     [] name = "a" -> <<"a">> [] name = "a.txt" -> <<"a", "txt">> [] OTHER -> <<name>>
NetId(c) == 10 * c.v + (CASE c.fmt = "xml" -> 1 [] c.fmt = "pb" -> 2 [] c.fmt = "xml18" -> 3 [] OTHER -> 0)
IRNew(name, ff, src) ==
  LET r  == Cardinality(DOMAIN st.readers) + 1
      nw == ImplNew(NameParts(name), ff, src)
  IN /\ r <= MaxReaders
     /\ Step([op |-> "r_new", r |-> r, name |-> name, parts |-> NameParts(name), ff |-> ff, src |-> src, res |-> nw.res,
              fs |-> st.files])
     /\ impl' = IF nw.res = "ok" THEN [impl EXCEPT !.eff = Upd(impl.eff, r, nw.eff)] ELSE impl

Parsed(r) ==         \* what the reader object parses now: [ok, c]
  LET rd  == st.readers[r]
      cur == Target(st, rd)
      c   == IF DEV_ReaderCaches /\ r \in DOMAIN impl.cache THEN impl.cache[r] ELSE cur
  IN [ok |-> Compatible(c.fmt, impl.eff[r]), c |-> c, cur |-> cur]
ExcOf(r, c) == IF impl.eff[r] = "none" THEN "exc:AttributeError" ELSE IF c.fmt = "none" THEN "exc:FileNotFoundError"
               ELSE IF c.fmt = "dir" THEN "exc:IsADirectoryError" ELSE IF impl.eff[r] = "xml" THEN "exc:ParseError" ELSE "exc:DecodeError"
IOpen(r, la) ==
  LET p == Parsed(r) IN
  /\ r \in DOMAIN st.readers
  /\ Step(IF p.ok THEN [op |-> "open", r |-> r, la |-> la, res |-> "ok", v |-> p.c.v, pp |-> p.c.pp, h |-> p.c.h,
                        nfp |-> NetId(p.c), ofp |-> NetId(p.c), reg |-> la, fresh |-> 1,
                        eqprev |-> B(r \in DOMAIN impl.prev /\ impl.prev[r] = LastOpen(p.c, la)), fs |-> st.files]
          ELSE [op |-> "open", r |-> r, la |-> la, res |-> ExcOf(r, p.c), v |-> 0, pp |-> 0, h |-> "", nfp |-> 0, ofp |-> 0,
                reg |-> 0, fresh |-> 1, eqprev |-> 0, fs |-> st.files])
  /\ impl' = IF p.ok THEN [impl EXCEPT !.cache = IF r \in DOMAIN impl.cache THEN impl.cache ELSE Upd(impl.cache, r, p.c),
                                       !.prev = Upd(impl.prev, r, LastOpen(p.c, la))]
             ELSE impl
IOpenNet(r) ==
  LET p == Parsed(r) IN
  /\ r \in DOMAIN st.readers
  /\ Step(IF p.ok THEN [op |-> "open_net", r |-> r, res |-> "ok", v |-> p.c.v,
                        nfp |-> NetId(p.c) + (IF DEV_NetDrops2018bSpeed /\ p.c.fmt = "xml18" THEN 1000 ELSE 0),
                        fresh |-> 1, fs |-> st.files]
          ELSE [op |-> "open_net", r |-> r, res |-> ExcOf(r, p.c), v |-> 0, nfp |-> 0, fresh |-> 1, fs |-> st.files])
  /\ impl' = IF p.ok /\ r \notin DOMAIN impl.cache THEN [impl EXCEPT !.cache = Upd(impl.cache, r, p.c)] ELSE impl

Fixtures == {C(f, v, 1, "arg") : f \in RFmts \ {"garb"}, v \in RVs} \cup (IF "garb" \in RFmts THEN {Garbage} ELSE {})
RNext == /\ dom = "read" /\ steps < RSteps
         /\ \/ \E n \in RNames, c \in Fixtures : FileAt(st.files, n) # c /\ IPut(n, c)
            \/ \E n \in RNames : DOMAIN st.readers # {} /\ IRm(n)
            \/ \E n \in RNames, ff \in {"none", "xml", "pb"}, src \in {"str", "bytes"} : IRNew(n, ff, src)
            \/ \E r \in 1..MaxReaders : IOpenNet(r) \/ \E la \in {0, 1} : IOpen(r, la)

Next == (WNext \/ RNext) /\ steps' = steps + 1 /\ UNCHANGED dom
Spec == Init /\ [][Next]_vars

(* ---- the contract, as invariants and action properties of the implementation model -------- *)
PropRefines     == [][Clause(st, act') = ""]_vars
(* an operation changes at most the file it names; readers change nothing; a refused write changes nothing *)
PropFrame       == [][act'.op = "write" => Cardinality({n \in DOMAIN st.files \cup DOMAIN st'.files :
                                                              FileAt(st.files, n) # FileAt(st'.files, n)}) <= 1]_vars
PropReadersPure == [][act'.op \in {"r_new", "open", "open_net", "w_new"} => st'.files = st.files]_vars
PropRefusedAtomic == [][(act'.op = "write" /\ act'.res # "ok") => st'.files = st.files]_vars
(* every regular file a writer left in the sandbox is the document of some writer and carries that writer's format *)
InvFilesOwn     == dom = "write" => \A n \in DOMAIN st.files : st.files[n] = DirC \/
                      \E w \in DOMAIN st.writers : \E k \in {"full", "scenario"} : st.files[n] = F(st.writers[w], k)
(* opening is a function of (format the reader uses, content of the file now): the same call twice in a row agrees *)
PropOpenTwice   == [][(act.op = "open" /\ act'.op = "open" /\ act.r = act'.r /\ act.res = "ok") =>
                        (act'.res = "ok" /\ act'.v = act.v /\ act'.pp = act.pp /\ act'.h = act.h /\ act'.nfp = act.nfp)]_vars
InvDetectRefines == dom = "detect" =>
                      LET t == impl.t  nw == ImplNew(t.parts, t.ff, t.src)  D == Detect(t.parts, t.ff, t.src) IN
                      /\ RNewClause([Empty EXCEPT !.files = InitFiles],
                                    [op |-> "r_new", r |-> 1, name |-> "x", parts |-> t.parts, ff |-> t.ff, src |-> t.src,
                                     res |-> nw.res, fs |-> InitFiles]) = ""
                      /\ (nw.res = "ok" /\ nw.eff # "none") => nw.eff \in D
                      /\ (nw.res = "ok" /\ nw.eff = "none") => "err" \in D
InvCtorRefines  == dom = "ctor" => (CtorClause(CtorEvent(impl.t)) = "" /\ LawCtor(impl.t.a, impl.t.s))
SidParts == <<"ZAM_Test-1">>
InvLaws         == /\ LawOverrideWins(PartsU) /\ LawDetectTotal(PartsU) /\ LawDefaultReadable(SidParts)
                   /\ LawAsk(Answers) /\ LawModes(Answers)

(* ---- generation (GEN configurations, -workers 1) ------------------------------------------ *)
StKey == [d |-> dom, st |-> [files |-> st.files, writers |-> st.writers, readers |-> st.readers, nfp |-> Cardinality(DOMAIN st.fp)],
          impl |-> impl, steps |-> steps]
(* the last step of a walk observes something: histories ending in a constructor / fixture add nothing *)
GenPrune == (dom = "write" /\ steps' = WSteps) => act'.op = "write"
GenPruneR == (dom = "read" /\ steps' = RSteps) => act'.op \in {"open", "open_net"}
EmitEdge == GenPrune /\ GenPruneR /\ PrintT(<<"EDGE", ToJson([from |-> StKey, act |-> act', to |-> StKey'])>>)
EmitCase == /\ (dom = "ctor") => PrintT(<<"CASE", ToJson([k |-> "ctor", fmt |-> impl.t.fmt, a |-> impl.t.a, s |-> impl.t.s])>>)
            /\ (dom = "detect") => PrintT(<<"CASE", ToJson([k |-> "detect", parts |-> impl.t.parts, ff |-> impl.t.ff,
                                                           src |-> impl.t.src, disk |-> impl.t.disk])>>)
=================================================================================
