SPECIFICATION Spec
CONSTANTS
  Domains = {"write", "read", "ctor", "detect"}
  WPaths = {"", "a.xml", "a.pb", "a", "nodir/a.xml", "dir", "dir/a.xml"}
  WDirs = {"nodir/a.xml"}
  AnsLevel = 2
  MaxWriters = 2
  WSteps = 5
  WHs = {"arg", "scn", "both"}
  RNames = {"a.xml", "a.pb", "a.XML", "a"}
  RFmts = {"xml", "pb", "xml18", "garb"}
  RVs = {1, 2}
  MaxReaders = 2
  RSteps = 5
  DEV_AnyButNReplaces = FALSE
  DEV_ValidityIgnored = FALSE
  DEV_ScenarioNoSuffix = FALSE
  DEV_NetDrops2018bSpeed = FALSE
  DEV_SuffixDecidesFormat = FALSE
  DEV_ReaderCaches = FALSE
  DEV_SuffixBeatsOverride = FALSE
  DEV_SkipTruncates = FALSE
  DEV_ScenarioWins = FALSE
VIEW View
INVARIANT InvFilesOwn
INVARIANT InvDetectRefines
INVARIANT InvCtorRefines
INVARIANT InvLaws
PROPERTY PropRefines
PROPERTY PropFrame
PROPERTY PropReadersPure
PROPERTY PropRefusedAtomic
PROPERTY PropOpenTwice
