SPECIFICATION Spec
CONSTANTS
  Gen = FALSE
  Big = FALSE
INVARIANT TypeOK
INVARIANT LawEmptyGS
INVARIANT LawTimeOnlyFull
INVARIANT LawClosedForm
INVARIANT LawBands
INVARIANT LawCompass
INVARIANT LawStored
INVARIANT LawGroups
INVARIANT LawDecider
INVARIANT LawTraj
INVARIANT LawMoved
INVARIANT LawFile
INVARIANT LawMovedOri
PROPERTY Monotone
PROPERTY TurnInv
