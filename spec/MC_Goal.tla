-------------------------------- MODULE MC_Goal --------------------------------
(* Model for C08.  One TLC state = (class, goal region, query state).               *)
(*   Init      every single-goal-state region of a class x every probe of the class *)
(*   AddGoal   appends a second goal state (monotonicity is an action property)     *)
(*   TurnMore  shifts a kinematic orientation by one full turn (invariance)         *)
(* Classes (per-dimension exhaustive + a mixed sample):                             *)
(*   "ori"  all angle intervals (start -24..24, length 0..23) x all grid angles,    *)
(*          the int 0, and point-mass states in the 8 compass directions + (0,0)    *)
(*   "pos"  all regions (incl. 6 mixed / nested shape groups) x a 13 x 13 probe grid *)
(*   "tv"   all time intervals on 0..6, all velocity intervals on -1..3, combos      *)
(*   "mix"  64 goal states with several constraints x 64 probes; + second goal state*)
(*   "cls"  13 goals on heading / speed x 144 states of 9 state classes by stored    *)
(*          attributes (KS, ST, ExtendedPM, MB, Initial, custom; PM, custom vx/vy)      *)
(*   "file" 4 lanelet-referenced goal regions written to a file and read back; the  *)
(*          scenario and / or the planning problem set are moved (4 motions x 4 orders) *)
(*   "movp" / "movo"  goals that are MOVED (translate_rotate by an integer translation *)
(*          and a quarter turn) before the query: 8 position goals x 8 motions x the   *)
(*          moved probe grid + probes at the old location; 4 angle goals x 4 motions   *)
(* Gen = TRUE: one state per goal region; Emit prints the region with its probes.   *)
EXTENDS Goal
CONSTANTS Gen, Big

Range(f) == {f[i] : i \in DOMAIN f}
FullT == Iv(0, 6)

(* ---- orientation ---- *)
OriAll == {Ang(a, a + n) : a \in -Turn..Turn, n \in 0..Turn - 1}
Compass1 == <<<<1, 0>>, <<1, 1>>, <<0, 1>>, <<-1, 1>>, <<-1, 0>>, <<-1, -1>>, <<0, -1>>, <<1, -1>>, <<0, 0>>>>
FarTh == <<-48, -47, -36, -25, 25, 30, 36, 48>>                                   \* thorough tier: orientations beyond +-2pi
OriProbes == [i \in 1..(IF Big THEN 75 ELSE 59) |->
                IF i <= 49 THEN KS(3, <<0, 0>>, i - 25, 0, 1, 0)
                ELSE IF i = 50 THEN KS(3, <<0, 0>>, 0, 1, 1, 0)                                  \* orientation = int 0
                ELSE IF i <= 59 THEN PM(3, <<0, 0>>, Compass1[i - 50][1], Compass1[i - 50][2])
                ELSE IF i <= 67 THEN PM(3, <<0, 0>>, 2 * Compass1[i - 59][1], 2 * Compass1[i - 59][2])
                ELSE KS(3, <<0, 0>>, FarTh[i - 67], 0, 1, 0)]

(* ---- position (doubled coordinates) ---- *)
(* ShapeGroups mixing member kinds.  Probe grid -2..10: every cell of each arrangement is hit - in exactly one member of   *)
(* each kind, in several, in none, and inside a disc BETWEEN r/2 and r with axis-parallel and with diagonal offsets.        *)
MixedGroups ==
  { MGroup(<<Disc(<<4, 4>>, 4), Rect(<<6, 2, 10, 6>>), Poly(<<<<0, 8>>, <<6, 8>>, <<0, 10>>>>)>>),   \* disc overlapping a rect, a triangle touching the disc region
    MGroup(<<Disc(<<0, 0>>, 10), Rect(<<8, 8, 10, 10>>)>>),               \* big disc: (6,6), (7,7), (9,3), (0,10), (6,8) lie beyond r/2
    MGroup(<<Disc(<<2, 2>>, 3)>>),                                          \* a disc alone in a group (odd doubled radius: r = 1.5)
    MGroup(<<Rect(<<0, 0, 3, 3>>), Poly(<<<<4, 0>>, <<10, 0>>, <<10, 6>>>>)>>),                        \* no disc
    MGroup(<<MGroup(<<Disc(<<6, 6>>, 4), Rect(<<-2, 8, 2, 10>>)>>), Rect(<<0, 0, 2, 2>>)>>),           \* nested group holding a disc
    MGroup(<<Disc(<<2, 6>>, 4), Disc(<<6, 6>>, 4), MGroup(<<Poly(<<<<2, 0>>, <<8, 0>>, <<6, 2>>, <<4, 2>>>>)>>)>>) }  \* two overlapping discs + nested polygon
Regions == { Rect(<<0, 0, 4, 4>>), Rect(<<1, 1, 6, 3>>), Rect(<<-1, 2, 9, 3>>),
             Disc(<<4, 4>>, 4), Disc(<<2, 4>>, 2), Disc(<<0, 0>>, 10), Disc(<<3, 5>>, 3),       \* (6,8), (8,6), (0,10) on the r=10 circle
             Poly(<<<<0, 0>>, <<8, 0>>, <<0, 8>>>>),                                             \* triangle, hypotenuse through lattice points
             Poly(<<<<0, 8>>, <<8, 0>>, <<0, 0>>>>),                                             \* the same, clockwise
             Poly(<<<<0, 0>>, <<8, 0>>, <<8, 4>>, <<4, 4>>, <<4, 8>>, <<0, 8>>>>),               \* L-shape (reflex vertex)
             Poly(<<<<0, 0>>, <<4, 0>>, <<8, 6>>, <<4, 6>>>>),                                   \* parallelogram
             Poly(<<<<-2, 2>>, <<4, -2>>, <<10, 4>>, <<4, 10>>>>),                               \* kite with vertices on the grid border
             Group(<<<<0, 0, 2, 2>>, <<6, 6, 8, 8>>>>), Group(<<<<0, 0, 4, 4>>, <<4, 2, 8, 6>>>>),  \* disjoint; sharing an edge piece
             Group(<<<<0, 0, 6, 6>>, <<2, 2, 4, 4>>>>),                                          \* nested
             Lanelets(<<<<0, 0, 8, 2>>>>), Lanelets(<<<<0, 0, 8, 2>>, <<0, 2, 8, 4>>>>),          \* one lanelet; two adjacent lanelets
             Lanelets(<<<<0, 0, 4, 2>>, <<4, 0, 8, 2>>, <<6, 4, 10, 6>>>>) }                     \* successor pair + a separate one
           \cup MixedGroups
GridN == 13
PosPoint(i) == <<((i - 1) % GridN) - 2, ((i - 1) \div GridN) - 2>>
PosProbes == [i \in 1..2 * GridN * GridN |->
                IF i <= GridN * GridN THEN KS(3, PosPoint(i), 0, 0, 1, 0) ELSE PM(3, PosPoint(i - GridN * GridN), 1, 0)]

(* goal_reached over position goals: five diagonal walks (+0.5, +0.5 per step) across the probe grid *)
PosTrajs == [j \in 1..5 |-> LET k == <<0, 45, 84, 100, 140>>[j] IN
                             [i \in 1..3 |-> [PosProbes[k + 1 + 14 * (i - 1)] EXCEPT !.t = i]]]

(* ---- time and velocity ---- *)
TimeAll == {c \in [k : {"iv"}, lo : 0..6, hi : 0..6] : c.lo <= c.hi}
VelAll  == {c \in [k : {"iv"}, lo : -1..3, hi : -1..3] : c.lo <= c.hi}
TimeSome == {Iv(0, 0), Iv(2, 4), Iv(3, 3), Iv(5, 6)}
VelSome  == {Iv(-1, 0), Iv(1, 2), Iv(2, 2), Iv(0, 3)}
VelVec(i) == <<((i - 1) % 5) - 2, ((i - 1) \div 5) - 2>>
TVProbes == [i \in 1..95 |->
               IF i <= 70 THEN LET j == i - 1 IN KS(j % 7, <<0, 0>>, 0, 0, ((j \div 7) % 5) - 1, j \div 35)    \* t 0..6 x v -1..3 x float/int
               ELSE PM(3, <<0, 0>>, VelVec(i - 70)[1], VelVec(i - 70)[2])]                                        \* all (vx, vy) in -2..2

(* ---- mixed sample ---- *)
MixT   == {FullT, Iv(2, 3)}
MixPos == {NoC, Rect(<<0, 0, 4, 4>>), Disc(<<4, 4>>, 4), Lanelets(<<<<0, 0, 8, 2>>, <<0, 2, 8, 4>>>>)}
MixOri == {NoC, Ang(-3, 3), Ang(9, 15), Ang(-20, -2)}                  \* short around 0; wrapping +-pi; longer than pi
MixVel == {NoC, Iv(1, 2)}
MixGS  == {GS(t, p, o, v) : t \in MixT, p \in MixPos, o \in MixOri, v \in MixVel}
MixTh  == <<<<0, 0>>, <<0, 1>>, <<12, 0>>, <<-10, 0>>, <<14, 0>>>>                               \* <<th, thint>>
MixV   == <<<<1, 0>>, <<3, 1>>>>                                                                 \* <<v, vint>>
MixP   == <<<<2, 2>>, <<9, 9>>>>
MixPMV == <<<<1, 0>>, <<-1, 0>>, <<0, 1>>, <<-1, -1>>, <<2, -2>>, <<0, 0>>>>
MixProbes == [i \in 1..64 |->
                IF i <= 40 THEN LET j == i - 1 IN
                     KS(1 + 2 * (j % 2), MixP[((j \div 2) % 2) + 1], MixTh[((j \div 4) % 5) + 1][1], MixTh[((j \div 4) % 5) + 1][2],
                        MixV[(j \div 20) + 1][1], MixV[(j \div 20) + 1][2])
                ELSE LET j == i - 41 IN
                     PM(1 + 2 * (j % 2), MixP[((j \div 2) % 2) + 1], MixPMV[(j \div 4) + 1][1], MixPMV[(j \div 4) + 1][2])]
(* trajectories for goal_reached: 1..3 states of one kind with consecutive time steps, taken from the mixed probes *)
WithT(st, t) == [st EXCEPT !.t = t]
TrajKS(k, n, t0) == [i \in 1..n |-> WithT(MixProbes[((k + 7 * (i - 1)) % 40) + 1], t0 + i - 1)]
TrajPM(k, n, t0) == [i \in 1..n |-> WithT(MixProbes[41 + ((k + 5 * (i - 1)) % 24)], t0 + i - 1)]
MixTrajs == <<TrajKS(0, 3, 1), TrajKS(2, 3, 2), TrajKS(5, 3, 1), TrajKS(9, 3, 0), TrajKS(12, 3, 2), TrajKS(22, 3, 1),
              TrajKS(3, 2, 3), TrajKS(10, 2, 2), TrajKS(1, 1, 3), TrajKS(8, 1, 2),
              TrajPM(0, 3, 1), TrajPM(3, 3, 2), TrajPM(7, 3, 1), TrajPM(12, 2, 2), TrajPM(4, 1, 3), TrajPM(17, 1, 2)>>

(* second goal states *)
G2 == {GS(FullT, Rect(<<0, 0, 4, 4>>), NoC, NoC), GS(Iv(3, 3), NoC, Ang(9, 15), NoC), GS(Iv(1, 3), NoC, NoC, Iv(1, 2))}
      \cup (IF Big THEN {GS(FullT, NoC, Ang(-20, -2), NoC), GS(Iv(0, 2), Disc(<<4, 4>>, 4), Ang(-3, 3), Iv(1, 2)),
                         GS(Iv(3, 6), Lanelets(<<<<0, 0, 8, 2>>>>), NoC, NoC)} ELSE {})

(* quick tier: the big "ori" class gets one second goal state only (the one with an orientation constraint) *)
G2For(c) == IF c = "ori" /\ ~Big THEN {GS(Iv(3, 3), NoC, Ang(9, 15), NoC)} ELSE G2

(* ---- moved goals: the region is moved by a lattice rigid motion inside the library, then queried ---- *)
MovesP == <<[t |-> <<0, 0>>, q |-> 0], [t |-> <<3, -2>>, q |-> 0], [t |-> <<0, 0>>, q |-> 1], [t |-> <<3, -2>>, q |-> 1],
            [t |-> <<0, 0>>, q |-> 2], [t |-> <<-4, 6>>, q |-> 2], [t |-> <<0, 0>>, q |-> 3], [t |-> <<3, -2>>, q |-> 3]>>
MovesO == <<[t |-> <<4, -2>>, q |-> 0], [t |-> <<4, -2>>, q |-> 1], [t |-> <<4, -2>>, q |-> 2], [t |-> <<4, -2>>, q |-> 3]>>
MovThs == <<-4, -3, 0, 3, 4>>
MovPBase == [i \in 1..GridN * GridN |-> KS(3, PosPoint(i), MovThs[(i % 5) + 1], 0, 1, 0)]       \* the probe grid, varying headings
MovPOld  == [i \in 1..25 |-> KS(3, <<3 * ((i - 1) % 5) - 2, 3 * ((i - 1) \div 5) - 2>>, 0, 0, 1, 0)]  \* stay where the goal WAS
MovPGoals == {GS(FullT, p, NoC, NoC) : p \in {Rect(<<0, 0, 4, 4>>), Rect(<<1, 1, 6, 3>>), Disc(<<4, 4>>, 4),
                                               Poly(<<<<0, 0>>, <<8, 0>>, <<8, 4>>, <<4, 4>>, <<4, 8>>, <<0, 8>>>>),
                                               Group(<<<<0, 0, 4, 4>>, <<4, 2, 8, 6>>>>),
                                               Lanelets(<<<<0, 0, 8, 2>>, <<0, 2, 8, 4>>>>),
                                               MGroup(<<Disc(<<4, 4>>, 4), Rect(<<6, 2, 10, 6>>), MGroup(<<Poly(<<<<0, 8>>, <<6, 8>>, <<0, 10>>>>)>>)>>)}}
             \cup {GS(FullT, Rect(<<0, 0, 6, 4>>), Ang(-3, 3), NoC), GS(Iv(2, 4), Rect(<<1, 1, 6, 3>>), Ang(9, 15), Iv(1, 2))}
MovOGoals == {GS(FullT, NoC, o, NoC) : o \in {Ang(-3, 3), Ang(9, 15), Ang(-20, -2), Ang(20, 30)}}
MovClasses == {"movp", "movo"}
Moves(c)   == IF c = "movo" THEN MovesO ELSE MovesP
MovBase(c) == IF c = "movo" THEN OriProbes ELSE MovPBase
MovedProbes(c, m) == [i \in DOMAIN MovBase(c) |-> MoveState(MovBase(c)[i], m)] \o (IF c = "movp" THEN MovPOld ELSE <<>>)
MovTrajs(c, m) == IF c # "movp" THEN <<>> ELSE
                  [j \in 1..6 |-> LET k == <<0, 30, 60, 84, 100, 140>>[j] IN
                                   [i \in 1..3 |-> WithT(MoveState(MovPBase[k + 1 + 14 * (i - 1)], m), i)]]

(* ---- goal read from a file: lanelet-referenced goal positions; scenario and / or planning problem set moved ---- *)
(* road network (doubled coordinates): A = [0,4]x[0,1], B = [0,4]x[1,2] (left of A), C = [4,8]x[0,1] (successor of A)   *)
LanA == <<0, 0, 8, 2>>   LanB == <<0, 2, 8, 4>>   LanC == <<8, 0, 16, 2>>
FileLanes == <<LanA, LanB, LanC>>                                      \* the whole network, also lanelets no goal refers to
FileGoals == { <<GS(FullT, Lanelets(<<LanA>>), NoC, NoC)>>,
               <<GS(FullT, Lanelets(<<LanA, LanB>>), NoC, Iv(1, 2))>>,
               <<GS(Iv(2, 4), Lanelets(<<LanB, LanC>>), Ang(-3, 3), NoC)>>,
               <<GS(FullT, Lanelets(<<LanC>>), NoC, NoC), GS(FullT, Rect(<<0, 0, 4, 4>>), NoC, NoC)>> }   \* lanelet goal + shape goal
FileMoves == <<[t |-> <<3, -2>>, q |-> 0], [t |-> <<0, 0>>, q |-> 1], [t |-> <<-4, 6>>, q |-> 2], [t |-> <<3, -2>>, q |-> 3]>>
FileHists == <<<<"scn">>, <<"scn", "pps">>, <<"pps", "scn">>, <<"pps">>>>           \* plus <<>> (as read), emitted once
FileXs == <<-1, 0, 1, 4, 8, 9, 15, 16, 17>>
FileBase == [i \in 1..63 |-> KS(3, <<FileXs[((i - 1) % 9) + 1], ((i - 1) \div 9) - 1>>, <<-4, 0, 3>>[(i % 3) + 1], 0, 1 + (i % 2), 0)]
(* probes: where the goal was, where it is after one motion, and where a goal that moved TWICE would be *)
FileProbes(m) == FileBase \o [i \in DOMAIN FileBase |-> MoveState(FileBase[i], m)]
                          \o [i \in DOMAIN FileBase |-> MoveState(MoveState(FileBase[i], m), m)]
FileTrajs(m)  == [j \in 1..4 |-> LET k == <<10, 12, 28, 30>>[j] IN                    \* walks along +x through the lanelets
                                  [i \in 1..3 |-> WithT(MoveState(FileBase[k + 2 * (i - 1)], m), 1 + i)]]

(* ---- state classes by attribute combination ---- *)
ClsTags == <<"KSState", "STState", "ExtendedPMState", "MBState", "InitialState", "CustomOV", "CustomOVV", "PMState", "CustomVV">>
ClsThs  == <<-9, -6, -2, 0, 2, 6, 9, 12>>                         \* headings incl. +-pi/2 and others with sin # 0
ClsVecs == <<<<-1, -1>>, <<0, -2>>, <<2, -2>>, <<1, 0>>, <<2, 2>>, <<0, 2>>, <<-1, 1>>, <<-2, 0>>>>     \* the same headings as (vx, vy)
ClsProbes == [i \in 1..(9 * 8 * 2) |->
                LET j == i - 1  tag == ClsTags[(j % 9) + 1]  h == ((j \div 9) % 8) + 1  w == j \div 72 IN     \* w: second variant
                IF tag \in PmClasses THEN PMC(tag, 3, <<0, 0>>, (1 + w) * ClsVecs[h][1], (1 + w) * ClsVecs[h][2])
                ELSE KSC(tag, 3, <<0, 0>>, ClsThs[h], 1 + w, IF tag \in {"MBState", "CustomOVV"} THEN 1 + 2 * w ELSE 0)]
ClsGoals == {GS(FullT, NoC, o, NoC) : o \in {Ang(-3, 3), Ang(5, 7), Ang(2, 4), Ang(9, 15), Ang(-20, -2), Ang(6, 6), Ang(-7, -5)}}
            \cup {GS(FullT, NoC, NoC, v) : v \in {Iv(1, 1), Iv(2, 2), Iv(2, 3), Iv(0, 1)}}
            \cup {GS(FullT, NoC, Ang(3, 9), Iv(2, 2)), GS(Iv(2, 4), Rect(<<-1, -1, 1, 1>>), Ang(-9, -2), Iv(1, 2))}
ClsTrajs == [c \in 1..9 |-> [i \in 1..3 |-> WithT(ClsProbes[c + 9 * <<5, 3, 12>>[i]], i)]]     \* one per class: headings 6, 0, 2

Classes == {"ori", "pos", "tv", "mix", "file", "cls"} \cup MovClasses
Goals1(c) == CASE c = "ori" -> {GS(FullT, NoC, o, NoC) : o \in OriAll}
               [] c = "pos" -> {GS(FullT, p, NoC, NoC) : p \in Regions}
               [] c = "tv"  -> {GS(t, NoC, NoC, NoC) : t \in TimeAll} \cup {GS(FullT, NoC, NoC, v) : v \in VelAll}
                               \cup {GS(t, NoC, NoC, v) : t \in TimeSome, v \in VelSome}
               [] c = "mix" -> MixGS
               [] c = "movp" -> MovPGoals
               [] c = "movo" -> MovOGoals
               [] c = "file" -> {}                        \* file goals are whole regions: see Init
               [] c = "cls" -> ClsGoals
Probes(c) == CASE c = "ori" -> OriProbes [] c = "pos" -> PosProbes [] c = "tv" -> TVProbes [] c = "mix" -> MixProbes
               [] c = "movp" -> MovPBase [] c = "movo" -> OriProbes [] c = "file" -> FileBase [] c = "cls" -> ClsProbes

VARIABLES cls, goal, s
vars == <<cls, goal, s>>
Init == /\ cls \in Classes
        /\ goal \in (IF cls = "file" THEN FileGoals ELSE {<<g>> : g \in Goals1(cls)})
        /\ s \in (IF Gen THEN {Probes(cls)[1]} ELSE Range(Probes(cls)))
AddGoal  == /\ Len(goal) = 1 /\ (Gen => cls = "mix") /\ cls # "file"
            /\ \E g \in G2For(cls) : goal' = Append(goal, g) /\ Admissible(Append(goal, g), s)
            /\ UNCHANGED <<cls, s>>
TurnMore == /\ ~Gen /\ s.kind = "ks" /\ s.thint = 0 /\ s.th + Turn <= 2 * Turn
            /\ s' = [s EXCEPT !.th = @ + Turn]
            /\ UNCHANGED <<cls, goal>>
Next == AddGoal \/ TurnMore
Spec == Init /\ [][Next]_vars

(* ---- laws ---- *)
TypeOK          == Reached(goal, s) \in Verdict /\ Admissible(goal, s)
LawEmptyGS      == LawNoConstraint(s)
LawTimeOnlyFull == Reached(<<GS(FullT, NoC, NoC, NoC)>>, s) = "T"        \* what the library allows as "unconstrained": time only
LawClosedForm   == \A i \in DOMAIN goal : goal[i].ori.k = "ang" =>
                      LawAngleClosed(goal[i].ori.a, goal[i].ori.b, Theta(s)) /\ LawAngleTurn(goal[i].ori.a, goal[i].ori.b, Theta(s))
LawBands        == LawBandOnlyOnEnds(goal, s)
LawCompass      == LawHeading
LawStored       == cls = "cls" => /\ LawStoredOrientation(goal, s)
                                  /\ StoresVy(s) => (Sat("time", goal[1], s) # "EITHER" /\ Sat("position", goal[1], s) # "EITHER")
LawGroups       == \A i \in DOMAIN goal : LawFlatten(goal[i].pos, s.p) /\ LawGroupKind(goal[i].pos, s.p)
LawDecider      == Decider(goal, s) \in Attrs \cup {""}
LawTraj         == (cls = "mix" /\ s = MixProbes[1]) =>
                     \A k \in DOMAIN MixTrajs : LET tr == MixTrajs[k]  v == GoalReachedV(goal, tr) IN
                        /\ (v = "T" <=> \E i \in 0..Len(tr) - 1 : Reached(goal, tr[i + 1]) = "T")
                        /\ (v = "F" <=> \A i \in 0..Len(tr) - 1 : ~IndexOk(goal, tr, i))
                        /\ (Len(tr) > 1 => Leq3(GoalReachedV(goal, SubSeq(tr, 1, Len(tr) - 1)), v))      \* longer trajectory: never worse
(* rigid motions preserve membership; checked with every motion on the position, mixed and moved classes *)
LawMoved        == (cls \in {"pos"} \cup MovClasses \/ (cls = "mix" /\ (Big \/ Len(goal) = 1))) =>
                     \A k \in DOMAIN Moves(cls) : AdmMove(Moves(cls)[k]) /\ LawRigid(goal, s, Moves(cls)[k])
LawMovedOri     == (cls = "ori" /\ Len(goal) = 1 /\ (Big \/ goal[1].ori.a % 8 = 0)) =>       \* quick: every 8th interval start
                     \A k \in DOMAIN MovesO : LawRigid(goal, s, MovesO[k])
(* file route: the goal moves once per planning-problem motion, never with the scenario, in any order; the motion is rigid *)
LawFile         == cls = "file" => \A k \in DOMAIN FileMoves :
                      /\ LawFileOrder(goal, FileMoves[k]) /\ LawRigid(goal, s, FileMoves[k])
                      /\ \A h \in DOMAIN FileHists : AdmHist(FileHists[h]) /\
                            FileReached(goal, FileMoves[k], FileHists[h], s) \in Verdict
(* action properties *)
Monotone  == [][goal' # goal => Leq3(Reached(goal, s), Reached(goal', s))]_vars      \* adding a goal state never turns T into F
TurnInv   == [][s' # s => Compat(Reached(goal, s), Reached(goal', s'))]_vars         \* a full turn changes nothing (up to the band)

(* ---- generation ---- *)
(* `bands` = number of probes whose expected verdict is EITHER: evidence only (how much of the space the bands take) *)
IsMov == cls \in MovClasses
IsFile == cls = "file"
MovBands == Cardinality(UNION {LET mp == MovedProbes(cls, Moves(cls)[k]) IN
                                 {<<k, i>> : i \in {j \in DOMAIN mp : MovedReached(goal, Moves(cls)[k], mp[j]) = "EITHER"}}
                               : k \in DOMAIN Moves(cls)})
Emit == PrintT(<<"CASE", ToJson([cls |-> cls, goal |-> goal,
                                 states |-> IF IsMov THEN <<Probes(cls)[1]>> ELSE IF IsFile THEN <<>> ELSE Probes(cls),
                                 trajs |-> IF cls = "mix" THEN MixTrajs ELSE IF cls = "pos" THEN PosTrajs ELSE IF cls = "cls" THEN ClsTrajs ELSE <<>>,
                                 moves   |-> IF IsMov THEN Moves(cls) ELSE <<>>,
                                 mstates |-> IF IsMov THEN [k \in DOMAIN Moves(cls) |-> MovedProbes(cls, Moves(cls)[k])] ELSE <<>>,
                                 mtrajs  |-> IF IsMov THEN [k \in DOMAIN Moves(cls) |-> MovTrajs(cls, Moves(cls)[k])] ELSE <<>>,
                                 lanes   |-> IF IsFile THEN FileLanes ELSE <<>>,
                                 fmoves  |-> IF IsFile THEN FileMoves ELSE <<>>,
                                 fhists  |-> IF IsFile THEN FileHists ELSE <<>>,
                                 fstates |-> IF IsFile THEN [k \in DOMAIN FileMoves |-> FileProbes(FileMoves[k])] ELSE <<>>,
                                 ftrajs  |-> IF IsFile THEN [k \in DOMAIN FileMoves |-> FileTrajs(FileMoves[k])] ELSE <<>>,
                                 bands |-> IF IsFile THEN 0 ELSE IF IsMov THEN MovBands
                                           ELSE Cardinality({i \in DOMAIN Probes(cls) : Reached(goal, Probes(cls)[i]) = "EITHER"})])>>)
=================================================================================
