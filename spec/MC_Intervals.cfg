SPECIFICATION Spec
CONSTANTS
  K = 8
  Turn = 24
  ThMax = 36
  ShiftAbs = {0, 1, 5, 7, 11, 12, 13, 24}
  JLens = {0, 1, 6, 11, 12, 13, 23}
  JBoth = FALSE
VIEW View
INVARIANT InvWellFormed
INVARIANT InvContains
INVARIANT InvContainsInterval
INVARIANT InvOverlaps
INVARIANT InvIntersection
INVARIANT InvAdd
INVARIANT InvSub
INVARIANT InvMul
INVARIANT InvDiv
INVARIANT InvRound
INVARIANT InvConstruct
INVARIANT InvSet
INVARIANT InvAngleSet
INVARIANT InvWraps
INVARIANT InvAngleContains
INVARIANT InvAngleContainsInterval
INVARIANT InvAngleCanonical
INVARIANT InvAngleShift
INVARIANT InvAngleOverlaps
PROPERTY StepImage
