------------------------------ MODULE MC_Intervals ------------------------------
(* Model for C16: a state is one interval (plain or angle); the actions are the      *)
(* operations that produce intervals (those whose result is again a state of the     *)
(* finite universe).  The laws of Intervals.tla are checked as invariants for ALL    *)
(* arguments (also those that leave the universe) and, along every transition, as an *)
(* action property: the successor is the image set of the predecessor, start <= end. *)
EXTENDS Intervals

CONSTANTS ShiftAbs,   \* angle shifts (grid steps, both signs) that are generated / checked
          JLens,      \* lengths of the second angle interval J in contains-interval / overlaps cases
          JBoth       \* TRUE: J at both representations (start, start - full turn) when both are in range

Shifts == ShiftAbs \cup {-x : x \in ShiftAbs}

VARIABLES iv,      \* the interval
          act      \* history: the operation that produced it (hidden by VIEW; read by StepImage)
vars == <<iv, act>>
View == iv

PState(I) == [k |-> "plain", s |-> I.s, e |-> I.e]
AState(A) == [k |-> "angle", a |-> A.a, len |-> A.len]
PI == [s |-> iv.s, e |-> iv.e]
AI == [a |-> iv.a, len |-> iv.len]

(* construction in two steps (start, then end), so that the first level of the search already has many states *)
Init == /\ iv \in {[k |-> "start", kind |-> "plain", s |-> s] : s \in PVals}
                 \cup {[k |-> "start", kind |-> "angle", s |-> a] : a \in AStarts}
        /\ act = [k |-> "init"]
Construct == /\ iv.k = "start" /\ act' = [k |-> "construct"]
             /\ IF iv.kind = "plain"
                THEN \E e \in PVals : ExpConstruct(iv.s, e).res = "ok" /\ iv' = PState([s |-> iv.s, e |-> e])   \* start > end: rejected
                ELSE \E len \in ALens : iv' = AState([a |-> iv.s, len |-> len])

(* a result in fine units that is again an interval of the universe *)
Rep(R)     == R.res = "ok" /\ R.s % 50 = 0 /\ R.e % 50 = 0 /\ (R.s \div 50) \in PVals /\ (R.e \div 50) \in PVals
ToState(R) == [k |-> "plain", s |-> R.s \div 50, e |-> R.e \div 50]
Add        == iv.k = "plain" /\ \E op \in AddOps   : LET R == ExpOp(PI, op) IN Rep(R) /\ iv' = ToState(R) /\ act' = op
Sub        == iv.k = "plain" /\ \E op \in SubOps   : LET R == ExpOp(PI, op) IN Rep(R) /\ iv' = ToState(R) /\ act' = op
Mul        == iv.k = "plain" /\ \E op \in MulOps   : LET R == ExpOp(PI, op) IN Rep(R) /\ iv' = ToState(R) /\ act' = op
Div        == iv.k = "plain" /\ \E op \in DivOps   : LET R == ExpOp(PI, op) IN Rep(R) /\ iv' = ToState(R) /\ act' = op
Round      == iv.k = "plain" /\ \E op \in RoundOps : LET R == ExpOp(PI, op) IN Rep(R) /\ iv' = ToState(R) /\ act' = op
Intersect  == iv.k = "plain" /\ \E J \in PIntervals : LET R == ExpIntersection(PI, J)
                                                      IN Rep(R) /\ iv' = ToState(R) /\ act' = [k |-> "intersect", J |-> J]
AngleShift == iv.k = "angle" /\ \E x \in Shifts : iv' = AState(ExpAngleShift(AI, x)) /\ act' = [k |-> "angle_shift", x |-> x]
(* end point assignment through the public setters: just another transition of the interval *)
SetStart   == \/ iv.k = "plain" /\ \E x \in PVals : LET R == ExpSetStart(PI, x)
                                                   IN R.res = "ok" /\ iv' = ToState(R) /\ act' = [k |-> "set_start", x |-> x]     \* x > end: rejected
              \/ iv.k = "angle" /\ InDomain(AI) /\ \E x \in AStarts :
                   LET R == ExpAngleSetStart(AI, x)
                   IN AngleSetAdmissible(x, AI.a + AI.len) /\ R.res = "ok" /\ iv' = AState(R) /\ act' = [k |-> "set_start", x |-> x]
SetEnd     == \/ iv.k = "plain" /\ \E x \in PVals : LET R == ExpSetEnd(PI, x)
                                                   IN R.res = "ok" /\ iv' = ToState(R) /\ act' = [k |-> "set_end", x |-> x]
              \/ iv.k = "angle" /\ InDomain(AI) /\ \E x \in AStarts :
                   LET R == ExpAngleSetEnd(AI, x)
                   IN AngleSetAdmissible(AI.a, x) /\ R.res = "ok" /\ iv' = AState(R) /\ act' = [k |-> "set_end", x |-> x]
Next == Construct \/ SetStart \/ SetEnd \/ Add \/ Sub \/ Mul \/ Div \/ Round \/ Intersect \/ AngleShift
Spec == Init /\ [][Next]_vars

(* second angle intervals J used with A: every offset d of the start around the circle x the lengths JLens *)
JsFor(A) == LET R(d) == IF A.a + d <= Turn THEN A.a + d ELSE A.a + d - Turn                    \* representative in -Turn..Turn
                D == 0..(Turn - 1)
            IN {[a |-> R(d), len |-> n] : d \in D, n \in JLens}
               \cup (IF JBoth THEN {[a |-> R(d) - Turn, len |-> n] : d \in {x \in D : R(x) >= 0}, n \in JLens}
                                   \cup {[a |-> R(d) + Turn, len |-> n] : d \in {x \in D : R(x) <= 0}, n \in JLens}
                     ELSE {})

OJsFor(A) == {J \in JsFor(A) : J.len \in {0, 6, 13, 23}}          \* second intervals for the (both-readings) overlaps query

(* ---- laws as invariants: all arguments ---- *)
IsP == iv.k = "plain"
IsA == iv.k = "angle"
InvContains          == IsP => LawContains(PI)
InvContainsInterval  == IsP => LawContainsInterval(PI)
InvOverlaps          == IsP => LawOverlaps(PI)
InvIntersection      == IsP => LawIntersection(PI)
InvAdd               == IsP => LawOps(PI, AddOps)
InvSub               == IsP => LawOps(PI, SubOps)
InvMul               == IsP => LawOps(PI, MulOps)
InvDiv               == IsP => LawOps(PI, DivOps)
InvRound             == IsP => LawOps(PI, RoundOps)
InvConstruct         == LawConstruct
InvSet               == IsP => LawSet(PI)
InvAngleSet          == (IsA /\ InDomain(AI)) => LawAngleSet(AI)
InvWellFormed        == (IsP => PI \in PIntervals) /\ (IsA => AI \in AIntervals)
InvWraps             == IsA => LawWraps(AI)
InvAngleContains     == IsA => LawAngleContains(AI)
InvAngleContainsInterval == IsA => LawAngleContainsInterval(AI, {J \in AIntervals : J.a \in 0..(Turn - 1)} \cup JsFor(AI))
InvAngleCanonical    == IsA => LawAngleCanonical(AI)
InvAngleShift        == IsA => LawAngleShift(AI, (-2 * Turn)..(2 * Turn))
InvAngleOverlaps     == IsA => LawAngleOverlaps(AI, {J \in AIntervals : J.a \in 0..(Turn - 1)} \cup JsFor(AI))

(* ---- law along transitions: the successor is the image set, with start <= end ---- *)
StepOK(I, op, R) ==
  CASE op.k = "construct" ->
         IF I.kind = "plain" THEN R.k = "plain" /\ R.s = I.s /\ R.s <= R.e ELSE R.k = "angle" /\ R.a = I.s /\ R.len \in ALens
    [] op.k \in {"add", "sub", "mul", "div", "round"} ->
         R.k = "plain" /\ R.s <= R.e /\ ImageOK([s |-> I.s, e |-> I.e], op, Ok(Fine(R.s), Fine(R.e)))
    [] op.k = "intersect" ->
         R.k = "plain" /\ R.s <= R.e /\ H([s |-> R.s, e |-> R.e]) = H([s |-> I.s, e |-> I.e]) \cap H(op.J)
    [] op.k \in {"set_start", "set_end"} ->             \* the successor is the freshly constructed interval with the new bounds
         IF I.k = "plain"
         THEN LET ns == IF op.k = "set_start" THEN op.x ELSE I.s   ne == IF op.k = "set_end" THEN op.x ELSE I.e
              IN R.k = "plain" /\ R.s <= R.e /\ R = PState([s |-> ns, e |-> ne])
                 /\ H([s |-> R.s, e |-> R.e]) = {p \in HGrid : 2 * ns <= p /\ p <= 2 * ne}
         ELSE LET ns == IF op.k = "set_start" THEN op.x ELSE I.a   ne == IF op.k = "set_end" THEN op.x ELSE I.a + I.len
                  RA == [a |-> R.a, len |-> R.len]
              IN R.k = "angle" /\ RA \in AIntervals /\ InDomain(RA) /\ RA = [a |-> ns, len |-> ne - ns]
                 /\ ASetT[RA] = {p \in Residues2 : \E j \in Wraps : 2 * ns <= p + T2 * j /\ p + T2 * j <= 2 * ne}
    [] op.k = "angle_shift" ->
         /\ R.k = "angle" /\ R.len >= 0 /\ InDomain([a |-> R.a, len |-> R.len])
         /\ ASetT[[a |-> R.a, len |-> R.len]] = {(p + 2 * op.x) % T2 : p \in ASetT[[a |-> I.a, len |-> I.len]]}
StepImage == [][StepOK(iv, act', iv')]_vars

(* ---- re-bounding scenarios: construct, (query once,) assign new bounds through the setters, query again ---- *)
Step(f, x) == [f |-> f, x |-> x]
(* plain: targets J reached from I by one or two assignments; the path keeps start <= end at every step *)
PSetTargets(I) == {J \in PIntervals : /\ J # I
                                      /\ \/ J.e = I.e /\ J.s \in {-K, I.s - 2, I.s + 1, I.e}
                                         \/ J.s = I.s /\ J.e \in {I.s, I.e - 1, I.e + 2, K}
                                         \/ J.s = I.s - 1 /\ J.e = I.e + 1
                                         \/ J.s = I.s + 1 /\ J.e = I.e - 1
                                         \/ J.s = I.e + 1 /\ J.e = I.e + 2}
PPath(I, J) == LET ss == IF J.s = I.s THEN <<>> ELSE <<Step("start", J.s)>>
                   ee == IF J.e = I.e THEN <<>> ELSE <<Step("end", J.e)>>
               IN IF J.s <= I.e THEN ss \o ee ELSE ee \o ss
PSetCase(I, J) == [s |-> J.s, e |-> J.e, path |-> PPath(I, J),
                   xs |-> {v + d : v \in {J.s, J.e}, d \in {-1, 0, 1}} \cup {I.s, I.e},                   \* queries around new and at old bounds
                   js |-> {<<I.s, I.e>>, <<J.s, J.e>>, <<MinOf(I.s, J.s), MaxOf(I.e, J.e)>>, <<J.e, J.e + 1>>, <<J.s - 1, J.s>>}]
(* angle: absolute bounds <<x, y>>; only intervals inside the domain (stored end points = the floats passed in) *)
ASetTargets(A) ==
  LET a == A.a  b == A.a + A.len
      cands == {<<x, b>> : x \in {MaxOf(-Turn, b - (Turn - 1)), a - 1, a + 1, b}}
               \cup {<<a, y>> : y \in {a, b - 1, b + 1, MinOf(Turn, a + Turn - 1)}}
               \cup {<<a - 1, b + 1>>, <<a + 1, b - 1>>, <<a + 2, b + 13>>}
  IN {c \in cands : /\ c # <<a, b>> /\ c[1] <= c[2] /\ AngleSetAdmissible(c[1], c[2])
                    /\ \/ (c[1] <= b /\ AngleSetAdmissible(c[1], b))          \* start first is admissible
                       \/ (a <= c[2] /\ AngleSetAdmissible(a, c[2]))}         \* or end first
APath(A, c) == LET a == A.a  b == A.a + A.len
                   ss == IF c[1] = a THEN <<>> ELSE <<Step("start", c[1])>>
                   ee == IF c[2] = b THEN <<>> ELSE <<Step("end", c[2])>>
               IN IF c[1] <= b /\ AngleSetAdmissible(c[1], b) THEN ss \o ee ELSE ee \o ss
ASetCase(A, c) == LET a == A.a  b == A.a + A.len  R == [a |-> c[1], len |-> c[2] - c[1]]
                  IN [a |-> R.a, len |-> R.len, path |-> APath(A, c),
                      ths |-> {th \in {v + d : v \in {c[1], c[2]}, d \in {-1, 0, 1}} \cup {a, b}             \* around new, at old bounds,
                                      \cup {v + w : v \in {c[1], c[2]}, w \in {-Turn, Turn}} : -ThMax <= th /\ th <= ThMax},   \* and a turn away
                      js |-> {<<J.a, J.len>> : J \in {A, R, [a |-> R.a, len |-> MinOf(R.len + 1, Turn - 1)]}
                                                     \cup (IF R.len > 0 THEN {[a |-> R.a + 1, len |-> R.len - 1]} ELSE {})
                                                     \cup (IF a <= c[2] /\ c[2] - a < Turn THEN {[a |-> a, len |-> c[2] - a]} ELSE {})},
                      shifts |-> {5, -13}]
ASets(A) == IF InDomain(A) /\ A.len \in JLens THEN {ASetCase(A, c) : c \in ASetTargets(A)} ELSE {}

(* ---- generation: one case per interval, with the argument domains of every operation ---- *)
HQueries == {2 * x : x \in -(K + 2)..(K + 2)}
Emit ==
  IF iv.k = "start" THEN TRUE
  ELSE IF IsP
  THEN PrintT(<<"CASE", ToJson([kind |-> "plain", s |-> iv.s, e |-> iv.e,
                                 xs |-> -(K + 2)..(K + 2), shifts |-> PVals,
                                 js |-> {<<J.s, J.e>> : J \in PIntervals},
                                 mul |-> {<<c.n, c.d>> : c \in Scalars \cup {Zero}}, div |-> {<<c.n, c.d>> : c \in Scalars},
                                 rounds |-> Rounds,
                                 sets |-> {PSetCase(PI, J) : J \in PSetTargets(PI)}])>>)
  ELSE PrintT(<<"CASE", ToJson([kind |-> "angle", a |-> iv.a, len |-> iv.len,
                                 ths |-> -ThMax..ThMax, shifts |-> Shifts,
                                 js |-> {<<J.a, J.len>> : J \in JsFor(AI)},
                                 ojs |-> {<<J.a, J.len>> : J \in OJsFor(AI)},
                                 sets |-> ASets(AI),
                                 \* size of the EITHER bands among the arguments of this case (summed up in the evidence)
                                 either |-> [angle_contains |-> Cardinality({th \in -ThMax..ThMax : ExpAngleContains(AI, 2 * th) = "EITHER"}),
                                             angle_contains_interval |-> Cardinality({J \in JsFor(AI) : ExpAngleContainsInterval(AI, J) = "EITHER"}),
                                             angle_overlaps |-> Cardinality({J \in OJsFor(AI) : ExpAngleOverlaps(AI, J) = "EITHER"})]])>>)
=================================================================================
