SPECIFICATION Spec
CONSTANTS
  K = 8
  Turn = 24
  ThMax = 36
  ShiftAbs = {0, 1, 2, 3, 4, 5, 6, 7, 8, 9, 10, 11, 12, 13, 14, 15, 16, 17, 18, 19, 20, 21, 22, 23, 24}
  JLens = {0, 1, 2, 3, 4, 5, 6, 7, 8, 9, 10, 11, 12, 13, 14, 15, 16, 17, 18, 19, 20, 21, 22, 23}
  JBoth = TRUE
VIEW View
INVARIANT InvWellFormed
INVARIANT InvContains
INVARIANT InvContainsInterval
INVARIANT InvOverlaps
INVARIANT InvIntersection
INVARIANT InvAdd
INVARIANT InvSub
INVARIANT InvMul
INVARIANT InvDiv
INVARIANT InvRound
INVARIANT InvConstruct
INVARIANT InvSet
INVARIANT InvAngleSet
INVARIANT InvWraps
INVARIANT InvAngleContains
INVARIANT InvAngleContainsInterval
INVARIANT InvAngleCanonical
INVARIANT InvAngleShift
INVARIANT InvAngleOverlaps
PROPERTY StepImage
