SPECIFICATION Spec
CONSTANTS
  Steps <- StepsQ1
  MaxSegs = 4
  MergeSegs = 2
  Lens = {1, 2}
  Ranges = {1, 2, 3, 5, 100}
  Den = 60
  N = 3
  Starts = {1, 2, 3}
  Modes = {"geom", "merge", "route", "hist"}
  Units = {1, 2, 5, 10}
  Dtypes = {"f64", "i64", "i32", "f32", "fortran", "sliced", "isliced"}
  MaxMut = 2
  DEV_SetterKeepsDistance = FALSE
  DEV_NoLoopGuard = FALSE
INVARIANT LawStart
INVARIANT LawMonotone
INVARIANT LawEnd
INVARIANT LawFirstLast
INVARIANT LawPoint
INVARIANT LawOffset
INVARIANT LawGrid
INVARIANT LawMerge
INVARIANT LawMergedPoint
INVARIANT LawSimilarity
INVARIANT HistCoherent
INVARIANT HistRigid
INVARIANT LawRigidPoint
INVARIANT HistStretch
INVARIANT InvResult
INVARIANT InvSound
INVARIANT InvBound
INVARIANT InvLens
PROPERTY Termination
