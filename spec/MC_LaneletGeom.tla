---------------------------- MODULE MC_LaneletGeom ----------------------------
(* Model for C20.  Three kinds of behaviours (selected by Modes):                      *)
(*  "geom"  one behaviour per polyline: s2 walks the half-integer arc-length grid        *)
(*  "merge" one behaviour per pair (lane a, lane b starting where a ends): s2 walks the   *)
(*          arc-length grid of the merged lane                                           *)
(*  "route" an implementation-shaped model of the breadth-wise path expansion of         *)
(*          find_lanelet_successors_in_range: one step per processed path, one step per  *)
(*          while-iteration; on EVERY digraph without self-loops on N lanelets            *)
(*  "hist"  an implementation-shaped model of one lanelet object with its cached          *)
(*          cumulative distance under every history of queries and mutations (<= MaxMut   *)
(*          mutations): a filled cache must always be the Cum of the CURRENT center line  *)
(* TLC checks the laws of LaneletGeom on the spec's own polylines, that the expansion    *)
(* terminates (<>done under weak fairness, no state constraint) and that its result     *)
(* satisfies ValidRoutes.  DEV_NoLoopGuard = TRUE drops the `s in p` guard (must be      *)
(* caught by InvSound) - a non-vacuity check of the contract.                            *)
EXTENDS LaneletGeom

CONSTANTS Steps,        \* admissible steps <<dx, dy>> (integer length)
          MaxSegs,      \* polylines have 1..MaxSegs segments
          MergeSegs,    \* merged lanes have 1..MergeSegs segments each
          N, Lens, Ranges, Starts, Modes, Den, DEV_NoLoopGuard,
          Units, Dtypes,           \* array-representation dimension: length units sqrt(U), dtype / layout tokens
          MaxMut,                  \* "hist" mode: histories with at most MaxMut mutations
          DEV_SetterKeepsDistance  \* TRUE: the center_vertices setter keeps the cached distance (as shipped)

StepsQ1 == {<<1, 0>>, <<2, 0>>, <<0, 1>>, <<0, 2>>, <<3, 4>>, <<4, 3>>}   \* cfg: Steps <- StepsQ1 (first quadrant)
ASSUME \A st \in Steps : HasIntLen(<<0, 0>>, st)

Nodes == 1..N
RECURSIVE VertexAt(_, _, _)
VertexAt(o, ss, i) == IF i = 1 THEN o
                      ELSE LET v == VertexAt(o, ss, i - 1) IN <<v[1] + ss[i - 1][1], v[2] + ss[i - 1][2]>>
PolyOf(o, ss) == [i \in 1..Len(ss) + 1 |-> VertexAt(o, ss, i)]
StepSeqs(m)   == UNION {[1..n -> Steps] : n \in 1..m}
Polys         == {PolyOf(<<0, 0>>, ss) : ss \in StepSeqs(MaxSegs)}
LeftOf(poly)  == Shift(poly, <<-1, 1>>)
RightOf(poly) == Shift(poly, <<1, -1>>)
LaneOf(poly)  == [l |-> LeftOf(poly), c |-> poly, r |-> RightOf(poly)]
Graphs        == {g \in [Nodes -> SUBSET Nodes] : \A n \in Nodes : n \notin g[n]}

VARIABLES mode, pa, pb, s2,                                  \* geometry part
          lane, hist, nm, dc,                                \* history part: current lane, tokens so far, #mutations, cached distance
          G, len, start, range,                              \* route part: the query
          paths, plens, pnext, lnext, i, final, rnd, done    \* route part: the algorithm's variables
vars == <<mode, pa, pb, s2, lane, hist, nm, dc, G, len, start, range, paths, plens, pnext, lnext, i, final, rnd, done>>

RECURSIVE SortedSeq(_)
SortedSeq(S) == IF S = {} THEN <<>>
                ELSE LET m == CHOOSE x \in S : \A y \in S : x <= y IN <<m>> \o SortedSeq(S \ {m})
InSeq(x, s)  == \E k \in 1..Len(s) : s[k] = x

NoRoute == /\ G = <<>> /\ len = <<>> /\ start = 0 /\ range = 0 /\ paths = <<>> /\ plens = <<>>
           /\ pnext = <<>> /\ lnext = <<>> /\ i = 1 /\ final = <<>> /\ rnd = 0 /\ done = TRUE
NoHist == lane = <<>> /\ hist = <<>> /\ nm = 0 /\ dc = <<>>
HistPolys == {PolyOf(<<0, 0>>, << <<1, 0>>, <<3, 4>> >>), PolyOf(<<1, 1>>, << <<0, 2>>, <<4, 3>>, <<2, 0>> >>)}
InitHist  == /\ "hist" \in Modes /\ mode = "hist" /\ pa \in HistPolys /\ pb = <<>> /\ s2 = 0 /\ NoRoute
             /\ lane = LaneOf(pa) /\ hist = <<>> /\ nm = 0 /\ dc = <<>>
InitGeom  == /\ "geom" \in Modes /\ mode = "geom" /\ pa \in Polys /\ pb = <<>> /\ s2 = 0 /\ NoRoute /\ NoHist
InitMerge == /\ "merge" \in Modes /\ mode = "merge" /\ s2 = 0 /\ NoRoute /\ NoHist
             /\ \E sa, sb \in StepSeqs(MergeSegs) :
                   pa = PolyOf(<<0, 0>>, sa) /\ pb = PolyOf(Last(PolyOf(<<0, 0>>, sa)), sb)
InitRoute == /\ "route" \in Modes /\ mode = "route" /\ pa = <<>> /\ pb = <<>> /\ s2 = 0 /\ NoHist
             /\ G \in Graphs /\ len \in [Nodes -> Lens] /\ start \in Starts /\ range \in Ranges
             /\ paths = [k \in 1..Cardinality(G[start]) |-> <<SortedSeq(G[start])[k]>>]
             /\ plens = [k \in 1..Cardinality(G[start]) |-> len[SortedSeq(G[start])[k]]]
             /\ pnext = <<>> /\ lnext = <<>> /\ i = 1 /\ final = <<>> /\ rnd = 0 /\ done = FALSE
Init == InitGeom \/ InitMerge \/ InitRoute \/ InitHist

Walk == /\ \/ mode = "geom" /\ s2 < 2 * Length(pa)
           \/ mode = "merge" /\ s2 < 2 * (Length(pa) + Length(pb))
        /\ s2' = s2 + 1
        /\ UNCHANGED <<mode, pa, pb, lane, hist, nm, dc, G, len, start, range, paths, plens, pnext, lnext, i, final, rnd, done>>

(* ---- history part: the lanelet object with its lazily filled distance cache ---- *)
RouteVars == <<G, len, start, range, paths, plens, pnext, lnext, i, final, rnd, done>>
(* every query reads self.distance (interpolate_position does so first thing): it fills the cache *)
HQuery(q) == /\ mode = "hist" /\ nm < MaxMut /\ (IF hist = <<>> THEN TRUE ELSE Last(hist) \notin QueryToks)
             /\ dc' = IF dc = <<>> THEN Cum(lane.c) ELSE dc
             /\ hist' = Append(hist, q) /\ UNCHANGED <<mode, pa, pb, s2, lane, nm>> /\ UNCHANGED RouteVars
HMut(m)   == /\ mode = "hist" /\ nm < MaxMut
             /\ lane' = Apply(m, lane)
             /\ dc' = CASE m \in MoveToks  -> dc            \* translate_rotate keeps the cache (arc lengths are invariant)
                         [] m = "setc"      -> IF DEV_SetterKeepsDistance THEN dc ELSE <<>>
                         [] m \in {"setl", "setr"} -> dc    \* the center line is untouched
                         [] m \in MergeToks -> <<>>          \* a new object
                         [] m \in FrameToks -> dc            \* drawing reads distance / interpolate_position only
             /\ hist' = Append(hist, m) /\ nm' = nm + 1
             /\ UNCHANGED <<mode, pa, pb, s2>> /\ UNCHANGED RouteVars
HistNext  == (\E q \in QueryToks : HQuery(q)) \/ (\E m \in MutToks : HMut(m))

(* the inner `for s in successors` loop for one path p with accumulated length le *)
RECURSIVE ExpSucc(_, _, _, _)
ExpSucc(p, le, S, acc) ==
  IF S = <<>> THEN acc
  ELSE LET s == Head(S) IN
       IF (~DEV_NoLoopGuard /\ InSeq(s, p)) \/ s = start \/ le >= range
       THEN ExpSucc(p, le, Tail(S), [acc EXCEPT !.fin = Append(@, p)])
       ELSE IF le + len[s] < range
       THEN ExpSucc(p, le, Tail(S), [acc EXCEPT !.nxt = Append(@, p \o <<s>>), !.nl = Append(@, le + len[s])])
       ELSE ExpSucc(p, le, Tail(S), [acc EXCEPT !.fin = Append(@, p \o <<s>>)])
Geo == <<mode, pa, pb, s2, lane, hist, nm, dc, G, len, start, range>>
(* one iteration of `for p, le in zip(paths, lengths)` *)
Step == /\ mode = "route" /\ ~done /\ i <= Len(paths)
        /\ LET p == paths[i]  S == SortedSeq(G[Last(paths[i])])
               r == ExpSucc(p, plens[i], S, [fin |-> <<>>, nxt |-> <<>>, nl |-> <<>>])
           IN IF S = <<>> THEN final' = Append(final, p) /\ UNCHANGED <<pnext, lnext>>
              ELSE final' = final \o r.fin /\ pnext' = pnext \o r.nxt /\ lnext' = lnext \o r.nl
        /\ i' = i + 1 /\ UNCHANGED <<paths, plens, rnd, done>> /\ UNCHANGED Geo
(* `paths = paths_next` and the `while paths` test *)
Advance == /\ mode = "route" /\ ~done /\ i > Len(paths) /\ Len(paths) > 0
           /\ paths' = pnext /\ plens' = lnext /\ pnext' = <<>> /\ lnext' = <<>> /\ i' = 1 /\ rnd' = rnd + 1
           /\ UNCHANGED <<final, done>> /\ UNCHANGED Geo
Finish  == /\ mode = "route" /\ ~done /\ Len(paths) = 0 /\ done' = TRUE
           /\ UNCHANGED <<paths, plens, pnext, lnext, i, final, rnd>> /\ UNCHANGED Geo
Next == Walk \/ Step \/ Advance \/ Finish \/ HistNext
Spec == Init /\ [][Next]_vars /\ WF_vars(Next)

(* ---- laws ---- *)
IsGeom  == mode = "geom"
IsGeom0 == mode = "geom" /\ s2 = 0          \* laws that do not depend on s2 are evaluated once per polyline
LawStart     == IsGeom0 => LawCumStart(pa)
LawMonotone  == IsGeom0 => LawCumMonotone(pa)
LawEnd       == IsGeom0 => LawCumEnd(pa)
LawFirstLast == IsGeom0 => LawEnds(pa) /\ LawVertices(pa)
LawPoint     == IsGeom => /\ InRange(pa, s2, 2)
                          /\ LawArc(pa, s2, 2)
                          /\ LawSegIndependent(pa, pa, s2, 2)
                          /\ LawSegIndependent(pa, LeftOf(pa), s2, 2)
                          /\ LawSegIndependent(pa, RightOf(pa), s2, 2)
(* parallel offset: the boundary point is the center point shifted by the offset *)
LawOffset    == IsGeom => LET P == PointAt(pa, s2, 2)  L == BoundaryAt(pa, LeftOf(pa), s2, 2)
                          IN L[1][1] = P[1][1] - P[1][2] /\ L[2][1] = P[2][1] + P[2][2]
LawGrid      == IsGeom => OnGrid(PointAt(pa, s2, 2)[1], Den) /\ OnGrid(PointAt(pa, s2, 2)[2], Den)
LawMerge     == mode = "merge" /\ s2 = 0 => LET a == LaneOf(pa)  b == LaneOf(pb)
                                  IN Joint(a, b) /\ LawMergeLength(a, b) /\ LawMergeCount(a, b) /\ LawMergeCum(a, b)
                                     /\ WellFormed(Merge(a, b).c)
LawMergedPoint == mode = "merge" => LawMergePoint(LaneOf(pa), LaneOf(pb), s2, 2)   \* s2 walks the merged lane

(* what a query answers from (the cache if filled) is the Cum of the current center line; the lane stays a lane *)
HistCoherent == mode = "hist" => /\ WellFormed(lane.c) /\ Len(lane.l) = Len(lane.c) /\ Len(lane.r) = Len(lane.c)
                                 /\ (dc # <<>> => dc = Cum(lane.c))
HistRigid    == mode = "hist" => \A m \in MoveToks : LawRigidCum(lane, m)
(* the pointwise half of the rigid-motion law is checked on the geometry part's polylines (s2 walks the grid) *)
LawRigidPoint == IsGeom /\ Len(pa) <= 3 => \A m \in MoveToks : LawRigid(LaneOf(pa), m, s2, 2)   \* (<= 2 segments: cost)
HistStretch  == mode = "hist" => /\ Length(Stretch(lane.c)) = 2 * Length(lane.c)
                                 /\ Joint(lane, SuccLane(lane)) /\ WellFormed(SuccLane(lane).c)

LawSimilarity == IsGeom /\ Len(pa) <= 3 => \A u \in Units : LawSimilar(LaneOf(pa), u, s2, 2)

IsRoute == mode = "route"
InvResult == IsRoute /\ done => ValidRoutes(G, len, start, range, final, 1)
InvSound  == IsRoute => RoutesClause(G, len, start, range, final \o paths \o pnext, 1) \in {"", "cover"}
InvBound  == IsRoute => rnd < N /\ \A k \in 1..Len(paths) : Len(paths[k]) = rnd + 1     \* the variant
InvLens   == IsRoute => Len(plens) = Len(paths) /\ \A k \in 1..Len(paths) : plens[k] = Acc(len, paths[k], Len(paths[k]))
Termination == <>done

(* ---- generation ---- *)
Pts(poly) == [k \in 1..Len(poly) |-> poly[k]]
LaneJ(poly) == [l |-> LeftOf(poly), c |-> poly, r |-> RightOf(poly)]
Emit ==
  /\ (mode = "geom" /\ s2 = 0) =>
        PrintT(<<"CASE", ToJson([kind |-> "poly", c |-> pa, l |-> LeftOf(pa), r |-> RightOf(pa), sd |-> 2, den |-> Den])>>)
  /\ (mode = "geom" /\ s2 = 0 /\ Len(pa) <= 4) =>        \* the same lattice polyline in every unit and array representation
        \A u \in Units : \A d \in Dtypes :
          PrintT(<<"CASE", ToJson([kind |-> "dpoly", c |-> pa, l |-> LeftOf(pa), r |-> RightOf(pa),
                                   U |-> u, p |-> SimOf(u)[1], q |-> SimOf(u)[2], dt |-> d])>>)
  /\ (mode = "merge" /\ s2 = 0) =>
        PrintT(<<"CASE", ToJson([kind |-> "merge", a |-> LaneJ(pa), b |-> LaneJ(pb), den |-> Den])>>)
  /\ mode = "hist" =>
        PrintT(<<"CASE", ToJson([kind |-> "hist", base |-> LaneJ(pa), hist |-> hist])>>)
  /\ (mode = "route" /\ ~done /\ rnd = 0 /\ i = 1) =>
        PrintT(<<"CASE", ToJson([kind |-> "query", succ |-> G, len |-> len, start |-> start, range |-> range])>>)
=================================================================================
