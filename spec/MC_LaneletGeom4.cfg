SPECIFICATION Spec
CONSTANTS
  Steps <- StepsQ1
  MaxSegs = 4
  MergeSegs = 2
  Lens = {1, 2}
  Ranges = {1, 2, 3, 5, 100}
  Den = 60
  N = 4
  Starts = {1}
  Modes = {"route", "hist"}
  Units = {1, 2, 5, 10}
  Dtypes = {"f64", "i64", "i32", "f32", "fortran", "sliced", "isliced"}
  MaxMut = 3
  DEV_SetterKeepsDistance = FALSE
  DEV_NoLoopGuard = FALSE
INVARIANT LawStart
INVARIANT LawMonotone
INVARIANT LawEnd
INVARIANT LawFirstLast
INVARIANT LawPoint
INVARIANT LawOffset
INVARIANT LawGrid
INVARIANT LawMerge
INVARIANT LawMergedPoint
INVARIANT LawSimilarity
INVARIANT HistCoherent
INVARIANT HistRigid
INVARIANT LawRigidPoint
INVARIANT HistStretch
INVARIANT InvResult
INVARIANT InvSound
INVARIANT InvBound
INVARIANT InvLens
PROPERTY Termination
