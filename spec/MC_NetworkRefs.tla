------------------------------ MODULE MC_NetworkRefs ------------------------------
(* Implementation-shaped model of the removal / cut-out code of LaneletNetwork and Scenario      *)
(* (cleanup_lanelet_references, cleanup_traffic_sign/light_references, remove_hanging_lanelet_   *)
(* members, create_from_lanelet_network, create_from_lanelet_list) over ALL well-formed networks *)
(* of one reference kind at a time (constant Kind), the other kinds fixed to a base network.     *)
(* TLC checks that every step satisfies the contract clause of NetworkRefs.tla - the very        *)
(* operator trace validation applies to the real code.  Deviation constants reproduce defects.   *)
EXTENDS NetworkRefs, Json

CONSTANTS Kind, Depth,
          DEV_StopLineRefsKept,      \* cleanup of sign/light references forgets the stop line
          DEV_HangingRemovesShared,  \* remove_hanging_lanelet_members also deletes signs still referenced elsewhere
          DEV_AdjacencyKept          \* cleanup_lanelet_references forgets adjacency

VARIABLES net, net0, hist
vars == <<net, net0, hist>>

Inverse(f) == [i \in Lan |-> {j \in Lan : i \in f[j]}]
Digraphs == {f \in [Lan -> SUBSET Lan] : \A i \in Lan : i \notin f[i]}
Base ==
    LET succ == [i \in Lan |-> IF i < NL THEN {i + 1} ELSE {}] IN
    [EmptyNet EXCEPT !.L = Lan, !.succ = succ, !.pred = Inverse(succ),
        !.al = [i \in Lan |-> IF i = 1 THEN 2 ELSE 0], !.ald = [i \in Lan |-> IF i = 1 THEN 1 ELSE 0],
        !.ar = [i \in Lan |-> IF i = 2 THEN 1 ELSE IF i = 3 THEN 2 ELSE 0], !.ard = [i \in Lan |-> IF i = 2 THEN 1 ELSE 0],
        !.sg = [i \in Lan |-> IF i = 1 THEN {11} ELSE IF i = 2 THEN {11, 12} ELSE {}],
        !.lt = [i \in Lan |-> IF i \in {2, 3} THEN {21} ELSE {}],
        !.stp = [i \in Lan |-> IF i = 2 THEN 1 ELSE 0],
        !.ssg = [i \in Lan |-> IF i = 2 THEN {11} ELSE {}], !.slt = [i \in Lan |-> IF i = 2 THEN {21} ELSE {}],
        !.S = Sig, !.T = Lig, !.X = Xid, !.I = Inc,
        !.inc = [k \in Inc |-> IF k = 32 THEN [il |-> {1}, sr |-> {}, ss |-> {2}, sl |-> {}]
                                         ELSE [il |-> {3}, sr |-> {1}, ss |-> {}, sl |-> {2}]],
        !.cr = {2}]

Nets ==
    CASE Kind = "base" -> {Base}
      [] Kind = "succ" -> {[Base EXCEPT !.succ = f, !.pred = Inverse(f)] : f \in Digraphs}
      [] Kind = "pred" -> {[Base EXCEPT !.pred = f] : f \in Digraphs}
      [] Kind = "adj"  -> {[Base EXCEPT !.al = l, !.ar = r, !.ald = [i \in Lan |-> IF l[i] # 0 THEN 1 ELSE 0],
                                          !.ard = [i \in Lan |-> IF r[i] # 0 THEN i % 2 ELSE 0]] :
                              l \in {f \in [Lan -> Lan \cup {0}] : \A i \in Lan : f[i] # i},
                              r \in {f \in [Lan -> Lan \cup {0}] : \A i \in Lan : f[i] # i}}
      [] Kind = "refs" -> {[Base EXCEPT !.sg = g, !.lt = h, !.stp = [i \in Lan |-> IF i \in st THEN 1 ELSE 0],
                                          !.ssg = [i \in Lan |-> IF i \in st THEN g[i] \cap {11} ELSE {}],
                                          !.slt = [i \in Lan |-> IF i \in st THEN h[i] ELSE {}]] :
                              g \in [Lan -> SUBSET Sig], h \in [Lan -> SUBSET Lig], st \in SUBSET Lan}
      [] Kind = "inter" -> {[Base EXCEPT !.I = II, !.cr = c,
                                          !.inc = [k \in Inc |-> IF k \notin II THEN NoInc
                                                   ELSE IF k = 32 THEN [il |-> a, sr |-> {}, ss |-> b, sl |-> {}]
                                                   ELSE [il |-> b, sr |-> {1}, ss |-> {}, sl |-> a]]] :
                              II \in {{32}, {32, 33}}, a \in SUBSET Lan, b \in SUBSET Lan, c \in {{}, {2}, Lan}}

(* ---- the code's algorithm ---- *)
CleanLanelets(n, R) ==
    LET r == [Restrict(n, R, Sig, Lig, n.X, n.I) EXCEPT !.S = n.S, !.T = n.T] IN
    IF DEV_AdjacencyKept THEN [r EXCEPT !.al = [i \in Lan |-> IF i \in R THEN n.al[i] ELSE 0],
                                        !.ar = [i \in Lan |-> IF i \in R THEN n.ar[i] ELSE 0]] ELSE r
CleanRefs(n, S1, T1) ==
    LET r == Restrict(n, n.L, S1, T1, n.X, n.I) IN
    IF DEV_StopLineRefsKept THEN [r EXCEPT !.ssg = n.ssg, !.slt = n.slt] ELSE r
RemoveHanging(n, gone) ==
    LET ds == IF DEV_HangingRemovesShared THEN RefdSigns(n, gone) \cap n.S ELSE HangS(n, gone)
        dt == IF DEV_HangingRemovesShared THEN RefdLights(n, gone) \cap n.T ELSE HangT(n, gone)
    IN CleanRefs(n, n.S \ ds, n.T \ dt)
CutOut(n, K) ==
    LET I1 == MustInc(n, K)
        X1 == IF I1 = {} THEN {} ELSE n.X
        S1 == RefdSigns(n, K) \cap n.S
        T1 == RefdLights(n, K) \cap n.T
    IN Restrict(n, K, S1, T1, X1, I1)

Impl(n, a) ==
    CASE a.op \in {"net_remove_lanelet", "net_remove_lanelet_nortree"} -> CleanLanelets(n, n.L \ IdSet(a))
      [] a.op = "sc_remove_lanelet"  -> CleanLanelets(IF a.ref = 1 THEN RemoveHanging(n, IdSet(a)) ELSE n, n.L \ IdSet(a))
      [] a.op \in {"net_remove_sign", "sc_remove_sign"}   -> CleanRefs(n, n.S \ IdSet(a), n.T)
      [] a.op \in {"net_remove_light", "sc_remove_light"} -> CleanRefs(n, n.S, n.T \ IdSet(a))
      [] a.op \in {"net_remove_inter", "sc_remove_inter"} -> [n EXCEPT !.X = {}, !.I = {}, !.inc = [k \in Inc |-> NoInc], !.cr = {}]
      [] a.op \in {"cut_shape", "cut_types"} -> CutOut(n, IdSet(a) \cap n.L)
      [] a.op = "from_list" -> Restrict(n, IdSet(a) \cap n.L, {}, {}, {}, {})

A(op, ids, ref) == [op |-> op, ids |-> ids, ref |-> ref]
SeqsOf(S) == {<<x>> : x \in S} \cup ({<<x, y>> : x, y \in S} \ {<<x, x>> : x \in S})
RECURSIVE SetToSortedSeq(_)
SetToSortedSeq(S) == IF S = {} THEN <<>> ELSE LET m == CHOOSE x \in S : \A y \in S : x <= y IN <<m>> \o SetToSortedSeq(S \ {m})
Ops(n) ==
    {A(o, <<i>>, 0) : o \in {"net_remove_lanelet", "net_remove_lanelet_nortree"}, i \in n.L}
    \cup {A("sc_remove_lanelet", q, r) : q \in SeqsOf(n.L), r \in {0, 1}}
    \cup {A(o, <<s>>, 0) : o \in {"net_remove_sign", "sc_remove_sign"}, s \in n.S}
    \cup {A("sc_remove_sign", q, 1) : q \in {q \in SeqsOf(n.S) : Len(q) = 2}}
    \cup {A(o, <<s>>, r) : o \in {"net_remove_light", "sc_remove_light"}, s \in n.T, r \in {0}}
    \cup {A("sc_remove_light", <<s>>, 1) : s \in n.T}
    \cup {A(o, <<x>>, 0) : o \in {"net_remove_inter", "sc_remove_inter"}, x \in n.X}
    \cup {A(o, SetToSortedSeq(K), 0) : o \in {"cut_shape", "cut_types", "from_list"}, K \in (SUBSET n.L) \ {{}}}

Init == net0 \in Nets /\ net = net0 /\ hist = <<>>
Step == /\ Len(hist) < Depth
        /\ \E a \in Ops(net) : net' = Impl(net, a) /\ hist' = Append(hist, a)
        /\ UNCHANGED net0
Spec == Init /\ [][Step]_vars

InvWellFormed == WellFormed(net)
PropContract == [][Clause(net, hist'[Len(hist')], net') = ""]_vars

ToSeq(S) == SetToSortedSeq(S)
NetJson(n) == [L |-> n.L, pred |-> n.pred, succ |-> n.succ, al |-> n.al, ar |-> n.ar, ald |-> n.ald, ard |-> n.ard,
               sg |-> n.sg, lt |-> n.lt, stp |-> n.stp, ssg |-> n.ssg, slt |-> n.slt, S |-> n.S, T |-> n.T, X |-> n.X,
               I |-> n.I, inc |-> n.inc, cr |-> n.cr]
Emit == (Len(hist) = Depth) => PrintT(<<"CASE", ToJson([net |-> NetJson(net0), ops |-> hist])>>)
===================================================================================
