SPECIFICATION Spec
CONSTANTS
  NL = 3
  Kind = "base"
  Depth = 3
  DEV_StopLineRefsKept = FALSE
  DEV_HangingRemovesShared = FALSE
  DEV_AdjacencyKept = FALSE
INVARIANT InvWellFormed
PROPERTY PropContract
