SPECIFICATION Spec
CONSTANTS
  NL = 3
  Kind = "inter"
  Depth = 1
  DEV_StopLineRefsKept = FALSE
  DEV_HangingRemovesShared = FALSE
  DEV_AdjacencyKept = FALSE
INVARIANT InvWellFormed
PROPERTY PropContract
