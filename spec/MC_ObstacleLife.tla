--------------------------- MODULE MC_ObstacleLife ---------------------------
(* Implementation-shaped model for X08: what the obstacle classes do (attribute assignments in   *)
(* the order of the code, one action per public mutator / query), every action logging the event *)
(* the harness would log (`act`).  TLC checks that the contract of ObstacleLife.tla accepts every *)
(* step (Clause = "") together with the laws of the contract operators and object invariants     *)
(* after every step.  Deviation constants name shipped / conceivable behaviour that breaks the    *)
(* contract; with all of them FALSE the model is the repaired design.                             *)
(* Domains (variable dom):                                                                         *)
(*   "dynh"  histories of a DynamicObstacle: update_initial_state / update_prediction / queries   *)
(*   "dyns"  setters (valid / None / wrong type / undocumented type) on a Static/DynamicObstacle  *)
(*   "scn"   Scenario.obstacles_by_role_and_type over add / remove / set type / update            *)
(*   "par"   the parameter-surface table (value-like, one state)                                   *)
EXTENDS ObstacleLife, Json

CONSTANTS
    Domains,
    MaxUpd, MaxH,               \* dynh: number of updates, max_history_length in 0..MaxH
    MaxSetsH,                   \* dynh: plain assignments (signal state / lanelet ids) interleaved with the updates
    MaxSets,                    \* dyns: number of successful assignments explored per object
    NScnIds, MaxScn,            \* scn: obstacle ids 1..NScnIds, at most MaxScn obstacles in the scenario
    DEV_UpdateNonAtomic,        \* SHIPPED: a rejected update_initial_state has already appended to the histories / assigned a prefix
    DEV_SignalHistoryNoTrunc,   \* signal_history is not truncated with the other histories
    DEV_KeepPrediction,         \* update_initial_state keeps the old prediction
    DEV_CenterShapeSwapped,     \* update_initial_state stores the center ids as shape ids and vice versa
    DEV_SeriesOnly,             \* signal_state_at_time_step ignores the initial signal state
    DEV_TypeMutable,            \* the obstacle_type setter overwrites
    DEV_HashNoneIds,            \* SHIPPED: __hash__ builds frozenset(entry) for every lanelet-id history entry, None included
    DEV_WheelbaseTypo           \* SHIPPED: TrajectoryPrediction.wheelbase_lengths setter writes another attribute

VARIABLES dom, live, ob, wild, nset, S, act
vars == <<dom, live, ob, wild, nset, S, act>>
View == <<dom, live, ob, wild, nset, S>>

B(x) == IF x THEN 1 ELSE 0
PostOf(X) == CHOOSE f \in [1..Cardinality(X) -> X] : Range(f) = X

Init == /\ dom \in Domains /\ live = FALSE /\ ob = DefaultOb /\ wild = FALSE /\ nset = 0 /\ S = {}
        /\ act = [op |-> "init"]

(* ---- profiles: the values one update / constructor call hands over -------------------------- *)
Profs == 1..3
ProfSig(k, t) == CASE k = 1 -> NoSig [] k = 2 -> <<t, 0>> [] k = 3 -> <<t, 1>>
ProfCen(k)    == CASE k = 1 -> NoIds [] k = 2 -> <<1>>    [] k = 3 -> <<>>
ProfShp(k)    == CASE k = 1 -> NoIds [] k = 2 -> <<1, 2>> [] k = 3 -> <<3>>
SerOf(j, t)   == CASE j = 0 -> NoSer
                   [] j = 1 -> << <<t + 1, 0>>, <<t + 2, 1>> >>
                   [] j = 2 -> << <<t, 1>>, <<t + 1, 0>>, <<t + 1, 1>> >>      \* a step shared with the initial signal state, a repeated step

Fresh(cls, k, t) == [DefaultOb EXCEPT !.cls = cls, !.id = 7, !.role = RoleOfClass(cls),
                                      !.type = IF cls = "static" THEN "parkedVehicle" ELSE "car", !.shape = 2,
                                      !.t0 = t, !.tag = k, !.sig = ProfSig(k, t), !.cen = ProfCen(k), !.shp = ProfShp(k)]

(* ---- dynh ------------------------------------------------------------------------------------ *)
DNewH(k) == /\ ~live /\ live' = TRUE /\ ob' = Fresh("dynamic", k, 0) /\ wild' = FALSE /\ UNCHANGED <<nset, S>>
            /\ act' = [op |-> "d_new", a |-> Fresh("dynamic", k, 0), res |-> "ok", post |-> Fresh("dynamic", k, 0)]
WildOb == [Fresh("dynamic", 2, 2) EXCEPT !.hist = << <<0, 1>>, <<1, 1>> >>, !.shist = << NoSig >>]     \* unequal lists handed in
DNewWild == /\ ~live /\ live' = TRUE /\ ob' = WildOb /\ wild' = TRUE /\ UNCHANGED <<nset, S>>
            /\ act' = [op |-> "d_new", a |-> WildOb, res |-> "ok", post |-> WildOb]

UpdArgs(k, m, bad) ==
    LET t == ob.t0 + 1 IN
    [t |-> t, tag |-> k, maxh |-> m, bad |-> bad,
     sig |-> IF bad = "sig" THEN NoSig ELSE ProfSig(k, t),
     cen |-> IF bad = "cen" THEN NoIds ELSE ProfCen(k),
     shp |-> IF bad = "shp" THEN NoIds ELSE ProfShp(k)]
Appended == [ob EXCEPT !.hist = Append(@, <<ob.t0, ob.tag>>), !.shist = Append(@, ob.sig),
                       !.chist = Append(@, ob.cen), !.phist = Append(@, ob.shp)]
Trunc(o, m) == IF Len(o.hist) > m                               \* the code looks at len(self.history) only
               THEN [o EXCEPT !.hist = LastN(@, m), !.shist = IF DEV_SignalHistoryNoTrunc THEN @ ELSE LastN(@, m),
                              !.chist = LastN(@, m), !.phist = LastN(@, m)]
               ELSE o
UpdFull(a) == Trunc([Appended EXCEPT !.t0 = a.t, !.tag = a.tag, !.sig = a.sig,
                                     !.cen = IF DEV_CenterShapeSwapped THEN a.shp ELSE a.cen,
                                     !.shp = IF DEV_CenterShapeSwapped THEN a.cen ELSE a.shp,
                                     !.pred = IF DEV_KeepPrediction THEN @ ELSE 0, !.ser = NoSer], a.maxh)
UpdPartial(a) ==                                                 \* the assignments the code has made when the failing setter raises
    CASE a.maxh <= 0                 -> ob
      [] a.bad \in {"state", "trace"} -> Appended
      [] a.bad = "sig"               -> [Appended EXCEPT !.t0 = a.t, !.tag = a.tag]
      [] a.bad = "cen"               -> [Appended EXCEPT !.t0 = a.t, !.tag = a.tag, !.sig = a.sig]
      [] a.bad = "shp"               -> [Appended EXCEPT !.t0 = a.t, !.tag = a.tag, !.sig = a.sig, !.cen = a.cen]
DUpdate(k, m, bad) ==
    LET a == UpdArgs(k, m, bad)
        valid == m > 0 /\ bad = ""
        o1 == IF valid THEN UpdFull(a) ELSE IF DEV_UpdateNonAtomic THEN UpdPartial(a) ELSE ob
    IN /\ live /\ ob.t0 < MaxUpd /\ ob' = o1 /\ UNCHANGED <<live, wild, nset, S>>
       /\ act' = [op |-> "d_update", a |-> a, res |-> IF valid THEN "ok" ELSE "AssertionError", post |-> o1]
DUpPred(kind, p, j) ==
    LET ser == SerOf(j, ob.t0)
        o1 == IF kind = "bad" THEN ob ELSE [ob EXCEPT !.pred = p, !.ser = ser]
    IN /\ live /\ ob' = o1 /\ UNCHANGED <<live, wild, nset, S>>
       /\ act' = [op |-> "d_uppred", kind |-> kind, pred |-> p, ser |-> ser,
                  res |-> IF kind = "bad" THEN "AssertionError" ELSE "ok", post |-> o1]
ImplSigAt(o, t) == IF ~DEV_SeriesOnly /\ o.sig # NoSig /\ o.sig[1] = t THEN -1
                   ELSE IF o.ser = NoSer \/ {i \in DOMAIN o.ser : o.ser[i][1] = t} = {} THEN 0
                   ELSE CHOOSE i \in DOMAIN o.ser : o.ser[i][1] = t /\ \A j \in DOMAIN o.ser : o.ser[j][1] = t => i <= j
DSigAt(t) == /\ live /\ UNCHANGED <<live, ob, wild, nset, S>>
             /\ act' = [op |-> "d_sig_at", t |-> t, idx |-> ImplSigAt(ob, t), res |-> "ok", post |-> ob]
DStr      == /\ live /\ UNCHANGED <<live, ob, wild, nset, S>>
             /\ act' = [op |-> "d_str", hasid |-> 1, res |-> "ok", post |-> ob]
DHash     == LET boom == DEV_HashNoneIds /\ NoIds \in Range(ob.chist) \cup Range(ob.phist) IN
             /\ live /\ UNCHANGED <<live, ob, wild, nset, S>>
             /\ act' = [op |-> "d_hash", res |-> IF boom THEN "TypeError" ELSE "ok", eqcopy |-> B(~boom), samehash |-> B(~boom),
                        post |-> ob]
DSetH(r) ==                                      \* a plain assignment between updates: the assigned value is what the next update archives
    LET e0 == [op |-> "d_set", attr |-> r.attr, how |-> r.how, kind |-> r.kind, val |-> r.val]
        o1 == SetTarget(ob, e0)
    IN /\ live /\ o1 # ob /\ nset < MaxSetsH
       /\ ob' = o1 /\ nset' = nset + 1 /\ UNCHANGED <<live, wild, S>>
       /\ act' = [op |-> "d_set", attr |-> r.attr, how |-> r.how, kind |-> r.kind, val |-> r.val, res |-> "ok", post |-> o1]
HSetRows  == {[attr |-> "sig", how |-> "state", kind |-> "valid", val |-> <<9, 1>>],
              [attr |-> "cen", how |-> "set", kind |-> "valid", val |-> <<4, 5>>],
              [attr |-> "shp", how |-> "none", kind |-> "valid", val |-> NoIds]}
Bads == {"", "trace", "state", "sig", "cen", "shp"}
HNext == /\ dom = "dynh" /\ UNCHANGED dom
         /\ \/ \E k \in Profs : DNewH(k)
            \/ DNewWild
            \/ \E k \in Profs, m \in 1..MaxH : DUpdate(k, m, "")
            \/ \E bad \in Bads \ {""} : DUpdate(2, 2, bad)
            \/ DUpdate(2, 0, "")
            \/ \E p \in 1..2, j \in 0..2 : DUpPred("valid", p, j)
            \/ DUpPred("none", 0, 1) \/ DUpPred("bad", 0, 0)
            \/ \E d \in -1..2 : DSigAt(ob.t0 + d)
            \/ \E r \in HSetRows : DSetH(r)
            \/ DStr \/ DHash

(* ---- dyns: the setter table ------------------------------------------------------------------- *)
Row(a, h, k, v) == [attr |-> a, how |-> h, kind |-> k, val |-> v]
IdRows(a) == {Row(a, "set", "valid", <<4, 5>>), Row(a, "empty", "valid", <<>>), Row(a, "none", "valid", NoIds),
              Row(a, "list", "bad", <<>>), Row(a, "strelem", "bad", <<>>),
              Row(a, "frozenset", "odd", <<4>>), Row(a, "npint", "odd", <<4>>)}
BaseRows == {Row("sig", "state", "valid", <<5, 0>>), Row("sig", "none", "valid", NoSig), Row("sig", "str", "bad", <<>>)}
            \cup {Row("ser", "list", "valid", << <<1, 0>>, <<2, 1>> >>), Row("ser", "empty", "valid", <<>>),
                  Row("ser", "none", "valid", NoSer), Row("ser", "str", "bad", <<>>), Row("ser", "tuple", "odd", << <<1, 0>> >>)}
            \cup IdRows("cen") \cup IdRows("shp")
            \cup {Row("init", "state", "valid", <<3, 9>>), Row("init", "none", "bad", <<>>), Row("init", "ksstate", "bad", <<>>),
                  Row("init", "str", "bad", <<>>)}
DynRows  == {Row("meta", "state", "valid", <<0>>), Row("meta", "none", "valid", <<NoMeta>>), Row("meta", "str", "bad", <<>>)}
            \cup {Row("mser", "list", "valid", <<0, 1>>), Row("mser", "empty", "valid", <<>>), Row("mser", "none", "valid", NoMSer),
                  Row("mser", "str", "bad", <<>>), Row("mser", "tuple", "odd", <<0>>)}
            \cup {Row("ext", "int", "valid", <<7>>), Row("ext", "none", "valid", <<NoExt>>), Row("ext", "str", "bad", <<>>),
                  Row("ext", "float", "bad", <<>>), Row("ext", "bool", "odd", <<1>>)}
            \cup {Row("pred", "traj", "valid", <<1>>), Row("pred", "none", "valid", <<0>>), Row("pred", "str", "bad", <<>>)}
RowsOf(cls) == IF cls = "dynamic" THEN BaseRows \cup DynRows ELSE BaseRows
OddAccepted(r) == r.attr = "ext" \/ (r.attr \in {"cen", "shp"} /\ r.how = "npint" /\ FALSE)      \* shipped: only bool-as-int passes the asserts

DNewS(cls) == /\ ~live /\ live' = TRUE /\ ob' = Fresh(cls, 2, 0) /\ wild' = FALSE /\ UNCHANGED <<nset, S>>
              /\ act' = [op |-> "d_new", a |-> Fresh(cls, 2, 0), res |-> "ok", post |-> Fresh(cls, 2, 0)]
DSet(r) ==
    LET e0 == [op |-> "d_set", attr |-> r.attr, how |-> r.how, kind |-> r.kind, val |-> r.val]
        acc == r.kind = "valid" \/ (r.kind = "odd" /\ OddAccepted(r))
        o1 == IF acc THEN SetTarget(ob, e0) ELSE ob
    IN /\ live /\ r \in RowsOf(ob.cls) /\ (o1 # ob => nset < MaxSets)
       /\ ob' = o1 /\ nset' = (IF o1 # ob THEN nset + 1 ELSE nset) /\ UNCHANGED <<live, wild, S>>
       /\ act' = [op |-> "d_set", attr |-> r.attr, how |-> r.how, kind |-> r.kind, val |-> r.val,
                  res |-> IF acc THEN "ok" ELSE "AssertionError", post |-> o1]
DImm(attr, kind) ==
    LET o1 == IF DEV_TypeMutable /\ attr = "type" /\ kind = "valid" THEN [ob EXCEPT !.type = "bus"] ELSE ob
    IN /\ live /\ ob' = o1 /\ UNCHANGED <<live, wild, nset, S>>
       /\ act' = [op |-> "d_imm", attr |-> attr, kind |-> kind,
                  res |-> IF kind = "bad" THEN "AssertionError" ELSE IF o1 # ob THEN "ok" ELSE "warned", post |-> o1]
SNextD == /\ dom = "dyns" /\ UNCHANGED dom
          /\ \/ \E cls \in {"static", "dynamic"} : DNewS(cls)
             \/ \E r \in BaseRows \cup DynRows : DSet(r)
             \/ \E attr \in {"id", "role", "type", "shape"}, kind \in {"valid", "bad"} : DImm(attr, kind)
             \/ \E t \in {0, 1, 2, 5} : DSigAt(t)
             \/ DStr \/ DHash

(* ---- scn --------------------------------------------------------------------------------------- *)
ScnIds == 1..NScnIds
ScnObs == {<<i, "static", y>> : i \in ScnIds, y \in {"parkedVehicle", "car"}}
          \cup {<<i, "dynamic", y>> : i \in ScnIds, y \in {"car", "bus"}}
          \cup {<<i, "environment", "building">> : i \in ScnIds} \cup {<<i, "phantom", "">> : i \in ScnIds}
ScnRoles == {"static", "dynamic", "environment", "phantom"}
ScnTypes == {"car", "bus", "parkedVehicle", "building"}
ObOf(i) == CHOOSE o \in S : o[1] = i
SAdd(o) == /\ o[1] \notin SIds(S) /\ Cardinality(S) < MaxScn /\ S' = S \cup {o}
           /\ act' = [op |-> "s_add", o |-> o, res |-> "ok", post |-> PostOf(S \cup {o})]
SRemove(i) == /\ i \in SIds(S) /\ S' = {o \in S : o[1] # i}
              /\ act' = [op |-> "s_remove", i |-> i, res |-> "ok", post |-> PostOf({o \in S : o[1] # i})]
SSetType(i, y) ==
    LET S1 == IF DEV_TypeMutable THEN {IF o[1] = i THEN <<o[1], o[2], y>> ELSE o : o \in S} ELSE S IN
    /\ i \in SIds(S) /\ ObOf(i)[2] # "phantom" /\ ObOf(i)[3] # y /\ S' = S1
    /\ act' = [op |-> "s_settype", i |-> i, type |-> y, res |-> IF S1 # S THEN "ok" ELSE "warned", post |-> PostOf(S1)]
SUpdate(i) == /\ i \in SIds(S) /\ ObOf(i)[2] = "dynamic" /\ UNCHANGED S
              /\ act' = [op |-> "s_update", i |-> i, res |-> "ok", post |-> PostOf(S)]
ImplFilter(r, y) == {o[1] : o \in {o \in S : (r = "" \/ o[2] = r) /\ (y = "" \/ (o[3] # "" /\ o[3] = y))}}   \* getattr(obstacle, "obstacle_type", None)
SFilter(r, y) == /\ UNCHANGED S
                 /\ act' = [op |-> "s_filter", role |-> r, type |-> y, ids |-> PostOf(ImplFilter(r, y)), res |-> "ok",
                            post |-> PostOf(S)]
CNext == /\ dom = "scn" /\ UNCHANGED <<dom, live, ob, wild, nset>>
         /\ \/ \E o \in ScnObs : SAdd(o)
            \/ \E i \in ScnIds : SRemove(i) \/ SUpdate(i)
            \/ \E i \in ScnIds, y \in {"car", "bus"} : SSetType(i, y)
            \/ \E r \in ScnRoles \cup {""}, y \in ScnTypes \cup {""} : SFilter(r, y)

(* ---- par: value-like ---------------------------------------------------------------------------- *)
ImplPSet(row) ==
    LET rule == row[4]
        res  == CASE rule = "immutable" -> IF row[3] = "str" THEN "AssertionError" ELSE "warned"
                  [] rule = "reject"    -> "AssertionError"
                  [] OTHER              -> "ok"
        typo == DEV_WheelbaseTypo /\ row[2] = "wheelbase_lengths" /\ row[3] # "none"
    IN [op |-> "p_set", cls |-> row[1], attr |-> row[2], tok |-> row[3], res |-> res,
        changed |-> B(res = "ok" /\ ~typo /\ row[3] # "none" /\ row[2] # "ctor.obstacle_id"),
        stored |-> B(res = "ok" /\ ~typo)]

Next == HNext \/ SNextD \/ CNext
Spec == Init /\ [][Next]_vars

(* ---- the contract, as invariants and action properties of the implementation model ------------- *)
St     == [o |-> [ob |-> ob, wild |-> wild], S |-> S]
PropRefines   == [][Clause(St, act') = "" /\ St' = Post(St, act')]_vars
InvParallel   == (live /\ ~wild) => ParallelLens(ob)
InvHistBound  == (live /\ ~wild) => Len(ob.hist) <= MaxUpd
PropImmutable == [][(live /\ live') => (ob'.id = ob.id /\ ob'.role = ob.role /\ ob'.type = ob.type /\ ob'.shape = ob.shape
                                         /\ ob'.cls = ob.cls)]_vars
PropUpdate    == [][(act'.op = "d_update" /\ act'.res = "ok") =>
                       /\ ob'.pred = 0 /\ ob'.t0 = act'.a.t
                       /\ (~wild => Len(ob'.hist) <= act'.a.maxh)
                       /\ ob'.hist[Len(ob'.hist)] = <<ob.t0, ob.tag>> /\ ob'.shist[Len(ob'.shist)] = ob.sig
                       /\ ob'.chist[Len(ob'.chist)] = ob.cen /\ ob'.phist[Len(ob'.phist)] = ob.shp]_vars
PropRejectAtomic == [][(act'.op \in {"d_update", "d_set", "d_uppred"} /\ act'.res # "ok") => ob' = ob]_vars
PropQueryPure == [][(act'.op \in {"d_sig_at", "d_str", "d_hash", "s_filter"}) => (ob' = ob /\ S' = S)]_vars
InvHistOrder  == (live /\ ~wild) => \A i \in 1..Len(ob.hist) - 1 : ob.hist[i][1] < ob.hist[i + 1][1]    \* oldest first
InvLaws       == /\ (dom = "dynh" /\ live) =>
                       /\ \A k \in Profs, m \in 1..MaxH : LawUpdate(ob, UpdArgs(k, m, ""))
                       /\ LawSigAt(ob, -1..(MaxUpd + 3))
                       /\ \A n \in 0..MaxH : LawLastN(ob.hist, n)
                 /\ (dom = "scn") => LawFilter(S, ScnRoles, ScnTypes)
InvPar        == dom = "par" => /\ \A row \in Surface : PSetClause(ImplPSet(row)) = ""
                                /\ \A c \in {"static", "dynamic", "phantom", "environment"} :
                                      PRoleClause([op |-> "p_role", cls |-> c, role |-> RoleOfClass(c)]) = ""
                                /\ Cardinality(TypeValues) = 16 /\ Cardinality(TypeNames) = 16

(* ---- generation (GEN configurations, -workers 1) ------------------------------------------------ *)
StKey == [d |-> dom, live |-> B(live), ob |-> ob, w |-> B(wild), n |-> nset, S |-> PostOf(S)]
EmitEdge == PrintT(<<"EDGE", ToJson([from |-> StKey, act |-> act', to |-> StKey'])>>)
EmitCase == (dom = "par") => \A row \in Surface :
                PrintT(<<"CASE", ToJson([cls |-> row[1], attr |-> row[2], tok |-> row[3]])>>)
=================================================================================
