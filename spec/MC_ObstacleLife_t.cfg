SPECIFICATION Spec
CONSTANTS
  Domains = {"dynh", "dyns", "scn", "par"}
  MaxUpd = 4
  MaxH = 3
  MaxSetsH = 2
  MaxSets = 3
  NScnIds = 3
  MaxScn = 3
  DEV_UpdateNonAtomic = FALSE
  DEV_SignalHistoryNoTrunc = FALSE
  DEV_KeepPrediction = FALSE
  DEV_CenterShapeSwapped = FALSE
  DEV_SeriesOnly = FALSE
  DEV_TypeMutable = FALSE
  DEV_WheelbaseTypo = FALSE
  DEV_HashNoneIds = FALSE
VIEW View
INVARIANT InvParallel
INVARIANT InvHistBound
INVARIANT InvHistOrder
INVARIANT InvLaws
INVARIANT InvPar
PROPERTY PropRefines
PROPERTY PropImmutable
PROPERTY PropUpdate
PROPERTY PropRejectAtomic
PROPERTY PropQueryPure
