----------------------------- MODULE MC_Occupancy -----------------------------
(* Model for C04: one state per (obstacle descriptor, t) and per (small scenario, t); Tick walks time   *)
(* through 0..TMax (before, at, inside, last, after the horizon).  The laws are checked on the           *)
(* specification itself; Emit prints one case per descriptor / scenario for the spec -> code direction.  *)
EXTENDS Occupancy, Json

CONSTANTS Scale,     \* 1 = quick scope, 2 = thorough scope (more start positions, scenarios of <= 4 obstacles)
          TMax

VARIABLES mode, o, S, t, md          \* md: the ONE modification of a history case (mode "hist")
vars == <<mode, o, S, t, md>>

(* ---- shapes (all with their centroid at the shape origin) ------------------------------------------- *)
Tri  == <<<<2, -1>>, <<-1, 2>>, <<-1, -1>>>>                      \* asymmetric bounding box, centroid (0, 0)
Ell  == <<<<-9, -5>>, <<11, -5>>, <<11, 3>>, <<-1, 3>>, <<-1, 7>>, <<-9, 7>>>>     \* L-shape, centroid (0, 0)
Kite == <<<<3, 0>>, <<0, 1>>, <<-1, 0>>, <<0, -1>>>>               \* position region only: centroid # nominal position
ShRect42 == [k |-> "rect", a |-> 4, b |-> 2]
ShRect31 == [k |-> "rect", a |-> 3, b |-> 1]
ShDisc   == [k |-> "disc", a |-> 2]
ShTri    == [k |-> "poly", v |-> Tri]
ShEll    == [k |-> "poly", v |-> Ell]
ShCross  == [k |-> "group", parts |-> <<[a |-> 4, b |-> 2, cx |-> 0, cy |-> 0], [a |-> 2, b |-> 4, cx |-> 0, cy |-> 0]>>]
ShTrain  == [k |-> "group", parts |-> <<[a |-> 4, b |-> 2, cx |-> 2, cy |-> 0], [a |-> 2, b |-> 2, cx |-> -2, cy |-> 0]>>]
FreeShapes == {ShRect42, ShRect31, ShDisc, ShTri, ShEll, ShCross}   \* any quarter turn
                                                                     \* ShTrain: parts off the origin -> q = 0 only (non-goal)
(* ---- states ------------------------------------------------------------------------------------------ *)
Dir(q) == Rot(q, <<1, 0>>)
Speed(tt) == 1 + (tt % 2)
St(kind, tt, x, y, q) ==
    [k |-> "state", kind |-> kind, t |-> tt, x |-> x, y |-> y, q |-> IF kind \in PMKinds THEN 0 ELSE q,
     vx |-> IF kind \in PMKinds THEN Speed(tt) * Dir(q)[1] ELSE 0,
     vy |-> IF kind \in PMKinds THEN Speed(tt) * Dir(q)[2] ELSE 0, unc |-> "none"]
USt(kind, tt, x, y, q, u) ==
    [k |-> "state", kind |-> kind, t |-> tt, x |-> x, y |-> y, q |-> q, vx |-> 0, vy |-> 0,
     unc |-> u.unc, reg |-> u.reg, q1 |-> u.q1, q2 |-> u.q2]

M1 == [dx |-> 1, dy |-> 0, dq |-> 0]
M2 == [dx |-> -1, dy |-> 2, dq |-> 1]
Motions == {M1, M2}
Kinds   == {"oriented", "pm", "custom", "custompm"}
T0s     == 0..2
P0s     == IF Scale = 1 THEN {<<1, 2>>} ELSE {<<1, 2>>, <<-3, 0>>}
StepP(p, m, i) == <<p[1] + i * m.dx, p[2] + i * m.dy>>
Gaps    == {1, 2}                                                   \* non-zero gaps between t0 and the first prediction step
TrajOf(kind, t0, g, n, p0, q0, m) ==       \* contiguous states for the steps t0+1+g .. t0+g+n
    [i \in 1..n |-> LET p == StepP(p0, m, i) IN St(kind, t0 + g + i, p[1], p[2], (q0 + i * m.dq) % 4)]
OccShapes(f) == IF f = 1 THEN <<ShRect31, ShTri>> ELSE <<ShDisc, ShCross>>
OccsOf(f, t0, g, n, p0, q0, m) ==
    [i \in 1..n |-> LET p == StepP(p0, m, i) IN [t |-> t0 + g + i, shape |-> OccShapes(f)[i], pose |-> <<p[1], p[2], (q0 + i) % 4>>]]
PTraj(g, sts) == [k |-> "traj", g |-> g, states |-> sts]
PSet(g, occs) == [k |-> "set", g |-> g, occs |-> occs]

Preds(t0, g, p0, q0, free) ==
    {[k |-> "none"]}
    \cup {PTraj(g, TrajOf(kind, t0, g, n, p0, q0, m)) : kind \in Kinds, n \in 1..3, m \in (IF free THEN Motions ELSE {M1})}
    \cup {PSet(g, OccsOf(f, t0, g, n, p0, q0, M2)) : f \in {1, 2}, n \in 1..2}
Ob(id, role, type, t0, sh, init, pr) ==
    [id |-> id, role |-> role, type |-> type, t0 |-> t0, shape |-> sh, init |-> init, pred |-> pr]
Phantom(id, t0, pr) == [id |-> id, role |-> "phantom", type |-> "none", t0 |-> t0, pred |-> pr]

GapShapes == IF Scale = 1 THEN {ShRect31, ShTri, ShCross} ELSE FreeShapes       \* reduced set for the gap dimension
GapQs     == IF Scale = 1 THEN {0, 1} ELSE 0..3
DynObs == UNION {{Ob(1, "dynamic", "car", t0, sh, St("initial", t0, p0[1], p0[2], q0), pr) : pr \in Preds(t0, 0, p0, q0, TRUE)} :
                   t0 \in T0s, p0 \in P0s, q0 \in 0..3, sh \in FreeShapes}
          \cup UNION {{Ob(1, "dynamic", "car", t0, ShTrain, St("initial", t0, p0[1], p0[2], 0), pr) : pr \in Preds(t0, 0, p0, 0, FALSE)} :
                   t0 \in T0s, p0 \in P0s}
          \cup UNION {{Ob(1, "dynamic", "car", t0, sh, St("initial", t0, p0[1], p0[2], q0), pr) : pr \in Preds(t0, g, p0, q0, TRUE)} :
                   t0 \in T0s, g \in Gaps, p0 \in P0s, q0 \in GapQs, sh \in GapShapes}
StaObs == {Ob(1, "static", "parkedVehicle", t0, sh, St("initial", t0, p0[1], p0[2], q0), [k |-> "none"]) :
               t0 \in T0s, p0 \in P0s, q0 \in 0..3, sh \in FreeShapes}
          \cup {Ob(1, "static", "parkedVehicle", t0, ShTrain, St("initial", t0, p0[1], p0[2], 0), [k |-> "none"]) : t0 \in T0s, p0 \in P0s}
OvTG == {<<1, -1>>, <<1, -2>>, <<2, -1>>, <<2, -2>>, <<2, -3>>}       \* <<t0, negative gap>>: first prediction step t0+1+g >= 0
OvlObs ==          \* constructed with a prediction that overlaps the initial time step / starts before it
    UNION {{Ob(1, "dynamic", "car", tg[1], sh, St("initial", tg[1], 1, 2, 1), pr) :
               pr \in {PTraj(tg[2], TrajOf(kind, tg[1], tg[2], n, <<1, 2>>, 1, M2)) : kind \in {"oriented", "pm"}, n \in 1..3}
                      \cup {PSet(tg[2], OccsOf(1, tg[1], tg[2], n, <<1, 2>>, 1, M2)) : n \in 1..2}} :
           tg \in OvTG, sh \in {ShRect31, ShTri}}
PhaObs == {Phantom(1, t0, [k |-> "none"]) : t0 \in T0s}
          \cup {Phantom(1, t0, PSet(g, OccsOf(f, t0, g, n, p0, q0, M2))) :
                   t0 \in T0s, g \in {0} \cup Gaps, p0 \in P0s, q0 \in {0, 1}, f \in {1, 2}, n \in 1..2}
EnvObs == {Ob(1, "environment", "building", 0, sh, St("initial", 0, p0[1], p0[2], q0), [k |-> "none"]) :
               p0 \in P0s, q0 \in 0..3, sh \in FreeShapes}

(* ---- uncertain states --------------------------------------------------------------------------------- *)
NoReg == [k |-> "none"]
RegRect22 == [k |-> "rect", a |-> 2, b |-> 2]
RegRect42 == [k |-> "rect", a |-> 4, b |-> 2]
RegDisc1  == [k |-> "disc", a |-> 1]
RegTri    == [k |-> "poly", v |-> Tri]
RegKite   == [k |-> "poly", v |-> Kite]
OriIvs    == {<<1, 1>>, <<0, 1>>, <<-1, 1>>, <<1, 2>>, <<0, 2>>}
UncSpecs ==
    {[unc |-> "pos", reg |-> r, q1 |-> q, q2 |-> q] : r \in {RegRect22, RegRect42, RegDisc1, RegTri, RegKite}, q \in {0, 1}}
    \cup {[unc |-> "ori", reg |-> NoReg, q1 |-> iv[1], q2 |-> iv[2]] : iv \in OriIvs}
    \cup {[unc |-> "both", reg |-> r, q1 |-> iv[1], q2 |-> iv[2]] : r \in {RegRect22, RegDisc1, RegTri}, iv \in {<<0, 1>>, <<1, 2>>}}
UncShapes == {ShRect42, ShRect31, ShDisc, ShTri, ShEll}
UncObs ==
    {Ob(1, "static", "parkedVehicle", 1, sh, USt("initial", 1, 1, 2, u.q1, u), [k |-> "none"]) : sh \in UncShapes, u \in UncSpecs}
    \cup {Ob(1, "dynamic", "car", 1, sh, USt("initial", 1, 1, 2, u.q1, u), [k |-> "none"]) : sh \in UncShapes, u \in UncSpecs}
    \cup {Ob(1, "dynamic", "car", 1, sh, St("initial", 1, 1, 2, 1),
             PTraj(0, <<St(kind, 2, 2, 2, 1), USt(kind, 3, 3, 2, u.q1, u)>>)) :
             sh \in UncShapes, u \in UncSpecs, kind \in {"oriented", "custom"}}
    \cup {Ob(1, "dynamic", "car", 1, sh, St("initial", 1, 1, 2, 1),                      \* uncertain state behind a gap of 2
             PTraj(2, <<USt("oriented", 4, 2, 2, u.q1, u), St("oriented", 5, 3, 2, 1)>>)) :
             sh \in {ShRect31, ShTri}, u \in UncSpecs}

(* ---- set-based predictions whose stored occupancies hold for time INTERVALS --------------------------------- *)
IvFam(f) ==        \* <<lo, hi>> relative to the first prediction step; lo = hi: a plain time step
    CASE f = 1 -> <<<<0, 1>>, <<1, 2>>, <<2, 3>>, <<3, 4>>>>       \* touching, even count
      [] f = 2 -> <<<<0, 1>>, <<1, 2>>, <<2, 3>>>>                  \* touching, odd count
      [] f = 3 -> <<<<0, 3>>, <<2, 6>>>>                             \* overlapping
      [] f = 4 -> <<<<0, 5>>, <<1, 2>>>>                             \* nested
      [] f = 5 -> <<<<0, 1>>, <<3, 4>>>>                             \* disjoint, hole at 2
      [] f = 6 -> <<<<0, 0>>, <<1, 3>>, <<3, 3>>>>                   \* plain steps mixed with an interval
IvFams == 1..6
IvOrd(ord, n) == [i \in 1..n |-> CASE ord = "asc" -> i [] ord = "desc" -> n + 1 - i [] OTHER -> (i % n) + 1]    \* "rot": 2, 3, .., n, 1
IvShapes == <<ShRect31, ShTri, ShDisc, ShRect42>>
IvOccs(f, ord, b) ==     \* b = first prediction step; the k-th interval of the family keeps its own shape and pose in every order
    LET fam == IvFam(f)  n == Len(fam)  perm == IvOrd(ord, n)
    IN [i \in 1..n |-> LET k == perm[i]  iv == fam[k]  base == [shape |-> IvShapes[k], pose |-> <<2 * k, 1 - k, k % 4>>]
                       IN IF iv[1] = iv[2] THEN [t |-> b + iv[1], shape |-> base.shape, pose |-> base.pose]
                          ELSE [t |-> b + iv[1], t2 |-> b + iv[2], shape |-> base.shape, pose |-> base.pose]]
IvOb(id, role, t0, f, ord) ==
    IF role = "phantom" THEN Phantom(id, t0, PSet(0, IvOccs(f, ord, t0 + 1)))
    ELSE Ob(id, "dynamic", "truck", t0, ShRect42, St("initial", t0, 1, 2, 1), PSet(0, IvOccs(f, ord, t0 + 1)))
IvOrds == {"asc", "desc", "rot"}
IvObs == {IvOb(1, "dynamic", t0, f, ord) : t0 \in {0, 1}, f \in IvFams, ord \in IvOrds}
         \cup {IvOb(1, "phantom", 0, f, ord) : f \in IvFams, ord \in IvOrds}
IvScenarios ==     \* alone, and a dynamic + a phantom obstacle with different families / orders
    {<<IvOb(11, role, 0, f, ord)>> : role \in {"dynamic", "phantom"}, f \in IvFams, ord \in IvOrds}
    \cup {<<IvOb(11, "dynamic", 0, f, "asc"), IvOb(12, "phantom", 0, f2, "desc")>> : f \in IvFams, f2 \in IvFams}

ObDescs == DynObs \cup StaObs \cup PhaObs \cup EnvObs \cup UncObs \cup OvlObs \cup IvObs

(* ---- scenarios: subsets of a reduced descriptor set (distinct ids), with the query families ---------- *)
Red(i) ==
    CASE i = 1 -> Ob(1, "static", "parkedVehicle", 0, ShRect42, St("initial", 0, 0, 0, 1), [k |-> "none"])
      [] i = 2 -> Ob(2, "dynamic", "car", 1, ShRect31, St("initial", 1, 1, 1, 0),
                     PTraj(0, TrajOf("oriented", 1, 0, 2, <<1, 1>>, 0, M1)))
      [] i = 3 -> Ob(3, "dynamic", "truck", 0, ShRect42, St("initial", 0, 2, 3, 0), PSet(1, OccsOf(1, 0, 1, 2, <<2, 3>>, 0, M2)))   \* gap 1
      [] i = 4 -> Ob(4, "dynamic", "car", 2, ShDisc, St("initial", 2, 3, 2, 2), [k |-> "none"])
      [] i = 5 -> Phantom(5, 1, PSet(0, OccsOf(2, 1, 0, 2, <<1, 0>>, 0, M1)))
      [] i = 6 -> Phantom(6, 0, [k |-> "none"])
      [] i = 7 -> Ob(7, "environment", "building", 0, ShRect42, St("initial", 0, 2, 3, 0), [k |-> "none"])
      [] i = 8 -> Ob(8, "dynamic", "car", 0, ShCross, St("initial", 0, 5, 5, 1),
                     PTraj(0, TrajOf("pm", 0, 0, 3, <<5, 5>>, 1, M1)))
      [] i = 9 -> Ob(9, "dynamic", "car", 0, ShRect31, St("initial", 0, 1, 0, 0),       \* gap 2: known at 0, predicted for 3..4
                     PTraj(2, TrajOf("custom", 0, 2, 2, <<1, 0>>, 0, M1)))
      [] i = 10 -> Ob(10, "dynamic", "truck", 2, ShRect31, St("initial", 2, 2, 2, 1),   \* overlap: known at 2, prediction 1..3
                      PTraj(-2, TrajOf("oriented", 2, -2, 3, <<0, 0>>, 0, M1)))
RedIds == 1..10
MaxSc  == IF Scale = 1 THEN 3 ELSE 4
RECURSIVE SortedSeq(_)
SortedSeq(I) == IF I = {} THEN <<>> ELSE LET m == CHOOSE x \in I : \A y \in I : x <= y IN <<m>> \o SortedSeq(I \ {m})
ScOf(I) == [i \in 1..Cardinality(I) |-> Red(SortedSeq(I)[i])]
Scenarios == {ScOf(I) : I \in {J \in SUBSET RedIds : Cardinality(J) <= MaxSc}}

QRoles    == <<"any", "static", "dynamic", "phantom", "environment">>
QTypes    == <<"any", "car", "truck", "building">>
QIvs      == <<<<0, 1>>, <<1, 3>>, <<-9, 9>>>>                        \* 3 x 3 family of position intervals
QRoleSets == <<<<"dynamic", "static">>, <<"static", "dynamic", "phantom", "environment">>, <<"phantom">>, <<"environment">>>>
QTimes    == <<0, 1, 3>>

(* ---- history cases: <<target (id 1), bystander Red(2)>> x ONE public modification ----------------------- *)
HShapes == IF Scale = 1 THEN {ShRect31, ShTri} ELSE {ShRect31, ShTri, ShCross, ShDisc}
HTG     == IF Scale = 1 THEN {<<0, 0>>, <<1, 1>>} ELSE {<<0, 0>>, <<1, 1>>, <<0, 1>>, <<1, 0>>, <<2, 2>>}     \* <<t0, gap>>
HTraj(sh, t0, g, kind) == Ob(1, "dynamic", "car", t0, sh, St("initial", t0, 1, 2, 1), PTraj(g, TrajOf(kind, t0, g, 2, <<1, 2>>, 1, M2)))
HTrajTargets == {HTraj(sh, tg[1], tg[2], kind) : sh \in HShapes, tg \in HTG, kind \in Kinds}
HSetTargets  == {Ob(1, "dynamic", "truck", 0, ShRect42, St("initial", 0, 1, 2, 1), PSet(g, OccsOf(1, 0, g, 2, <<1, 2>>, 1, M2))) : g \in {0, 1}}
HOthers == {Ob(1, "dynamic", "car", 1, ShTri, St("initial", 1, 1, 2, 1), [k |-> "none"]),
            Ob(1, "static", "parkedVehicle", 0, ShTri, St("initial", 0, 1, 2, 1), [k |-> "none"]),
            Phantom(1, 0, PSet(0, OccsOf(2, 0, 0, 2, <<1, 2>>, 1, M2))),
            Ob(1, "environment", "building", 0, ShRect31, St("initial", 0, 1, 2, 1), [k |-> "none"])}
Mvs == {[tx |-> 1, ty |-> 0, q |-> 0], [tx |-> 0, ty |-> 0, q |-> 1], [tx |-> -2, ty |-> 3, q |-> 3]}
Mv(via, id, v) == [k |-> "move", via |-> via, id |-> id, tx |-> v.tx, ty |-> v.ty, q |-> v.q]
HasPred(ob) == ob.role \in {"dynamic", "phantom"} /\ ob.pred.k # "none"
Moves(ob) ==      \* custom point-mass states (CustomState with velocity components only) are rotated by C05's subject, not here
    LET vs == IF ob.role = "dynamic" /\ ob.pred.k = "traj" /\ ob.pred.states[1].kind = "custompm" THEN {v \in Mvs : v.q = 0} ELSE Mvs
    IN {Mv("obstacle", 1, v) : v \in vs} \cup {Mv("scenario", 0, v) : v \in vs}
       \cup (IF HasPred(ob) THEN {Mv("prediction", 1, v) : v \in vs} ELSE {})
AltTraj(kind, t0, i) == IF i = 1 THEN TrajOf(kind, t0, 2, 3, <<0, -1>>, 2, M1) ELSE TrajOf("oriented", t0, 0, 1, <<3, 3>>, 3, M1)
AltSet(t0) == PSet(1, OccsOf(2, t0, 1, 2, <<0, 0>>, 0, M1))
TrajMods(ob) ==
    LET kind == ob.pred.states[1].kind
    IN {[k |-> "set_trajectory", id |-> 1, states |-> AltTraj(kind, ob.t0, i)] : i \in {1, 2}}
       \cup {[k |-> "set_shape", id |-> 1, shape |-> sh] : sh \in {ShRect42, ShDisc}}
       \cup {[k |-> "update_prediction", id |-> 1, pred |-> pr] : pr \in {PTraj(2, AltTraj(kind, ob.t0, 1)), AltSet(ob.t0)}}
OtherMods(ob) == IF ob.role = "dynamic" /\ ob.pred.k # "traj"
                 THEN {[k |-> "update_prediction", id |-> 1, pred |-> PTraj(2, AltTraj("pm", ob.t0, 1))]} ELSE {}
InitMods(ob) ==      \* the obstacle is advanced / its primary data are assigned (dynamic obstacles only)
    IF ob.role # "dynamic" THEN {}
    ELSE LET kind == IF ob.pred.k = "traj" THEN ob.pred.states[1].kind ELSE "oriented"
             t1 == ob.t0 + 1
             adv == St("initial", t1, 4, -1, 2)                                        \* new pose, time step t0 + 1
         IN {[k |-> "update_initial_state", id |-> 1, state |-> adv, pred |-> pr] :
                pr \in {[k |-> "none"], PTraj(1, TrajOf(kind, t1, 1, 2, <<4, -1>>, 2, M1)), PSet(0, OccsOf(1, t1, 0, 2, <<4, -1>>, 2, M2))}}
            \cup (IF ob.pred.k = "none" THEN {}                    \* the OLD prediction is re-attached: it now overlaps the new
                  ELSE {[k |-> "update_initial_state", id |-> 1, state |-> St("initial", ob.t0 + d, 4, -1, 2),    \* initial step
                         pred |-> ob.pred, reuse |-> 1] : d \in {1, 2}})
            \cup {[k |-> "set_initial_state", id |-> 1, state |-> St("initial", ob.t0, 4, -1, 2)]}
            \cup (IF PredGap(ob) > 0 THEN {[k |-> "set_initial_state", id |-> 1, state |-> adv]} ELSE {})
            \cup {[k |-> "set_prediction", id |-> 1, pred |-> pr] :
                     pr \in {[k |-> "none"], PTraj(2, AltTraj(kind, ob.t0, 1)), AltSet(ob.t0)}}
(* shared data: the second obstacle (id 2, never modified) is built from the same state list / Shape / occupancy *)
(* list object as the first one, which alone is moved via its obstacle / prediction / trajectory                *)
ShMv(via, v, sh) == [k |-> "move", via |-> via, id |-> 1, tx |-> v.tx, ty |-> v.ty, q |-> v.q, share |-> sh]
SharedCases ==
    LET second(sh, pr) == Ob(2, "dynamic", "truck", 0, sh, St("initial", 0, 3, 0, 0), pr)
        fset == Ob(1, "dynamic", "car", 0, ShRect42, St("initial", 0, 1, 2, 1), PSet(0, OccsOf(1, 0, 0, 2, <<1, 2>>, 1, M2)))
    IN {<<<<HTraj(ShRect31, 0, 0, kind), second(ShTri, HTraj(ShRect31, 0, 0, kind).pred)>>, ShMv(via, v, "states")>> :
           kind \in {"oriented", "pm"}, via \in {"obstacle", "prediction", "trajectory"}, v \in Mvs}
       \cup {<<<<HTraj(ShTri, 0, 0, "oriented"), second(ShTri, PTraj(0, TrajOf("oriented", 0, 0, 3, <<3, 0>>, 0, M1)))>>, ShMv(via, v, "shape")>> :
                via \in {"obstacle", "prediction", "trajectory"}, v \in Mvs}
       \cup {<<<<fset, second(ShRect31, fset.pred)>>, ShMv(via, v, "occs")>> : via \in {"obstacle", "prediction"}, v \in Mvs}
HistCases == SharedCases \cup UNION {{<<<<ob, Red(2)>>, mm>> : mm \in Moves(ob) \cup TrajMods(ob) \cup InitMods(ob)} : ob \in HTrajTargets}
             \cup UNION {{<<<<ob, Red(2)>>, mm>> : mm \in Moves(ob) \cup OtherMods(ob) \cup InitMods(ob)} : ob \in HSetTargets \cup HOthers}

(* ---- model -------------------------------------------------------------------------------------------- *)
Dummy == Phantom(0, 0, [k |-> "none"])
NoMod == [k |-> "none", id |-> -1]
Init == /\ t = 0
        /\ \/ mode = "ob" /\ o \in ObDescs /\ S = <<>> /\ md = NoMod
           \/ mode = "sc" /\ o = Dummy /\ S \in Scenarios \cup IvScenarios /\ md = NoMod
           \/ mode = "hist" /\ o = Dummy /\ \E c \in HistCases : S = c[1] /\ md = c[2]
Tick == t < TMax /\ t' = t + 1 /\ UNCHANGED <<mode, o, S, md>>
Next == Tick
Spec == Init /\ [][Next]_vars

(* ---- laws of the per-obstacle operators --------------------------------------------------------------- *)
LawSourceUnique == mode = "ob" /\ ~HasIntervals(o) => Cardinality(Sources(o, t)) <= 1   \* the clauses never compete
LawIntervals ==                                             \* stored intervals: every covering occupancy is admissible, nothing else
    mode = "ob" /\ HasIntervals(o) =>
        LET cov == {i \in DOMAIN o.pred.occs : o.pred.occs[i].t <= t /\ t <= (IF "t2" \in DOMAIN o.pred.occs[i] THEN o.pred.occs[i].t2 ELSE o.pred.occs[i].t)}
            live == o.role = "phantom" \/ t > o.t0
        IN /\ (o.role = "dynamic" /\ t = o.t0 => Sources(o, t) = {Src("Initial", 0)})
           /\ (live => Sources(o, t) = {Src("SetOcc", i) : i \in cov})
           /\ (live /\ cov # {} => AdmOccs(o, t) = {Placed(o.pred.occs[i].shape, o.pred.occs[i].pose) : i \in cov} /\ Occ(o, t) \in AdmOccs(o, t))
           /\ (live /\ cov = {} => AdmOccs(o, t) = {NoneV} /\ ~InHorizon(o, t))
           /\ (Cardinality(Sources(o, t)) > 1 => Centre(o, t).k = "EITHER")
LawSourceTotal  == mode = "ob" => ((Sources(o, t) # {}) <=> InHorizon(o, t))           \* exactly one in, none outside
LawHorizon ==                                               \* horizon = {t0} union [t0 + 1 + g, t0 + g + len]
    mode = "ob" /\ o.role = "dynamic" /\ ~HasIntervals(o) =>
        LET g == PredGap(o)  n == PredLen(o)
        IN /\ (Occ(o, t).k # "None") <=> (t = o.t0 \/ (t > o.t0 /\ o.t0 + 1 + g <= t /\ t <= o.t0 + g + n))
           /\ Source(o, o.t0).k = "Initial" /\ StateAt(o, o.t0) = o.init            \* also when the prediction overlaps t0
           /\ (t < o.t0 => Source(o, t).k = "None" /\ StateAt(o, t) = NoneV)        \* nothing before the initial time step
           /\ (n > 0 /\ g >= 0 => /\ Source(o, o.t0 + g + 1).k \in {"Traj", "SetOcc"} /\ Source(o, o.t0 + g + 1).i = 1
                                   /\ Source(o, o.t0 + g + n).k \in {"Traj", "SetOcc"} /\ Source(o, o.t0 + g + n).i = n)
           /\ (n > 0 /\ g < 0 /\ g + n >= 1 => Source(o, o.t0 + 1).k \in {"Traj", "SetOcc"} /\ Source(o, o.t0 + 1).i = 1 - g)
           /\ (n > 0 /\ o.t0 + g + n + 1 > o.t0 => Source(o, o.t0 + g + n + 1).k = "None")
LawGap ==                                                   \* inside the gap: no state, no occupancy, no position
    mode = "ob" /\ InGap(o, t) =>
        /\ PredGap(o) > 0 /\ ~InHorizon(o, t)
        /\ Sources(o, t) = {} /\ Occ(o, t) = NoneV /\ StateAt(o, t) = NoneV /\ Centre(o, t) = NoneV
        /\ \A ix \in Range(QIvs), iy \in Range(QIvs) : PosVerdict(o, ix, iy, {"static", "dynamic", "phantom", "environment"}, t) = "F"
LawNoneOutside == mode = "ob" => ((Source(o, t).k = "None") <=> ~InHorizon(o, t))
LawStateTime ==                                                                        \* the state returned for t has time step t
    mode = "ob" /\ o.role = "dynamic" =>
        /\ (StateAt(o, t).k = "state" => StateAt(o, t).t = t)
        /\ (o.pred.k # "set" => ((StateAt(o, t).k = "state") <=> InHorizon(o, t)))
        /\ (o.pred.k = "set" => ((StateAt(o, t).k = "state") <=> t = o.t0))
        /\ (Source(o, t).k \in {"Initial", "Traj"} => SrcState(o, t) = StateAt(o, t))  \* occupancy and state are paired
LawStatic == mode = "ob" /\ o.role \in {"static", "environment"} =>
                 /\ Source(o, t).k = Source(o, 0).k /\ SrcState(o, t) = SrcState(o, 0)
                 /\ (~IsUncertain(o, t) => Occ(o, t) = Occ(o, 0))
BBox(vs, k) == <<CHOOSE v \in {p[k] : p \in vs} : \A p \in vs : v <= p[k], CHOOSE v \in {p[k] : p \in vs} : \A p \in vs : v >= p[k]>>
LawPlaced ==                                                                           \* sanity of the exact geometry
    mode = "ob" /\ Source(o, t).k \in {"Initial", "Static", "Traj", "Env"} /\ ~IsUncertain(o, t) =>
        LET p == PoseOf(SrcState(o, t))  x == Occ(o, t)
        IN /\ Placed(o.shape, <<p[1], p[2], p[3] + 4>>) = x                            \* a full turn changes nothing
           /\ (o.shape.k = "rect" =>
                  /\ Cardinality(x.vs) = 4
                  /\ LET bx == BBox(x.vs, 1)  by == BBox(x.vs, 2)
                     IN /\ bx[1] + bx[2] = 4 * p[1] /\ by[1] + by[2] = 4 * p[2]        \* centred at the position
                        /\ <<bx[2] - bx[1], by[2] - by[1]>> = (IF p[3] % 2 = 0 THEN <<2 * o.shape.a, 2 * o.shape.b>>
                                                                ELSE <<2 * o.shape.b, 2 * o.shape.a>>))
           /\ (o.shape.k = "poly" => Cardinality(x.vs) = Len(o.shape.v))
           /\ (o.shape.k = "disc" => x.c = <<2 * p[1], 2 * p[2]>> /\ x.r2 = 2 * o.shape.a)
           /\ (o.shape.k = "group" => Cardinality(x.parts) = Len(o.shape.parts))
LawObligations ==                                                                      \* the nominal pose is always an obligation
    mode = "ob" /\ IsUncertain(o, t) =>
        LET s == SrcState(o, t)  ob == Obligations(s)
        IN /\ \E p \in ob : p[1] = 2 * s.x /\ p[2] = 2 * s.y
           /\ (s.unc = "pos"  => Cardinality(ob) \in 4..7 /\ \A p \in ob : p[3] = 2 * s.q)
           /\ (s.unc = "ori"  => Cardinality(ob) \in 1..3 /\ \A p \in ob : p[1] = 2 * s.x /\ p[2] = 2 * s.y)
           /\ (s.unc = "both" => Cardinality(ob) = Cardinality(RegionPoints2(s)) * Cardinality(Oris8(s)))
           /\ \A p \in ob : 2 * s.q1 <= p[3] /\ p[3] <= 2 * s.q2

(* ---- laws of the scenario-level operators: exactly the images of the per-obstacle answers ------------ *)
Ids(T) == {T[i].id : i \in DOMAIN T}
ES == IF mode = "hist" THEN ModifyS(S, md) ELSE S          \* the scenario the queries are answered on (current data)
LawScenarioOcc ==
    mode \in {"sc", "hist"} =>
        /\ Cardinality(Ids(ES)) = Len(ES)
        /\ \A r \in Range(QRoles) :
              /\ Cardinality(OccAt(ES, t, r)) = Cardinality({i \in DOMAIN ES : RoleOK(ES[i], r) /\ Occ(ES[i], t).k # "None"})
              /\ {p[1] : p \in OccAt(ES, t, r)} = {ES[i].id : i \in {j \in DOMAIN ES : RoleOK(ES[j], r) /\ InHorizon(ES[j], t)}}
              /\ \A p \in OccAt(ES, t, r) : \E i \in DOMAIN ES : ES[i].id = p[1] /\ Occ(ES[i], t) = p[2]
        /\ OccAt(ES, t, "any") = UNION {OccAt(ES, t, r) : r \in {"static", "dynamic", "phantom", "environment"}}
LawScenarioStates ==
    mode \in {"sc", "hist"} =>
        /\ {p[1] : p \in StatesAt(ES, t)} =
               {ES[i].id : i \in {j \in DOMAIN ES : ES[j].role = "static" \/ (ES[j].role = "dynamic" /\ StateAt(ES[j], t).k = "state")}}
        /\ \A p \in StatesAt(ES, t) : \E i \in DOMAIN ES : ES[i].id = p[1] /\ StateAt(ES[i], t) = p[2]
                                                          /\ (ES[i].role = "dynamic" => p[2].t = t)
LawScenarioFilters ==
    mode \in {"sc", "hist"} =>
        /\ ByRoleType(ES, "any", "any") = Ids(ES)
        /\ \A ty \in Range(QTypes) : ByRoleType(ES, "any", ty) = UNION {ByRoleType(ES, r, ty) : r \in {"static", "dynamic", "phantom", "environment"}}
        /\ \A r \in Range(QRoles), ty \in Range(QTypes) :
              ByRoleType(ES, r, ty) = {ES[i].id : i \in {j \in DOMAIN ES : RoleOK(ES[j], r) /\ (ty = "any" \/ ES[j].type = ty)}}
        /\ \A rs \in Range(QRoleSets) :
              LET R == Range(rs)
              IN /\ ByPositionMay(ES, QIvs[3], QIvs[3], R, t) = {ES[i].id : i \in {j \in DOMAIN ES : ES[j].role \in R /\ InHorizon(ES[j], t)}}
                 /\ \A ix \in Range(QIvs), iy \in Range(QIvs) :
                       /\ ByPosition(ES, ix, iy, R, t) \subseteq ByPositionMay(ES, ix, iy, R, t)
                       /\ ByPosition(ES, ix, iy, R, t) \subseteq ByPosition(ES, QIvs[3], QIvs[3], R, t)     \* monotone
                       /\ ByPositionMay(ES, ix, iy, R, t) \subseteq {p[1] : p \in OccAt(ES, t, "any")}      \* only existing occupancies

(* ---- laws of the history dimension: the contract holds for the current data --------------------------- *)
LawModify ==
    mode = "hist" =>
        \A i \in DOMAIN S :
           LET a == S[i]  b == ES[i]
           IN /\ Cardinality(Sources(b, t)) <= 1 /\ ((Sources(b, t) # {}) <=> InHorizon(b, t))
              /\ (Source(b, t).k \in {"Initial", "Traj"} => SrcState(b, t) = StateAt(b, t) /\ StateAt(b, t).t = t)   \* same source
              /\ (b.role = "dynamic" /\ StateAt(b, t).k = "state" => StateAt(b, t).t = t)
              /\ ("share" \notin DOMAIN md /\ ~Targets(a, md) => b = a)                       \* bystanders with their own data are untouched
              /\ ("share" \in DOMAIN md =>      \* shared objects: the second obstacle may or may not have moved with the first one;
                     /\ Len(S) = 2 /\ md.id = S[1].id                       \* either way its answers are consistent with its CURRENT data
                     /\ (md.share = "states" => S[1].pred.states = S[2].pred.states)
                     /\ (md.share = "shape" => S[1].shape = S[2].shape)
                     /\ (md.share = "occs" => S[1].pred.occs = S[2].pred.occs)
                     /\ \A c \in {S[2], Modify(S[2], [md EXCEPT !.id = S[2].id, !.via = "prediction"])} :
                           LET src == Source(c, t)
                           IN /\ Cardinality(Sources(c, t)) <= 1
                              /\ (src.k \in {"Initial", "Traj"} =>
                                     /\ SrcState(c, t) = StateAt(c, t) /\ StateAt(c, t).t = t
                                     /\ Occ(c, t) = Placed(IF src.k = "Traj" THEN PredShape(c) ELSE c.shape, PoseOf(StateAt(c, t))))
                              /\ (src.k = "SetOcc" => Occ(c, t) = StoredRegion(c.pred.occs[src.i]))
                              /\ Modify(c, [k |-> "observed", id |-> c.id, init |-> c.init, shape |-> c.shape, pred |-> c.pred]) = c)
              /\ (md.k = "move" /\ Targets(a, md) =>                                          \* Occ(Move(o, m), t) = Move(Occ(o, t), m)
                     IF md.via \in {"prediction", "trajectory"} /\ a.role = "dynamic" /\ t = a.t0 THEN Occ(b, t) = Occ(a, t)
                     ELSE Occ(b, t) = MoveRegion(md, Occ(a, t)))
              /\ (md.k \in {"update_initial_state", "set_initial_state"} /\ Targets(a, md) =>  \* the NEW initial state is the one placed
                     /\ b.t0 = md.state.t /\ Source(b, b.t0).k = "Initial" /\ StateAt(b, b.t0) = md.state
                     /\ Occ(b, b.t0) = Placed(a.shape, PoseOf(md.state))
                     /\ ("reuse" \in DOMAIN md \/ PredGap(b) >= 0)
                     /\ ("reuse" \in DOMAIN md => PredGap(b) = PredGap(a) - (b.t0 - a.t0) /\ (PredGap(a) = 0 => Overlaps(b)))
                     /\ (b.t0 > a.t0 => Occ(b, a.t0) = NoneV /\ StateAt(b, a.t0) = NoneV)        \* the old initial step left the horizon
                     /\ (md.k = "update_initial_state" /\ md.pred.k = "none" => (Occ(b, t).k # "None" <=> t = b.t0)))
              /\ (md.k \in {"set_trajectory", "set_shape", "update_prediction", "set_prediction"} /\ Targets(a, md) =>
                     /\ Occ(b, a.t0) = Occ(a, a.t0)                                           \* the initial occupancy is not the prediction's
                     /\ (md.k = "set_shape" => /\ Source(b, t) = Source(a, t)
                                               /\ (Source(a, t).k = "Traj" => Occ(b, t) = Placed(md.shape, PoseOf(SrcState(a, t)))))
                     /\ (md.k = "set_trajectory" /\ Source(b, t).k = "Traj" =>
                            Occ(b, t) = Placed(a.shape, PoseOf(md.states[Source(b, t).i])) /\ md.states[Source(b, t).i].t = t))

(* ---- generation: one case per descriptor / scenario --------------------------------------------------- *)
UncTimes(ob) == {tt \in 0..TMax : IsUncertain(ob, tt)}
HistTMax == LET L == {LastT(S[i]) : i \in DOMAIN S} \cup {LastT(ES[i]) : i \in DOMAIN S}
            IN 1 + CHOOSE x \in L : \A y \in L : y <= x
Case == IF mode = "hist"
        THEN [kind |-> "hist", S |-> S, m |-> md, S2 |-> ES, tmax |-> HistTMax, ivs |-> <<QIvs[2], QIvs[3]>>]
        ELSE IF mode = "ob"
        THEN [kind |-> "ob", o |-> o, tmax |-> TMax,
              obl |-> {[t |-> tt, poses |-> Obligations(SrcState(o, tt))] : tt \in UncTimes(o)}]
        ELSE [kind |-> "sc", S |-> S, tmax |-> IF \E i \in DOMAIN S : HasIntervals(S[i]) THEN 8 ELSE 5,
              roles |-> QRoles, types |-> QTypes, ivs |-> QIvs, rolesets |-> QRoleSets,
              times |-> IF \E i \in DOMAIN S : HasIntervals(S[i]) THEN <<2, 5, 6>> ELSE QTimes]
Emit == t = 0 => PrintT(<<"CASE", ToJson(Case)>>)
=================================================================================
