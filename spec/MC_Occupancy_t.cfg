SPECIFICATION Spec
CONSTANTS
  Scale = 2
  TMax = 8
INVARIANT LawSourceUnique
INVARIANT LawIntervals
INVARIANT LawSourceTotal
INVARIANT LawHorizon
INVARIANT LawGap
INVARIANT LawNoneOutside
INVARIANT LawStateTime
INVARIANT LawStatic
INVARIANT LawPlaced
INVARIANT LawObligations
INVARIANT LawScenarioOcc
INVARIANT LawScenarioStates
INVARIANT LawScenarioFilters
INVARIANT LawModify
