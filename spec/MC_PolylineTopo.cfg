SPECIFICATION Spec
CONSTANTS
  StepsA <- StepsQ1
  StepsX <- StepsAll
  MaxSegs = 3
  PairSegs = 2
  MaxN = 6
  Dists <- DistsQ
  Origins <- Origins2
  Ids = {1, 2, 3}
  RefIds = {11, 12}
  Modes = {"poly", "pair", "link", "find", "refs", "inc", "prox", "orient"}
INVARIANT LawCumStart
INVARIANT LawCumMonotone
INVARIANT LawCumEnd
INVARIANT LawRevLength
INVARIANT LawMonotoneSimple
INVARIANT LawResampleNumber
INVARIANT LawResampleDistance
INVARIANT LawOrientations
INVARIANT LawSegXSym
INVARIANT LawIntersectSym
INVARIANT LawConcat
INVARIANT LawSelfX
INVARIANT LawLink
INVARIANT LawFind
INVARIANT LawRefs
INVARIANT LawInc
INVARIANT LawProx
INVARIANT LawOrient
