---------------------------- MODULE MC_PolylineTopo ----------------------------
(* Model for X02.  Kinds of behaviours (selected by Modes):                                     *)
(*  "poly"   one behaviour per first-quadrant polyline; k walks the resampling numbers 2..MaxN     *)
(*  "pair"   one state per pair of polylines over steps in all directions (intersections,          *)
(*           concatenation, self-intersection of the concatenation)                               *)
(*  "link"   the predecessor / successor list of a lanelet under add / remove of ids (a walk)      *)
(*  "find"   a registry holding a set of ids (find_*_by_id)                                        *)
(*  "refs"   two lanelets referencing sets of traffic-sign / traffic-light ids                     *)
(*  "inc"    three lanelets, each an incoming lanelet of intersection 1, 2 or of none              *)
(*  "prox"   two adjacent axis-parallel lanelets, a lattice point and a radius                     *)
(*  "orient" a center line (straight or L-shaped) and a lattice position                          *)
(* TLC checks the laws of PolylineTopo on the spec's own values and prints the cases.             *)
EXTENDS PolylineTopo

CONSTANTS StepsA,       \* steps <<dx, dy>> of the "poly" polylines (first quadrant, integer length)
          StepsX,       \* steps of the "pair" polylines (all directions)
          MaxSegs, PairSegs, MaxN, Dists, Origins, Ids, RefIds, Modes

StepsQ1  == {<<1, 0>>, <<2, 0>>, <<0, 1>>, <<0, 2>>, <<3, 4>>, <<4, 3>>}
StepsAll == {<<2, 0>>, <<-2, 0>>, <<0, 2>>, <<0, -2>>, <<3, 4>>, <<-4, 3>>, <<4, -3>>, <<-3, -4>>}
StepsAll4 == {<<2, 0>>, <<-2, 0>>, <<0, 2>>, <<0, -2>>, <<1, 0>>, <<0, -1>>, <<3, 4>>, <<-4, 3>>, <<4, -3>>, <<-3, -4>>}
DistsQ   == {<<1, 2>>, <<1, 1>>, <<3, 2>>, <<2, 1>>, <<5, 1>>, <<7, 1>>, <<40, 1>>}
Origins2 == {<<0, 0>>, <<1, -1>>}
Origins3 == {<<0, 0>>, <<1, -1>>, <<2, 2>>}
ASSUME \A st \in StepsA \cup StepsX : HasIntLen(<<0, 0>>, st) /\ st # <<0, 0>>

RECURSIVE VertexAt(_, _, _)
VertexAt(o, ss, i) == IF i = 1 THEN o
                      ELSE LET v == VertexAt(o, ss, i - 1) IN <<v[1] + ss[i - 1][1], v[2] + ss[i - 1][2]>>
PolyOf(o, ss)   == [i \in 1..Len(ss) + 1 |-> VertexAt(o, ss, i)]
StepSeqs(S, m)  == UNION {[1..n -> S] : n \in 1..m}
Polys(o, S, m)  == {PolyOf(o, ss) : ss \in StepSeqs(S, m)}
RECURSIVE SeqOf(_)
SeqOf(S) == IF S = {} THEN <<>> ELSE LET x == CHOOSE y \in S : TRUE IN <<x>> \o SeqOf(S \ {x})     \* any fixed order
RECURSIVE SortedSeq(_)
SortedSeq(S) == IF S = {} THEN <<>>
                ELSE LET m == CHOOSE x \in S : \A y \in S : x <= y IN <<m>> \o SortedSeq(S \ {m})

(* "prox": lanelet 1 occupies [0, len] x [0, 2], lanelet 2 lies left of it ([0, len] x [2, 4]); nv vertices each *)
Row(len, nv, y) == [i \in 1..nv |-> <<((i - 1) * len) \div (nv - 1), y>>]
LanesOf(len, nv) == << [id |-> 1, l |-> Row(len, nv, 2), c |-> Row(len, nv, 1), r |-> Row(len, nv, 0)],
                       [id |-> 2, l |-> Row(len, nv, 4), c |-> Row(len, nv, 3), r |-> Row(len, nv, 2)] >>
ProxCfgs == {[len |-> 2, nv |-> 2], [len |-> 6, nv |-> 2], [len |-> 6, nv |-> 4]}
ProxPts  == (-3..9) \X (-3..7)
(* "orient": center lines, coordinates doubled (positions live on the half-integer grid) *)
Centers == { <<<<0, 0>>, <<4, 0>>, <<8, 0>>>>,               \* straight east, 3 vertices
             <<<<8, 2>>, <<2, 2>>, <<0, 2>>>>,               \* straight west, uneven spacing
             <<<<0, 0>>, <<8, 0>>, <<8, 8>>>>,               \* L: east then north
             <<<<0, 8>>, <<0, 0>>, <<6, 0>>, <<8, 0>>>> }    \* L: south then east, 4 vertices
OrientPts == (0..8) \X (0..8)

VARIABLES mode, pa, pb, k, aux
vars == <<mode, pa, pb, k, aux>>

InitPoly == /\ "poly" \in Modes /\ mode = "poly" /\ pa \in Polys(<<0, 0>>, StepsA, MaxSegs) /\ pb = <<>> /\ k = 2 /\ aux = 0
InitPair == /\ "pair" \in Modes /\ mode = "pair" /\ pa \in Polys(<<0, 0>>, StepsX, PairSegs) /\ pb = <<>>
            /\ k = 0 /\ aux = 0
InitLink == /\ "link" \in Modes /\ mode = "link" /\ pa = <<>> /\ pb = <<>> /\ k = 0 /\ aux = 0
InitFind == /\ "find" \in Modes /\ mode = "find" /\ pa = <<>> /\ pb = <<>> /\ k = 0 /\ aux \in SUBSET Ids
InitRefs == /\ "refs" \in Modes /\ mode = "refs" /\ pa = <<>> /\ pb = <<>> /\ k = 0 /\ aux \in [1..2 -> SUBSET RefIds]
InitInc  == /\ "inc" \in Modes /\ mode = "inc" /\ pa = <<>> /\ pb = <<>> /\ k = 0 /\ aux \in [1..3 -> 0..2]
InitProx == /\ "prox" \in Modes /\ mode = "prox" /\ pa = <<>> /\ pb = <<>> /\ k \in 1..3
            /\ aux \in [cfg : ProxCfgs, p : ProxPts]
InitOrient == /\ "orient" \in Modes /\ mode = "orient" /\ pa \in Centers /\ pb = <<>> /\ k = 0 /\ aux \in OrientPts
Init == InitPoly \/ InitPair \/ InitLink \/ InitFind \/ InitRefs \/ InitInc \/ InitProx \/ InitOrient

WalkPoly == mode = "poly" /\ k < MaxN /\ k' = k + 1 /\ UNCHANGED <<mode, pa, pb, aux>>
LinkStep == /\ mode = "link"
            /\ \E x \in Ids : pa' = Add(pa, x) \/ pa' = Remove(pa, x)
            /\ UNCHANGED <<mode, pb, k, aux>>
(* the second polyline of a pair is chosen in a step (so that TLC's workers share the pairs) *)
PickPair == /\ mode = "pair" /\ pb = <<>> /\ \E o \in Origins : pb' \in Polys(o, StepsX, PairSegs)
            /\ UNCHANGED <<mode, pa, k, aux>>
Next == WalkPoly \/ LinkStep \/ PickPair
Spec == Init /\ [][Next]_vars

(* ---------------------------------------- laws ---------------------------------------------- *)
IsPoly  == mode = "poly"
IsPoly0 == mode = "poly" /\ k = 2                      \* laws that do not depend on k: once per polyline
LawCumStart    == IsPoly0 => Cum(pa)[1] = 0
LawCumMonotone == IsPoly0 => \A i \in 1..Len(pa) - 1 : Cum(pa)[i] <= Cum(pa)[i + 1]
LawCumEnd      == IsPoly0 => Cum(pa)[Len(pa)] = Length(pa)
LawRevLength   == IsPoly0 => Length(Rev(pa)) = Length(pa)
LawMonotoneSimple == IsPoly0 => SelfX(pa) = "F"        \* a polyline that only moves right / up never meets itself
(* the point at arc length s lies on its segment at distance s - Cum[i] from vertex i *)
LawArc(poly, sn, sd) ==
  LET i == SegOf(poly, sn, sd)  P == PointAt(poly, sn, sd)  d == P[3]
      sq(V) == (P[1] - V[1] * d) * (P[1] - V[1] * d) + (P[2] - V[2] * d) * (P[2] - V[2] * d)
      a == (sn - sd * CumAt(poly, i)) * SegLen(poly, i)
      b == (sd * CumAt(poly, i + 1) - sn) * SegLen(poly, i)
  IN d = sd * SegLen(poly, i) /\ sq(poly[i]) = a * a /\ sq(poly[i + 1]) = b * b /\ OnSegR(poly[i], poly[i + 1], P)
(* resampling with a number: k points, end points kept, every point on the polyline, spacing length/(k-1):      *)
(* point j sits at arc length (j-1)*L/(k-1), the last one at the total length                                     *)
LawResampleNumber == IsPoly =>
  LET R == ResampleNumber(pa, k) IN
  /\ Len(R) = k /\ PtEq(R[1], IntPt(pa[1])) /\ PtEq(R[k], IntPt(Last(pa)))
  /\ \A j \in 1..k : OnPolyR(pa, R[j]) /\ LawArc(pa, (j - 1) * Length(pa), k - 1)
(* resampling with a distance: end points kept, points on the polyline, count; longer distance: unchanged *)
LawResampleDistance == IsPoly0 => \A d \in Dists :
  LET R == ResampleDistance(pa, d[1], d[2])  L == Length(pa) IN
  /\ PtEq(R[1], IntPt(pa[1])) /\ PtEq(Last(R), IntPt(Last(pa)))
  /\ \A j \in DOMAIN R : OnPolyR(pa, R[j])
  /\ d[1] > d[2] * L => R = IntPts(pa)
  /\ d[1] <= d[2] * L => /\ (Len(R) - 2) * d[1] < L * d[2] /\ L * d[2] <= (Len(R) - 1) * d[1]
                         /\ \A j \in 1..Len(R) - 1 : LawArc(pa, (j - 1) * d[1], d[2])
LawOrientations == IsPoly0 =>
  \A i \in 1..Len(pa) - 1 : \E t \in StepsA \cup {<<1, 0>>, <<0, 1>>} : DirOK(t, pa[i], pa[i + 1])

IsPair == mode = "pair" /\ pb # <<>>
Joined(v) == Shift(pb, <<Last(pa)[1] - pb[1][1] + v[1], Last(pa)[2] - pb[1][2] + v[2]>>)   \* pb moved to Last(pa) + v
LawSegXSym == IsPair => \A i \in Segs(pa), j \in Segs(pb) :
  LET a == pa[i]  b == pa[i + 1]  c == pb[j]  d == pb[j + 1] IN
  /\ SegX(a, b, c, d) = SegX(c, d, a, b) /\ SegX(a, b, c, d) = SegX(b, a, d, c)
  /\ SegX(a, b, c, d) = (PairKind(a, b, c, d) # "none")
  /\ PairKind(a, b, c, d) = PairKind(c, d, a, b)
  /\ PairKind(a, b, c, d) \in {"point", "touch"} =>
        /\ PtEq(PairPoint(a, b, c, d), PairPoint(c, d, a, b))
        /\ OnSegR(a, b, PairPoint(a, b, c, d)) /\ OnSegR(c, d, PairPoint(a, b, c, d)) /\ PairPoint(a, b, c, d)[3] > 0
LawIntersectSym == IsPair =>
  /\ HasOverlap(pa, pb) = HasOverlap(pb, pa)
  /\ \A P \in MustPoints(pa, pb) : \E Q \in MustPoints(pb, pa) : PtEq(P, Q)
  /\ \A Q \in MustPoints(pb, pa) : \E P \in MustPoints(pa, pb) : PtEq(P, Q)
  /\ (MustPoints(pa, pb) # {} \/ HasOverlap(pa, pb)) = Polylines_Meet(pa, pb)
  /\ IntersectionsClause(pa, pb, [i \in 1..Cardinality(MustPoints(pa, pb)) |->
        LET Q == SeqOf(MustPoints(pa, pb))[i] IN <<Q[1], Q[2], Q[3], 1>>]) = ""
LawConcat == IsPair =>
  LET j0 == Concat(pa, Joined(<<0, 0>>))  j5 == Concat(pa, Joined(<<3, 4>>)) IN
  /\ Length(j0) = Length(pa) + Length(pb) /\ Length(j5) = Length(pa) + 5 + Length(pb)
  /\ Len(j5) = Len(pa) + Len(pb)
  /\ \A i \in 1..Len(pa) : Cum(j5)[i] = Cum(pa)[i]
  /\ \A i \in 1..Len(pb) : Cum(j5)[Len(pa) + i] = Length(pa) + 5 + Cum(pb)[i]
  /\ \A i \in 1..Len(j0) - 1 : Cum(j0)[i] <= Cum(j0)[i + 1]
LawSelfX == IsPair =>
  LET j5 == Concat(pa, Joined(<<3, 4>>)) IN
  /\ SelfX(j5) = SelfX(Rev(j5)) /\ SelfX(j5) = SelfX(Shift(j5, <<-7, 3>>))
  /\ SelfX(j5) = "F" => ~Polylines_Meet(pa, Joined(<<3, 4>>))
  /\ SelfX(Concat(pa, Joined(<<0, 0>>))) = "EITHER"                               \* repeated vertex

IsLink == mode = "link"
LawLink == IsLink => /\ NoDups(pa)
  /\ \A x \in Ids : /\ Add(Add(pa, x), x) = Add(pa, x) /\ Remove(Remove(pa, x), x) = Remove(pa, x)
                    /\ Remove(Add(pa, x), x) = Remove(pa, x)
                    /\ x \in Range(Add(pa, x)) /\ x \notin Range(Remove(pa, x))
                    /\ NoDups(Add(pa, x)) /\ NoDups(Remove(pa, x))
                    /\ AddOK(pa, x, Add(pa, x)) /\ RemoveOK(pa, x, Remove(pa, x))
                    /\ (x \in Range(pa) => ~AddOK(pa, x, Append(pa, x))) /\ ~RemoveOK(Add(pa, x), x, Add(pa, x))
LawFind == mode = "find" => \A q \in 0..5 : (FindRes(aux, q)[1] = 1) = (q \in aux) /\ (q \in aux => FindRes(aux, q)[2] = q)
RefsOf(f) == [l \in 1..2 |-> <<l, SortedSeq(f[l])>>]
LawRefs == mode = "refs" => \A q \in RefIds \cup {99} : RefLanelets(RefsOf(aux), q) = {l \in 1..2 : q \in aux[l]}
(* intersection m (id 10 + m) has one incoming element per lanelet assigned to it *)
IntersOf(f) == LET Of(m) == SortedSeq({l \in 1..3 : f[l] = m})
               IN << <<11, [i \in 1..Len(Of(1)) |-> <<Of(1)[i]>>]>>, <<12, <<Of(2)>> >> >>
CanonInc(f) == LET S == SortedSeq({l \in 1..3 : f[l] # 0}) IN [i \in 1..Len(S) |-> <<S[i], 10 + f[S[i]]>>]
LawInc == mode = "inc" => /\ IncDomain(IntersOf(aux)) = {l \in 1..3 : aux[l] # 0}
                          /\ IncMapClause(IntersOf(aux), CanonInc(aux)) = ""
                          /\ CanonInc(aux) # <<>> => IncMapClause(IntersOf(aux), Tail(CanonInc(aux))) = "domain"
(* the generic disc / polygon operator agrees with the closed form for an axis-parallel box, and a center vertex *)
(* within the radius implies that the lanelet's polygon meets the disc                                            *)
BoxDisc(x0, y0, x1, y1, p, r) ==
  LET dx == Max(Max(x0 - p[1], p[1] - x1), 0)  dy == Max(Max(y0 - p[2], p[2] - y1), 0)  d == dx * dx + dy * dy
  IN IF d < r * r THEN "in" ELSE IF d = r * r THEN "on" ELSE "out"
LawProx == mode = "prox" =>
  LET lanes == LanesOf(aux.cfg.len, aux.cfg.nv) IN
  /\ DiscPoly(LanePolygon(lanes[1].l, lanes[1].r), aux.p, k) = BoxDisc(0, 0, aux.cfg.len, 2, aux.p, k)
  /\ DiscPoly(LanePolygon(lanes[2].l, lanes[2].r), aux.p, k) = BoxDisc(0, 2, aux.cfg.len, 4, aux.p, k)
  /\ \A m \in 1..2 : VertexWithin(lanes[m].c, aux.p, k) => ProxVerdict(lanes[m], aux.p, k) # "F"
  /\ ProximityClause(lanes, aux.p, k, SelectSeq(<<1, 2>>, LAMBDA m : ProxVerdict(lanes[m], aux.p, k) # "F")) = ""
  /\ ProximityClause(lanes, aux.p, k, SelectSeq(<<1, 2>>, LAMBDA m : ProxVerdict(lanes[m], aux.p, k) = "T")) = ""
LawOrient == mode = "orient" =>
  /\ NearestSegs(pa, aux) # {}
  /\ \A i \in Segs(pa) : OnSeg(pa[i], pa[i + 1], aux) => i \in NearestSegs(pa, aux)
  /\ Collinear(pa) => \A i \in Segs(pa) : OrientationAtOK(pa, aux, <<Sgn(pa[i + 1][1] - pa[i][1]), Sgn(pa[i + 1][2] - pa[i][2])>>)

(* ---------------------------------------- generation ---------------------------------------- *)
Emit ==
  /\ IsPoly0 => PrintT(<<"CASE", ToJson([kind |-> "poly", p |-> pa, ns |-> [i \in 1..MaxN - 1 |-> i + 1],
                                          ds |-> SeqOf(Dists)])>>)
  /\ IsPair => PrintT(<<"CASE", ToJson([kind |-> "pair", a |-> pa, b |-> pb])>>)
  /\ IsLink => PrintT(<<"CASE", ToJson([kind |-> "link", start |-> pa, ids |-> SortedSeq(Ids)])>>)
  /\ mode = "find" => PrintT(<<"CASE", ToJson([kind |-> "find", ids |-> SortedSeq(aux), qs |-> [i \in 1..6 |-> i - 1]])>>)
  /\ mode = "refs" => PrintT(<<"CASE", ToJson([kind |-> "refs", refs |-> RefsOf(aux), qs |-> SortedSeq(RefIds \cup {99})])>>)
  /\ mode = "inc" => PrintT(<<"CASE", ToJson([kind |-> "inc", inters |-> IntersOf(aux)])>>)
  /\ mode = "prox" => PrintT(<<"CASE", ToJson([kind |-> "prox", lanes |-> LanesOf(aux.cfg.len, aux.cfg.nv), adj |-> 1,
                                               p |-> aux.p, r |-> k])>>)
  /\ mode = "orient" => PrintT(<<"CASE", ToJson([kind |-> "orient", c |-> pa, p |-> aux, sc |-> 2])>>)
=================================================================================
