SPECIFICATION Spec
CONSTANTS
  MaxOps = 3
  ArchSize = 8
  DEV_OccAddsOrientation = FALSE
  DEV_PbWriteTouchesDefaultdict = FALSE
PROPERTY PropFrame
