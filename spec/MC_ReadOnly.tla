-------------------------------- MODULE MC_ReadOnly --------------------------------
EXTENDS ReadOnly, Json
CONSTANTS MaxOps, DEV_OccAddsOrientation, DEV_PbWriteTouchesDefaultdict, DEV_NetworkCopyShallow, ArchSize
VARIABLES arch, snap, warm, hist
vars == <<arch, snap, warm, hist>>
Dev == [occAddsOrientation |-> DEV_OccAddsOrientation, pbWriteTouchesDefaultdict |-> DEV_PbWriteTouchesDefaultdict,
        networkCopyShallow |-> DEV_NetworkCopyShallow]
Init == /\ arch \in {a \in SUBSET Features : Cardinality(a) <= ArchSize} /\ snap = Snap0(arch) /\ warm = {} /\ hist = <<>>
Do(op) == /\ Len(hist) < MaxOps
          /\ snap' = Effect(Dev, arch, warm, op, snap) /\ warm' = Warm(warm, op) /\ hist' = Append(hist, op)
          /\ UNCHANGED arch
Next == \E op \in Ops : Do(op)
Spec == Init /\ [][Next]_vars
PropFrame == [][snap' = snap]_vars                 \* the contract
RECURSIVE SetToSeq(_)
SetToSeq(S) == IF S = {} THEN <<>> ELSE LET x == CHOOSE y \in S : TRUE IN <<x>> \o SetToSeq(S \ {x})
Emit == (Len(hist) = MaxOps) => PrintT(<<"CASE", ToJson([arch |-> SetToSeq(arch), ops |-> hist])>>)
===================================================================================
