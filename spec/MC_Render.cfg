SPECIFICATION Spec
CONSTANTS
  Mode = "tree"
  MCFields = {"time_begin", "facecolor"}
  MCValues = {"a", "b"}
  MCSub = ""
  MaxSets = 2
  WMax = 6
  TMax = 8
PROPERTY PropContract
INVARIANT InvIdempotent
INVARIANT InvCommute
INVARIANT InvRootReaches
INVARIANT InvLastWins
INVARIANT InvTable
