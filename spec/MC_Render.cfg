SPECIFICATION Spec
CONSTANTS
  Mode = "tree"
  MCFields = {"time_begin", "facecolor"}
  MCValues = {"a"}
  MCSub = ""
  WithReplace = FALSE
  DEV_CachedSubParams = FALSE
  MaxSets = 2
  WMax = 6
  TMax = 8
PROPERTY PropContract
INVARIANT InvIdempotent
INVARIANT InvCommute
INVARIANT InvRootReaches
INVARIANT InvLastWins
INVARIANT InvRoundtripBand
INVARIANT InvRoundtripUniform
INVARIANT InvTable
