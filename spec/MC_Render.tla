------------------------------- MODULE MC_Render -------------------------------
(* Models for C19 (Render.tla).  Mode selects the part:                           *)
(*  "tree"   histories of <= MaxSets Sets on the whole parameter tree, valuation   *)
(*           restricted to the fields MCFields, value tokens MCValues;             *)
(*  "window" one state per (obstacle descriptor, begin, end); Widen moves end;     *)
(*  "total"  one state per (archetype, window) - generation only.                  *)
(* GEN configurations print the cases executed on the real code.                   *)
EXTENDS Render

CONSTANTS Mode, MCFields, MCValues, MaxSets, MCSub, WMax

VARIABLES val, hist,        \* tree: valuation, sequence of Sets applied so far
          o, b, e,          \* window: descriptor, time_begin, time_end
          a, w              \* total: archetype, window name
vars == <<val, hist, o, b, e, a, w>>

Val0    == [p \in Pairs(MCFields) |-> "default"]
NoDesc  == [kind |-> "env", t0 |-> 0, n |-> 0]
(* Sets are issued at the root and at every node of the subtree MCSub ("" = at every node of the tree) *)
ActNodes == IF MCSub = "" THEN Nodes ELSE {<<>>} \cup {m \in Nodes : Len(m) >= 1 /\ m[1] = MCSub}
Acts    == [n : ActNodes, f : MCFields, v : MCValues]
Apply(vl, act) == SetOp(vl, act.n, act.f, act.v)

Init == /\ val = (IF Mode = "tree" THEN Val0 ELSE <<>>) /\ hist = <<>>
        /\ IF Mode = "window" THEN o \in Descriptors /\ b \in 0..WMax /\ e \in b..WMax ELSE o = NoDesc /\ b = 0 /\ e = 0
        /\ IF Mode = "total" THEN a \in Archetypes /\ w \in Windows ELSE a = "empty" /\ w = "default"

DoSet == /\ Mode = "tree" /\ Len(hist) < MaxSets
         /\ \E act \in Acts : val' = Apply(val, act) /\ hist' = Append(hist, act)
         /\ UNCHANGED <<o, b, e, a, w>>
Widen == /\ Mode = "window" /\ e < WMax /\ e' = e + 1
         /\ UNCHANGED <<val, hist, o, b, a, w>>
Next == DoSet \/ Widen
Spec == Init /\ [][Next]_vars

(* ------------------------------ laws, part (1) ------------------------------ *)
LastAct == hist[Len(hist)]
(* every step satisfies the contract predicate the trace specification uses *)
PropContract   == [][Mode = "tree" => LET x == hist'[Len(hist')] IN SetPost(val, val', x.n, x.f, x.v)]_vars
(* Set is idempotent: applying the last Set once more changes nothing *)
InvIdempotent  == (Mode = "tree" /\ Len(hist) >= 1) => Apply(val, LastAct) = val /\ Idempotent(Val0, LastAct.n, LastAct.f, LastAct.v)
(* two Sets on different fields commute (from the default valuation: the state reached equals the one of the swapped history) *)
InvCommute     == (Mode = "tree" /\ Len(hist) = 2 /\ hist[1].f # hist[2].f) =>
                      /\ val = Apply(Apply(Val0, hist[2]), hist[1])
                      /\ Commute(Val0, hist[1].n, hist[1].f, hist[1].v, hist[2].n, hist[2].f, hist[2].v)
(* Set at the root reaches every node that declares the field *)
InvRootReaches == (Mode = "tree" /\ Len(hist) >= 1 /\ LastAct.n = <<>>) =>
                      /\ \A m \in Declaring[LastAct.f] : val[<<m, LastAct.f>>] = LastAct.v
                      /\ RootReaches(Val0, LastAct.f, LastAct.v)
(* Sets on the same field: the later one wins on the common targets, the earlier survives elsewhere *)
InvLastWins    == (Mode = "tree" /\ Len(hist) = 2 /\ hist[1].f = hist[2].f) =>
                      \A m \in Declaring[hist[1].f] :
                          val[<<m, hist[1].f>>] = IF IsPrefix(hist[2].n, m) THEN hist[2].v
                                                  ELSE IF IsPrefix(hist[1].n, m) THEN hist[1].v ELSE "default"
(* table sanity: every node has a class, paths are unique, every time-window field is declared everywhere *)
InvTable       == /\ \A n \in Nodes : NodeClass[n] \in DOMAIN ClassTable
                  /\ Declaring["time_begin"] = Nodes /\ Declaring["time_end"] = Nodes
                  /\ MCFields \subseteq AllScalars

(* ------------------------------ laws, part (2) ------------------------------ *)
InvVerdictTotal == Mode = "window" => \A t \in 0..TMax : Verdict(HasOcc(o, t), o, t, b, e) \in {"T", "F", "EITHER"}
InvOnlyModel    == Mode = "window" => \A t \in DrawnMay(o, b, e) : HasOcc(o, t)                      \* nothing the model does not report
InvInWindow     == Mode = "window" => \A t \in DrawnMay(o, b, e) : b <= t /\ t <= e
InvBeginOnly    == (Mode = "window" /\ ~SetBased(o)) => DrawnMay(o, b, e) \subseteq {b}             \* trajectory / static: one shape
InvBegin        == Mode = "window" => (b \in DrawnMust(o, b, e) <=> HasOcc(o, b))
InvOutside      == (Mode = "window" /\ (e < First(o) \/ b > Last(o))) => DrawnMay(o, b, e) = {}      \* window before / after horizon
InvEitherBand   == Mode = "window" => (DrawnMay(o, b, e) \ DrawnMust(o, b, e)) \subseteq ({e} \ {b})   \* the band is time_end only
InvSetWindow    == (Mode = "window" /\ SetBased(o)) => \A t \in 0..TMax : (HasOcc(o, t) /\ b <= t /\ t < e) => t \in DrawnMust(o, b, e)
(* widening the window never removes a shape that had to be drawn, and turns the band into an obligation *)
PropWiden       == [][Mode = "window" => /\ DrawnMust(o, b, e) \subseteq DrawnMust(o, b, e')
                                         /\ DrawnMay(o, b, e) \subseteq DrawnMust(o, b, e')]_vars
InvLanelets     == Mode = "window" => \A ids \in SUBSET {101, 102, 999} :
                       /\ LaneletsExpected({101, 102}, 0, ids) = {101, 102}
                       /\ LaneletsExpected({101, 102}, 1, ids) \subseteq {101, 102}
                       /\ LaneletsExpected({101, 102}, 1, ids) = ids \ {999}

(* ------------------------------ generation ---------------------------------- *)
(* tree: one case per node with all scalar field names of the table (Python runs a Set history per (node, field)) *)
EmitTree  == (Mode = "tree" /\ hist = <<>>) =>
                 \A n \in Nodes : PrintT(<<"CASE", ToJson([part |-> "tree", node |-> n, class |-> NodeClass[n],
                                                          declared |-> ScalarsOf(NodeClass[n]), fields |-> AllScalars])>>)
EmitWin   == Mode = "window" => PrintT(<<"CASE", ToJson([part |-> "window", desc |-> o, b |-> b, e |-> e,
                                                          must |-> Cardinality(DrawnMust(o, b, e)),
                                                          band |-> Cardinality(DrawnMay(o, b, e) \ DrawnMust(o, b, e))])>>)
EmitTotal == Mode = "total"  => PrintT(<<"CASE", ToJson([part |-> "total", arch |-> a, win |-> w, b |-> WindowOf(w)[1], e |-> WindowOf(w)[2]])>>)
=================================================================================
