------------------------------- MODULE MC_Render -------------------------------
(* Models for C19 (Render.tla).  Mode selects the part:                           *)
(*  "tree"   histories of <= MaxSets actions on the parameter tree: Set(n, f, v)   *)
(*           and (WithReplace) Replace(n, k) of a nested group by a fresh one;     *)
(*           valuation restricted to the fields MCFields, value tokens MCValues;   *)
(*  "window" one state per (obstacle descriptor, begin, end); Widen moves end;     *)
(*  "frames" one state per (descriptor, window); Advance shifts the window by one  *)
(*           step (the video loop);                                                *)
(*  "lights" one state per (light configuration, time_begin); Tick moves time;     *)
(*  "total"  one state per (archetype, window) - generation only.                  *)
(* The tree model is implementation-shaped in one respect: DEV_CachedSubParams     *)
(* models a parameter group that remembers its nested groups from construction     *)
(* time, so that a replaced group no longer receives what is set on its parent     *)
(* (with the constant TRUE, TLC must refute PropContract; see DEV_Render_1.cfg).   *)
(* GEN configurations print the cases executed on the real code.                   *)
EXTENDS Render

CONSTANTS Mode, MCFields, MCValues, MaxSets, MCSub, WMax, WithReplace, DEV_CachedSubParams

VARIABLES val, hist,        \* tree: valuation, sequence of actions applied so far
          stale,            \* tree: slots whose group was replaced after the construction of the parent
          o, b, e,          \* window: descriptor, time_begin, time_end
          lc, lt,           \* lights: light configuration, time_begin
          a, w              \* total: archetype, window name
vars == <<val, hist, stale, o, b, e, lc, lt, a, w>>

Val0    == [p \in Pairs(MCFields) |-> "default"]
NoDesc  == [kind |-> "env", t0 |-> 0, n |-> 0]
NoLight == [cyc |-> <<[d |-> 2, c |-> "green"], [d |-> 2, c |-> "red"]>>, off |-> 0, active |-> 1]
(* actions are issued at the root and at every node of the subtree MCSub ("" = at every node of the tree,
   "reduced" = root, dynamic_obstacle and one deep node) *)
ReducedNodes == {<<>>, <<"dynamic_obstacle">>, <<"dynamic_obstacle", "vehicle_shape">>}
ActNodes == IF MCSub = "" THEN Nodes ELSE IF MCSub = "reduced" THEN ReducedNodes
            ELSE {<<>>} \cup {m \in Nodes : Len(m) >= 1 /\ m[1] = MCSub}
Acts    == [t : {"set"}, n : ActNodes, f : MCFields, v : MCValues]
RepActs == {[t |-> "rep", n |-> s[1], k |-> s[2], inh |-> i] :
                s \in {x \in Slots : x[1] \in ActNodes /\ CleanSlot(x[1], x[2])}, i \in BOOLEAN}
IsSet(x) == x.t = "set"
(* the contract-level effect, and the effect of an implementation that propagates to the groups it was constructed with *)
Apply(vl, act) == SetOp(vl, act.n, act.f, act.v)
ImplSet(vl, st, act) ==
    IF ~DEV_CachedSubParams THEN Apply(vl, act)
    ELSE LET T == Targets(act.n, act.f) IN
         [p \in DOMAIN vl |-> IF p[2] = act.f /\ p[1] \in T /\ ~\E s \in st : IsPrefix(s, p[1]) /\ ~IsPrefix(s, act.n)
                               THEN act.v ELSE vl[p]]

Init == /\ val = (IF Mode = "tree" THEN Val0 ELSE <<>>) /\ hist = <<>> /\ stale = {}
        /\ IF Mode = "window" THEN o \in Descriptors /\ b \in 0..WMax /\ e \in b..WMax
           ELSE IF Mode = "frames" THEN o \in Descriptors /\ b \in 0..1 /\ e \in {b, b + 2}
           ELSE o = NoDesc /\ b = 0 /\ e = 0
        /\ IF Mode = "lights" THEN lc \in LightConfigs /\ lt = 0 ELSE lc = NoLight /\ lt = 0
        /\ IF Mode = "total" THEN a \in Archetypes /\ w \in Windows ELSE a = "empty" /\ w = "default"

DoSet == /\ Mode = "tree" /\ Len(hist) < MaxSets
         /\ \E act \in Acts : val' = ImplSet(val, stale, act) /\ hist' = Append(hist, act)
         /\ UNCHANGED <<stale, o, b, e, lc, lt, a, w>>
DoReplace == /\ Mode = "tree" /\ WithReplace /\ Len(hist) < MaxSets
             /\ \E act \in RepActs : /\ val' = ReplaceOp(val, act.n, act.k, act.inh)
                                       /\ hist' = Append(hist, act)
                                       /\ stale' = {s \in stale : ~IsPrefix(Append(act.n, act.k), s)} \cup {Append(act.n, act.k)}
             /\ UNCHANGED <<o, b, e, lc, lt, a, w>>
Widen == /\ Mode = "window" /\ e < WMax /\ e' = e + 1
         /\ UNCHANGED <<val, hist, stale, o, b, lc, lt, a, w>>
Advance == /\ Mode = "frames" /\ e < TMax /\ b' = b + 1 /\ e' = e + 1
           /\ UNCHANGED <<val, hist, stale, o, lc, lt, a, w>>
Tick  == /\ Mode = "lights" /\ lt < TMax /\ lt' = lt + 1
         /\ UNCHANGED <<val, hist, stale, o, b, e, lc, a, w>>
Next == DoSet \/ DoReplace \/ Widen \/ Advance \/ Tick
Spec == Init /\ [][Next]_vars

(* ------------------------------ laws, part (1) ------------------------------ *)
LastAct == hist[Len(hist)]
(* every step satisfies the contract predicate the trace specification uses: a Set reaches every CURRENT descendant
   declaring the field - also the groups assigned by earlier Replaces - and changes nothing else; a Replace changes
   nothing outside the new group *)
PropContract   == [][Mode = "tree" => LET x == hist'[Len(hist')] IN
                                          IF IsSet(x) THEN SetPost(val, val', x.n, x.f, x.v) ELSE ReplacePost(val, val', x.n, x.k)]_vars
(* Set is idempotent: applying the last Set once more changes nothing *)
InvIdempotent  == (Mode = "tree" /\ Len(hist) >= 1 /\ IsSet(LastAct)) =>
                      Apply(val, LastAct) = val /\ Idempotent(Val0, LastAct.n, LastAct.f, LastAct.v)
(* two Sets on different fields commute (from the default valuation: the state reached equals the one of the swapped history) *)
InvCommute     == (Mode = "tree" /\ Len(hist) = 2 /\ IsSet(hist[1]) /\ IsSet(hist[2]) /\ hist[1].f # hist[2].f) =>
                      /\ val = Apply(Apply(Val0, hist[2]), hist[1])
                      /\ Commute(Val0, hist[1].n, hist[1].f, hist[1].v, hist[2].n, hist[2].f, hist[2].v)
(* Set at the root reaches every node that declares the field, whatever happened before *)
InvRootReaches == (Mode = "tree" /\ Len(hist) >= 1 /\ IsSet(LastAct) /\ LastAct.n = <<>>) =>
                      /\ \A m \in Declaring[LastAct.f] : val[<<m, LastAct.f>>] = LastAct.v
                      /\ RootReaches(Val0, LastAct.f, LastAct.v)
(* Sets on the same field: the later one wins on the common targets, the earlier survives elsewhere *)
InvLastWins    == (Mode = "tree" /\ Len(hist) = 2 /\ IsSet(hist[1]) /\ IsSet(hist[2]) /\ hist[1].f = hist[2].f) =>
                      \A m \in Declaring[hist[1].f] :
                          val[<<m, hist[1].f>>] = IF IsPrefix(hist[2].n, m) THEN hist[2].v
                                                  ELSE IF IsPrefix(hist[1].n, m) THEN hist[1].v ELSE "default"
(* a Set after a Replace makes the choice of the Replace (built values / inherited values) invisible on its targets,
   and a Set before a Replace survives below the new group only as an inherited value *)
InvSetAfterReplace == (Mode = "tree" /\ Len(hist) >= 2 /\ IsSet(LastAct) /\ ~IsSet(hist[Len(hist) - 1])) =>
                      LET r == hist[Len(hist) - 1]  s == LastAct IN
                      \A m \in Targets(s.n, s.f) : IsPrefix(Append(r.n, r.k), m) => val[<<m, s.f>>] = s.v
InvReplaceAfterSet == (Mode = "tree" /\ Len(hist) >= 2 /\ ~IsSet(LastAct) /\ IsSet(hist[Len(hist) - 1])) =>
                      LET s == hist[Len(hist) - 1]  r == LastAct IN
                      \A m \in Declaring[s.f] : IsPrefix(Append(r.n, r.k), m) =>
                          val[<<m, s.f>>] = IF r.inh /\ Declares(r.n, s.f) THEN val[<<r.n, s.f>>] ELSE "built"
(* save -> load: only base parameters of nested groups that differ from the root can change; a history that sets base
   parameters at the root only (the time window selected at the top level) and replaces nothing is reproduced exactly *)
InvRoundtripBand    == Mode = "tree" => \A p \in DOMAIN val : LoadOp(val)[p] # val[p] => RoundtripBand(p[1], p[2])
InvRoundtripUniform == (Mode = "tree" /\ \A i \in DOMAIN hist : IsSet(hist[i]) /\ (hist[i].f \in BaseFields => hist[i].n = <<>>)) =>
                           LoadOp(val) = val
(* table sanity: every node has a class, every time-window field is declared everywhere, slots are nodes *)
InvTable       == /\ \A n \in Nodes : NodeClass[n] \in DOMAIN ClassTable
                  /\ Declaring["time_begin"] = Nodes /\ Declaring["time_end"] = Nodes
                  /\ MCFields \subseteq AllScalars
                  /\ {Append(s[1], s[2]) : s \in Slots} = Nodes \ {<<>>}
                  /\ CleanSlot(<<>>, "dynamic_obstacle") /\ ~CleanSlot(<<>>, "occupancy")

(* ------------------------------ laws, part (2) ------------------------------ *)
InvVerdictTotal == Mode = "window" => \A t \in 0..TMax : Verdict(HasOcc(o, t), o, t, b, e) \in {"T", "F", "EITHER"}
InvOnlyModel    == Mode = "window" => \A t \in DrawnMay(o, b, e) : HasOcc(o, t)                      \* nothing the model does not report
InvInWindow     == Mode = "window" => \A t \in DrawnMay(o, b, e) : b <= t /\ t <= e
InvBeginOnly    == (Mode = "window" /\ ~SetBased(o)) => DrawnMay(o, b, e) \subseteq {b}             \* trajectory / static: one shape
InvBegin        == Mode = "window" => (b \in DrawnMust(o, b, e) <=> HasOcc(o, b))
InvOutside      == (Mode = "window" /\ (e < First(o) \/ b > Last(o))) => DrawnMay(o, b, e) = {}      \* window before / after horizon
InvEitherBand   == Mode = "window" => (DrawnMay(o, b, e) \ DrawnMust(o, b, e)) \subseteq ({e} \ {b})   \* the band is time_end only
InvSetWindow    == (Mode = "window" /\ SetBased(o)) => \A t \in 0..TMax : (HasOcc(o, t) /\ b <= t /\ t < e) => t \in DrawnMust(o, b, e)
(* widening the window never removes a shape that had to be drawn, and turns the band into an obligation *)
PropWiden       == [][Mode = "window" => /\ DrawnMust(o, b, e) \subseteq DrawnMust(o, b, e')
                                         /\ DrawnMay(o, b, e) \subseteq DrawnMust(o, b, e')]_vars
InvLanelets     == Mode = "window" => \A ids \in SUBSET {101, 102, 999} :
                       /\ LaneletsExpected({101, 102}, 0, ids) = {101, 102}
                       /\ LaneletsExpected({101, 102}, 1, ids) \subseteq {101, 102}
                       /\ LaneletsExpected({101, 102}, 1, ids) = ids \ {999}

(* ------------------------------ laws, part (2c) ----------------------------- *)
(* what is visible after a round is a function of that round's window only; shapes of steps before the new begin are
   ghosts and must be gone; for an obstacle that moves there is a ghost in some round (the dimension discriminates) *)
PropNoGhost      == [][Mode = "frames" => /\ \A t \in DrawnMay(o, b', e') : t >= b'
                                          /\ Ghosts(o, b, e) \cap DrawnMay(o, b', e') = {}
                                          /\ FrameWindow(b, e, 1) = <<b', e'>>]_vars
InvGhostExists   == (Mode = "frames" /\ ~TimeInvariant(o) /\ HasOcc(o, b)) => b \in Ghosts(o, b, e)
InvStaticNoGhost == (Mode = "frames" /\ TimeInvariant(o)) => {Col(o, t) : t \in DrawnMust(o, b, e)} = {0}

(* ------------------------------ laws, part (2b) ----------------------------- *)
InvLightTotal   == Mode = "lights" => LightShown(lc, lt) \in LightColors /\ ValidLight(lc)
InvLightOff     == (Mode = "lights" /\ lc.active = 0) => LightShown(lc, lt) = "inactive"
InvLightCycle   == (Mode = "lights" /\ lc.active = 1) =>
                       /\ LightShown(lc, lt) \in {lc.cyc[i].c : i \in DOMAIN lc.cyc}
                       /\ LightShown(lc, lt + TL!Total(lc.cyc)) = LightShown(lc, lt)                   \* periodic, also before the offset
                       /\ lt >= lc.off /\ lt < lc.off + lc.cyc[1].d => LightShown(lc, lt) = lc.cyc[1].c  \* the cycle starts at the offset
(* the time dimension 0..TMax hits every phase of every cycle (in particular the inactive ones) *)
InvEveryPhaseHit == Mode = "lights" => \A i \in DOMAIN lc.cyc : \E t \in 0..TMax : TL!StateAt(lc.cyc, lc.off, t) = lc.cyc[i].c
(* stepping time changes the colour only at phase boundaries: to the next element of the cycle *)
PropLightStep   == [][(Mode = "lights" /\ lc.active = 1) =>
                          LET i == TL!ElemAt(lc.cyc, lc.off, lt)  j == TL!ElemAt(lc.cyc, lc.off, lt') IN j = i \/ j = (i % Len(lc.cyc)) + 1]_vars
InvPartsNoLight == Mode = "lights" => PartsMissing({101, 102}, <<>>) = {101, 102} \X LaneletParts   \* no light argument at all

(* ------------------------------ generation ---------------------------------- *)
(* tree: one case per node with all scalar field names of the table (Python runs a Set history per (node, field)) *)
EmitTree  == (Mode = "tree" /\ hist = <<>>) =>
                 \A n \in Nodes : PrintT(<<"CASE", ToJson([part |-> "tree", node |-> n, class |-> NodeClass[n],
                                                          declared |-> ScalarsOf(NodeClass[n]), fields |-> AllScalars])>>)
(* replace: one case per slot (node, child field) of the table; clean = the name does not recur below the node *)
EmitSlots == (Mode = "tree" /\ hist = <<>>) =>
                 \A s \in Slots : PrintT(<<"CASE", ToJson([part |-> "replace", node |-> s[1], child |-> s[2],
                                                            class |-> SlotClass(s[1], s[2]),
                                                            clean |-> IF CleanSlot(s[1], s[2]) THEN 1 ELSE 0,
                                                            scalars |-> ScalarsOf(SlotClass(s[1], s[2])),
                                                            fields |-> AllScalars])>>)
EmitWin   == Mode = "window" => PrintT(<<"CASE", ToJson([part |-> "window", desc |-> o, b |-> b, e |-> e,
                                                          must |-> Cardinality(DrawnMust(o, b, e)),
                                                          band |-> Cardinality(DrawnMay(o, b, e) \ DrawnMust(o, b, e))])>>)
EmitFrames == (Mode = "frames" /\ b <= 1) => PrintT(<<"CASE", ToJson([part |-> "frames", desc |-> o, b |-> b, e |-> e])>>)
EmitLights == Mode = "lights" => PrintT(<<"CASE", ToJson([part |-> "lights", light |-> lc, t |-> lt])>>)
EmitTotal == Mode = "total"  => PrintT(<<"CASE", ToJson([part |-> "total", arch |-> a, win |-> w, b |-> WindowOf(w)[1], e |-> WindowOf(w)[2]])>>)
=================================================================================
