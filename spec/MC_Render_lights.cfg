SPECIFICATION Spec
CONSTANTS
  Mode = "lights"
  MCFields = {"time_begin"}
  MCValues = {"a"}
  MCSub = ""
  WithReplace = FALSE
  DEV_CachedSubParams = FALSE
  MaxSets = 0
  WMax = 6
  TMax = 8
INVARIANT InvLightTotal
INVARIANT InvLightOff
INVARIANT InvLightCycle
INVARIANT InvEveryPhaseHit
INVARIANT InvPartsNoLight
PROPERTY PropLightStep
