SPECIFICATION Spec
CONSTANTS
  Mode = "tree"
  MCFields = {"time_begin", "facecolor"}
  MCValues = {"a", "b"}
  MCSub = "reduced"
  WithReplace = TRUE
  DEV_CachedSubParams = FALSE
  MaxSets = 3
  WMax = 6
  TMax = 8
PROPERTY PropContract
INVARIANT InvIdempotent
INVARIANT InvRootReaches
INVARIANT InvCommute
INVARIANT InvLastWins
INVARIANT InvSetAfterReplace
INVARIANT InvReplaceAfterSet
INVARIANT InvRoundtripBand
INVARIANT InvRoundtripUniform
INVARIANT InvTable
