SPECIFICATION Spec
CONSTANTS
  Mode = "window"
  MCFields = {"time_begin"}
  MCValues = {"a"}
  MCSub = ""
  WithReplace = FALSE
  DEV_CachedSubParams = FALSE
  MaxSets = 0
  WMax = 8
  TMax = 8
INVARIANT InvVerdictTotal
INVARIANT InvOnlyModel
INVARIANT InvInWindow
INVARIANT InvBeginOnly
INVARIANT InvBegin
INVARIANT InvOutside
INVARIANT InvEitherBand
INVARIANT InvSetWindow
INVARIANT InvLanelets
PROPERTY PropWiden
