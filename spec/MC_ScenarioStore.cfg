SPECIFICATION Spec
CONSTANTS
  DEV_ListRemoveInterKeepsIncoming = FALSE
  DEV_PartialIntersection = FALSE
  DEV_PartialNetwork = FALSE
  DEV_AddNetOnNonEmpty = FALSE
  DEV_HangingFreesNamedIds = FALSE
  MaxGen = 2
  Universe = {"LA","LB","LC","LD","SA","SB","TA","XA","XB","OS","OD","OP","OE","OQ","NA","NB","NC"}
VIEW View
INVARIANT InvUnique
INVARIANT InvPoolExact
INVARIANT InvReAddable
PROPERTY PropGenFresh
PROPERTY PropRejectAtomic
PROPERTY PropRefines
