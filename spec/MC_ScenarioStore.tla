----------------------------- MODULE MC_ScenarioStore -----------------------------
(* Implementation-shaped model of Scenario's object store (scenario.py add_objects /        *)
(* remove_* / replace / erase / generate_object_id): the variables the code has (the        *)
(* per-kind containers folded into s.C, _id_set, _id_counter), one action per public call,   *)
(* ids marked one at a time in the code's order, list forms as loops.                        *)
(* Deviation constants name behaviour of the shipped code that breaks the contract; with     *)
(* all of them FALSE the model is the repaired design and TLC checks Impl => Contract.       *)
EXTENDS ScenarioStore, Json

CONSTANTS
    DEV_ListRemoveInterKeepsIncoming,   \* remove_intersection([x]) releases x's id but not its incoming ids
    DEV_PartialIntersection,            \* add_objects(Intersection) keeps ids marked before the colliding one
    DEV_PartialNetwork,                 \* add_objects(LaneletNetwork) keeps ids marked before the colliding one
    DEV_AddNetOnNonEmpty,               \* add_objects(LaneletNetwork) replaces a non-empty network without releasing ids
    DEV_HangingFreesNamedIds,           \* remove_lanelet(referenced_elements) releases every sign / light id the lanelet NAMES,
                                        \* also one that no contained sign / light has (another object may hold it)
    MaxGen,                             \* bound on generate_object_id calls (state constraint)
    Universe                            \* token names in play for this configuration

VARIABLES s, idSet, cnt, act
vars == <<s, idSet, cnt, act>>
View == <<s.C, s.sg, s.lt, s.gen, idSet, cnt>>

Objs == ObjNames \cap Universe
Nets == NetNames \cap Universe
Max(S) == CHOOSE x \in S : \A y \in S : y <= x

RECURSIVE Mark(_, _)
Mark(q, S) == IF q = <<>> THEN <<TRUE, S>>
              ELSE IF Head(q) \in S THEN <<FALSE, S>> ELSE Mark(Tail(q), S \cup {Head(q)})
RECURSIVE Flat(_)
Flat(q) == IF q = <<>> THEN <<>> ELSE IdSeq(Head(q)) \o Flat(Tail(q))
FirstCnt(q) == IF cnt = -1 /\ q # <<>> THEN q[1] ELSE cnt          \* _mark_object_id_as_used initialises the counter

Act(op, toks, ref, res) == [op |-> op, toks |-> toks, ref |-> ref, res |-> res, gid |-> 0]

Init == s = Empty /\ idSet = {} /\ cnt = -1 /\ act = Act("init", <<>>, 0, "ok")

AddObj(n) ==
    LET m == Mark(IdSeq(n), idSet) IN
    /\ n \notin s.C \/ TRUE
    /\ cnt' = FirstCnt(IdSeq(n))
    /\ IF m[1] /\ NoDupInc(n)
       THEN /\ s' = AddObjState(s, n) /\ idSet' = m[2] /\ act' = Act("add", <<n>>, 0, "ok")
       ELSE /\ s' = s /\ act' = Act("add", <<n>>, 0, "ValueError")
            /\ idSet' = IF DEV_PartialIntersection THEN m[2] ELSE idSet

AddNet(N) ==
    LET m == Mark(Flat(Tok[N].ord), idSet) IN
    /\ NetPart(s.C) = {} \/ DEV_AddNetOnNonEmpty
    /\ cnt' = FirstCnt(Flat(Tok[N].ord))
    /\ IF m[1]
       THEN /\ s' = NetState([s EXCEPT !.C = ObsPart(@)], N)     \* self._lanelet_network = scenario_object
            /\ idSet' = m[2] /\ act' = Act("add", <<N>>, 0, "ok")
       ELSE /\ s' = s /\ act' = Act("add", <<N>>, 0, "ValueError")
            /\ idSet' = IF DEV_PartialNetwork THEN m[2] ELSE idSet

AddList(q) ==       \* add_objects(list) = loop; stops at the first ValueError, earlier elements stay
    LET r == AddSeq(s, q) IN
    /\ s' = r[1] /\ idSet' = idSet \cup Used(r[1].C) /\ cnt' = FirstCnt(IdSeq(q[1]))
    /\ act' = Act("add_list", q, 0, IF r[2] THEN "ok" ELSE "ValueError")

Release(ns, list) ==    \* ids leaving _id_set when the objects ns are removed through the single / list form
    UNION {IF Tok[n].k = "inter" /\ list /\ DEV_ListRemoveInterKeepsIncoming THEN {Tok[n].id} ELSE IdsObj(n) : n \in ns}

RemoveSimple(op, kinds, q, list) ==
    /\ SeqSet(q) \subseteq s.C /\ \A n \in SeqSet(q) : Tok[n].k \in kinds
    /\ s' = RemoveState(s, SeqSet(q)) /\ idSet' = idSet \ Release(SeqSet(q), list) /\ UNCHANGED cnt
    /\ act' = Act(op, q, IF list THEN 1 ELSE 0, "ok")

RemoveLanelet(q, ref) ==
    LET Ls == SeqSet(q)
        h  == IF ref THEN Hanging(s, Ls, "sign", "sg") \cup Hanging(s, Ls, "light", "lt") ELSE {}
        rem == (Lanelets \cap s.C) \ Ls
        named == ((UNION {s.sg[n] : n \in Ls}) \ (UNION {s.sg[n] : n \in rem}))
                 \cup ((UNION {s.lt[n] : n \in Ls}) \ (UNION {s.lt[n] : n \in rem}))
    IN /\ Ls \subseteq s.C /\ \A n \in Ls : Tok[n].k = "lanelet"
       /\ s' = RemoveState(s, Ls \cup h) /\ UNCHANGED cnt
       /\ idSet' = idSet \ (Release(Ls \cup h, TRUE) \cup (IF ref /\ DEV_HangingFreesNamedIds THEN named ELSE {}))
       /\ act' = Act("remove_lanelet", q, IF ref THEN 1 ELSE 0, "ok")

Erase == /\ s' = RemoveState(s, NetPart(s.C)) /\ idSet' = idSet \ Release(NetPart(s.C), FALSE) /\ UNCHANGED cnt
         /\ act' = Act("erase", <<>>, 0, "ok")

Replace(N) ==
    LET e  == RemoveState(s, NetPart(s.C))
        S1 == idSet \ Release(NetPart(s.C), FALSE)
        m  == Mark(Flat(Tok[N].ord), S1)
    IN /\ UNCHANGED cnt
       /\ IF m[1] THEN s' = NetState(e, N) /\ idSet' = m[2] /\ act' = Act("replace", <<N>>, 0, "ok")
          ELSE s' = e /\ idSet' = (IF DEV_PartialNetwork THEN m[2] ELSE S1) /\ act' = Act("replace", <<N>>, 0, "ValueError")

Gen == LET c0 == IF cnt = -1 THEN 0 ELSE cnt
           c1 == IF idSet = {} THEN c0 ELSE IF Max(idSet) > c0 THEN Max(idSet) ELSE c0
       IN /\ Cardinality(s.gen) < MaxGen
          /\ cnt' = c1 + 1 /\ s' = [s EXCEPT !.gen = @ \cup {c1 + 1}] /\ UNCHANGED idSet
          /\ act' = [Act("gen", <<>>, 0, "ok") EXCEPT !.gid = c1 + 1]

RemoveAbsent(n, list) ==     \* remove_obstacle of an obstacle that is not in the scenario: the else branch only warns
    /\ n \notin s.C /\ Tok[n].k \in ObsKinds
    /\ UNCHANGED <<s, idSet, cnt>> /\ act' = Act("remove_absent", <<n>>, IF list THEN 1 ELSE 0, "ok")

Seqs1(S) == {<<a>> : a \in S}
Seqs2(S) == {<<a, b>> : a, b \in S} \ {<<a, a>> : a \in S}
OfKind(ks) == {n \in s.C : Tok[n].k \in ks}

Next ==
    \/ \E n \in Objs : AddObj(n)
    \/ \E N \in Nets : AddNet(N) \/ Replace(N)
    \/ \E q \in Seqs2(Objs) : q[1] \notin s.C /\ q[2] \notin s.C /\ AddList(q)
    \/ \E n \in OfKind(ObsKinds) : RemoveSimple("remove_obstacle", ObsKinds, <<n>>, FALSE)
    \/ \E q \in Seqs1(OfKind(ObsKinds)) \cup Seqs2(OfKind(ObsKinds)) : RemoveSimple("remove_obstacle", ObsKinds, q, TRUE)
    \/ \E n \in OfKind({"sign"}) : \E l \in BOOLEAN : RemoveSimple("remove_sign", {"sign"}, <<n>>, l)
    \/ \E n \in OfKind({"light"}) : \E l \in BOOLEAN : RemoveSimple("remove_light", {"light"}, <<n>>, l)
    \/ \E n \in OfKind({"inter"}) : \E l \in BOOLEAN : RemoveSimple("remove_inter", {"inter"}, <<n>>, l)
    \/ \E q \in Seqs2(OfKind({"inter"})) \cup Seqs2(OfKind({"sign"})) :
            RemoveSimple(IF Tok[q[1]].k = "inter" THEN "remove_inter" ELSE "remove_sign", {"inter", "sign"}, q, TRUE)
    \/ \E q \in Seqs1(OfKind({"lanelet"})) \cup Seqs2(OfKind({"lanelet"})) : \E r \in BOOLEAN : RemoveLanelet(q, r)
    \/ \E n \in Objs \ s.C : \E l \in BOOLEAN : RemoveAbsent(n, l)
    \/ Erase
    \/ Gen
Spec == Init /\ [][Next]_vars
ASSUME PrintT(<<"TOKENS", ToJson(Tok)>>)

(* ---- the contract, as invariants and action properties of the implementation model ---- *)
InvUnique    == Unique(s.C)
InvPoolExact == idSet = Used(s.C)
InvReAddable == \A n \in Objs \ s.C : (IdsObj(n) \cap Used(s.C) = {} /\ NoDupInc(n)) => Mark(IdSeq(n), idSet)[1]
PropGenFresh == [][act'.op = "gen" => GenOk(s, act'.gid)]_vars
PropRejectAtomic == [][(act'.op = "add" /\ act'.res = "ValueError") => (s' = s /\ idSet' = idSet)]_vars
(* refinement: every step of the implementation model is a step the contract allows *)
PropRefines == [][LET e == Exp(s, act') IN
                    /\ e.res \in {act'.res, "any"}
                    /\ e.any \/ Shape(s') \in {Shape(p) : p \in e.posts}]_vars

(* ---- generation: print every explored edge (GEN configurations, -workers 1) ---------- *)
StKey == [C |-> s.C, ids |-> idSet, cnt |-> cnt, gen |-> s.gen, sg |-> Shape(s).sg, lt |-> Shape(s).lt]
Emit == PrintT(<<"EDGE", ToJson([from |-> StKey, act |-> act', to |-> StKey'])>>)
===================================================================================
