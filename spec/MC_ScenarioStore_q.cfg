SPECIFICATION Spec
CONSTANTS
  DEV_ListRemoveInterKeepsIncoming = FALSE
  DEV_PartialIntersection = FALSE
  DEV_PartialNetwork = FALSE
  DEV_AddNetOnNonEmpty = FALSE
  DEV_HangingFreesNamedIds = FALSE
  MaxGen = 1
  Universe = {"LA","LC","LD","SA","TA","XA","XB","OS","OD","NA","NC"}
VIEW View
INVARIANT InvUnique
INVARIANT InvPoolExact
INVARIANT InvReAddable
PROPERTY PropGenFresh
PROPERTY PropRejectAtomic
PROPERTY PropRefines
