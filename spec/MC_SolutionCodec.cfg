SPECIFICATION Spec
CONSTANTS
  DEV_ReaderNoKST = FALSE
  MaxCoop = 3
INVARIANT LawReaderTotal
INVARIANT LawAdmissible
INVARIANT LawSchema
INVARIANT LawSchemaStrict
INVARIANT LawReadBack
INVARIANT LawHistory
