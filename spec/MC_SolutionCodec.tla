--------------------------- MODULE MC_SolutionCodec ---------------------------
(* Model for C14: one state per solution descriptor in scope.  The product of all      *)
(* dimensions is far too large, so every dimension is enumerated exhaustively with the  *)
(* others at a default ("per component", DESIGN C01); the harness adds a seeded mixed   *)
(* sample.  TLC checks the laws of SolutionCodec on every descriptor and prints each as *)
(* a CASE line (GEN configuration).                                                     *)
EXTENDS SolutionCodec

CONSTANTS MaxCoop            \* longest cooperative solution enumerated exhaustively (2..3)

VARIABLES sol,      \* the CURRENT descriptor (what is written and must come back)
          hist      \* how the real object reaches it: [origin, init] (SolutionCodec!Histories)
vars == <<sol, hist>>

ScenTokens == {"T", "S", "I", "coop", "bare", "barecfg", "v2018b"}
StepPatterns == {<<0>>, <<0, 1>>, <<0, 1, 2>>, <<3>>, <<3, 4, 5>>, <<0, 2, 5>>}

PP(k, m, v, c, id, st, vals) == [kind |-> k, model |-> m, vtype |-> v, cost |-> c, ppid |-> id, steps |-> st,
                                 vals |-> vals]
Uniform(k, n, c) == [s \in 1..n |-> [j \in 1..NV(k) |-> c]]
DefPP(km, id)    == PP(km[1], km[2], 2, "JB1", id, <<0, 1>>, Uniform(km[1], 2, "ord"))
SolR(pps, ct, date, proc, scen, route) == [pps |-> pps, ct |-> ct, date |-> date, proc |-> proc, scen |-> scen,
                                           route |-> route]
Sol(pps, ct, date, proc, scen) == SolR(pps, ct, date, proc, scen, "writer")
DefSol(pps) == Sol(pps, "ord", "plain", "plain", "T")

(* model / input kind x vehicle type x admissible cost *)
CKind  == {DefSol(<<PP(t[1][1], t[1][2], t[2], t[3], 7, <<0, 1>>, Uniform(t[1][1], 2, "ord"))>>) :
             t \in {u \in KindModels \X VTypes \X Costs : u[3] \in CostsOf(u[1][2])}}
(* number of states 1..3, start time, gaps *)
CSteps == {DefSol(<<PP(t[1][1], t[1][2], 2, "JB1", 7, t[2], Uniform(t[1][1], Len(t[2]), "ord"))>>) :
             t \in KindModels \X StepPatterns}
(* one leaf of every state in a value class, the others ordinary *)
CVal1  == UNION {{DefSol(<<PP(km[1], km[2], 2, "JB1", 7, <<0, 1>>,
                              [s \in 1..2 |-> [j \in 1..NV(km[1]) |-> IF j = t[1] THEN t[2] ELSE "ord"]])>>) :
                    t \in (1..NV(km[1])) \X VClasses} : km \in KindModels}
(* all leaves in the same value class, three states *)
CValAll == {DefSol(<<PP(t[1][1], t[1][2], 2, "JB1", 7, <<0, 1, 2>>, Uniform(t[1][1], 3, t[2]))>>) :
              t \in KindModels \X VClasses}
(* numpy scalar leaves: double / int64 for every kind; single precision for KS (all leaves, and one leaf among doubles) *)
CNumpy == {DefSol(<<PP(t[1][1], t[1][2], 2, "JB1", 7, <<0, 1>>, Uniform(t[1][1], 2, t[2]))>>) :
             t \in KindModels \X {"np64", "npint"}}
          \cup {DefSol(<<PP("KS", "KS", 2, "JB1", 7, <<0, 1>>, Uniform("KS", 2, "np32"))>>)}
          \cup {DefSol(<<PP("KS", "KS", 2, "JB1", 7, <<0, 1>>,
                           [s \in 1..2 |-> [j \in 1..NV("KS") |-> IF j = jj THEN "np32" ELSE "np64"]])>>) :
                  jj \in 1..NV("KS")}
(* metadata presence subsets, then every token of each metadata item *)
CMeta  == {Sol(<<DefPP(t[1], 7)>>, t[2], t[3], t[4], "T") :
             t \in KindModels \X {"None", "ord"} \X {"None", "plain"} \X {"None", "plain"}}
KS1 == <<DefPP(<<"KS", "KS">>, 7)>>
CMetaVal == {Sol(KS1, c, "plain", "plain", "T") : c \in CtClasses}
            \cup {Sol(KS1, "ord", d, "plain", "T") : d \in DateTokens}
            \cup {Sol(KS1, "ord", "plain", p, "T") : p \in ProcTokens}
            \cup {Sol(KS1, t[1], t[2], t[3], "T") : t \in {"None", "tiny9"} \X {"None", "micro"} \X ProcTokens}
            \cup {Sol(<<DefPP(km, 7)>>, "ord", "plain", p, "T") : km \in KindModels, p \in {"tm", "xml", "unicode"}}
            \cup {Sol(KS1, "ord", "plain", "plain", sc) : sc \in ScenTokens}
(* state order: ascending, one adjacent swap, rotation keeping the first state, gaps, gaps + swap, smallest time *)
(* step not first, descending; the states carry different value classes so that a state losing its values shows; *)
(* both routes; single solutions of every kind and cooperative pairs                                             *)
OrderPatterns == {<<3, 4, 5, 6>>, <<3, 5, 4, 6>>, <<0, 2, 1>>, <<3, 5, 6, 4>>, <<0, 2, 7>>, <<0, 7, 2>>, <<2, 0, 1>>,
                  <<5, 3, 4>>, <<2, 1, 0>>, <<1, 0>>}
CoopOrderPatterns == {<<3, 4, 5, 6>>, <<3, 5, 4, 6>>, <<2, 0, 1>>, <<0, 7, 2>>}
StateClass == <<"ord", "neg", "intf", "tiny">>
PerState(k, n) == [s \in 1..n |-> [j \in 1..NV(k) |-> StateClass[s]]]
OPP(km, id, st) == PP(km[1], km[2], 2, "JB1", id, st, PerState(km[1], Len(st)))
COrder == {SolR(<<OPP(t[1], 7, t[2])>>, "ord", "plain", "plain", "T", t[3]) :
             t \in KindModels \X OrderPatterns \X Routes}
CoopKinds == {<<"PM", "PM">>, <<"KS", "KS">>, <<"Input", "ST">>}
COrderCoop == {SolR(<<OPP(t[1], 20, t[3]), OPP(t[2], 10, t[4])>>, "ord", "plain", "plain", "T", t[5]) :
                 t \in CoopKinds \X CoopKinds \X CoopOrderPatterns \X CoopOrderPatterns \X Routes}
(* cooperative: every sequence of 2..MaxCoop kinds (in and out of schema order, kinds may repeat), ids up and down *)
IdPatterns(n) == IF n = 2 THEN {<<10, 20>>, <<20, 10>>} ELSE {[i \in 1..n |-> IF i = 1 THEN 30 ELSE 10 * (i - 1)]}
CCoop  == UNION {{DefSol([i \in 1..n |-> DefPP(t[1][i], t[2][i])]) : t \in [1..n -> KindModels] \X IdPatterns(n)} :
                   n \in 2..MaxCoop}

Cases == CKind \cup CSteps \cup CVal1 \cup CValAll \cup CNumpy \cup CMeta \cup CMetaVal \cup CCoop \cup COrder \cup COrderCoop

(* mutate-after-construction: every public attribute alone and all together, for every kind, object built or read *)
(* from a document; cooperative pairs with the first / second / both planning problem solutions mutated          *)
Hist(s, toks, idx, origin) == <<s, [origin |-> origin, init |-> InitOf(s, toks, idx)]>>
CMut == {Hist(DefSol(<<DefPP(t[1], 7)>>), {t[2]}, {1}, t[3]) : t \in KindModels \X MutTokens \X {"built", "read"}}
        \cup {Hist(DefSol(<<DefPP(t[1], 7)>>), MutTokens \ {"traj"}, {1}, t[2]) : t \in KindModels \X {"built", "read"}}
        \cup {Hist(Sol(<<DefPP(<<"KS", "KS">>, 7)>>, t[1], t[2], t[3], "T"), {"ct", "date", "proc"}, {}, t[4]) :
                 t \in {"None", "ord"} \X {"None", "plain"} \X {"None", "plain"} \X {"built", "read"}}
CMutCoop == {Hist(DefSol(<<DefPP(t[1], 10), DefPP(t[2], 20)>>), {t[3]}, t[4], t[5]) :
               t \in CoopKinds \X CoopKinds \X {"ppid", "cost", "vtype", "traj", "kind"} \X {{1}, {2}, {1, 2}}
                      \X {"built", "read"}}
CasesH == {<<s, [origin |-> "none", init |-> s]>> : s \in Cases} \cup CMut \cup CMutCoop

Init == \E c \in CasesH : sol = c[1] /\ hist = c[2]
Next == UNCHANGED vars
Spec == Init /\ [][Next]_vars

(* ---- laws ---- *)
ASSUME LawTables == TablesAligned            \* field tables index-aligned, equal length, naming rule respected
ASSUME LawSchemaCovers == SchemaCovers       \* element names of schema-defined kinds = the schema's xs:all sets
(* every trajectory type the writer can emit has a reader class (state-level form of ReaderTotal) *)
LawReaderTotal == \A i \in DOMAIN sol.pps : StateName[sol.pps[i].kind] \in DOMAIN ReaderClass
LawAdmissible  == \A i \in DOMAIN sol.pps : /\ Admits(sol.pps[i].kind, sol.pps[i].model)
                                            /\ sol.pps[i].cost \in CostsOf(sol.pps[i].model)
LawSchema      == SchemaApplies(sol) => SchemaAccepts(AbstractDoc(sol))
(* the schema really is order- and type-sensitive: what it does not define or what is out of order is rejected *)
LawSchemaStrict == ~SchemaApplies(sol) => ~SchemaAccepts(AbstractDoc(sol))
LawReadBack    == ReadBack(sol) = Carried(sol)

LawHistory     == HistoryInScope(sol, hist)

Emit == PrintT(<<"CASE", ToJson(IF hist.origin = "none" THEN sol
                                ELSE [pps |-> sol.pps, ct |-> sol.ct, date |-> sol.date, proc |-> sol.proc,
                                      scen |-> sol.scen, route |-> sol.route, origin |-> hist.origin,
                                      init |-> hist.init])>>)
=================================================================================
