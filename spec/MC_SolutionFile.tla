--------------------------- MODULE MC_SolutionFile ---------------------------
(* Model for the file-history part of C14: histories of up to MaxWrites write_to_file calls to ONE path with    *)
(* documents of different length (more states, more planning problems, longer processor name, equal length)     *)
(* and both overwrite modes.  TLC checks that the file always is exactly the document the contract names; with  *)
(* DEV_NoTruncate the check must fail (shorter document over a longer one keeps the old tail).                  *)
EXTENDS SolutionFile, TLC, Json

CONSTANTS MaxWrites

FDocs == {"base", "same", "states", "pps", "proc"}
(* abstract lengths: `same` differs from `base` in one digit only; the others are longer in different ways *)
FLen  == [base |-> 20, same |-> 20, states |-> 35, pps |-> 41, proc |-> 27]

VARIABLES file, hist
vars == <<file, hist>>

Init == file = FileAbsent /\ hist = <<>>
Write(d, ow) == /\ Len(hist) < MaxWrites
                /\ file' = FileWrite(file, d, FLen[d], ow = 1).file
                /\ hist' = Append(hist, [doc |-> d, ow |-> ow])
Next == \E d \in FDocs, ow \in {0, 1} : Write(d, ow)
Spec == Init /\ [][Next]_vars

LawFileExact == file = IF ContractDoc(hist) = "None" THEN FileAbsent
                       ELSE [doc |-> ContractDoc(hist), len |-> FLen[ContractDoc(hist)], tail |-> 0]
LawReadable  == hist # <<>> => FileReads(file) = ContractDoc(hist)
LawRefusal   == [][\A d \in FDocs : Write(d, 0) /\ Exists(file) => file' = file]_vars

Emit == hist # <<>> => PrintT(<<"CASE", ToJson([fhist |-> hist])>>)
=================================================================================
