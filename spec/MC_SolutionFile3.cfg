SPECIFICATION Spec
CONSTANTS
  DEV_NoTruncate = FALSE
  MaxWrites = 3
INVARIANT LawFileExact
INVARIANT LawReadable
PROPERTY LawRefusal
