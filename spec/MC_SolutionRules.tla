----------------------------- MODULE MC_SolutionRules -----------------------------
(* Implementation-shaped model for X05: what commonroad/common/solution.py does - the ordered   *)
(* scan of get_state_type, the checks of the PlanningProblemSolution constructor and setters,   *)
(* the dict keyed by planning problem id inside Solution with views over the LIVE objects, the  *)
(* writer that serialises at construction and names the file at write time, the path checks of  *)
(* write_to_file and the reader's error table.  One action per public call; every action logs   *)
(* the event the harness would log (`act`) and TLC checks that the contract of SolutionRules    *)
(* accepts every step (Clause = "", abstract state = Post) together with the laws of the        *)
(* contract operators.  Deviation constants name shipped / conceivable behaviour that breaks    *)
(* the contract; with all of them FALSE the model is the repaired design.                       *)
(* Four domains: "tab" (the value-like rule tables, one state), "pps" (one                      *)
(* PlanningProblemSolution object), "sol" (a Solution over a pool of three live objects), "fs"  *)
(* (writer / reader against the sandbox file system).                                           *)
EXTENDS SolutionRules, Json

CONSTANTS
    Domains,                        \* subset of {"tab", "pps", "sol", "fs"}
    PModels, PCosts, PVTypes, PShapes, PIds,    \* arguments of the calls on the single object of domain "pps"
    MaxItems,                       \* length of the lists handed to Solution(...) / planning_problem_solutions
    CtSet,                          \* computation_time tokens tried
    FDirs, FFiles, MaxWrites,       \* output_path / filename tokens and number of write_to_file calls in domain "fs"
    DEV_StateTypeFirstSuperset,     \* SHIPPED: unsupported desired model -> first type in scan order whose fields are there
    DEV_TrajSetterNoDesired,        \* SHIPPED: trajectory setter infers the type without the object's vehicle model
    DEV_CostSetterUnchecked,        \* conceivable: cost_function setter without the supported-cost check
    DEV_PrettyFalseBytes,           \* SHIPPED: dump(pretty=False) returns bytes; write_to_file(pretty=False) opens the file, then TypeError
    DEV_ReaderShipped               \* SHIPPED: missing benchmark id -> exception built but not raised (AttributeError); "KSx" -> ValueError

VARIABLES dom, objs, S, W, FS, nw, act
vars == <<dom, objs, S, W, FS, nw, act>>
View == <<dom, objs, S, W, FS, nw>>

SeqsUpTo(U, n) == UNION {[1..k -> U] : k \in 0..n}

(* ---- get_state_type: ordered scan ------------------------------------------------------------ *)
EnumOrder == <<"PM", "ST", "KS", "KST", "MB", "Input", "PMInput">>          \* definition order of StateFields
ImplOrder(d) == <<d, "Input", "PMInput">> \o SelectSeq(EnumOrder, LAMBDA k : k \notin {d, "Input", "PMInput"})
FirstMatch(ord, A) == LET I == {i \in DOMAIN ord : FieldSet[ord[i]] \subseteq A} IN
                      IF I = {} THEN STE ELSE ord[CHOOSE i \in I : \A j \in I : i <= j]
ExactOr(A, other) == IF Exacts(A) # {} THEN CHOOSE k \in Exacts(A) : TRUE ELSE other
ImplStateType(A, d) ==
  IF d = "None" THEN ExactOr(A, STE)                                          \* len(attrs) == len(fields) and all fields in attrs
  ELSE IF DEV_StateTypeFirstSuperset THEN FirstMatch(ImplOrder(d), A)         \* len(attrs) >= len(fields) ..., desired model first
  ELSE IF FieldSet[d] \subseteq A THEN d ELSE ExactOr(A, FirstMatch(ImplOrder(d), A))
ImplCheck(r, m, c) == IF r = STE THEN STE ELSE IF ~Admits(r, m) \/ c \notin Supported(m) THEN SE ELSE "ok"

(* ---- objects: o = [ppid, m, vt, c, shape, tt] ------------------------------------------------- *)
Abs(o)   == [ppid |-> o.ppid, m |-> o.m, vt |-> o.vt, c |-> o.c, attrs |-> ShapeAttrs[o.shape], tt |-> o.tt]
AbsObjs  == [h \in DOMAIN objs |-> Abs(objs[h])]
ObsOf(o) == [ppid |-> o.ppid, m |-> o.m, vt |-> o.vt, c |-> o.c, attrs |-> ShapeFields[o.shape], tt |-> o.tt,
             vid |-> VehicleId(o.m, o.vt), cid |-> o.c]
DummyObs == [ppid |-> 0, m |-> "", vt |-> "", c |-> "", attrs |-> <<>>, tt |-> "", vid |-> "", cid |-> ""]

PNew(h, id, m, vt, c, s) ==
    LET r  == ImplStateType(ShapeAttrs[s], m)
        v  == ImplCheck(r, m, c)
        o  == [ppid |-> id, m |-> m, vt |-> vt, c |-> c, shape |-> s, tt |-> r] IN
    /\ h = Len(objs) + 1
    /\ objs' = IF v = "ok" THEN Append(objs, o) ELSE objs
    /\ act' = [op |-> "p_new", h |-> h, ppid |-> id, m |-> m, vt |-> vt, c |-> c, shape |-> s, attrs |-> ShapeFields[s],
               unset |-> ShapeUnset[s], res |-> v, obs |-> IF v = "ok" THEN ObsOf(o) ELSE DummyObs]
PSet(h, a, o1, v) ==        \* common tail of the setters: a = argument part of the event, o1 = object if accepted, v = verdict
    /\ objs' = IF v = "ok" THEN [objs EXCEPT ![h] = o1] ELSE objs
    /\ act' = a @@ [h |-> h, res |-> v, obs |-> ObsOf(IF v = "ok" THEN o1 ELSE objs[h])]
PModel(h, m) ==
    LET o == objs[h]
        v == IF ~Admits(o.tt, m) THEN SE                                      \* checked against the STORED trajectory type
             ELSE IF o.c \notin Supported(m) THEN SE ELSE "ok" IN
    PSet(h, [op |-> "p_model", m |-> m], [o EXCEPT !.m = m], v)
PCost(h, c) == LET o == objs[h] IN
    PSet(h, [op |-> "p_cost", c |-> c], [o EXCEPT !.c = c], IF c \in Supported(o.m) \/ DEV_CostSetterUnchecked THEN "ok" ELSE SE)
PTraj(h, s) ==
    LET o == objs[h]
        r == ImplStateType(ShapeAttrs[s], IF DEV_TrajSetterNoDesired THEN "None" ELSE o.m)
        v == ImplCheck(r, o.m, o.c) IN
    PSet(h, [op |-> "p_traj", shape |-> s, attrs |-> ShapeFields[s], unset |-> ShapeUnset[s]], [o EXCEPT !.shape = s, !.tt = r], v)
PVType(h, vt) == PSet(h, [op |-> "p_vtype", vt |-> vt], [objs[h] EXCEPT !.vt = vt], "ok")
PPpid(h, id)  == PSet(h, [op |-> "p_ppid", ppid |-> id], [objs[h] EXCEPT !.ppid = id], "ok")
PGet(h)       == PSet(h, [op |-> "p_get"], objs[h], "ok")

(* ---- Solution: self._planning_problem_solutions = {s.planning_problem_id: s for s in list} ----- *)
RECURSIVE DictSeq(_, _)
DictSeq(q, i) ==            \* values of the dict comprehension: key order = first occurrence, value = last occurrence
    IF i > Len(q) THEN <<>>
    ELSE LET id == objs[q[i]].ppid IN
         IF \E j \in 1..(i - 1) : objs[q[j]].ppid = id THEN DictSeq(q, i + 1)
         ELSE <<q[CHOOSE j \in i..Len(q) : objs[q[j]].ppid = id /\ \A l \in (j + 1)..Len(q) : objs[q[l]].ppid # id]>>
              \o DictSeq(q, i + 1)
ViewOf(items, scen) ==      \* the properties read the live objects
    [items |-> items, ppids |-> IdsOf(objs, items), vids |-> VidsOf(objs, items), cids |-> CidsOf(objs, items),
     tts |-> TtsOf(objs, items), sid |-> ScenText[scen].sid, ver |-> ScenText[scen].ver,
     bid |-> ExpectedBid(objs, items, scen)]
SNew(scen, q) == /\ S' = [live |-> TRUE, items |-> DictSeq(q, 1), scen |-> scen]
                 /\ act' = [op |-> "s_new", scen |-> scen, q |-> q, res |-> "ok", view |-> ViewOf(DictSeq(q, 1), scen)]
SSet(q)       == /\ S.live /\ S' = [S EXCEPT !.items = DictSeq(q, 1)]
                 /\ act' = [op |-> "s_set", q |-> q, res |-> "ok", view |-> ViewOf(DictSeq(q, 1), S.scen)]
SScen(scen)   == /\ S.live /\ S' = [S EXCEPT !.scen = scen]
                 /\ act' = [op |-> "s_scen", scen |-> scen, res |-> "ok", view |-> ViewOf(S.items, scen)]
CtImpl == [None |-> "ok", posint |-> "ok", posfloat |-> "ok", npfloat |-> "ok", npint |-> "ok", inf |-> "ok",
           zero |-> "exc:AssertionError", zerof |-> "exc:AssertionError", neg |-> "exc:AssertionError",
           negf |-> "exc:AssertionError", text |-> "exc:AssertionError", nan |-> "exc:AssertionError",
           bool |-> "exc:UFuncTypeError"]
SCt(t)        == /\ S.live /\ UNCHANGED S
                 /\ act' = [op |-> "s_ct", ct |-> t, res |-> CtImpl[t], ctobs |-> IF CtImpl[t] = "ok" THEN "set" ELSE "kept",
                            view |-> ViewOf(S.items, S.scen)]

(* ---- writer / reader / files ------------------------------------------------------------------ *)
CurDoc == DocOf(AbsObjs, S.items, S.scen)
InitialFS == {[n |-> x, k |-> "foreign", bid |-> "", tr |-> <<>>] : x \in {"old.xml", "sub/old.xml", "cwd/old.xml", "plain"}}
EmptyFile(t) == [n |-> t, k |-> "empty", bid |-> "", tr |-> <<>>]
WNew == /\ S.live /\ W' = [live |-> TRUE, doc |-> CurDoc] /\ UNCHANGED <<FS, nw>>          \* self._solution_root = serialize(solution)
        /\ act' = [op |-> "w_new", res |-> "ok"]
WDump(p) == /\ W.live /\ UNCHANGED <<W, FS, nw>>
            /\ act' = [op |-> "w_dump", pretty |-> p, res |-> "ok",
                       type |-> IF p = 0 /\ DEV_PrettyFalseBytes THEN "bytes" ELSE "str",
                       doc |-> [root |-> "CommonRoadSolution", bid |-> W.doc.bid, tr |-> W.doc.tr]]
RECURSIVE SeqOfFiles(_)
SeqOfFiles(X) == IF X = {} THEN <<>> ELSE LET x == CHOOSE y \in X : TRUE IN <<x>> \o SeqOfFiles(X \ {x})
WWrite(d, f, ow, p) ==
    LET name == IF f = "None" THEN DefaultName(CurDoc.bid) ELSE FileTable[f]     \* the name is taken from the solution NOW
        t    == DirTable[d].prefix \o name
        v    == IF PathKind(d, f) # "dir" THEN "exc:NotADirectoryError"          \* dirname missing / open() through a file
                ELSE IF t \in FileNames(FS) /\ ow = 0 THEN "exc:FileExistsError"
                ELSE IF p = 0 /\ DEV_PrettyFalseBytes THEN "exc:TypeError" ELSE "ok"
        FS1  == IF v = "ok" THEN Written(FS, t, W.doc)                           \* the content is the snapshot
                ELSE IF v = "exc:TypeError" THEN {x \in FS : x.n # t} \cup {EmptyFile(t)}      \* open(.., "w") came first
                ELSE FS IN
    /\ W.live /\ nw < MaxWrites /\ nw' = nw + 1 /\ FS' = FS1 /\ UNCHANGED W
    /\ act' = [op |-> "w_write", dir |-> d, fname |-> f, ow |-> ow, pretty |-> p, res |-> v, files |-> SeqOfFiles(FS1)]
ReadBack(x) ==              \* in this domain a written file holds the one KS solution with one of the costs in play
    IF x.k # "xml" THEN [res |-> "exc:ParseError", bid |-> "", sid |-> "", ver |-> "", ppids |-> <<>>, vids |-> <<>>,
                         cids |-> <<>>, tts |-> <<>>, deep |-> <<>>]
    ELSE LET c == CHOOSE c \in Costs : BidText(<<"KS2">>, <<c>>, ScenText["T"].sid, ScenText["T"].ver) = x.bid IN
         [res |-> "ok", bid |-> x.bid, sid |-> ScenText["T"].sid, ver |-> ScenText["T"].ver, ppids |-> <<1>>,
          vids |-> <<"KS2">>, cids |-> <<c>>, tts |-> <<"KS">>, deep |-> <<>>]
RBoth(x) == /\ UNCHANGED <<W, FS, nw>>
            /\ act' = [op |-> "r_both", file |-> x.n, a |-> ReadBack(x), b |-> ReadBack(x), files |-> SeqOfFiles(FS)]

ImplReader(d) ==
    CASE d = "none" -> "ok"
      [] d = "no-benchmark-id" -> IF DEV_ReaderShipped THEN "exc:AttributeError" ELSE SE
      [] d = "vehicle-type-letter" -> IF DEV_ReaderShipped THEN "exc:ValueError" ELSE RE
      [] d \in {"model-trajectory-mismatch", "cost-unsupported"} -> SE
      [] d = "more-ids-than-trajectories" -> "ok"
      [] d \in {"fewer-ids-than-trajectories", "empty-trajectory"} -> "exc:IndexError"
      [] d = "no-planning-problem-id" -> "exc:TypeError"
      [] d = "time-not-integer" -> "exc:ValueError"
      [] OTHER -> RE

(* ---- the three object pools --------------------------------------------------------------------- *)
Obj(id, m, vt, c, s, tt) == [ppid |-> id, m |-> m, vt |-> vt, c |-> c, shape |-> s, tt |-> tt]
SolPool == <<Obj(1, "KS", "BMW_320i", "JB1", "KS", "KS"), Obj(2, "PM", "FORD_ESCORT", "WX1", "PM", "PM"),
             Obj(1, "ST", "VW_VANAGON", "SA1", "Input", "Input")>>          \* the third one has the id of the first
FsPool  == <<Obj(1, "KS", "BMW_320i", "JB1", "KS", "KS")>>

Init == /\ dom \in Domains
        /\ objs = (IF dom = "sol" THEN SolPool ELSE IF dom = "fs" THEN FsPool ELSE <<>>)
        /\ S = (IF dom = "fs" THEN [live |-> TRUE, items |-> <<1>>, scen |-> "T"] ELSE NoSol)
        /\ W = NoWriter /\ FS = (IF dom = "fs" THEN InitialFS ELSE {}) /\ nw = 0
        /\ act = [op |-> "init"]

PNext == /\ dom = "pps" /\ UNCHANGED <<dom, S, W, FS, nw>>
         /\ \/ /\ objs = <<>>
               /\ \E id \in PIds, m \in PModels, vt \in PVTypes, c \in PCosts, s \in PShapes : PNew(1, id, m, vt, c, s)
            \/ /\ objs # <<>>
               /\ \/ \E m \in PModels : PModel(1, m)
                  \/ \E c \in PCosts : PCost(1, c)
                  \/ \E s \in PShapes : PTraj(1, s)
                  \/ \E vt \in PVTypes : PVType(1, vt)
                  \/ \E id \in PIds : PPpid(1, id)
                  \/ PGet(1)
SNext == /\ dom = "sol" /\ UNCHANGED <<dom, W, FS, nw>>
         /\ \/ /\ UNCHANGED objs
               /\ \/ \E q \in SeqsUpTo(1..3, MaxItems) : SNew("T", q) \/ SSet(q)
                  \/ \E sc \in {"T", "coop"} : SScen(sc)
                  \/ \E t \in CtSet : SCt(t)
            \/ /\ UNCHANGED S            \* calls on the live objects
               /\ \/ \E c \in {"JB1", "SA1"} : PCost(1, c)
                  \/ \E vt \in {"FORD_ESCORT", "TRUCK"} : PVType(2, vt)
                  \/ \E id \in {1, 3} : PPpid(3, id)
                  \/ \E s \in {"ST", "Input"} : PTraj(3, s)
FNext == /\ dom = "fs" /\ UNCHANGED <<dom, S>>
         /\ \/ UNCHANGED objs /\ WNew
            \/ UNCHANGED objs /\ \E p \in {0, 1} : WDump(p)
            \/ UNCHANGED objs /\ \E d \in FDirs, f \in FFiles, ow \in {0, 1}, p \in {0, 1} : WWrite(d, f, ow, p)
            \/ UNCHANGED objs /\ \E x \in FS : RBoth(x)
            \/ UNCHANGED <<W, FS, nw>> /\ \E c \in {"JB1", "SA1"} : PCost(1, c)
Next == PNext \/ SNext \/ FNext
Spec == Init /\ [][Next]_vars

(* ---- the contract, as invariants and action properties of the implementation model -------------- *)
AbsState == [objs |-> AbsObjs, S |-> S, W |-> W, FS |-> FS]
PropRefines == [][dom # "tab" => (Clause(AbsState, act') = "" /\ AbsState' = Post(AbsState, act'))]_vars
InvObjects  == \A h \in DOMAIN objs : ObjInvClause(Abs(objs[h])) = "" /\ DerivedClause(ObsOf(objs[h])) = ""
InvViews    == S.live => ViewClause(AbsObjs, S.scen, ViewOf(S.items, S.scen)) = ""
PropRejectAtomic == [][(act'.op \in {"p_model", "p_cost", "p_traj"} /\ act'.res # "ok") => objs' = objs]_vars
PropFailedWriteKeepsFiles == [][(act'.op = "w_write" /\ act'.res # "ok") => FS' = FS]_vars

TabAll == dom = "tab"
StEvent(s, d) == [op |-> "st_type", shape |-> s, attrs |-> ShapeFields[s], desired |-> d, res |-> ImplStateType(ShapeAttrs[s], d)]
InvStateTypeRefines == TabAll => \A s \in Shapes : \A d \in Models \cup {"None"} : StateTypeClause(StEvent(s, d)) = ""
CtorEvent(s, m, c) ==
    LET r == ImplStateType(ShapeAttrs[s], m)  v == ImplCheck(r, m, c)
        o == [ppid |-> 1, m |-> m, vt |-> "BMW_320i", c |-> c, shape |-> s, tt |-> r] IN
    [op |-> "p_new", h |-> 1, ppid |-> 1, m |-> m, vt |-> "BMW_320i", c |-> c, shape |-> s, attrs |-> ShapeFields[s],
     unset |-> ShapeUnset[s], res |-> v, obs |-> IF v = "ok" THEN ObsOf(o) ELSE DummyObs]
InvCtorRefines == TabAll => \A s \in Shapes : \A m \in Models : \A c \in Costs : PClause(<<>>, CtorEvent(s, m, c)) = ""
InvReaderTable == TabAll => \A d \in Defects : BadClause([op |-> "r_bad", defect |-> d, a |-> ImplReader(d), b |-> ImplReader(d)]) = ""
InvCtTable     == TabAll => \A t \in CtTokens :
                     (CtRule[t] = "ok" => CtImpl[t] = "ok") /\ (CtRule[t] = "rej" => CtImpl[t] = "exc:AssertionError")
InvLaws == TabAll => /\ LawAdmits /\ LawFieldsDistinct /\ LawExactUnique /\ LawOwnType /\ LawAnswerHasFields
                     /\ LawCtorInv /\ LawCtorDeterminate /\ LawBidText
(* the field table agrees with the one C14's specification was written from (SolutionCodec.tla) *)
SC == INSTANCE SolutionCodec WITH DEV_ReaderNoKST <- FALSE
InvTablesAgree == TabAll => /\ \A k \in Kinds : FieldSeq[k] = SC!Fields[k] /\ TrajName[k] = SC!TrajName[k]
                                                /\ StateName[k] = SC!StateName[k]
                            /\ \A k \in Kinds : \A m \in Models : Admits(k, m) = SC!Admits(k, m)
                            /\ \A m \in Models : Supported(m) = SC!CostsOf(m)

(* ---- generation (GEN configurations, -workers 1) ------------------------------------------------ *)
B(x) == IF x THEN 1 ELSE 0
StKey == [d |-> dom, objs |-> objs, S |-> [l |-> B(S.live), items |-> S.items, scen |-> S.scen],
          W |-> [l |-> B(W.live), bid |-> W.doc.bid], FS |-> FS, nw |-> nw]
EmitEdge == PrintT(<<"EDGE", ToJson([from |-> StKey, act |-> act', to |-> StKey'])>>)
EmitCase == TabAll =>
    /\ \A s \in Shapes : \A d \in Models \cup {"None"} : PrintT(<<"CASE", ToJson([kind |-> "st_type", shape |-> s, desired |-> d])>>)
    /\ \A s \in Shapes : \A m \in Models : \A c \in Costs : PrintT(<<"CASE", ToJson([kind |-> "ctor", shape |-> s, m |-> m, c |-> c])>>)
    /\ \A k \in Kinds : \A m \in Models : PrintT(<<"CASE", ToJson([kind |-> "valid_vm", k |-> k, m |-> m])>>)
    /\ \A d \in Defects : PrintT(<<"CASE", ToJson([kind |-> "r_bad", defect |-> d])>>)
    /\ \A t \in CtTokens : PrintT(<<"CASE", ToJson([kind |-> "ct", ct |-> t])>>)
=================================================================================
