SPECIFICATION Spec
CONSTANTS
  Domains = {"tab", "pps", "sol", "fs"}
  PModels = {"PM", "ST", "KS", "MB", "KST"}
  PCosts = {"JB1", "SA1", "WX1", "TR1"}
  PVTypes = {"FORD_ESCORT", "BMW_320i", "VW_VANAGON", "TRUCK"}
  PShapes = {"PM", "ST", "KS", "KST", "MB", "Input", "PMInput", "STD", "KSA", "PMA", "KSI", "EPM", "INIT", "KSpart"}
  PIds = {1, 2}
  MaxItems = 3
  CtSet = {"None", "posint", "posfloat", "npfloat", "npint", "zero", "zerof", "neg", "negf", "text", "nan", "inf", "bool"}
  FDirs = {"root", "rootsl", "sub", "default", "dot", "emptystr", "missing", "nested", "file"}
  FFiles = {"None", "a", "old", "subdir"}
  MaxWrites = 3
  DEV_StateTypeFirstSuperset = FALSE
  DEV_TrajSetterNoDesired = FALSE
  DEV_CostSetterUnchecked = FALSE
  DEV_PrettyFalseBytes = FALSE
  DEV_ReaderShipped = FALSE
VIEW View
INVARIANT InvObjects
INVARIANT InvViews
INVARIANT InvStateTypeRefines
INVARIANT InvCtorRefines
INVARIANT InvReaderTable
INVARIANT InvCtTable
INVARIANT InvLaws
INVARIANT InvTablesAgree
PROPERTY PropRefines
PROPERTY PropRejectAtomic
PROPERTY PropFailedWriteKeepsFiles
