SPECIFICATION Spec
CONSTANTS
  Fams = {"single", "disjoint", "adjacent", "stacked", "overlap", "nested", "lshape", "para", "curved", "cross4", "corner", "mixed4"}
  MaxRoutes = 2
  PerClass = 1
  DEV_RemoveNoRebuild = FALSE
  DEV_MoveNoRebuild = FALSE
  DEV_CopyMisMaps = FALSE
  DEV_PickleNoRebuild = FALSE
  DEV_AddRebuildsFirst = FALSE
  DEV_DeferredRemoveKeepsPolygon = FALSE
  DEV_ForkSharesLanelets = FALSE
  ForkAll = FALSE
  DEV_DrawMovesVertices = FALSE
  DEV_RectKeepsExportedPolygon = FALSE
  ShapeHist = TRUE
  DEV_DiscHalfRadius = FALSE
INVARIANT TypeOK
INVARIANT IndexMirrors
INVARIANT BufMirrors
INVARIANT OriginalIsolated
INVARIANT ShapeAnswers
INVARIANT DirtyOnlyPending
INVARIANT QueriesExact
INVARIANT LawsPoint
INVARIANT LawsRect
INVARIANT LawsPoly
INVARIANT LawsMove
INVARIANT LawsDisc
